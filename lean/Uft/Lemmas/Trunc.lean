import Uft.Model.Trunc
/-
C12 — helper lemmas for the trace-data reader model (Uft/Model/Trunc.lean).
-/
namespace Uft.Trunc

/-! ### little endian, fread -/

@[simp] theorem leBytes_length (n v : Nat) : (leBytes n v).length = n := by
  induction n generalizing v with
  | zero => rfl
  | succ n ih => simp [leBytes, ih]

theorem leVal_leBytes (n v : Nat) (h : v < 256 ^ n) : leVal (leBytes n v) = v := by
  induction n generalizing v with
  | zero => simp at h; simp [leBytes, leVal, h]
  | succ n ih =>
    have h2 : v / 256 < 256 ^ n := by
      rw [Nat.pow_succ] at h
      exact Nat.div_lt_of_lt_mul (by rw [Nat.mul_comm]; exact h)
    have hb : (UInt8.ofNat (v % 256)).toNat = v % 256 := by
      simp [UInt8.toNat_ofNat']
    simp only [leBytes, leVal, ih _ h2, hb]
    omega

@[simp] theorem zeros_length (n : Nat) : (zeros n).length = n := by simp [zeros]

theorem fread_some {n : Nat} {s a b : Bytes} (h : fread n s = some (a, b)) :
    s = a ++ b ∧ a.length = n := by
  unfold fread at h
  split at h
  · simp only [Option.some.injEq, Prod.mk.injEq] at h
    obtain ⟨rfl, rfl⟩ := h
    constructor
    · simp
    · simp; omega
  · simp at h

theorem fread_app {n : Nat} {a : Bytes} (b : Bytes) (h : a.length = n) :
    fread n (a ++ b) = some (a, b) := by
  unfold fread
  subst h
  simp

theorem fread_none {n : Nat} {s : Bytes} (h : s.length < n) : fread n s = none := by
  unfold fread
  have : ¬ n ≤ s.length := by omega
  simp [this]

theorem fread_zero (s : Bytes) : fread 0 s = some ([], s) := by simp [fread]


/-! ### read_task_arg: one piece -/

theorem fread_exact {n : Nat} {a : Bytes} (h : a.length = n) : fread n a = some (a, []) := by
  have := fread_app [] h
  simpa using this

/-- a successful read consumed exactly a prefix `a`, appended it to the data, and `a` on its
    own is read in the same way -/
theorem readArg_split {sp : Spec} {d s d1 s1 : Bytes} (h : readArg sp d s = (d1, s1, true)) :
    ∃ a, s = a ++ s1 ∧ d1 = d ++ a ∧ readArg sp d a = (d1, [], true) := by
  unfold readArg at h
  by_cases h0 : sp.size = 0
  · simp only [h0, ↓reduceIte, Prod.mk.injEq, and_true] at h
    obtain ⟨rfl, rfl⟩ := h
    exact ⟨[], by simp, by simp, by simp [readArg, h0]⟩
  · simp only [h0, ↓reduceIte] at h
    by_cases hs : sp.fmt = .str
    · simp only [hs, ↓reduceIte] at h
      cases hf : fread 2 s with
      | none => simp [hf] at h
      | some p =>
        obtain ⟨l, r⟩ := p
        obtain ⟨rfl, hl⟩ := fread_some hf
        simp only [hf] at h
        by_cases hz : pad4 (d.length + 2) (leVal l) = 0
        · simp only [hz, ↓reduceIte, Prod.mk.injEq, and_true] at h
          obtain ⟨rfl, rfl⟩ := h
          refine ⟨l, rfl, rfl, ?_⟩
          simp [readArg, h0, hs, fread_exact hl, hz]
        · simp only [hz, ↓reduceIte] at h
          cases hf2 : fread (pad4 (d.length + 2) (leVal l)) r with
          | none => simp [hf2] at h
          | some q =>
            obtain ⟨x, r2⟩ := q
            obtain ⟨rfl, hx⟩ := fread_some hf2
            simp only [hf2, Prod.mk.injEq, and_true] at h
            obtain ⟨rfl, rfl⟩ := h
            refine ⟨l ++ x, by simp, by simp, ?_⟩
            simp [readArg, h0, hs, fread_app x hl, hz, fread_exact hx]
    · simp only [hs, ↓reduceIte] at h
      cases hf : fread (pad4 d.length sp.size) s with
      | none => simp [hf] at h
      | some q =>
        obtain ⟨x, r2⟩ := q
        obtain ⟨rfl, hx⟩ := fread_some hf
        simp only [hf, Prod.mk.injEq, and_true] at h
        obtain ⟨rfl, rfl⟩ := h
        refine ⟨x, rfl, rfl, ?_⟩
        simp [readArg, h0, hs, fread_exact hx]

/-- more bytes behind a complete piece do not change how it is read -/
theorem readArg_ext {sp : Spec} {d a d1 : Bytes} (t : Bytes) (h : readArg sp d a = (d1, [], true)) :
    readArg sp d (a ++ t) = (d1, t, true) := by
  unfold readArg at h ⊢
  by_cases h0 : sp.size = 0
  · simp only [h0, ↓reduceIte, Prod.mk.injEq, and_true] at h ⊢
    obtain ⟨rfl, rfl⟩ := h
    simp
  · simp only [h0, ↓reduceIte] at h ⊢
    by_cases hs : sp.fmt = .str
    · simp only [hs, ↓reduceIte] at h ⊢
      cases hf : fread 2 a with
      | none => simp [hf] at h
      | some p =>
        obtain ⟨l, r⟩ := p
        obtain ⟨rfl, hl⟩ := fread_some hf
        simp only [hf] at h
        rw [List.append_assoc, fread_app _ hl]
        simp only
        by_cases hz : pad4 (d.length + 2) (leVal l) = 0
        · simp only [hz, ↓reduceIte, Prod.mk.injEq, and_true] at h ⊢
          obtain ⟨rfl, rfl⟩ := h
          simp
        · simp only [hz, ↓reduceIte] at h ⊢
          cases hf2 : fread (pad4 (d.length + 2) (leVal l)) r with
          | none => simp [hf2] at h
          | some q =>
            obtain ⟨x, r2⟩ := q
            obtain ⟨rfl, hx⟩ := fread_some hf2
            simp only [hf2, Prod.mk.injEq, and_true] at h
            obtain ⟨rfl, rfl⟩ := h
            simp [fread_app _ hx]
    · simp only [hs, ↓reduceIte] at h ⊢
      cases hf : fread (pad4 d.length sp.size) a with
      | none => simp [hf] at h
      | some q =>
        obtain ⟨x, r2⟩ := q
        obtain ⟨rfl, hx⟩ := fread_some hf
        simp only [hf, Prod.mk.injEq, and_true] at h
        obtain ⟨rfl, rfl⟩ := h
        simp [fread_app _ hx]

/-- every strict prefix of a complete piece hits EOF -/
theorem readArg_cut {sp : Spec} {d a d1 : Bytes} (h : readArg sp d a = (d1, [], true))
    {j : Nat} (hj : j < a.length) :
    (readArg sp d (a.take j)).2 = ([], false) := by
  unfold readArg at h ⊢
  by_cases h0 : sp.size = 0
  · simp only [h0, ↓reduceIte, Prod.mk.injEq, and_true] at h
    obtain ⟨_, rfl⟩ := h
    simp at hj
  · simp only [h0, ↓reduceIte] at h ⊢
    by_cases hs : sp.fmt = .str
    · simp only [hs, ↓reduceIte] at h ⊢
      cases hf : fread 2 a with
      | none => simp [hf] at h
      | some p =>
        obtain ⟨l, r⟩ := p
        obtain ⟨rfl, hl⟩ := fread_some hf
        simp only [hf] at h
        by_cases hj2 : j < 2
        · rw [fread_none (by simp; omega)]
        · have ht : List.take j (l ++ r) = l ++ List.take (j - 2) r := by
            rw [List.take_append, hl]
            simp [List.take_of_length_le (show l.length ≤ j by omega)]
          rw [ht, fread_app _ hl]
          simp only
          by_cases hz : pad4 (d.length + 2) (leVal l) = 0
          · simp only [hz, ↓reduceIte, Prod.mk.injEq, and_true] at h
            obtain ⟨_, rfl⟩ := h
            simp at hj; omega
          · simp only [hz, ↓reduceIte] at h ⊢
            cases hf2 : fread (pad4 (d.length + 2) (leVal l)) r with
            | none => simp [hf2] at h
            | some q =>
              obtain ⟨x, r2⟩ := q
              obtain ⟨rfl, hx⟩ := fread_some hf2
              simp only [hf2, Prod.mk.injEq, and_true] at h
              obtain ⟨_, rfl⟩ := h
              rw [fread_none (by simp at hj ⊢; omega)]
    · simp only [hs, ↓reduceIte] at h ⊢
      cases hf : fread (pad4 d.length sp.size) a with
      | none => simp [hf] at h
      | some q =>
        obtain ⟨x, r2⟩ := q
        obtain ⟨rfl, hx⟩ := fread_some hf
        simp only [hf, Prod.mk.injEq, and_true] at h
        obtain ⟨_, rfl⟩ := h
        rw [fread_none (by simp at hj ⊢; omega)]


/-! ### read_task_args: the list of pieces -/

theorem readSpecs_split {isRet : Bool} {l : List Spec} {d s d1 s1 : Bytes}
    (h : readSpecs isRet l d s = (d1, s1, true)) :
    ∃ a, s = a ++ s1 ∧ d1 = d ++ a ∧ readSpecs isRet l d a = (d1, [], true) := by
  induction l generalizing d s with
  | nil =>
    simp only [readSpecs, Prod.mk.injEq, and_true] at h
    obtain ⟨rfl, rfl⟩ := h
    exact ⟨[], by simp, by simp, by simp [readSpecs]⟩
  | cons sp r ih =>
    simp only [readSpecs] at h ⊢
    by_cases hw : (isRet != (sp.idx == 0)) = true
    · simp only [hw, ↓reduceIte] at h ⊢
      exact ih h
    · simp only [hw, Bool.false_eq_true, ↓reduceIte] at h ⊢
      rcases hra : readArg sp d s with ⟨d2, s2, ok⟩
      cases ok with
      | false => simp [hra] at h
      | true =>
        simp only [hra] at h
        obtain ⟨a1, rfl, rfl, ha1⟩ := readArg_split hra
        obtain ⟨a2, rfl, rfl, ha2⟩ := ih h
        refine ⟨a1 ++ a2, by simp, by simp, ?_⟩
        rw [readArg_ext a2 ha1]
        simpa using ha2

theorem readSpecs_ext {isRet : Bool} {l : List Spec} {d a d1 : Bytes} (t : Bytes)
    (h : readSpecs isRet l d a = (d1, [], true)) :
    readSpecs isRet l d (a ++ t) = (d1, t, true) := by
  induction l generalizing d a with
  | nil =>
    simp only [readSpecs, Prod.mk.injEq, and_true] at h ⊢
    obtain ⟨rfl, rfl⟩ := h
    simp
  | cons sp r ih =>
    simp only [readSpecs] at h ⊢
    by_cases hw : (isRet != (sp.idx == 0)) = true
    · simp only [hw, ↓reduceIte] at h ⊢
      exact ih h
    · simp only [hw, Bool.false_eq_true, ↓reduceIte] at h ⊢
      rcases hra : readArg sp d a with ⟨d2, s2, ok⟩
      cases ok with
      | false => simp [hra] at h
      | true =>
        simp only [hra] at h
        obtain ⟨a1, rfl, rfl, ha1⟩ := readArg_split hra
        rw [List.append_assoc, readArg_ext (s2 ++ t) ha1]
        exact ih h

theorem readSpecs_cut {isRet : Bool} {l : List Spec} {d a d1 : Bytes}
    (h : readSpecs isRet l d a = (d1, [], true)) {j : Nat} (hj : j < a.length) :
    (readSpecs isRet l d (a.take j)).2.2 = false := by
  induction l generalizing d a j with
  | nil =>
    simp only [readSpecs, Prod.mk.injEq, and_true] at h
    obtain ⟨_, rfl⟩ := h
    simp at hj
  | cons sp r ih =>
    simp only [readSpecs] at h ⊢
    by_cases hw : (isRet != (sp.idx == 0)) = true
    · simp only [hw, ↓reduceIte] at h ⊢
      exact ih h hj
    · simp only [hw, Bool.false_eq_true, ↓reduceIte] at h ⊢
      rcases hra : readArg sp d a with ⟨d2, s2, ok⟩
      cases ok with
      | false => simp [hra] at h
      | true =>
        simp only [hra] at h
        obtain ⟨a1, rfl, rfl, ha1⟩ := readArg_split hra
        by_cases hlt : j < a1.length
        · have hc := readArg_cut ha1 hlt
          have ht : List.take j (a1 ++ s2) = List.take j a1 := by
            rw [List.take_append]
            simp [show j - a1.length = 0 by omega]
          rw [ht]
          rcases hq : readArg sp d (List.take j a1) with ⟨x, y, z⟩
          rw [hq] at hc
          simp only [Prod.mk.injEq] at hc
          obtain ⟨rfl, rfl⟩ := hc
          rfl
        · have ht : List.take j (a1 ++ s2) = a1 ++ List.take (j - a1.length) s2 := by
            rw [List.take_append]
            simp [List.take_of_length_le (show a1.length ≤ j by omega)]
          rw [ht, readArg_ext _ ha1]
          simp only
          exact ih h (by simp at hj; omega)

/-- the data after a successful read is the old data plus what was consumed -/
theorem readSpecs_exact {isRet : Bool} {l : List Spec} {a d1 : Bytes}
    (h : readSpecs isRet l [] a = (d1, [], true)) : d1 = a := by
  obtain ⟨a', h1, h2, _⟩ := readSpecs_split h
  simp at h1 h2
  rw [h2, h1]


/-! ### the 16-byte header -/

@[simp] theorem encHdr_length (r : Rec) : (encHdr r).length = 16 := by simp [encHdr]

theorem hdrWord_lt {r : Rec} (h2 : r.typ < 4) (h3 : r.depth < 1024) (h4 : r.addr < 2 ^ 48) :
    hdrWord r < 256 ^ 8 := by
  unfold hdrWord
  have : (256 : Nat) ^ 8 = 18446744073709551616 := by decide
  have : (2 : Nat) ^ 48 = 281474976710656 := by decide
  split <;> omega

theorem encHdr_take (r : Rec) : (encHdr r).take 8 = leBytes 8 r.time := by
  simp [encHdr, List.take_append]

theorem encHdr_drop (r : Rec) : (encHdr r).drop 8 = leBytes 8 (hdrWord r) := by
  simp [encHdr, List.drop_append]

theorem hdrMagic_encHdr {r : Rec} (h2 : r.typ < 4) (h3 : r.depth < 1024) (h4 : r.addr < 2 ^ 48) :
    hdrMagic (encHdr r) = 5 := by
  unfold hdrMagic
  rw [encHdr_drop, leVal_leBytes _ _ (hdrWord_lt h2 h3 h4)]
  unfold hdrWord
  split <;> omega

theorem decodeHdr_encHdr {r : Rec} (h1 : r.time < 2 ^ 64) (h2 : r.typ < 4) (h3 : r.depth < 1024)
    (h4 : r.addr < 2 ^ 48) :
    decodeHdr (encHdr r) = { r with payload := [], partl := false } := by
  have ht : r.time < 256 ^ 8 := by
    have : (256 : Nat) ^ 8 = 2 ^ 64 := by decide
    omega
  unfold decodeHdr
  rw [encHdr_drop, encHdr_take, leVal_leBytes _ _ (hdrWord_lt h2 h3 h4), leVal_leBytes _ _ ht]
  cases r with
  | mk time typ more depth addr payload partl =>
    simp only [hdrWord] at *
    simp only [Rec.mk.injEq, true_and, and_true]
    refine ⟨by split <;> omega, ?_, by split <;> omega, by split <;> omega⟩
    cases more <;> simp <;> omega


/-! ### one whole record -/

theorem eventSize_pos {id n : Nat} (h : eventSize id = some n) : n = 24 ∨ n = 16 ∨ n = 4 := by
  unfold eventSize at h
  split at h
  · simp at h; omega
  · split at h
    · simp at h; omega
    · split at h
      · simp at h; omega
      · simp at h

theorem eventSize_watch : eventSize watchVarId = none := by decide

theorem readPayload_event (fixed : Bool) (ctx : Ctx) (addr : Nat) (st : RState) (s : Bytes) :
    readPayload fixed ctx 3 addr st s = readEvent fixed addr st s := by
  simp [readPayload]

theorem readEvent_whole_fixed {id n : Nat} {p : Bytes} (fixed : Bool) (hev : eventSize id = some n)
    (hp : p.length = n) (st : RState) (u : Bytes) :
    readEvent fixed id st (leBytes 2 n ++ (p ++ u)) = .ok .event p (u.drop (pad8 (n + 2))) := by
  have hn := eventSize_pos hev
  have hle : leVal (leBytes 2 n) = n := leVal_leBytes _ _ (by omega)
  simp only [readEvent, hev, fread_app _ (leBytes_length 2 _), hle, ne_eq, not_true_eq_false,
    ↓reduceIte, fread_app u hp]

theorem readEvent_whole_watch {p : Bytes} (h8 : 8 ≤ p.length) (h16 : p.length ≤ 16)
    (st : RState) (u : Bytes) :
    readEvent true watchVarId st (leBytes 2 p.length ++ (p ++ u)) =
      .ok .event p (u.drop (pad8 (p.length + 2))) := by
  have hle : leVal (leBytes 2 p.length) = p.length := leVal_leBytes _ _ (by omega)
  obtain ⟨a, x, rfl, ha⟩ : ∃ a x, p = a ++ x ∧ a.length = 8 :=
    ⟨p.take 8, p.drop 8, by simp, by simp; omega⟩
  have hx : x.length = (a ++ x).length - 8 := by simp; omega
  have hc1 : (decide ((a ++ x).length < 8) || decide ((a ++ x).length > 16)) = false := by
    simp; simp at h16; omega
  have hc2 : (decide ((a ++ x).length < 8) || decide ((a ++ x).length > 24)) = false := by
    simp; simp at h16; omega
  simp only [readEvent, eventSize_watch, ↓reduceIte, fread_app _ (leBytes_length 2 _), hle,
    hc1, hc2, Bool.and_false, Bool.false_eq_true, List.append_assoc, fread_app _ ha,
    fread_app u hx]

theorem rec_eta {r : Rec} (h5 : r.partl = false) :
    ({ time := r.time, typ := r.typ, more := r.more, depth := r.depth, addr := r.addr,
       payload := r.payload, partl := false } : Rec) = r := by
  cases r; simp_all

theorem readRec_whole {ctx : Ctx} {r : Rec} (hwf : WF ctx r) (st : RState) (u : Bytes) :
    ∃ st', readRec true ctx st (encHdr r ++ encBody r ++ u) =
        .got r st' (u.drop (pad8 (encBody r).length)) ∧ st'.ust = encHdr r := by
  obtain ⟨h1, h2, h3, h4, h5, h6, h7⟩ := hwf
  have hm := hdrMagic_encHdr h2 h3 h4
  have hd := decodeHdr_encHdr h1 h2 h3 h4
  unfold readRec
  rw [List.append_assoc, fread_app _ (encHdr_length r)]
  simp only [hm, ne_eq, not_true_eq_false, ↓reduceIte, hd]
  cases hmore : r.more with
  | false =>
    have hp := h6 hmore
    refine ⟨{ st with ust := encHdr r }, ?_, rfl⟩
    have := rec_eta h5
    rw [hmore, hp] at this
    simp [encBody, pad8, hmore, this]
  | true =>
    simp only [Bool.not_true, Bool.false_eq_true, ↓reduceIte]
    have heta := rec_eta h5
    rw [hmore] at heta
    rcases h7 hmore with ⟨ht, l, hl, hrd, hne⟩ | ⟨ht, hlen, hev⟩
    · -- arguments / return value
      have hnot3 : r.typ ≠ 3 := by omega
      have hbody : encBody r = r.payload := by simp [encBody, hmore, hnot3]
      have hrd' := readSpecs_ext u hrd
      refine ⟨{ args := .specs l, data := r.payload, ust := encHdr r }, ?_, rfl⟩
      simp only [readPayload, ht, ↓reduceIte, hl, hbody, hrd', deliver, isMissing]
      have hmiss : (r.payload.isEmpty && actualLen (r.typ == 1) l != 0) = false := by
        rcases hne with hne | hne
        · cases hp : r.payload with
          | nil => exact absurd hp hne
          | cons => simp
        · simp [hne]
      simp only [hmiss, Bool.false_eq_true, ↓reduceIte, heta]
    · -- events
      have hbody : encBody r = leBytes 2 r.payload.length ++ r.payload := by
        simp [encBody, hmore, ht]
      have hne : r.payload.isEmpty = false := by
        cases hp : r.payload with
        | nil =>
          rcases hev with hev | ⟨_, h8, _⟩
          · have := eventSize_pos hev; rw [hp] at this; simp at this
          · rw [hp] at h8; simp at h8
        | cons => rfl
      have hlen2 : (leBytes 2 r.payload.length ++ r.payload).length = r.payload.length + 2 := by
        simp; omega
      refine ⟨{ args := .event, data := r.payload, ust := encHdr r }, ?_, rfl⟩
      rw [ht, readPayload_event, hbody, List.append_assoc, hlen2]
      rcases hev with hev | ⟨ha, h8, h16⟩
      · rw [readEvent_whole_fixed true hev rfl]
        simp only [deliver, isMissing, hne, Bool.false_eq_true, ↓reduceIte]
        rw [← ht, heta]
      · rw [ha, readEvent_whole_watch h8 h16]
        simp only [deliver, isMissing, hne, Bool.false_eq_true, ↓reduceIte]
        rw [← ha, ← ht, heta]


/-! ### a record cut short -/

theorem take_app_lt {a b : Bytes} {j : Nat} (h : j < a.length) : (a ++ b).take j = a.take j := by
  rw [List.take_append]
  simp [show j - a.length = 0 by omega]

theorem take_app_ge {a b : Bytes} {j : Nat} (h : a.length ≤ j) :
    (a ++ b).take j = a ++ b.take (j - a.length) := by
  rw [List.take_append]
  simp [List.take_of_length_le h]

theorem readEvent_cut_fixed {id n : Nat} {p : Bytes} (fixed : Bool) (hev : eventSize id = some n)
    (hp : p.length = n) (st : RState) {j : Nat} (hj : j < 2 + n) :
    readEvent fixed id st ((leBytes 2 n ++ p).take j) = .eofFail st.args st.data := by
  have hn := eventSize_pos hev
  have hle : leVal (leBytes 2 n) = n := leVal_leBytes _ _ (by omega)
  by_cases h2 : j < 2
  · simp only [readEvent, hev]
    rw [fread_none (by simp; omega)]
  · rw [take_app_ge (by simp; omega)]
    simp only [readEvent, hev, fread_app _ (leBytes_length 2 _), hle, ne_eq, not_true_eq_false,
      ↓reduceIte, leBytes_length]
    rw [fread_none (by simp; omega)]

theorem readEvent_cut_watch {p : Bytes} (h8 : 8 ≤ p.length) (h16 : p.length ≤ 16)
    (st : RState) {j : Nat} (hj : j < 2 + p.length) :
    readEvent true watchVarId st ((leBytes 2 p.length ++ p).take j) = .eofFail st.args st.data := by
  have hle : leVal (leBytes 2 p.length) = p.length := leVal_leBytes _ _ (by omega)
  obtain ⟨a, x, rfl, ha⟩ : ∃ a x, p = a ++ x ∧ a.length = 8 :=
    ⟨p.take 8, p.drop 8, by simp, by simp; omega⟩
  have hc1 : (decide ((a ++ x).length < 8) || decide ((a ++ x).length > 16)) = false := by
    simp; simp at h16; omega
  have hc2 : (decide ((a ++ x).length < 8) || decide ((a ++ x).length > 24)) = false := by
    simp; simp at h16; omega
  by_cases h2 : j < 2
  · simp only [readEvent, eventSize_watch, ↓reduceIte]
    rw [fread_none (by simp; omega)]
  · rw [take_app_ge (by simp; omega)]
    simp only [readEvent, eventSize_watch, ↓reduceIte, fread_app _ (leBytes_length 2 _), hle,
      hc1, hc2, Bool.and_false, Bool.false_eq_true, leBytes_length]
    by_cases h10 : j - 2 < 8
    · rw [fread_none (by simp; omega)]
    · rw [take_app_ge (by omega), fread_app _ ha]
      simp only
      rw [fread_none (by simp at hj ⊢; omega)]

theorem readRec_cut {ctx : Ctx} {r : Rec} (hwf : WF ctx r) (st : RState) (u : Bytes) {k : Nat}
    (hk : k < need r) :
    ∃ st', readRec true ctx st ((encHdr r ++ encBody r ++ u).take k) = .done .eof st' ∧
      st'.ust = st.ust := by
  obtain ⟨h1, h2, h3, h4, h5, h6, h7⟩ := hwf
  unfold need at hk
  by_cases hk16 : k < 16
  · refine ⟨{ st with ust := st.ust }, ?_, rfl⟩
    unfold readRec
    rw [fread_none (by simp; omega)]
    simp
  · have hm := hdrMagic_encHdr h2 h3 h4
    have hd := decodeHdr_encHdr h1 h2 h3 h4
    rw [List.append_assoc, take_app_ge (by simp; omega), encHdr_length,
      take_app_lt (show k - 16 < (encBody r).length by omega)]
    unfold readRec
    rw [fread_app _ (encHdr_length r)]
    simp only [hm, ne_eq, not_true_eq_false, ↓reduceIte, hd]
    cases hmore : r.more with
    | false => simp [encBody, hmore] at hk; omega
    | true =>
      simp only [Bool.not_true, Bool.false_eq_true, ↓reduceIte]
      refine ⟨{ args := .null, data := [], ust := st.ust }, ?_, rfl⟩
      rcases h7 hmore with ⟨ht, l, hl, hrd, hne⟩ | ⟨ht, hlen, hev⟩
      · have hnot3 : r.typ ≠ 3 := by omega
        have hbody : encBody r = r.payload := by simp [encBody, hmore, hnot3]
        rw [hbody] at hk ⊢
        have hc := readSpecs_cut hrd (show k - 16 < r.payload.length by omega)
        rcases hq : readSpecs (r.typ == 1) l [] (List.take (k - 16) r.payload) with ⟨x, y, z⟩
        rw [hq] at hc
        simp only at hc
        subst hc
        simp only [readPayload, ht, ↓reduceIte, hl, hq]
      · have hbody : encBody r = leBytes 2 r.payload.length ++ r.payload := by
          simp [encBody, hmore, ht]
        rw [hbody] at hk ⊢
        simp only [List.length_append, leBytes_length] at hk
        rw [ht, readPayload_event]
        rcases hev with hev | ⟨ha, h8, h16⟩
        · rw [readEvent_cut_fixed true hev rfl st (by omega)]
        · rw [ha, readEvent_cut_watch h8 h16 st (by omega)]


/-! ### the whole file, cut anywhere -/

theorem encode_length (r : Rec) :
    (encode r).length = need r + pad8 (encBody r).length := by
  simp [encode, need]; omega

theorem readAllF_cut (ctx : Ctx) (rs : List Rec) (hwf : ∀ r ∈ rs, WF ctx r) (k fuel : Nat)
    (st : RState) (hf : wholeRecordsBefore rs k < fuel) :
    readAllF true ctx fuel st ((encodeAll rs).take k) =
      (rs.take (wholeRecordsBefore rs k), .eof,
       lastHdrOr st.ust (rs.take (wholeRecordsBefore rs k))) := by
  induction rs generalizing k fuel st with
  | nil =>
    cases fuel with
    | zero => simp [wholeRecordsBefore] at hf
    | succ n =>
      simp [encodeAll, readAllF, readRec, fread_none, wholeRecordsBefore, lastHdrOr]
  | cons r rs ih =>
    have hr : WF ctx r := hwf r (by simp)
    have hrs : ∀ x ∈ rs, WF ctx x := fun x hx => hwf x (by simp [hx])
    cases fuel with
    | zero => omega
    | succ n =>
      have henc : encodeAll (r :: rs) =
          encHdr r ++ encBody r ++ (zeros (pad8 (encBody r).length) ++ encodeAll rs) := by
        simp [encodeAll, encode]
      by_cases hn : need r ≤ k
      · -- the record is completely present
        have hw : wholeRecordsBefore (r :: rs) k =
            1 + wholeRecordsBefore rs (k - (encode r).length) := by
          simp [wholeRecordsBefore, hn]
        rw [hw] at hf ⊢
        have hlen : (encHdr r ++ encBody r).length = need r := by simp [need]
        rw [henc, take_app_ge (by rw [hlen]; exact hn), hlen]
        obtain ⟨st', hgot, hust⟩ := readRec_whole hr st
          (List.take (k - need r) (zeros (pad8 (encBody r).length) ++ encodeAll rs))
        have hrest : List.drop (pad8 (encBody r).length)
            (List.take (k - need r) (zeros (pad8 (encBody r).length) ++ encodeAll rs)) =
            (encodeAll rs).take (k - (encode r).length) := by
          rw [List.drop_take, encode_length]
          congr 1
          · omega
          · rw [List.drop_append]
            simp
        simp only [readAllF, hgot, hrest]
        rw [ih hrs _ n st' (by omega), hust]
        simp [Nat.add_comm 1, List.take_succ_cons, lastHdrOr]
      · -- cut inside this record
        have hw : wholeRecordsBefore (r :: rs) k = 0 := by
          simp [wholeRecordsBefore, hn]
        rw [hw]
        obtain ⟨st', hdone, hust⟩ := readRec_cut hr st
          (zeros (pad8 (encBody r).length) ++ encodeAll rs) (show k < need r by omega)
        rw [henc]
        simp only [readAllF, hdone, hust, List.take_zero, lastHdrOr]

/-- each whole record needs at least its 16 header bytes -/
theorem whole_le (rs : List Rec) (k : Nat) :
    16 * wholeRecordsBefore rs k ≤ k ∧ 16 * wholeRecordsBefore rs k ≤ (encodeAll rs).length := by
  induction rs generalizing k with
  | nil => simp [wholeRecordsBefore]
  | cons r rs ih =>
    simp only [wholeRecordsBefore]
    split
    · rename_i hn
      have := ih (k - (encode r).length)
      have hl := encode_length r
      simp only [encodeAll, List.length_append]
      unfold need at hn hl
      by_cases hk : (encode r).length ≤ k
      · omega
      · have h0 : k - (encode r).length = 0 := by omega
        rw [h0] at this ⊢
        have hz : wholeRecordsBefore rs 0 = 0 := by
          cases rs with
          | nil => rfl
          | cons x xs => simp [wholeRecordsBefore, need]
        rw [hz]
        omega
    · omega

theorem whole_full (rs : List Rec) : wholeRecordsBefore rs (encodeAll rs).length = rs.length := by
  induction rs with
  | nil => rfl
  | cons r rs ih =>
    have hl := encode_length r
    have : need r ≤ (encodeAll (r :: rs)).length := by
      simp only [encodeAll, List.length_append]; omega
    simp only [wholeRecordsBefore, this, ↓reduceIte]
    simp only [encodeAll, List.length_append, Nat.add_sub_cancel_left, ih, List.length_cons]
    omega

theorem whole_le_length (rs : List Rec) (k : Nat) : wholeRecordsBefore rs k ≤ rs.length := by
  induction rs generalizing k with
  | nil => simp [wholeRecordsBefore]
  | cons r rs ih =>
    simp only [wholeRecordsBefore]
    split
    · have := ih (k - (encode r).length); simp only [List.length_cons]; omega
    · omega


/-! ### the consumers stay inside what the reader delivered -/

theorem pad4_align {len size : Nat} (h : len % 4 = 0) : pad4 len size = align4 size := by
  unfold pad4 align4
  split <;> omega

theorem align4_mod (n : Nat) : align4 n % 4 = 0 := by
  unfold align4; omega

theorem align4_ge (n : Nat) : n ≤ align4 n := by
  unfold align4; omega

theorem readArg_consume {sp : Spec} {d s d1 s1 : Bytes} (raw : Bool)
    (h : readArg sp d s = (d1, s1, true)) (hok : SpecOK sp) (h4 : d.length % 4 = 0) (e : Bytes) :
    (consumeOne true raw sp d.length (d1 ++ e)).1 = true ∧
    d.length + align4 (consumeOne true raw sp d.length (d1 ++ e)).2 = d1.length ∧
    d1.length % 4 = 0 := by
  obtain ⟨hstr, hchr, hoth⟩ := hok
  unfold readArg at h
  by_cases h0 : sp.size = 0
  · simp only [h0, ↓reduceIte, Prod.mk.injEq, and_true] at h
    obtain ⟨rfl, rfl⟩ := h
    cases hf : sp.fmt with
    | str => exact absurd h0 (hstr hf)
    | chr => have := hchr hf; omega
    | strct => cases raw <;> simp [consumeOne, hf, h0, align4, h4]
    | other => cases raw <;> simp [consumeOne, hf, h0, align4, h4]
  · simp only [h0, ↓reduceIte] at h
    by_cases hs : sp.fmt = .str
    · simp only [hs, ↓reduceIte] at h
      cases hf : fread 2 s with
      | none => simp [hf] at h
      | some p =>
        obtain ⟨l, r⟩ := p
        obtain ⟨rfl, hl⟩ := fread_some hf
        simp only [hf] at h
        have hpa : pad4 (d.length + 2) (leVal l) + 2 = align4 (leVal l + 2) := by
          unfold pad4 align4
          split <;> omega
        by_cases hz : pad4 (d.length + 2) (leVal l) = 0
        · exfalso
          unfold pad4 at hz
          split at hz <;> omega
        · simp only [hz, ↓reduceIte] at h
          cases hf2 : fread (pad4 (d.length + 2) (leVal l)) r with
          | none => simp [hf2] at h
          | some q =>
            obtain ⟨x, r2⟩ := q
            obtain ⟨rfl, hx⟩ := fread_some hf2
            simp only [hf2, Prod.mk.injEq, and_true] at h
            obtain ⟨rfl, rfl⟩ := h
            have hsl : leVal (List.take 2 (List.drop d.length (d ++ l ++ x ++ e))) = leVal l := by
              have : d ++ l ++ x ++ e = d ++ (l ++ (x ++ e)) := by simp
              rw [this, List.drop_left, take_app_ge (by omega), hl]
              simp
            have hge : leVal l ≤ x.length := by
              rw [hx]; unfold pad4; split <;> omega
            have hlen : d.length + 2 ≤ (d ++ l ++ x ++ e).length := by simp; omega
            simp only [consumeOne, hs, hlen, ↓reduceIte, hsl, Bool.or_true, Bool.and_true,
              decide_eq_true_eq]
            have hal := align4_mod (leVal l + 2)
            refine ⟨by simp; omega, by simp; omega, by simp; omega⟩
    · simp only [hs, ↓reduceIte] at h
      cases hf : fread (pad4 d.length sp.size) s with
      | none => simp [hf] at h
      | some q =>
        obtain ⟨x, r2⟩ := q
        obtain ⟨rfl, hx⟩ := fread_some hf
        simp only [hf, Prod.mk.injEq, and_true] at h
        obtain ⟨rfl, rfl⟩ := h
        rw [pad4_align h4] at hx
        have hal := align4_mod sp.size
        have hag := align4_ge sp.size
        cases hfm : sp.fmt with
        | str => exact absurd hfm hs
        | chr =>
          have h1 := hchr hfm
          cases raw <;> simp [consumeOne, hfm, h1, hx] <;> (simp [align4] at hx ⊢; omega)
        | strct =>
          cases raw <;> simp [consumeOne, hfm, hx] <;> omega
        | other =>
          have h8 := hoth hfm
          cases raw <;> simp [consumeOne, hfm, hx] <;> omega


theorem readSpecs_consume (raw isRet : Bool) {l : List Spec} {d s d' s1 : Bytes}
    (h : readSpecs isRet l d s = (d', s1, true)) (hok : ∀ sp ∈ l, SpecOK sp)
    (h4 : d.length % 4 = 0) (e : Bytes) :
    consumeSpecs true raw isRet l d.length (d' ++ e) = true := by
  induction l generalizing d s with
  | nil => simp [consumeSpecs]
  | cons sp r ih =>
    have hr : ∀ x ∈ r, SpecOK x := fun x hx => hok x (by simp [hx])
    simp only [readSpecs] at h
    simp only [consumeSpecs]
    by_cases hw : (isRet != (sp.idx == 0)) = true
    · simp only [hw, ↓reduceIte] at h ⊢
      exact ih h hr h4
    · simp only [hw, Bool.false_eq_true, ↓reduceIte] at h ⊢
      rcases hra : readArg sp d s with ⟨d2, s2, ok⟩
      cases ok with
      | false => simp [hra] at h
      | true =>
        simp only [hra] at h
        obtain ⟨a2, _, rfl, _⟩ := readSpecs_split h
        obtain ⟨c1, c2, c3⟩ := readArg_consume raw hra (hok sp (by simp)) h4 (a2 ++ e)
        rw [List.append_assoc, c1, c2]
        simp only [Bool.true_and]
        split
        · rfl
        · have := ih h hr c3
          rw [List.append_assoc] at this
          exact this

/-- what the repaired reader delivers: never a partial record, and the consumers' walk over a
    delivered payload stays in bounds -/
theorem readRec_got {ctx : Ctx} (hok : SpecsOK ctx) (raw : Bool) {st : RState} {s : Bytes}
    {r : Rec} {st' : RState} {rest : Bytes} (h : readRec true ctx st s = .got r st' rest)
    :
    r.partl = false ∧ consumeOk true raw ctx r = true := by
  unfold readRec at h
  cases hf : fread 16 s with
  | none => simp [hf] at h
  | some p =>
    obtain ⟨hd, s1⟩ := p
    obtain ⟨rfl, hl⟩ := fread_some hf
    simp only [hf] at h
    split at h
    · simp at h
    · by_cases hmore : (decodeHdr hd).more = true
      · simp only [hmore, Bool.not_true, Bool.false_eq_true, ↓reduceIte] at h
        cases hp : readPayload true ctx (decodeHdr hd).typ (decodeHdr hd).addr st s1 with
        | stop x => simp [hp] at h
        | eofFail a b => simp [hp] at h
        | ok args data rest' =>
          simp only [hp, deliver] at h
          split at h
          · simp at h
          · rename_i hmiss
            simp only [StepRes.got.injEq] at h
            obtain ⟨rfl, _, rfl⟩ := h
            refine ⟨rfl, ?_⟩
            · simp only [consumeOk, hmore, Bool.not_true, Bool.false_eq_true, ↓reduceIte]
              unfold readPayload at hp
              by_cases h01 : (decodeHdr hd).typ = 0 ∨ (decodeHdr hd).typ = 1
              · simp only [h01, ↓reduceIte] at hp ⊢
                cases hsp : ctx.specs (decodeHdr hd).addr with
                | none =>
                  simp only [hsp, PayRes.ok.injEq] at hp
                  obtain ⟨rfl, _, _⟩ := hp
                  simp [isMissing] at hmiss
                | some l =>
                  simp only [hsp] at hp ⊢
                  rcases hq : readSpecs ((decodeHdr hd).typ == 1) l [] s1 with ⟨d, s2, ok⟩
                  cases ok with
                  | false => simp [hq] at hp
                  | true =>
                    simp only [hq, PayRes.ok.injEq] at hp
                    obtain ⟨_, rfl, _⟩ := hp
                    have := readSpecs_consume raw _ hq (hok _ _ hsp) (by simp) []
                    simpa using this
              · simp only [h01, ↓reduceIte] at hp ⊢
                by_cases h3 : (decodeHdr hd).typ = 3
                case neg => simp [h3]
                simp only [h3, ↓reduceIte] at hp ⊢
                -- events
                unfold readEvent at hp
                unfold consumeEvent
                cases hev : eventSize (decodeHdr hd).addr with
                | some n =>
                  simp only [hev] at hp ⊢
                  cases hf2 : fread 2 s1 with
                  | none => simp [hf2] at hp
                  | some q =>
                    obtain ⟨l2, s2⟩ := q
                    simp only [hf2] at hp
                    split at hp
                    · simp at hp
                    · cases hf3 : fread n s2 with
                      | none => simp [hf3] at hp
                      | some q3 =>
                        obtain ⟨x, s3⟩ := q3
                        obtain ⟨_, hx⟩ := fread_some hf3
                        simp only [hf3, PayRes.ok.injEq] at hp
                        obtain ⟨_, rfl, _⟩ := hp
                        simp [hx]
                | none =>
                  simp only [hev] at hp ⊢
                  split at hp
                  · rename_i hw
                    simp only [hw, ↓reduceIte]
                    cases hf2 : fread 2 s1 with
                    | none => simp [hf2] at hp
                    | some q =>
                      obtain ⟨l2, s2⟩ := q
                      simp only [hf2] at hp
                      split at hp
                      · simp at hp
                      · rename_i hc1
                        cases hf3 : fread 8 s2 with
                        | none => simp [hf3] at hp
                        | some q3 =>
                          obtain ⟨a, s3⟩ := q3
                          obtain ⟨_, ha⟩ := fread_some hf3
                          simp only [hf3] at hp
                          split at hp
                          · simp at hp
                          · cases hf4 : fread (leVal l2 - 8) s3 with
                            | none => simp [hf4] at hp
                            | some q4 =>
                              obtain ⟨x, s4⟩ := q4
                              obtain ⟨_, hx⟩ := fread_some hf4
                              simp only [hf4, PayRes.ok.injEq] at hp
                              obtain ⟨_, rfl, _⟩ := hp
                              simp at hc1
                              simp [ha, hx]
                              omega
                  · simp at hp
      · have hm : (decodeHdr hd).more = false := by simpa using hmore
        simp only [hm, Bool.not_false, ↓reduceIte, StepRes.got.injEq] at h
        obtain ⟨rfl, _, rfl⟩ := h
        refine ⟨rfl, ?_⟩
        simp [consumeOk, hm]


theorem readEvent_not_oob (id : Nat) (st : RState) (s : Bytes) :
    readEvent true id st s ≠ .stop .oob := by
  unfold readEvent
  cases eventSize id with
  | some n =>
    simp only
    cases fread 2 s with
    | none => simp
    | some q =>
      simp only
      split
      · simp
      · cases fread n q.2 <;> simp
  | none =>
    simp only
    split
    · cases fread 2 s with
      | none => simp
      | some q =>
        simp only
        split
        · simp
        · rename_i hc
          cases fread 8 q.2 with
          | none => simp
          | some q2 =>
            simp only
            split
            · rename_i hc2
              exfalso
              simp at hc hc2
              omega
            · cases fread (leVal q.1 - 8) q2.2 <;> simp
    · simp

theorem readPayload_not_oob (ctx : Ctx) (typ addr : Nat) (st : RState) (s : Bytes) :
    readPayload true ctx typ addr st s ≠ .stop .oob := by
  unfold readPayload
  split
  · cases ctx.specs addr with
    | none => simp
    | some l =>
      simp only
      rcases readSpecs (typ == 1) l [] s with ⟨d, s1, ok⟩
      cases ok <;> simp
  · split
    · exact readEvent_not_oob _ _ _
    · simp

theorem readRec_done_not_oob {ctx : Ctx} {st st' : RState} {s : Bytes} {status : Status}
    (h : readRec true ctx st s = .done status st') : status ≠ .oob := by
  unfold readRec at h
  cases hf : fread 16 s with
  | none =>
    simp only [hf, StepRes.done.injEq] at h
    rw [← h.1]; simp
  | some p =>
    simp only [hf] at h
    split at h
    · simp only [StepRes.done.injEq] at h
      rw [← h.1]; simp
    · split at h
      · simp at h
      · have hno := readPayload_not_oob ctx (decodeHdr p.1).typ (decodeHdr p.1).addr st p.2
        cases hp : readPayload true ctx (decodeHdr p.1).typ (decodeHdr p.1).addr st p.2 with
        | ok a d r =>
          simp only [hp, deliver] at h
          split at h
          · simp only [StepRes.done.injEq] at h
            rw [← h.1]; simp
          · simp at h
        | stop x =>
          simp only [hp, StepRes.done.injEq] at h
          rw [← h.1]
          intro hx
          rw [hx] at hp
          exact hno hp
        | eofFail a d =>
          simp only [hp, ↓reduceIte, StepRes.done.injEq] at h
          rw [← h.1]; simp

/-- the repaired reader on any byte string: no out-of-bounds status, no partial record, every
    delivered payload is safe for the consumers -/
theorem readAllF_safe {ctx : Ctx} (hok : SpecsOK ctx) (raw : Bool) (fuel : Nat) (st : RState)
    (s : Bytes) :
    (readAllF true ctx fuel st s).2.1 ≠ .oob ∧
    ∀ r ∈ (readAllF true ctx fuel st s).1, r.partl = false ∧ consumeOk true raw ctx r = true := by
  induction fuel generalizing st s with
  | zero => simp [readAllF]
  | succ n ih =>
    simp only [readAllF]
    cases hr : readRec true ctx st s with
    | done status st' =>
      simp only [List.not_mem_nil, false_implies, implies_true, and_true]
      exact readRec_done_not_oob hr
    | got r st' rest =>
      simp only [List.mem_cons]
      obtain ⟨i1, i2⟩ := ih st' rest
      refine ⟨i1, ?_⟩
      intro x hx
      rcases hx with rfl | hx
      · exact readRec_got hok raw hr
      · exact i2 x hx


/-! ### termination: every delivered record consumed at least its header -/

theorem readEvent_le {fixed : Bool} {id : Nat} {st : RState} {s : Bytes} {a : ArgsPtr}
    {d rest : Bytes} (h : readEvent fixed id st s = .ok a d rest) : rest.length ≤ s.length := by
  unfold readEvent at h
  cases hev : eventSize id with
  | some n =>
    simp only [hev] at h
    cases hf : fread 2 s with
    | none => simp [hf] at h
    | some q =>
      obtain ⟨l, s1⟩ := q
      obtain ⟨rfl, _⟩ := fread_some hf
      simp only [hf] at h
      split at h
      · simp at h
      · cases hf2 : fread n s1 with
        | none => simp [hf2] at h
        | some q2 =>
          obtain ⟨x, s2⟩ := q2
          obtain ⟨rfl, _⟩ := fread_some hf2
          simp only [hf2, PayRes.ok.injEq] at h
          obtain ⟨_, _, rfl⟩ := h
          simp; omega
  | none =>
    simp only [hev] at h
    split at h
    · cases hf : fread 2 s with
      | none => simp [hf] at h
      | some q =>
        obtain ⟨l, s1⟩ := q
        obtain ⟨rfl, _⟩ := fread_some hf
        simp only [hf] at h
        split at h
        · simp at h
        · cases hf2 : fread 8 s1 with
          | none => simp [hf2] at h
          | some q2 =>
            obtain ⟨x, s2⟩ := q2
            obtain ⟨rfl, _⟩ := fread_some hf2
            simp only [hf2] at h
            split at h
            · simp at h
            · cases hf3 : fread (leVal l - 8) s2 with
              | none => simp [hf3] at h
              | some q3 =>
                obtain ⟨y, s3⟩ := q3
                obtain ⟨rfl, _⟩ := fread_some hf3
                simp only [hf3, PayRes.ok.injEq] at h
                obtain ⟨_, _, rfl⟩ := h
                simp; omega
    · simp at h

theorem readPayload_le {fixed : Bool} {ctx : Ctx} {typ addr : Nat} {st : RState} {s : Bytes}
    {a : ArgsPtr} {d rest : Bytes} (h : readPayload fixed ctx typ addr st s = .ok a d rest) :
    rest.length ≤ s.length := by
  unfold readPayload at h
  split at h
  · cases hsp : ctx.specs addr with
    | none =>
      simp only [hsp, PayRes.ok.injEq] at h
      obtain ⟨_, _, rfl⟩ := h
      exact Nat.le_refl _
    | some l =>
      simp only [hsp] at h
      rcases hq : readSpecs (typ == 1) l [] s with ⟨d2, s2, ok⟩
      cases ok with
      | false => simp [hq] at h
      | true =>
        simp only [hq, PayRes.ok.injEq] at h
        obtain ⟨_, _, rfl⟩ := h
        obtain ⟨a', rfl, _, _⟩ := readSpecs_split hq
        simp; omega
  · split at h
    · exact readEvent_le h
    · simp only [PayRes.ok.injEq] at h
      obtain ⟨_, _, rfl⟩ := h
      exact Nat.le_refl _

theorem deliver_got {r0 r : Rec} {args : ArgsPtr} {data rest ust rest' : Bytes} {p : Bool}
    {st' : RState} (h : deliver r0 args data rest ust p = .got r st' rest') : rest' = rest := by
  unfold deliver at h
  split at h
  · simp at h
  · simp only [StepRes.got.injEq] at h
    exact h.2.2.symm

theorem readRec_progress {fixed : Bool} {ctx : Ctx} {st st' : RState} {s rest : Bytes} {r : Rec}
    (h : readRec fixed ctx st s = .got r st' rest) : rest.length + 16 ≤ s.length := by
  unfold readRec at h
  cases hf : fread 16 s with
  | none => simp [hf] at h
  | some p =>
    obtain ⟨hd, s1⟩ := p
    obtain ⟨rfl, hl⟩ := fread_some hf
    simp only [hf] at h
    split at h
    · simp at h
    · split at h
      · simp only [StepRes.got.injEq] at h
        obtain ⟨_, _, rfl⟩ := h
        simp; omega
      · cases hp : readPayload fixed ctx (decodeHdr hd).typ (decodeHdr hd).addr st s1 with
        | ok a d r' =>
          simp only [hp] at h
          have := deliver_got h
          subst this
          have := readPayload_le hp
          simp; omega
        | stop x => simp [hp] at h
        | eofFail a d =>
          simp only [hp] at h
          split at h
          · simp at h
          · have := deliver_got h
            subst this
            simp; omega

theorem readEvent_not_fuel (fixed : Bool) (id : Nat) (st : RState) (s : Bytes) :
    readEvent fixed id st s ≠ .stop .fuel := by
  unfold readEvent
  cases eventSize id with
  | some n =>
    simp only
    cases fread 2 s with
    | none => simp
    | some q =>
      simp only
      split
      · simp
      · cases fread n q.2 <;> simp
  | none =>
    simp only
    split
    · cases fread 2 s with
      | none => simp
      | some q =>
        simp only
        split
        · simp
        · cases fread 8 q.2 with
          | none => simp
          | some q2 =>
            simp only
            split
            · simp
            · cases fread (leVal q.1 - 8) q2.2 <;> simp
    · simp

theorem readPayload_not_fuel (fixed : Bool) (ctx : Ctx) (typ addr : Nat) (st : RState) (s : Bytes) :
    readPayload fixed ctx typ addr st s ≠ .stop .fuel := by
  unfold readPayload
  split
  · cases ctx.specs addr with
    | none => simp
    | some l =>
      simp only
      rcases readSpecs (typ == 1) l [] s with ⟨d, s1, ok⟩
      cases ok <;> simp
  · split
    · exact readEvent_not_fuel _ _ _ _
    · simp

theorem readRec_done_not_fuel {fixed : Bool} {ctx : Ctx} {st st' : RState} {s : Bytes}
    {status : Status} (h : readRec fixed ctx st s = .done status st') : status ≠ .fuel := by
  unfold readRec at h
  cases hf : fread 16 s with
  | none =>
    simp only [hf, StepRes.done.injEq] at h
    rw [← h.1]; simp
  | some p =>
    simp only [hf] at h
    split at h
    · simp only [StepRes.done.injEq] at h
      rw [← h.1]; simp
    · split at h
      · simp at h
      · have hno := readPayload_not_fuel fixed ctx (decodeHdr p.1).typ (decodeHdr p.1).addr st p.2
        cases hp : readPayload fixed ctx (decodeHdr p.1).typ (decodeHdr p.1).addr st p.2 with
        | ok a d r =>
          simp only [hp, deliver] at h
          split at h
          · simp only [StepRes.done.injEq] at h
            rw [← h.1]; simp
          · simp at h
        | stop x =>
          simp only [hp, StepRes.done.injEq] at h
          rw [← h.1]
          intro hx
          rw [hx] at hp
          exact hno hp
        | eofFail a d =>
          simp only [hp] at h
          split at h
          · simp only [StepRes.done.injEq] at h
            rw [← h.1]; simp
          · simp only [deliver] at h
            split at h
            · simp only [StepRes.done.injEq] at h
              rw [← h.1]; simp
            · simp at h

theorem readAllF_fuel (fixed : Bool) (ctx : Ctx) (fuel : Nat) (st : RState) (s : Bytes)
    (h : s.length / 16 < fuel) : (readAllF fixed ctx fuel st s).2.1 ≠ .fuel := by
  induction fuel generalizing st s with
  | zero => omega
  | succ n ih =>
    simp only [readAllF]
    cases hr : readRec fixed ctx st s with
    | done status st' => exact readRec_done_not_fuel hr
    | got r st' rest =>
      simp only
      have := readRec_progress hr
      exact ih st' rest (by omega)

/-! ### perf-cpuN.dat -/

@[simp] theorem PRec.hdr_length (r : PRec) : r.hdr.length = 8 := by simp [PRec.hdr]

@[simp] theorem PRec.enc_length (r : PRec) : r.enc.length = 8 + r.body.length := by simp [PRec.enc]

theorem PRec.hdr_fields {r : PRec} (h1 : r.typ < 2 ^ 32) (h2 : r.misc < 2 ^ 16)
    (h3 : 8 + r.body.length < 2 ^ 16) :
    sub r.hdr 0 4 = r.typ ∧ sub r.hdr 4 2 = r.misc ∧ sub r.hdr 6 2 = 8 + r.body.length := by
  refine ⟨?_, ?_, ?_⟩
  · simp [sub, PRec.hdr]
    exact leVal_leBytes 4 _ (by simpa using h1)
  · simp [sub, PRec.hdr]
    exact leVal_leBytes 2 _ (by simpa using h2)
  · simp [sub, PRec.hdr, List.drop_append]
    exact leVal_leBytes 2 _ (by simpa using h3)

theorem readPerfEv_nil (fixed : Bool) : readPerfEv fixed [] = .done .eof := by
  simp [readPerfEv, fread]

theorem readPerfAllF_nil (fixed : Bool) (n : Nat) : readPerfAllF fixed (n + 1) [] = ([], .eof) := by
  simp [readPerfAllF, readPerfEv_nil]

/-- a whole well-formed record: delivered (known type) or skipped, reading goes on right behind it -/
theorem readPerfEv_whole {r : PRec} (hwf : PWF r) (t : Bytes) :
    readPerfEv false (r.enc ++ t) =
      (match pEvOf r with | some e => .got e t | none => .again t) := by
  obtain ⟨h1, h2, h3, h14, h47, hc⟩ := hwf
  obtain ⟨f1, f2, f3⟩ := PRec.hdr_fields h1 h2 h3
  have hfr : fread 8 (r.enc ++ t) = some (r.hdr, r.body ++ t) := by
    rw [PRec.enc, List.append_assoc]; exact fread_app _ (by simp)
  unfold readPerfEv
  simp only [hfr, f1, f2, f3]
  have hs : ¬ (8 + r.body.length < 8) := by omega
  simp only [hs, ↓reduceIte, Nat.add_sub_cancel_left, Bool.false_and, Bool.false_eq_true]
  by_cases a : r.typ = 14
  · have hl := h14 a
    have hfb : fread r.body.length (r.body ++ t) = some (r.body, t) := fread_app _ rfl
    simp [a, pEvOf, hl, perfUnion, hfb] at hfb ⊢
    simp [hfb]
  · by_cases b : r.typ = 4 ∨ r.typ = 7
    · have hl := h47 b
      have hfb : fread r.body.length (r.body ++ t) = some (r.body, t) := fread_app _ rfl
      rw [hl] at hfb
      simp [a, b, pEvOf, hl, perfUnion, hfb]
    · have b' : ¬ (r.typ = 14 ∨ r.typ = 4 ∨ r.typ = 7) := by
        intro h; rcases h with h | h | h
        · exact a h
        · exact b (Or.inl h)
        · exact b (Or.inr h)
      by_cases c : r.typ = 3
      · have hsplit : r.body = r.body.take (r.body.length - 16) ++ r.body.drop (r.body.length - 16) :=
          (List.take_append_drop _ _).symm
        clear hsplit
        rcases hc c with hl | hl
        · have hf1 : fread 16 (r.body ++ t) = some (r.body.take 16, r.body.drop 16 ++ t) := by
            conv => lhs; rw [← List.take_append_drop 16 r.body, List.append_assoc]
            exact fread_app _ (by simp; omega)
          have hf2 : fread 16 (r.body.drop 16 ++ t) = some (r.body.drop 16, t) :=
            fread_app _ (by simp; omega)
          simp [a, b', c, pEvOf, hl, perfUnion, hf1, hf2, sub, List.take_take, List.drop_take]
          omega
        · have hf1 : fread 24 (r.body ++ t) = some (r.body.take 24, r.body.drop 24 ++ t) := by
            conv => lhs; rw [← List.take_append_drop 24 r.body, List.append_assoc]
            exact fread_app _ (by simp; omega)
          have hf2 : fread 16 (r.body.drop 24 ++ t) = some (r.body.drop 24, t) :=
            fread_app _ (by simp; omega)
          simp [a, b', c, pEvOf, hl, perfUnion, hf1, hf2, sub, List.take_take, List.drop_take]
          omega
      · simp [a, b, b', c, pEvOf]

/-- a well-formed record cut anywhere inside: nothing is delivered, the file is at its end -/
theorem readPerfAllF_cut_one {r : PRec} (hwf : PWF r) {k : Nat} (hk : k < r.enc.length) (n : Nat) :
    readPerfAllF false (n + 2) (r.enc.take k) = ([], .eof) := by
  obtain ⟨h1, h2, h3, h14, h47, hc⟩ := hwf
  obtain ⟨f1, f2, f3⟩ := PRec.hdr_fields h1 h2 h3
  by_cases h8 : k < 8
  · have : fread 8 (r.enc.take k) = none := fread_none (by simp; omega)
    simp [readPerfAllF, readPerfEv, this]
  · have htk : r.enc.take k = r.hdr ++ r.body.take (k - 8) := by
      rw [PRec.enc, take_app_ge (by simp; omega)]; simp
    have hfr : fread 8 (r.enc.take k) = some (r.hdr, r.body.take (k - 8)) := by
      rw [htk]; exact fread_app _ (by simp)
    have hk8 : k - 8 < r.body.length := by simp at hk; omega
    have hlen : (r.body.take (k - 8)).length = k - 8 := by simp; omega
    have hlt : (r.body.take (k - 8)).length < r.body.length := by omega
    have hs : ¬ (8 + r.body.length < 8) := by omega
    rw [readPerfAllF]
    unfold readPerfEv
    simp only [hfr, f1, f2, f3, hs, ↓reduceIte, Nat.add_sub_cancel_left, Bool.false_and,
      Bool.false_eq_true]
    by_cases a : r.typ = 14
    · have hl := h14 a
      have hn : fread 16 (r.body.take (k - 8)) = none := fread_none (by omega)
      simp [a, hl, perfUnion, hn]
      rw [if_neg (by omega)]
      simp [readPerfAllF_nil]
    · by_cases b : r.typ = 4 ∨ r.typ = 7
      · have hl := h47 b
        have hn : fread 40 (r.body.take (k - 8)) = none := fread_none (by omega)
        simp [a, b, hl, perfUnion, hn]
        rw [if_neg (by omega)]
        simp [readPerfAllF_nil]
      · have b' : ¬ (r.typ = 14 ∨ r.typ = 4 ∨ r.typ = 7) := by
          intro h; rcases h with h | h | h
          · exact a h
          · exact b (Or.inl h)
          · exact b (Or.inr h)
        by_cases c : r.typ = 3
        · have fin : ∀ cl, cl + 16 = r.body.length → ∀ x, fread cl (r.body.take (k - 8)) = some x →
              x.2.length < 16 := by
            intro cl hcl x hf
            obtain ⟨c', s2⟩ := x
            obtain ⟨hsp, hcl'⟩ := fread_some hf
            have := congrArg List.length hsp
            simp only [List.length_append] at this
            show s2.length < 16
            omega
          rcases hc c with hl | hl
          · simp [c, hl, perfUnion]
            rw [if_neg (by omega)]
            cases hf : fread 16 (List.take (k - 8) r.body) with
            | none => simp [readPerfAllF_nil]
            | some x =>
              have hlt2 := fin 16 (by omega) _ hf
              obtain ⟨c', s2⟩ := x
              simp [fread_none hlt2, readPerfAllF_nil]
          · simp [c, hl, perfUnion]
            rw [if_neg (by omega)]
            cases hf : fread 24 (List.take (k - 8) r.body) with
            | none => simp [readPerfAllF_nil]
            | some x =>
              have hlt2 := fin 24 (by omega) _ hf
              obtain ⟨c', s2⟩ := x
              simp [fread_none hlt2, readPerfAllF_nil]
        · have hd : (r.body.take (k - 8)).drop r.body.length = [] :=
            List.drop_of_length_le (by omega)
          simp [a, b, b', c, hd, readPerfAllF_nil]

theorem pEncodeAll_cons (r : PRec) (rs : List PRec) : pEncodeAll (r :: rs) = r.enc ++ pEncodeAll rs := rfl

theorem readPerfAllF_cut (rs : List PRec) (hwf : ∀ r ∈ rs, PWF r) (k fuel : Nat)
    (hf : pWholeBefore rs k + 2 ≤ fuel) :
    readPerfAllF false fuel ((pEncodeAll rs).take k) =
      ((rs.take (pWholeBefore rs k)).filterMap pEvOf, .eof) := by
  induction rs generalizing k fuel with
  | nil =>
    obtain ⟨n, rfl⟩ : ∃ n, fuel = n + 1 := ⟨fuel - 1, by omega⟩
    simp [pEncodeAll, readPerfAllF_nil, pWholeBefore]
  | cons r rs ih =>
    have hr : PWF r := hwf r (by simp)
    have hrs : ∀ x ∈ rs, PWF x := fun x hx => hwf x (by simp [hx])
    by_cases hn : r.enc.length ≤ k
    · have hw : pWholeBefore (r :: rs) k = 1 + pWholeBefore rs (k - r.enc.length) := by
        simp only [pWholeBefore, if_pos hn]
      rw [hw] at hf ⊢
      obtain ⟨n, rfl⟩ : ∃ n, fuel = n + 1 := ⟨fuel - 1, by omega⟩
      rw [pEncodeAll_cons, take_app_ge hn, readPerfAllF, readPerfEv_whole hr]
      have hih := ih hrs (k - r.enc.length) n (by omega)
      rw [Nat.add_comm 1, List.take_succ_cons, List.filterMap_cons]
      cases pEvOf r with
      | none => simp only [hih]
      | some e => simp only [hih]
    · have hw : pWholeBefore (r :: rs) k = 0 := by simp only [pWholeBefore, if_neg hn]
      rw [hw] at hf ⊢
      obtain ⟨n, rfl⟩ : ∃ n, fuel = n + 2 := ⟨fuel - 2, by omega⟩
      rw [pEncodeAll_cons, take_app_lt (by omega), readPerfAllF_cut_one hr (by omega)]
      simp

theorem pWhole_le (rs : List PRec) (k : Nat) :
    8 * pWholeBefore rs k ≤ ((pEncodeAll rs).take k).length := by
  induction rs generalizing k with
  | nil => simp [pWholeBefore]
  | cons r rs ih =>
    simp only [pWholeBefore]
    split
    · rename_i hn
      have := ih (k - r.enc.length)
      rw [pEncodeAll_cons, take_app_ge hn]
      simp only [List.length_append, PRec.enc_length] at this ⊢
      omega
    · omega

theorem pWhole_full (rs : List PRec) : pWholeBefore rs (pEncodeAll rs).length = rs.length := by
  induction rs with
  | nil => rfl
  | cons r rs ih =>
    simp only [pWholeBefore, pEncodeAll_cons, List.length_append, Nat.le_add_right, ↓reduceIte,
      Nat.add_sub_cancel_left, ih, List.length_cons]
    omega

/-! the reader with the size checks never stores outside the union, on any byte string -/

theorem readPerfEv_fixed_safe (s : Bytes) :
    readPerfEv true s ≠ .done .oob ∧ readPerfEv true s ≠ .done .badSize := by
  unfold readPerfEv
  cases fread 8 s with
  | none => simp
  | some x =>
    obtain ⟨h, s1⟩ := x
    simp only []
    constructor <;>
    · repeat' split
      all_goals first
        | (intro hh; cases hh; done)
        | (intro hh; injection hh with hh; cases hh; done)
        | (simp_all [perfUnion]; done)
        | (simp_all [perfUnion]; first | omega | grind)

theorem readPerfAllF_fixed_safe (fuel : Nat) (s : Bytes) :
    (readPerfAllF true fuel s).2 ≠ .oob ∧ (readPerfAllF true fuel s).2 ≠ .badSize := by
  induction fuel generalizing s with
  | zero => simp [readPerfAllF]
  | succ n ih =>
    have hs := readPerfEv_fixed_safe s
    rw [readPerfAllF]
    cases h : readPerfEv true s with
    | done st =>
      rw [h] at hs
      simp only []
      constructor
      · intro he; exact hs.1 (by rw [he])
      · intro he; exact hs.2 (by rw [he])
    | again rest => exact ih rest
    | got e rest => exact ih rest

end Uft.Trunc
