/- C08 helper lemmas: the merged stream (`read_user_stack`) is an interleaving of the
   per-task streams. -/
import Uft.Lemmas.ReportStats
namespace Uft.Report

def total (ss : List (List Rec)) : Nat := (ss.map List.length).sum

theorem foldl_total (ss : List (List Rec)) (a : Nat) :
    ss.foldl (fun n l => n + l.length) a = a + total ss := by
  induction ss generalizing a with
  | nil => simp [total]
  | cons l ss ih => simp only [List.foldl_cons, ih, total, List.map_cons, List.sum_cons]; omega

theorem pickMin_some (ss : List (List Rec)) : ∀ (i : Nat) (best : Option (Nat × Nat)) (j : Nat),
    pickMin ss i best = some j →
    (∃ b, best = some b ∧ b.1 = j) ∨ (i ≤ j ∧ ∃ r rest, ss[j - i]? = some (r :: rest)) := by
  induction ss with
  | nil =>
    intro i best j h
    cases best with
    | none => simp [pickMin] at h
    | some b => left; exact ⟨b, rfl, by simpa [pickMin] using h⟩
  | cons l ss ih =>
    intro i best j h
    have shift : ∀ (b' : Option (Nat × Nat)), pickMin ss (i + 1) b' = some j →
        ((∃ b, b' = some b ∧ b.1 = j) ∨ (i ≤ j ∧ ∃ r rest, (l :: ss)[j - i]? = some (r :: rest))) := by
      intro b' h'
      rcases ih (i + 1) b' j h' with h1 | ⟨h2, r, rest, h3⟩
      · exact Or.inl h1
      · right
        refine ⟨by omega, r, rest, ?_⟩
        have : j - i = (j - (i + 1)) + 1 := by omega
        rw [this]; simpa using h3
    cases l with
    | nil => exact shift best (by simpa [pickMin] using h)
    | cons r rs =>
      have here : i ≤ i ∧ ∃ r' rest, ((r :: rs) :: ss)[i - i]? = some (r' :: rest) :=
        ⟨Nat.le_refl _, r, rs, by simp⟩
      cases best with
      | none =>
        rcases shift _ (by simpa [pickMin] using h) with ⟨b, hb, hj⟩ | h2
        · right; simp at hb; subst hb; simp at hj; subst hj; exact here
        · exact Or.inr h2
      | some b =>
        obtain ⟨bi, bt⟩ := b
        by_cases hlt : r.time < bt
        · rcases shift _ (by simpa [pickMin, hlt] using h) with ⟨b, hb, hj⟩ | h2
          · right; simp at hb; subst hb; simp at hj; subst hj; exact here
          · exact Or.inr h2
        · rcases shift _ (by simpa [pickMin, hlt] using h) with ⟨b, hb, hj⟩ | h2
          · left; exact ⟨b, hb, hj⟩
          · exact Or.inr h2

theorem pickMin_none (ss : List (List Rec)) : ∀ (i : Nat) (best : Option (Nat × Nat)),
    pickMin ss i best = none → best = none ∧ ∀ l ∈ ss, l = [] := by
  induction ss with
  | nil =>
    intro i best h
    cases best with
    | none => simp
    | some b => simp [pickMin] at h
  | cons l ss ih =>
    intro i best h
    cases l with
    | nil =>
      obtain ⟨h1, h2⟩ := ih (i + 1) best (by simpa [pickMin] using h)
      exact ⟨h1, by intro l hl; rcases List.mem_cons.mp hl with e | e; exact e; exact h2 l e⟩
    | cons r rs =>
      exfalso
      cases best with
      | none =>
        have := (ih (i + 1) _ (by simpa [pickMin] using h)).1
        simp at this
      | some b =>
        obtain ⟨bi, bt⟩ := b
        by_cases hlt : r.time < bt
        · have := (ih (i + 1) _ (by simpa [pickMin, hlt] using h)).1
          simp at this
        · have := (ih (i + 1) _ (by simpa [pickMin, hlt] using h)).1
          simp at this

theorem popAt_some (ss : List (List Rec)) : ∀ (j : Nat) (r : Rec) (rest : List Rec),
    ss[j]? = some (r :: rest) → popAt ss j = (some r, ss.set j rest) := by
  induction ss with
  | nil => intro j r rest h; simp at h
  | cons l ss ih =>
    intro j r rest h
    cases j with
    | zero => simp at h; subst h; simp [popAt]
    | succ j => simp at h; simp [popAt, ih j r rest h]

theorem total_set (ss : List (List Rec)) : ∀ (j : Nat) (r : Rec) (rest : List Rec),
    ss[j]? = some (r :: rest) → total (ss.set j rest) + 1 = total ss := by
  induction ss with
  | nil => intro j r rest h; simp at h
  | cons l ss ih =>
    intro j r rest h
    cases j with
    | zero => simp at h; subst h; simp [total]; omega
    | succ j =>
      simp at h
      have := ih j r rest h
      simp only [total, List.set_cons_succ, List.map_cons, List.sum_cons] at this ⊢
      omega

theorem total_zero (ss : List (List Rec)) (h : total ss = 0) : ∀ l ∈ ss, l = [] := by
  induction ss with
  | nil => simp
  | cons l ss ih =>
    simp only [total, List.map_cons, List.sum_cons] at h
    intro x hx
    rcases List.mem_cons.mp hx with e | e
    · subst e; exact List.length_eq_zero_iff.mp (by omega)
    · exact ih (by simp only [total]; omega) x e

theorem getD_of_all_nil (ss : List (List Rec)) (h : ∀ l ∈ ss, l = []) (i : Nat) : ss.getD i [] = [] := by
  simp only [List.getD_eq_getElem?_getD]
  cases hg : ss[i]? with
  | none => rfl
  | some l => exact h l (List.mem_of_getElem? hg)

/-- the merged stream restricted to task `i` is task `i`'s stream; only existing tasks occur -/
theorem merge_proj : ∀ (fuel : Nat) (ss : List (List Rec)), total ss ≤ fuel →
    (∀ i, proj i (merge fuel ss) = ss.getD i []) ∧ (∀ e ∈ merge fuel ss, e.1 < ss.length) := by
  intro fuel
  induction fuel with
  | zero =>
    intro ss h
    have hz := total_zero ss (by omega)
    exact ⟨fun i => by rw [getD_of_all_nil ss hz i]; simp [merge, proj], by simp [merge]⟩
  | succ fuel ih =>
    intro ss h
    cases hp : pickMin ss 0 none with
    | none =>
      have hz := (pickMin_none ss 0 none hp).2
      exact ⟨fun i => by rw [getD_of_all_nil ss hz i]; simp [merge, hp, proj], by simp [merge, hp]⟩
    | some j =>
      rcases pickMin_some ss 0 none j hp with ⟨b, hb, _⟩ | ⟨_, r, rest, hj⟩
      · cases hb
      · simp only [Nat.sub_zero] at hj
        have hpop := popAt_some ss j r rest hj
        have htot := total_set ss j r rest hj
        have hjlt : j < ss.length := (List.getElem?_eq_some_iff.mp hj).1
        obtain ⟨ih1, ih2⟩ := ih (ss.set j rest) (by omega)
        have hm : merge (fuel + 1) ss = (j, r) :: merge fuel (ss.set j rest) := by
          simp [merge, hp, hpop]
        rw [hm]
        refine ⟨fun i => ?_, ?_⟩
        · by_cases hij : i = j
          · subst hij
            have := proj_cons_eq (i, r) (merge fuel (ss.set i rest))
            simp only at this
            rw [this, ih1 i]
            simp only [List.getD_eq_getElem?_getD, hj, List.getElem?_set, if_true, hjlt, Option.getD_some]
          · have := proj_cons_ne i (j, r) (merge fuel (ss.set j rest)) hij
            rw [this, ih1 i]
            have hji : ¬ j = i := fun e => hij e.symm
            simp [List.getD_eq_getElem?_getD, List.getElem?_set, hji]
        · intro e he
          rcases List.mem_cons.mp he with h1 | h1
          · subst h1; exact hjlt
          · have := ih2 e h1; simpa using this

theorem mergeAll_proj (ss : List (List Rec)) :
    (∀ i, proj i (mergeAll ss) = ss.getD i []) ∧ (∀ e ∈ mergeAll ss, e.1 < ss.length) := by
  unfold mergeAll
  apply merge_proj
  rw [foldl_total]; omega

end Uft.Report
