import Uft.Model.Fstack
/- C07 helper lemmas, part 1: the automaton's filter state (`FS.core`), what
   fstack_entry pushes and fstack_exit restores, state restoration over call trees. -/
set_option linter.unusedSimpArgs false
set_option linter.unusedVariables false
namespace Uft.Fstack
open Uft.Mcount (Rec Trigger Call Calls evCall evCalls)

/-- run a per-record loop: final state and everything it showed -/
def run (step : FS → Rec → FS × List Rec) : FS → List Rec → FS × List Rec
  | s, [] => (s, [])
  | s, r :: rest => ((run step (step s r).1 rest).1, (step s r).2 ++ (run step (step s r).1 rest).2)

theorem run_snd (step : FS → Rec → FS × List Rec) (s : FS) (rs : List Rec) :
    (run step s rs).2 = runSteps step s rs := by
  induction rs generalizing s with
  | nil => rfl
  | cons r rest ih => simp [run, runSteps, ih]

theorem run_append (step : FS → Rec → FS × List Rec) (s : FS) (a b : List Rec) :
    run step s (a ++ b) =
      ((run step (run step s a).1 b).1, (run step s a).2 ++ (run step (run step s a).1 b).2) := by
  induction a generalizing s with
  | nil => simp [run]
  | cons r rest ih => simp [run, ih, List.append_assoc]

/-- the filter state proper: counts, remaining depth, the open calls' saved values and flags -/
structure Core where
  inCount : Nat
  outCount : Nat
  depth : Nat
  stack : List Fr
  sc : Nat
  deriving DecidableEq

def FS.core (s : FS) : Core :=
  { inCount := s.inCount, outCount := s.outCount, depth := s.depth, stack := s.stack, sc := s.sc }

/-- the func_stack slot fstack_entry fills in -/
def entryFr (c : RCfg) (s : FS) (addr : Nat) : Fr :=
  { origDepth := s.depth, filtered := (verdict c s addr).matched && isIn (c.trig addr),
    notrace := verdict c s addr == .notrace, norecord := (verdict c s addr).norecord }

theorem fsEntry_stack (c : RCfg) (s : FS) (addr : Nat) :
    (fsEntry c s addr).1.stack = entryFr c s addr :: s.stack := rfl

theorem fsEntry_inCount (c : RCfg) (s : FS) (addr : Nat) :
    (fsEntry c s addr).1.inCount = (if (entryFr c s addr).filtered then s.inCount + 1 else s.inCount) := rfl

theorem fsEntry_outCount (c : RCfg) (s : FS) (addr : Nat) :
    (fsEntry c s addr).1.outCount =
      (if !(entryFr c s addr).filtered && (entryFr c s addr).notrace then s.outCount + 1 else s.outCount) := by
  simp only [fsEntry, entryFr]
  by_cases h : verdict c s addr = .notrace
  · simp [h, Verdict.matched]
  · simp [h]

theorem fsEntry_sc (c : RCfg) (s : FS) (addr : Nat) :
    (fsEntry c s addr).1.sc = s.sc ∧ (fsEntry c s addr).1.scSet = s.scSet := ⟨rfl, rfl⟩

theorem fsExit_core (c : RCfg) (s : FS) (fr : Fr) (rest : List Fr) (h : s.stack = fr :: rest) :
    (fsExit c s).core =
      { inCount := if fr.filtered then s.inCount - 1 else s.inCount,
        outCount := if !fr.filtered && fr.notrace then s.outCount - 1 else s.outCount,
        depth := fr.origDepth, stack := rest, sc := s.sc } := by
  simp [fsExit, topFr, h, FS.core]

theorem account_fields (s : FS) (r : Rec) (hs : s.scSet = true) (ht : r.type ≤ 1) :
    (account s r).sc = (if r.type = 0 then s.sc + 1 else s.sc - 1) ∧ (account s r).scSet = true ∧
    (account s r).inCount = s.inCount ∧ (account s r).outCount = s.outCount ∧
    (account s r).depth = s.depth ∧ (account s r).stack = s.stack ∧ (account s r).enabled = s.enabled ∧
    (account s r).dispDepth = s.dispDepth ∧ (account s r).dispSet = s.dispSet := by
  have h2 : ¬ r.type ≥ 2 := by omega
  simp [account, h2, hs]

/-- the state after the ENTRY record of a call, seen through `core` -/
theorem stepA_entry_core (c : RCfg) (s : FS) (r : Rec) (hs : s.scSet = true) (ht : r.type = 0) :
    ∃ fr : Fr, (stepA c s r).1.core =
      { inCount := if fr.filtered then s.inCount + 1 else s.inCount,
        outCount := if !fr.filtered && fr.notrace then s.outCount + 1 else s.outCount,
        depth := (stepA c s r).1.depth, stack := fr :: s.stack, sc := s.sc + 1 } ∧
      fr.origDepth = s.depth ∧ (stepA c s r).1.scSet = true := by
  obtain ⟨a1, a2, a3, a4, a5, a6, _⟩ := account_fields s r hs (by omega)
  refine ⟨entryFr c (account s r) r.addr, ?_, by simp [entryFr, a5], ?_⟩
  · simp only [stepA, ht, ↓reduceIte]
    split <;> simp [FS.core, updEntry, fsEntry_stack, fsEntry_inCount, fsEntry_outCount, (fsEntry_sc _ _ _).1,
      a1, a3, a4, a6, ht]
  · simp only [stepA, ht, ↓reduceIte]
    split <;> simp [updEntry, (fsEntry_sc _ _ _).2, a2]

theorem exitStep_core (c : RCfg) (s : FS) (r : Rec) (q : Bool) (fr : Fr) (rest : List Fr)
    (h : s.stack = fr :: rest) :
    (exitStep c s r q).1.core =
      { inCount := if fr.filtered then s.inCount - 1 else s.inCount,
        outCount := if !fr.filtered && fr.notrace then s.outCount - 1 else s.outCount,
        depth := fr.origDepth, stack := rest, sc := s.sc } ∧
    (exitStep c s r q).1.scSet = s.scSet := by
  unfold exitStep
  split
  · exact ⟨fsExit_core c s fr rest h, rfl⟩
  · refine ⟨?_, rfl⟩
    have := fsExit_core c (updExit s) fr rest h
    simpa [updExit] using this

theorem stepA_exit_core (c : RCfg) (s : FS) (r : Rec) (hs : s.scSet = true) (ht : r.type = 1)
    (fr : Fr) (rest : List Fr) (h : s.stack = fr :: rest) :
    (stepA c s r).1.core =
      { inCount := if fr.filtered then s.inCount - 1 else s.inCount,
        outCount := if !fr.filtered && fr.notrace then s.outCount - 1 else s.outCount,
        depth := fr.origDepth, stack := rest, sc := s.sc - 1 } ∧
    (stepA c s r).1.scSet = true := by
  obtain ⟨a1, a2, a3, a4, a5, a6, _⟩ := account_fields s r hs (by omega)
  unfold stepA
  simp only [ht]
  rw [if_neg (by decide : ¬ (1 : Nat) = 0), if_pos trivial]
  have := exitStep_core c (account s r) r (isPlt c r) fr rest (by rw [a6, h])
  rw [this.1, this.2]
  simp [a1, a2, a3, a4, ht]

/-- final state of the report/graph/dump loop -/
def endA (c : RCfg) (s : FS) (rs : List Rec) : FS := (run (stepA c) s rs).1

theorem endA_append (c : RCfg) (s : FS) (a b : List Rec) : endA c s (a ++ b) = endA c (endA c s a) b := by
  simp [endA, run_append]

theorem endA_cons (c : RCfg) (s : FS) (r : Rec) (rs : List Rec) :
    endA c s (r :: rs) = endA c (stepA c s r).1 rs := rfl

theorem endA_nil (c : RCfg) (s : FS) : endA c s [] = s := rfl

mutual
theorem restoredA_call (c : RCfg) : ∀ (x : Call) (d : Nat) (s : FS), s.scSet = true →
    (endA c s (evCall d x)).core = s.core ∧ (endA c s (evCall d x)).scSet = true
  | .node f t0 t1 kids, d, s, hs => by
    obtain ⟨fr, h1, h2, h3⟩ := stepA_entry_core c s { time := t0, type := 0, depth := d, addr := f } hs rfl
    obtain ⟨k1, k2⟩ := restoredA_calls c kids (d + 1) _ h3
    simp only [evCall, endA_append, List.singleton_append, endA_cons, endA_nil, List.cons_append, List.nil_append]
    generalize hs1 : (stepA c s { time := t0, type := 0, depth := d, addr := f }).1 = s1 at h1 k1 k2 h3
    generalize hs2 : endA c s1 (evCalls (d + 1) kids) = s2 at k1 k2
    have hst : s2.stack = fr :: s.stack := by
      have := congrArg Core.stack (k1.trans h1); simpa [FS.core] using this
    obtain ⟨e1, e2⟩ := stepA_exit_core c s2 { time := t1, type := 1, depth := d, addr := f } k2 rfl fr s.stack hst
    refine ⟨?_, e2⟩
    rw [e1]
    have hin : s2.inCount = (if fr.filtered then s.inCount + 1 else s.inCount) := by
      have := congrArg Core.inCount (k1.trans h1); simpa [FS.core] using this
    have hout : s2.outCount = (if !fr.filtered && fr.notrace then s.outCount + 1 else s.outCount) := by
      have := congrArg Core.outCount (k1.trans h1); simpa [FS.core] using this
    have hsc : s2.sc = s.sc + 1 := by
      have := congrArg Core.sc (k1.trans h1); simpa [FS.core] using this
    simp only [FS.core, hin, hout, hsc, h2]
    cases fr.filtered <;> cases fr.notrace <;> simp
theorem restoredA_calls (c : RCfg) : ∀ (xs : Calls) (d : Nat) (s : FS), s.scSet = true →
    (endA c s (evCalls d xs)).core = s.core ∧ (endA c s (evCalls d xs)).scSet = true
  | .nil, d, s, hs => ⟨rfl, hs⟩
  | .cons x rest, d, s, hs => by
    obtain ⟨h1, h2⟩ := restoredA_call c x d s hs
    obtain ⟨r1, r2⟩ := restoredA_calls c rest d _ h2
    simp only [evCalls, endA_append]
    exact ⟨r1.trans h1, r2⟩
end

end Uft.Fstack
