import Uft.Model.ElfSym
import Uft.Lemmas.SymFile
/- Helper lemmas for C10: tables built from ELF files (filter, sort, de-duplication, merge). -/
namespace Uft.ElfSym
open Uft.Symtab Uft.SymFile

/-! ### the entry filter -/

/-- every symbol of the table comes from an accepted ELF entry -/
theorem loadSymbols_mem (off : Nat) (es : List ESym) (prev : Nat) (s : Sym)
    (h : s ∈ loadSymbols off prev es) : ∃ e ∈ es, accepts e = true ∧ s = toSym off e := by
  induction es generalizing prev with
  | nil => simp [loadSymbols] at h
  | cons e r ih =>
    simp only [loadSymbols] at h
    split at h
    · rename_i hc
      rcases List.mem_cons.mp h with e1 | e1
      · exact ⟨e, by simp, hc.1, e1⟩
      · obtain ⟨e', he', ha, hs⟩ := ih _ e1
        exact ⟨e', by simp [he'], ha, hs⟩
    · obtain ⟨e', he', ha, hs⟩ := ih _ h
      exact ⟨e', by simp [he'], ha, hs⟩

/-- every accepted ELF entry has a symbol at its address ("skip aliases" only drops an entry
    whose value is that of the entry accepted right before it) -/
theorem loadSymbols_covers (off : Nat) (es : List ESym) (prev : Nat) (e : ESym)
    (he : e ∈ es) (ha : accepts e = true) :
    e.value = prev ∨ ∃ s ∈ loadSymbols off prev es, s.addr = (e.value + off) % U64 := by
  induction es generalizing prev with
  | nil => simp at he
  | cons e0 r ih =>
    simp only [loadSymbols]
    rcases List.mem_cons.mp he with e1 | e1
    · subst e1
      by_cases hp : prev = e.value
      · exact Or.inl hp.symm
      · right
        rw [if_pos ⟨ha, hp⟩]
        exact ⟨toSym off e, by simp, rfl⟩
    · split
      · rcases ih e0.value e1 with h | ⟨s, hs, hs'⟩
        · right
          exact ⟨toSym off e0, by simp, by simp [toSym, h]⟩
        · right
          exact ⟨s, by simp [hs], hs'⟩
      · rcases ih prev e1 with h | ⟨s, hs, hs'⟩
        · exact Or.inl h
        · exact Or.inr ⟨s, hs, hs'⟩

/-! ### the duplicate-removing loop -/

/-- strictly increasing addresses -/
def StrictSorted (l : List Sym) : Prop := l.Pairwise (fun a b => a.addr < b.addr)

instance (l : List Sym) : Decidable (StrictSorted l) := by unfold StrictSorted; infer_instance

/-- the name chosen for a run is one of the names of the run -/
theorem bestName_cases (b n : List Char) : bestName b n = b ∨ bestName b n = n := by
  unfold bestName; split <;> simp

/-- what the loop leaves: every output entry has the address, size and type of an input entry
    and the name of an input entry with the same address (or the pending `best`) -/
theorem dedupRun_mem (cur : Sym) (best : List Char) (l : List Sym) (r : Sym)
    (h : r ∈ dedupRun cur best l) :
    (∃ x ∈ cur :: l, r.addr = x.addr ∧ r.size = x.size ∧ r.type = x.type) ∧
    ((r.addr = cur.addr ∧ r.name = best) ∨ ∃ y ∈ l, r.addr = y.addr ∧ r.name = y.name) := by
  induction l generalizing cur best with
  | nil =>
    simp only [dedupRun, List.mem_singleton] at h
    subst h
    exact ⟨⟨cur, by simp, rfl, rfl, rfl⟩, Or.inl ⟨rfl, rfl⟩⟩
  | cons y l ih =>
    simp only [dedupRun] at h
    split at h
    · rename_i heq
      obtain ⟨⟨x, hx, hx'⟩, hn⟩ := ih y _ h
      refine ⟨⟨x, by simp only [List.mem_cons] at hx ⊢; rcases hx with e | e <;> simp [e], hx'⟩, ?_⟩
      rcases hn with ⟨ha, hb⟩ | ⟨z, hz, hz'⟩
      · rcases bestName_cases best y.name with e | e
        · left; rw [e] at hb; exact ⟨by omega, hb⟩
        · right; rw [e] at hb; exact ⟨y, by simp, ha, hb⟩
      · right; exact ⟨z, by simp [hz], hz'⟩
    · rcases List.mem_cons.mp h with e | e
      · subst e
        exact ⟨⟨cur, by simp, rfl, rfl, rfl⟩, Or.inl ⟨rfl, rfl⟩⟩
      · obtain ⟨⟨x, hx, hx'⟩, hn⟩ := ih y _ e
        refine ⟨⟨x, by simp only [List.mem_cons] at hx ⊢; rcases hx with e | e <;> simp [e], hx'⟩, ?_⟩
        rcases hn with ⟨ha, hb⟩ | ⟨z, hz, hz'⟩
        · right; exact ⟨y, by simp, ha, hb⟩
        · right; exact ⟨z, by simp [hz], hz'⟩

/-- every output address is at least the address of the run in progress -/
theorem dedupRun_ge (cur : Sym) (best : List Char) (l : List Sym)
    (hs : AddrSorted (cur :: l)) (r : Sym) (h : r ∈ dedupRun cur best l) : cur.addr ≤ r.addr := by
  obtain ⟨⟨x, hx, hx', _⟩, _⟩ := dedupRun_mem cur best l r h
  rcases List.mem_cons.mp hx with e | e
  · subst e; omega
  · have := (List.pairwise_cons.mp hs).1 x e; omega

/-- on an address-sorted array the loop leaves strictly increasing addresses -/
theorem dedupRun_strict (cur : Sym) (best : List Char) (l : List Sym)
    (hs : AddrSorted (cur :: l)) : StrictSorted (dedupRun cur best l) := by
  induction l generalizing cur best with
  | nil => simp [dedupRun, StrictSorted]
  | cons y l ih =>
    have hy : AddrSorted (y :: l) := (List.pairwise_cons.mp hs).2
    have hcy : cur.addr ≤ y.addr := (List.pairwise_cons.mp hs).1 y (by simp)
    simp only [dedupRun]
    split
    · exact ih y _ hy
    · rename_i hne
      refine List.pairwise_cons.mpr ⟨?_, ih y _ hy⟩
      intro r hr
      have := dedupRun_ge y y.name l hy r hr
      show cur.addr < r.addr
      omega

/-- every input address survives -/
theorem dedupRun_covers (cur : Sym) (best : List Char) (l : List Sym) (x : Sym)
    (hx : x ∈ cur :: l) : ∃ r ∈ dedupRun cur best l, r.addr = x.addr := by
  induction l generalizing cur best x with
  | nil =>
    simp only [List.mem_singleton] at hx
    subst hx
    exact ⟨{ x with name := best }, by simp [dedupRun], rfl⟩
  | cons y l ih =>
    simp only [dedupRun]
    split
    · rename_i heq
      rcases List.mem_cons.mp hx with e | e
      · subst e
        obtain ⟨r, hr, hr'⟩ := ih y (bestName best y.name) y (by simp)
        exact ⟨r, hr, by omega⟩
      · exact ih y _ x e
    · rcases List.mem_cons.mp hx with e | e
      · subst e
        exact ⟨{ x with name := best }, by simp, rfl⟩
      · obtain ⟨r, hr, hr'⟩ := ih y y.name x e
        exact ⟨r, by simp [hr], hr'⟩

theorem dedup_strict (t : List Sym) (hs : AddrSorted t) : StrictSorted (dedup t) := by
  cases t with
  | nil => simp [dedup, StrictSorted]
  | cons x r => exact dedupRun_strict x x.name r hs

theorem dedup_mem (t : List Sym) (r : Sym) (h : r ∈ dedup t) :
    (∃ x ∈ t, r.addr = x.addr ∧ r.size = x.size ∧ r.type = x.type) ∧
    (∃ y ∈ t, r.addr = y.addr ∧ r.name = y.name) := by
  cases t with
  | nil => simp [dedup] at h
  | cons x l =>
    obtain ⟨h1, h2⟩ := dedupRun_mem x x.name l r h
    refine ⟨h1, ?_⟩
    rcases h2 with ⟨ha, hb⟩ | ⟨y, hy, hy'⟩
    · exact ⟨x, by simp, ha, hb⟩
    · exact ⟨y, by simp [hy], hy'⟩

theorem dedup_covers (t : List Sym) (x : Sym) (hx : x ∈ t) : ∃ r ∈ dedup t, r.addr = x.addr := by
  cases t with
  | nil => simp at hx
  | cons y l => exact dedupRun_covers y y.name l x hx

/-! ### `sort_symtab` -/

theorem sortSymtab_strict (t : List Sym) : StrictSorted (sortSymtab t) :=
  dedup_strict _ (sortByAddr_sorted t)

theorem sortSymtab_mem (t : List Sym) (r : Sym) (h : r ∈ sortSymtab t) :
    (∃ x ∈ t, r.addr = x.addr ∧ r.size = x.size ∧ r.type = x.type) ∧
    (∃ y ∈ t, r.addr = y.addr ∧ r.name = y.name) := by
  obtain ⟨⟨x, hx, hx'⟩, ⟨y, hy, hy'⟩⟩ := dedup_mem _ r h
  exact ⟨⟨x, (sortByAddr_perm t).mem_iff.mp hx, hx'⟩, ⟨y, (sortByAddr_perm t).mem_iff.mp hy, hy'⟩⟩

theorem sortSymtab_covers (t : List Sym) (x : Sym) (hx : x ∈ t) :
    ∃ r ∈ sortSymtab t, r.addr = x.addr :=
  dedup_covers _ x ((sortByAddr_perm t).mem_iff.mpr hx)

/-- entries of the raw table: symbols at the same address have the same size (true aliases),
    symbols at different addresses do not overlap, no address computation wraps -/
structure Clean (t : List Sym) : Prop where
  alias : ∀ x ∈ t, ∀ y ∈ t, x.addr = y.addr → x.size = y.size
  disj : ∀ x ∈ t, ∀ y ∈ t, x.addr < y.addr → x.addr + x.size ≤ y.addr
  nowrap : ∀ x ∈ t, x.addr + x.size < U64

theorem stop_eq_of_nowrap (x : Sym) (h : x.addr + x.size < U64) : x.stop = x.addr + x.size := by
  unfold Sym.stop; exact Nat.mod_eq_of_lt h

/-- under `Clean` an output entry covers exactly the range of every input entry at its address -/
theorem sortSymtab_range (t : List Sym) (hc : Clean t) (r : Sym) (hr : r ∈ sortSymtab t)
    (x : Sym) (hx : x ∈ t) (ha : r.addr = x.addr) : r.stop = x.stop := by
  obtain ⟨⟨z, hz, hza, hzs, _⟩, _⟩ := sortSymtab_mem t r hr
  have hsz : z.size = x.size := hc.alias z hz x hx (by omega)
  have hnw := hc.nowrap x hx
  unfold Sym.stop
  rw [ha, hzs, hsz]

theorem sortSymtab_wf (t : List Sym) (hc : Clean t) : WellFormed (sortSymtab t) := by
  unfold WellFormed
  have hs := sortSymtab_strict t
  unfold StrictSorted at hs
  rw [List.pairwise_iff_getElem] at hs ⊢
  intro i j hi hj hij
  have hlt := hs i j hi hj hij
  have hmi : (sortSymtab t)[i] ∈ sortSymtab t := List.getElem_mem hi
  have hmj : (sortSymtab t)[j] ∈ sortSymtab t := List.getElem_mem hj
  obtain ⟨⟨x, hx, hxa, _⟩, _⟩ := sortSymtab_mem t _ hmi
  obtain ⟨⟨y, hy, hya, _⟩, _⟩ := sortSymtab_mem t _ hmj
  have hstop := sortSymtab_range t hc _ hmi x hx hxa
  have hd := hc.disj x hx y hy (by omega)
  have hnw := stop_eq_of_nowrap x (hc.nowrap x hx)
  unfold Compat
  refine ⟨by omega, Or.inl ?_⟩
  rw [hstop, hnw]; omega

/-! ### `merge_symtabs` -/

theorem noProperOverlap_perm {l₁ l₂ : List Sym} (p : l₁.Perm l₂) (h : NoProperOverlap l₁) :
    NoProperOverlap l₂ :=
  p.pairwise h (fun h => NoClash.symm h)

theorem mergeSymtabs_wf (l r : List Sym) (hl : WellFormed l) (hr : WellFormed r)
    (hn : NoProperOverlap (l ++ r)) : WellFormed (mergeSymtabs l r) := by
  unfold mergeSymtabs
  split
  · exact hl
  · exact hr
  · split
    · exact wf_sort_of_noclash _ hn
    · exact wf_sort_of_noclash _ (noProperOverlap_perm List.perm_append_comm hn)

theorem mergeSymtabs_mem (l r : List Sym) (s : Sym) : s ∈ mergeSymtabs l r ↔ s ∈ l ∨ s ∈ r := by
  unfold mergeSymtabs
  split
  · simp
  · simp
  · split
    · rw [(sortByAddr_perm _).mem_iff, List.mem_append]
    · rw [(sortByAddr_perm _).mem_iff, List.mem_append]; exact or_comm

end Uft.ElfSym
