import Uft.Model.DlRecord
/- Helper lemmas for C10: the record-time dlopen model (clock, windows, report loop, invariant). -/
namespace Uft.DlRecord
open Uft.Symtab Uft.SymFile

/-! ### the clock never goes back; records and objects carry the time of their creation -/

theorem step_now_le (cfg : Cfg) (st : St) (ev : Ev) : st.now ≤ (step cfg st ev).now := by
  cases ev <;> simp only [step] <;> try omega
  all_goals (split <;> simp)

theorem run_now_le (cfg : Cfg) (st : St) (evs : List Ev) : st.now ≤ (run cfg st evs).now := by
  induction evs generalizing st with
  | nil => exact Nat.le_refl _
  | cons e r ih => exact Nat.le_trans (step_now_le cfg st e) (ih _)

theorem step_recs (cfg : Cfg) (st : St) (ev : Ev) :
    ∃ new, (step cfg st ev).recs = st.recs ++ new ∧ ∀ r ∈ new, r.time = st.now := by
  cases ev with
  | call a => exact ⟨[_], rfl, by simp⟩
  | leave w h => refine ⟨[], ?_, by simp⟩; simp only [step]; split <;> simp
  | _ => exact ⟨[], by simp [step], by simp⟩

theorem run_recs (cfg : Cfg) (st : St) (evs : List Ev) :
    ∃ new, (run cfg st evs).recs = st.recs ++ new ∧ ∀ r ∈ new, st.now ≤ r.time := by
  induction evs generalizing st with
  | nil => exact ⟨[], by simp [run], by simp⟩
  | cons e r ih =>
    obtain ⟨n1, h1, t1⟩ := step_recs cfg st e
    obtain ⟨n2, h2, t2⟩ := ih (step cfg st e)
    refine ⟨n1 ++ n2, ?_, ?_⟩
    · show (run cfg (step cfg st e) r).recs = _
      rw [h2, h1, List.append_assoc]
    · intro x hx
      rcases List.mem_append.mp hx with h | h
      · rw [t1 x h]; exact Nat.le_refl _
      · exact Nat.le_trans (step_now_le cfg st e) (t2 x h)

theorem step_loaded (cfg : Cfg) (st : St) (ev : Ev) :
    ∀ o ∈ (step cfg st ev).loaded, o ∈ st.loaded ∨ o.born = st.now := by
  intro o ho
  cases ev with
  | load n r b s e =>
    simp only [step, List.mem_append, List.mem_singleton] at ho
    rcases ho with h | h
    · exact Or.inl h
    · right; rw [h]
  | close h gone =>
    simp only [step] at ho
    exact Or.inl (List.mem_filter.mp ho).1
  | leave w h =>
    simp only [step] at ho
    split at ho <;> exact Or.inl ho
  | _ => exact Or.inl (by simpa [step] using ho)

theorem run_loaded (cfg : Cfg) (st : St) (evs : List Ev) :
    ∀ o ∈ (run cfg st evs).loaded, o ∈ st.loaded ∨ st.now ≤ o.born := by
  induction evs generalizing st with
  | nil => intro o ho; exact Or.inl ho
  | cons e r ih =>
    intro o ho
    rcases ih (step cfg st e) o ho with h | h
    · rcases step_loaded cfg st e o h with h' | h'
      · exact Or.inl h'
      · right; omega
    · right; exact Nat.le_trans (step_now_le cfg st e) h

/-! ### a window stays as it is until its own `leave` -/

/-- events of the dlopen() call with number `w` -/
def touches (w : Nat) : Ev → Bool
  | .enter w' _ => w' == w
  | .leave w' _ => w' == w
  | _ => false

theorem find?_filter_keep {α : Type} (p q : α → Bool) (l : List α) (h : ∀ x, p x = true → q x = true) :
    (l.filter q).find? p = l.find? p := by
  induction l with
  | nil => rfl
  | cons x r ih =>
    by_cases hq : q x = true
    · rw [List.filter_cons_of_pos hq]
      simp only [List.find?_cons, ih]
    · have hp : p x = false := by
        cases hpx : p x with
        | false => rfl
        | true => exact absurd (h x hpx) hq
      rw [List.filter_cons_of_neg hq, List.find?_cons, hp, ih]

theorem step_findWin (cfg : Cfg) (st : St) (ev : Ev) (w : Nat) (h : touches w ev = false) :
    findWin (step cfg st ev).wins w = findWin st.wins w := by
  cases ev with
  | enter w' f =>
    simp only [touches] at h
    simp only [step, findWin, List.find?_cons, h]
  | leave w' hd =>
    simp only [touches] at h
    simp only [step]
    split
    · rfl
    · simp only [findWin]
      apply find?_filter_keep
      intro x hx
      have : x.id = w := by simpa using hx
      simp only [bne_iff_ne, ne_eq]
      intro hc
      rw [this] at hc
      simp [hc] at h
  | _ => rfl

theorem run_findWin (cfg : Cfg) (st : St) (evs : List Ev) (w : Nat)
    (h : ∀ ev ∈ evs, touches w ev = false) :
    findWin (run cfg st evs).wins w = findWin st.wins w := by
  induction evs generalizing st with
  | nil => rfl
  | cons e r ih =>
    show findWin (run cfg (step cfg st e) r).wins w = _
    rw [ih _ (fun ev hev => h ev (by simp [hev])), step_findWin cfg st e w (h e (by simp))]

/-! ### the report loop -/

theorem reportLoop_msgs (cfg : Cfg) (win : Win) (h now subs : Nat) (objs : List Obj) (idx : Nat)
    (maps : List MMap) (msgs : List Msg) :
    ∃ new, (reportLoop cfg win h now subs idx objs maps msgs).2 = msgs ++ new ∧
      ∀ m ∈ new, ∃ o ∈ objs, m = mkMsg cfg win now o := by
  induction objs generalizing idx maps msgs with
  | nil => exact ⟨[], by simp [reportLoop], by simp⟩
  | cons o r ih =>
    simp only [reportLoop]
    split
    · obtain ⟨new, h1, h2⟩ := ih (idx + 1) (mkMap h o :: maps) (msgs ++ [mkMsg cfg win now o])
      refine ⟨mkMsg cfg win now o :: new, by rw [h1]; simp, ?_⟩
      intro m hm
      rcases List.mem_cons.mp hm with e | e
      · exact ⟨o, by simp, e⟩
      · obtain ⟨o', ho', hm'⟩ := h2 m e
        exact ⟨o', by simp [ho'], hm'⟩
    · obtain ⟨new, h1, h2⟩ := ih (idx + 1) maps msgs
      refine ⟨new, h1, ?_⟩
      intro m hm
      obtain ⟨o', ho', hm'⟩ := h2 m hm
      exact ⟨o', by simp [ho'], hm'⟩

theorem reportLoop_append (cfg : Cfg) (win : Win) (h now subs : Nat) (a b : List Obj) (idx : Nat)
    (maps : List MMap) (msgs : List Msg) :
    reportLoop cfg win h now subs idx (a ++ b) maps msgs =
      reportLoop cfg win h now subs (idx + a.length) b
        (reportLoop cfg win h now subs idx a maps msgs).1
        (reportLoop cfg win h now subs idx a maps msgs).2 := by
  induction a generalizing idx maps msgs with
  | nil => simp [reportLoop]
  | cons o r ih =>
    simp only [List.cons_append, reportLoop, List.length_cons]
    split
    · rw [ih]; congr 1; omega
    · rw [ih]; congr 1; omega

/-- (fix) objects counted before the real dlopen are never reported -/
theorem reportLoop_skip (cfg : Cfg) (hf : cfg.fixed = true) (win : Win) (h now subs : Nat)
    (hsubs : subs = win.subsBefore) (objs : List Obj) (idx : Nat) (maps : List MMap) (msgs : List Msg)
    (hle : idx + objs.length ≤ win.nrBefore) :
    reportLoop cfg win h now subs idx objs maps msgs = (maps, msgs) := by
  induction objs generalizing idx with
  | nil => rfl
  | cons o r ih =>
    simp only [List.length_cons] at hle
    have : reports cfg win subs maps idx o = false := by
      unfold reports
      split
      · rfl
      · have hlt : idx + (subs - win.subsBefore) < win.nrBefore := by omega
        simp [hf, hlt]
    simp only [reportLoop, this]
    exact ih (idx + 1) (by omega)

/-! ### the invariant of the repaired wrapper -/

/-- covered by one of the session maps read at start-up -/
def initCovered (maps : List MMap) (a : Nat) : Bool :=
  maps.any (fun m => m.handle.isNone && decide (m.start ≤ a) && decide (a < m.stop))

/-- an object that needs a DLOPEN message: named, not the vdso, not in the session maps -/
def Dyn (im : List MMap) (o : Obj) : Prop :=
  o.name ≠ [] ∧ o.name ≠ vdsoName ∧ initCovered im o.start = false

/-- a message for this object (load address and name) stamped no later than its mapping -/
def Reported (msgs : List Msg) (o : Obj) : Prop :=
  ∃ m ∈ msgs, m.bias = o.bias ∧ m.name = o.name ∧ m.time ≤ o.born

theorem Reported.mono {msgs msgs' : List Msg} {o : Obj} (h : Reported msgs o)
    (hs : ∀ m ∈ msgs, m ∈ msgs') : Reported msgs' o := by
  obtain ⟨m, hm, h'⟩ := h
  exact ⟨m, hs m hm, h'⟩

/-- what the loader and the program may do (hypotheses on a trace, evaluated along the run):
    dlopen() calls in progress have distinct numbers; objects are mapped only inside a real
    dlopen, at addresses that no loaded object's text covers; nothing is unloaded while a
    dlopen() is in progress; an object that is unloaded by `dlclose(h)` was reported, if at
    all, under the handle `h` -/
def EvOk (st : St) : Ev → Prop
  | .enter w _ => ∀ x ∈ st.wins, x.id ≠ w
  | .load _ _ _ s e =>
    st.wins ≠ [] ∧ ∀ o ∈ st.loaded, ¬ (o.start ≤ s ∧ s < o.stop) ∧ ¬ (s ≤ o.start ∧ o.start < e)
  | .close h gone =>
    st.wins = [] ∧ ∀ o ∈ st.loaded, gone.contains o.start = true →
      ∀ m ∈ st.maps, m.live = true → m.handle ≠ none → m.start = o.start → m.handle = some h
  | _ => True

def Valid (cfg : Cfg) : St → List Ev → Prop
  | _, [] => True
  | st, ev :: r => EvOk st ev ∧ Valid cfg (step cfg st ev) r

structure Inv (im : List MMap) (st : St) : Prop where
  initc : ∀ a, initCovered st.maps a = initCovered im a
  bornle : ∀ o ∈ st.loaded, o.born ≤ st.now
  win : ∀ w ∈ st.wins, w.ts ≤ st.now ∧ w.nrBefore ≤ st.loaded.length ∧ w.subsBefore = st.subs ∧
          ∀ o ∈ st.loaded.drop w.nrBefore, w.ts ≤ o.born
  obj : ∀ o ∈ st.loaded, Dyn im o →
          Reported st.msgs o ∨ ∃ w ∈ st.wins, o ∈ st.loaded.drop w.nrBefore
  live : ∀ m ∈ st.maps, m.handle ≠ none → m.live = true →
          ∃ o ∈ st.loaded, o.start = m.start ∧ o.stop = m.stop ∧ Reported st.msgs o
  phys : ∀ o ∈ st.loaded, ∀ o' ∈ st.loaded, o.start ≤ o'.start → o'.start < o.stop → o = o'
  recs : ∀ r ∈ st.recs, (∀ o ∈ r.objs, o.born ≤ r.time) ∧
          ∀ o ∈ r.objs, Dyn im o → Reported st.msgs o ∨ o ∈ st.loaded
  uniq : st.wins.Pairwise (fun a b => a.id ≠ b.id)

theorem initCovered_cons_dyn (m : MMap) (maps : List MMap) (a : Nat) (h : m.handle ≠ none) :
    initCovered (m :: maps) a = initCovered maps a := by
  unfold initCovered
  cases hh : m.handle with
  | none => exact absurd hh h
  | some x => simp [hh]

theorem initCovered_markClosed (h : Nat) (maps : List MMap) (a : Nat) :
    initCovered (markClosed true h maps) a = initCovered maps a := by
  induction maps with
  | nil => rfl
  | cons m r ih =>
    unfold initCovered at ih ⊢
    simp only [markClosed]
    split
    · rename_i hc
      simp only [if_true, List.any_cons, ih, hc.2, Option.isNone_some, Bool.false_and]
    · simp only [List.any_cons, ih]

theorem mem_markClosed (h : Nat) (maps : List MMap) (m : MMap)
    (hm : m ∈ markClosed true h maps) (hl : m.live = true) : m ∈ maps ∧ m.handle ≠ some h := by
  induction maps with
  | nil => simp [markClosed] at hm
  | cons x r ih =>
    simp only [markClosed] at hm
    split at hm
    · simp only [if_true] at hm
      rcases List.mem_cons.mp hm with e | e
      · rw [e] at hl; simp at hl
      · exact ⟨by simp [(ih e).1], (ih e).2⟩
    · rename_i hc
      rcases List.mem_cons.mp hm with e | e
      · subst e
        exact ⟨by simp, fun hh => hc ⟨hl, hh⟩⟩
      · exact ⟨by simp [(ih e).1], (ih e).2⟩

/-- the loop over the objects appended since the timestamp was taken -/
theorem reportLoop_post (cfg : Cfg) (hf : cfg.fixed = true) (hs : cfg.stampAtSend = false)
    (im : List MMap) (win : Win) (h now subs : Nat) (hsubs : subs = win.subsBefore)
    (L : List Obj)
    (hphys : ∀ o ∈ L, ∀ o' ∈ L, o.start ≤ o'.start → o'.start < o.stop → o = o')
    (objs : List Obj) (idx : Nat) (maps : List MMap) (msgs : List Msg)
    (hidx : win.nrBefore ≤ idx)
    (hsub : ∀ o ∈ objs, o ∈ L) (hborn : ∀ o ∈ objs, win.ts ≤ o.born)
    (hinit : ∀ a, initCovered maps a = initCovered im a)
    (hlive : ∀ m ∈ maps, m.handle ≠ none → m.live = true →
        ∃ o ∈ L, o.start = m.start ∧ o.stop = m.stop ∧ Reported msgs o) :
    let res := reportLoop cfg win h now subs idx objs maps msgs
    (∀ a, initCovered res.1 a = initCovered im a) ∧
    (∀ m ∈ res.1, m.handle ≠ none → m.live = true →
        ∃ o ∈ L, o.start = m.start ∧ o.stop = m.stop ∧ Reported res.2 o) ∧
    (∀ m ∈ msgs, m ∈ res.2) ∧
    (∀ o ∈ objs, Dyn im o → Reported res.2 o) := by
  induction objs generalizing idx maps msgs with
  | nil => exact ⟨hinit, hlive, fun m hm => hm, by simp⟩
  | cons o r ih =>
    have hoL : o ∈ L := hsub o (by simp)
    simp only [reportLoop]
    split
    · -- reported
      rename_i hrep
      have hrepo : Reported (msgs ++ [mkMsg cfg win now o]) o :=
        ⟨mkMsg cfg win now o, by simp, rfl, rfl, by simp [mkMsg, hs, hborn o (by simp)]⟩
      have := ih (idx + 1) (mkMap h o :: maps) (msgs ++ [mkMsg cfg win now o]) (by omega)
        (fun x hx => hsub x (by simp [hx])) (fun x hx => hborn x (by simp [hx]))
        (fun a => by rw [initCovered_cons_dyn _ _ _ (by simp [mkMap])]; exact hinit a)
        (by
          intro m hm hh hl
          rcases List.mem_cons.mp hm with e | e
          · subst e; exact ⟨o, hoL, rfl, rfl, hrepo⟩
          · obtain ⟨o', ho', h1, h2, h3⟩ := hlive m e hh hl
            exact ⟨o', ho', h1, h2, h3.mono (fun x hx => by simp [hx])⟩)
      obtain ⟨r1, r2, r3, r4⟩ := this
      refine ⟨r1, r2, fun m hm => r3 m (by simp [hm]), ?_⟩
      intro x hx hd
      rcases List.mem_cons.mp hx with e | e
      · subst e; exact hrepo.mono (fun m hm => r3 m hm)
      · exact r4 x e hd
    · -- not reported
      rename_i hrep
      have := ih (idx + 1) maps msgs (by omega)
        (fun x hx => hsub x (by simp [hx])) (fun x hx => hborn x (by simp [hx])) hinit hlive
      obtain ⟨r1, r2, r3, r4⟩ := this
      refine ⟨r1, r2, r3, ?_⟩
      intro x hx hd
      rcases List.mem_cons.mp hx with e | e
      · subst e
        -- a named object past the counted ones is skipped only when its address is known
        have hk : addrKnown maps x.start = true := by
          unfold reports at hrep
          have h1 : (x.name.isEmpty || x.name == vdsoName) = false := by
            have a1 : x.name.isEmpty = false := by
              cases hn : x.name with
              | nil => exact absurd hn hd.1
              | cons _ _ => rfl
            have a2 : (x.name == vdsoName) = false := by
              simpa using hd.2.1
            simp [a1, a2]
          simp only [h1, hf, if_true, Bool.false_eq_true, if_false] at hrep
          have h2 : ¬ (idx + (subs - win.subsBefore) < win.nrBefore) := by omega
          simpa [h2] using hrep
        unfold addrKnown at hk
        obtain ⟨m, hm, hc⟩ := List.any_eq_true.mp hk
        simp only [Bool.and_eq_true, Bool.or_eq_true, decide_eq_true_eq] at hc
        obtain ⟨⟨hhl, hlo⟩, hhi⟩ := hc
        by_cases hnone : m.handle = none
        · -- a session map: the object is not dynamic
          exfalso
          have : initCovered maps x.start = true := by
            unfold initCovered
            exact List.any_eq_true.mpr ⟨m, hm, by simp [hnone, hlo, hhi]⟩
          rw [hinit] at this
          rw [hd.2.2] at this
          exact Bool.false_ne_true this
        · have hl : m.live = true := by
            rcases hhl with e | e
            · simp [Option.isNone_iff_eq_none] at e; exact absurd e hnone
            · exact e
          obtain ⟨o', ho', h1, h2, h3⟩ := hlive m hm hnone hl
          have : o' = x := hphys o' ho' x hoL (by omega) (by omega)
          subst this
          exact h3.mono r3
      · exact r4 x e hd

theorem mem_drop_append_singleton {α : Type} (l : List α) (x : α) (n : Nat) (h : n ≤ l.length) :
    (l ++ [x]).drop n = l.drop n ++ [x] := List.drop_append_of_le_length h

theorem inv_step (im : List MMap) (cfg : Cfg) (hf : cfg.fixed = true) (hs : cfg.stampAtSend = false)
    (st : St) (ev : Ev) (hinv : Inv im st) (hok : EvOk st ev) : Inv im (step cfg st ev) := by
  cases ev with
  | tick dt =>
    exact { hinv with
      bornle := fun o ho => Nat.le_trans (hinv.bornle o ho) (Nat.le_add_right _ _)
      win := fun w hw => ⟨Nat.le_trans (hinv.win w hw).1 (Nat.le_add_right _ _), (hinv.win w hw).2⟩ }
  | call a =>
    refine { hinv with recs := ?_ }
    intro r hr
    simp only [step, List.mem_append, List.mem_singleton] at hr
    rcases hr with h | h
    · exact hinv.recs r h
    · subst h
      exact ⟨fun o ho => hinv.bornle o ho, fun o ho _ => Or.inr ho⟩
  | enter w f =>
    simp only [EvOk] at hok
    refine { hinv with win := ?_, obj := ?_, uniq := ?_ }
    · intro x hx
      simp only [step, List.mem_cons] at hx
      rcases hx with e | e
      · subst e
        exact ⟨Nat.le_refl _, Nat.le_refl _, rfl, by simp [step]⟩
      · exact hinv.win x e
    · intro o ho hd
      rcases hinv.obj o ho hd with h | ⟨x, hx, hx'⟩
      · exact Or.inl h
      · exact Or.inr ⟨x, by simp [step, hx], hx'⟩
    · simp only [step]
      refine List.pairwise_cons.mpr ⟨?_, hinv.uniq⟩
      intro x hx
      exact fun e => hok x hx e.symm
  | load n r b s e =>
    simp only [EvOk] at hok
    obtain ⟨hne, hdis⟩ := hok
    have hlen : ∀ w ∈ st.wins, w.nrBefore ≤ st.loaded.length := fun w hw => (hinv.win w hw).2.1
    refine { hinv with bornle := ?_, win := ?_, obj := ?_, live := ?_, phys := ?_, recs := ?_ }
    · intro o ho
      simp only [step, List.mem_append, List.mem_singleton] at ho
      rcases ho with h | h
      · exact hinv.bornle o h
      · subst h; exact Nat.le_refl _
    · intro w hw
      obtain ⟨h1, h2, h3, h4⟩ := hinv.win w hw
      refine ⟨h1, by simp only [step, List.length_append]; omega, h3, ?_⟩
      intro o ho
      simp only [step] at ho
      rw [mem_drop_append_singleton _ _ _ h2] at ho
      rcases List.mem_append.mp ho with h | h
      · exact h4 o h
      · simp only [List.mem_singleton] at h; subst h; exact h1
    · intro o ho hd
      simp only [step, List.mem_append, List.mem_singleton] at ho
      rcases ho with h | h
      · rcases hinv.obj o h hd with h' | ⟨x, hx, hx'⟩
        · exact Or.inl h'
        · right
          refine ⟨x, hx, ?_⟩
          simp only [step]
          rw [mem_drop_append_singleton _ _ _ (hlen x hx)]
          exact List.mem_append_left _ hx'
      · right
        cases hw : st.wins with
        | nil => exact absurd hw hne
        | cons x xs =>
          have hx : x ∈ st.wins := by rw [hw]; simp
          refine ⟨x, by simp only [step]; exact hx, ?_⟩
          simp only [step]
          rw [mem_drop_append_singleton _ _ _ (hlen x hx)]
          exact List.mem_append_right _ (by simp [h])
    · intro m hm hh hl
      obtain ⟨o, ho, h'⟩ := hinv.live m hm hh hl
      exact ⟨o, by simp [step, ho], h'⟩
    · intro o ho o' ho' h1 h2
      simp only [step, List.mem_append, List.mem_singleton] at ho ho'
      rcases ho with a | a <;> rcases ho' with c | c
      · exact hinv.phys o a o' c h1 h2
      · subst c
        exact absurd ⟨h1, h2⟩ (hdis o a).1
      · subst a
        exact absurd ⟨h1, h2⟩ (hdis o' c).2
      · rw [a, c]
    · intro r' hr'
      obtain ⟨h1, h2⟩ := hinv.recs r' hr'
      refine ⟨h1, fun o ho hd => ?_⟩
      rcases h2 o ho hd with h | h
      · exact Or.inl h
      · exact Or.inr (by simp [step, h])
  | close h gone =>
    simp only [EvOk] at hok
    obtain ⟨hw, hgone⟩ := hok
    have hrep : ∀ o ∈ st.loaded, Dyn im o → Reported st.msgs o := by
      intro o ho hd
      rcases hinv.obj o ho hd with h' | ⟨x, hx, _⟩
      · exact h'
      · rw [hw] at hx; simp at hx
    have hfx : cfg.fixed = true := hf
    constructor
    · intro a
      simp only [step, hfx]
      rw [initCovered_markClosed]; exact hinv.initc a
    · intro o ho
      simp only [step] at ho
      exact hinv.bornle o (List.mem_filter.mp ho).1
    · intro w hw'
      simp only [step] at hw'
      rw [hw] at hw'; simp at hw'
    · intro o ho hd
      simp only [step] at ho
      exact Or.inl (hrep o (List.mem_filter.mp ho).1 hd)
    · intro m hm hh hl
      simp only [step, hfx] at hm
      obtain ⟨hm', hne⟩ := mem_markClosed h st.maps m hm hl
      obtain ⟨o, ho, h1, h2, h3⟩ := hinv.live m hm' hh hl
      refine ⟨o, ?_, h1, h2, h3⟩
      simp only [step]
      refine List.mem_filter.mpr ⟨ho, ?_⟩
      cases hc : gone.contains o.start with
      | false => rfl
      | true => exact absurd (hgone o ho hc m hm' hl hh h1.symm) hne
    · intro o ho o' ho' h1 h2
      simp only [step] at ho ho'
      exact hinv.phys o (List.mem_filter.mp ho).1 o' (List.mem_filter.mp ho').1 h1 h2
    · intro r hr
      simp only [step] at hr
      obtain ⟨h1, h2⟩ := hinv.recs r hr
      refine ⟨h1, fun o ho hd => ?_⟩
      rcases h2 o ho hd with h' | h'
      · exact Or.inl h'
      · exact Or.inl (hrep o h' hd)
    · simp only [step]; exact hinv.uniq
  | leave w h =>
    simp only [step]
    cases hfw : findWin st.wins w with
    | none => exact hinv
    | some win =>
      simp only
      have hwin : win ∈ st.wins := List.mem_of_find?_eq_some hfw
      have hid : win.id = w := by
        have := List.find?_some hfw
        simpa using this
      obtain ⟨wts, wlen, wsubs, wborn⟩ := hinv.win win hwin
      -- split the loader's list at the number counted before the real dlopen
      have hsplit : st.loaded = st.loaded.take win.nrBefore ++ st.loaded.drop win.nrBefore :=
        (List.take_append_drop _ _).symm
      have hloop : reportLoop cfg win h st.now st.subs 0 st.loaded st.maps st.msgs =
          reportLoop cfg win h st.now st.subs win.nrBefore (st.loaded.drop win.nrBefore)
            st.maps st.msgs := by
        conv => lhs; rw [hsplit]
        rw [reportLoop_append]
        have hlt : (st.loaded.take win.nrBefore).length = win.nrBefore := by
          rw [List.length_take]; omega
        rw [reportLoop_skip cfg hf win h st.now st.subs wsubs.symm _ 0 _ _ (by omega)]
        simp only [hlt, Nat.zero_add]
      rw [hloop]
      have post := reportLoop_post cfg hf hs im win h st.now st.subs wsubs.symm st.loaded hinv.phys
        (st.loaded.drop win.nrBefore) win.nrBefore st.maps st.msgs (Nat.le_refl _)
        (fun o ho => List.mem_of_mem_drop ho) wborn hinv.initc hinv.live
      obtain ⟨p1, p2, p3, p4⟩ := post
      constructor
      · exact p1
      · exact hinv.bornle
      · intro x hx
        exact hinv.win x (List.mem_filter.mp hx).1
      · intro o ho hd
        rcases hinv.obj o ho hd with h' | ⟨x, hx, hx'⟩
        · exact Or.inl (h'.mono p3)
        · by_cases hxe : x.id = w
          · -- the window that is closing: the object was in its part of the list
            have : x = win := by
              apply Classical.byContradiction
              intro hne
              have hpw := hinv.uniq
              obtain ⟨i, hi, ei⟩ := List.mem_iff_getElem.mp hx
              obtain ⟨j, hj, ej⟩ := List.mem_iff_getElem.mp hwin
              have hpw' := List.pairwise_iff_getElem.mp hpw
              by_cases hij : i < j
              · have := hpw' i j hi hj hij; rw [ei, ej] at this; exact this (by rw [hxe, hid])
              · by_cases hji : j < i
                · have := hpw' j i hj hi hji; rw [ei, ej] at this; exact this (by rw [hxe, hid])
                · have : i = j := by omega
                  subst this; rw [ei] at ej; exact hne ej
            subst this
            exact Or.inl (p4 o hx' hd)
          · exact Or.inr ⟨x, List.mem_filter.mpr ⟨hx, by simpa using hxe⟩, hx'⟩
      · exact p2
      · exact hinv.phys
      · intro r hr
        obtain ⟨h1, h2⟩ := hinv.recs r hr
        refine ⟨h1, fun o ho hd => ?_⟩
        rcases h2 o ho hd with h' | h'
        · exact Or.inl (h'.mono p3)
        · exact Or.inr h'
      · exact List.Pairwise.sublist List.filter_sublist hinv.uniq

theorem inv_run (im : List MMap) (cfg : Cfg) (hf : cfg.fixed = true) (hs : cfg.stampAtSend = false)
    (st : St) (evs : List Ev) (hinv : Inv im st) (hv : Valid cfg st evs) :
    Inv im (run cfg st evs) := by
  induction evs generalizing st with
  | nil => exact hinv
  | cons e r ih => exact ih _ (inv_step im cfg hf hs st e hinv hv.1) hv.2

/-- a state right after libmcount's start-up: the maps are the session maps, every loaded
    object is covered by them (or is the main program / the vdso) -/
structure Init (st : St) : Prop where
  maps : ∀ m ∈ st.maps, m.handle = none
  wins : st.wins = []
  recs : st.recs = []
  objs : ∀ o ∈ st.loaded, ¬ Dyn st.maps o
  born : ∀ o ∈ st.loaded, o.born ≤ st.now
  phys : ∀ o ∈ st.loaded, ∀ o' ∈ st.loaded, o.start ≤ o'.start → o'.start < o.stop → o = o'

theorem inv_init (st : St) (h : Init st) : Inv st.maps st where
  initc := fun _ => rfl
  bornle := h.born
  win := by intro w hw; rw [h.wins] at hw; simp at hw
  obj := fun o ho hd => absurd hd (h.objs o ho)
  live := fun m hm hh _ => absurd (h.maps m hm) hh
  phys := h.phys
  recs := by intro r hr; rw [h.recs] at hr; simp at hr
  uniq := by rw [h.wins]; exact List.Pairwise.nil

end Uft.DlRecord
