import Uft.Model.DlRecord
import Uft.Lemmas.Symtab
import Uft.Lemmas.Session
/- Helper lemmas for C10: the record-time dlopen model (clock, windows, report loop, invariant). -/
namespace Uft.DlRecord
open Uft.Symtab Uft.SymFile

/-! ### the clock never goes back; records and objects carry the time of their creation -/

theorem step_now_le (cfg : Cfg) (st : St) (ev : Ev) : st.now ≤ (step cfg st ev).now := by
  cases ev <;> simp only [step] <;> try omega
  all_goals (split <;> simp)

theorem run_now_le (cfg : Cfg) (st : St) (evs : List Ev) : st.now ≤ (run cfg st evs).now := by
  induction evs generalizing st with
  | nil => exact Nat.le_refl _
  | cons e r ih => exact Nat.le_trans (step_now_le cfg st e) (ih _)

theorem step_recs (cfg : Cfg) (st : St) (ev : Ev) :
    ∃ new, (step cfg st ev).recs = st.recs ++ new ∧ ∀ r ∈ new, r.time = st.now := by
  cases ev with
  | call a => exact ⟨[_], rfl, by simp⟩
  | leave w h => refine ⟨[], ?_, by simp⟩; simp only [step]; split <;> simp
  | _ => exact ⟨[], by simp [step], by simp⟩

theorem run_recs (cfg : Cfg) (st : St) (evs : List Ev) :
    ∃ new, (run cfg st evs).recs = st.recs ++ new ∧ ∀ r ∈ new, st.now ≤ r.time := by
  induction evs generalizing st with
  | nil => exact ⟨[], by simp [run], by simp⟩
  | cons e r ih =>
    obtain ⟨n1, h1, t1⟩ := step_recs cfg st e
    obtain ⟨n2, h2, t2⟩ := ih (step cfg st e)
    refine ⟨n1 ++ n2, ?_, ?_⟩
    · show (run cfg (step cfg st e) r).recs = _
      rw [h2, h1, List.append_assoc]
    · intro x hx
      rcases List.mem_append.mp hx with h | h
      · rw [t1 x h]; exact Nat.le_refl _
      · exact Nat.le_trans (step_now_le cfg st e) (t2 x h)

theorem step_loaded (cfg : Cfg) (st : St) (ev : Ev) :
    ∀ o ∈ (step cfg st ev).loaded, o ∈ st.loaded ∨ o.born = st.now := by
  intro o ho
  cases ev with
  | load n r b s e t =>
    simp only [step, List.mem_append, List.mem_singleton] at ho
    rcases ho with h | h
    · exact Or.inl h
    · right; rw [h]
  | close h gone =>
    simp only [step] at ho
    exact Or.inl (List.mem_filter.mp ho).1
  | leave w h =>
    simp only [step] at ho
    split at ho <;> exact Or.inl ho
  | _ => exact Or.inl (by simpa [step] using ho)

theorem run_loaded (cfg : Cfg) (st : St) (evs : List Ev) :
    ∀ o ∈ (run cfg st evs).loaded, o ∈ st.loaded ∨ st.now ≤ o.born := by
  induction evs generalizing st with
  | nil => intro o ho; exact Or.inl ho
  | cons e r ih =>
    intro o ho
    rcases ih (step cfg st e) o ho with h | h
    · rcases step_loaded cfg st e o h with h' | h'
      · exact Or.inl h'
      · right; omega
    · right; exact Nat.le_trans (step_now_le cfg st e) h

/-! ### a window stays as it is until its own `leave` -/

/-- events of the dlopen() call with number `w` -/
def touches (w : Nat) : Ev → Bool
  | .enter w' _ => w' == w
  | .leave w' _ => w' == w
  | _ => false

theorem find?_filter_keep {α : Type} (p q : α → Bool) (l : List α) (h : ∀ x, p x = true → q x = true) :
    (l.filter q).find? p = l.find? p := by
  induction l with
  | nil => rfl
  | cons x r ih =>
    by_cases hq : q x = true
    · rw [List.filter_cons_of_pos hq]
      simp only [List.find?_cons, ih]
    · have hp : p x = false := by
        cases hpx : p x with
        | false => rfl
        | true => exact absurd (h x hpx) hq
      rw [List.filter_cons_of_neg hq, List.find?_cons, hp, ih]

theorem step_findWin (cfg : Cfg) (st : St) (ev : Ev) (w : Nat) (h : touches w ev = false) :
    findWin (step cfg st ev).wins w = findWin st.wins w := by
  cases ev with
  | enter w' f =>
    simp only [touches] at h
    simp only [step, findWin, List.find?_cons, h]
  | leave w' hd =>
    simp only [touches] at h
    simp only [step]
    split
    · rfl
    · simp only [findWin]
      apply find?_filter_keep
      intro x hx
      have : x.id = w := by simpa using hx
      simp only [bne_iff_ne, ne_eq]
      intro hc
      rw [this] at hc
      simp [hc] at h
  | _ => rfl

theorem run_findWin (cfg : Cfg) (st : St) (evs : List Ev) (w : Nat)
    (h : ∀ ev ∈ evs, touches w ev = false) :
    findWin (run cfg st evs).wins w = findWin st.wins w := by
  induction evs generalizing st with
  | nil => rfl
  | cons e r ih =>
    show findWin (run cfg (step cfg st e) r).wins w = _
    rw [ih _ (fun ev hev => h ev (by simp [hev])), step_findWin cfg st e w (h e (by simp))]

/-! ### the report loop -/

theorem reportLoop_msgs (cfg : Cfg) (win : Win) (h now subs : Nat) (objs : List Obj) (idx : Nat)
    (maps : List MMap) (msgs : List Msg) :
    ∃ new, (reportLoop cfg win h now subs idx objs maps msgs).2 = msgs ++ new ∧
      ∀ m ∈ new, ∃ o ∈ objs, m = mkMsg cfg win now o := by
  induction objs generalizing idx maps msgs with
  | nil => exact ⟨[], by simp [reportLoop], by simp⟩
  | cons o r ih =>
    simp only [reportLoop]
    split
    · obtain ⟨new, h1, h2⟩ := ih (idx + 1) (mkMap h o :: maps) (msgs ++ [mkMsg cfg win now o])
      refine ⟨mkMsg cfg win now o :: new, by rw [h1]; simp, ?_⟩
      intro m hm
      rcases List.mem_cons.mp hm with e | e
      · exact ⟨o, by simp, e⟩
      · obtain ⟨o', ho', hm'⟩ := h2 m e
        exact ⟨o', by simp [ho'], hm'⟩
    · obtain ⟨new, h1, h2⟩ := ih (idx + 1) maps msgs
      refine ⟨new, h1, ?_⟩
      intro m hm
      obtain ⟨o', ho', hm'⟩ := h2 m hm
      exact ⟨o', by simp [ho'], hm'⟩

theorem reportLoop_append (cfg : Cfg) (win : Win) (h now subs : Nat) (a b : List Obj) (idx : Nat)
    (maps : List MMap) (msgs : List Msg) :
    reportLoop cfg win h now subs idx (a ++ b) maps msgs =
      reportLoop cfg win h now subs (idx + a.length) b
        (reportLoop cfg win h now subs idx a maps msgs).1
        (reportLoop cfg win h now subs idx a maps msgs).2 := by
  induction a generalizing idx maps msgs with
  | nil => simp [reportLoop]
  | cons o r ih =>
    simp only [List.cons_append, reportLoop, List.length_cons]
    split
    · rw [ih]; congr 1; omega
    · rw [ih]; congr 1; omega

/-- (fix) objects counted before the real dlopen are never reported -/
theorem reportLoop_skip (cfg : Cfg) (hf : cfg.fixed = true) (win : Win) (h now subs : Nat)
    (hsubs : subs = win.subsBefore) (objs : List Obj) (idx : Nat) (maps : List MMap) (msgs : List Msg)
    (hle : idx + objs.length ≤ win.nrBefore) :
    reportLoop cfg win h now subs idx objs maps msgs = (maps, msgs) := by
  induction objs generalizing idx with
  | nil => rfl
  | cons o r ih =>
    simp only [List.length_cons] at hle
    have : reports cfg win subs maps idx o = false := by
      unfold reports
      split
      · rfl
      · have hlt : idx + (subs - win.subsBefore) < win.nrBefore := by omega
        simp [hlt]
    simp only [reportLoop, this]
    exact ih (idx + 1) (by omega)

/-! ### the invariant of the repaired wrapper -/

/-- covered by one of the session maps read at start-up -/
def initCovered (maps : List MMap) (a : Nat) : Bool :=
  maps.any (fun m => m.handle.isNone && decide (m.start ≤ a) && decide (a < m.stop))

/-- an object that needs a DLOPEN message: named, not the vdso, not in the session maps -/
def Dyn (im : List MMap) (o : Obj) : Prop :=
  o.name ≠ [] ∧ o.name ≠ vdsoName ∧ initCovered im o.start = false

/-- the address lies in the object's text (`map->start <= addr < map->end`) -/
def covers (o : Obj) (a : Nat) : Prop := o.start ≤ a ∧ a < o.stop

def Overlap (x y : Obj) : Prop := x.start < y.stop ∧ y.start < x.stop

/-- load bias below the first segment, non-empty text, inside the 64-bit address space; the
    symbols of the table lie inside the text -/
def Shape (o : Obj) : Prop :=
  o.bias ≤ o.start ∧ o.start < o.stop ∧ o.stop < U64 ∧
    ∀ x ∈ o.syms, o.start ≤ o.bias + x.addr ∧ o.bias + x.addr + x.size ≤ o.stop

/-- a message sent for this very object, stamped no later than its mapping -/
def Reported (msgs : List Msg) (o : Obj) : Prop :=
  ∃ m ∈ msgs, m.obj = o ∧ m.time ≤ o.born

theorem Reported.mono {msgs msgs' : List Msg} {o : Obj} (h : Reported msgs o)
    (hs : ∀ m ∈ msgs, m ∈ msgs') : Reported msgs' o := by
  obtain ⟨m, hm, h'⟩ := h
  exact ⟨m, hs m hm, h'⟩

theorem covers_overlap {x y : Obj} {a : Nat} (hx : covers x a) (hy : covers y a) : Overlap x y := by
  unfold covers at hx hy; unfold Overlap; omega

/-- what the loader, the clock and the program may do (hypotheses on a trace, evaluated along
    the run):
    * dlopen() calls in progress have distinct numbers, and the clock value a dlopen() reads is
      larger than every value read before (by `mcount_entry` or by another dlopen());
    * objects are mapped only inside a real dlopen, with a non-empty text inside the 64-bit
      address space that no loaded object's text overlaps, and the symbols of their tables lie
      inside the text;
    * nothing is unloaded while a dlopen() is in progress. -/
def EvOk (st : St) : Ev → Prop
  | .enter w _ => (∀ x ∈ st.wins, x.id ≠ w) ∧ st.lastRead < st.now
  | .load _ _ b s e t =>
    st.wins ≠ [] ∧ b ≤ s ∧ s < e ∧ e < U64 ∧ (∀ x ∈ t, s ≤ b + x.addr ∧ b + x.addr + x.size ≤ e) ∧
      ∀ o ∈ st.loaded, ¬ (o.start ≤ s ∧ s < o.stop) ∧ ¬ (s ≤ o.start ∧ o.start < e)
  | .close _ _ => st.wins = []
  | _ => True

def Valid (cfg : Cfg) : St → List Ev → Prop
  | _, [] => True
  | st, ev :: r => EvOk st ev ∧ Valid cfg (step cfg st ev) r

structure Inv (im : List MMap) (st : St) : Prop where
  initc : ∀ a, initCovered st.maps a = initCovered im a
  bornle : ∀ o ∈ st.loaded, o.born ≤ st.now
  win : ∀ w ∈ st.wins, w.ts ≤ st.now ∧ w.nrBefore ≤ st.loaded.length ∧ w.subsBefore = st.subs ∧
          ∀ o ∈ st.loaded.drop w.nrBefore, w.ts ≤ o.born
  obj : ∀ o ∈ st.loaded, Dyn im o →
          Reported st.msgs o ∨ ∃ w ∈ st.wins, o ∈ st.loaded.drop w.nrBefore
  live : ∀ m ∈ st.maps, m.handle ≠ none → m.live = true →
          ∃ o ∈ st.loaded, o.start = m.start ∧ o.stop = m.stop ∧ Reported st.msgs o
  phys : ∀ o ∈ st.loaded, ∀ o' ∈ st.loaded, o.start ≤ o'.start → o'.start < o.stop → o = o'
  shape : ∀ o ∈ st.loaded, Shape o
  shapem : ∀ m ∈ st.msgs, Shape m.obj
  recs : ∀ r ∈ st.recs, (∀ o ∈ r.objs, o.born ≤ r.time) ∧
          ∀ o ∈ r.objs, Dyn im o → Reported st.msgs o ∨ o ∈ st.loaded
  uniq : st.wins.Pairwise (fun a b => a.id ≠ b.id)
  idl : ∀ o ∈ st.loaded, o.id < st.nloads
  idm : ∀ m ∈ st.msgs, m.obj.id < st.nloads
  idr : ∀ r ∈ st.recs, ∀ o ∈ r.objs, o.id < st.nloads
  clock : st.lastRead ≤ st.now
  clockr : ∀ r ∈ st.recs, r.time ≤ st.lastRead
  clockm : ∀ m ∈ st.msgs, m.time ≤ st.lastRead
  clockw : ∀ w ∈ st.wins, w.ts ≤ st.lastRead
  msgok : ∀ m ∈ st.msgs, m.time ≤ m.obj.born ∧ m.bias = m.obj.bias ∧ m.name = m.obj.name
  dead : ∀ m ∈ st.msgs, m.obj ∉ st.loaded → ∀ w ∈ st.wins, m.time < w.ts
  deadr : ∀ r ∈ st.recs, ∀ o ∈ r.objs, o ∉ st.loaded → ∀ w ∈ st.wins, r.time < w.ts
  order : ∀ m ∈ st.msgs, ∀ o ∈ st.loaded, Overlap m.obj o → m.obj = o ∨
          ((∀ m' ∈ st.msgs, m'.obj = o → m.time < m'.time) ∧
           ∀ w ∈ st.wins, o ∈ st.loaded.drop w.nrBefore → m.time < w.ts)
  key : ∀ r ∈ st.recs, ∀ o ∈ r.objs, ∀ m ∈ st.msgs, ∀ mo ∈ st.msgs,
          covers o r.addr → covers m.obj r.addr → mo.obj = o → mo.time ≤ m.time →
          m.time ≤ r.time → m.obj = o

theorem phys_overlap {l : List Obj}
    (hp : ∀ o ∈ l, ∀ o' ∈ l, o.start ≤ o'.start → o'.start < o.stop → o = o')
    {x y : Obj} (hx : x ∈ l) (hy : y ∈ l) (ho : Overlap x y) : x = y := by
  unfold Overlap at ho
  by_cases h : x.start ≤ y.start
  · exact hp x hx y hy h ho.2
  · exact (hp y hy x hx (by omega) ho.1).symm

theorem initCovered_cons_dyn (m : MMap) (maps : List MMap) (a : Nat) (h : m.handle ≠ none) :
    initCovered (m :: maps) a = initCovered maps a := by
  unfold initCovered
  cases hh : m.handle with
  | none => exact absurd hh h
  | some x => simp [hh]

theorem initCovered_markGone (l : List Obj) (maps : List MMap) (a : Nat) :
    initCovered (markGone l maps) a = initCovered maps a := by
  induction maps with
  | nil => rfl
  | cons m r ih =>
    unfold initCovered at ih ⊢
    simp only [markGone, List.map_cons, List.any_cons] at ih ⊢
    rw [ih]
    congr 1
    split
    · rename_i hc
      simp only [Bool.and_eq_true] at hc
      have : m.handle.isNone = false := by
        cases hh : m.handle with
        | none => simp [hh] at hc
        | some _ => rfl
      simp [this]
    · rfl

theorem mem_markGone (l : List Obj) (maps : List MMap) (m : MMap)
    (hm : m ∈ markGone l maps) (hl : m.live = true) (hh : m.handle ≠ none) :
    m ∈ maps ∧ ∃ o ∈ l, o.start = m.start := by
  unfold markGone at hm
  obtain ⟨x, hx, hxm⟩ := List.mem_map.mp hm
  split at hxm
  · subst hxm; simp at hl
  · rename_i hc
    subst hxm
    refine ⟨hx, ?_⟩
    have hs : x.handle.isSome = true := by
      cases hx' : x.handle with
      | none => exact absurd hx' hh
      | some _ => rfl
    simp only [hl, hs, Bool.true_and, Bool.not_eq_true', Bool.not_eq_false] at hc
    have hc' : (l.any fun o => o.start == x.start) = true := by
      cases h : (l.any fun o => o.start == x.start) with
      | true => rfl
      | false => simp [h] at hc
    obtain ⟨o, ho, he⟩ := List.any_eq_true.mp hc'
    exact ⟨o, ho, by simpa using he⟩

/-- the loop over the objects appended since the timestamp was taken -/
theorem reportLoop_post (cfg : Cfg) (hf : cfg.fixed = true) (hs : cfg.stampAtSend = false)
    (im : List MMap) (win : Win) (h now subs : Nat) (hsubs : subs = win.subsBefore)
    (L : List Obj)
    (hphys : ∀ o ∈ L, ∀ o' ∈ L, o.start ≤ o'.start → o'.start < o.stop → o = o')
    (objs : List Obj) (idx : Nat) (maps : List MMap) (msgs : List Msg)
    (hidx : win.nrBefore ≤ idx)
    (hsub : ∀ o ∈ objs, o ∈ L) (hborn : ∀ o ∈ objs, win.ts ≤ o.born)
    (hinit : ∀ a, initCovered maps a = initCovered im a)
    (hlive : ∀ m ∈ maps, m.handle ≠ none → m.live = true →
        ∃ o ∈ L, o.start = m.start ∧ o.stop = m.stop ∧ Reported msgs o) :
    let res := reportLoop cfg win h now subs idx objs maps msgs
    (∀ a, initCovered res.1 a = initCovered im a) ∧
    (∀ m ∈ res.1, m.handle ≠ none → m.live = true →
        ∃ o ∈ L, o.start = m.start ∧ o.stop = m.stop ∧ Reported res.2 o) ∧
    (∀ m ∈ msgs, m ∈ res.2) ∧
    (∀ o ∈ objs, Dyn im o → Reported res.2 o) := by
  induction objs generalizing idx maps msgs with
  | nil => exact ⟨hinit, hlive, fun m hm => hm, by simp⟩
  | cons o r ih =>
    have hoL : o ∈ L := hsub o (by simp)
    simp only [reportLoop]
    split
    · -- reported
      rename_i hrep
      have hrepo : Reported (msgs ++ [mkMsg cfg win now o]) o :=
        ⟨mkMsg cfg win now o, by simp, rfl, by simp [mkMsg, hs, hborn o (by simp)]⟩
      have := ih (idx + 1) (mkMap h o :: maps) (msgs ++ [mkMsg cfg win now o]) (by omega)
        (fun x hx => hsub x (by simp [hx])) (fun x hx => hborn x (by simp [hx]))
        (fun a => by rw [initCovered_cons_dyn _ _ _ (by simp [mkMap])]; exact hinit a)
        (by
          intro m hm hh hl
          rcases List.mem_cons.mp hm with e | e
          · subst e; exact ⟨o, hoL, rfl, rfl, hrepo⟩
          · obtain ⟨o', ho', h1, h2, h3⟩ := hlive m e hh hl
            exact ⟨o', ho', h1, h2, h3.mono (fun x hx => by simp [hx])⟩)
      obtain ⟨r1, r2, r3, r4⟩ := this
      refine ⟨r1, r2, fun m hm => r3 m (by simp [hm]), ?_⟩
      intro x hx hd
      rcases List.mem_cons.mp hx with e | e
      · subst e; exact hrepo.mono (fun m hm => r3 m hm)
      · exact r4 x e hd
    · -- not reported
      rename_i hrep
      have := ih (idx + 1) maps msgs (by omega)
        (fun x hx => hsub x (by simp [hx])) (fun x hx => hborn x (by simp [hx])) hinit hlive
      obtain ⟨r1, r2, r3, r4⟩ := this
      refine ⟨r1, r2, r3, ?_⟩
      intro x hx hd
      rcases List.mem_cons.mp hx with e | e
      · subst e
        -- a named object past the counted ones is skipped only when its address is known
        have hk : addrKnown maps x.start = true := by
          unfold reports at hrep
          have h1 : (x.name.isEmpty || x.name == vdsoName) = false := by
            have a1 : x.name.isEmpty = false := by
              cases hn : x.name with
              | nil => exact absurd hn hd.1
              | cons _ _ => rfl
            have a2 : (x.name == vdsoName) = false := by
              simpa using hd.2.1
            simp [a1, a2]
          simp only [h1, hf, if_true, Bool.false_eq_true, if_false] at hrep
          have h2 : ¬ (idx + (subs - win.subsBefore) < win.nrBefore) := by omega
          simpa [h2] using hrep
        unfold addrKnown at hk
        obtain ⟨m, hm, hc⟩ := List.any_eq_true.mp hk
        simp only [Bool.and_eq_true, Bool.or_eq_true, decide_eq_true_eq] at hc
        obtain ⟨⟨hhl, hlo⟩, hhi⟩ := hc
        by_cases hnone : m.handle = none
        · -- a session map: the object is not dynamic
          exfalso
          have : initCovered maps x.start = true := by
            unfold initCovered
            exact List.any_eq_true.mpr ⟨m, hm, by simp [hnone, hlo, hhi]⟩
          rw [hinit] at this
          rw [hd.2.2] at this
          exact Bool.false_ne_true this
        · have hl : m.live = true := by
            rcases hhl with e | e
            · simp [Option.isNone_iff_eq_none] at e; exact absurd e hnone
            · exact e
          obtain ⟨o', ho', h1, h2, h3⟩ := hlive m hm hnone hl
          have : o' = x := hphys o' ho' x hoL (by omega) (by omega)
          subst this
          exact h3.mono r3
      · exact r4 x e hd

theorem mem_drop_append_singleton {α : Type} (l : List α) (x : α) (n : Nat) (h : n ≤ l.length) :
    (l ++ [x]).drop n = l.drop n ++ [x] := List.drop_append_of_le_length h

/-- two windows of a duplicate-free list with the same number are the same window -/
theorem win_eq_of_id {wins : List Win} (hu : wins.Pairwise (fun a b => a.id ≠ b.id))
    {x y : Win} (hx : x ∈ wins) (hy : y ∈ wins) (he : x.id = y.id) : x = y := by
  apply Classical.byContradiction
  intro hne
  obtain ⟨i, hi, ei⟩ := List.mem_iff_getElem.mp hx
  obtain ⟨j, hj, ej⟩ := List.mem_iff_getElem.mp hy
  have hpw' := List.pairwise_iff_getElem.mp hu
  by_cases hij : i < j
  · have := hpw' i j hi hj hij; rw [ei, ej] at this; exact this he
  · by_cases hji : j < i
    · have := hpw' j i hj hi hji; rw [ei, ej] at this; exact this he.symm
    · have : i = j := by omega
      subst this; rw [ei] at ej; exact hne ej

theorem inv_step (im : List MMap) (cfg : Cfg) (hf : cfg.fixed = true) (hs : cfg.stampAtSend = false)
    (st : St) (ev : Ev) (hinv : Inv im st) (hok : EvOk st ev) : Inv im (step cfg st ev) := by
  cases ev with
  | tick dt =>
    exact { hinv with
      bornle := fun o ho => Nat.le_trans (hinv.bornle o ho) (Nat.le_add_right _ _)
      win := fun w hw => ⟨Nat.le_trans (hinv.win w hw).1 (Nat.le_add_right _ _), (hinv.win w hw).2⟩
      clock := Nat.le_trans hinv.clock (Nat.le_add_right _ _) }
  | call a =>
    refine { hinv with recs := ?_, idr := ?_, clock := ?_, clockr := ?_, clockm := ?_, clockw := ?_,
                       deadr := ?_, key := ?_ }
    · intro r hr
      simp only [step, List.mem_append, List.mem_singleton] at hr
      rcases hr with h | h
      · exact hinv.recs r h
      · subst h
        exact ⟨fun o ho => hinv.bornle o ho, fun o ho _ => Or.inr ho⟩
    · intro r hr o ho
      simp only [step, List.mem_append, List.mem_singleton] at hr
      rcases hr with h | h
      · exact hinv.idr r h o ho
      · subst h; exact hinv.idl o ho
    · exact Nat.le_refl _
    · intro r hr
      simp only [step, List.mem_append, List.mem_singleton] at hr
      rcases hr with h | h
      · exact Nat.le_trans (hinv.clockr r h) hinv.clock
      · subst h; exact Nat.le_refl _
    · intro m hm
      exact Nat.le_trans (hinv.clockm m hm) hinv.clock
    · intro w hw
      exact Nat.le_trans (hinv.clockw w hw) hinv.clock
    · intro r hr o ho hno
      simp only [step, List.mem_append, List.mem_singleton] at hr
      rcases hr with h | h
      · exact hinv.deadr r h o ho hno
      · subst h; exact absurd ho hno
    · intro r hr o ho m hm mo hmo hco hcm hmo' hle hlt
      simp only [step, List.mem_append, List.mem_singleton] at hr
      rcases hr with h | h
      · exact hinv.key r h o ho m hm mo hmo hco hcm hmo' hle hlt
      · subst h
        rcases hinv.order m hm o ho (covers_overlap hcm hco) with e | ⟨e, _⟩
        · exact e
        · have := e mo hmo hmo'
          omega
  | enter w f =>
    simp only [EvOk] at hok
    obtain ⟨hok, hclk⟩ := hok
    refine { hinv with win := ?_, obj := ?_, uniq := ?_, clock := ?_, clockr := ?_, clockm := ?_,
                       clockw := ?_, dead := ?_, deadr := ?_, order := ?_ }
    · intro x hx
      simp only [step, List.mem_cons] at hx
      rcases hx with e | e
      · subst e
        exact ⟨Nat.le_refl _, Nat.le_refl _, rfl, by simp [step]⟩
      · exact hinv.win x e
    · intro o ho hd
      rcases hinv.obj o ho hd with h | ⟨x, hx, hx'⟩
      · exact Or.inl h
      · exact Or.inr ⟨x, by simp [step, hx], hx'⟩
    · simp only [step]
      refine List.pairwise_cons.mpr ⟨?_, hinv.uniq⟩
      intro x hx
      exact fun e => hok x hx e.symm
    · exact Nat.le_refl _
    · intro r hr
      have := hinv.clockr r hr
      show r.time ≤ st.now
      omega
    · intro m hm
      have := hinv.clockm m hm
      show m.time ≤ st.now
      omega
    · intro x hx
      simp only [step, List.mem_cons] at hx
      rcases hx with e | e
      · subst e; exact Nat.le_refl _
      · have := hinv.clockw x e
        show x.ts ≤ st.now
        omega
    · intro m hm hno x hx
      simp only [step, List.mem_cons] at hx
      rcases hx with e | e
      · subst e
        have := hinv.clockm m hm
        show m.time < st.now
        omega
      · exact hinv.dead m hm hno x e
    · intro r hr o ho hno x hx
      simp only [step, List.mem_cons] at hx
      rcases hx with e | e
      · subst e
        have := hinv.clockr r hr
        show r.time < st.now
        omega
      · exact hinv.deadr r hr o ho hno x e
    · intro m hm o ho hov
      rcases hinv.order m hm o ho hov with e | ⟨e1, e2⟩
      · exact Or.inl e
      · refine Or.inr ⟨e1, ?_⟩
        intro x hx hxo
        simp only [step, List.mem_cons] at hx
        rcases hx with e | e
        · subst e
          simp [step] at hxo
        · exact e2 x e hxo
  | load n r b s e t =>
    simp only [EvOk] at hok
    obtain ⟨hne, hbs, hse, heu, hsy, hdis⟩ := hok
    have hlen : ∀ w ∈ st.wins, w.nrBefore ≤ st.loaded.length := fun w hw => (hinv.win w hw).2.1
    -- the new object
    have hfresh : ∀ o ∈ st.loaded, o ≠ (⟨n, r, b, s, e, t, st.now, st.nloads⟩ : Obj) := by
      intro o ho he
      have := hinv.idl o ho
      rw [he] at this
      exact Nat.lt_irrefl _ this
    have hfreshm : ∀ m ∈ st.msgs, m.obj ≠ (⟨n, r, b, s, e, t, st.now, st.nloads⟩ : Obj) := by
      intro m hm he
      have := hinv.idm m hm
      rw [he] at this
      exact Nat.lt_irrefl _ this
    refine { hinv with bornle := ?_, win := ?_, obj := ?_, live := ?_, phys := ?_, shape := ?_,
                       recs := ?_, idl := ?_, idm := ?_, idr := ?_, dead := ?_, deadr := ?_,
                       order := ?_ }
    · intro o ho
      simp only [step, List.mem_append, List.mem_singleton] at ho
      rcases ho with h | h
      · exact hinv.bornle o h
      · subst h; exact Nat.le_refl _
    · intro w hw
      obtain ⟨h1, h2, h3, h4⟩ := hinv.win w hw
      refine ⟨h1, by simp only [step, List.length_append]; omega, h3, ?_⟩
      intro o ho
      simp only [step] at ho
      rw [mem_drop_append_singleton _ _ _ h2] at ho
      rcases List.mem_append.mp ho with h | h
      · exact h4 o h
      · simp only [List.mem_singleton] at h; subst h; exact h1
    · intro o ho hd
      simp only [step, List.mem_append, List.mem_singleton] at ho
      rcases ho with h | h
      · rcases hinv.obj o h hd with h' | ⟨x, hx, hx'⟩
        · exact Or.inl h'
        · right
          refine ⟨x, hx, ?_⟩
          simp only [step]
          rw [mem_drop_append_singleton _ _ _ (hlen x hx)]
          exact List.mem_append_left _ hx'
      · right
        cases hw : st.wins with
        | nil => exact absurd hw hne
        | cons x xs =>
          have hx : x ∈ st.wins := by rw [hw]; simp
          refine ⟨x, by simp only [step]; exact hx, ?_⟩
          simp only [step]
          rw [mem_drop_append_singleton _ _ _ (hlen x hx)]
          exact List.mem_append_right _ (by simp [h])
    · intro m hm hh hl
      obtain ⟨o, ho, h'⟩ := hinv.live m hm hh hl
      exact ⟨o, by simp [step, ho], h'⟩
    · intro o ho o' ho' h1 h2
      simp only [step, List.mem_append, List.mem_singleton] at ho ho'
      rcases ho with a | a <;> rcases ho' with c | c
      · exact hinv.phys o a o' c h1 h2
      · subst c
        exact absurd ⟨h1, h2⟩ (hdis o a).1
      · subst a
        exact absurd ⟨h1, h2⟩ (hdis o' c).2
      · rw [a, c]
    · intro o ho
      simp only [step, List.mem_append, List.mem_singleton] at ho
      rcases ho with h | h
      · exact hinv.shape o h
      · subst h; exact ⟨hbs, hse, heu, hsy⟩
    · intro r' hr'
      obtain ⟨h1, h2⟩ := hinv.recs r' hr'
      refine ⟨h1, fun o ho hd => ?_⟩
      rcases h2 o ho hd with h | h
      · exact Or.inl h
      · exact Or.inr (by simp [step, h])
    · intro o ho
      simp only [step, List.mem_append, List.mem_singleton] at ho
      rcases ho with h | h
      · exact Nat.lt_succ_of_lt (hinv.idl o h)
      · subst h; exact Nat.lt_succ_self _
    · intro m hm
      exact Nat.lt_succ_of_lt (hinv.idm m hm)
    · intro r' hr' o ho
      exact Nat.lt_succ_of_lt (hinv.idr r' hr' o ho)
    · intro m hm hno x hx
      refine hinv.dead m hm (fun hin => hno ?_) x hx
      simp [step, hin]
    · intro r' hr' o ho hno x hx
      refine hinv.deadr r' hr' o ho (fun hin => hno ?_) x hx
      simp [step, hin]
    · intro m hm o ho hov
      simp only [step, List.mem_append, List.mem_singleton] at ho
      rcases ho with h | h
      · rcases hinv.order m hm o h hov with e' | ⟨e1, e2⟩
        · exact Or.inl e'
        · refine Or.inr ⟨e1, ?_⟩
          intro x hx hxo
          simp only [step] at hxo
          rw [mem_drop_append_singleton _ _ _ (hlen x hx)] at hxo
          rcases List.mem_append.mp hxo with h' | h'
          · exact e2 x hx h'
          · simp only [List.mem_singleton] at h'
            exact absurd h' (hfresh o h)
      · subst h
        right
        -- the object of `m` overlaps the new one, so it is not loaded any more
        have hgone : m.obj ∉ st.loaded := by
          intro hin
          obtain ⟨d1, d2⟩ := hdis m.obj hin
          unfold Overlap at hov
          simp only at hov
          by_cases hc : m.obj.start ≤ s
          · exact d1 ⟨hc, hov.2⟩
          · exact d2 ⟨by omega, hov.1⟩
        refine ⟨fun m' hm' he' => absurd he' (hfreshm m' hm'), ?_⟩
        intro x hx _
        exact hinv.dead m hm hgone x hx
  | close h gone =>
    simp only [EvOk] at hok
    have hw := hok
    have hrep : ∀ o ∈ st.loaded, Dyn im o → Reported st.msgs o := by
      intro o ho hd
      rcases hinv.obj o ho hd with h' | ⟨x, hx, _⟩
      · exact h'
      · rw [hw] at hx; simp at hx
    have hfx : cfg.fixed = true := hf
    have hsub : ∀ o, o ∈ (step cfg st (.close h gone)).loaded → o ∈ st.loaded := by
      intro o ho
      simp only [step] at ho
      exact (List.mem_filter.mp ho).1
    have hwins : (step cfg st (.close h gone)).wins = [] := by simp only [step]; exact hw
    refine { hinv with initc := ?_, bornle := ?_, win := ?_, obj := ?_, live := ?_, phys := ?_,
                       shape := ?_, recs := ?_, idl := ?_, dead := ?_, deadr := ?_, order := ?_ }
    · intro a
      simp only [step, hfx, if_true]
      rw [initCovered_markGone]; exact hinv.initc a
    · intro o ho
      exact hinv.bornle o (hsub o ho)
    · intro w hw'
      rw [hwins] at hw'; simp at hw'
    · intro o ho hd
      exact Or.inl (hrep o (hsub o ho) hd)
    · intro m hm hh hl
      simp only [step, hfx, if_true] at hm
      obtain ⟨hm', o', ho', hs'⟩ := mem_markGone _ st.maps m hm hl hh
      obtain ⟨o, ho, h1, h2, h3⟩ := hinv.live m hm' hh hl
      have ho'l : o' ∈ st.loaded := (List.mem_filter.mp ho').1
      have : o = o' := hinv.phys o ho o' ho'l (by omega) (by have := (hinv.shape o ho).2.1; omega)
      subst this
      exact ⟨o, ho', h1, h2, h3⟩
    · intro o ho o' ho' h1 h2
      exact hinv.phys o (hsub o ho) o' (hsub o' ho') h1 h2
    · intro o ho
      exact hinv.shape o (hsub o ho)
    · intro r hr
      obtain ⟨h1, h2⟩ := hinv.recs r hr
      refine ⟨h1, fun o ho hd => ?_⟩
      rcases h2 o ho hd with h' | h'
      · exact Or.inl h'
      · exact Or.inl (hrep o h' hd)
    · intro o ho
      exact hinv.idl o (hsub o ho)
    · intro m _ _ x hx
      rw [hwins] at hx; simp at hx
    · intro r _ o _ _ x hx
      rw [hwins] at hx; simp at hx
    · intro m hm o ho hov
      rcases hinv.order m hm o (hsub o ho) hov with e | ⟨e1, _⟩
      · exact Or.inl e
      · refine Or.inr ⟨e1, ?_⟩
        intro x hx
        rw [hwins] at hx; simp at hx
  | leave w h =>
    simp only [step]
    cases hfw : findWin st.wins w with
    | none => exact hinv
    | some win =>
      simp only
      have hwin : win ∈ st.wins := List.mem_of_find?_eq_some hfw
      have hid : win.id = w := by
        have := List.find?_some hfw
        simpa using this
      obtain ⟨wts, wlen, wsubs, wborn⟩ := hinv.win win hwin
      -- split the loader's list at the number counted before the real dlopen
      have hsplit : st.loaded = st.loaded.take win.nrBefore ++ st.loaded.drop win.nrBefore :=
        (List.take_append_drop _ _).symm
      have hloop : reportLoop cfg win h st.now st.subs 0 st.loaded st.maps st.msgs =
          reportLoop cfg win h st.now st.subs win.nrBefore (st.loaded.drop win.nrBefore)
            st.maps st.msgs := by
        conv => lhs; rw [hsplit]
        rw [reportLoop_append]
        have hlt : (st.loaded.take win.nrBefore).length = win.nrBefore := by
          rw [List.length_take]; omega
        rw [reportLoop_skip cfg hf win h st.now st.subs wsubs.symm _ 0 _ _ (by omega)]
        simp only [hlt, Nat.zero_add]
      rw [hloop]
      have post := reportLoop_post cfg hf hs im win h st.now st.subs wsubs.symm st.loaded hinv.phys
        (st.loaded.drop win.nrBefore) win.nrBefore st.maps st.msgs (Nat.le_refl _)
        (fun o ho => List.mem_of_mem_drop ho) wborn hinv.initc hinv.live
      obtain ⟨p1, p2, p3, p4⟩ := post
      -- the messages sent by this call
      obtain ⟨new, hnew, hnewp⟩ := reportLoop_msgs cfg win h st.now st.subs
        (st.loaded.drop win.nrBefore) win.nrBefore st.maps st.msgs
      have hN : ∀ m ∈ new, m.obj ∈ st.loaded.drop win.nrBefore ∧ m.time = win.ts ∧
          m.bias = m.obj.bias ∧ m.name = m.obj.name := by
        intro m hm
        obtain ⟨o, ho, he⟩ := hnewp m hm
        subst he
        exact ⟨ho, by simp [mkMsg, hs], rfl, rfl⟩
      have hNl : ∀ m ∈ new, m.obj ∈ st.loaded := fun m hm => List.mem_of_mem_drop (hN m hm).1
      have hmem : ∀ m, m ∈ (reportLoop cfg win h st.now st.subs win.nrBefore
          (st.loaded.drop win.nrBefore) st.maps st.msgs).2 ↔ m ∈ st.msgs ∨ m ∈ new := by
        intro m; rw [hnew, List.mem_append]
      have hwsub : ∀ x, x ∈ st.wins.filter (fun x => x.id != w) → x ∈ st.wins :=
        fun x hx => (List.mem_filter.mp hx).1
      constructor
      · exact p1
      · exact hinv.bornle
      · intro x hx
        exact hinv.win x (hwsub x hx)
      · intro o ho hd
        rcases hinv.obj o ho hd with h' | ⟨x, hx, hx'⟩
        · exact Or.inl (h'.mono p3)
        · by_cases hxe : x.id = w
          · -- the window that is closing: the object was in its part of the list
            have : x = win := win_eq_of_id hinv.uniq hx hwin (by rw [hxe, hid])
            subst this
            exact Or.inl (p4 o hx' hd)
          · exact Or.inr ⟨x, List.mem_filter.mpr ⟨hx, by simpa using hxe⟩, hx'⟩
      · exact p2
      · exact hinv.phys
      · exact hinv.shape
      · intro m hm
        rcases (hmem m).mp hm with e | e
        · exact hinv.shapem m e
        · exact hinv.shape _ (hNl m e)
      · intro r hr
        obtain ⟨h1, h2⟩ := hinv.recs r hr
        refine ⟨h1, fun o ho hd => ?_⟩
        rcases h2 o ho hd with h' | h'
        · exact Or.inl (h'.mono p3)
        · exact Or.inr h'
      · exact List.Pairwise.sublist List.filter_sublist hinv.uniq
      · exact hinv.idl
      · intro m hm
        rcases (hmem m).mp hm with e | e
        · exact hinv.idm m e
        · exact hinv.idl _ (hNl m e)
      · exact hinv.idr
      · exact hinv.clock
      · exact hinv.clockr
      · intro m hm
        rcases (hmem m).mp hm with e | e
        · exact hinv.clockm m e
        · rw [(hN m e).2.1]; exact hinv.clockw win hwin
      · intro x hx
        exact hinv.clockw x (hwsub x hx)
      · intro m hm
        rcases (hmem m).mp hm with e | e
        · exact hinv.msgok m e
        · obtain ⟨n1, n2, n3, n4⟩ := hN m e
          exact ⟨by rw [n2]; exact wborn _ n1, n3, n4⟩
      · intro m hm hno x hx
        rcases (hmem m).mp hm with e | e
        · exact hinv.dead m e hno x (hwsub x hx)
        · exact absurd (hNl m e) hno
      · intro r hr o ho hno x hx
        exact hinv.deadr r hr o ho hno x (hwsub x hx)
      · -- order
        intro m hm o ho hov
        rcases (hmem m).mp hm with e | e
        · rcases hinv.order m e o ho hov with e' | ⟨e1, e2⟩
          · exact Or.inl e'
          · refine Or.inr ⟨?_, fun x hx hxo => e2 x (hwsub x hx) hxo⟩
            intro m' hm' hm'o
            rcases (hmem m').mp hm' with f | f
            · exact e1 m' f hm'o
            · obtain ⟨n1, n2, _, _⟩ := hN m' f
              rw [n2]
              rw [hm'o] at n1
              exact e2 win hwin n1
        · exact Or.inl (phys_overlap hinv.phys (hNl m e) ho hov)
      · -- key
        intro r hr o ho m hm mo hmo hco hcm hmo' hle hlt
        rcases (hmem m).mp hm with e | e
        · rcases (hmem mo).mp hmo with f | f
          · exact hinv.key r hr o ho m e mo f hco hcm hmo' hle hlt
          · -- the message for `o` is new: `o` is loaded, in the part of the closing window
            obtain ⟨n1, n2, _, _⟩ := hN mo f
            rw [hmo'] at n1
            have hol : o ∈ st.loaded := List.mem_of_mem_drop n1
            rcases hinv.order m e o hol (covers_overlap hcm hco) with e' | ⟨_, e2⟩
            · exact e'
            · have := e2 win hwin n1
              omega
        · -- `m` is new
          obtain ⟨n1, n2, _, _⟩ := hN m e
          by_cases hol : o ∈ st.loaded
          · exact phys_overlap hinv.phys (hNl m e) hol (covers_overlap hcm hco)
          · have := hinv.deadr r hr o ho hol win hwin
            omega

theorem inv_run (im : List MMap) (cfg : Cfg) (hf : cfg.fixed = true) (hs : cfg.stampAtSend = false)
    (st : St) (evs : List Ev) (hinv : Inv im st) (hv : Valid cfg st evs) :
    Inv im (run cfg st evs) := by
  induction evs generalizing st with
  | nil => exact hinv
  | cons e r ih => exact ih _ (inv_step im cfg hf hs st e hinv hv.1) hv.2

/-- a state right after libmcount's start-up: the maps are the session maps, every loaded
    object is covered by them (or is the main program / the vdso) -/
structure Init (st : St) : Prop where
  maps : ∀ m ∈ st.maps, m.handle = none
  wins : st.wins = []
  recs : st.recs = []
  msgs : st.msgs = []
  objs : ∀ o ∈ st.loaded, ¬ Dyn st.maps o
  born : ∀ o ∈ st.loaded, o.born ≤ st.now
  phys : ∀ o ∈ st.loaded, ∀ o' ∈ st.loaded, o.start ≤ o'.start → o'.start < o.stop → o = o'
  shape : ∀ o ∈ st.loaded, Shape o
  ids : ∀ o ∈ st.loaded, o.id < st.nloads
  clock : st.lastRead ≤ st.now

theorem inv_init (st : St) (h : Init st) : Inv st.maps st where
  initc := fun _ => rfl
  bornle := h.born
  win := by intro w hw; rw [h.wins] at hw; simp at hw
  obj := fun o ho hd => absurd hd (h.objs o ho)
  live := fun m hm hh _ => absurd (h.maps m hm) hh
  phys := h.phys
  shape := h.shape
  shapem := by intro m hm; rw [h.msgs] at hm; simp at hm
  recs := by intro r hr; rw [h.recs] at hr; simp at hr
  uniq := by rw [h.wins]; exact List.Pairwise.nil
  idl := h.ids
  idm := by intro m hm; rw [h.msgs] at hm; simp at hm
  idr := by intro r hr; rw [h.recs] at hr; simp at hr
  clock := h.clock
  clockr := by intro r hr; rw [h.recs] at hr; simp at hr
  clockm := by intro m hm; rw [h.msgs] at hm; simp at hm
  clockw := by intro w hw; rw [h.wins] at hw; simp at hw
  msgok := by intro m hm; rw [h.msgs] at hm; simp at hm
  dead := by intro m hm; rw [h.msgs] at hm; simp at hm
  deadr := by intro r hr; rw [h.recs] at hr; simp at hr
  order := by intro m hm; rw [h.msgs] at hm; simp at hm
  key := by intro r hr; rw [h.recs] at hr; simp at hr

/-! ### what the analysis side makes of the messages -/

open Uft.Session in
theorem mem_dlList_aux (msgs : List Msg) (init : List DlLib) (l : DlLib) :
    l ∈ msgs.foldl (fun acc m => addDlopen acc (libOf m)) init ↔
      l ∈ init ∨ ∃ m ∈ msgs, l = libOf m := by
  induction msgs generalizing init with
  | nil => simp
  | cons m r ih =>
    simp only [List.foldl_cons, ih, mem_addDlopen, List.mem_cons]
    constructor
    · rintro ((h | h) | ⟨m', hm', e⟩)
      · exact Or.inr ⟨m, Or.inl rfl, h⟩
      · exact Or.inl h
      · exact Or.inr ⟨m', Or.inr hm', e⟩
    · rintro (h | ⟨m', hm' | hm', e⟩)
      · exact Or.inl (Or.inr h)
      · subst hm'; exact Or.inl (Or.inl e)
      · exact Or.inr ⟨m', hm', e⟩

theorem mem_dlList (msgs : List Msg) (l : Uft.Session.DlLib) :
    l ∈ dlList msgs ↔ ∃ m ∈ msgs, l = libOf m := by
  unfold dlList
  rw [mem_dlList_aux]
  simp

open Uft.Session in
theorem dlList_sorted_aux (msgs : List Msg) (init : List DlLib)
    (h : init.Pairwise (fun a b => a.time ≤ b.time)) :
    (msgs.foldl (fun acc m => addDlopen acc (libOf m)) init).Pairwise (fun a b => a.time ≤ b.time) := by
  induction msgs generalizing init with
  | nil => exact h
  | cons m r ih => exact ih _ (addDlopen_sorted init (libOf m) h)

theorem dlList_sorted (msgs : List Msg) :
    (dlList msgs).Pairwise (fun a b => a.time ≤ b.time) :=
  dlList_sorted_aux msgs [] List.Pairwise.nil

theorem sub64_of_le (a b : Nat) (hb : b ≤ a) (ha : a < U64) : Uft.Session.sub64 a b = a - b := by
  have hU : U64 = 18446744073709551616 := rfl
  unfold Uft.Session.sub64
  rw [Nat.mod_eq_of_lt (by omega : b < U64)]
  have : a + U64 - b = (a - b) + U64 := by omega
  rw [this, Nat.add_mod_right, Nat.mod_eq_of_lt (by omega)]

/-- a symbol that the table of a message yields for `addr - base` (64-bit) lies in the text of the
    message's object -/
theorem libOf_find_covers (m : Msg) (a : Nat) (hsh : Shape m.obj) (hb : m.bias = m.obj.bias)
    (ha : a < U64) (s : Sym)
    (hs : findSym (libOf m).syms (Uft.Session.sub64 a (libOf m).base) = some s) :
    covers m.obj a := by
  obtain ⟨h1, h2, h3, h4⟩ := hsh
  have hU : U64 = 18446744073709551616 := rfl
  obtain ⟨hbs, _⟩ := dropSymEnd_some hs
  obtain ⟨hm, hc⟩ := bsearch_some _ _ _ hbs
  have hc' := (addrfind_zero_iff _ s).mp hc
  simp only [libOf] at hm hc'
  obtain ⟨i1, i2⟩ := h4 s hm
  have hstop : s.stop = s.addr + s.size := by
    unfold Sym.stop; exact Nat.mod_eq_of_lt (by omega)
  unfold Sym.contains at hc'
  rw [hstop, hb] at hc'
  unfold covers
  by_cases hab : m.obj.bias ≤ a
  · rw [sub64_of_le a _ hab ha] at hc'
    omega
  · exfalso
    unfold Uft.Session.sub64 at hc'
    rw [Nat.mod_eq_of_lt (by omega : m.obj.bias < U64),
      Nat.mod_eq_of_lt (by omega : a + U64 - m.obj.bias < U64)] at hc'
    omega

/-! ### the hypotheses are decidable (used by the non-vacuity examples) -/

instance (im : List MMap) (o : Obj) : Decidable (Dyn im o) := by unfold Dyn; infer_instance
instance (o : Obj) (a : Nat) : Decidable (covers o a) := by unfold covers; infer_instance
instance (o : Obj) : Decidable (Shape o) := by unfold Shape; infer_instance
instance (st : St) (ev : Ev) : Decidable (EvOk st ev) := by
  cases ev <;> unfold EvOk <;> infer_instance

def validDec (cfg : Cfg) : (st : St) → (evs : List Ev) → Decidable (Valid cfg st evs)
  | _, [] => isTrue trivial
  | st, ev :: r =>
    match (inferInstance : Decidable (EvOk st ev)), validDec cfg (step cfg st ev) r with
    | isTrue h1, isTrue h2 => isTrue ⟨h1, h2⟩
    | isFalse h1, _ => isFalse (fun h => h1 h.1)
    | _, isFalse h2 => isFalse (fun h => h2 h.2)

instance (cfg : Cfg) (st : St) (evs : List Ev) : Decidable (Valid cfg st evs) := validDec cfg st evs

end Uft.DlRecord
