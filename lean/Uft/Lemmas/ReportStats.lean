/- C08 helper lemmas: node statistics as folds, commutation of node updates,
   independence of the task interleaving. -/
import Uft.Lemmas.Report
namespace Uft.Report

/-! ### one node: closed forms of a sequence of updates -/

def Node.upds (n : Node) (us : List Upd) : Node := us.foldl Node.upd n

/-- the updates that go to node `f` -/
def forKey (f : Nat) (us : List Upd) : List Upd := us.filter (fun u => u.key == f)

theorem Nodes.upds_append (ns : Nodes) (a b : List Upd) : ns.upds (a ++ b) = (ns.upds a).upds b := by
  simp [Nodes.upds, List.foldl_append]

theorem Nodes.upds_apply (ns : Nodes) (us : List Upd) (f : Nat) :
    ns.upds us f = (ns f).upds (forKey f us) := by
  induction us generalizing ns with
  | nil => rfl
  | cons u us ih =>
    have h : Nodes.upds ns (u :: us) = Nodes.upds (ns.upd u) us := rfl
    rw [h, ih]
    by_cases hk : u.key = f
    · have : (u.key == f) = true := by simp [hk]
      simp only [forKey, List.filter_cons, this, if_true]
      simp [Node.upds, Nodes.upd, hk]
    · have : (u.key == f) = false := by simp [hk]
      have hk' : ¬ f = u.key := fun e => hk e.symm
      simp only [forKey, List.filter_cons, this]
      simp [Nodes.upd, hk']

theorem Node.upds_cons (n : Node) (u : Upd) (us : List Upd) : n.upds (u :: us) = (n.upd u).upds us := rfl

theorem Node.upds_call (n : Node) (us : List Upd) : (n.upds us).call = n.call + us.length := by
  induction us generalizing n with
  | nil => rfl
  | cons u us ih => rw [Node.upds_cons, ih]; simp [Node.upd]; omega

theorem Node.upds_total_sum (n : Node) (us : List Upd) :
    (n.upds us).total.sum = n.total.sum + ((us.filter (fun u => !u.recursive)).map (·.total)).sum := by
  induction us generalizing n with
  | nil => rfl
  | cons u us ih =>
    rw [Node.upds_cons, ih]
    cases hr : u.recursive <;> simp [Node.upd, Stat.upd, hr]; omega

theorem Node.upds_total_recs (n : Node) (us : List Upd) :
    (n.upds us).total.recs = n.total.recs + ((us.filter (fun u => u.recursive)).map (·.total)).sum := by
  induction us generalizing n with
  | nil => rfl
  | cons u us ih =>
    rw [Node.upds_cons, ih]
    cases hr : u.recursive <;> simp [Node.upd, Stat.upd, hr]; omega

theorem Node.upds_self_sum (n : Node) (us : List Upd) :
    (n.upds us).self.sum = n.self.sum + (us.map (·.self)).sum := by
  induction us generalizing n with
  | nil => rfl
  | cons u us ih => rw [Node.upds_cons, ih]; simp [Node.upd, Stat.upd]; omega

theorem Node.upds_self_recs (n : Node) (us : List Upd) : (n.upds us).self.recs = n.self.recs := by
  induction us generalizing n with
  | nil => rfl
  | cons u us ih => rw [Node.upds_cons, ih]; simp [Node.upd, Stat.upd]

theorem min_upd (a t : Nat) : (if a > t then t else a) = min a t := by
  simp only [Nat.min_def]; split <;> split <;> omega

theorem max_upd (a t : Nat) : (if a < t then t else a) = max a t := by
  simp only [Nat.max_def]; split <;> split <;> omega

theorem Node.upds_total_min (n : Node) (us : List Upd) :
    (n.upds us).total.min = (us.map (·.total)).foldl min n.total.min := by
  induction us generalizing n with
  | nil => rfl
  | cons u us ih => rw [Node.upds_cons, ih]; simp [Node.upd, Stat.upd, min_upd]

theorem Node.upds_total_max (n : Node) (us : List Upd) :
    (n.upds us).total.max = (us.map (·.total)).foldl max n.total.max := by
  induction us generalizing n with
  | nil => rfl
  | cons u us ih => rw [Node.upds_cons, ih]; simp [Node.upd, Stat.upd, max_upd]

theorem Node.upds_self_min (n : Node) (us : List Upd) :
    (n.upds us).self.min = (us.map (·.self)).foldl min n.self.min := by
  induction us generalizing n with
  | nil => rfl
  | cons u us ih => rw [Node.upds_cons, ih]; simp [Node.upd, Stat.upd, min_upd]

theorem Node.upds_self_max (n : Node) (us : List Upd) :
    (n.upds us).self.max = (us.map (·.self)).foldl max n.self.max := by
  induction us generalizing n with
  | nil => rfl
  | cons u us ih => rw [Node.upds_cons, ih]; simp [Node.upd, Stat.upd, max_upd]

/-- `foldl min`: a lower bound of everything folded, and one of the values (or the start) -/
theorem foldl_min_le (l : List Nat) (a : Nat) : l.foldl min a ≤ a ∧ ∀ x ∈ l, l.foldl min a ≤ x := by
  induction l generalizing a with
  | nil => simp
  | cons y l ih =>
    obtain ⟨h1, h2⟩ := ih (min a y)
    refine ⟨by simp only [List.foldl_cons]; omega, ?_⟩
    intro x hx
    simp only [List.foldl_cons]
    rcases List.mem_cons.mp hx with h | h
    · subst h; omega
    · exact h2 x h

theorem foldl_min_mem (l : List Nat) (a : Nat) : l.foldl min a = a ∨ l.foldl min a ∈ l := by
  induction l generalizing a with
  | nil => simp
  | cons y l ih =>
    simp only [List.foldl_cons]
    rcases ih (min a y) with h | h
    · rw [h]
      by_cases hle : a ≤ y
      · left; omega
      · right; simp; omega
    · right; exact List.mem_cons_of_mem _ h

theorem foldl_max_ge (l : List Nat) (a : Nat) : a ≤ l.foldl max a ∧ ∀ x ∈ l, x ≤ l.foldl max a := by
  induction l generalizing a with
  | nil => simp
  | cons y l ih =>
    obtain ⟨h1, h2⟩ := ih (max a y)
    refine ⟨by simp only [List.foldl_cons]; omega, ?_⟩
    intro x hx
    simp only [List.foldl_cons]
    rcases List.mem_cons.mp hx with h | h
    · subst h; omega
    · exact h2 x h

theorem foldl_max_mem (l : List Nat) (a : Nat) : l.foldl max a = a ∨ l.foldl max a ∈ l := by
  induction l generalizing a with
  | nil => simp
  | cons y l ih =>
    simp only [List.foldl_cons]
    rcases ih (max a y) with h | h
    · rw [h]
      by_cases hle : y ≤ a
      · left; omega
      · right; simp; omega
    · right; exact List.mem_cons_of_mem _ h

/-! ### node updates commute -/

theorem Stat.upd_comm (s : Stat) (t1 t2 : Nat) (r1 r2 : Bool) :
    (s.upd t1 r1).upd t2 r2 = (s.upd t2 r2).upd t1 r1 := by
  simp only [Stat.upd, min_upd, max_upd]
  cases r1 <;> cases r2 <;> simp <;> omega

theorem Node.upd_comm (n : Node) (a b : Upd) : (n.upd a).upd b = (n.upd b).upd a := by
  simp only [Node.upd, Stat.upd_comm]

theorem Nodes.upd_comm (ns : Nodes) (a b : Upd) : (ns.upd a).upd b = (ns.upd b).upd a := by
  funext k
  simp only [Nodes.upd]
  by_cases h1 : k = a.key <;> by_cases h2 : k = b.key
  · simp only [if_pos h1, if_pos h2]; exact Node.upd_comm _ _ _
  · simp only [if_pos h1, if_neg h2]
  · simp only [if_neg h1, if_pos h2]
  · simp only [if_neg h1, if_neg h2]

theorem Nodes.upds_perm (ns : Nodes) {us vs : List Upd} (h : us.Perm vs) : ns.upds us = ns.upds vs :=
  List.Perm.foldl_eq' h (fun x _ y _ z => Nodes.upd_comm z x y) ns

/-! ### the interleaving of the tasks does not matter -/

/-- the records of task `i` in a merged stream -/
def proj (i : Nat) (evs : List (Nat × Rec)) : List Rec := (evs.filter (fun e => e.1 == i)).map (·.2)

theorem run_cons (s : St) (e : Nat × Rec) (evs : List (Nat × Rec)) :
    run false s (e :: evs) = run false (step false s e) evs := rfl

theorem proj_cons_eq (e : Nat × Rec) (evs : List (Nat × Rec)) : proj e.1 (e :: evs) = e.2 :: proj e.1 evs := by
  simp [proj]

theorem proj_cons_ne (i : Nat) (e : Nat × Rec) (evs : List (Nat × Rec)) (h : ¬ i = e.1) :
    proj i (e :: evs) = proj i evs := by
  have : (e.1 == i) = false := by simp; exact fun x => h x.symm
  simp [proj, List.filter_cons, this]

theorem run_tasks (evs : List (Nat × Rec)) : ∀ (s : St) (i : Nat),
    (run false s evs).tasks i = (runT (s.tasks i) (proj i evs)).1 := by
  induction evs with
  | nil => intro s i; rfl
  | cons e evs ih =>
    intro s i
    rw [run_cons, ih]
    by_cases h : i = e.1
    · subst h; rw [proj_cons_eq]; simp [step, runT]
    · rw [proj_cons_ne i e evs h]; simp [step, h]

theorem flatMap_eq_of_forall {α β : Type} (l : List α) (f g : α → List β) (h : ∀ x ∈ l, f x = g x) :
    l.flatMap f = l.flatMap g := by
  induction l with
  | nil => rfl
  | cons a l ih =>
    simp only [List.flatMap_cons]
    rw [h a (List.mem_cons_self), ih (fun x hx => h x (List.mem_cons_of_mem _ hx))]

theorem flatMap_insert (l : List Nat) (i0 : Nat) (u : List Upd) (B : Nat → List Upd)
    (hm : i0 ∈ l) (hn : l.Nodup) :
    (l.flatMap (fun i => if i = i0 then u ++ B i else B i)).Perm (u ++ l.flatMap B) := by
  induction l with
  | nil => cases hm
  | cons a l ih =>
    obtain ⟨hal, hl⟩ := List.nodup_cons.mp hn
    simp only [List.flatMap_cons]
    by_cases ha : a = i0
    · subst ha
      have : l.flatMap (fun i => if i = a then u ++ B i else B i) = l.flatMap B := by
        apply flatMap_eq_of_forall
        intro x hx
        have : ¬ x = a := fun e => hal (e ▸ hx)
        simp [this]
      simp only [if_true, this, List.append_assoc]
      exact List.Perm.refl _
    · have hm' : i0 ∈ l := by
        rcases List.mem_cons.mp hm with h | h
        · exact absurd h.symm ha
        · exact h
      simp only [if_neg ha]
      refine (List.Perm.append_left (B a) (ih hm' hl)).trans ?_
      rw [← List.append_assoc, ← List.append_assoc]
      exact List.Perm.append_right _ List.perm_append_comm

/-- the updates of a whole run, task by task -/
def blocks (n : Nat) (tasks : Nat → Task) (evs : List (Nat × Rec)) : List Upd :=
  (List.range n).flatMap (fun i => (runT (tasks i) (proj i evs)).2)

theorem run_nodes (n : Nat) (evs : List (Nat × Rec)) : ∀ (s : St), (∀ e ∈ evs, e.1 < n) →
    ∃ us, (run false s evs).nodes = s.nodes.upds us ∧ us.Perm (blocks n s.tasks evs) := by
  induction evs with
  | nil =>
    intro s _
    refine ⟨[], rfl, ?_⟩
    have : blocks n s.tasks [] = [] := by
      unfold blocks
      induction (List.range n) with
      | nil => rfl
      | cons a l ih => simp [List.flatMap_cons, proj, runT, ih]
    rw [this]
  | cons e evs ih =>
    intro s hlt
    obtain ⟨us', h1, h2⟩ := ih (step false s e) (fun x hx => hlt x (List.mem_cons_of_mem _ hx))
    refine ⟨(stepF (s.tasks e.1) e.2).2 ++ us', ?_, ?_⟩
    · rw [run_cons, h1, Nodes.upds_append]; rfl
    · have he : e.1 < n := hlt e List.mem_cons_self
      have hb : blocks n s.tasks (e :: evs) =
          (List.range n).flatMap (fun i => if i = e.1 then (stepF (s.tasks e.1) e.2).2 ++
            (runT ((step false s e).tasks i) (proj i evs)).2 else (runT ((step false s e).tasks i) (proj i evs)).2) := by
        unfold blocks
        apply flatMap_eq_of_forall
        intro i _
        by_cases h : i = e.1
        · subst h; rw [proj_cons_eq]; simp [step, runT]
        · rw [proj_cons_ne i e evs h]; simp [step, h]
      rw [hb]
      refine List.Perm.trans ?_ (flatMap_insert _ e.1 _ _ (List.mem_range.mpr he) List.nodup_range).symm
      exact List.Perm.append_left _ h2

end Uft.Report
