import Uft.Lemmas.Events
/- C17: the stream of a history with watchpoints (the lazily written ENTRY records and the pending
   watch events come out in the order in which the hooks ran) -/
set_option linter.unusedSimpArgs false
set_option linter.unusedVariables false
namespace Uft.Events
open Uft.Mcount

/-! ### pending events that a record leaves alone -/

theorem takeAsync_append_ge (a b : List Ev) (ts : Nat) (hb : ∀ e ∈ b, ¬ e.time < ts) :
    takeAsync (a ++ b) ts = ((takeAsync a ts).1, (takeAsync a ts).2 ++ b) := by
  induction a with
  | nil =>
    cases b with
    | nil => rfl
    | cons x r => simp [takeAsync, hb x (by simp)]
  | cons x r ih =>
    simp only [List.cons_append, takeAsync]
    split
    · simp [ih]
    · simp

theorem takeAsync_all_stop (a b : List Ev) (ts : Nat) (ha : ∀ e ∈ a, e.time < ts) (hb : ∀ e ∈ b, ¬ e.time < ts) :
    takeAsync (a ++ b) ts = (a, b) := by
  rw [takeAsync_append_ge a b ts hb, takeAsync_all a ts ha]
  simp

theorem flushBelowE_append (fs : List EFrame) : ∀ (p E : List Ev),
    (∀ e ∈ E, ∀ g ∈ fs, ¬ e.time < g.b.start) →
    flushBelowE fs (p ++ E) = ((flushBelowE fs p).1, (flushBelowE fs p).2.1 ++ E, (flushBelowE fs p).2.2) := by
  induction fs with
  | nil => intro p E _; rfl
  | cons f r ih =>
    intro p E h
    have hr : ∀ e ∈ E, ∀ g ∈ r, ¬ e.time < g.b.start := fun e he g hg => h e he g (by simp [hg])
    have hf : ∀ e ∈ E, ¬ e.time < f.b.start := fun e he => h e he f (by simp)
    simp only [flushBelowE]
    split
    · rfl
    · rw [ih p E hr]
      split
      · rfl
      · simp only [recEntry, takeAsync_append_ge _ E f.b.start hf]

/-- what is owed for the open frames and the pending events: the ENTRY records of the unwritten
    frames, each preceded by the pending events older than it, then the events still pending -/
def owed (fs : List EFrame) (p : List Ev) : List Out :=
  (flushBelowE fs p).2.2 ++ (flushBelowE fs p).2.1.map .event

theorem flushBelowE_marked (fs : List EFrame) (p : List Ev) :
    flushBelowE (markToE fs) p = (markToE fs, p, []) := by
  cases fs with
  | nil => rfl
  | cons f r =>
    simp only [markToE]
    split
    · rename_i h; simp [flushBelowE, h]
    · simp [flushBelowE]

theorem owed_marked (fs : List EFrame) : owed (markToE fs) [] = [] := by
  simp [owed, flushBelowE_marked]

theorem flushBelowE_frames (fs : List EFrame) (hns : NoSkipE fs) : ∀ p, (flushBelowE fs p).1 = markToE fs := by
  induction fs with
  | nil => intro p; rfl
  | cons f r ih =>
    intro p
    have hf := hns f (by simp)
    have hr : NoSkipE r := fun g hg => hns g (by simp [hg])
    simp only [flushBelowE, markToE]
    split
    · rfl
    · simp [Frame.skip, hf.1, hf.2, ih hr]


/-! ### save_watchpoint does not look at the pending events as long as there is room -/

/-- number of watch sources: each hook saves at most this many events -/
def nsrc (cfg : ECfg) : Nat := (if cfg.watchCpu then 1 else 0) + cfg.varSizes.length

structure SameWatch (s w : ESt) : Prop where
  winited : s.winited = w.winited
  wcpu : s.wcpu = w.wcpu
  wcopy : s.wcopy = w.wcopy
  glob : s.glob = w.glob

theorem SameWatch.refl (s : ESt) : SameWatch s s := ⟨rfl, rfl, rfl, rfl⟩
theorem SameWatch.symm {s w : ESt} (h : SameWatch s w) : SameWatch w s := ⟨h.1.symm, h.2.symm, h.3.symm, h.4.symm⟩
theorem SameWatch.trans {a b c : ESt} (h1 : SameWatch a b) (h2 : SameWatch b c) : SameWatch a c :=
  ⟨h1.1.trans h2.1, h1.2.trans h2.2, h1.3.trans h2.3, h1.4.trans h2.4⟩

theorem saveWatchVar_room (cfg : ECfg) (t ridx : Nat) (s w : ESt) (k size v : Nat)
    (hsw : SameWatch s w) (hs : s.pend.length < MAX_EVENT) (hw : w.pend.length < MAX_EVENT) :
    ∃ W, (saveWatchVar cfg t ridx s k size v).pend = s.pend ++ W ∧
      (saveWatchVar cfg t ridx w k size v).pend = w.pend ++ W ∧ W.length ≤ 1 ∧
      SameWatch (saveWatchVar cfg t ridx s k size v) (saveWatchVar cfg t ridx w k size v) := by
  have h1 : ¬ (s.pend.length ≥ MAX_EVENT) := by omega
  have h1' : ¬ (w.pend.length ≥ MAX_EVENT) := by omega
  unfold saveWatchVar
  simp only [h1, h1', ↓reduceIte, ← hsw.wcopy, ← hsw.glob]
  by_cases h2 : (s.wcopy[k]? == some v) = true
  · simp only [h2, ↓reduceIte]
    exact ⟨[], by simp, by simp, by simp, hsw⟩
  · by_cases h3 : (s.glob[k]? == some (some v)) = true
    · by_cases hfv : cfg.fixVar = true
      · simp only [h2, h3, hfv, ↓reduceIte, Bool.false_eq_true]
        exact ⟨[], by simp, by simp, by simp, ⟨hsw.1, hsw.2, by first | rfl | exact hsw.3, by first | rfl | exact hsw.4⟩⟩
      · simp only [h2, h3, hfv, ↓reduceIte, Bool.false_eq_true]
        exact ⟨[], by simp, by simp, by simp, ⟨hsw.1, hsw.2, by first | rfl | exact hsw.3, by first | rfl | exact hsw.4⟩⟩
    · by_cases hfv : cfg.fixVar = true
      · simp only [h2, h3, hfv, ↓reduceIte, Bool.false_eq_true]
        exact ⟨[varEv t ridx k size v], rfl, rfl, by simp,
          ⟨hsw.1, hsw.2, by first | rfl | exact hsw.3, by first | rfl | exact hsw.4⟩⟩
      · simp only [h2, h3, hfv, ↓reduceIte, Bool.false_eq_true]
        exact ⟨[varEv t ridx k size v], rfl, rfl, by simp,
          ⟨hsw.1, hsw.2, by first | rfl | exact hsw.3, by first | rfl | exact hsw.4⟩⟩

theorem saveWatchVars_room (cfg : ECfg) (t ridx : Nat) : ∀ (szs vs : List Nat) (s w : ESt) (k : Nat),
    SameWatch s w → s.pend.length + szs.length ≤ MAX_EVENT → w.pend.length + szs.length ≤ MAX_EVENT →
    ∃ W, (saveWatchVars cfg t ridx s k szs vs).pend = s.pend ++ W ∧
      (saveWatchVars cfg t ridx w k szs vs).pend = w.pend ++ W ∧
      SameWatch (saveWatchVars cfg t ridx s k szs vs) (saveWatchVars cfg t ridx w k szs vs)
  | [], vs, s, w, k, h, _, _ => by
    simp only [saveWatchVars]; exact ⟨[], by simp, by simp, h⟩
  | size :: szs, [], s, w, k, h, _, _ => by
    simp only [saveWatchVars]; exact ⟨[], by simp, by simp, h⟩
  | size :: szs, v :: vs, s, w, k, h, hs, hw => by
    simp only [saveWatchVars]
    simp only [List.length_cons] at hs hw
    obtain ⟨W1, a1, b1, c1, d1⟩ := saveWatchVar_room cfg t ridx s w k size v h (by omega) (by omega)
    obtain ⟨W2, a2, b2, d2⟩ := saveWatchVars_room cfg t ridx szs vs (saveWatchVar cfg t ridx s k size v)
      (saveWatchVar cfg t ridx w k size v) (k + 1) d1 (by rw [a1]; simp; omega) (by rw [b1]; simp; omega)
    exact ⟨W1 ++ W2, by rw [a2, a1]; simp, by rw [b2, b1]; simp, d2⟩

theorem watchStep_room (cfg : ECfg) (s w : ESt) (b : Frame) (ri : Nat) (o : Obs)
    (hsw : SameWatch s w) (hs : s.pend.length + nsrc cfg ≤ MAX_EVENT) (hw : w.pend.length + nsrc cfg ≤ MAX_EVENT) :
    ∃ W, (watchStep cfg s b ri o).pend = s.pend ++ W ∧ (watchStep cfg w b ri o).pend = w.pend ++ W ∧
      SameWatch (watchStep cfg s b ri o) (watchStep cfg w b ri o) := by
  unfold watchStep
  by_cases hwt : cfg.watch = true
  · simp only [hwt, ↓reduceIte]
    unfold saveWatch
    simp only [← hsw.winited]
    have h0 : SameWatch { s with winited := true } { w with winited := true } := ⟨rfl, hsw.2, hsw.3, hsw.4⟩
    by_cases hc : cfg.watchCpu = true
    · have hn : nsrc cfg = 1 + cfg.varSizes.length := by simp [nsrc, hc]
      simp only [hc, ↓reduceIte]
      -- the cpu part
      have hcpu : ∃ W1, (saveWatchCpu { s with winited := true } (hookTime b + (if (!s.winited) = true then 2 else 0) - 1)
            (if cfg.fixIdx = true then ri + 1 else ri) o.cpu (!s.winited)).pend = s.pend ++ W1 ∧
          (saveWatchCpu { w with winited := true } (hookTime b + (if (!s.winited) = true then 2 else 0) - 1)
            (if cfg.fixIdx = true then ri + 1 else ri) o.cpu (!s.winited)).pend = w.pend ++ W1 ∧ W1.length ≤ 1 ∧
          SameWatch (saveWatchCpu { s with winited := true } (hookTime b + (if (!s.winited) = true then 2 else 0) - 1)
            (if cfg.fixIdx = true then ri + 1 else ri) o.cpu (!s.winited))
            (saveWatchCpu { w with winited := true } (hookTime b + (if (!s.winited) = true then 2 else 0) - 1)
            (if cfg.fixIdx = true then ri + 1 else ri) o.cpu (!s.winited)) := by
        unfold saveWatchCpu
        have r1 : decide (s.pend.length < MAX_EVENT) = true := by simp; omega
        have r2 : decide (w.pend.length < MAX_EVENT) = true := by simp; omega
        simp only [r1, r2, Bool.and_true, ← hsw.wcpu]
        by_cases he : (s.wcpu != some o.cpu || !s.winited) = true
        · simp only [he, ↓reduceIte]
          exact ⟨[_], rfl, rfl, by simp, ⟨rfl, rfl, hsw.3, hsw.4⟩⟩
        · simp only [he, ↓reduceIte]
          exact ⟨[], by simp, by simp, by simp, ⟨rfl, rfl, hsw.3, hsw.4⟩⟩
      obtain ⟨W1, a1, b1, c1, d1⟩ := hcpu
      obtain ⟨W2, a2, b2, d2⟩ := saveWatchVars_room cfg (hookTime b + (if (!s.winited) = true then 2 else 0) - 1)
        (if cfg.fixIdx = true then ri + 1 else ri) cfg.varSizes o.vars _ _ 0 d1
        (by rw [a1]; simp; omega) (by rw [b1]; simp; omega)
      exact ⟨W1 ++ W2, by rw [a2, a1]; simp, by rw [b2, b1]; simp, d2⟩
    · have hn : nsrc cfg = cfg.varSizes.length := by simp [nsrc, hc]
      simp only [hc, Bool.false_eq_true, ↓reduceIte]
      obtain ⟨W2, a2, b2, d2⟩ := saveWatchVars_room cfg (hookTime b + (if (!s.winited) = true then 2 else 0) - 1)
        (if cfg.fixIdx = true then ri + 1 else ri) cfg.varSizes o.vars { s with winited := true }
        { w with winited := true } 0 h0 (by simp; omega) (by simp; omega)
      exact ⟨W2, a2, b2, d2⟩
  · simp only [hwt, Bool.false_eq_true, ↓reduceIte]
    exact ⟨[], by simp, by simp, hsw⟩


/-! ### what is owed, step by step -/

theorem takeAsync_left_mem (p : List Ev) (ts : Nat) : ∀ e ∈ (takeAsync p ts).2, e ∈ p := by
  intro e he
  have h := takeAsync_append p ts
  rw [← h]
  simp [he]

theorem flushBelowE_left_mem (fs : List EFrame) : ∀ (p : List Ev), ∀ e ∈ (flushBelowE fs p).2.1, e ∈ p := by
  induction fs with
  | nil => intro p e he; simpa [flushBelowE] using he
  | cons f r ih =>
    intro p e he
    simp only [flushBelowE] at he
    split at he
    · exact he
    · split at he
      · exact ih p e he
      · simp only [recEntry] at he
        exact ih p e (takeAsync_left_mem _ _ e he)

/-- the result of the walk does not depend on more of the top frame than this -/
theorem flushBelowE_top_congr (X F : EFrame) (rest : List EFrame) (p : List Ev)
    (hw : X.b.written = F.b.written) (hs : X.b.skip = F.b.skip) (hst : X.b.start = F.b.start)
    (ho : entryOut X = entryOut F) (he : entryEvs X = entryEvs F) :
    (flushBelowE (X :: rest) p).2 = (flushBelowE (F :: rest) p).2 := by
  simp only [flushBelowE, hw, hs, recEntry, hst, ho, he]
  split
  · rfl
  · split <;> rfl

theorem owed_top_congr (X F : EFrame) (rest : List EFrame) (p : List Ev)
    (hw : X.b.written = F.b.written) (hs : X.b.skip = F.b.skip) (hst : X.b.start = F.b.start)
    (ho : entryOut X = entryOut F) (he : entryEvs X = entryEvs F) :
    owed (X :: rest) p = owed (F :: rest) p := by
  unfold owed
  rw [flushBelowE_top_congr X F rest p hw hs hst ho he]

/-- the entry hook: a new unwritten frame `F` and its watch events `WE` -/
theorem owed_entry (fs : List EFrame) (p WE : List Ev) (F : EFrame) (t0 : Nat) (inited : Bool)
    (hFw : F.b.written = false) (hFs : F.b.skip = false) (hst : F.b.start = t0)
    (hp : ∀ e ∈ p, e.time < t0)
    (hWE : ∀ e ∈ WE, e.time = (if inited then t0 - 1 else t0 + 1))
    (hlow : ∀ g ∈ fs, g.b.start + 1 < t0) (ht0 : 0 < t0) :
    owed (F :: fs) (p ++ WE) = owed fs p ++
      (if inited then WE.map .event ++ ([entryOut F] ++ (entryEvs F).map .event)
       else [entryOut F] ++ (entryEvs F).map .event ++ WE.map .event) := by
  have hcond : ∀ e ∈ WE, ∀ g ∈ fs, ¬ e.time < g.b.start := by
    intro e he g hg
    have h1 := hWE e he
    have h2 := hlow g hg
    cases inited
    · simp only [Bool.false_eq_true, ↓reduceIte] at h1; omega
    · simp only [↓reduceIte] at h1; omega
  have hleft : ∀ e ∈ (flushBelowE fs p).2.1, e.time < t0 := fun e he => hp e (flushBelowE_left_mem fs p e he)
  unfold owed
  simp only [flushBelowE, hFw, hFs, Bool.false_eq_true, ↓reduceIte, recEntry, hst]
  rw [flushBelowE_append fs p WE hcond]
  simp only
  cases inited
  · -- first observation: the events carry t0 + 1 and stay pending
    have hge : ∀ e ∈ WE, ¬ e.time < t0 := by
      intro e he
      have h1 := hWE e he
      simp only [Bool.false_eq_true, ↓reduceIte] at h1
      omega
    rw [takeAsync_all_stop _ WE t0 hleft hge]
    simp
  · have hall : ∀ e ∈ (flushBelowE fs p).2.1 ++ WE, e.time < t0 := by
      intro e he
      simp only [List.mem_append] at he
      rcases he with he | he
      · exact hleft e he
      · have h1 := hWE e he
        simp only [↓reduceIte] at h1
        omega
    rw [takeAsync_all _ t0 hall]
    simp


/-- record_trace_data at the exit hook: everything owed, the exit hook's watch events, its frame
    events, EXIT; nothing stays pending -/
theorem recordTraceE_exit_W (cfg : ECfg) (retv : Bool) (X : EFrame) (rest : List EFrame) (P WX : List Ev) (t1 : Nat)
    (hns : NoSkipE rest) (hnr : X.b.norecord = false) (hdis : X.b.disabled = false)
    (hend : X.b.endT = t1) (ht1 : t1 ≠ 0)
    (hP : ∀ e ∈ P, e.time < t1) (hWX : ∀ e ∈ WX, e.time < t1)
    (hlow : ∀ e ∈ WX, ∀ g ∈ X :: rest, ¬ e.time < g.b.start) :
    (recordTraceE cfg retv (X :: rest) (P ++ WX)).2.2 =
      owed (X :: rest) P ++ WX.map .event ++
        ((exitEvs X).map .event ++ [.record (exitRec X.b) (retPayload cfg retv X)]) ∧
    (recordTraceE cfg retv (X :: rest) (P ++ WX)).2.1 = [] ∧
    (recordTraceE cfg retv (X :: rest) (P ++ WX)).1.tail = (if X.b.written then rest else markToE rest) := by
  have he : (X.b.endT != 0) = true := by simp [hend, ht1]
  have hsk : X.b.skip = false := by simp [Frame.skip, hnr, hdis]
  have hlr : ∀ e ∈ WX, ∀ g ∈ rest, ¬ e.time < g.b.start := fun e he g hg => hlow e he g (by simp [hg])
  have hlx : ∀ e ∈ WX, ¬ e.time < X.b.start := fun e he => hlow e he X (by simp)
  cases hw : X.b.written
  · -- ENTRY still owed
    have hfr := flushBelowE_frames rest hns
    have hleft : ∀ e ∈ (takeAsync (flushBelowE rest P).2.1 X.b.start).2 ++ WX, e.time < t1 := by
      intro e he
      simp only [List.mem_append] at he
      rcases he with he | he
      · exact hP e (flushBelowE_left_mem rest P e (takeAsync_left_mem _ _ e he))
      · exact hWX e he
    simp only [recordTraceE, hw, hsk, Bool.not_false, Bool.and_self, ↓reduceIte, he, Bool.false_eq_true, recEntry,
      recExit, hend, owed, flushBelowE]
    rw [flushBelowE_append rest P WX hlr]
    simp only [takeAsync_append_ge _ WX X.b.start hlx, takeAsync_all _ t1 hleft, hfr]
    simp [ht1]
  · have hall : ∀ e ∈ P ++ WX, e.time < t1 := by
      intro e he
      simp only [List.mem_append] at he
      rcases he with he | he
      · exact hP e he
      · exact hWX e he
    simp only [recordTraceE, hw, ↓reduceIte, Bool.not_true, Bool.false_and, Bool.false_eq_true, he, recExit, hend,
      takeAsync_all _ t1 hall, owed, flushBelowE]
    simp [ht1]


/-! ### the hooks with watchpoints, no filter, no time threshold -/

structure PlainW (cfg : ECfg) : Prop where
  t : PlainT cfg
  thr : cfg.base.threshold = 0

/-- the state between hooks at depth `d`; `tl` = time of the last hook -/
structure GoodW (s : ESt) (d tl : Nat) : Prop where
  b : GoodB s d
  starts : ∀ g ∈ s.frames, g.b.start ≤ tl
  ptime : ∀ e ∈ s.pend, e.time ≤ tl + 1
  pidx : ∀ e ∈ s.pend, e.idx < ASYNC_IDX

/-- the events a hook's save_watchpoint yields in watch state `w` (with room for them) -/
def wEvents (cfg : ECfg) (w : ESt) (b : Frame) (ri : Nat) (o : Obs) : List Ev :=
  (watchStep cfg { w with pend := [] } b ri o).pend
/-- … and the watch state afterwards -/
def wNext (cfg : ECfg) (w : ESt) (b : Frame) (ri : Nat) (o : Obs) : ESt :=
  watchStep cfg { w with pend := [] } b ri o

theorem nsrc_room (cfg : ECfg) (n : Nat) (h : n + nsrc cfg ≤ MAX_EVENT) : ([] : List Ev).length + nsrc cfg ≤ MAX_EVENT := by
  simp; omega

theorem wEvents_time (cfg : ECfg) (w : ESt) (b : Frame) (ri : Nat) (o : Obs) :
    ∀ e ∈ wEvents cfg w b ri o, e.time = watchTime b w.winited ∧ e.idx = watchTag cfg ri := by
  obtain ⟨_, W, hW, hWe⟩ := watchStep_spec cfg { w with pend := [] } b ri o
  intro e he
  unfold wEvents at he
  rw [hW] at he
  simp only [List.nil_append] at he
  exact ⟨(hWe e he).1, (hWe e he).2.1⟩

theorem wEvents_nowatch (cfg : ECfg) (w : ESt) (b : Frame) (ri : Nat) (o : Obs) (h : cfg.watch = false) :
    wEvents cfg w b ri o = [] := by
  simp [wEvents, watchStep, h]

theorem watchStep_winited (cfg : ECfg) (s : ESt) (b : Frame) (ri : Nat) (o : Obs) (h : cfg.watch = true) :
    (watchStep cfg s b ri o).winited = true := by
  unfold watchStep
  simp only [h, ↓reduceIte]
  exact (saveWatch_spec cfg s b ri o).2.1

theorem entryE_W (cfg : ECfg) (hp : PlainW cfg) (k : Kind) (s w : ESt) (d tl f t0 : Nat) (o : Obs)
    (hg : GoodW s d tl) (hsw : SameWatch s w) (hm : d < cfg.base.maxStack) (hd : d < cfg.base.depthOpt)
    (ht : tl + 2 ≤ t0) (hroom : s.pend.length + nsrc cfg ≤ MAX_EVENT) :
    (entryE cfg k s f t0 o).2 = true ∧
    (entryE cfg k s f t0 o).1.out = s.out ∧
    (entryE cfg k s f t0 o).1.frames = entryFrame cfg k f t0 d o :: s.frames ∧
    (entryE cfg k s f t0 o).1.pend = s.pend ++ wEvents cfg w (entryFrame cfg k f t0 d o).b d o ∧
    SameWatch (entryE cfg k s f t0 o).1 (wNext cfg w (entryFrame cfg k f t0 d o).b d o) ∧
    GoodW (entryE cfg k s f t0 o).1 (d + 1) t0 ∧
    (cfg.watch = true → (entryE cfg k s f t0 o).1.winited = true) := by
  have hB := hg.b
  have hmax := hp.t.maxs
  have hlen := hB.len
  subst hlen
  rw [entryE_T_unfold cfg hp.t k s s.frames.length f t0 o hB hm hd]
  have hFb := entryFrame_b cfg k f t0 s.frames.length o
  have hpa : ∀ e ∈ (entryBase s s.frames.length { b := { addr := f, start := t0, depth := s.frames.length, cyg := k == .cyg } }).pend,
      e.idx < ASYNC_IDX := hg.pidx
  have htag : watchTag cfg s.frames.length < ASYNC_IDX := by unfold watchTag; split <;> omega
  rw [entryFinish_eq cfg _ (entryFrame cfg k f t0 s.frames.length o) s.frames o hpa htag]
  obtain ⟨W, a1, a2, a3⟩ := watchStep_room cfg
    (entryBase s s.frames.length { b := { addr := f, start := t0, depth := s.frames.length, cyg := k == .cyg } })
    { w with pend := [] } (entryFrame cfg k f t0 s.frames.length o).b s.frames.length o
    ⟨hsw.1, hsw.2, hsw.3, hsw.4⟩ hroom (nsrc_room cfg _ hroom)
  obtain ⟨hs, _⟩ := watchStep_spec cfg
    (entryBase s s.frames.length { b := { addr := f, start := t0, depth := s.frames.length, cyg := k == .cyg } })
    (entryFrame cfg k f t0 s.frames.length o).b s.frames.length o
  have a1' : (watchStep cfg
      (entryBase s s.frames.length { b := { addr := f, start := t0, depth := s.frames.length, cyg := k == .cyg } })
      (entryFrame cfg k f t0 s.frames.length o).b s.frames.length o).pend = s.pend ++ W := a1
  have hWE : wEvents cfg w (entryFrame cfg k f t0 s.frames.length o).b s.frames.length o = W := by
    unfold wEvents; rw [a2]; rfl
  have hWt := wEvents_time cfg w (entryFrame cfg k f t0 s.frames.length o).b s.frames.length o
  have hwt0 : ∀ b : Bool, watchTime (entryFrame cfg k f t0 s.frames.length o).b b ≤ t0 + 1 := by
    intro b; rw [hFb]; cases b <;> simp [watchTime, hookTime, plainFrame] <;> omega
  have hmem : ∀ e ∈ (watchStep cfg
      (entryBase s s.frames.length { b := { addr := f, start := t0, depth := s.frames.length, cyg := k == .cyg } })
      (entryFrame cfg k f t0 s.frames.length o).b s.frames.length o).pend,
      e ∈ s.pend ∨ e ∈ wEvents cfg w (entryFrame cfg k f t0 s.frames.length o).b s.frames.length o := by
    intro e he
    rw [a1', ← hWE] at he
    simpa using he
  refine ⟨rfl, hs.out, rfl, a1'.trans (by rw [hWE]), ⟨a3.1, a3.2, a3.3, a3.4⟩, ?_, ?_⟩
  · refine ⟨⟨hs.over.trans hB.over, by simp, hs.recordIdx, hs.enabled, ?_, ?_, ?_, ?_, ?_, ?_, ?_⟩, ?_, ?_, ?_⟩
    · exact (congrArg Filt.inCount hs.filt)
    · exact (congrArg Filt.outCount hs.filt)
    · exact (congrArg Filt.depth hs.filt)
    · exact (congrArg Filt.maxDepth hs.filt)
    · exact (congrArg Filt.time hs.filt)
    · exact (congrArg Filt.size hs.filt)
    · intro g hg'
      simp only [List.mem_cons] at hg'
      rcases hg' with rfl | hg'
      · rw [hFb]; simp [plainFrame]
      · exact hB.noskip g hg'
    · intro g hg'
      simp only [List.mem_cons] at hg'
      rcases hg' with rfl | hg'
      · rw [hFb]; simp [plainFrame]
      · have := hg.starts g hg'; omega
    · intro e he
      rcases hmem e he with h | h
      · have := hg.ptime e h; omega
      · rw [(hWt e h).1]; exact hwt0 _
    · intro e he
      rcases hmem e he with h | h
      · exact hg.pidx e h
      · rw [(hWt e h).2]; unfold watchTag; split <;> omega
  · intro hw
    exact watchStep_winited cfg _ _ _ o hw


theorem exitE_W (cfg : ECfg) (hp : PlainW cfg) (k : Kind) (s2 w2 : ESt) (d tl2 f t0 t1 : Nat) (wr : Bool)
    (F : EFrame) (rest : List EFrame) (o : Obs)
    (hb : F.b = plainFrame k f t0 d) (hev : ∀ e ∈ F.evs, e.time = t0)
    (hfr : s2.frames = withW F wr :: rest) (hg : GoodW s2 (d + 1) tl2) (hsw : SameWatch s2 w2)
    (ht0 : t0 ≤ tl2) (ht : tl2 + 2 ≤ t1) (htu : t1 < u64) (hroom : s2.pend.length + nsrc cfg ≤ MAX_EVENT)
    (hinit : cfg.watch = true → s2.winited = true)
    (hwr : wr = true → markToE rest = rest) :
    (exitE cfg s2 t1 o).out =
      s2.out ++ owed (withW F wr :: rest) s2.pend ++
        (wEvents cfg w2 (exitFrame cfg F t1 d o).b d o).map .event ++ exitOut cfg F t1 d o ∧
    (exitE cfg s2 t1 o).frames = markToE rest ∧
    (exitE cfg s2 t1 o).pend = [] ∧
    SameWatch (exitE cfg s2 t1 o) (wNext cfg w2 (exitFrame cfg F t1 d o).b d o) ∧
    GoodW (exitE cfg s2 t1 o) d t1 ∧
    (cfg.watch = true → (exitE cfg s2 t1 o).winited = true) := by
  have hB := hg.b
  have hrest : NoSkipE rest := fun g hg' => hB.noskip g (by simp [hfr, hg'])
  have hlen : rest.length = d := by simpa [hfr] using hB.len
  have ht2 : ¬ t1 = 0 := by omega
  have hst : F.b.start = t0 := by rw [hb]; rfl
  have hev' : ∀ e ∈ F.evs, e.time = F.b.start := by rw [hst]; exact hev
  have hEE := entryEvs_exitFrame cfg F t1 d o hev' (by omega) ht2
  have hEF := entryEvs_of_all F hev'
  have hnr : (withW F wr).b.norecord = false := by simp [withW, hb, plainFrame]
  have hu := exitE_T_unfold cfg s2 (withW F wr) rest t1 o hfr hB.over hnr hB.en hB.ftime
  have hX : exitArea cfg (setEnd (withW F wr) t1) (rest.length + 1) o = withW (exitFrame cfg F t1 d o) wr := by
    rw [setEnd_withW, exitArea_withW, hlen]; rfl
  rw [hX] at hu
  have hXb := exitArea_b cfg (setEnd F t1) (d + 1) o
  have hrec := exitFinish_record cfg (exitBase s2 (setEnd (withW F wr) t1) rest) (setEnd (withW F wr) t1)
    (withW (exitFrame cfg F t1 d o) wr) rest cfg.base.threshold (!(withW F wr).b.cyg && (withW F wr).retFl) o
    (by
      have hlt : t0 < t1 := by omega
      have := durOk_sub_of_lt cfg.base t0 t1 hlt htu
      simpa [hp.thr, hst, setEnd, withW] using this) hp.t.caller
  rw [hrec] at hu
  -- the watch events of the exit hook
  have hht : hookTime (withW (exitFrame cfg F t1 d o) wr).b = hookTime (exitFrame cfg F t1 d o).b := rfl
  rw [watchStep_hookTime cfg _ _ _ rest.length o hht, hlen] at hu
  obtain ⟨WX, a1, a2, a3⟩ := watchStep_room cfg (exitBase s2 (setEnd (withW F wr) t1) rest) { w2 with pend := [] }
    (exitFrame cfg F t1 d o).b d o ⟨hsw.1, hsw.2, hsw.3, hsw.4⟩ hroom (nsrc_room cfg _ hroom)
  obtain ⟨hs, _⟩ := watchStep_spec cfg (exitBase s2 (setEnd (withW F wr) t1) rest) (exitFrame cfg F t1 d o).b d o
  have a1' : (watchStep cfg (exitBase s2 (setEnd (withW F wr) t1) rest) (exitFrame cfg F t1 d o).b d o).pend =
      s2.pend ++ WX := a1
  have hWX : wEvents cfg w2 (exitFrame cfg F t1 d o).b d o = WX := by unfold wEvents; rw [a2]; rfl
  have hXend : (exitFrame cfg F t1 d o).b.endT = t1 := by unfold exitFrame; rw [hXb.1]; rfl
  have hXst : (exitFrame cfg F t1 d o).b.start = t0 := by unfold exitFrame; rw [hXb.1]; exact hst
  have hWXt : ∀ e ∈ WX, e.time + 1 = t1 := by
    intro e he
    by_cases hw : cfg.watch = true
    · have h1 := (wEvents_time cfg w2 (exitFrame cfg F t1 d o).b d o e (by rw [hWX]; exact he)).1
      have hwi : w2.winited = true := by rw [← hsw.1]; exact hinit hw
      have h3 : (t1 != 0) = true := by simp; omega
      simp [watchTime, hookTime, hXend, hwi, h3] at h1
      omega
    · have := wEvents_nowatch cfg w2 (exitFrame cfg F t1 d o).b d o (by simpa using hw)
      rw [hWX] at this; rw [this] at he; simp at he
  obtain ⟨r1, r2, r3⟩ := recordTraceE_exit_W cfg (!(withW F wr).b.cyg && (withW F wr).retFl)
    (withW (exitFrame cfg F t1 d o) wr) rest s2.pend WX t1 hrest
    (by simp [withW, exitFrame, hXb.1, hb, plainFrame]) (by simp [withW, exitFrame, hXb.1, hb, plainFrame])
    (by simpa using hXend) ht2
    (fun e he => by have := hg.ptime e he; omega)
    (fun e he => by have := hWXt e he; omega)
    (by
      intro e he g hg'
      have h1 := hWXt e he
      simp only [List.mem_cons] at hg'
      rcases hg' with rfl | hg'
      · simp only [withW_start, hXst]; omega
      · have := hg.starts g (by simp [hfr, hg']); omega)
  rw [a1'] at hu
  have hmm : (if wr = true then rest else markToE rest) = markToE rest := by
    cases wr
    · rfl
    · simp [hwr rfl]
  have hEO : entryOut (exitFrame cfg F t1 d o) = entryOut F := by
    simp [entryOut, exitFrame, hXb.1, hXb.2.1, hXb.2.2.1, entryRec]
  have hOW : owed (withW (exitFrame cfg F t1 d o) wr :: rest) s2.pend = owed (withW F wr :: rest) s2.pend := by
    apply owed_top_congr
    · rfl
    · simp [withW, Frame.skip, exitFrame, hXb.1]
    · simp only [withW_start, hXst, hst]
    · simp only [entryOut_withW, hEO]
    · simp only [entryEvs_withW, hEE, hEF]
  have r3' : (recordTraceE cfg (!(withW F wr).b.cyg && (withW F wr).retFl)
      (withW (exitFrame cfg F t1 d o) wr :: rest) (s2.pend ++ WX)).1.tail = markToE rest := by
    rw [r3]; simp only [withW_b_written]; exact hmm
  -- projections of the result
  have eRT : ∀ x, x = recordTraceE cfg (!(withW F wr).b.cyg && (withW F wr).retFl)
      (withW (exitFrame cfg F t1 d o) wr :: rest) (s2.pend ++ WX) → True := fun _ _ => trivial
  have e_frames : (exitE cfg s2 t1 o).frames = (recordTraceE cfg (!(withW F wr).b.cyg && (withW F wr).retFl)
      (withW (exitFrame cfg F t1 d o) wr :: rest) (s2.pend ++ WX)).1.tail := by rw [hu]; rfl
  have e_pend : (exitE cfg s2 t1 o).pend = (recordTraceE cfg (!(withW F wr).b.cyg && (withW F wr).retFl)
      (withW (exitFrame cfg F t1 d o) wr :: rest) (s2.pend ++ WX)).2.1 := by rw [hu]; rfl
  have e_out : (exitE cfg s2 t1 o).out =
      (watchStep cfg (exitBase s2 (setEnd (withW F wr) t1) rest) (exitFrame cfg F t1 d o).b d o).out ++
      (recordTraceE cfg (!(withW F wr).b.cyg && (withW F wr).retFl)
        (withW (exitFrame cfg F t1 d o) wr :: rest) (s2.pend ++ WX)).2.2 := by rw [hu]; rfl
  have e_over : (exitE cfg s2 t1 o).over =
      (watchStep cfg (exitBase s2 (setEnd (withW F wr) t1) rest) (exitFrame cfg F t1 d o).b d o).over := by rw [hu]; rfl
  have e_ridx : (exitE cfg s2 t1 o).recordIdx =
      (watchStep cfg (exitBase s2 (setEnd (withW F wr) t1) rest) (exitFrame cfg F t1 d o).b d o).recordIdx := by
    rw [hu]; rfl
  have e_en : (exitE cfg s2 t1 o).enabled =
      (watchStep cfg (exitBase s2 (setEnd (withW F wr) t1) rest) (exitFrame cfg F t1 d o).b d o).enabled := by
    rw [hu]; rfl
  have e_filt : (exitE cfg s2 t1 o).filt =
      (watchStep cfg (exitBase s2 (setEnd (withW F wr) t1) rest) (exitFrame cfg F t1 d o).b d o).filt := by
    rw [hu]; rfl
  have e_watch : SameWatch (exitE cfg s2 t1 o)
      (watchStep cfg (exitBase s2 (setEnd (withW F wr) t1) rest) (exitFrame cfg F t1 d o).b d o) := by
    rw [hu]; exact ⟨rfl, rfl, rfl, rfl⟩
  have hRP : retPayload cfg (!(withW F wr).b.cyg && (withW F wr).retFl) (withW (exitFrame cfg F t1 d o) wr) =
      retPayload cfg (!F.b.cyg && F.retFl) (exitFrame cfg F t1 d o) := rfl
  have hER : exitRec (withW (exitFrame cfg F t1 d o) wr).b = exitRec (exitFrame cfg F t1 d o).b := rfl
  refine ⟨?_, ?_, ?_, ?_, ?_, ?_⟩
  · rw [e_out, hs.out, r1, hOW, hWX, exitEvs_withW, hRP, hER]
    simp [exitOut, exitBase, List.append_assoc]
  · rw [e_frames]; exact r3'
  · rw [e_pend]; exact r2
  · unfold wNext
    exact e_watch.trans ⟨a3.1, a3.2, a3.3, a3.4⟩
  · refine ⟨⟨?_, ?_, ?_, ?_, ?_, ?_, ?_, ?_, ?_, ?_, ?_⟩, ?_, ?_, ?_⟩
    · rw [e_over, hs.over]; simp [exitBase, hB.over]
    · rw [e_frames, r3', markToE_length, hlen]
    · rw [e_ridx, hs.recordIdx]; simp [exitBase, hB.ridx]
    · rw [e_en, hs.enabled]; simp [exitBase, hB.en]
    · rw [e_filt, hs.filt]; simp [exitBase, withW, hb, plainFrame, hB.inc]
    · rw [e_filt, hs.filt]; simp [exitBase, withW, hb, plainFrame, hB.outc]
    · rw [e_filt, hs.filt]; simp [exitBase, withW, hb, plainFrame]
    · rw [e_filt, hs.filt]; simp [exitBase, withW, hb, plainFrame]
    · rw [e_filt, hs.filt]; simp [exitBase, withW, hb, plainFrame]
    · rw [e_filt, hs.filt]; simp [exitBase, withW, hb, plainFrame]
    · rw [e_frames, r3']; exact markToE_noskip rest hrest
    · rw [e_frames, r3']
      intro g hg'
      obtain ⟨g', h1, h2⟩ := markToE_start rest g hg'
      have := hg.starts g' (by simp [hfr, h1])
      omega
    · rw [e_pend, r2]; simp
    · rw [e_pend, r2]; simp
  · intro hw
    rw [e_watch.1]
    exact watchStep_winited cfg _ _ _ o hw


/-! ### the specified stream with watchpoints -/

def ECall.endTime : ECall → Nat
  | .node _ _ t1 _ _ _ => t1

mutual
  /-- time of the last hook of a history (`tl` if it is empty) -/
  def ECall.lastT : ECall → Nat
    | .node _ _ t1 _ _ _ => t1
  def ECalls.last (tl : Nat) : ECalls → Nat
    | .nil => tl
    | .cons c rest => rest.last c.lastT
end

mutual
  /-- consecutive hooks are at least 2 ns apart on the 64-bit clock; `tl` = time of the hook before
      the history -/
  def ECall.spaced (tl : Nat) : ECall → Prop
    | .node _ t0 t1 _ _ kids => tl + 2 ≤ t0 ∧ kids.spaced t0 ∧ kids.last t0 + 2 ≤ t1 ∧ t1 < u64
  def ECalls.spaced (tl : Nat) : ECalls → Prop
    | .nil => True
    | .cons c rest => c.spaced tl ∧ rest.spaced c.lastT
end

mutual
  /-- the specified stream of a call executed at depth `d` in watch state `w`, and the watch state
      afterwards: the watch events of the entry hook come before ENTRY (after ENTRY and its read
      events for the thread's first observation), those of the exit hook before the diff events -/
  def specWCall (cfg : ECfg) (k : Kind) (d : Nat) : ESt → ECall → List Out × ESt
    | w, .node f t0 t1 oE oX kids =>
      ((if w.winited then
          (wEvents cfg w (entryFrame cfg k f t0 d oE).b d oE).map .event ++
            ([entryOut (entryFrame cfg k f t0 d oE)] ++ (entryEvs (entryFrame cfg k f t0 d oE)).map .event)
        else
          [entryOut (entryFrame cfg k f t0 d oE)] ++ (entryEvs (entryFrame cfg k f t0 d oE)).map .event ++
            (wEvents cfg w (entryFrame cfg k f t0 d oE).b d oE).map .event) ++
        (specWCalls cfg k (d + 1) (wNext cfg w (entryFrame cfg k f t0 d oE).b d oE) kids).1 ++
        (wEvents cfg (specWCalls cfg k (d + 1) (wNext cfg w (entryFrame cfg k f t0 d oE).b d oE) kids).2
          (exitFrame cfg (entryFrame cfg k f t0 d oE) t1 d oX).b d oX).map .event ++
        exitOut cfg (entryFrame cfg k f t0 d oE) t1 d oX,
       wNext cfg (specWCalls cfg k (d + 1) (wNext cfg w (entryFrame cfg k f t0 d oE).b d oE) kids).2
          (exitFrame cfg (entryFrame cfg k f t0 d oE) t1 d oX).b d oX)
  def specWCalls (cfg : ECfg) (k : Kind) (d : Nat) : ESt → ECalls → List Out × ESt
    | w, .nil => ([], w)
    | w, .cons c rest =>
      ((specWCall cfg k d w c).1 ++ (specWCalls cfg k d (specWCall cfg k d w c).2 rest).1,
       (specWCalls cfg k d (specWCall cfg k d w c).2 rest).2)
end

mutual
  /-- no pending-event overflow during the run: at every hook there is room for one event per source -/
  def roomCall (cfg : ECfg) (k : Kind) : ESt → ECall → Prop
    | s, .node f t0 _ oE _ kids =>
      s.pend.length + nsrc cfg ≤ MAX_EVENT ∧ roomCalls cfg k (entryE cfg k s f t0 oE).1 kids ∧
      (runECalls cfg k (entryE cfg k s f t0 oE).1 kids).pend.length + nsrc cfg ≤ MAX_EVENT
  def roomCalls (cfg : ECfg) (k : Kind) : ESt → ECalls → Prop
    | _, .nil => True
    | s, .cons c rest => roomCall cfg k s c ∧ roomCalls cfg k (runECall cfg k s c) rest
end

theorem owed_written (top : EFrame) (rest : List EFrame) (p : List Ev) (h : top.b.written = true) :
    owed (top :: rest) p = p.map .event := by
  simp [owed, flushBelowE, h]

theorem watchTime_entry (k : Kind) (f t0 d : Nat) (b : Bool) :
    watchTime (plainFrame k f t0 d) b = (if b then t0 - 1 else t0 + 1) := by
  cases b <;> simp [watchTime, hookTime, plainFrame]


mutual
theorem spaced_call_le : ∀ (c : ECall) (tl : Nat), c.spaced tl → tl ≤ c.lastT
  | .node f t0 t1 oE oX kids, tl, h => by
    simp only [ECall.spaced] at h
    have := spaced_calls_le kids t0 h.2.1
    simp only [ECall.lastT]; omega
theorem spaced_calls_le : ∀ (cs : ECalls) (tl : Nat), cs.spaced tl → tl ≤ cs.last tl
  | .nil, tl, _ => by simp [ECalls.last]
  | .cons c rest, tl, h => by
    simp only [ECalls.spaced] at h
    have h1 := spaced_call_le c tl h.1
    have h2 := spaced_calls_le rest c.lastT h.2
    simp only [ECalls.last]; omega
end

mutual
theorem emitW_call (cfg : ECfg) (hp : PlainW cfg) (k : Kind) :
    ∀ (c : ECall) (s w : ESt) (d tl : Nat), GoodW s d tl → SameWatch s w →
      d + c.height ≤ cfg.base.maxStack → d + c.height ≤ cfg.base.depthOpt → c.spaced tl → roomCall cfg k s c →
      (runECall cfg k s c).out = s.out ++ owed s.frames s.pend ++ (specWCall cfg k d w c).1 ∧
      (runECall cfg k s c).frames = markToE s.frames ∧
      (runECall cfg k s c).pend = [] ∧
      SameWatch (runECall cfg k s c) (specWCall cfg k d w c).2 ∧
      GoodW (runECall cfg k s c) d c.lastT ∧
      (cfg.watch = true → (runECall cfg k s c).winited = true)
  | .node f t0 t1 oE oX kids, s, w, d, tl, hg, hsw, hm, hd, hsp, hr => by
    simp only [ECall.height] at hm hd
    simp only [ECall.spaced] at hsp
    simp only [roomCall] at hr
    obtain ⟨e1, e2, e3, e4, e5, e6, e7⟩ := entryE_W cfg hp k s w d tl f t0 oE hg hsw (by omega) (by omega) hsp.1 hr.1
    have hk := emitW_calls cfg hp k kids (entryE cfg k s f t0 oE).1
      (wNext cfg w (entryFrame cfg k f t0 d oE).b d oE) (d + 1) t0 e6 e5 (by omega) (by omega) hsp.2.1 hr.2.1
    have hFb := entryFrame_b cfg k f t0 d oE
    have hFev := entryFrame_evs_time cfg k f t0 d oE
    have hFw : (entryFrame cfg k f t0 d oE).b.written = false := by rw [hFb]; rfl
    have hFs : (entryFrame cfg k f t0 d oE).b.skip = false := by rw [hFb]; rfl
    have hFst : (entryFrame cfg k f t0 d oE).b.start = t0 := by rw [hFb]; rfl
    have hle := spaced_calls_le kids t0 hsp.2.1
    -- what is owed after the entry hook
    have hWEt : ∀ e ∈ wEvents cfg w (entryFrame cfg k f t0 d oE).b d oE,
        e.time = (if w.winited then t0 - 1 else t0 + 1) := by
      intro e he
      rw [(wEvents_time cfg w _ d oE e he).1, hFb, watchTime_entry]
    have hOE := owed_entry s.frames s.pend (wEvents cfg w (entryFrame cfg k f t0 d oE).b d oE)
      (entryFrame cfg k f t0 d oE) t0 w.winited hFw hFs hFst
      (fun e he => by have := hg.ptime e he; omega) hWEt
      (fun g hg' => by have := hg.starts g hg'; omega) (by omega)
    simp only [runECall, e1, ↓reduceIte]
    cases kids with
    | nil =>
      simp only [runECalls] at hr ⊢
      obtain ⟨x1, x2, x3, x4, x5, x6⟩ := exitE_W cfg hp k (entryE cfg k s f t0 oE).1
        (wNext cfg w (entryFrame cfg k f t0 d oE).b d oE) d t0 f t0 t1 false
        (entryFrame cfg k f t0 d oE) s.frames oX hFb hFev (by rw [e3, withW_self _ _ hFw]) e6 e5
        (by omega) (by simpa [ECalls.last] using hsp.2.2.1) hsp.2.2.2 hr.2.2 e7 (by simp)
      refine ⟨?_, x2, x3, ?_, ?_, x6⟩
      · rw [x1, e2, e4, withW_self _ _ hFw, hOE]
        simp [specWCall, specWCalls, List.append_assoc]
      · simpa [specWCall, specWCalls] using x4
      · simpa [ECall.lastT] using x5
    | cons c rest =>
      obtain ⟨k1, k2, k3, k4, k5, k6⟩ := hk
      simp only at k1 k2 k3
      rw [e3, markToE_cons_unwritten _ _ hFw] at k2
      obtain ⟨x1, x2, x3, x4, x5, x6⟩ := exitE_W cfg hp k
        (runECalls cfg k (entryE cfg k s f t0 oE).1 (.cons c rest))
        (specWCalls cfg k (d + 1) (wNext cfg w (entryFrame cfg k f t0 d oE).b d oE) (.cons c rest)).2
        d ((ECalls.cons c rest).last t0) f t0 t1 true
        (entryFrame cfg k f t0 d oE) (markToE s.frames) oX hFb hFev k2 k5 k4
        hle hsp.2.2.1 hsp.2.2.2 hr.2.2 (fun hw => k6 hw (e7 hw)) (fun _ => markToE_markToE _)
      refine ⟨?_, by rw [x2, markToE_markToE], x3, ?_, ?_, x6⟩
      · rw [x1, k1, k3, e2, e3, e4, hOE, owed_written _ _ _ (by simp)]
        simp [specWCall, List.append_assoc]
      · simpa [specWCall] using x4
      · simpa [ECall.lastT] using x5
theorem emitW_calls (cfg : ECfg) (hp : PlainW cfg) (k : Kind) :
    ∀ (cs : ECalls) (s w : ESt) (d tl : Nat), GoodW s d tl → SameWatch s w →
      d + cs.height ≤ cfg.base.maxStack → d + cs.height ≤ cfg.base.depthOpt → cs.spaced tl → roomCalls cfg k s cs →
      (runECalls cfg k s cs).out =
        s.out ++ (match cs with | .nil => [] | .cons _ _ => owed s.frames s.pend) ++ (specWCalls cfg k d w cs).1 ∧
      (runECalls cfg k s cs).frames = (match cs with | .nil => s.frames | .cons _ _ => markToE s.frames) ∧
      (runECalls cfg k s cs).pend = (match cs with | .nil => s.pend | .cons _ _ => []) ∧
      SameWatch (runECalls cfg k s cs) (specWCalls cfg k d w cs).2 ∧
      GoodW (runECalls cfg k s cs) d (cs.last tl) ∧
      (cfg.watch = true → s.winited = true → (runECalls cfg k s cs).winited = true)
  | .nil, s, w, d, tl, hg, hsw, _, _, _, _ => by
    simp [runECalls, specWCalls, ECalls.last, hg, hsw]
  | .cons c rest, s, w, d, tl, hg, hsw, hm, hd, hsp, hr => by
    simp only [ECalls.height] at hm hd
    simp only [ECalls.spaced] at hsp
    simp only [roomCalls] at hr
    obtain ⟨c1, c2, c3, c4, c5, c6⟩ := emitW_call cfg hp k c s w d tl hg hsw (by omega) (by omega) hsp.1 hr.1
    obtain ⟨r1, r2, r3, r4, r5, r6⟩ := emitW_calls cfg hp k rest (runECall cfg k s c) (specWCall cfg k d w c).2 d
      c.lastT c5 c4 (by omega) (by omega) hsp.2 hr.2
    simp only [runECalls]
    refine ⟨?_, ?_, ?_, ?_, ?_, ?_⟩
    · rw [r1, c1]
      cases rest with
      | nil => simp [specWCalls]
      | cons c' r' => simp [specWCalls, c2, c3, owed_marked]
    · rw [r2]
      cases rest with
      | nil => simp [c2]
      | cons c' r' => simp [c2, markToE_markToE]
    · rw [r3]
      cases rest with
      | nil => simp [c3]
      | cons c' r' => simp
    · simpa [specWCalls] using r4
    · simpa [ECalls.last] using r5
    · intro hw _
      cases rest with
      | nil => simpa [runECalls] using c6 hw
      | cons c' r' => exact r6 hw (c6 hw)
end


/-! ### properties of the specified stream -/

def Out.time : Out → Nat
  | .record r _ => r.time
  | .event e => e.time

theorem mem_takeWhile_sat {α : Type} (p : α → Bool) : ∀ (l : List α) (a : α), a ∈ l.takeWhile p → p a = true := by
  intro l
  induction l with
  | nil => intro a h; simp at h
  | cons x r ih =>
    intro a h
    simp only [List.takeWhile] at h
    split at h
    · rename_i hx
      simp only [List.mem_cons] at h
      rcases h with rfl | h
      · exact hx
      · exact ih a h
    · simp at h

theorem entryEvs_time (F : EFrame) : ∀ e ∈ entryEvs F, e.time = F.b.start := by
  intro e he
  unfold entryEvs at he
  have := mem_takeWhile_sat _ _ e he
  simpa using this

theorem filterMap_recOf_comp (l : List Ev) : l.filterMap (recOf ∘ Out.event) = [] := by
  induction l with
  | nil => rfl
  | cons e r ih => simp [recOf, ih]

theorem exitEvs_time (X : EFrame) : ∀ e ∈ exitEvs X, e.time = X.b.endT := by
  intro e he
  unfold exitEvs at he
  have := (List.mem_filter.mp he).2
  simpa using this

theorem exitFrame_endT (cfg : ECfg) (F : EFrame) (t1 d : Nat) (o : Obs) : (exitFrame cfg F t1 d o).b.endT = t1 := by
  unfold exitFrame; rw [(exitArea_b cfg (setEnd F t1) (d + 1) o).1]; rfl

theorem exitFrame_hookTime (cfg : ECfg) (F : EFrame) (t1 d : Nat) (o : Obs) (h : t1 ≠ 0) :
    hookTime (exitFrame cfg F t1 d o).b = t1 := by
  simp [hookTime, exitFrame_endT, h]

mutual
theorem recsW_specCall (cfg : ECfg) (k : Kind) : ∀ (d : Nat) (w : ESt) (c : ECall),
    (specWCall cfg k d w c).1.filterMap recOf = evCall d c.erase
  | d, w, .node f t0 t1 oE oX kids => by
    have hk := recsW_specCalls cfg k (d + 1) (wNext cfg w (entryFrame cfg k f t0 d oE).b d oE) kids
    simp only [specWCall, exitOut, entryOut_entryFrame, exitRecord_exitFrame]
    split <;>
    simp [List.filterMap_append, filterMap_recOf_events, filterMap_recOf_comp, hk, ECall.erase, evCall, recOf]
theorem recsW_specCalls (cfg : ECfg) (k : Kind) : ∀ (d : Nat) (w : ESt) (cs : ECalls),
    (specWCalls cfg k d w cs).1.filterMap recOf = evCalls d cs.erase
  | d, w, .nil => by simp [specWCalls, ECalls.erase, evCalls]
  | d, w, .cons c rest => by
    simp [specWCalls, ECalls.erase, evCalls, recsW_specCall cfg k d w c,
      recsW_specCalls cfg k d (specWCall cfg k d w c).2 rest]
end


theorem wNext_winited (cfg : ECfg) (w : ESt) (b : Frame) (ri : Nat) (o : Obs) (h : cfg.watch = true) :
    (wNext cfg w b ri o).winited = true := watchStep_winited cfg _ b ri o h

mutual
theorem specW_winited_call (cfg : ECfg) (k : Kind) (h : cfg.watch = true) : ∀ (d : Nat) (w : ESt) (c : ECall),
    (specWCall cfg k d w c).2.winited = true
  | d, w, .node f t0 t1 oE oX kids => by
    simp only [specWCall]
    exact wNext_winited cfg _ _ _ _ h
theorem specW_winited_calls (cfg : ECfg) (k : Kind) (h : cfg.watch = true) : ∀ (d : Nat) (w : ESt) (cs : ECalls),
    w.winited = true → (specWCalls cfg k d w cs).2.winited = true
  | d, w, .nil, hw => by simpa [specWCalls] using hw
  | d, w, .cons c rest, hw => by
    simp only [specWCalls]
    exact specW_winited_calls cfg k h d _ rest (specW_winited_call cfg k h d w c)
end

/-- the events a call's own hooks put between its ENTRY and EXIT, and the callees' records -/
def innerOf (cfg : ECfg) (k : Kind) (d : Nat) (w : ESt) : ECall → List Out
  | .node f t0 t1 oE oX kids =>
    (entryEvs (entryFrame cfg k f t0 d oE)).map .event ++
      (if w.winited then [] else (wEvents cfg w (entryFrame cfg k f t0 d oE).b d oE).map .event) ++
      (specWCalls cfg k (d + 1) (wNext cfg w (entryFrame cfg k f t0 d oE).b d oE) kids).1 ++
      (wEvents cfg (specWCalls cfg k (d + 1) (wNext cfg w (entryFrame cfg k f t0 d oE).b d oE) kids).2
        (exitFrame cfg (entryFrame cfg k f t0 d oE) t1 d oX).b d oX).map .event ++
      (exitEvs (exitFrame cfg (entryFrame cfg k f t0 d oE) t1 d oX)).map .event

/-- the watch events of the entry hook that precede ENTRY (none for the first observation) -/
def beforeOf (cfg : ECfg) (k : Kind) (d : Nat) (w : ESt) : ECall → List Out
  | .node f t0 _ oE _ _ =>
    if w.winited then (wEvents cfg w (entryFrame cfg k f t0 d oE).b d oE).map .event else []

theorem specWCall_shape (cfg : ECfg) (k : Kind) (d : Nat) (w : ESt) (f t0 t1 : Nat) (oE oX : Obs) (kids : ECalls) :
    (specWCall cfg k d w (.node f t0 t1 oE oX kids)).1 =
      beforeOf cfg k d w (.node f t0 t1 oE oX kids) ++
        [.record { time := t0, type := 0, depth := d, addr := f } (argPayload cfg k f)] ++
        innerOf cfg k d w (.node f t0 t1 oE oX kids) ++
        [.record { time := t1, type := 1, depth := d, addr := f } (retPayloadOf cfg k f)] := by
  simp only [specWCall, beforeOf, innerOf, exitOut, entryOut_entryFrame, exitRecord_exitFrame]
  split <;> simp [List.append_assoc]

mutual
theorem specW_times_call (cfg : ECfg) (k : Kind) : ∀ (d : Nat) (w : ESt) (c : ECall) (tl : Nat), c.spaced tl →
    ∀ x ∈ (specWCall cfg k d w c).1, tl + 1 ≤ x.time ∧ x.time ≤ c.lastT
  | d, w, .node f t0 t1 oE oX kids, tl, hsp => by
    simp only [ECall.spaced] at hsp
    have hle := spaced_calls_le kids t0 hsp.2.1
    have hk := specW_times_calls cfg k (d + 1) (wNext cfg w (entryFrame cfg k f t0 d oE).b d oE) kids t0 hsp.2.1
    have hFb := entryFrame_b cfg k f t0 d oE
    have hWE : ∀ e ∈ wEvents cfg w (entryFrame cfg k f t0 d oE).b d oE, e.time = (if w.winited then t0 - 1 else t0 + 1) := by
      intro e he
      rw [(wEvents_time cfg w _ d oE e he).1, hFb, watchTime_entry]
    have hWX : ∀ e ∈ wEvents cfg (specWCalls cfg k (d + 1) (wNext cfg w (entryFrame cfg k f t0 d oE).b d oE) kids).2
        (exitFrame cfg (entryFrame cfg k f t0 d oE) t1 d oX).b d oX, e.time + 1 = t1 := by
      intro e he
      by_cases hw : cfg.watch = true
      · have h1 := (wEvents_time cfg _ _ d oX e he).1
        have hwi := specW_winited_calls cfg k hw (d + 1) (wNext cfg w (entryFrame cfg k f t0 d oE).b d oE) kids
          (wNext_winited cfg w (entryFrame cfg k f t0 d oE).b d oE hw)
        have h3 : hookTime (exitFrame cfg (entryFrame cfg k f t0 d oE) t1 d oX).b = t1 :=
          exitFrame_hookTime cfg _ t1 d oX (by omega)
        simp [watchTime, h3, hwi] at h1
        omega
      · rw [wEvents_nowatch cfg _ _ d oX (by simpa using hw)] at he; simp at he
    have hEE := entryEvs_time (entryFrame cfg k f t0 d oE)
    have hXE := exitEvs_time (exitFrame cfg (entryFrame cfg k f t0 d oE) t1 d oX)
    have hst : (entryFrame cfg k f t0 d oE).b.start = t0 := by rw [hFb]; rfl
    rw [specWCall_shape]
    intro x hx
    simp only [List.mem_append, List.mem_singleton, beforeOf, innerOf, ECall.lastT] at hx ⊢
    rcases hx with ((hx | hx) | hx) | hx
    · split at hx
      · rename_i hwi
        obtain ⟨e, he, rfl⟩ := List.mem_map.mp hx
        have := hWE e he; simp [hwi] at this
        simp only [Out.time]; omega
      · simp at hx
    · subst hx; simp only [Out.time]; omega
    · rcases hx with (((hx | hx) | hx) | hx) | hx
      · obtain ⟨e, he, rfl⟩ := List.mem_map.mp hx
        have := hEE e he; simp only [Out.time]; omega
      · split at hx
        · simp at hx
        · rename_i hwi
          obtain ⟨e, he, rfl⟩ := List.mem_map.mp hx
          have := hWE e he; simp [hwi] at this
          simp only [Out.time]; omega
      · have := hk x hx; omega
      · obtain ⟨e, he, rfl⟩ := List.mem_map.mp hx
        have := hWX e he; simp only [Out.time]; omega
      · obtain ⟨e, he, rfl⟩ := List.mem_map.mp hx
        have := hXE e he; rw [exitFrame_endT] at this; simp only [Out.time]; omega
    · subst hx; simp only [Out.time]; omega
theorem specW_times_calls (cfg : ECfg) (k : Kind) : ∀ (d : Nat) (w : ESt) (cs : ECalls) (tl : Nat), cs.spaced tl →
    ∀ x ∈ (specWCalls cfg k d w cs).1, tl + 1 ≤ x.time ∧ x.time ≤ cs.last tl
  | d, w, .nil, tl, _ => by simp [specWCalls]
  | d, w, .cons c rest, tl, hsp => by
    simp only [ECalls.spaced] at hsp
    have h1 := specW_times_call cfg k d w c tl hsp.1
    have h2 := specW_times_calls cfg k d (specWCall cfg k d w c).2 rest c.lastT hsp.2
    have l1 := spaced_call_le c tl hsp.1
    have l2 := spaced_calls_le rest c.lastT hsp.2
    intro x hx
    simp only [specWCalls, List.mem_append, ECalls.last] at hx ⊢
    rcases hx with hx | hx
    · have := h1 x hx; omega
    · have := h2 x hx; omega
end


/-- everything between a call's ENTRY and EXIT carries a time stamp inside [t0, t1]; the watch events
    written just before its ENTRY carry t0 - 1 -/
theorem inner_times (cfg : ECfg) (k : Kind) (d : Nat) (w : ESt) (f t0 t1 : Nat) (oE oX : Obs) (kids : ECalls) (tl : Nat)
    (hsp : (ECall.node f t0 t1 oE oX kids).spaced tl) :
    (∀ x ∈ innerOf cfg k d w (.node f t0 t1 oE oX kids), t0 ≤ x.time ∧ x.time ≤ t1) ∧
    (∀ x ∈ beforeOf cfg k d w (.node f t0 t1 oE oX kids), x.time + 1 = t0) := by
  simp only [ECall.spaced] at hsp
  have hle := spaced_calls_le kids t0 hsp.2.1
  have hk := specW_times_calls cfg k (d + 1) (wNext cfg w (entryFrame cfg k f t0 d oE).b d oE) kids t0 hsp.2.1
  have hFb := entryFrame_b cfg k f t0 d oE
  have hWE : ∀ e ∈ wEvents cfg w (entryFrame cfg k f t0 d oE).b d oE, e.time = (if w.winited then t0 - 1 else t0 + 1) := by
    intro e he
    rw [(wEvents_time cfg w _ d oE e he).1, hFb, watchTime_entry]
  have hWX : ∀ e ∈ wEvents cfg (specWCalls cfg k (d + 1) (wNext cfg w (entryFrame cfg k f t0 d oE).b d oE) kids).2
      (exitFrame cfg (entryFrame cfg k f t0 d oE) t1 d oX).b d oX, e.time + 1 = t1 := by
    intro e he
    by_cases hw : cfg.watch = true
    · have h1 := (wEvents_time cfg _ _ d oX e he).1
      have hwi := specW_winited_calls cfg k hw (d + 1) (wNext cfg w (entryFrame cfg k f t0 d oE).b d oE) kids
        (wNext_winited cfg w (entryFrame cfg k f t0 d oE).b d oE hw)
      have h3 : hookTime (exitFrame cfg (entryFrame cfg k f t0 d oE) t1 d oX).b = t1 :=
        exitFrame_hookTime cfg _ t1 d oX (by omega)
      simp [watchTime, h3, hwi] at h1
      omega
    · rw [wEvents_nowatch cfg _ _ d oX (by simpa using hw)] at he; simp at he
  have hEE := entryEvs_time (entryFrame cfg k f t0 d oE)
  have hXE := exitEvs_time (exitFrame cfg (entryFrame cfg k f t0 d oE) t1 d oX)
  have hst : (entryFrame cfg k f t0 d oE).b.start = t0 := by rw [hFb]; rfl
  constructor
  · intro x hx
    simp only [List.mem_append, innerOf] at hx
    rcases hx with (((hx | hx) | hx) | hx) | hx
    · obtain ⟨e, he, rfl⟩ := List.mem_map.mp hx
      have := hEE e he; simp only [Out.time]; omega
    · split at hx
      · simp at hx
      · rename_i hwi
        obtain ⟨e, he, rfl⟩ := List.mem_map.mp hx
        have := hWE e he; simp [hwi] at this
        simp only [Out.time]; omega
    · have := hk x hx; omega
    · obtain ⟨e, he, rfl⟩ := List.mem_map.mp hx
      have := hWX e he; simp only [Out.time]; omega
    · obtain ⟨e, he, rfl⟩ := List.mem_map.mp hx
      have := hXE e he; rw [exitFrame_endT] at this; simp only [Out.time]; omega
  · intro x hx
    simp only [beforeOf] at hx
    split at hx
    · rename_i hwi
      obtain ⟨e, he, rfl⟩ := List.mem_map.mp hx
      have := hWE e he; simp [hwi] at this
      simp only [Out.time]; omega
    · simp at hx

/-- `-W cpu` alone: the events of a hook in watch state `w` -/
theorem wEvents_cpu (cfg : ECfg) (hc : cfg.watchCpu = true) (hv : cfg.varSizes = []) (w : ESt) (b : Frame) (ri : Nat)
    (o : Obs) :
    wEvents cfg w b ri o =
      (if w.winited = false ∨ w.wcpu ≠ some o.cpu then [cpuEv (watchTime b w.winited) (watchTag cfg ri) o.cpu] else []) ∧
    (wNext cfg w b ri o).wcpu = some o.cpu ∧ (wNext cfg w b ri o).winited = true := by
  have hw : cfg.watch = true := by simp [ECfg.watch, hc]
  have h4 : decide ((0 : Nat) < MAX_EVENT) = true := by decide
  unfold wEvents wNext watchStep saveWatch
  simp only [hw, hc, hv, ↓reduceIte, saveWatchVars, saveWatchCpu, List.length_nil, h4, Bool.and_true, watchTime, watchTag]
  by_cases h : w.winited = false ∨ w.wcpu ≠ some o.cpu
  · have hcnd : (w.wcpu != some o.cpu || !w.winited) = true := by
      rcases h with h | h <;> simp [h]
    simp [hcnd, h]
  · have h' : w.winited = true ∧ w.wcpu = some o.cpu := by
      constructor
      · cases hwi : w.winited <;> simp_all
      · by_cases hq : w.wcpu = some o.cpu <;> simp_all
    simp [h'.1, h'.2]

end Uft.Events
