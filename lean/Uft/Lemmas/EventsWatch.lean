import Uft.Lemmas.Events
/- C17: the stream of a history with watchpoints (the lazily written ENTRY records and the pending
   watch events come out in the order in which the hooks ran) -/
set_option linter.unusedSimpArgs false
set_option linter.unusedVariables false
namespace Uft.Events
open Uft.Mcount

/-! ### pending events that a record leaves alone -/

theorem takeAsync_append_ge (a b : List Ev) (ts : Nat) (hb : ∀ e ∈ b, ¬ e.time < ts) :
    takeAsync (a ++ b) ts = ((takeAsync a ts).1, (takeAsync a ts).2 ++ b) := by
  induction a with
  | nil =>
    cases b with
    | nil => rfl
    | cons x r => simp [takeAsync, hb x (by simp)]
  | cons x r ih =>
    simp only [List.cons_append, takeAsync]
    split
    · simp [ih]
    · simp

theorem takeAsync_all_stop (a b : List Ev) (ts : Nat) (ha : ∀ e ∈ a, e.time < ts) (hb : ∀ e ∈ b, ¬ e.time < ts) :
    takeAsync (a ++ b) ts = (a, b) := by
  rw [takeAsync_append_ge a b ts hb, takeAsync_all a ts ha]
  simp

theorem flushBelowE_append (fs : List EFrame) : ∀ (p E : List Ev),
    (∀ e ∈ E, ∀ g ∈ fs, ¬ e.time < g.b.start) →
    flushBelowE fs (p ++ E) = ((flushBelowE fs p).1, (flushBelowE fs p).2.1 ++ E, (flushBelowE fs p).2.2) := by
  induction fs with
  | nil => intro p E _; rfl
  | cons f r ih =>
    intro p E h
    have hr : ∀ e ∈ E, ∀ g ∈ r, ¬ e.time < g.b.start := fun e he g hg => h e he g (by simp [hg])
    have hf : ∀ e ∈ E, ¬ e.time < f.b.start := fun e he => h e he f (by simp)
    simp only [flushBelowE]
    split
    · rfl
    · rw [ih p E hr]
      split
      · rfl
      · simp only [recEntry, takeAsync_append_ge _ E f.b.start hf]

/-- what is owed for the open frames and the pending events: the ENTRY records of the unwritten
    frames, each preceded by the pending events older than it, then the events still pending -/
def owed (fs : List EFrame) (p : List Ev) : List Out :=
  (flushBelowE fs p).2.2 ++ (flushBelowE fs p).2.1.map .event

theorem flushBelowE_marked (fs : List EFrame) (p : List Ev) :
    flushBelowE (markToE fs) p = (markToE fs, p, []) := by
  cases fs with
  | nil => rfl
  | cons f r =>
    simp only [markToE]
    split
    · rename_i h; simp [flushBelowE, h]
    · simp [flushBelowE]

theorem owed_marked (fs : List EFrame) : owed (markToE fs) [] = [] := by
  simp [owed, flushBelowE_marked]

theorem flushBelowE_frames (fs : List EFrame) (hns : NoSkipE fs) : ∀ p, (flushBelowE fs p).1 = markToE fs := by
  induction fs with
  | nil => intro p; rfl
  | cons f r ih =>
    intro p
    have hf := hns f (by simp)
    have hr : NoSkipE r := fun g hg => hns g (by simp [hg])
    simp only [flushBelowE, markToE]
    split
    · rfl
    · simp [Frame.skip, hf.1, hf.2, ih hr]


/-! ### save_watchpoint does not look at the pending events as long as there is room -/

/-- number of watch sources: each hook saves at most this many events -/
def nsrc (cfg : ECfg) : Nat := (if cfg.watchCpu then 1 else 0) + cfg.varSizes.length

structure SameWatch (s w : ESt) : Prop where
  winited : s.winited = w.winited
  wcpu : s.wcpu = w.wcpu
  wcopy : s.wcopy = w.wcopy
  glob : s.glob = w.glob

theorem SameWatch.refl (s : ESt) : SameWatch s s := ⟨rfl, rfl, rfl, rfl⟩
theorem SameWatch.symm {s w : ESt} (h : SameWatch s w) : SameWatch w s := ⟨h.1.symm, h.2.symm, h.3.symm, h.4.symm⟩
theorem SameWatch.trans {a b c : ESt} (h1 : SameWatch a b) (h2 : SameWatch b c) : SameWatch a c :=
  ⟨h1.1.trans h2.1, h1.2.trans h2.2, h1.3.trans h2.3, h1.4.trans h2.4⟩

theorem saveWatchVar_room (cfg : ECfg) (t ridx : Nat) (s w : ESt) (k size v : Nat)
    (hsw : SameWatch s w) (hs : s.pend.length < MAX_EVENT) (hw : w.pend.length < MAX_EVENT) :
    ∃ W, (saveWatchVar cfg t ridx s k size v).pend = s.pend ++ W ∧
      (saveWatchVar cfg t ridx w k size v).pend = w.pend ++ W ∧ W.length ≤ 1 ∧
      SameWatch (saveWatchVar cfg t ridx s k size v) (saveWatchVar cfg t ridx w k size v) := by
  have h1 : ¬ (s.pend.length ≥ MAX_EVENT) := by omega
  have h1' : ¬ (w.pend.length ≥ MAX_EVENT) := by omega
  unfold saveWatchVar
  simp only [h1, h1', ↓reduceIte, ← hsw.wcopy, ← hsw.glob]
  by_cases h2 : (s.wcopy[k]? == some v) = true
  · simp only [h2, ↓reduceIte]
    exact ⟨[], by simp, by simp, by simp, hsw⟩
  · by_cases h3 : (s.glob[k]? == some (some v)) = true
    · by_cases hfv : cfg.fixVar = true
      · simp only [h2, h3, hfv, ↓reduceIte, Bool.false_eq_true]
        exact ⟨[], by simp, by simp, by simp, ⟨hsw.1, hsw.2, by first | rfl | exact hsw.3, by first | rfl | exact hsw.4⟩⟩
      · simp only [h2, h3, hfv, ↓reduceIte, Bool.false_eq_true]
        exact ⟨[], by simp, by simp, by simp, ⟨hsw.1, hsw.2, by first | rfl | exact hsw.3, by first | rfl | exact hsw.4⟩⟩
    · by_cases hfv : cfg.fixVar = true
      · simp only [h2, h3, hfv, ↓reduceIte, Bool.false_eq_true]
        exact ⟨[varEv t ridx k size v], rfl, rfl, by simp,
          ⟨hsw.1, hsw.2, by first | rfl | exact hsw.3, by first | rfl | exact hsw.4⟩⟩
      · simp only [h2, h3, hfv, ↓reduceIte, Bool.false_eq_true]
        exact ⟨[varEv t ridx k size v], rfl, rfl, by simp,
          ⟨hsw.1, hsw.2, by first | rfl | exact hsw.3, by first | rfl | exact hsw.4⟩⟩

theorem saveWatchVars_room (cfg : ECfg) (t ridx : Nat) : ∀ (szs vs : List Nat) (s w : ESt) (k : Nat),
    SameWatch s w → s.pend.length + szs.length ≤ MAX_EVENT → w.pend.length + szs.length ≤ MAX_EVENT →
    ∃ W, (saveWatchVars cfg t ridx s k szs vs).pend = s.pend ++ W ∧
      (saveWatchVars cfg t ridx w k szs vs).pend = w.pend ++ W ∧
      SameWatch (saveWatchVars cfg t ridx s k szs vs) (saveWatchVars cfg t ridx w k szs vs)
  | [], vs, s, w, k, h, _, _ => by
    simp only [saveWatchVars]; exact ⟨[], by simp, by simp, h⟩
  | size :: szs, [], s, w, k, h, _, _ => by
    simp only [saveWatchVars]; exact ⟨[], by simp, by simp, h⟩
  | size :: szs, v :: vs, s, w, k, h, hs, hw => by
    simp only [saveWatchVars]
    simp only [List.length_cons] at hs hw
    obtain ⟨W1, a1, b1, c1, d1⟩ := saveWatchVar_room cfg t ridx s w k size v h (by omega) (by omega)
    obtain ⟨W2, a2, b2, d2⟩ := saveWatchVars_room cfg t ridx szs vs (saveWatchVar cfg t ridx s k size v)
      (saveWatchVar cfg t ridx w k size v) (k + 1) d1 (by rw [a1]; simp; omega) (by rw [b1]; simp; omega)
    exact ⟨W1 ++ W2, by rw [a2, a1]; simp, by rw [b2, b1]; simp, d2⟩

theorem watchStep_room (cfg : ECfg) (s w : ESt) (b : Frame) (ri : Nat) (o : Obs)
    (hsw : SameWatch s w) (hs : s.pend.length + nsrc cfg ≤ MAX_EVENT) (hw : w.pend.length + nsrc cfg ≤ MAX_EVENT) :
    ∃ W, (watchStep cfg s b ri o).pend = s.pend ++ W ∧ (watchStep cfg w b ri o).pend = w.pend ++ W ∧
      SameWatch (watchStep cfg s b ri o) (watchStep cfg w b ri o) := by
  unfold watchStep
  by_cases hwt : cfg.watch = true
  · simp only [hwt, ↓reduceIte]
    unfold saveWatch
    simp only [← hsw.winited]
    have h0 : SameWatch { s with winited := true } { w with winited := true } := ⟨rfl, hsw.2, hsw.3, hsw.4⟩
    by_cases hc : cfg.watchCpu = true
    · have hn : nsrc cfg = 1 + cfg.varSizes.length := by simp [nsrc, hc]
      simp only [hc, ↓reduceIte]
      -- the cpu part
      have hcpu : ∃ W1, (saveWatchCpu { s with winited := true } (hookTime b + (if (!s.winited) = true then 2 else 0) - 1)
            (if cfg.fixIdx = true then ri + 1 else ri) o.cpu (!s.winited)).pend = s.pend ++ W1 ∧
          (saveWatchCpu { w with winited := true } (hookTime b + (if (!s.winited) = true then 2 else 0) - 1)
            (if cfg.fixIdx = true then ri + 1 else ri) o.cpu (!s.winited)).pend = w.pend ++ W1 ∧ W1.length ≤ 1 ∧
          SameWatch (saveWatchCpu { s with winited := true } (hookTime b + (if (!s.winited) = true then 2 else 0) - 1)
            (if cfg.fixIdx = true then ri + 1 else ri) o.cpu (!s.winited))
            (saveWatchCpu { w with winited := true } (hookTime b + (if (!s.winited) = true then 2 else 0) - 1)
            (if cfg.fixIdx = true then ri + 1 else ri) o.cpu (!s.winited)) := by
        unfold saveWatchCpu
        have r1 : decide (s.pend.length < MAX_EVENT) = true := by simp; omega
        have r2 : decide (w.pend.length < MAX_EVENT) = true := by simp; omega
        simp only [r1, r2, Bool.and_true, ← hsw.wcpu]
        by_cases he : (s.wcpu != some o.cpu || !s.winited) = true
        · simp only [he, ↓reduceIte]
          exact ⟨[_], rfl, rfl, by simp, ⟨rfl, rfl, hsw.3, hsw.4⟩⟩
        · simp only [he, ↓reduceIte]
          exact ⟨[], by simp, by simp, by simp, ⟨rfl, rfl, hsw.3, hsw.4⟩⟩
      obtain ⟨W1, a1, b1, c1, d1⟩ := hcpu
      obtain ⟨W2, a2, b2, d2⟩ := saveWatchVars_room cfg (hookTime b + (if (!s.winited) = true then 2 else 0) - 1)
        (if cfg.fixIdx = true then ri + 1 else ri) cfg.varSizes o.vars _ _ 0 d1
        (by rw [a1]; simp; omega) (by rw [b1]; simp; omega)
      exact ⟨W1 ++ W2, by rw [a2, a1]; simp, by rw [b2, b1]; simp, d2⟩
    · have hn : nsrc cfg = cfg.varSizes.length := by simp [nsrc, hc]
      simp only [hc, Bool.false_eq_true, ↓reduceIte]
      obtain ⟨W2, a2, b2, d2⟩ := saveWatchVars_room cfg (hookTime b + (if (!s.winited) = true then 2 else 0) - 1)
        (if cfg.fixIdx = true then ri + 1 else ri) cfg.varSizes o.vars { s with winited := true }
        { w with winited := true } 0 h0 (by simp; omega) (by simp; omega)
      exact ⟨W2, a2, b2, d2⟩
  · simp only [hwt, Bool.false_eq_true, ↓reduceIte]
    exact ⟨[], by simp, by simp, hsw⟩


/-! ### what is owed, step by step -/

theorem takeAsync_left_mem (p : List Ev) (ts : Nat) : ∀ e ∈ (takeAsync p ts).2, e ∈ p := by
  intro e he
  have h := takeAsync_append p ts
  rw [← h]
  simp [he]

theorem flushBelowE_left_mem (fs : List EFrame) : ∀ (p : List Ev), ∀ e ∈ (flushBelowE fs p).2.1, e ∈ p := by
  induction fs with
  | nil => intro p e he; simpa [flushBelowE] using he
  | cons f r ih =>
    intro p e he
    simp only [flushBelowE] at he
    split at he
    · exact he
    · split at he
      · exact ih p e he
      · simp only [recEntry] at he
        exact ih p e (takeAsync_left_mem _ _ e he)

/-- the result of the walk does not depend on more of the top frame than this -/
theorem flushBelowE_top_congr (X F : EFrame) (rest : List EFrame) (p : List Ev)
    (hw : X.b.written = F.b.written) (hs : X.b.skip = F.b.skip) (hst : X.b.start = F.b.start)
    (ho : entryOut X = entryOut F) (he : entryEvs X = entryEvs F) :
    (flushBelowE (X :: rest) p).2 = (flushBelowE (F :: rest) p).2 := by
  simp only [flushBelowE, hw, hs, recEntry, hst, ho, he]
  split
  · rfl
  · split <;> rfl

theorem owed_top_congr (X F : EFrame) (rest : List EFrame) (p : List Ev)
    (hw : X.b.written = F.b.written) (hs : X.b.skip = F.b.skip) (hst : X.b.start = F.b.start)
    (ho : entryOut X = entryOut F) (he : entryEvs X = entryEvs F) :
    owed (X :: rest) p = owed (F :: rest) p := by
  unfold owed
  rw [flushBelowE_top_congr X F rest p hw hs hst ho he]

/-- the entry hook: a new unwritten frame `F` and its watch events `WE` -/
theorem owed_entry (fs : List EFrame) (p WE : List Ev) (F : EFrame) (t0 : Nat) (inited : Bool)
    (hFw : F.b.written = false) (hFs : F.b.skip = false) (hst : F.b.start = t0)
    (hp : ∀ e ∈ p, e.time < t0)
    (hWE : ∀ e ∈ WE, e.time = (if inited then t0 - 1 else t0 + 1))
    (hlow : ∀ g ∈ fs, g.b.start + 1 < t0) (ht0 : 0 < t0) :
    owed (F :: fs) (p ++ WE) = owed fs p ++
      (if inited then WE.map .event ++ ([entryOut F] ++ (entryEvs F).map .event)
       else [entryOut F] ++ (entryEvs F).map .event ++ WE.map .event) := by
  have hcond : ∀ e ∈ WE, ∀ g ∈ fs, ¬ e.time < g.b.start := by
    intro e he g hg
    have h1 := hWE e he
    have h2 := hlow g hg
    cases inited
    · simp only [Bool.false_eq_true, ↓reduceIte] at h1; omega
    · simp only [↓reduceIte] at h1; omega
  have hleft : ∀ e ∈ (flushBelowE fs p).2.1, e.time < t0 := fun e he => hp e (flushBelowE_left_mem fs p e he)
  unfold owed
  simp only [flushBelowE, hFw, hFs, Bool.false_eq_true, ↓reduceIte, recEntry, hst]
  rw [flushBelowE_append fs p WE hcond]
  simp only
  cases inited
  · -- first observation: the events carry t0 + 1 and stay pending
    have hge : ∀ e ∈ WE, ¬ e.time < t0 := by
      intro e he
      have h1 := hWE e he
      simp only [Bool.false_eq_true, ↓reduceIte] at h1
      omega
    rw [takeAsync_all_stop _ WE t0 hleft hge]
    simp
  · have hall : ∀ e ∈ (flushBelowE fs p).2.1 ++ WE, e.time < t0 := by
      intro e he
      simp only [List.mem_append] at he
      rcases he with he | he
      · exact hleft e he
      · have h1 := hWE e he
        simp only [↓reduceIte] at h1
        omega
    rw [takeAsync_all _ t0 hall]
    simp


/-- record_trace_data at the exit hook: everything owed, the exit hook's watch events, its frame
    events, EXIT; nothing stays pending -/
theorem recordTraceE_exit_W (cfg : ECfg) (retv : Bool) (X : EFrame) (rest : List EFrame) (P WX : List Ev) (t1 : Nat)
    (hns : NoSkipE rest) (hnr : X.b.norecord = false) (hdis : X.b.disabled = false)
    (hend : X.b.endT = t1) (ht1 : t1 ≠ 0)
    (hP : ∀ e ∈ P, e.time < t1) (hWX : ∀ e ∈ WX, e.time < t1)
    (hlow : ∀ e ∈ WX, ∀ g ∈ X :: rest, ¬ e.time < g.b.start) :
    (recordTraceE cfg retv (X :: rest) (P ++ WX)).2.2 =
      owed (X :: rest) P ++ WX.map .event ++
        ((exitEvs X).map .event ++ [.record (exitRec X.b) (retPayload cfg retv X)]) ∧
    (recordTraceE cfg retv (X :: rest) (P ++ WX)).2.1 = [] ∧
    (recordTraceE cfg retv (X :: rest) (P ++ WX)).1.tail = (if X.b.written then rest else markToE rest) := by
  have he : (X.b.endT != 0) = true := by simp [hend, ht1]
  have hsk : X.b.skip = false := by simp [Frame.skip, hnr, hdis]
  have hlr : ∀ e ∈ WX, ∀ g ∈ rest, ¬ e.time < g.b.start := fun e he g hg => hlow e he g (by simp [hg])
  have hlx : ∀ e ∈ WX, ¬ e.time < X.b.start := fun e he => hlow e he X (by simp)
  cases hw : X.b.written
  · -- ENTRY still owed
    have hfr := flushBelowE_frames rest hns
    have hleft : ∀ e ∈ (takeAsync (flushBelowE rest P).2.1 X.b.start).2 ++ WX, e.time < t1 := by
      intro e he
      simp only [List.mem_append] at he
      rcases he with he | he
      · exact hP e (flushBelowE_left_mem rest P e (takeAsync_left_mem _ _ e he))
      · exact hWX e he
    simp only [recordTraceE, hw, hsk, Bool.not_false, Bool.and_self, ↓reduceIte, he, Bool.false_eq_true, recEntry,
      recExit, hend, owed, flushBelowE]
    rw [flushBelowE_append rest P WX hlr]
    simp only [takeAsync_append_ge _ WX X.b.start hlx, takeAsync_all _ t1 hleft, hfr]
    simp [ht1]
  · have hall : ∀ e ∈ P ++ WX, e.time < t1 := by
      intro e he
      simp only [List.mem_append] at he
      rcases he with he | he
      · exact hP e he
      · exact hWX e he
    simp only [recordTraceE, hw, ↓reduceIte, Bool.not_true, Bool.false_and, Bool.false_eq_true, he, recExit, hend,
      takeAsync_all _ t1 hall, owed, flushBelowE]
    simp [ht1]

end Uft.Events
