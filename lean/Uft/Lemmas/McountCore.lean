import Uft.Model.CallTree
/- The part of the thread state that decides which calls are selected
   ("filter state"), as an abstraction of `St`; entry/exit hooks act on it by
   `entryCore`/`exitCore`, and `exitCore (entryCore c) = c`. Used by Props/C05. -/
set_option linter.unusedSimpArgs false
namespace Uft.Mcount

/-- the fields of a frame that the exit hook uses to restore the filter state -/
structure CoreF where
  norecord : Bool
  filtered : Bool
  notrace : Bool
  sDepth : Nat
  sMaxDepth : Nat
  sTime : Nat
  sSize : Nat
  deriving DecidableEq

def eraseSv (f : Filt) : Filt :=
  { f with svDepth := 0, svMaxDepth := 0, svTime := 0, svSize := 0 }

structure Core where
  filt : Filt            -- with the scratch copies (sv*) erased
  recordIdx : Nat
  over : Nat
  frames : List CoreF
  deriving DecidableEq

def coreF (f : Frame) : CoreF :=
  { norecord := f.norecord, filtered := f.filtered, notrace := f.notrace,
    sDepth := f.sDepth, sMaxDepth := f.sMaxDepth, sTime := f.sTime, sSize := f.sSize }

def core (s : St) : Core :=
  { filt := eraseSv s.filt, recordIdx := s.recordIdx, over := s.over, frames := s.frames.map coreF }

def trigFiltIf (early : Bool) (tr : Trigger) (f : Filt) : Filt := if early then f else trigFilt tr f

def bumpDepth (isIn : Bool) (f : Filt) : Filt := if isIn then { f with depth := f.depth + 1 } else f

/-- effect of the cygprof entry hook on the filter state -/
def entryCore (cfg : Cfg) (addr : Nat) (c : Core) : Core :=
  if c.frames.length + c.over ≥ cfg.maxStack then { c with over := c.over + 1 } else
  if c.filt.outCount > 0 then
    -- FILTER_OUT before any trigger is looked at
    { c with frames := { norecord := true, filtered := false, notrace := false,
                         sDepth := c.filt.depth, sMaxDepth := c.filt.maxDepth,
                         sTime := c.filt.time, sSize := c.filt.size } :: c.frames }
  else
  let tr := cfg.trig addr
  let f1 := matchFilt tr c.filt
  let early := earlyOut cfg tr c.filt
  let f3 := trigFiltIf early tr f1
  let isIn := !early && !(f3.depth ≥ depthLimit cfg tr c.filt)
  let f4 := bumpDepth isIn f3
  let nr := !isIn || f4.outCount > 0 || (f4.inCount = 0 && cfg.optIn) ||
            (f4.size > 0 && cfg.fsize addr < f4.size)
  { filt := f4, recordIdx := if nr then c.recordIdx else c.recordIdx + 1, over := c.over,
    frames := { norecord := nr, filtered := tr.filter == some true, notrace := tr.filter == some false,
                sDepth := c.filt.depth, sMaxDepth := c.filt.maxDepth,
                sTime := c.filt.time, sSize := c.filt.size } :: c.frames }

/-- effect of the exit hook on the filter state -/
def exitCore (c : Core) : Core :=
  if c.over > 0 then { c with over := c.over - 1 } else
  match c.frames with
  | [] => c
  | f :: rest =>
    { filt := { c.filt with
        inCount := if f.filtered then c.filt.inCount - 1 else c.filt.inCount,
        outCount := if !f.filtered && f.notrace then c.filt.outCount - 1 else c.filt.outCount,
        depth := f.sDepth, maxDepth := f.sMaxDepth, time := f.sTime, size := f.sSize },
      recordIdx := if f.norecord then c.recordIdx else c.recordIdx - 1,
      over := c.over, frames := rest }

/-- `over` counts calls beyond a full shadow stack -/
def Core.WF (cfg : Cfg) (c : Core) : Prop := c.over = 0 ∨ c.frames.length ≥ cfg.maxStack

@[simp] theorem matchFilt_counts (tr : Trigger) (f : Filt) :
    (matchFilt tr f).inCount = (if tr.filter = some true then f.inCount + 1 else f.inCount) ∧
    (matchFilt tr f).outCount = (if tr.filter = some false then f.outCount + 1 else f.outCount) ∧
    (matchFilt tr f).maxDepth = f.maxDepth ∧ (matchFilt tr f).time = f.time ∧ (matchFilt tr f).size = f.size ∧
    (matchFilt tr f).svDepth = f.svDepth ∧ (matchFilt tr f).svMaxDepth = f.svMaxDepth ∧
    (matchFilt tr f).svTime = f.svTime ∧ (matchFilt tr f).svSize = f.svSize := by
  unfold matchFilt
  rcases tr.filter with _ | (_ | _) <;> simp

@[simp] theorem trigFilt_counts (tr : Trigger) (f : Filt) :
    (trigFilt tr f).inCount = f.inCount ∧ (trigFilt tr f).outCount = f.outCount ∧
    (trigFilt tr f).svDepth = f.svDepth ∧ (trigFilt tr f).svMaxDepth = f.svMaxDepth ∧
    (trigFilt tr f).svTime = f.svTime ∧ (trigFilt tr f).svSize = f.svSize := by
  unfold trigFilt
  cases tr.depth <;> simp

@[simp] theorem trigFiltIf_counts (e : Bool) (tr : Trigger) (f : Filt) :
    (trigFiltIf e tr f).inCount = f.inCount ∧ (trigFiltIf e tr f).outCount = f.outCount ∧
    (trigFiltIf e tr f).svDepth = f.svDepth ∧ (trigFiltIf e tr f).svMaxDepth = f.svMaxDepth ∧
    (trigFiltIf e tr f).svTime = f.svTime ∧ (trigFiltIf e tr f).svSize = f.svSize := by
  unfold trigFiltIf; cases e <;> simp

@[simp] theorem bumpDepth_fields (b : Bool) (f : Filt) :
    (bumpDepth b f).inCount = f.inCount ∧ (bumpDepth b f).outCount = f.outCount ∧
    (bumpDepth b f).maxDepth = f.maxDepth ∧ (bumpDepth b f).time = f.time ∧ (bumpDepth b f).size = f.size ∧
    (bumpDepth b f).svDepth = f.svDepth ∧ (bumpDepth b f).svMaxDepth = f.svMaxDepth ∧
    (bumpDepth b f).svTime = f.svTime ∧ (bumpDepth b f).svSize = f.svSize := by
  unfold bumpDepth; cases b <;> simp

theorem filt_ext (a b : Filt) (h1 : a.inCount = b.inCount) (h2 : a.outCount = b.outCount)
    (h3 : a.depth = b.depth) (h4 : a.maxDepth = b.maxDepth) (h5 : a.time = b.time) (h6 : a.size = b.size)
    (h7 : a.svDepth = b.svDepth) (h8 : a.svMaxDepth = b.svMaxDepth) (h9 : a.svTime = b.svTime)
    (h10 : a.svSize = b.svSize) : a = b := by
  cases a; cases b; simp_all

/-- The exit hook undoes exactly what the entry hook did to the filter state. -/
theorem exitCore_entryCore (cfg : Cfg) (addr : Nat) (c : Core) (hwf : c.WF cfg) :
    exitCore (entryCore cfg addr c) = c := by
  unfold entryCore
  split
  · simp [exitCore]
  · rename_i hidx
    have ho : c.over = 0 := by
      rcases hwf with h | h
      · exact h
      · omega
    obtain ⟨filt, recordIdx, over, frames⟩ := c
    simp only at ho
    subst ho
    split
    · simp [exitCore]
    · rename_i hout
      simp only at hout
      have hout0 : filt.outCount = 0 := by omega
      simp only [exitCore, Nat.lt_irrefl, ↓reduceIte]
      generalize cfg.trig addr = tr
      congr 1
      · apply filt_ext <;> simp [hout0]
        · rcases tr.filter with _ | (_ | _) <;> simp
        · rcases tr.filter with _ | (_ | _) <;> simp
      · split <;> simp

theorem entryCore_wf (cfg : Cfg) (addr : Nat) (c : Core) (hwf : c.WF cfg) :
    (entryCore cfg addr c).WF cfg := by
  unfold entryCore Core.WF at *
  split
  · rename_i h
    rcases hwf with h0 | h0
    · right; simp only; omega
    · right; exact h0
  · rename_i h
    have ho : c.over = 0 := by rcases hwf with h0 | h0 <;> omega
    split <;> (left; simp [ho])

theorem flushBelow_core (fs : List Frame) : (flushBelow fs).1.map coreF = fs.map coreF := by
  induction fs with
  | nil => rfl
  | cons f r ih =>
    simp only [flushBelow]
    split
    · rfl
    · split <;> simp [ih, coreF]

theorem recordTrace_core (fs : List Frame) : (recordTrace fs).1.map coreF = fs.map coreF := by
  cases fs with
  | nil => rfl
  | cons top rest =>
    simp only [recordTrace]
    split <;> split <;> split <;> simp [coreF, flushBelow_core]

theorem recordTrace_length (fs : List Frame) : (recordTrace fs).1.length = fs.length := by
  have := congrArg List.length (recordTrace_core fs)
  simpa using this

/-- the exit hook acts on the filter state as `exitCore` (regular build) -/
theorem core_exit (cfg : Cfg) (hf : cfg.fast = false) (s : St) (t : Nat) :
    core (exit cfg s t) = exitCore (core s) := by
  unfold exit exitCore
  by_cases ho : s.over > 0
  · simp [ho, core]
  · have ho' : s.over = 0 := by omega
    simp only [ho, ↓reduceIte, core, ho']
    cases hfr : s.frames with
    | nil => simp [ho', hfr]
    | cons f rest =>
      have key : ∀ g : Frame, coreF g = coreF f →
          ((recordTrace (g :: rest)).1.tail).map coreF = rest.map coreF := by
        intro g hg
        have h := recordTrace_core (g :: rest)
        cases hr : (recordTrace (g :: rest)).1 with
        | nil => simp [hr] at h
        | cons a b => simp [hr] at h ⊢; exact h.2
      have hc1 : coreF { f with endT := t } = coreF f := rfl
      have key2 := key { f with endT := t } hc1
      have key3 := key f rfl
      simp only [List.map_cons, exitFilterRecord, hf]
      by_cases hcn : (f.cyg && f.norecord) = true
      · simp only [hcn, ↓reduceIte]
        have hn : f.norecord = true := by simp at hcn; exact hcn.2
        simp [hn, coreF, ho', eraseSv]
      · simp only [hcn]
        by_cases hn : f.norecord = true
        · simp [hn, coreF, ho', eraseSv]
        · simp only [Bool.not_eq_true] at hn
          simp only [hn, Bool.false_eq_true, ↓reduceIte]
          simp only [apply_ite St.filt, apply_ite St.recordIdx, apply_ite St.frames, apply_ite St.over,
            apply_ite List.tail, apply_ite (List.map coreF), apply_ite Filt.inCount, apply_ite Filt.outCount,
            apply_ite Filt.depth, apply_ite Filt.maxDepth, apply_ite Filt.time, apply_ite Filt.size,
            List.tail_cons, key2, ite_self]
          simp [coreF, ho', hn, eraseSv]
          intro _ _
          rw [recordTrace_core]; rfl

/-- the flush at the TRACE_OFF update (repair of F-C07-TRACEOFF-FLUSH) marks frames written: invisible
    for the filter state -/
@[simp] theorem traceOffFlush_coreF (cfg : Cfg) (s : St) (tr : Trigger) :
    (traceOffFlush cfg s tr).frames.map coreF = s.frames.map coreF := by
  rw [traceOffFlush_frames]; split
  · exact recordTrace_core _
  · rfl

@[simp] theorem traceOffFlush_length (cfg : Cfg) (s : St) (tr : Trigger) :
    (traceOffFlush cfg s tr).frames.length = s.frames.length := by
  rw [traceOffFlush_frames]; split
  · exact recordTrace_length _
  · rfl

@[simp] theorem traceOffFlush_core (cfg : Cfg) (s : St) (tr : Trigger) : core (traceOffFlush cfg s tr) = core s := by
  simp [core]

theorem checkRstack_fst (cfg : Cfg) (s : St) :
    (checkRstack cfg s).1 = decide (s.frames.length + s.over ≥ cfg.maxStack) := by
  unfold checkRstack St.idx
  split <;> (try split) <;> simp_all

theorem checkRstack_core (cfg : Cfg) (s : St) : core (checkRstack cfg s).2 = core s := by
  unfold checkRstack
  split
  · split
    · simp [core, recordTrace_core]
    · rfl
  · rfl

@[simp] theorem eraseSv_fields (f : Filt) :
    (eraseSv f).inCount = f.inCount ∧ (eraseSv f).outCount = f.outCount ∧ (eraseSv f).depth = f.depth ∧
    (eraseSv f).maxDepth = f.maxDepth ∧ (eraseSv f).time = f.time ∧ (eraseSv f).size = f.size := by
  simp [eraseSv]

@[simp] theorem eraseSv_saveFilt (f : Filt) : eraseSv (saveFilt f) = eraseSv f := by
  simp [eraseSv, saveFilt]

@[simp] theorem saveFilt_fields (f : Filt) :
    (saveFilt f).inCount = f.inCount ∧ (saveFilt f).outCount = f.outCount ∧ (saveFilt f).depth = f.depth ∧
    (saveFilt f).maxDepth = f.maxDepth ∧ (saveFilt f).time = f.time ∧ (saveFilt f).size = f.size ∧
    (saveFilt f).svDepth = f.depth ∧ (saveFilt f).svMaxDepth = f.maxDepth ∧
    (saveFilt f).svTime = f.time ∧ (saveFilt f).svSize = f.size := by
  simp [saveFilt]

theorem eraseSv_matchFilt (tr : Trigger) (f : Filt) : eraseSv (matchFilt tr f) = matchFilt tr (eraseSv f) := by
  unfold matchFilt
  rcases tr.filter with _ | (_ | _) <;> simp [eraseSv]

theorem eraseSv_trigFilt (tr : Trigger) (f : Filt) : eraseSv (trigFilt tr f) = trigFilt tr (eraseSv f) := by
  unfold trigFilt
  cases tr.depth <;> simp [eraseSv]

theorem eraseSv_trigFiltIf (e : Bool) (tr : Trigger) (f : Filt) :
    eraseSv (trigFiltIf e tr f) = trigFiltIf e tr (eraseSv f) := by
  unfold trigFiltIf; cases e <;> simp [eraseSv_trigFilt]

theorem eraseSv_bumpDepth (b : Bool) (f : Filt) : eraseSv (bumpDepth b f) = bumpDepth b (eraseSv f) := by
  unfold bumpDepth; cases b <;> simp [eraseSv]

theorem earlyOut_congr (cfg : Cfg) (tr : Trigger) (f g : Filt) (h : f.inCount = g.inCount) :
    earlyOut cfg tr f = earlyOut cfg tr g := by
  simp [earlyOut, h]

theorem depthLimit_congr (cfg : Cfg) (tr : Trigger) (f g : Filt) (h : f.maxDepth = g.maxDepth) :
    depthLimit cfg tr f = depthLimit cfg tr g := by
  simp [depthLimit, h]

theorem depth_eraseSv (f : Filt) : (eraseSv f).depth = f.depth := by simp

/-- effect of mcount_entry_filter_record on the filter state (no `finish` trigger) -/
theorem core_entryFilterRecord (cfg : Cfg) (hf : cfg.fast = false) (s : St) (F : Frame) (rest : List Frame)
    (tr : Trigger) (hfin : tr.finish = false) (hfr : s.frames = F :: rest) :
    core (entryFilterRecord cfg s tr) =
      { filt := eraseSv s.filt,
        recordIdx := if (F.norecord || decide (s.filt.outCount > 0) || (decide (s.filt.inCount = 0) && cfg.optIn) ||
                          (decide (s.filt.size > 0) && decide (cfg.fsize F.addr < s.filt.size))) then s.recordIdx
                     else s.recordIdx + 1,
        over := s.over,
        frames := { norecord := (F.norecord || decide (s.filt.outCount > 0) || (decide (s.filt.inCount = 0) && cfg.optIn) ||
                          (decide (s.filt.size > 0) && decide (cfg.fsize F.addr < s.filt.size))),
                    filtered := tr.filter == some true, notrace := tr.filter == some false,
                    sDepth := s.filt.svDepth, sMaxDepth := s.filt.svMaxDepth, sTime := s.filt.svTime,
                    sSize := s.filt.svSize } :: rest.map coreF } := by
  unfold entryFilterRecord
  simp only [hfr, hf, hfin, Bool.false_eq_true, ↓reduceIte]
  generalize (F.norecord || decide (s.filt.outCount > 0) || (decide (s.filt.inCount = 0) && cfg.optIn) ||
      (decide (s.filt.size > 0) && decide (cfg.fsize F.addr < s.filt.size))) = nr
  cases nr
  · simp only [Bool.false_eq_true, ↓reduceIte]
    split
    · simp only [core, recordTrace_core]; simp [coreF]
    · simp [core, coreF]
  · simp [core, coreF]

/-- the cygprof entry hook acts on the filter state as `entryCore` (regular
    build, no `finish` trigger on the function) -/
theorem core_entry_cyg (cfg : Cfg) (hf : cfg.fast = false) (s : St) (f t0 : Nat)
    (hfin : (cfg.trig f).finish = false) :
    core (entry cfg .cyg s f t0).1 = entryCore cfg f (core s) := by
  have h1 := checkRstack_fst cfg s
  have h2 := checkRstack_core cfg s
  unfold entry entryFilterCheck entryCore
  generalize checkRstack cfg s = cr at h1 h2 ⊢
  obtain ⟨b, s'⟩ := cr
  simp only at h1 h2
  have hlen : (core s).frames.length = s.frames.length := by simp [core]
  have ho : (core s).over = s.over := rfl
  by_cases hidx : s.frames.length + s.over ≥ cfg.maxStack
  · have hb : b = true := by simp [h1, hidx]
    subst hb
    have h3 : s'.over = s.over := congrArg Core.over h2
    simp [hlen, ho, hidx]
    rw [← h2]; simp [core]; exact h3
  · have hb : b = false := by simp [h1, hidx]
    subst hb
    simp only [hlen, ho, hidx, ↓reduceIte, hf, Bool.false_eq_true]
    rw [← h2]
    have hcf : (core s').filt = eraseSv s'.filt := rfl
    have hcr : (core s').recordIdx = s'.recordIdx := rfl
    have hco : (core s').over = s'.over := rfl
    have hcfr : (core s').frames = s'.frames.map coreF := rfl
    have h3 : s'.over = s.over := congrArg Core.over h2
    have e1 : (FR.out == FR.rstack) = false := rfl
    have e2 : (FR.out == FR.in_) = false := rfl
    have e3 : (FR.in_ == FR.rstack) = false := rfl
    have e4 : (FR.in_ == FR.in_) = true := rfl
    by_cases hout : s'.filt.outCount > 0
    · simp only [hcf, eraseSv_fields, saveFilt_fields, hout, ↓reduceIte, e1, e2, Bool.false_eq_true]
      rw [core_entryFilterRecord cfg hf _ _ s'.frames {} rfl rfl]
      simp [hout, core, h3]
    · have hout0 : s'.filt.outCount = 0 := by omega
      simp only [hcf, eraseSv_fields, saveFilt_fields, hout, ↓reduceIte]
      have he : earlyOut cfg (cfg.trig f) (saveFilt s'.filt) = earlyOut cfg (cfg.trig f) (eraseSv s'.filt) :=
        earlyOut_congr _ _ _ _ (by simp)
      have hd : depthLimit cfg (cfg.trig f) (saveFilt s'.filt) = depthLimit cfg (cfg.trig f) (eraseSv s'.filt) :=
        depthLimit_congr _ _ _ _ (by simp)
      rw [he, hd]
      generalize htr : cfg.trig f = tr at hfin
      by_cases hearly : earlyOut cfg tr (eraseSv s'.filt) = true
      · simp only [hearly, ↓reduceIte, e1, e2, Bool.false_eq_true, trigFiltIf, Bool.not_true, Bool.false_and,
          bumpDepth]
        rw [core_entryFilterRecord cfg hf _ _ s'.frames tr hfin rfl]
        simp [core, eraseSv_matchFilt, h3]
      · have hearly' : earlyOut cfg tr (eraseSv s'.filt) = false := by simpa using hearly
        have key : eraseSv (trigFilt tr (matchFilt tr (saveFilt s'.filt))) =
            trigFilt tr (matchFilt tr (eraseSv s'.filt)) := by
          rw [eraseSv_trigFilt, eraseSv_matchFilt, eraseSv_saveFilt]
        have kv : (trigFilt tr (matchFilt tr (saveFilt s'.filt))).svDepth = s'.filt.depth ∧
            (trigFilt tr (matchFilt tr (saveFilt s'.filt))).svMaxDepth = s'.filt.maxDepth ∧
            (trigFilt tr (matchFilt tr (saveFilt s'.filt))).svTime = s'.filt.time ∧
            (trigFilt tr (matchFilt tr (saveFilt s'.filt))).svSize = s'.filt.size := by simp
        generalize hG : trigFilt tr (matchFilt tr (saveFilt s'.filt)) = G at key kv
        generalize hH : trigFilt tr (matchFilt tr (eraseSv s'.filt)) = H at key
        have kI : G.inCount = H.inCount := by rw [← key]; simp
        have kO : G.outCount = H.outCount := by rw [← key]; simp
        have kD : G.depth = H.depth := by rw [← key]; simp
        have kS : G.size = H.size := by rw [← key]; simp
        have kM : G.maxDepth = H.maxDepth := by rw [← key]; simp
        have kT : G.time = H.time := by rw [← key]; simp
        have kH : H.svDepth = 0 ∧ H.svMaxDepth = 0 ∧ H.svTime = 0 ∧ H.svSize = 0 := by
          rw [← key]; simp [eraseSv]
        simp only [hearly', Bool.false_eq_true, ↓reduceIte, trigFiltIf, hH, kD]
        by_cases hlim : H.depth ≥ depthLimit cfg tr (eraseSv s'.filt)
        · simp only [hlim, ↓reduceIte, e1, e2, Bool.false_eq_true, decide_true, Bool.not_true, Bool.and_false,
            bumpDepth, Bool.not_false, Bool.true_or]
          rw [core_entryFilterRecord cfg hf _ _ _ tr hfin rfl]
          simp [core, key, h3, kv]
        · simp only [hlim, ↓reduceIte, e3, e4, Bool.false_eq_true, decide_false, Bool.not_false, Bool.and_true,
            bumpDepth, Bool.not_true, Bool.false_or]
          rw [core_entryFilterRecord cfg hf _ _ _ tr hfin rfl]
          have hb : eraseSv { G with depth := H.depth + 1 } = { H with depth := H.depth + 1 } := by
            rw [← key]; simp [eraseSv]
          simp [core, hb, h3, kI, kO, kS, kv, kM, kT, kH, eraseSv]

theorem matchFilt_nofilter (tr : Trigger) (f : Filt) (h : tr.filter = none) : matchFilt tr f = f := by
  simp [matchFilt, h]

theorem trigFilt_nochange (tr : Trigger) (f : Filt) (h1 : tr.depth = none) (h2 : tr.time = none)
    (h3 : tr.size = none) : trigFilt tr f = f := by
  simp [trigFilt, h1, h2, h3]

/-- a call that the filter check rejects without its trigger having touched the
    filter state leaves the filter state as it was -/
theorem core_check_nochange (cfg : Cfg) (hf : cfg.fast = false) (s : St) (f : Nat)
    (h : (entryFilterCheck cfg s f).1 = .rstack ∨
         ((entryFilterCheck cfg s f).1 = .out ∧ (entryFilterCheck cfg s f).2.2.changesState = false)) :
    core (entryFilterCheck cfg s f).2.1 = core s := by
  have h2 := checkRstack_core cfg s
  unfold entryFilterCheck at h ⊢
  generalize checkRstack cfg s = cr at h h2 ⊢
  obtain ⟨b, s'⟩ := cr
  simp only at h h2 ⊢
  cases b
  · simp only [Bool.false_eq_true, ↓reduceIte, hf] at h ⊢
    rw [← h2]
    generalize cfg.trig f = tr at h ⊢
    have hsv : (saveFilt s'.filt).outCount = s'.filt.outCount := by simp
    rw [hsv] at h ⊢
    by_cases hout : s'.filt.outCount > 0
    · simp only [hout, ↓reduceIte]; simp [core]
    · simp only [hout, ↓reduceIte] at h ⊢
      by_cases he : earlyOut cfg tr (saveFilt s'.filt) = true
      · simp only [he, ↓reduceIte] at h ⊢
        rcases h with h | ⟨_, hch⟩
        · simp at h
        · simp only [Trigger.changesState, Bool.or_eq_false_iff, Option.isSome_eq_false_iff,
            Option.isNone_iff_eq_none] at hch
          simp [core, matchFilt_nofilter _ _ hch.1.1.1]
      · simp only [he, Bool.false_eq_true, ↓reduceIte] at h ⊢
        by_cases hd : (trigFilt tr (matchFilt tr (saveFilt s'.filt))).depth ≥ depthLimit cfg tr (saveFilt s'.filt)
        · simp only [hd, ↓reduceIte] at h ⊢
          rcases h with h | ⟨_, hch⟩
          · simp at h
          · simp only [Trigger.changesState, Bool.or_eq_false_iff, Option.isSome_eq_false_iff,
              Option.isNone_iff_eq_none] at hch
            simp [core, matchFilt_nofilter _ _ hch.1.1.1, trigFilt_nochange _ _ hch.1.1.2 hch.1.2 hch.2]
        · simp only [hd, ↓reduceIte] at h
          rcases h with h | ⟨h, _⟩ <;> simp at h
  · simp only [↓reduceIte]; exact h2

/-- when the -pg entry hook takes a call it changes the filter state exactly as the cygprof hook does -/
theorem core_entry_pg_push (cfg : Cfg) (hf : cfg.fast = false) (s : St) (f t0 : Nat)
    (hfin : (cfg.trig f).finish = false) (hpush : (entry cfg .pg s f t0).2 = true) :
    core (entry cfg .pg s f t0).1 = core (entry cfg .cyg s f t0).1 := by
  unfold entry at hpush ⊢
  generalize entryFilterCheck cfg s f = c at hpush ⊢
  obtain ⟨fr, s1, tr⟩ := c
  have htr : tr.finish = false ∨ True := Or.inr trivial
  simp only at hpush ⊢
  by_cases hr : fr = .rstack
  · subst hr; simp at hpush
  · have hr' : (fr == FR.rstack) = false := by cases fr <;> simp_all
    rw [hr'] at hpush ⊢
    simp only [Bool.false_or] at hpush ⊢
    by_cases hc : (fr != FR.in_ && !(cfg.f4fixed && tr.changesState)) = true
    · rw [if_pos hc] at hpush; simp at hpush
    · rw [if_neg hc]; rw [if_neg (by simp)]
      by_cases hfi : tr.finish = true
      · -- a finish trigger: both hooks record and finish; the filter state is the same
        simp only [entryFilterRecord, hf, hfi, Bool.false_eq_true, ↓reduceIte]
        simp only [core, recordTrace_core]
        cases fr <;> simp_all [coreF, recordTrace_core] <;> rfl
      · have hfi' : tr.finish = false := by simpa using hfi
        rw [core_entryFilterRecord cfg hf _ _ s1.frames tr hfi' rfl,
          core_entryFilterRecord cfg hf _ _ s1.frames tr hfi' rfl]
        cases fr <;> simp_all <;> rfl

/-- when the (repaired) -pg entry hook does not take a call, the filter state is untouched -/
theorem core_entry_pg_nopush (cfg : Cfg) (hf : cfg.fast = false) (hfix : cfg.f4fixed = true) (s : St)
    (f t0 : Nat) (hno : (entry cfg .pg s f t0).2 = false) :
    core (entry cfg .pg s f t0).1 = core s := by
  have key := core_check_nochange cfg hf s f
  unfold entry at hno ⊢
  generalize entryFilterCheck cfg s f = c at hno key ⊢
  obtain ⟨fr, s1, tr⟩ := c
  simp only at hno key ⊢
  by_cases hc : (fr == FR.rstack || fr != FR.in_ && !(cfg.f4fixed && tr.changesState)) = true
  · rw [if_pos hc]
    apply key
    cases fr <;> simp_all
  · rw [if_neg hc] at hno; simp at hno

end Uft.Mcount
