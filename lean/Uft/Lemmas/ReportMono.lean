/- C08 helper lemmas: non-decreasing timestamps make a forest well timed. -/
import Uft.Lemmas.ReportTree
namespace Uft.Report
open Uft.Mcount (Call Calls)

/-- the timestamps of a record stream -/
def times (rs : List Rec) : List Nat := rs.map (·.time)

/-- non-decreasing -/
def Mono (l : List Nat) : Prop := l.Pairwise (· ≤ ·)

theorem times_evCall (d f t0 t1 : Nat) (kids : Calls) :
    times (evCall d (.node f t0 t1 kids)) = t0 :: (times (evCalls (d + 1) kids) ++ [t1]) := by
  simp [times, evCall]

theorem times_evCalls_cons (d : Nat) (c : Call) (rest : Calls) :
    times (evCalls d (.cons c rest)) = times (evCall d c) ++ times (evCalls d rest) := by
  simp [times, evCalls]

/-- calls executed one after the other between `lo` and `hi` take at most `hi - lo` together -/
theorem durSum_le : ∀ (cs : Calls) (d lo hi : Nat), lo ≤ hi → Mono (times (evCalls d cs)) →
    (∀ x ∈ times (evCalls d cs), lo ≤ x ∧ x ≤ hi) → durSum cs + lo ≤ hi
  | .nil, _, lo, hi, h, _, _ => by simp [durSum]; exact h
  | .cons (.node g a b ks) rest, d, lo, hi, h, hm, hb => by
    rw [times_evCalls_cons, times_evCall] at hm hb
    unfold Mono at hm
    rw [List.pairwise_append] at hm
    obtain ⟨hm1, hm2, hm3⟩ := hm
    rw [List.pairwise_cons] at hm1
    have hab : a ≤ b := hm1.1 b (by simp)
    have hloa : lo ≤ a := (hb a (by simp)).1
    have hbhi : b ≤ hi := (hb b (by simp)).2
    have hrest : ∀ x ∈ times (evCalls d rest), b ≤ x ∧ x ≤ hi := by
      intro x hx
      exact ⟨hm3 b (by simp) x hx, (hb x (by simp [hx])).2⟩
    have ih := durSum_le rest d b hi hbhi hm2 hrest
    simp only [durSum, durI]
    omega

mutual
theorem wt_of_mono : ∀ (c : Call) (d : Nat), Mono (times (evCall d c)) →
    (∀ x ∈ times (evCall d c), x < M64) → wt c
  | .node f t0 t1 kids, d, hm, hb => by
    rw [times_evCall] at hm hb
    unfold Mono at hm
    rw [List.pairwise_cons, List.pairwise_append] at hm
    obtain ⟨hm1, hm2, _, hm4⟩ := hm
    have h01 : t0 ≤ t1 := hm1 t1 (by simp)
    have hkb : ∀ x ∈ times (evCalls (d + 1) kids), t0 ≤ x ∧ x ≤ t1 := by
      intro x hx
      exact ⟨hm1 x (by simp [hx]), hm4 x hx t1 (by simp)⟩
    have hsum := durSum_le kids (d + 1) t0 t1 h01 hm2 hkb
    simp only [wt]
    refine ⟨h01, hb t1 (by simp), by omega, ?_⟩
    exact wtL_of_mono kids (d + 1) hm2 (fun x hx => hb x (by simp [hx]))
theorem wtL_of_mono : ∀ (cs : Calls) (d : Nat), Mono (times (evCalls d cs)) →
    (∀ x ∈ times (evCalls d cs), x < M64) → wtL cs
  | .nil, _, _, _ => by simp [wtL]
  | .cons c rest, d, hm, hb => by
    rw [times_evCalls_cons] at hm hb
    unfold Mono at hm
    rw [List.pairwise_append] at hm
    simp only [wtL]
    exact ⟨wt_of_mono c d hm.1 (fun x hx => hb x (by simp [hx])),
           wtL_of_mono rest d hm.2.1 (fun x hx => hb x (by simp [hx]))⟩
end

end Uft.Report
