import Uft.Model.Pattern
/- C14 helper lemmas about the pattern-list fold. -/
namespace Uft.Pattern

/-- a "keep the last hit" fold is the last element of the filtered list -/
theorem decide_foldl (f : Patt → Bool) (ps : List Patt) (acc : Option Bool) :
    ps.foldl (fun ret p => if f p then some p.positive else ret) acc =
      match (ps.filter f).getLast? with
      | some p => some p.positive
      | none => acc := by
  induction ps generalizing acc with
  | nil => simp
  | cons p ps ih =>
    simp only [List.foldl_cons, ih, List.filter_cons]
    by_cases hp : f p
    · simp only [hp, if_true, List.getLast?_cons]
      cases h : (ps.filter f).getLast? <;> simp
    · simp [hp]

theorem decidePatch_eq (M : Nat → String → Bool) (ps : List Patt) (lib : String)
    (so : Option String) (s : String) :
    decidePatch M ps lib so s = ((ps.filter (applies M lib so s)).getLast?).map (·.positive) := by
  unfold decidePatch
  rw [decide_foldl]
  cases (ps.filter (applies M lib so s)).getLast? <;> rfl

end Uft.Pattern
