import Uft.Model.Fstack
/- C07 helper lemmas, part 2: the look-ahead of get_task_ustack on the eager trace of a
   call forest keeps exactly `pruneCalls`. -/
set_option linter.unusedSimpArgs false
set_option linter.unusedVariables false
namespace Uft.Fstack
open Uft.Mcount (Rec Trigger Call Calls evCall evCalls)

mutual
  /-- clock readings are ordered: every call returns no earlier than it was entered -/
  def Call.ordered : Call → Prop
    | .node _ t0 t1 kids => t0 ≤ t1 ∧ Calls.ordered kids
  def Calls.ordered : Calls → Prop
    | .nil => True
    | .cons x rest => Call.ordered x ∧ Calls.ordered rest
end

def NoRange (c : RCfg) : Prop := c.rangeStart = 0 ∧ c.rangeStop = 0

theorem inRange_of_noRange (c : RCfg) (h : NoRange c) (t : Nat) : inRange c t = true := by
  simp [inRange, h.1, h.2]

def laRun (c : RCfg) (s : LA) (rs : List Rec) : LA := rs.foldl (laStep c) s

theorem laRun_append (c : RCfg) (s : LA) (a b : List Rec) : laRun c s (a ++ b) = laRun c (laRun c s a) b := by
  simp [laRun, List.foldl_append]

theorem laRun_cons (c : RCfg) (s : LA) (r : Rec) (rs : List Rec) : laRun c s (r :: rs) = laRun c (laStep c s r) rs := rfl

theorem laRun_nil (c : RCfg) (s : LA) : laRun c s [] = s := rfl

/-- the state after a sub-forest: untouched if nothing of it stays, else everything held so far
    and the kept records have been handed over -/
def laAfter (s : LA) (nothing : Bool) (evs : List Rec) : LA :=
  if nothing then s else { held := [], stack := s.stack, out := s.out ++ s.held.reverse ++ evs }

theorem popTF_keep (d : Nat) (stk : List TF) (h : ∀ t ∈ stk, t.depth < d) : popTF d stk = stk := by
  cases stk with
  | nil => rfl
  | cons t rest =>
    have := h t (by simp)
    simp [popTF]; omega

theorem evCalls_isNil (d : Nat) (xs : Calls) (h : Calls.isNil xs = true) : evCalls d xs = [] := by
  cases xs with
  | nil => rfl
  | cons x r => simp [Calls.isNil] at h

theorem isNil_cons (a : Call) (b : Calls) : Calls.isNil (.cons a b) = false := rfl

theorem la_ext (a b : LA) (h1 : a.held = b.held) (h2 : a.stack = b.stack) (h3 : a.out = b.out) : a = b := by
  cases a; cases b; simp_all

mutual
theorem la_call (c : RCfg) (hr : NoRange c) : ∀ (x : Call) (d : Nat) (s : LA), Call.ordered x →
    (∀ t ∈ s.stack, t.depth < d) →
    laRun c s (evCall d x) =
      (match pruneCall c false (curThr c s.stack) x with
       | some x' => laAfter s false (evCall d x')
       | none => s)
  | .node f t0 t1 kids, d, s, ho, hst => by
    simp only [Call.ordered] at ho
    have hE : laStep c s { time := t0, type := 0, depth := d, addr := f } =
        { held := { time := t0, type := 0, depth := d, addr := f } :: s.held,
          stack := if (c.trig f).time.isSome then
                     { depth := d, thr := (c.trig f).time.getD (curThr c s.stack) } :: s.stack else s.stack,
          out := s.out } := by
      simp [laStep, inRange_of_noRange c hr]
    generalize hthr : (c.trig f).time.getD (curThr c s.stack) = thr' at hE
    generalize hs1 : laStep c s { time := t0, type := 0, depth := d, addr := f } = s1 at hE
    have hcur : curThr c s1.stack = thr' := by
      rw [hE]; simp only
      cases ht : (c.trig f).time with
      | none => simp [ht] at hthr ⊢; exact hthr
      | some v => simp [curThr]
    have hst1 : ∀ t ∈ s1.stack, t.depth < d + 1 := by
      rw [hE]; simp only
      split
      · intro t ht
        simp only [List.mem_cons] at ht
        rcases ht with rfl | ht
        · simp
        · have := hst t ht; omega
      · intro t ht; have := hst t ht; omega
    have hpop : popTF d s1.stack = s.stack := by
      rw [hE]; simp only
      split
      · simp [popTF]
      · exact popTF_keep d s.stack hst
    have hk := la_calls c hr kids (d + 1) s1 ho.2 hst1
    rw [hcur] at hk
    simp only [evCall, laRun_append, List.singleton_append, laRun_cons, laRun_nil, List.cons_append,
      List.nil_append, hs1, hk, pruneCall, hthr]
    generalize pruneCalls c false thr' kids = ks
    have hthr2 : ∀ s2 : LA, s2.stack = s1.stack → (c.trig f).time.getD (curThr c s2.stack) = thr' := by
      intro s2 h2
      rw [h2, hcur]
      cases ht : (c.trig f).time with
      | none => rfl
      | some v => simp [ht] at hthr ⊢; exact hthr
    have hdelta : delta { time := t1, type := 1, depth := d, addr := f } { time := t0, type := 0, depth := d, addr := f } = t1 - t0 := by
      simp [delta, ho.1]
    cases hnil : Calls.isNil ks with
    | true =>
      -- nothing below stays: the ENTRY is still the newest held record
      simp only [laAfter, ↓reduceIte, Bool.not_true, Bool.or_false]
      have hX : laStep c s1 { time := t1, type := 1, depth := d, addr := f } =
          (if (decide (t1 - t0 < thr') || (c.callerMode && !(c.trig f).caller)) then
             (if (c.trig f).trace then
                ({ held := [], stack := s.stack,
                   out := s.out ++ ({ time := t1, type := 1, depth := d, addr := f } :: s1.held).reverse } : LA)
              else { s1 with held := s.held, stack := s.stack })
           else { held := [], stack := s.stack,
                  out := s.out ++ ({ time := t1, type := 1, depth := d, addr := f } :: s1.held).reverse }) := by
        have h1 : s1.held = { time := t0, type := 0, depth := d, addr := f } :: s.held := by rw [hE]
        have h3 : s1.out = s.out := by rw [hE]
        simp only [laStep, inRange_of_noRange c hr, Bool.not_true, Bool.false_eq_true, ↓reduceIte, or_true,
          hthr2 s1 rfl, hpop, h1, lastEntry, hdelta, LA.flush, dropToEntry, h3]
        simp
      rw [hX]
      have h1 : s1.held = { time := t0, type := 0, depth := d, addr := f } :: s.held := by rw [hE]
      have h3 : s1.out = s.out := by rw [hE]
      have hev : evCalls (d + 1) ks = [] := evCalls_isNil _ _ hnil
      by_cases hdur : t1 - t0 < thr'
      · have hkd : keepDur false (t1 - t0) thr' = false := by simp [keepDur]; omega
        simp only [hdur, decide_true, Bool.true_or, ↓reduceIte, hkd, Bool.false_and, Bool.false_or]
        cases (c.trig f).trace with
        | true => simp [evCall, hev, h1, List.append_assoc]
        | false =>
          simp only [Bool.false_eq_true, ↓reduceIte]
          apply la_ext <;> simp [h3]
      · have hkd : keepDur false (t1 - t0) thr' = true := by simp [keepDur]; omega
        simp only [hdur, decide_false, Bool.false_or, hkd, Bool.true_and]
        cases hcm : (c.callerMode && !(c.trig f).caller) with
        | true =>
          have : (!c.callerMode || (c.trig f).caller) = false := by
            cases hc1 : c.callerMode <;> cases hc2 : (c.trig f).caller <;> simp_all
          simp only [↓reduceIte, this, Bool.false_or]
          cases (c.trig f).trace with
          | true => simp [evCall, hev, h1, List.append_assoc]
          | false =>
            simp only [Bool.false_eq_true, ↓reduceIte]
            apply la_ext <;> simp [h3]
        | false =>
          have : (!c.callerMode || (c.trig f).caller) = true := by
            cases hc1 : c.callerMode <;> cases hc2 : (c.trig f).caller <;> simp_all
          simp [this, evCall, hev, h1, List.append_assoc]
    | false =>
      -- something below stayed: the list was handed over, the EXIT finds no ENTRY in it
      simp only [laAfter, Bool.false_eq_true, ↓reduceIte, Bool.not_false, Bool.or_true]
      have h1 : s1.held = { time := t0, type := 0, depth := d, addr := f } :: s.held := by rw [hE]
      have h3 : s1.out = s.out := by rw [hE]
      simp [laStep, inRange_of_noRange c hr, lastEntry, LA.flush, hpop, evCall, h1, h3, List.append_assoc]
theorem la_calls (c : RCfg) (hr : NoRange c) : ∀ (xs : Calls) (d : Nat) (s : LA), Calls.ordered xs →
    (∀ t ∈ s.stack, t.depth < d) →
    laRun c s (evCalls d xs) =
      laAfter s (Calls.isNil (pruneCalls c false (curThr c s.stack) xs))
        (evCalls d (pruneCalls c false (curThr c s.stack) xs))
  | .nil, d, s, _, _ => by simp [evCalls, laRun_nil, pruneCalls, Calls.isNil, laAfter]
  | .cons x rest, d, s, ho, hst => by
    simp only [Calls.ordered] at ho
    have hx := la_call c hr x d s ho.1 hst
    simp only [evCalls, laRun_append, hx, pruneCalls]
    cases hp : pruneCall c false (curThr c s.stack) x with
    | none =>
      simp only
      exact la_calls c hr rest d s ho.2 hst
    | some x' =>
      simp only
      have hr' := la_calls c hr rest d (laAfter s false (evCall d x')) ho.2 (by simpa [laAfter] using hst)
      rw [hr']
      have hstk : (laAfter s false (evCall d x')).stack = s.stack := by simp [laAfter]
      rw [hstk]
      rcases Bool.eq_false_or_eq_true (Calls.isNil (pruneCalls c false (curThr c s.stack) rest)) with hn | hn
      · have := evCalls_isNil d _ hn
        simp [laAfter, hn, isNil_cons, evCalls, this]
      · simp [laAfter, hn, isNil_cons, evCalls, List.append_assoc]
end

/-- the look-ahead on the eager trace of a forest -/
theorem lookahead_forest (c : RCfg) (hr : NoRange c) (xs : Calls) (ho : Calls.ordered xs) :
    lookahead c (evCalls 0 xs) = evCalls 0 (pruneCalls c false c.threshold xs) := by
  have h := la_calls c hr xs 0 {} ho (by simp)
  simp only [lookahead]
  change (laRun c {} (evCalls 0 xs)).out ++ (laRun c {} (evCalls 0 xs)).held.reverse = _
  rw [h]
  simp only [curThr]
  rcases Bool.eq_false_or_eq_true (Calls.isNil (pruneCalls c false c.threshold xs)) with hn | hn
  · simp [laAfter, hn, evCalls_isNil _ _ hn]
  · simp [laAfter, hn]

end Uft.Fstack
