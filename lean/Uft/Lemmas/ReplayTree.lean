/- C06: properly nested task streams as call trees, the per-task view of replay,
   and what replay shows for a tree. Core only. -/
import Uft.Lemmas.Replay
namespace Uft.Replay
open Uft.Merge

/-! ### call trees and their record streams -/

mutual
  /-- a completed call: function address, entry time, exit time, callees -/
  inductive Call where
    | node (addr tin tout : Nat) (kids : Calls)
  inductive Calls where
    | nil
    | cons (c : Call) (rest : Calls)
end

mutual
  /-- the records written for a call made at nesting depth `d` -/
  def recsCall (d : Nat) : Call → List Rec
    | .node a tin tout kids =>
      { time := tin, exit := false, depth := d, addr := a } :: (recsCalls (d + 1) kids ++
        [{ time := tout, exit := true, depth := d, addr := a }])
  def recsCalls (d : Nat) : Calls → List Rec
    | .nil => []
    | .cons c rest => recsCall d c ++ recsCalls d rest
end

mutual
  /-- what the property says replay must show (without folding) for a call at nesting
      depth `d` of task `i` whose display starts at offset `off`: both lines indented by
      `off + d`, the `}` line carrying `tout - tin` -/
  def shownCall (i off d : Nat) : Call → List Ev
    | .node a tin tout kids =>
      { kind := .entry, task := i, indent := off + d, fn := a, addr := a, dur := 0, time := tin } ::
        (shownCalls i off (d + 1) kids ++
        [{ kind := .exit, task := i, indent := off + d, fn := a, addr := a, dur := tout - tin, time := tout }])
  def shownCalls (i off d : Nat) : Calls → List Ev
    | .nil => []
    | .cons c rest => shownCall i off d c ++ shownCalls i off d rest
end

/-- a stream that stops with calls still open: completed calls, then optionally an open
    call (address, entry time) whose body is again such a stream -/
inductive OpenChain where
  | done (f : Calls)
  | call (f : Calls) (addr tin : Nat) (inner : OpenChain)

def recsOpen (d : Nat) : OpenChain → List Rec
  | .done f => recsCalls d f
  | .call f a tin inner =>
    recsCalls d f ++ ({ time := tin, exit := false, depth := d, addr := a } :: recsOpen (d + 1) inner)

/-- addresses of the calls left open, outermost first -/
def opens : OpenChain → List Nat
  | .done _ => []
  | .call _ a _ inner => a :: opens inner

/-! ### the per-task machine (no folding) -/

def stepNM (f : Nat → Bool) (i inh : Nat) (st : TaskSt) (r : Rec) : TaskSt × Ev :=
  if r.exit then (exitState (consume inh st r), exitEv i (consume inh st r) r)
  else (entryState f (consume inh st r) r, entryEv i (consume inh st r) r)

def runNM (f : Nat → Bool) (i inh : Nat) : TaskSt → List Rec → TaskSt × List Ev
  | st, [] => (st, [])
  | st, r :: rs =>
    ((runNM f i inh (stepNM f i inh st r).1 rs).1, (stepNM f i inh st r).2 :: (runNM f i inh (stepNM f i inh st r).1 rs).2)

theorem runNM_append (f : Nat → Bool) (i inh : Nat) (st : TaskSt) (a b : List Rec) :
    runNM f i inh st (a ++ b) =
      ((runNM f i inh (runNM f i inh st a).1 b).1, (runNM f i inh st a).2 ++ (runNM f i inh (runNM f i inh st a).1 b).2) := by
  induction a generalizing st with
  | nil => simp [runNM]
  | cons r rs ih => simp [runNM, ih]

theorem stepNM_started (f : Nat → Bool) (i inh : Nat) (st : TaskSt) (r : Rec) :
    (stepNM f i inh st r).1.started = true := by
  unfold stepNM; split <;> rfl

theorem stepNM_parent (f : Nat → Bool) (i inh : Nat) (st : TaskSt) (r : Rec) :
    (stepNM f i inh st r).1.parent = st.parent := by
  unfold stepNM; split <;> rfl

theorem stepNM_of_started {f : Nat → Bool} {i inh : Nat} {st : TaskSt} {r : Rec} (h : st.started = true) :
    stepNM f i inh st r = stepNM f i 0 st r := by
  simp [stepNM, consume_of_started (inh := inh) h]

theorem runNM_of_started {f : Nat → Bool} {i inh : Nat} {st : TaskSt} (rs : List Rec) (h : st.started = true) :
    runNM f i inh st rs = runNM f i 0 st rs := by
  induction rs generalizing st with
  | nil => simp [runNM]
  | cons r rs ih =>
    simp only [runNM, stepNM_of_started (inh := inh) h]
    rw [ih (stepNM_started f i 0 st r)]

/-! ### replay without folding, seen from one task -/

/-- the records of task `i` in a merged stream -/
def proj (i : Nat) (m : List (Nat × Rec)) : List Rec := (m.filter (fun p => p.1 == i)).map (·.2)

/-- the lines of task `i` -/
def linesOf (i : Nat) (evs : List Ev) : List Ev := evs.filter (fun e => e.task == i)

theorem replay_false_cons (f : Nat → Bool) (g : G) (j : Nat) (r : Rec) (rest : List (Nat × Rec)) :
    replay false f g ((j, r) :: rest) =
      ((replay false f (upd g j (stepNM f j (inhOf g j) (g j) r).1) rest).1,
       (stepNM f j (inhOf g j) (g j) r).2 :: (replay false f (upd g j (stepNM f j (inhOf g j) (g j) r).1) rest).2) := by
  by_cases h : r.exit = true
  · rw [replay_cons_exit rest h]; simp [stepNM, h]
  · have h : r.exit = false := by simpa using h
    rw [replay_cons_entry rest h (Or.inl rfl)]; simp [stepNM, h]

theorem stepNM_task (f : Nat → Bool) (j inh : Nat) (st : TaskSt) (r : Rec) : (stepNM f j inh st r).2.task = j := by
  unfold stepNM; split <;> rfl

/-- once task `i` has started, what replay shows for it and where it ends depends only on
    its own records -/
theorem replay_false_proj_started (f : Nat → Bool) (i : Nat) :
    ∀ (m : List (Nat × Rec)) (g : G), (g i).started = true →
      linesOf i (replay false f g m).2 = (runNM f i 0 (g i) (proj i m)).2 ∧
      (replay false f g m).1 i = (runNM f i 0 (g i) (proj i m)).1 := by
  intro m
  induction m with
  | nil => intro g _; simp [replay, linesOf, proj, runNM]
  | cons p rest ih =>
    intro g hs
    obtain ⟨j, r⟩ := p
    rw [replay_false_cons]
    by_cases hj : j = i
    · subst hj
      have h1 : (upd g j (stepNM f j (inhOf g j) (g j) r).1 j).started = true := by
        simp [stepNM_started]
      have := ih (upd g j (stepNM f j (inhOf g j) (g j) r).1) h1
      simp only [upd_same] at this
      simp only [linesOf, List.filter_cons, stepNM_task, beq_self_eq_true, if_true, proj, List.map_cons, runNM]
      simp only [linesOf, proj] at this
      rw [stepNM_of_started (inh := inhOf g j) hs] at this ⊢
      exact ⟨by rw [this.1], this.2⟩
    · have hne : (j == i) = false := by simp [hj]
      have hne' : i ≠ j := fun e => hj e.symm
      have h1 : (upd g j (stepNM f j (inhOf g j) (g j) r).1 i).started = true := by
        rw [upd_other _ hne']; exact hs
      have := ih (upd g j (stepNM f j (inhOf g j) (g j) r).1) h1
      rw [upd_other _ hne'] at this
      simp only [linesOf, List.filter_cons, stepNM_task, hne, proj]
      simp only [linesOf, proj] at this
      simpa using this

/-- in general the only outside influence is the display depth inherited at the task's first record -/
theorem replay_false_proj (f : Nat → Bool) (i : Nat) :
    ∀ (m : List (Nat × Rec)) (g : G),
      ∃ inh, (linesOf i (replay false f g m).2 = (runNM f i inh (g i) (proj i m)).2 ∧
        (replay false f g m).1 i = (runNM f i inh (g i) (proj i m)).1) ∧
        ((g i).parent = none → inh = 0) := by
  intro m
  induction m with
  | nil => intro g; exact ⟨0, by simp [replay, linesOf, proj, runNM]⟩
  | cons p rest ih =>
    intro g
    obtain ⟨j, r⟩ := p
    rw [replay_false_cons]
    by_cases hj : j = i
    · subst hj
      refine ⟨inhOf g j, ?_, ?_⟩
      · have h1 : (upd g j (stepNM f j (inhOf g j) (g j) r).1 j).started = true := by
          simp [stepNM_started]
        have := replay_false_proj_started f j rest (upd g j (stepNM f j (inhOf g j) (g j) r).1) h1
        simp only [upd_same] at this
        simp only [linesOf, List.filter_cons, stepNM_task, beq_self_eq_true, if_true, proj, List.map_cons, runNM]
        simp only [linesOf, proj] at this
        rw [runNM_of_started (inh := inhOf g j) _ (stepNM_started f j (inhOf g j) (g j) r)]
        exact ⟨by rw [this.1], this.2⟩
      · intro hp; simp [inhOf, hp]
    · have hne : (j == i) = false := by simp [hj]
      have hne' : i ≠ j := fun e => hj e.symm
      obtain ⟨inh, h, h0⟩ := ih (upd g j (stepNM f j (inhOf g j) (g j) r).1)
      rw [upd_other _ hne'] at h h0
      refine ⟨inh, ?_, h0⟩
      simp only [linesOf, List.filter_cons, stepNM_task, hne, proj]
      simp only [linesOf, proj] at h
      simpa using h

/-! ### a call tree through the per-task machine -/

/-- what a run over completed calls leaves behind: display depth, stack count and the
    frames below are as before -/
structure Framed (st out : TaskSt) : Prop where
  started : out.started = true
  disp : out.disp = st.disp
  count : out.stackCount = st.stackCount
  below : ∀ k, k < st.stackCount → out.slots k = st.slots k
  parent : out.parent = st.parent

theorem Framed.refl {st : TaskSt} (h : st.started = true) : Framed st st :=
  ⟨h, rfl, rfl, fun _ _ => rfl, rfl⟩

theorem Framed.trans {a b c : TaskSt} (h1 : Framed a b) (h2 : Framed b c) : Framed a c :=
  ⟨h2.started, h2.disp.trans h1.disp, h2.count.trans h1.count,
   fun k hk => (h2.below k (by rw [h1.count]; exact hk)).trans (h1.below k hk), h2.parent.trans h1.parent⟩

/-- the state right after an ENTRY line was shown -/
theorem entry_step (f : Nat → Bool) (i : Nat) (st : TaskSt) (r : Rec) (hs : st.started = true) (hr : r.exit = false) :
    (stepNM f i 0 st r).2 =
      { kind := .entry, task := i, indent := st.disp, fn := r.addr, addr := r.addr, dur := 0, time := r.time } ∧
    (stepNM f i 0 st r).1.started = true ∧
    (stepNM f i 0 st r).1.disp = st.disp + 1 ∧
    (stepNM f i 0 st r).1.stackCount = st.stackCount + 1 ∧
    (stepNM f i 0 st r).1.slots st.stackCount = { addr := r.addr, total := r.time, valid := true } ∧
    (∀ k, k < st.stackCount → (stepNM f i 0 st r).1.slots k = st.slots k) ∧
    (stepNM f i 0 st r).1.parent = st.parent := by
  simp only [stepNM, hr, Bool.false_eq_true, if_false]
  refine ⟨?_, rfl, ?_, ?_, ?_, ?_, rfl⟩
  · simp [entryEv, consume, startTask, hs, newCount, accountSlots, hr, setSlot]
  · simp [entryState, consume, startTask, hs]
  · simp [entryState, consume, startTask, hs, newCount, hr]
  · simp [entryState, consume, startTask, hs, accountSlots, hr, setSlot]
  · intro k hk
    have : k ≠ st.stackCount := by omega
    simp [entryState, consume, startTask, hs, accountSlots, hr, setSlot, this]

/-- the EXIT line of a call whose frame is on top -/
theorem exit_step (f : Nat → Bool) (i : Nat) (st : TaskSt) (x : Rec) (c a tin : Nat)
    (hs : st.started = true) (hx : x.exit = true) (hc : st.stackCount = c + 1)
    (hslot : st.slots c = { addr := a, total := tin, valid := true }) :
    (stepNM f i 0 st x).2 =
      { kind := .exit, task := i, indent := st.disp - 1, fn := x.addr, addr := a, dur := x.time - tin, time := x.time } ∧
    (stepNM f i 0 st x).1.started = true ∧
    (stepNM f i 0 st x).1.disp = st.disp - 1 ∧
    (stepNM f i 0 st x).1.stackCount = c ∧
    (∀ k, k < c → (stepNM f i 0 st x).1.slots k = st.slots k) ∧
    (stepNM f i 0 st x).1.parent = st.parent := by
  simp only [stepNM, hx, if_true]
  have h1 := consume_exit_slot hs hx hc 0
  have h2 := consume_exit_count hs hx 0
  refine ⟨?_, rfl, ?_, ?_, ?_, rfl⟩
  · simp only [exitEv, h2, hc, Nat.add_sub_cancel, h1, hslot]
    simp [consume, startTask, hs]
  · simp [exitState, consume, startTask, hs]
  · simp [exitState, h2, hc]
  · intro k hk
    have : k ≠ c := by omega
    simp [exitState, consume, startTask, hs, accountSlots, hx, hc, setSlot, this]

mutual
  theorem runNM_call (f : Nat → Bool) (i : Nat) : (c : Call) → (st : TaskSt) → (dd off d : Nat) →
      st.started = true → st.disp = off + d →
      (runNM f i 0 st (recsCall dd c)).2 = shownCall i off d c ∧ Framed st (runNM f i 0 st (recsCall dd c)).1
    | .node a tin tout kids, st, dd, off, d, hs, hd => by
      obtain ⟨e1, e2, e3, e4, e5, e6, e7⟩ :=
        entry_step f i st { time := tin, exit := false, depth := dd, addr := a } hs rfl
      have ih := runNM_calls f i kids
        (stepNM f i 0 st { time := tin, exit := false, depth := dd, addr := a }).1 (dd + 1) off (d + 1) e2
        (by rw [e3, hd]; omega)
      obtain ⟨il, ifr⟩ := ih
      have hc2 := ifr.count.trans e4
      have hslot := (ifr.below st.stackCount (by rw [e4]; omega)).trans e5
      obtain ⟨x1, x2, x3, x4, x5, x6⟩ :=
        exit_step f i _ { time := tout, exit := true, depth := dd, addr := a } st.stackCount a tin
          ifr.started rfl hc2 hslot
      simp only [recsCall, runNM, runNM_append, shownCall]
      refine ⟨?_, ?_⟩
      · rw [e1, il, x1, ifr.disp, e3, hd]
        simp
      · refine ⟨x2, ?_, x4, ?_, ?_⟩
        · rw [x3, ifr.disp, e3]; omega
        · intro k hk
          rw [x5 k hk, ifr.below k (by rw [e4]; omega), e6 k hk]
        · rw [x6, ifr.parent, e7]
  theorem runNM_calls (f : Nat → Bool) (i : Nat) : (cs : Calls) → (st : TaskSt) → (dd off d : Nat) →
      st.started = true → st.disp = off + d →
      (runNM f i 0 st (recsCalls dd cs)).2 = shownCalls i off d cs ∧ Framed st (runNM f i 0 st (recsCalls dd cs)).1
    | .nil, st, dd, off, d, hs, hd => by
      refine ⟨by simp [recsCalls, runNM, shownCalls], ?_⟩
      simp only [recsCalls, runNM]
      exact Framed.refl hs
    | .cons c rest, st, dd, off, d, hs, hd => by
      obtain ⟨l1, f1⟩ := runNM_call f i c st dd off d hs hd
      obtain ⟨l2, f2⟩ := runNM_calls f i rest (runNM f i 0 st (recsCall dd c)).1 dd off d f1.started
        (by rw [f1.disp, hd])
      simp only [recsCalls, runNM_append, shownCalls]
      exact ⟨by rw [l1, l2], f1.trans f2⟩
end

/-- a stream that stops with open calls: every open call's frame is on the stack, in order -/
theorem runNM_open (f : Nat → Bool) (i : Nat) (ch : OpenChain) :
    ∀ (st : TaskSt) (dd : Nat), st.started = true →
      (runNM f i 0 st (recsOpen dd ch)).1.stackCount = st.stackCount + (opens ch).length ∧
      (∀ k, k < st.stackCount → (runNM f i 0 st (recsOpen dd ch)).1.slots k = st.slots k) ∧
      (∀ k (h : k < (opens ch).length),
        ((runNM f i 0 st (recsOpen dd ch)).1.slots (st.stackCount + k)).addr = (opens ch)[k]) := by
  induction ch with
  | done cs =>
    intro st dd hs
    obtain ⟨_, fr⟩ := runNM_calls f i cs st dd st.disp 0 hs rfl
    simp only [recsOpen, opens, List.length_nil, Nat.add_zero]
    exact ⟨fr.count, fr.below, fun k h => absurd h (Nat.not_lt_zero k)⟩
  | call cs a tin inner ih =>
    intro st dd hs
    obtain ⟨_, fr⟩ := runNM_calls f i cs st dd st.disp 0 hs rfl
    obtain ⟨_, e2, _, e4, e5, e6, _⟩ :=
      entry_step f i (runNM f i 0 st (recsCalls dd cs)).1 { time := tin, exit := false, depth := dd, addr := a }
        fr.started rfl
    obtain ⟨i1, i2, i3⟩ := ih _ (dd + 1) e2
    simp only [recsOpen, runNM_append, runNM, opens, List.length_cons]
    rw [e4, fr.count] at i1 i2 i3
    rw [fr.count] at e5
    refine ⟨by rw [i1]; omega, ?_, ?_⟩
    · intro k hk
      rw [i2 k (by omega), e6 k (by rw [fr.count]; exact hk), fr.below k hk]
    · intro k hk
      cases k with
      | zero =>
        simp only [Nat.add_zero, List.getElem_cons_zero]
        rw [i2 _ (by omega), e5]
      | succ k =>
        have := i3 k (by simpa using hk)
        simp only [List.getElem_cons_succ]
        rw [← this]
        congr 2
        omega

/-! ### a task that starts at depth 0 (not forked) -/

/-- the fresh task, marked started -/
def TaskSt.base (parent : Option Nat) : TaskSt := { TaskSt.fresh parent with started := true }

theorem startTask_fresh (parent : Option Nat) (r : Rec) (hr : r.exit = false) (hd : r.depth = 0) :
    startTask 0 (TaskSt.fresh parent) r = TaskSt.base parent := by
  simp [startTask, TaskSt.fresh, TaskSt.base, firstCount, hr, hd]

theorem runNM_fresh_first (f : Nat → Bool) (i : Nat) (parent : Option Nat) (r : Rec) (rs : List Rec)
    (hr : r.exit = false) (hd : r.depth = 0) :
    runNM f i 0 (TaskSt.fresh parent) (r :: rs) = runNM f i 0 (TaskSt.base parent) (r :: rs) := by
  have h1 : consume 0 (TaskSt.fresh parent) r = consume 0 (TaskSt.base parent) r := by
    have hb : startTask 0 (TaskSt.base parent) r = TaskSt.base parent := startTask_started rfl
    simp only [consume, startTask_fresh parent r hr hd, hb]
    rfl
  simp only [runNM, stepNM, h1]

theorem recsCalls_head (d : Nat) (cs : Calls) :
    cs = .nil ∨ ∃ r rs, recsCalls d cs = r :: rs ∧ r.exit = false ∧ r.depth = d := by
  cases cs with
  | nil => left; rfl
  | cons c rest =>
    right
    cases c with
    | node a tin tout kids => exact ⟨_, _, by simp only [recsCalls, recsCall, List.cons_append]; rfl, rfl, rfl⟩

theorem recsOpen_head (d : Nat) (ch : OpenChain) :
    recsOpen d ch = [] ∨ ∃ r rs, recsOpen d ch = r :: rs ∧ r.exit = false ∧ r.depth = d := by
  cases ch with
  | done cs =>
    rcases recsCalls_head d cs with h | h
    · left; subst h; simp [recsOpen, recsCalls]
    · right; simpa [recsOpen] using h
  | call cs a tin inner =>
    right
    rcases recsCalls_head d cs with h | ⟨r, rs, h, h1, h2⟩
    · subst h; exact ⟨_, _, by simp only [recsOpen, recsCalls, List.nil_append]; rfl, rfl, rfl⟩
    · exact ⟨r, rs ++ _, by simp only [recsOpen, h, List.cons_append]; rfl, h1, h2⟩

/-- a task whose records are a forest of completed calls starting at depth 0 -/
theorem runNM_root_calls (f : Nat → Bool) (i : Nat) (parent : Option Nat) (cs : Calls) :
    (runNM f i 0 (TaskSt.fresh parent) (recsCalls 0 cs)).2 = shownCalls i 0 0 cs := by
  rcases recsCalls_head 0 cs with h | ⟨r, rs, h, h1, h2⟩
  · subst h; simp [recsCalls, runNM, shownCalls]
  · rw [h, runNM_fresh_first f i parent r rs h1 h2, ← h]
    exact (runNM_calls f i cs (TaskSt.base parent) 0 0 0 rfl rfl).1

theorem runNM_root_open (f : Nat → Bool) (i : Nat) (parent : Option Nat) (ch : OpenChain) :
    (runNM f i 0 (TaskSt.fresh parent) (recsOpen 0 ch)).1.stackCount = (opens ch).length ∧
    (∀ k (h : k < (opens ch).length),
      ((runNM f i 0 (TaskSt.fresh parent) (recsOpen 0 ch)).1.slots k).addr = (opens ch)[k]) := by
  rcases recsOpen_head 0 ch with h | ⟨r, rs, h, h1, h2⟩
  · have ho : opens ch = [] := by
      cases ch with
      | done cs => rfl
      | call cs a tin inner => simp [recsOpen] at h
    rw [h, ho]
    simp [runNM, TaskSt.fresh]
  · rw [h, runNM_fresh_first f i parent r rs h1 h2, ← h]
    obtain ⟨a, _, c⟩ := runNM_open f i ch (TaskSt.base parent) 0 rfl
    have hb : (TaskSt.base parent).stackCount = 0 := rfl
    rw [hb] at a c
    refine ⟨by simpa using a, ?_⟩
    intro k hk
    simpa using c k hk

/-- `print_remaining_stack` for a task whose stack holds exactly the open calls `os` (none at address 0) -/
theorem remainingOf_eq {s : TaskSt} {os : List Nat} (hc : s.stackCount = os.length)
    (hs : ∀ k (h : k < os.length), (s.slots k).addr = os[k]) (hnz : ∀ a ∈ os, a ≠ 0) :
    remainingOf s = os.zipIdx.reverse.map (fun p => (p.2, p.1)) ∧
    (zeroCount s = s.stackCount ↔ os = []) := by
  have ho : openAddrs s = os := by
    apply List.ext_getElem
    · simp [openAddrs, hc]
    · intro k h1 h2
      simp [openAddrs, hs k h2]
  have hz : zeroCount s = 0 := by
    unfold zeroCount
    rw [ho]
    cases os with
    | nil => rfl
    | cons a os =>
      have : a ≠ 0 := hnz a (by simp)
      have hb : (a == 0) = false := by simp [this]
      simp [List.takeWhile, hb]
  refine ⟨by simp [remainingOf, ho, hz], ?_⟩
  rw [hz, hc]
  constructor
  · intro h; exact List.eq_nil_of_length_eq_zero h.symm
  · intro h; simp [h]

/-! ### a forked child: continues at the depth of the parent's fork() line -/

theorem runNM_fork_child (f : Nat → Bool) (i D : Nat) (parent : Option Nat) (t d a : Nat) (kids : Calls) :
    (runNM f i (D + 1) (TaskSt.fresh parent)
        ({ time := t, exit := true, depth := d, addr := a } :: recsCalls d kids)).2 =
      { kind := .exit, task := i, indent := D, fn := a, addr := 0, dur := 0, time := t } ::
        shownCalls i D 0 kids := by
  simp only [runNM]
  have hs := stepNM_started f i (D + 1) (TaskSt.fresh parent) { time := t, exit := true, depth := d, addr := a }
  have hd : (stepNM f i (D + 1) (TaskSt.fresh parent) { time := t, exit := true, depth := d, addr := a }).1.disp = D + 0 := by
    simp [stepNM, exitState, consume, startTask, TaskSt.fresh]
  rw [runNM_of_started _ hs, (runNM_calls f i kids _ d D 0 hs hd).1]
  congr 1
  simp [stepNM, exitEv, consume, startTask, TaskSt.fresh, newCount, accountSlots, firstCount, setSlot]

/-! ### `--tid`: replaying a selection of the tasks -/

theorem inhOf_congr {gA gB : G} {j : Nat} (hj : gA j = gB j)
    (hp : ∀ p, (gA j).parent = some p → gA p = gB p) : inhOf gA j = inhOf gB j := by
  unfold inhOf
  rw [← hj]
  cases h : (gA j).parent with
  | none => rfl
  | some p => simp [hp p h]

/-- replaying only the selected tasks shows, for them, what the full replay shows: provided a
    selected task's parent task is selected too (otherwise the fork depth cannot be inherited) -/
theorem replay_false_filter (f : Nat → Bool) (sel : Nat → Bool) :
    ∀ (m : List (Nat × Rec)) (gA gB : G), (∀ i, sel i = true → gA i = gB i) →
      (∀ i, sel i = true → ∀ p, (gA i).parent = some p → sel p = true) →
      (replay false f gB (m.filter (fun p => sel p.1))).2 = (replay false f gA m).2.filter (fun e => sel e.task) ∧
      ∀ i, sel i = true → (replay false f gB (m.filter (fun p => sel p.1))).1 i = (replay false f gA m).1 i := by
  intro m
  induction m with
  | nil =>
    intro gA gB h _
    refine ⟨by simp [replay], ?_⟩
    intro i hi
    simp only [List.filter_nil, replay]
    exact (h i hi).symm
  | cons q rest ih =>
    intro gA gB hrel hcl
    obtain ⟨j, r⟩ := q
    rw [replay_false_cons f gA]
    by_cases hs : sel j = true
    · simp only [List.filter_cons, hs, if_true]
      rw [replay_false_cons f gB]
      have hinh : inhOf gA j = inhOf gB j :=
        inhOf_congr (hrel j hs) (fun p hp => hrel p (hcl j hs p hp))
      rw [← hinh, ← hrel j hs]
      have := ih (upd gA j (stepNM f j (inhOf gA j) (gA j) r).1) (upd gB j (stepNM f j (inhOf gA j) (gA j) r).1)
        (by
          intro i hi
          by_cases hij : i = j
          · subst hij; simp
          · rw [upd_other _ hij, upd_other _ hij]; exact hrel i hi)
        (by
          intro i hi p hp
          by_cases hij : i = j
          · subst hij
            rw [upd_same, stepNM_parent] at hp
            exact hcl i hi p hp
          · rw [upd_other _ hij] at hp; exact hcl i hi p hp)
      simp only [stepNM_task, hs, if_true]
      exact ⟨by rw [this.1], this.2⟩
    · have hs' : sel j = false := by simpa using hs
      simp only [List.filter_cons, hs', Bool.false_eq_true, if_false, stepNM_task]
      exact ih (upd gA j (stepNM f j (inhOf gA j) (gA j) r).1) gB
        (by
          intro i hi
          have hij : i ≠ j := fun e => by subst e; exact hs hi
          rw [upd_other _ hij]; exact hrel i hi)
        (by
          intro i hi p hp
          have hij : i ≠ j := fun e => by subst e; exact hs hi
          rw [upd_other _ hij] at hp; exact hcl i hi p hp)

/-! ### presentation layers -/

theorem annotate_ev (first : Nat) (last : List (Nat × Nat)) (evs : List Ev) :
    (annotate first last evs).map (·.ev) = evs := by
  induction evs generalizing first last with
  | nil => simp [annotate]
  | cons e es ih => simp [annotate, ih]

/-- moving a line by `c` columns -/
def Ev.shift (n : Nat) (e : Ev) : Ev := { e with indent := e.indent + n }

theorem columnize_spec (off : Nat) : ∀ (evs : List Ev) (a : List (Nat × Nat)),
    ∃ col : Nat → Nat, columnize off a evs = evs.map (fun e => e.shift (col e.task * off)) ∧
      ∀ t c, a.lookup t = some c → col t = c := by
  intro evs
  induction evs with
  | nil => intro a; exact ⟨fun t => (a.lookup t).getD 0, by simp [columnize], fun t c h => by simp [h]⟩
  | cons e es ih =>
    intro a
    cases h : a.lookup e.task with
    | some c =>
      obtain ⟨col, h1, h2⟩ := ih a
      refine ⟨col, ?_, h2⟩
      simp only [columnize, h, List.map_cons, h1, Ev.shift, h2 _ _ h]
    | none =>
      obtain ⟨col, h1, h2⟩ := ih (a ++ [(e.task, a.length)])
      have hl : ∀ t c, a.lookup t = some c → (a ++ [(e.task, a.length)]).lookup t = some c := by
        intro t c ht
        simp [List.lookup_append, ht]
      have he : (a ++ [(e.task, a.length)]).lookup e.task = some a.length := by
        simp [List.lookup_append, h, List.lookup]
      refine ⟨col, ?_, fun t c ht => h2 t c (hl t c ht)⟩
      simp only [columnize, h, List.map_cons, h1, Ev.shift, h2 _ _ he]

/-! ### well-formed task streams make `PairsOK` hold for the merged stream -/

/-- well-formedness of one task's stream that makes `PairsOK` hold for the merged stream -/
def TaskOK : List Rec → Prop
  | r :: x :: rest =>
    (r.exit = false → x.exit = true → x.depth = r.depth → x.addr = r.addr ∧ r.time ≤ x.time) ∧ TaskOK (x :: rest)
  | _ => True

theorem taskOK_tail {r : Rec} {t : List Rec} (h : TaskOK (r :: t)) : TaskOK t := by
  cases t with
  | nil => simp [TaskOK]
  | cons x t => exact h.2

theorem pairsOK_mergeFuel (n : Nat) : ∀ ts : List (List Rec), (∀ j, TaskOK (nth ts j)) → PairsOK (mergeFuel n ts) := by
  induction n with
  | zero => intro ts _; simp [mergeFuel, PairsOK]
  | succ n ih =>
    intro ts hok
    rcases mergeFuel_succ n ts with ⟨he, _⟩ | ⟨i, r, rest, hi, _, he⟩
    · rw [he]; simp [PairsOK]
    · have hok' : ∀ j, TaskOK (nth (ts.set i rest) j) := by
        intro j
        rw [nth_set]
        split
        · have := hok i; rw [hi] at this; exact taskOK_tail this
        · exact hok j
      have ih' := ih (ts.set i rest) hok'
      rw [he]
      cases n with
      | zero => simp [mergeFuel, PairsOK]
      | succ n =>
        rcases mergeFuel_succ n (ts.set i rest) with ⟨he2, _⟩ | ⟨j, x, rest2, hj, _, he2⟩
        · rw [he2]; simp [PairsOK]
        · rw [he2] at ih' ⊢
          refine ⟨?_, ih'⟩
          intro hr hf
          have hf' : (j = i ∧ x.depth = r.depth) ∧ x.exit = true := by
            simpa [foldsWith, Bool.and_eq_true] using hf
          obtain ⟨⟨rfl, hd⟩, hx⟩ := hf'
          rw [nth_set] at hj
          simp only [true_and, lt_length_of_nth hi, if_true] at hj
          have := hok j
          rw [hi, hj] at this
          exact this.1 hr hx hd

mutual
  /-- no call returns before it was entered -/
  def Call.timed : Call → Prop
    | .node _ tin tout kids => tin ≤ tout ∧ kids.timed
  def Calls.timed : Calls → Prop
    | .nil => True
    | .cons c rest => c.timed ∧ rest.timed
end

theorem taskOK_append {a b : List Rec} (ha : TaskOK a) (hb : TaskOK b)
    (hl : ∀ r, a.getLast? = some r → r.exit = true) : TaskOK (a ++ b) := by
  induction a with
  | nil => simpa using hb
  | cons r a ih =>
    cases a with
    | nil =>
      have hr : r.exit = true := hl r (by simp)
      cases b with
      | nil => simp [TaskOK]
      | cons x b => exact ⟨by simp [hr], hb⟩
    | cons r2 a =>
      refine ⟨ha.1, ?_⟩
      exact ih ha.2 (fun q hq => hl q (by simpa using hq))

mutual
  theorem recsCall_last (d : Nat) : (c : Call) → ∀ r, (recsCall d c).getLast? = some r → r.exit = true
    | .node a tin tout kids => by
      intro r h
      have e : recsCall d (.node a tin tout kids) =
          ({ time := tin, exit := false, depth := d, addr := a } :: recsCalls (d + 1) kids) ++
            [{ time := tout, exit := true, depth := d, addr := a }] := by simp [recsCall]
      rw [e, List.getLast?_concat] at h
      simp only [Option.some.injEq] at h
      subst h; rfl
  theorem recsCalls_last (d : Nat) : (cs : Calls) → ∀ r, (recsCalls d cs).getLast? = some r → r.exit = true
    | .nil => by intro r h; simp [recsCalls] at h
    | .cons c rest => by
      intro r h
      simp only [recsCalls, List.getLast?_append] at h
      cases h2 : (recsCalls d rest).getLast? with
      | none =>
        rw [h2, Option.none_or] at h
        exact recsCall_last d c r h
      | some q =>
        rw [h2, Option.some_or, Option.some.injEq] at h
        subst h; exact recsCalls_last d rest q h2
end

mutual
  /-- the record stream of completed calls is well-formed in the sense of `TaskOK` -/
  theorem taskOK_recsCall (d : Nat) : (c : Call) → c.timed → TaskOK (recsCall d c)
    | .node a tin tout kids, h => by
      have hk := taskOK_recsCalls (d + 1) kids h.2
      have hrest : TaskOK (recsCalls (d + 1) kids ++ [{ time := tout, exit := true, depth := d, addr := a }]) :=
        taskOK_append hk (by simp [TaskOK]) (recsCalls_last (d + 1) kids)
      simp only [recsCall]
      rcases recsCalls_head (d + 1) kids with hn | ⟨r, rs, he, hr, _⟩
      · subst hn
        simp only [recsCalls, List.nil_append]
        exact ⟨fun _ _ _ => ⟨rfl, h.1⟩, by simp [TaskOK]⟩
      · rw [he] at hrest ⊢
        exact ⟨by simp [hr], hrest⟩
  theorem taskOK_recsCalls (d : Nat) : (cs : Calls) → cs.timed → TaskOK (recsCalls d cs)
    | .nil, _ => by simp [recsCalls, TaskOK]
    | .cons c rest, h => by
      simp only [recsCalls]
      exact taskOK_append (taskOK_recsCall d c h.1) (taskOK_recsCalls d rest h.2) (recsCall_last d c)
end

end Uft.Replay
