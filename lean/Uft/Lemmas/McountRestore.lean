import Uft.Lemmas.Mcount
import Uft.Lemmas.McountCore
/- C05 helper lemmas (state restoration by mutual recursion over call trees); kept in the
   namespace `Uft.C05` because `Lemmas/FstackRecord` refers to them by that name.  The property
   theorems themselves are in `Props/C05.lean`. -/
namespace Uft.C05
open Uft.Mcount

theorem entry_cyg_took (cfg : Cfg) (s : St) (f t0 : Nat) : (entry cfg .cyg s f t0).2 = true := by
  unfold entry
  simp only
  split <;> rfl

mutual
theorem restored_call (cfg : Cfg) (hf : cfg.fast = false) (hfin : ∀ f, (cfg.trig f).finish = false) :
    ∀ (c : Call) (s : St), (core s).WF cfg → core (runCall cfg .cyg s c) = core s
  | .node f t0 t1 kids, s, hwf => by
    have h1 := core_entry_cyg cfg hf s f t0 (hfin f)
    have hwf1 : (core (entry cfg .cyg s f t0).1).WF cfg := by rw [h1]; exact entryCore_wf cfg f _ hwf
    have hk := restored_calls cfg hf hfin kids (entry cfg .cyg s f t0).1 hwf1
    simp only [runCall, entry_cyg_took, ↓reduceIte]
    rw [core_exit cfg hf, hk, h1, exitCore_entryCore cfg f _ hwf]
theorem restored_calls (cfg : Cfg) (hf : cfg.fast = false) (hfin : ∀ f, (cfg.trig f).finish = false) :
    ∀ (cs : Calls) (s : St), (core s).WF cfg → core (runCalls cfg .cyg s cs) = core s
  | .nil, s, _ => rfl
  | .cons c rest, s, hwf => by
    have h1 := restored_call cfg hf hfin c s hwf
    have h2 := restored_calls cfg hf hfin rest (runCall cfg .cyg s c) (by rw [h1]; exact hwf)
    simp only [runCalls]
    rw [h2, h1]
end

mutual
theorem restored_call_pg (cfg : Cfg) (hf : cfg.fast = false) (hfix : cfg.f4fixed = true)
    (hfin : ∀ f, (cfg.trig f).finish = false) :
    ∀ (c : Call) (s : St), (core s).WF cfg → core (runCall cfg .pg s c) = core s
  | .node f t0 t1 kids, s, hwf => by
    simp only [runCall]
    by_cases hp : (entry cfg .pg s f t0).2 = true
    · have h1 : core (entry cfg .pg s f t0).1 = entryCore cfg f (core s) :=
        (core_entry_pg_push cfg hf s f t0 (hfin f) hp).trans (core_entry_cyg cfg hf s f t0 (hfin f))
      have hwf1 : (core (entry cfg .pg s f t0).1).WF cfg := by rw [h1]; exact entryCore_wf cfg f _ hwf
      have hk := restored_calls_pg cfg hf hfix hfin kids (entry cfg .pg s f t0).1 hwf1
      simp only [hp, ↓reduceIte]
      rw [core_exit cfg hf, hk, h1, exitCore_entryCore cfg f _ hwf]
    · have hp' : (entry cfg .pg s f t0).2 = false := by simpa using hp
      have h1 := core_entry_pg_nopush cfg hf hfix s f t0 hp'
      have hk := restored_calls_pg cfg hf hfix hfin kids (entry cfg .pg s f t0).1 (by rw [h1]; exact hwf)
      simp only [hp', Bool.false_eq_true, ↓reduceIte]
      rw [hk, h1]
theorem restored_calls_pg (cfg : Cfg) (hf : cfg.fast = false) (hfix : cfg.f4fixed = true)
    (hfin : ∀ f, (cfg.trig f).finish = false) :
    ∀ (cs : Calls) (s : St), (core s).WF cfg → core (runCalls cfg .pg s cs) = core s
  | .nil, s, _ => rfl
  | .cons c rest, s, hwf => by
    have h1 := restored_call_pg cfg hf hfix hfin c s hwf
    have h2 := restored_calls_pg cfg hf hfix hfin rest (runCall cfg .pg s c) (by rw [h1]; exact hwf)
    simp only [runCalls]
    rw [h2, h1]
end

end Uft.C05
