import Uft.Lemmas.Mcount
import Uft.Lemmas.McountCore
import Uft.Lemmas.McountRestore
/- C05 × C11 helper lemmas: frames that hold filter state are left by something other than their return
   (`unwindOne`/`unwindExc`, `pltEntry`, `padEntryPg`, `jmpSave`/`jmpRestore` of Model/Mcount.lean).
   The property theorems are in Props/C05.lean. -/
set_option linter.unusedSimpArgs false
namespace Uft.Mcount

/-- dropping a frame by exception unwinding is, for the thread state (filter state, record index,
    shadow stack, records written), exactly the exit hook of that frame run at the same clock reading -/
theorem unwindOne_eq_exit (cfg : Cfg) (hf : cfg.fast = false) (s : St) (ho : s.over = 0) (t : Nat) :
    unwindOne cfg s t = exit cfg s t := by
  unfold unwindOne exit
  simp only [ho, Nat.lt_irrefl, ↓reduceIte]
  cases hfr : s.frames with
  | nil => rfl
  | cons f rest =>
    simp only
    by_cases hn : f.norecord = true
    · by_cases hc : f.cyg = true
      · simp [hn, hc]
      · simp only [Bool.not_eq_true] at hc
        simp [hn, hc, exitFilterRecord, hf]
    · simp only [Bool.not_eq_true] at hn
      simp [hn]

theorem exitFilterRecord_over (cfg : Cfg) (s : St) : (exitFilterRecord cfg s).over = s.over := by
  unfold exitFilterRecord
  cases s.frames with
  | nil => rfl
  | cons f rest =>
    simp only
    repeat (any_goals (first | rfl | split))

theorem exit_over_zero (cfg : Cfg) (s : St) (ho : s.over = 0) (t : Nat) : (exit cfg s t).over = 0 := by
  unfold exit
  simp only [ho, Nat.lt_irrefl, ↓reduceIte]
  cases s.frames with
  | nil => simpa using ho
  | cons f rest =>
    simp only
    rw [exitFilterRecord_over]

theorem unwindOne_over_zero (cfg : Cfg) (hf : cfg.fast = false) (s : St) (ho : s.over = 0) (t : Nat) :
    (unwindOne cfg s t).over = 0 := by
  rw [unwindOne_eq_exit cfg hf s ho]; exact exit_over_zero cfg s ho t

/-- … and so is unwinding any number of frames: the sequence of their returns, innermost first -/
theorem unwindExc_eq_exits (cfg : Cfg) (hf : cfg.fast = false) :
    ∀ (ts : List Nat) (s : St), s.over = 0 → unwindExc cfg s ts = ts.foldl (exit cfg) s
  | [], _, _ => rfl
  | t :: ts, s, ho => by
    simp only [unwindExc, List.foldl_cons]
    rw [unwindOne_eq_exit cfg hf s ho]
    exact unwindExc_eq_exits cfg hf ts _ (exit_over_zero cfg s ho t)

theorem unwindExc_append (cfg : Cfg) : ∀ (a b : List Nat) (s : St),
    unwindExc cfg s (a ++ b) = unwindExc cfg (unwindExc cfg s a) b
  | [], _, _ => rfl
  | t :: a, b, s => by simp only [List.cons_append, unwindExc]; exact unwindExc_append cfg a b _

/-- on the filter state a dropped frame acts as `exitCore` -/
theorem core_unwindOne (cfg : Cfg) (hf : cfg.fast = false) (s : St) (ho : s.over = 0) (t : Nat) :
    core (unwindOne cfg s t) = exitCore (core s) := by
  rw [unwindOne_eq_exit cfg hf s ho, core_exit cfg hf]

theorem core_over (s : St) : (core s).over = s.over := rfl

/-- the -pg entry hook never counts beyond the stack -/
theorem entry_pg_over (cfg : Cfg) (s : St) (f t0 : Nat) : (entry cfg .pg s f t0).1.over = s.over := by
  have hc : (checkRstack cfg s).2.over = s.over := by
    unfold checkRstack; split
    · split <;> rfl
    · rfl
  have hr : ∀ (s' : St) (tr : Trigger), (entryFilterRecord cfg s' tr).over = s'.over := by
    intro s' tr
    unfold entryFilterRecord
    cases s'.frames with
    | nil => rfl
    | cons F rest =>
      simp only
      split
      · rfl
      · split
        · rfl
        · split
          · rfl
          · rfl
  have hk : (entryFilterCheck cfg s f).2.1.over = s.over := by
    unfold entryFilterCheck
    simp only
    split
    · exact hc
    · split
      · split <;> exact hc
      · split
        · exact hc
        · split
          · exact hc
          · split <;> simp [hc]
  unfold entry
  simp only
  split
  · exact hk
  · rw [hr]; exact hk

/-- a call that is still open: entered at `t0`, after which the completed calls `kids` ran below it -/
structure OpenCall where
  f : Nat
  t0 : Nat
  kids : Calls

/-- enter the calls of `p` one inside the other (outermost first), each followed by its completed
    callees.  Returns the state and the number of them that have a frame (the hook took the call). -/
def runOpen (cfg : Cfg) (k : Kind) : St → List OpenCall → St × Nat
  | s, [] => (s, 0)
  | s, o :: rest =>
    let e := entry cfg k s o.f o.t0
    let r := runOpen cfg k (runCalls cfg k e.1 o.kids) rest
    (r.1, r.2 + (if e.2 then 1 else 0))

theorem wf_of_over_zero (cfg : Cfg) (s : St) (ho : s.over = 0) : (core s).WF cfg := Or.inl ho

/-- **State restoration across non-local exits.**  From any thread state, enter any chain of nested calls
    (each after any forest of completed calls), then drop the frames of the chain the way
    mcount_rstack_rehook_exception does: the filter state is the one before the outermost of them was
    entered. -/
theorem restored_unwind (cfg : Cfg) (hf : cfg.fast = false) (hfix : cfg.f4fixed = true)
    (hfin : ∀ f, (cfg.trig f).finish = false) :
    ∀ (p : List OpenCall) (s : St) (ts : List Nat), s.over = 0 → ts.length = (runOpen cfg .pg s p).2 →
      core (unwindExc cfg (runOpen cfg .pg s p).1 ts) = core s ∧ (unwindExc cfg (runOpen cfg .pg s p).1 ts).over = 0
  | [], s, ts, ho, hl => by
    simp only [runOpen] at hl ⊢
    have : ts = [] := List.length_eq_zero_iff.mp hl
    subst this
    exact ⟨rfl, ho⟩
  | o :: rest, s, ts, ho, hl => by
    simp only [runOpen] at hl ⊢
    have he0 : (entry cfg .pg s o.f o.t0).1.over = 0 := by rw [entry_pg_over]; exact ho
    have hk := C05.restored_calls_pg cfg hf hfix hfin o.kids (entry cfg .pg s o.f o.t0).1 (wf_of_over_zero cfg _ he0)
    have hs1 : (runCalls cfg .pg (entry cfg .pg s o.f o.t0).1 o.kids).over = 0 := by
      have := congrArg Core.over hk
      simp only [core_over] at this
      rw [this]; exact he0
    generalize hS1 : runCalls cfg .pg (entry cfg .pg s o.f o.t0).1 o.kids = s1 at hk hs1 hl ⊢
    -- split the clock readings: the inner frames first, then this call's frame (if it has one)
    have hsplit : ts = ts.take (runOpen cfg .pg s1 rest).2 ++ ts.drop (runOpen cfg .pg s1 rest).2 :=
      (List.take_append_drop _ _).symm
    have hl1 : (ts.take (runOpen cfg .pg s1 rest).2).length = (runOpen cfg .pg s1 rest).2 := by
      rw [List.length_take]; omega
    have ih := restored_unwind cfg hf hfix hfin rest s1 (ts.take (runOpen cfg .pg s1 rest).2) hs1 hl1
    rw [hsplit, unwindExc_append]
    generalize hX : unwindExc cfg (runOpen cfg .pg s1 rest).1 (ts.take (runOpen cfg .pg s1 rest).2) = X at ih
    have hl2 : (ts.drop (runOpen cfg .pg s1 rest).2).length = (if (entry cfg .pg s o.f o.t0).2 then 1 else 0) := by
      rw [List.length_drop]; omega
    by_cases hp : (entry cfg .pg s o.f o.t0).2 = true
    · simp only [hp, ↓reduceIte] at hl2
      obtain ⟨t, ht⟩ : ∃ t, ts.drop (runOpen cfg .pg s1 rest).2 = [t] := List.length_eq_one_iff.mp hl2
      rw [ht]
      simp only [unwindExc]
      refine ⟨?_, unwindOne_over_zero cfg hf X ih.2 t⟩
      rw [core_unwindOne cfg hf X ih.2, ih.1, hk,
        (core_entry_pg_push cfg hf s o.f o.t0 (hfin o.f) hp).trans (core_entry_cyg cfg hf s o.f o.t0 (hfin o.f))]
      exact exitCore_entryCore cfg o.f _ (wf_of_over_zero cfg s ho)
    · have hp' : (entry cfg .pg s o.f o.t0).2 = false := by simpa using hp
      simp only [hp', Bool.false_eq_true, ↓reduceIte] at hl2
      have : ts.drop (runOpen cfg .pg s1 rest).2 = [] := List.length_eq_zero_iff.mp hl2
      rw [this]
      simp only [unwindExc]
      refine ⟨?_, ih.2⟩
      rw [ih.1, hk]
      exact core_entry_pg_nopush cfg hf hfix s o.f o.t0 hp'

/-! ### the history with an exception is the history in which the unwound calls return -/

def Calls.append : Calls → Calls → Calls
  | .nil, ys => ys
  | .cons c rest, ys => .cons c (Calls.append rest ys)

theorem runCalls_append (cfg : Cfg) (k : Kind) : ∀ (xs ys : Calls) (s : St),
    runCalls cfg k s (Calls.append xs ys) = runCalls cfg k (runCalls cfg k s xs) ys
  | .nil, _, _ => rfl
  | .cons c rest, ys, s => by
    simp only [Calls.append, runCalls]
    exact runCalls_append cfg k rest ys _

/-- the chain of open calls `p` (outermost first) closed at the clock readings `ts` (one per call,
    outermost first): the call tree of the history in which every one of them returned -/
def closePath : List OpenCall → List Nat → Calls
  | o :: rest, t :: ts => .cons (.node o.f o.t0 t (Calls.append o.kids (closePath rest ts))) .nil
  | _, _ => .nil

/-- the clock readings of the calls of `p` that have a frame, innermost first: what
    mcount_rstack_rehook_exception reads when it drops them -/
def openTimes (cfg : Cfg) (k : Kind) : St → List OpenCall → List Nat → List Nat
  | s, o :: rest, t :: ts =>
    let e := entry cfg k s o.f o.t0
    openTimes cfg k (runCalls cfg k e.1 o.kids) rest ts ++ (if e.2 then [t] else [])
  | _, _, _ => []

theorem openTimes_length (cfg : Cfg) (k : Kind) : ∀ (p : List OpenCall) (ts : List Nat) (s : St),
    ts.length = p.length → (openTimes cfg k s p ts).length = (runOpen cfg k s p).2
  | [], ts, s, _ => by cases ts <;> rfl
  | o :: rest, [], s, h => by simp at h
  | o :: rest, t :: ts, s, h => by
    simp only [openTimes, runOpen, List.length_append]
    rw [openTimes_length cfg k rest ts _ (by simpa using h)]
    split <;> rfl

/-- **An exception that unwinds a chain of calls leaves the thread — filter state, shadow stack and
    the records written — exactly as if each of these calls had returned** at the moment its frame was
    dropped. -/
theorem unwind_eq_returns (cfg : Cfg) (hf : cfg.fast = false) (hfix : cfg.f4fixed = true)
    (hfin : ∀ f, (cfg.trig f).finish = false) :
    ∀ (p : List OpenCall) (ts : List Nat) (s : St), s.over = 0 → ts.length = p.length →
      unwindExc cfg (runOpen cfg .pg s p).1 (openTimes cfg .pg s p ts) = runCalls cfg .pg s (closePath p ts)
  | [], ts, s, _, _ => by cases ts <;> rfl
  | o :: rest, [], s, _, h => by simp at h
  | o :: rest, t :: ts, s, ho, h => by
    have hl : ts.length = rest.length := by simpa using h
    have he0 : (entry cfg .pg s o.f o.t0).1.over = 0 := by rw [entry_pg_over]; exact ho
    have hk := C05.restored_calls_pg cfg hf hfix hfin o.kids (entry cfg .pg s o.f o.t0).1 (wf_of_over_zero cfg _ he0)
    have hs1 : (runCalls cfg .pg (entry cfg .pg s o.f o.t0).1 o.kids).over = 0 := by
      have := congrArg Core.over hk
      simp only [core_over] at this
      rw [this]; exact he0
    have ih := unwind_eq_returns cfg hf hfix hfin rest ts _ hs1 hl
    have hov := (restored_unwind cfg hf hfix hfin rest _ (openTimes cfg .pg _ rest ts) hs1
      (openTimes_length cfg .pg rest ts _ hl)).2
    simp only [runOpen, openTimes, closePath, runCalls, runCall, runCalls_append, unwindExc_append]
    rw [ih] at hov ⊢
    split
    · simp only [unwindExc]
      exact unwindOne_eq_exit cfg hf _ hov t
    · rfl

/-! ### library calls (PLT) and longjmp -/


theorem flushTop_core (s : St) : core (flushTop s) = core s := by
  simp [flushTop, core, recordTrace_core]

theorem checkRstack_frames_len (cfg : Cfg) (s : St) : (checkRstack cfg s).2.frames.length = s.frames.length := by
  have := congrArg (fun c => c.frames.length) (checkRstack_core cfg s)
  simpa [core] using this

/-- a hooked library call changes the filter state exactly as the cygprof hook does (it pushes a frame
    for a rejected call too) -/
theorem core_pltEntry (cfg : Cfg) (hf : cfg.fast = false) (s : St) (a t : Nat) (fl : Bool)
    (hfin : (cfg.trig a).finish = false) (htook : (pltEntry cfg s a t fl).2 = true) :
    core (pltEntry cfg s a t fl).1 = entryCore cfg a (core s) := by
  rw [← core_entry_cyg cfg hf s a t hfin]
  unfold pltEntry entry at *
  generalize entryFilterCheck cfg s a = c at htook ⊢
  obtain ⟨fr, s1, tr⟩ := c
  simp only at htook ⊢
  by_cases hr : (fr == FR.rstack) = true
  · simp [hr] at htook
  · simp only [hr, Bool.false_eq_true, ↓reduceIte]
    have key : ∀ (F G : Frame), F.norecord = G.norecord → F.addr = G.addr →
        core (entryFilterRecord cfg { s1 with frames := F :: s1.frames } tr) =
        core (entryFilterRecord cfg { s1 with frames := G :: s1.frames } tr) := by
      intro F G h1 h2
      by_cases hfi : tr.finish = true
      · simp only [entryFilterRecord, hf, hfi, Bool.false_eq_true, ↓reduceIte]
        simp only [core, recordTrace_core]
        simp [coreF, h1, h2]
      · have hfi' : tr.finish = false := by simpa using hfi
        rw [core_entryFilterRecord cfg hf _ F s1.frames tr hfi' rfl,
          core_entryFilterRecord cfg hf _ G s1.frames tr hfi' rfl]
        simp [h1, h2]
    unfold pltPush
    simp only
    split
    · rw [flushTop_core]; exact key _ _ rfl rfl
    · exact key _ _ rfl rfl

/-! ### longjmp: the abandoned frames give their counts back -/

def cnt (fl : Filt) : Nat × Nat := (fl.inCount, fl.outCount)

/-- the counts part of the exit hook, on the abstraction of a frame -/
def undoCountC (p : Nat × Nat) (f : CoreF) : Nat × Nat :=
  (if f.filtered then p.1 - 1 else p.1, if !f.filtered && f.notrace then p.2 - 1 else p.2)

theorem cnt_undoCount (fl : Filt) (f : Frame) : cnt (undoCount fl f) = undoCountC (cnt fl) (coreF f) := rfl

theorem cnt_foldl_undoCount : ∀ (fs : List Frame) (fl : Filt),
    cnt (fs.foldl undoCount fl) = (fs.map coreF).foldl undoCountC (cnt fl)
  | [], _ => rfl
  | f :: fs, fl => by
    simp only [List.foldl_cons, List.map_cons]
    rw [cnt_foldl_undoCount fs, cnt_undoCount]

theorem undoCount_other (fl : Filt) (f : Frame) :
    (undoCount fl f).depth = fl.depth ∧ (undoCount fl f).maxDepth = fl.maxDepth ∧ (undoCount fl f).time = fl.time ∧
    (undoCount fl f).size = fl.size := ⟨rfl, rfl, rfl, rfl⟩

def exitCoreN : Nat → Core → Core
  | 0, c => c
  | n + 1, c => exitCoreN n (exitCore c)

theorem exitCore_over (c : Core) (ho : c.over = 0) : (exitCore c).over = 0 := by
  unfold exitCore
  simp only [ho, Nat.lt_irrefl, ↓reduceIte]
  cases c.frames <;> simp [ho]

theorem exitCore_frames (c : Core) (ho : c.over = 0) : (exitCore c).frames = c.frames.tail := by
  unfold exitCore
  simp only [ho, Nat.lt_irrefl, ↓reduceIte]
  cases hfr : c.frames with
  | nil => simp [hfr]
  | cons f r => simp

theorem exitCore_cnt (c : Core) (ho : c.over = 0) :
    cnt (exitCore c).filt = (c.frames.take 1).foldl undoCountC (cnt c.filt) := by
  unfold exitCore
  simp only [ho, Nat.lt_irrefl, ↓reduceIte]
  cases hfr : c.frames with
  | nil => simp [hfr]
  | cons f r => simp [cnt, undoCountC]

/-- the counts after n exit hooks: the top n frames give theirs back -/
theorem exitCoreN_cnt : ∀ (n : Nat) (c : Core), c.over = 0 →
    cnt (exitCoreN n c).filt = (c.frames.take n).foldl undoCountC (cnt c.filt) ∧
    (exitCoreN n c).frames = c.frames.drop n ∧ (exitCoreN n c).over = 0
  | 0, c, ho => by simp [exitCoreN, ho]
  | n + 1, c, ho => by
    have ih := exitCoreN_cnt n (exitCore c) (exitCore_over c ho)
    simp only [exitCoreN]
    rw [ih.1, ih.2.1, exitCore_cnt c ho, exitCore_frames c ho]
    refine ⟨?_, ?_, ih.2.2⟩
    · cases c.frames with
      | nil => simp
      | cons f r => simp
    · cases c.frames with
      | nil => simp
      | cons f r => simp

theorem core_unwindExc : ∀ (ts : List Nat) (cfg : Cfg) (_ : cfg.fast = false) (s : St), s.over = 0 →
    core (unwindExc cfg s ts) = exitCoreN ts.length (core s)
  | [], _, _, _, _ => rfl
  | t :: ts, cfg, hf, s, ho => by
    simp only [unwindExc, List.length_cons, exitCoreN]
    rw [core_unwindExc ts cfg hf _ (unwindOne_over_zero cfg hf s ho t), core_unwindOne cfg hf s ho]

theorem exitCoreN_succ_outer (n : Nat) (c : Core) : exitCoreN (n + 1) c = exitCore (exitCoreN n c) := by
  induction n generalizing c with
  | zero => rfl
  | succ k ih => simp only [exitCoreN] at ih ⊢; rw [ih]

/-- a -pg entry that takes the call adds exactly one frame -/
theorem entry_pg_frames (cfg : Cfg) (hf : cfg.fast = false) (s : St) (ho : s.over = 0) (f t0 : Nat)
    (hfin : (cfg.trig f).finish = false) :
    (entry cfg .pg s f t0).1.frames.length = s.frames.length + (if (entry cfg .pg s f t0).2 then 1 else 0) := by
  by_cases hp : (entry cfg .pg s f t0).2 = true
  · have h1 : core (entry cfg .pg s f t0).1 = entryCore cfg f (core s) :=
      (core_entry_pg_push cfg hf s f t0 hfin hp).trans (core_entry_cyg cfg hf s f t0 hfin)
    have ho2 : (entry cfg .pg s f t0).1.over = 0 := by rw [entry_pg_over]; exact ho
    have hlen : (core (entry cfg .pg s f t0).1).frames.length = (entry cfg .pg s f t0).1.frames.length := by simp [core]
    have hov : (core (entry cfg .pg s f t0).1).over = 0 := ho2
    rw [h1] at hlen hov
    simp only [hp, ↓reduceIte]
    rw [← hlen]
    unfold entryCore at hov ⊢
    split
    · rename_i h; simp only [h, ↓reduceIte] at hov; simp [core, ho] at hov
    · split <;> simp [core]
  · have hp' : (entry cfg .pg s f t0).2 = false := by simpa using hp
    simp only [hp', Bool.false_eq_true, ↓reduceIte, Nat.add_zero]
    -- nothing pushed: look at the definition
    unfold entry at hp' ⊢
    generalize hc : entryFilterCheck cfg s f = c at hp' ⊢
    obtain ⟨fr, s1, tr⟩ := c
    simp only at hp' ⊢
    have hlen : s1.frames.length = s.frames.length := by
      have : s1 = (entryFilterCheck cfg s f).2.1 := by rw [hc]
      rw [this]
      unfold entryFilterCheck
      simp only
      split
      · exact checkRstack_frames_len cfg s
      · split
        · split <;> exact checkRstack_frames_len cfg s
        · split
          · exact checkRstack_frames_len cfg s
          · split
            · exact checkRstack_frames_len cfg s
            · split <;> simp [checkRstack_frames_len]
    split
    · exact hlen
    · rename_i h; rw [if_neg h] at hp'; simp at hp'

theorem core_frames_len (s : St) : (core s).frames.length = s.frames.length := by simp [core]

theorem runOpen_frames (cfg : Cfg) (hf : cfg.fast = false) (hfix : cfg.f4fixed = true)
    (hfin : ∀ f, (cfg.trig f).finish = false) :
    ∀ (p : List OpenCall) (s : St), s.over = 0 →
      (runOpen cfg .pg s p).1.frames.length = s.frames.length + (runOpen cfg .pg s p).2 ∧ (runOpen cfg .pg s p).1.over = 0
  | [], s, ho => ⟨rfl, ho⟩
  | o :: rest, s, ho => by
    simp only [runOpen]
    have he0 : (entry cfg .pg s o.f o.t0).1.over = 0 := by rw [entry_pg_over]; exact ho
    have hk := C05.restored_calls_pg cfg hf hfix hfin o.kids (entry cfg .pg s o.f o.t0).1 (wf_of_over_zero cfg _ he0)
    have hs1 : (runCalls cfg .pg (entry cfg .pg s o.f o.t0).1 o.kids).over = 0 := by
      have := congrArg Core.over hk
      simp only [core_over] at this
      rw [this]; exact he0
    have hl1 : (runCalls cfg .pg (entry cfg .pg s o.f o.t0).1 o.kids).frames.length =
        (entry cfg .pg s o.f o.t0).1.frames.length := by
      have := congrArg (fun c => c.frames.length) hk
      simpa [core_frames_len] using this
    have ih := runOpen_frames cfg hf hfix hfin rest _ hs1
    refine ⟨?_, ih.2⟩
    rw [ih.1, hl1, entry_pg_frames cfg hf s ho o.f o.t0 (hfin o.f)]
    omega

theorem pltEntry_shape (cfg : Cfg) (hf : cfg.fast = false) (s : St) (ho : s.over = 0) (a t : Nat) (fl : Bool)
    (hfin : (cfg.trig a).finish = false) (htook : (pltEntry cfg s a t fl).2 = true) :
    (pltEntry cfg s a t fl).1.over = 0 ∧ (pltEntry cfg s a t fl).1.frames.length = s.frames.length + 1 := by
  have hC := core_pltEntry cfg hf s a t fl hfin htook
  have hnf : ¬ ((core s).frames.length + (core s).over ≥ cfg.maxStack) := by
    intro hfull
    have := checkRstack_fst cfg s
    unfold pltEntry entryFilterCheck at htook
    simp only [core_frames_len, core_over] at hfull
    simp [this, hfull] at htook
  have h1 := congrArg Core.over hC
  have h2 := congrArg (fun c => c.frames.length) hC
  simp only [core_over, core_frames_len] at h1 h2
  unfold entryCore at h1 h2
  simp only [hnf, ↓reduceIte] at h1 h2
  constructor
  · rw [h1]; split <;> exact ho
  · rw [h2]; split <;> simp [core_frames_len]

/-- **State restoration across longjmp (repaired restore_jmpbuf_rstack).**  From any thread state `s0`:
    setjmp (a library call) is hooked and returns; then any chain of nested calls is entered (each after
    any forest of completed calls); the innermost calls longjmp (a library call, force-flushed or not).
    After restore_jmpbuf_rstack and the second return of setjmp the filter state is the one `s0` had. -/
theorem restored_longjmp (cfg : Cfg) (hf : cfg.fast = false) (hfix : cfg.f4fixed = true)
    (hfin : ∀ f, (cfg.trig f).finish = false) (s0 : St) (ho : s0.over = 0) (sj t0 t1 : Nat)
    (hsj : (pltEntry cfg s0 sj t0 false).2 = true) (p : List OpenCall) (lj t2 t3 : Nat) (fl : Bool) (fx : NLFix)
    (hfx : fx.ljCounts = true)
    (hlj : (pltEntry cfg (runOpen cfg .pg (exit cfg (pltEntry cfg s0 sj t0 false).1 t1) p).1 lj t2 fl).2 = true) :
    core (exit cfg (jmpRestore fx (pltEntry cfg (runOpen cfg .pg (exit cfg (pltEntry cfg s0 sj t0 false).1 t1) p).1 lj t2 fl).1
      (jmpSave (pltEntry cfg s0 sj t0 false).1)) t3) = core s0 := by
  -- the setjmp entry
  have hC1 := core_pltEntry cfg hf s0 sj t0 false (hfin sj) hsj
  generalize hE : (pltEntry cfg s0 sj t0 false).1 = e at hC1 hlj ⊢
  have hwf0 := wf_of_over_zero cfg s0 ho
  have hx1 : exitCore (core e) = core s0 := by rw [hC1]; exact exitCore_entryCore cfg sj _ hwf0
  have hsh := pltEntry_shape cfg hf s0 ho sj t0 false (hfin sj) hsj
  rw [hE] at hsh
  have heo : e.over = 0 := hsh.1
  have hel : e.frames.length = s0.frames.length + 1 := hsh.2
  have hs1 := core_exit cfg hf e t1
  rw [hx1] at hs1
  generalize hS1 : exit cfg e t1 = s1 at hs1 hlj ⊢
  have hs1o : s1.over = 0 := by
    have := congrArg Core.over hs1; simpa [core_over, ho] using this
  have hs1l : s1.frames.length = s0.frames.length := by
    have := congrArg (fun c => c.frames.length) hs1; simpa [core_frames_len] using this
  -- the open chain and the longjmp entry
  have hP := runOpen_frames cfg hf hfix hfin p s1 hs1o
  generalize hN : (runOpen cfg .pg s1 p).2 = n at hP
  have hPc : ∀ ts : List Nat, ts.length = n → core (unwindExc cfg (runOpen cfg .pg s1 p).1 ts) = core s1 := by
    intro ts hl
    exact (restored_unwind cfg hf hfix hfin p s1 ts hs1o (by rw [hN]; exact hl)).1
  generalize hSP : (runOpen cfg .pg s1 p).1 = sP at hP hPc hlj ⊢
  have hCL := core_pltEntry cfg hf sP lj t2 fl (hfin lj) hlj
  generalize hSL : (pltEntry cfg sP lj t2 fl).1 = sL at hCL ⊢
  have hxL : exitCore (core sL) = core sP := by rw [hCL]; exact exitCore_entryCore cfg lj _ (wf_of_over_zero cfg sP hP.2)
  have hshL := pltEntry_shape cfg hf sP hP.2 lj t2 fl (hfin lj) hlj
  rw [hSL] at hshL
  have hLo : sL.over = 0 := hshL.1
  -- n + 1 exit hooks from the longjmp entry lead back to s1
  have hback : exitCoreN (n + 1) (core sL) = core s0 := by
    simp only [exitCoreN]
    rw [hxL, ← hs1, ← hPc (List.replicate n 0) (by simp), core_unwindExc _ cfg hf sP hP.2]
    simp
  have hcnt := (exitCoreN_cnt (n + 1) (core sL) hLo)
  rw [hback] at hcnt
  have hLl : sL.frames.length = s0.frames.length + n + 1 := by
    rw [hshL.2, hP.1, hs1l]
  -- the restore
  obtain ⟨ef, er, hef⟩ : ∃ ef er, e.frames = ef :: er := by
    cases hfr : e.frames with
    | nil => simp [hfr] at hel
    | cons a b => exact ⟨a, b, rfl⟩
  have hdead : sL.frames.length + 1 - (jmpSave e).frames.length = n + 1 := by
    simp only [jmpSave, hel]; omega
  have hJ : core (jmpRestore fx sL (jmpSave e)) =
      { filt := eraseSv ((sL.frames.take (n + 1)).foldl undoCount sL.filt), recordIdx := e.recordIdx, over := 0,
        frames := coreF (clearTag ef) :: er.map coreF } := by
    unfold jmpRestore
    simp only [hfx, ↓reduceIte, hdead]
    simp only [jmpSave, hef, List.map_cons, core, hLo]
    simp [coreF, clearTag]
  have hJo : (jmpRestore fx sL (jmpSave e)).over = 0 := by
    unfold jmpRestore; simp only [hfx, ↓reduceIte]; exact hLo
  rw [core_exit cfg hf, hJ]
  -- compare with exitCore (core e) = core s0
  have hce : core e = { filt := eraseSv e.filt, recordIdx := e.recordIdx, over := 0, frames := coreF ef :: er.map coreF } := by
    simp [core, hef, heo]
  rw [hce] at hx1
  have hc2 : cnt (eraseSv ((sL.frames.take (n + 1)).foldl undoCount sL.filt)) = cnt (core s0).filt := by
    have : cnt (eraseSv ((sL.frames.take (n + 1)).foldl undoCount sL.filt)) =
        cnt ((sL.frames.take (n + 1)).foldl undoCount sL.filt) := rfl
    rw [this, cnt_foldl_undoCount, hcnt.1]
    simp [core, List.map_take, cnt, eraseSv]
  rw [← hx1]
  simp only [exitCore, Nat.lt_irrefl, ↓reduceIte]
  have hx1f := congrArg Core.filt hx1
  simp only [exitCore, Nat.lt_irrefl, ↓reduceIte] at hx1f
  congr 1
  · apply filt_ext
    · have := congrArg Prod.fst hc2
      have h5 := congrArg Filt.inCount hx1f
      simp only [cnt] at this
      simp only [coreF, clearTag, Bool.false_eq_true, ↓reduceIte] at h5 ⊢
      rw [this, ← h5]
    · have := congrArg Prod.snd hc2
      have h5 := congrArg Filt.outCount hx1f
      simp only [cnt] at this
      simp only [coreF, clearTag, Bool.false_eq_true, ↓reduceIte, Bool.not_false, Bool.and_false, Bool.and_true] at h5 ⊢
      rw [this, ← h5]
    all_goals simp [coreF, clearTag, eraseSv]

end Uft.Mcount
