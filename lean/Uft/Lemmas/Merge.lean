/- Lemmas about the k-way merge (C06). Core only. -/
import Uft.Model.Merge
namespace Uft.Merge

@[simp] theorem nth_nil (i : Nat) : nth [] i = [] := by simp [nth]
@[simp] theorem nth_cons_zero (t : List Rec) (ts : List (List Rec)) : nth (t :: ts) 0 = t := by simp [nth]
@[simp] theorem nth_cons_succ (t : List Rec) (ts : List (List Rec)) (i : Nat) :
    nth (t :: ts) (i + 1) = nth ts i := by simp [nth]

/-! ### the selection loop, specified -/

/-- right-recursive formulation of the choice made by `pickLoop` -/
def pickR : List (List Rec) → Option (Nat × Nat)
  | [] => none
  | [] :: ts => (pickR ts).map (fun p => (p.1 + 1, p.2))
  | (r :: _) :: ts =>
    match pickR ts with
    | some (j, t) => if t < r.time then some (j + 1, t) else some (0, r.time)
    | none => some (0, r.time)

def comb (i : Nat) (best : Option (Nat × Nat)) : Option (Nat × Nat) → Option (Nat × Nat)
  | none => best
  | some (j, t) =>
    match best with
    | none => some (i + j, t)
    | some (bi, bt) => if t < bt then some (i + j, t) else some (bi, bt)

theorem pickLoop_eq (ts : List (List Rec)) :
    ∀ i best, pickLoop ts i best = comb i best (pickR ts) := by
  induction ts with
  | nil => intro i best; simp [pickLoop, pickR, comb]
  | cons t ts ih =>
    intro i best
    cases t with
    | nil =>
      simp only [pickLoop, pickR, ih]
      cases pickR ts with
      | none => simp [comb]
      | some p =>
        obtain ⟨j, t⟩ := p
        cases best with
        | none => simp [comb]; omega
        | some b => obtain ⟨bi, bt⟩ := b; simp [comb, Nat.add_assoc, Nat.add_comm 1 j]
    | cons r rs =>
      cases best with
      | none =>
        simp only [pickLoop, pickR, ih]
        cases pickR ts with
        | none => simp [comb]
        | some p =>
          obtain ⟨j, t⟩ := p
          by_cases h : t < r.time <;> simp [comb, h]; omega
      | some b =>
        obtain ⟨bi, bt⟩ := b
        simp only [pickLoop, pickR]
        by_cases h1 : r.time < bt
        · simp only [h1, if_true, ih]
          cases pickR ts with
          | none => simp [comb, h1]
          | some p =>
            obtain ⟨j, t⟩ := p
            by_cases h : t < r.time
            · have : t < bt := by omega
              simp [comb, h, this]; omega
            · simp [comb, h, h1]
        · simp only [h1, if_false, ih]
          cases pickR ts with
          | none => simp [comb, h1]
          | some p =>
            obtain ⟨j, t⟩ := p
            by_cases h : t < r.time
            · by_cases h2 : t < bt <;> simp [comb, h, h2]; omega
            · have : ¬ t < bt := by omega
              simp [comb, h, this, h1]

theorem pickIdx_eq (ts : List (List Rec)) : pickIdx ts = (pickR ts).map (·.1) := by
  simp only [pickIdx, pickLoop_eq]
  cases pickR ts with
  | none => simp [comb]
  | some p => obtain ⟨j, t⟩ := p; simp [comb]

theorem pickR_none {ts : List (List Rec)} (h : pickR ts = none) : ∀ j, nth ts j = [] := by
  induction ts with
  | nil => intro j; simp
  | cons t ts ih =>
    cases t with
    | nil =>
      simp only [pickR, Option.map_eq_none_iff] at h
      intro j
      cases j with
      | zero => simp
      | succ j => simpa using ih h j
    | cons r rs =>
      simp only [pickR] at h
      split at h
      · split at h <;> simp at h
      · simp at h

/-- the chosen task has a head record with the chosen time; no task has an earlier head;
    tasks with a lower index have a strictly later head -/
theorem pickR_some {ts : List (List Rec)} {i t : Nat} (h : pickR ts = some (i, t)) :
    (∃ r rest, nth ts i = r :: rest ∧ r.time = t) ∧
    ∀ j r rest, nth ts j = r :: rest → t ≤ r.time ∧ (j < i → t < r.time) := by
  induction ts generalizing i t with
  | nil => simp [pickR] at h
  | cons x ts ih =>
    cases x with
    | nil =>
      simp only [pickR, Option.map_eq_some_iff] at h
      obtain ⟨⟨j, t'⟩, hp, he⟩ := h
      simp only [Prod.mk.injEq] at he
      obtain ⟨rfl, rfl⟩ := he
      have := ih hp
      refine ⟨by simpa using this.1, ?_⟩
      intro k r rest hk
      cases k with
      | zero => simp at hk
      | succ k =>
        have h2 := this.2 k r rest (by simpa using hk)
        exact ⟨h2.1, fun hlt => h2.2 (by omega)⟩
    | cons r0 rs =>
      simp only [pickR] at h
      split at h
      · rename_i j t' hp
        have := ih hp
        split at h
        · rename_i hlt
          simp only [Option.some.injEq, Prod.mk.injEq] at h
          obtain ⟨rfl, rfl⟩ := h
          refine ⟨by simpa using this.1, ?_⟩
          intro k r rest hk
          cases k with
          | zero =>
            simp only [nth_cons_zero, List.cons.injEq] at hk
            obtain ⟨rfl, _⟩ := hk
            exact ⟨by omega, fun _ => hlt⟩
          | succ k =>
            have h2 := this.2 k r rest (by simpa using hk)
            exact ⟨h2.1, fun hlt' => h2.2 (by omega)⟩
        · rename_i hge
          simp only [Option.some.injEq, Prod.mk.injEq] at h
          obtain ⟨rfl, rfl⟩ := h
          refine ⟨⟨r0, rs, by simp, rfl⟩, ?_⟩
          intro k r rest hk
          cases k with
          | zero =>
            simp only [nth_cons_zero, List.cons.injEq] at hk
            obtain ⟨rfl, _⟩ := hk
            exact ⟨by omega, fun hk => by omega⟩
          | succ k =>
            have h2 := this.2 k r rest (by simpa using hk)
            exact ⟨by omega, fun hk => by omega⟩
      · rename_i hp
        simp only [Option.some.injEq, Prod.mk.injEq] at h
        obtain ⟨rfl, rfl⟩ := h
        refine ⟨⟨r0, rs, by simp, rfl⟩, ?_⟩
        intro k r rest hk
        cases k with
        | zero =>
          simp only [nth_cons_zero, List.cons.injEq] at hk
          obtain ⟨rfl, _⟩ := hk
          exact ⟨by omega, fun hk => by omega⟩
        | succ k =>
          have := pickR_none hp k
          simp only [nth_cons_succ] at hk
          rw [this] at hk
          simp at hk

/-- a converse: any index satisfying the specification is the one chosen -/
theorem pickR_unique {ts : List (List Rec)} {i : Nat} {r : Rec} {rest : List Rec}
    (hi : nth ts i = r :: rest)
    (hmin : ∀ j r' rest', nth ts j = r' :: rest' → r.time ≤ r'.time ∧ (j < i → r.time < r'.time)) :
    pickR ts = some (i, r.time) := by
  cases hp : pickR ts with
  | none => have := pickR_none hp i; rw [this] at hi; simp at hi
  | some p =>
    obtain ⟨k, t⟩ := p
    obtain ⟨⟨r2, rest2, hk, ht⟩, hall⟩ := pickR_some hp
    have a := hall i r rest hi
    have b := hmin k r2 rest2 hk
    have hki : k = i := by
      rcases Nat.lt_trichotomy k i with h | h | h
      · have := b.2 h; omega
      · exact h
      · have := a.2 h; omega
    subst hki
    rw [hi] at hk
    simp only [List.cons.injEq] at hk
    obtain ⟨rfl, _⟩ := hk
    simp [ht]

/-! ### list plumbing -/

theorem nth_set (ts : List (List Rec)) (i j : Nat) (x : List Rec) :
    nth (ts.set i x) j = if i = j ∧ i < ts.length then x else nth ts j := by
  induction ts generalizing i j with
  | nil => simp
  | cons t ts ih =>
    cases i with
    | zero =>
      cases j with
      | zero => simp
      | succ j => simp
    | succ i =>
      cases j with
      | zero => simp
      | succ j => simp [ih]

theorem lt_length_of_nth {ts : List (List Rec)} {i : Nat} {r : Rec} {rest : List Rec}
    (h : nth ts i = r :: rest) : i < ts.length := by
  induction ts generalizing i with
  | nil => simp at h
  | cons t ts ih =>
    cases i with
    | zero => simp
    | succ i => simp only [nth_cons_succ] at h; have := ih h; simp; omega

theorem nth_eq_getD (ts : List (List Rec)) (i : Nat) : nth ts i = ts.getD i [] := by
  induction ts generalizing i with
  | nil => simp
  | cons t ts ih => cases i <;> simp [ih]

theorem nth_mem {ts : List (List Rec)} {i : Nat} (h : i < ts.length) : nth ts i ∈ ts := by
  induction ts generalizing i with
  | nil => simp at h
  | cons t ts ih =>
    cases i with
    | zero => simp
    | succ i => simp only [nth_cons_succ]; exact List.mem_cons_of_mem _ (ih (by simpa using h))

theorem nth_of_length_le {ts : List (List Rec)} {i : Nat} (h : ts.length ≤ i) : nth ts i = [] := by
  induction ts generalizing i with
  | nil => simp
  | cons t ts ih =>
    cases i with
    | zero => simp at h
    | succ i => simp only [nth_cons_succ]; exact ih (by simpa using h)

theorem total_set {ts : List (List Rec)} {i : Nat} {r : Rec} {rest : List Rec}
    (h : nth ts i = r :: rest) : total (ts.set i rest) + 1 = total ts := by
  induction ts generalizing i with
  | nil => simp at h
  | cons t ts ih =>
    cases i with
    | zero =>
      simp only [nth_cons_zero] at h
      subst h
      simp [total]; omega
    | succ i =>
      simp only [nth_cons_succ] at h
      have := ih h
      simp only [total, List.set_cons_succ, List.map_cons, List.sum_cons] at this ⊢
      omega

theorem total_zero {ts : List (List Rec)} (h : total ts = 0) : ∀ j, nth ts j = [] := by
  induction ts with
  | nil => intro j; simp
  | cons t ts ih =>
    simp only [total, List.map_cons, List.sum_cons] at h
    intro j
    cases j with
    | zero => simp; exact List.eq_nil_of_length_eq_zero (by omega)
    | succ j => simpa using ih (by simp only [total]; omega) j

/-! ### the merged stream -/

/-- one unfolding of `mergeFuel`, in terms of the specification of the choice -/
theorem mergeFuel_succ (n : Nat) (ts : List (List Rec)) :
    mergeFuel (n + 1) ts = [] ∧ (∀ j, nth ts j = []) ∨
    ∃ i r rest, nth ts i = r :: rest ∧ pickR ts = some (i, r.time) ∧
      mergeFuel (n + 1) ts = (i, r) :: mergeFuel n (ts.set i rest) := by
  simp only [mergeFuel, pickIdx_eq]
  cases hp : pickR ts with
  | none => left; exact ⟨by simp, pickR_none hp⟩
  | some p =>
    obtain ⟨i, t⟩ := p
    obtain ⟨⟨r, rest, hi, ht⟩, _⟩ := pickR_some hp
    right
    refine ⟨i, r, rest, hi, by rw [ht], ?_⟩
    simp [hi]

theorem mem_mergeFuel {n : Nat} {ts : List (List Rec)} {j : Nat} {s : Rec}
    (h : (j, s) ∈ mergeFuel n ts) : s ∈ nth ts j := by
  induction n generalizing ts with
  | zero => simp [mergeFuel] at h
  | succ n ih =>
    rcases mergeFuel_succ n ts with ⟨he, _⟩ | ⟨i, r, rest, hi, _, he⟩
    · rw [he] at h; simp at h
    · rw [he] at h
      rcases List.mem_cons.1 h with h | h
      · simp only [Prod.mk.injEq] at h
        obtain ⟨rfl, rfl⟩ := h
        rw [hi]; simp
      · have := ih h
        rw [nth_set] at this
        split at this
        · rename_i hc
          rw [← hc.1, hi]; exact List.mem_cons_of_mem _ this
        · exact this

/-- order on the merged stream: by time, then by task index -/
def Lex (a b : Nat × Rec) : Prop := a.2.time < b.2.time ∨ (a.2.time = b.2.time ∧ a.1 ≤ b.1)

def SortedTasks (ts : List (List Rec)) : Prop :=
  ∀ j, (nth ts j).Pairwise (fun a b => a.time ≤ b.time)

theorem sortedTasks_of_forall {ts : List (List Rec)}
    (h : ∀ t ∈ ts, t.Pairwise (fun a b => a.time ≤ b.time)) : SortedTasks ts := by
  intro j
  by_cases hj : j < ts.length
  · exact h _ (nth_mem hj)
  · rw [nth_of_length_le (Nat.le_of_not_lt hj)]; exact List.Pairwise.nil

theorem sortedTasks_set {ts : List (List Rec)} {i : Nat} {r : Rec} {rest : List Rec}
    (hs : SortedTasks ts) (hi : nth ts i = r :: rest) : SortedTasks (ts.set i rest) := by
  intro j
  rw [nth_set]
  split
  · have := hs i; rw [hi] at this; exact (List.pairwise_cons.1 this).2
  · exact hs j

theorem mergeFuel_lex (n : Nat) (ts : List (List Rec)) (hs : SortedTasks ts) :
    (mergeFuel n ts).Pairwise Lex := by
  induction n generalizing ts with
  | zero => simp [mergeFuel]
  | succ n ih =>
    rcases mergeFuel_succ n ts with ⟨he, _⟩ | ⟨i, r, rest, hi, hp, he⟩
    · rw [he]; exact List.Pairwise.nil
    · rw [he]
      refine List.pairwise_cons.2 ⟨?_, ih _ (sortedTasks_set hs hi)⟩
      intro ⟨j, s⟩ hm
      have hmem := mem_mergeFuel hm
      rw [nth_set] at hmem
      obtain ⟨_, hall⟩ := pickR_some hp
      have hsi := hs i
      rw [hi] at hsi
      have hhead := (List.pairwise_cons.1 hsi).1
      split at hmem
      · rename_i hc
        have := hhead s hmem
        simp only [Lex]
        rcases Nat.lt_or_ge r.time s.time with h | h
        · left; exact h
        · right; exact ⟨by omega, by omega⟩
      · rename_i hc
        -- s is in task j's remaining records; compare with that task's head
        cases hj : nth ts j with
        | nil => rw [hj] at hmem; simp at hmem
        | cons r' rest' =>
          have hb := hall j r' rest' hj
          have hsj := hs j
          rw [hj] at hsj hmem
          have hle : r'.time ≤ s.time := by
            rcases List.mem_cons.1 hmem with h | h
            · subst h; exact Nat.le_refl _
            · exact (List.pairwise_cons.1 hsj).1 s h
          simp only [Lex]
          by_cases hji : j < i
          · left; have := hb.2 hji; omega
          · rcases Nat.lt_or_ge r.time s.time with h | h
            · left; exact h
            · right
              refine ⟨by omega, ?_⟩
              have : i ≠ j := fun e => hc ⟨e, lt_length_of_nth hi⟩
              omega

theorem mergeFuel_filter (n : Nat) (ts : List (List Rec)) (hn : total ts ≤ n) (i : Nat) :
    ((mergeFuel n ts).filter (fun p => p.1 == i)).map (·.2) = nth ts i := by
  induction n generalizing ts with
  | zero => simp [mergeFuel, total_zero (Nat.le_zero.1 hn) i]
  | succ n ih =>
    rcases mergeFuel_succ n ts with ⟨he, hall⟩ | ⟨i0, r, rest, hi, _, he⟩
    · rw [he, hall i]; simp
    · rw [he]
      have ht := total_set hi
      have := ih (ts.set i0 rest) (by omega)
      simp only [List.filter_cons]
      by_cases h : i0 = i
      · subst h
        simp only [beq_self_eq_true, if_true, List.map_cons, this, nth_set]
        simp [lt_length_of_nth hi, hi]
      · have hb : (i0 == i) = false := by simp [h]
        simp only [hb, Bool.false_eq_true, if_false]
        rw [this, nth_set]
        simp [h]

/-- the amount of fuel does not matter once it covers all records -/
theorem mergeFuel_fuel (n m : Nat) (ts : List (List Rec)) (hn : total ts ≤ n) (hm : total ts ≤ m) :
    mergeFuel n ts = mergeFuel m ts := by
  induction n generalizing ts m with
  | zero =>
    have h0 := total_zero (Nat.le_zero.1 hn)
    cases m with
    | zero => rfl
    | succ m =>
      rcases mergeFuel_succ m ts with ⟨he, _⟩ | ⟨i, r, rest, hi, _, _⟩
      · rw [he]; simp [mergeFuel]
      · rw [h0 i] at hi; simp at hi
  | succ n ih =>
    rcases mergeFuel_succ n ts with ⟨he, hall⟩ | ⟨i, r, rest, hi, hp, he⟩
    · rw [he]
      cases m with
      | zero => simp [mergeFuel]
      | succ m =>
        rcases mergeFuel_succ m ts with ⟨he2, _⟩ | ⟨i, r, rest, hi, _, _⟩
        · rw [he2]
        · rw [hall i] at hi; simp at hi
    · have ht := total_set hi
      cases m with
      | zero => omega
      | succ m =>
        rcases mergeFuel_succ m ts with ⟨_, hall⟩ | ⟨i2, r2, rest2, hi2, hp2, he2⟩
        · rw [hall i] at hi; simp at hi
        · rw [hp] at hp2
          simp only [Option.some.injEq, Prod.mk.injEq] at hp2
          obtain ⟨rfl, _⟩ := hp2
          rw [hi] at hi2
          simp only [List.cons.injEq] at hi2
          obtain ⟨rfl, rfl⟩ := hi2
          rw [he, he2, ih m _ (by omega) (by omega)]

/-! ### `--tid`: merging a selection of the tasks -/

theorem nth_select_go (sel : Nat → Bool) (ts : List (List Rec)) :
    ∀ k j, nth (selectTasks.go sel k ts) j = if sel (k + j) then nth ts j else [] := by
  induction ts with
  | nil => intro k j; simp [selectTasks.go]
  | cons t ts ih =>
    intro k j
    cases j with
    | zero => simp [selectTasks.go]
    | succ j =>
      simp only [selectTasks.go, nth_cons_succ, ih]
      have : k + 1 + j = k + (j + 1) := by omega
      rw [this]

theorem nth_select (sel : Nat → Bool) (ts : List (List Rec)) (j : Nat) :
    nth (selectTasks sel ts) j = if sel j then nth ts j else [] := by
  simp [selectTasks, nth_select_go]

theorem mergeFuel_step {n : Nat} {ts : List (List Rec)} {i : Nat} {r : Rec} {rest : List Rec}
    (hi : nth ts i = r :: rest) (hp : pickR ts = some (i, r.time)) :
    mergeFuel (n + 1) ts = (i, r) :: mergeFuel n (ts.set i rest) := by
  simp [mergeFuel, pickIdx_eq, hp, hi]

theorem mergeFuel_empty {n : Nat} {ts : List (List Rec)} (h : ∀ j, nth ts j = []) : mergeFuel n ts = [] := by
  cases n with
  | zero => rfl
  | succ n =>
    rcases mergeFuel_succ n ts with ⟨he, _⟩ | ⟨i, r, rest, hi, _, _⟩
    · exact he
    · rw [h i] at hi; simp at hi

/-- the merged stream depends only on the per-task record lists, not on how the list of tasks is padded -/
theorem mergeFuel_congr (n : Nat) : ∀ (ts ts' : List (List Rec)), (∀ j, nth ts j = nth ts' j) →
    mergeFuel n ts = mergeFuel n ts' := by
  induction n with
  | zero => intro ts ts' _; rfl
  | succ n ih =>
    intro ts ts' h
    rcases mergeFuel_succ n ts with ⟨he, hall⟩ | ⟨i, r, rest, hi, hp, he⟩
    · rw [he, mergeFuel_empty (fun j => by rw [← h j]; exact hall j)]
    · have hi' : nth ts' i = r :: rest := by rw [← h i]; exact hi
      have hp' : pickR ts' = some (i, r.time) := by
        refine pickR_unique hi' ?_
        intro j r' rest' hj
        exact (pickR_some hp).2 j r' rest' (by rw [h j]; exact hj)
      rw [he, mergeFuel_step hi' hp']
      congr 1
      apply ih
      intro j
      rw [nth_set, nth_set, h j]
      simp [lt_length_of_nth hi, lt_length_of_nth hi']

theorem select_go_set_sel (sel : Nat → Bool) (x : List Rec) (ts : List (List Rec)) :
    ∀ k i, sel (k + i) = true → selectTasks.go sel k (ts.set i x) = (selectTasks.go sel k ts).set i x := by
  induction ts with
  | nil => intro k i _; simp [selectTasks.go]
  | cons t ts ih =>
    intro k i h
    cases i with
    | zero => simp only [Nat.add_zero] at h; simp [selectTasks.go, h]
    | succ i =>
      simp only [List.set_cons_succ, selectTasks.go]
      rw [ih (k + 1) i (by rw [← h]; congr 1; omega)]

theorem select_go_set_not_sel (sel : Nat → Bool) (x : List Rec) (ts : List (List Rec)) :
    ∀ k i, sel (k + i) = false → selectTasks.go sel k (ts.set i x) = selectTasks.go sel k ts := by
  induction ts with
  | nil => intro k i _; simp [selectTasks.go]
  | cons t ts ih =>
    intro k i h
    cases i with
    | zero => simp only [Nat.add_zero] at h; simp [selectTasks.go, h]
    | succ i =>
      simp only [List.set_cons_succ, selectTasks.go]
      rw [ih (k + 1) i (by rw [← h]; congr 1; omega)]

theorem total_select_go_le (sel : Nat → Bool) (ts : List (List Rec)) :
    ∀ k, total (selectTasks.go sel k ts) ≤ total ts := by
  induction ts with
  | nil => intro k; simp [selectTasks.go, total]
  | cons t ts ih =>
    intro k
    have := ih (k + 1)
    simp only [total, selectTasks.go, List.map_cons, List.sum_cons] at this ⊢
    split <;> simp <;> omega

theorem mergeFuel_select (sel : Nat → Bool) (n : Nat) :
    ∀ (ts : List (List Rec)), total ts ≤ n →
      mergeFuel n (selectTasks sel ts) = (mergeFuel n ts).filter (fun p => sel p.1) := by
  induction n with
  | zero =>
    intro ts _
    simp [mergeFuel]
  | succ n ih =>
    intro ts hn
    rcases mergeFuel_succ n ts with ⟨he, hall⟩ | ⟨i, r, rest, hi, hp, he⟩
    · rw [he, mergeFuel_empty]
      · simp
      · intro j; rw [nth_select, hall j]; simp
    · rw [he]
      have ht := total_set hi
      by_cases hs : sel i = true
      · have hi' : nth (selectTasks sel ts) i = r :: rest := by rw [nth_select, hs]; simpa using hi
        have hp' : pickR (selectTasks sel ts) = some (i, r.time) := by
          refine pickR_unique hi' ?_
          intro j r' rest' hj
          rw [nth_select] at hj
          split at hj
          · exact (pickR_some hp).2 j r' rest' hj
          · simp at hj
        rw [mergeFuel_step hi' hp']
        simp only [List.filter_cons, hs, if_true]
        congr 1
        rw [← ih (ts.set i rest) (by omega)]
        simp only [selectTasks]
        rw [select_go_set_sel sel rest ts 0 i (by simpa using hs)]
      · have hs : sel i = false := by simpa using hs
        simp only [List.filter_cons, hs, Bool.false_eq_true, if_false]
        rw [← ih (ts.set i rest) (by omega)]
        have hsel : selectTasks sel (ts.set i rest) = selectTasks sel ts := by
          simp only [selectTasks]
          exact select_go_set_not_sel sel rest ts 0 i (by simpa using hs)
        rw [hsel]
        have hle : total (selectTasks sel ts) ≤ n := by
          rw [← hsel]
          have := total_select_go_le sel (ts.set i rest) 0
          simp only [selectTasks]
          omega
        exact mergeFuel_fuel (n + 1) n _ (by omega) hle

/-- `--tid`: the merged stream of the selected tasks is the full merged stream restricted to them -/
theorem merge_select (sel : Nat → Bool) (ts : List (List Rec)) :
    merge (selectTasks sel ts) = (merge ts).filter (fun p => sel p.1) := by
  unfold merge
  rw [← mergeFuel_select sel (total ts) ts (Nat.le_refl _)]
  exact mergeFuel_fuel _ _ _ (Nat.le_refl _) (total_select_go_le sel ts 0)

end Uft.Merge
