import Uft.Model.Demangle
/-!
# C13 — lemmas about the demangler model

A small Hoare-style framework (`Tri e st m Q`: from state `st` the computation `m`
returns normally with a result and state satisfying `Q`) with one summary rule
per primitive and per leaf grammar function, used in `DemangleSpec.lean` to prove
a summary (`Post`) of every grammar function by induction on the fuel.
-/
namespace Uft.Demangle
open Uft.Gen.DemangleTables

/-! ## the monad -/

theorem bind_def {α β} (m : M α) (f : α → M β) (e : Env) (st : St) :
    (m >>= f) e st = match m e st with
      | .ok a st' => f a e st'
      | .crash k => .crash k
      | .fuel => .fuel := rfl

theorem pure_def {α} (a : α) (e : Env) (st : St) : (pure a : M α) e st = .ok a st := rfl

/-- `dd->expected != NULL` as a number (for `omega`) -/
def exN (st : St) : Nat := if st.expected then 1 else 0

theorem exN_le (st : St) : exN st ≤ 1 := by unfold exN; split <;> omega

theorem exN_eq_of {st st' : St} (h : st'.expected = st.expected) : exN st' = exN st := by
  simp [exN, h]

/-- The byte at `dd->len` is the NUL or the `.`/`@` at which `dd_encoding` cut the name. -/
def Stop (e : Env) (l : Nat) : Prop := l = e.n ∨ e.rd l = some 46 ∨ e.rd l = some 64

theorem rd_n (e : Env) : e.rd e.n = some 0 := by simp [Env.rd, Env.n]

theorem rd_le {e : Env} {i : Nat} {c : UInt8} (h : e.rd i = some c) : i ≤ e.n := by
  unfold Env.rd at h
  unfold Env.n
  split at h
  · omega
  · split at h
    · omega
    · cases h

theorem rd_some_of_le (e : Env) {i : Nat} (h : i ≤ e.n) : ∃ c, e.rd i = some c := by
  unfold Env.rd Env.n at *
  by_cases h1 : i < e.s.size
  · exact ⟨_, by simp [h1]⟩
  · have : i = e.s.size := by omega
    exact ⟨0, by simp [this]⟩

theorem rd_lt {e : Env} {i : Nat} {c : UInt8} (h : e.rd i = some c) (hc : c.toNat ≠ 0) : i < e.n := by
  have h1 := rd_le h
  by_cases h2 : i = e.n
  · subst h2
    rw [rd_n] at h
    cases h
    simp at hc
  · omega

/-- a byte that is neither NUL nor `.` nor `@` lies strictly before `dd->len` -/
theorem stop_strict {e : Env} {l i : Nat} {c : UInt8} (hs : Stop e l) (h : e.rd i = some c) (hi : i ≤ l)
    (h0 : c.toNat ≠ 0) (h1 : c.toNat ≠ 46) (h2 : c.toNat ≠ 64) : i < l := by
  by_cases hil : i = l
  · subst hil
    rcases hs with hs | hs | hs
    · subst hs
      rw [rd_n] at h
      cases h
      simp at h0
    · rw [hs] at h
      cases h
      simp at h1
    · rw [hs] at h
      cases h
      simp at h2
  · omega

/-! ## triples -/

def Tri {α} (e : Env) (st : St) (m : M α) (Q : α → St → Prop) : Prop :=
  ∃ a st', m e st = .ok a st' ∧ Q a st'

theorem tri_pure {α} {e : Env} {st : St} {Q : α → St → Prop} {a : α} (h : Q a st) : Tri e st (pure a) Q :=
  ⟨a, st, rfl, h⟩

theorem tri_bind {α β} {e : Env} {st : St} {m : M α} {f : α → M β} {Q : β → St → Prop}
    (h : Tri e st m (fun a st' => Tri e st' (f a) Q)) : Tri e st (m >>= f) Q := by
  obtain ⟨a, st', hm, b, st'', hf, hq⟩ := h
  exact ⟨b, st'', by rw [bind_def, hm]; exact hf, hq⟩

theorem tri_mono {α} {e : Env} {st : St} {m : M α} {Q Q' : α → St → Prop}
    (h : Tri e st m Q) (hq : ∀ a st', Q a st' → Q' a st') : Tri e st m Q' := by
  obtain ⟨a, st', hm, h⟩ := h
  exact ⟨a, st', hm, hq _ _ h⟩

theorem tri_eof {e : Env} {st : St} {Q : Bool → St → Prop} (h : Q (decide (st.pos ≥ st.len)) st) : Tri e st eof Q :=
  ⟨_, st, rfl, h⟩

theorem tri_getSt {e : Env} {st : St} {Q : St → St → Prop} (h : Q st st) : Tri e st getSt Q := ⟨st, st, rfl, h⟩
theorem tri_getEnv {e : Env} {st : St} {Q : Env → St → Prop} (h : Q e st) : Tri e st getEnv Q := ⟨e, st, rfl, h⟩
theorem tri_getFixes {e : Env} {st : St} {Q : Fixes → St → Prop} (h : Q e.fx st) : Tri e st getFixes Q :=
  ⟨e.fx, st, rfl, h⟩

theorem tri_modifySt {e : Env} {st : St} {f : St → St} {Q : Unit → St → Prop} (h : Q () (f st)) :
    Tri e st (modifySt f) Q := ⟨(), f st, rfl, h⟩

/-- `dd->old[i]` with `i ≤ strlen` -/
theorem tri_rdAt {e : Env} {st : St} {Q : UInt8 → St → Prop} (i : Nat) (hi : i ≤ e.n)
    (h : ∀ c, e.rd i = some c → Q c st) : Tri e st (rdAt i) Q := by
  obtain ⟨c, hc⟩ := rd_some_of_le e hi
  exact ⟨c, st, by simp [rdAt, hc], h c hc⟩

/-- `dd_peek(dd, k)` -/
theorem tri_peek {e : Env} {st : St} {Q : UInt8 → St → Prop} (k : Nat) (hl : st.len ≤ e.n) (hs : Stop e st.len)
    (h : ∀ c, (c.toNat = 0 ∨ c.toNat = 46 ∨ c.toNat = 64 ∨ st.pos + k < st.len) →
          (c.toNat ≠ 0 → e.rd (st.pos + k) = some c) → Q c st) : Tri e st (peek k) Q := by
  unfold peek
  by_cases hk : st.pos + k > st.len
  · refine ⟨0, st, by simp [hk], h 0 (Or.inl rfl) (by simp)⟩
  · obtain ⟨c, hc⟩ := rd_some_of_le e (show st.pos + k ≤ e.n by omega)
    refine ⟨c, st, by simp [hk, hc], h c ?_ (fun _ => hc)⟩
    by_cases h0 : c.toNat = 0
    · exact Or.inl h0
    by_cases h1 : c.toNat = 46
    · exact Or.inr (Or.inl h1)
    by_cases h2 : c.toNat = 64
    · exact Or.inr (Or.inr (Or.inl h2))
    exact Or.inr (Or.inr (Or.inr (stop_strict hs hc (by omega) h0 h1 h2)))

theorem tri_curr {e : Env} {st : St} {Q : UInt8 → St → Prop} (hl : st.len ≤ e.n) (hs : Stop e st.len)
    (h : ∀ c, (c.toNat = 0 ∨ c.toNat = 46 ∨ c.toNat = 64 ∨ st.pos < st.len) →
          (c.toNat ≠ 0 → e.rd st.pos = some c) → Q c st) : Tri e st curr Q :=
  tri_peek 0 hl hs h

/-- `__dd_consume_n(dd, k)` -/
theorem tri_consumeN {e : Env} {st : St} {Q : UInt8 → St → Prop} (k : Nat) (hl : st.len ≤ e.n) (hs : Stop e st.len)
    (h : ∀ c st', st'.len = st.len → exN st' = exN st →
          ((st'.pos = st.pos ∧ st.pos + k > st.len ∧ c.toNat = 0) ∨
           (st'.pos = st.pos + k ∧ st.pos + k ≤ st.len ∧ (c.toNat ≠ 0 → e.rd st.pos = some c))) → Q c st') :
    Tri e st (consumeN k) Q := by
  unfold consumeN
  apply tri_bind
  apply tri_curr hl hs
  intro c _ hc2
  apply tri_bind
  apply tri_getSt
  by_cases hk : st.pos + k > st.len
  · simp only [hk, ↓reduceIte]
    exact tri_pure (h 0 st rfl rfl (Or.inl ⟨rfl, hk, rfl⟩))
  · simp only [hk, ↓reduceIte]
    apply tri_bind
    apply tri_modifySt
    apply tri_pure
    exact h c _ rfl rfl (Or.inr ⟨rfl, by omega, hc2⟩)

theorem tri_consume {e : Env} {st : St} {Q : UInt8 → St → Prop} (hl : st.len ≤ e.n) (hs : Stop e st.len)
    (h : ∀ c st', st'.len = st.len → exN st' = exN st →
          ((st'.pos = st.pos ∧ st.pos + 1 > st.len ∧ c.toNat = 0) ∨
           (st'.pos = st.pos + 1 ∧ st.pos + 1 ≤ st.len ∧ (c.toNat ≠ 0 → e.rd st.pos = some c))) → Q c st') :
    Tri e st consume Q := tri_consumeN 1 hl hs h

/-- `dd->pos -= k` -/
theorem tri_posBack {e : Env} {st : St} {Q : Unit → St → Prop} (k : Nat) (hk : k ≤ st.pos)
    (h : Q () { st with pos := st.pos - k }) : Tri e st (posBack k) Q := by
  refine ⟨(), _, ?_, h⟩
  simp [posBack]
  omega

/-- `DD_DEBUG(dd, .., -k)` -/
theorem tri_ddDebug {e : Env} {st : St} {Q : Unit → St → Prop} (k : Nat) (hk : k ≤ st.pos)
    (h : ∀ st', st'.len = st.len → st'.pos = st.pos - k → exN st' = 1 → Q () st') : Tri e st (ddDebug k) Q := by
  unfold ddDebug
  apply tri_bind
  apply tri_posBack k hk
  apply tri_bind
  apply tri_modifySt
  apply tri_pure
  exact h _ rfl rfl (by simp [exN])

/-- `DD_DEBUG_CONSUME(dd, c)` -/
theorem tri_debugConsume {e : Env} {st : St} {Q : Bool → St → Prop} (c : UInt8) (hc : c.toNat ≠ 0)
    (hl : st.len ≤ e.n) (hs : Stop e st.len) (hp : 0 < st.pos ∨ st.pos < st.len ∨ exN st = 1)
    (h : ∀ b st', st'.len = st.len → exN st ≤ exN st' →
          (b = true → st'.pos = st.pos + 1 ∧ st.pos + 1 ≤ st.len ∧ exN st' = exN st ∧ e.rd st.pos = some c) →
          (b = false → exN st' = 1 ∧ st.pos ≤ st'.pos + (1 - exN st) ∧ st'.pos ≤ st.pos + 1 ∧
              (st'.pos = st.pos + 1 → st.pos + 1 ≤ st.len)) → Q b st') :
    Tri e st (debugConsume c) Q := by
  unfold debugConsume
  apply tri_bind
  apply tri_consume hl hs
  intro x st1 hl1 he1 hx
  split
  · -- matched
    rename_i hxc
    have hxc : x = c := by simpa using hxc
    subst hxc
    rcases hx with ⟨_, _, h0⟩ | ⟨hp1, hle, hrd⟩
    · exact absurd h0 hc
    · exact tri_pure (h true st1 hl1 (by omega) (fun _ => ⟨hp1, hle, he1, hrd hc⟩) (by simp))
  · apply tri_bind
    apply tri_getSt
    dsimp only
    by_cases hex : st1.expected = true
    · have h1 : exN st1 = 1 := by simp [exN, hex]
      simp only [hex, Bool.not_true, Bool.false_eq_true, ↓reduceIte]
      refine tri_pure (h false st1 hl1 (by omega) (by simp) (fun _ => ⟨h1, ?_, ?_, ?_⟩))
      · rcases hx with ⟨hp1, _, _⟩ | ⟨hp1, _, _⟩ <;> omega
      · rcases hx with ⟨hp1, _, _⟩ | ⟨hp1, _, _⟩ <;> omega
      · rcases hx with ⟨hp1, _, _⟩ | ⟨hp1, hh, _⟩ <;> omega
    · have hex' : st1.expected = false := by simpa using hex
      have h0 : exN st1 = 0 := by simp [exN, hex']
      simp only [hex', Bool.not_false, ↓reduceIte]
      apply tri_bind
      apply tri_posBack 1
      · rcases hx with ⟨hp1, hgt, _⟩ | ⟨hp1, _, _⟩
        · rcases hp with hp | hp | hp <;> omega
        · omega
      apply tri_bind
      apply tri_modifySt
      refine tri_pure (h false _ hl1 (by simp [exN]; exact exN_le _) (by simp) (fun _ => ⟨by simp [exN], ?_, ?_, ?_⟩))
      · simp only
        rcases hx with ⟨hp1, _, _⟩ | ⟨hp1, _, _⟩ <;> omega
      · simp only
        rcases hx with ⟨hp1, _, _⟩ | ⟨hp1, _, _⟩ <;> omega
      · simp only
        rcases hx with ⟨hp1, _, _⟩ | ⟨hp1, hh, _⟩ <;> omega

end Uft.Demangle
