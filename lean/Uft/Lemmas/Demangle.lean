import Uft.Model.Demangle
/-!
# C13 — lemmas about the demangler model

A small Hoare-style framework (`Tri e st m Q`: from state `st` the computation `m`
returns normally with a result and state satisfying `Q`) with one summary rule
per primitive and per leaf grammar function, used in `DemangleSpec.lean` to prove
a summary (`Post`) of every grammar function by induction on the fuel.
-/
namespace Uft.Demangle
open Uft.Gen.DemangleTables

/-! ## the monad -/

theorem bind_def {α β} (m : M α) (f : α → M β) (e : Env) (st : St) :
    (m >>= f) e st = match m e st with
      | .ok a st' => f a e st'
      | .crash k => .crash k
      | .fuel => .fuel := rfl

theorem pure_def {α} (a : α) (e : Env) (st : St) : (pure a : M α) e st = .ok a st := rfl

/-- `dd->expected != NULL` as a number (for `omega`) -/
def exN (st : St) : Nat := if st.expected then 1 else 0

theorem exN_le (st : St) : exN st ≤ 1 := by unfold exN; split <;> omega

theorem exN_eq_of {st st' : St} (h : st'.expected = st.expected) : exN st' = exN st := by
  simp [exN, h]

/-- The byte at `dd->len` is the NUL or the `.`/`@` at which `dd_encoding` cut the name. -/
def Stop (e : Env) (l : Nat) : Prop := l = e.n ∨ e.rd l = some 46 ∨ e.rd l = some 64

theorem rd_n (e : Env) : e.rd e.n = some 0 := by simp [Env.rd, Env.n]

theorem rd_le {e : Env} {i : Nat} {c : UInt8} (h : e.rd i = some c) : i ≤ e.n := by
  unfold Env.rd at h
  unfold Env.n
  split at h
  · omega
  · split at h
    · omega
    · cases h

theorem rd_some_of_le (e : Env) {i : Nat} (h : i ≤ e.n) : ∃ c, e.rd i = some c := by
  unfold Env.rd Env.n at *
  by_cases h1 : i < e.s.size
  · exact ⟨e.s[i], by simp [h1]⟩
  · have : i = e.s.size := by omega
    exact ⟨0, by simp [this]⟩

theorem rd_lt {e : Env} {i : Nat} {c : UInt8} (h : e.rd i = some c) (hc : c.toNat ≠ 0) : i < e.n := by
  have h1 := rd_le h
  by_cases h2 : i = e.n
  · subst h2
    rw [rd_n] at h
    cases h
    simp at hc
  · omega

/-- a byte that is neither NUL nor `.` nor `@` lies strictly before `dd->len` -/
theorem stop_strict {e : Env} {l i : Nat} {c : UInt8} (hs : Stop e l) (h : e.rd i = some c) (hi : i ≤ l)
    (h0 : c.toNat ≠ 0) (h1 : c.toNat ≠ 46) (h2 : c.toNat ≠ 64) : i < l := by
  by_cases hil : i = l
  · subst hil
    rcases hs with hs | hs | hs
    · subst hs
      rw [rd_n] at h
      cases h
      simp at h0
    · rw [hs] at h
      cases h
      simp at h1
    · rw [hs] at h
      cases h
      simp at h2
  · omega

/-! ## triples -/

def Tri {α} (e : Env) (st : St) (m : M α) (Q : α → St → Prop) : Prop :=
  ∃ a st', m e st = .ok a st' ∧ Q a st'

theorem tri_pure {α} {e : Env} {st : St} {Q : α → St → Prop} {a : α} (h : Q a st) : Tri e st (pure a) Q :=
  ⟨a, st, rfl, h⟩

theorem tri_bind {α β} {e : Env} {st : St} {m : M α} {f : α → M β} {Q : β → St → Prop}
    (h : Tri e st m (fun a st' => Tri e st' (f a) Q)) : Tri e st (m >>= f) Q := by
  obtain ⟨a, st', hm, b, st'', hf, hq⟩ := h
  exact ⟨b, st'', by rw [bind_def, hm]; exact hf, hq⟩

theorem tri_mono {α} {e : Env} {st : St} {m : M α} {Q Q' : α → St → Prop}
    (h : Tri e st m Q) (hq : ∀ a st', Q a st' → Q' a st') : Tri e st m Q' := by
  obtain ⟨a, st', hm, h⟩ := h
  exact ⟨a, st', hm, hq _ _ h⟩

theorem tri_ite {α} {e : Env} {st : St} {c : Prop} [Decidable c] {A B : M α} {Q : α → St → Prop}
    (hT : c → Tri e st A Q) (hF : ¬c → Tri e st B Q) : Tri e st (if c then A else B) Q := by
  by_cases h : c
  · simpa [h] using hT h
  · simpa [h] using hF h

theorem tri_eof {e : Env} {st : St} {Q : Bool → St → Prop} (h : Q (decide (st.pos ≥ st.len)) st) : Tri e st eof Q :=
  ⟨_, st, rfl, h⟩

theorem tri_getSt {e : Env} {st : St} {Q : St → St → Prop} (h : Q st st) : Tri e st getSt Q := ⟨st, st, rfl, h⟩
theorem tri_getEnv {e : Env} {st : St} {Q : Env → St → Prop} (h : Q e st) : Tri e st getEnv Q := ⟨e, st, rfl, h⟩
theorem tri_getFixes {e : Env} {st : St} {Q : Fixes → St → Prop} (h : Q e.fx st) : Tri e st getFixes Q :=
  ⟨e.fx, st, rfl, h⟩

theorem tri_modifySt {e : Env} {st : St} {f : St → St} {Q : Unit → St → Prop} (h : Q () (f st)) :
    Tri e st (modifySt f) Q := ⟨(), f st, rfl, h⟩

/-- `dd->old[i]` with `i ≤ strlen` -/
theorem tri_rdAt {e : Env} {st : St} {Q : UInt8 → St → Prop} (i : Nat) (hi : i ≤ e.n)
    (h : ∀ c, e.rd i = some c → Q c st) : Tri e st (rdAt i) Q := by
  obtain ⟨c, hc⟩ := rd_some_of_le e hi
  exact ⟨c, st, by simp [rdAt, hc], h c hc⟩

/-- `dd_peek(dd, k)` -/
theorem tri_peek {e : Env} {st : St} {Q : UInt8 → St → Prop} (k : Nat) (hl : st.len ≤ e.n) (hs : Stop e st.len)
    (h : ∀ c, (c.toNat = 0 ∨ c.toNat = 46 ∨ c.toNat = 64 ∨ st.pos + k < st.len) →
          (c.toNat ≠ 0 → e.rd (st.pos + k) = some c) → Q c st) : Tri e st (peek k) Q := by
  unfold peek
  by_cases hk : st.pos + k > st.len
  · refine ⟨0, st, by simp [hk], h 0 (Or.inl rfl) (by simp)⟩
  · obtain ⟨c, hc⟩ := rd_some_of_le e (show st.pos + k ≤ e.n by omega)
    refine ⟨c, st, by simp [hk, hc], h c ?_ (fun _ => hc)⟩
    by_cases h0 : c.toNat = 0
    · exact Or.inl h0
    by_cases h1 : c.toNat = 46
    · exact Or.inr (Or.inl h1)
    by_cases h2 : c.toNat = 64
    · exact Or.inr (Or.inr (Or.inl h2))
    exact Or.inr (Or.inr (Or.inr (stop_strict hs hc (by omega) h0 h1 h2)))

theorem tri_curr {e : Env} {st : St} {Q : UInt8 → St → Prop} (hl : st.len ≤ e.n) (hs : Stop e st.len)
    (h : ∀ c, (c.toNat = 0 ∨ c.toNat = 46 ∨ c.toNat = 64 ∨ st.pos < st.len) →
          (c.toNat ≠ 0 → e.rd st.pos = some c) → Q c st) : Tri e st curr Q :=
  tri_peek 0 hl hs h

/-- `__dd_consume_n(dd, k)` -/
theorem tri_consumeN {e : Env} {st : St} {Q : UInt8 → St → Prop} (k : Nat) (hl : st.len ≤ e.n) (hs : Stop e st.len)
    (h : ∀ c st', st'.len = st.len → exN st' = exN st →
          ((st'.pos = st.pos ∧ st.pos + k > st.len ∧ c.toNat = 0) ∨
           (st'.pos = st.pos + k ∧ st.pos + k ≤ st.len ∧ (c.toNat ≠ 0 → e.rd st.pos = some c))) → Q c st') :
    Tri e st (consumeN k) Q := by
  unfold consumeN
  apply tri_bind
  apply tri_curr hl hs
  intro c _ hc2
  apply tri_bind
  apply tri_getSt
  by_cases hk : st.pos + k > st.len
  · simp only [hk, ↓reduceIte]
    exact tri_pure (h 0 st rfl rfl (Or.inl ⟨rfl, hk, rfl⟩))
  · simp only [hk, ↓reduceIte]
    apply tri_bind
    apply tri_modifySt
    apply tri_pure
    exact h c _ rfl rfl (Or.inr ⟨rfl, by omega, hc2⟩)

theorem tri_consume {e : Env} {st : St} {Q : UInt8 → St → Prop} (hl : st.len ≤ e.n) (hs : Stop e st.len)
    (h : ∀ c st', st'.len = st.len → exN st' = exN st →
          ((st'.pos = st.pos ∧ st.pos + 1 > st.len ∧ c.toNat = 0) ∨
           (st'.pos = st.pos + 1 ∧ st.pos + 1 ≤ st.len ∧ (c.toNat ≠ 0 → e.rd st.pos = some c))) → Q c st') :
    Tri e st consume Q := tri_consumeN 1 hl hs h

/-- `dd->pos -= k` -/
theorem tri_posBack {e : Env} {st : St} {Q : Unit → St → Prop} (k : Nat) (hk : k ≤ st.pos)
    (h : Q () { st with pos := st.pos - k }) : Tri e st (posBack k) Q := by
  refine ⟨(), _, ?_, h⟩
  simp [posBack]
  omega

/-- `DD_DEBUG(dd, .., -k)` -/
theorem tri_ddDebug {e : Env} {st : St} {Q : Unit → St → Prop} (k : Nat) (hk : k ≤ st.pos)
    (h : ∀ st', st'.len = st.len → st'.pos = st.pos - k → exN st' = 1 → Q () st') : Tri e st (ddDebug k) Q := by
  unfold ddDebug
  apply tri_bind
  apply tri_posBack k hk
  apply tri_modifySt
  exact h _ rfl rfl (by simp [exN])

/-- `DD_DEBUG_CONSUME(dd, c)` -/
theorem tri_debugConsume {e : Env} {st : St} {Q : Bool → St → Prop} (c : UInt8) (hc : c.toNat ≠ 0)
    (hl : st.len ≤ e.n) (hs : Stop e st.len) (hp : 0 < st.pos ∨ st.pos < st.len ∨ exN st = 1)
    (h : ∀ b st', st'.len = st.len → exN st ≤ exN st' →
          (b = true → st'.pos = st.pos + 1 ∧ st.pos + 1 ≤ st.len ∧ exN st' = exN st ∧ e.rd st.pos = some c) →
          (b = false → exN st' = 1 ∧ st.pos ≤ st'.pos + (1 - exN st) ∧ st'.pos ≤ st.pos + 1 ∧
              (st'.pos = st.pos + 1 → st.pos + 1 ≤ st.len) ∧ (st.pos < st.len → st.pos ≤ st'.pos)) → Q b st') :
    Tri e st (debugConsume c) Q := by
  unfold debugConsume
  apply tri_bind
  apply tri_consume hl hs
  intro x st1 hl1 he1 hx
  split
  · -- matched
    rename_i hxc
    have hxc : x = c := by simpa using hxc
    subst hxc
    rcases hx with ⟨_, _, h0⟩ | ⟨hp1, hle, hrd⟩
    · exact absurd h0 hc
    · exact tri_pure (h true st1 hl1 (by omega) (fun _ => ⟨hp1, hle, he1, hrd hc⟩) (by simp))
  · apply tri_bind
    apply tri_getSt
    dsimp only
    by_cases hex : st1.expected = true
    · have h1 : exN st1 = 1 := by simp [exN, hex]
      simp only [hex, Bool.not_true, Bool.false_eq_true, ↓reduceIte]
      refine tri_pure (h false st1 hl1 (by omega) (by simp) (fun _ => ⟨h1, ?_, ?_, ?_, ?_⟩))
      · rcases hx with ⟨hp1, _, _⟩ | ⟨hp1, _, _⟩ <;> omega
      · rcases hx with ⟨hp1, _, _⟩ | ⟨hp1, _, _⟩ <;> omega
      · rcases hx with ⟨hp1, _, _⟩ | ⟨hp1, hh, _⟩ <;> omega
      · rcases hx with ⟨hp1, _, _⟩ | ⟨hp1, hh, _⟩ <;> omega
    · have hex' : st1.expected = false := by simpa using hex
      have h0 : exN st1 = 0 := by simp [exN, hex']
      simp only [hex', Bool.not_false, ↓reduceIte]
      apply tri_bind
      apply tri_posBack 1
      · rcases hx with ⟨hp1, hgt, _⟩ | ⟨hp1, _, _⟩
        · rcases hp with hp | hp | hp <;> omega
        · omega
      apply tri_bind
      apply tri_modifySt
      refine tri_pure (h false _ hl1 (by simp [exN]; exact exN_le _) (by simp) (fun _ => ⟨by simp [exN], ?_, ?_, ?_, ?_⟩))
      · simp only
        rcases hx with ⟨hp1, _, _⟩ | ⟨hp1, _, _⟩ <;> omega
      · simp only
        rcases hx with ⟨hp1, _, _⟩ | ⟨hp1, _, _⟩ <;> omega
      · simp only
        rcases hx with ⟨hp1, _, _⟩ | ⟨hp1, hh, _⟩ <;> omega
      · simp only
        rcases hx with ⟨hp1, _, _⟩ | ⟨hp1, hh, _⟩ <;> omega

/-! ## summary rules (fresh post-states, invariant pieces handed on) -/

section rules
variable {e : Env} {st : St}

/-- what is known about a peeked byte (opaque to `omega`; unfolded on demand by `fin`) -/
def PeekFact (e : Env) (st : St) (k : Nat) (c : UInt8) : Prop :=
  (c.toNat = 0 ∨ c.toNat = 46 ∨ c.toNat = 64 ∨ st.pos + k < st.len) ∧ (c.toNat ≠ 0 → e.rd (st.pos + k) = some c)

theorem s_peek {Q : UInt8 → St → Prop} (k : Nat) (hl : st.len ≤ e.n) (hs : Stop e st.len)
    (h : ∀ c, PeekFact e st k c → Q c st) : Tri e st (peek k) Q :=
  tri_peek k hl hs fun c h1 h2 => h c ⟨h1, h2⟩

theorem s_eof {Q : Bool → St → Prop} (hT : st.len ≤ st.pos → Q true st) (hF : st.pos < st.len → Q false st) :
    Tri e st eof Q := by
  apply tri_eof
  by_cases h : st.pos ≥ st.len
  · simpa [h] using hT h
  · simpa [h] using hF (by omega)

theorem s_curr {Q : UInt8 → St → Prop} (hl : st.len ≤ e.n) (hs : Stop e st.len)
    (h : ∀ c, PeekFact e st 0 c → Q c st) : Tri e st curr Q :=
  tri_curr hl hs fun c h1 h2 => h c ⟨by simpa using h1, by simpa using h2⟩

theorem s_consumeN {Q : UInt8 → St → Prop} (k : Nat) (hl : st.len ≤ e.n) (hp : st.pos ≤ e.n) (hs : Stop e st.len)
    (hFail : ∀ c st', st'.len = st.len → st'.len ≤ e.n → st'.pos ≤ e.n → Stop e st'.len → exN st' = exN st →
          st'.pos = st.pos → st.len < st.pos + k → c.toNat = 0 → Q c st')
    (hOk : ∀ c st', st'.len = st.len → st'.len ≤ e.n → st'.pos ≤ e.n → Stop e st'.len → exN st' = exN st →
          st'.pos = st.pos + k → st.pos + k ≤ st.len → (c.toNat ≠ 0 → e.rd st.pos = some c) → Q c st') :
    Tri e st (consumeN k) Q := by
  apply tri_consumeN k hl hs
  intro c st' h1 h2 h3
  rcases h3 with ⟨h3, h4, h5⟩ | ⟨h3, h4, h5⟩
  · exact hFail c st' h1 (by omega) (by omega) (by rw [h1]; exact hs) h2 h3 (by omega) h5
  · exact hOk c st' h1 (by omega) (by omega) (by rw [h1]; exact hs) h2 h3 h4 h5

theorem s_consume {Q : UInt8 → St → Prop} (hl : st.len ≤ e.n) (hp : st.pos ≤ e.n) (hs : Stop e st.len)
    (hFail : ∀ c st', st'.len = st.len → st'.len ≤ e.n → st'.pos ≤ e.n → Stop e st'.len → exN st' = exN st →
          st'.pos = st.pos → st.len < st.pos + 1 → c.toNat = 0 → Q c st')
    (hOk : ∀ c st', st'.len = st.len → st'.len ≤ e.n → st'.pos ≤ e.n → Stop e st'.len → exN st' = exN st →
          st'.pos = st.pos + 1 → st.pos + 1 ≤ st.len → (c.toNat ≠ 0 → e.rd st.pos = some c) → Q c st') :
    Tri e st consume Q := s_consumeN 1 hl hp hs hFail hOk

theorem s_ddDebug {Q : Unit → St → Prop} (k : Nat) (hl : st.len ≤ e.n) (hp : st.pos ≤ e.n) (hs : Stop e st.len)
    (hk : k ≤ st.pos)
    (h : ∀ st', st'.len = st.len → st'.len ≤ e.n → st'.pos ≤ e.n → Stop e st'.len → st'.pos = st.pos - k →
          exN st' = 1 → exN st ≤ exN st' → Q () st') : Tri e st (ddDebug k) Q := by
  apply tri_ddDebug k hk
  intro st' h1 h2 h3
  exact h st' h1 (by omega) (by omega) (by rw [h1]; exact hs) h2 h3 (by have := exN_le st; omega)

theorem s_debugConsume {Q : Bool → St → Prop} (c : UInt8) (hc : c.toNat ≠ 0)
    (hl : st.len ≤ e.n) (hp : st.pos ≤ e.n) (hs : Stop e st.len) (hpos : 0 < st.pos ∨ st.pos < st.len ∨ exN st = 1)
    (hT : ∀ st', st'.len = st.len → st'.len ≤ e.n → st'.pos ≤ e.n → Stop e st'.len → exN st' = exN st →
          st'.pos = st.pos + 1 → st.pos + 1 ≤ st.len → e.rd st.pos = some c → Q true st')
    (hF : ∀ st', st'.len = st.len → st'.len ≤ e.n → st'.pos ≤ e.n → Stop e st'.len → exN st ≤ exN st' →
          exN st' = 1 → st.pos ≤ st'.pos + (1 - exN st) → st'.pos ≤ st.pos + 1 →
          (st.pos < st.len → st.pos ≤ st'.pos) → Q false st') :
    Tri e st (debugConsume c) Q := by
  apply tri_debugConsume c hc hl hs hpos
  intro b st' h1 h2 h3 h4
  cases b
  · obtain ⟨h5, h6, h7, _, h9⟩ := h4 rfl
    exact hF st' h1 (by omega) (by omega) (by rw [h1]; exact hs) h2 h5 h6 h7 h9
  · obtain ⟨h5, h6, h7, h8⟩ := h3 rfl
    exact hT st' h1 (by omega) (by omega) (by rw [h1]; exact hs) h7 h5 h6 h8

/-- `if (dd_eof(dd)) A; B` -/
theorem s_eof_if {β} {Q : β → St → Prop} {A B : M β} (hT : st.len ≤ st.pos → Tri e st A Q)
    (hF : st.pos < st.len → Tri e st B Q) :
    Tri e st (eof >>= fun b => if b = true then A else B) Q := by
  apply tri_bind
  apply s_eof
  · intro h; simpa using hT h
  · intro h; simpa using hF h

/-- `DD_DEBUG_CONSUME(dd, c); B` with the macro's `return -1` being `A` -/
theorem s_debugConsume_if {β} {Q : β → St → Prop} {A B : M β} (c : UInt8) (hc : c.toNat ≠ 0)
    (hl : st.len ≤ e.n) (hp : st.pos ≤ e.n) (hs : Stop e st.len) (hpos : 0 < st.pos ∨ st.pos < st.len ∨ exN st = 1)
    (hT : ∀ st', st'.len = st.len → st'.len ≤ e.n → st'.pos ≤ e.n → Stop e st'.len → exN st' = exN st →
          st'.pos = st.pos + 1 → st.pos + 1 ≤ st.len → e.rd st.pos = some c → Tri e st' B Q)
    (hF : ∀ st', st'.len = st.len → st'.len ≤ e.n → st'.pos ≤ e.n → Stop e st'.len → exN st ≤ exN st' →
          exN st' = 1 → st.pos ≤ st'.pos + (1 - exN st) → st'.pos ≤ st.pos + 1 →
          (st.pos < st.len → st.pos ≤ st'.pos) → Tri e st' A Q) :
    Tri e st (debugConsume c >>= fun b => if (!b) = true then A else B) Q := by
  apply tri_bind
  apply s_debugConsume c hc hl hp hs hpos
  · intro st' h1 h2 h3 h4 h5 h6 h7 h8
    simpa using hT st' h1 h2 h3 h4 h5 h6 h7 h8
  · intro st' h1 h2 h3 h4 h5 h6 h7 h8 h9
    simpa using hF st' h1 h2 h3 h4 h5 h6 h7 h8 h9

/-- actions that touch neither `pos` nor `len` nor `expected` -/
class Neutral (m : M Unit) : Prop where
  out : ∀ (e : Env) (st : St), ∃ st', m e st = .ok () st' ∧ st'.pos = st.pos ∧ st'.len = st.len ∧ st'.expected = st.expected

instance : Neutral incLevel := ⟨fun _ _ => ⟨_, rfl, rfl, rfl, rfl⟩⟩
instance : Neutral decLevel := ⟨fun _ _ => ⟨_, rfl, rfl, rfl, rfl⟩⟩
instance : Neutral incType := ⟨fun _ _ => ⟨_, rfl, rfl, rfl, rfl⟩⟩
instance : Neutral decType := ⟨fun _ _ => ⟨_, rfl, rfl, rfl, rfl⟩⟩
instance (bs : List UInt8) : Neutral (appendBytes bs) := ⟨fun _ _ => ⟨_, rfl, rfl, rfl, rfl⟩⟩
instance (bs : List UInt8) : Neutral (appendSeparator bs) := ⟨fun e st => by
  unfold appendSeparator
  by_cases h : st.firstName = true <;> simp [bind_def, getSt, h, modifySt, appendBytes, pure_def]⟩

theorem s_neutral {Q : Unit → St → Prop} (m : M Unit) [hm : Neutral m] (hl : st.len ≤ e.n) (hp : st.pos ≤ e.n)
    (hs : Stop e st.len)
    (h : ∀ st', st'.pos = st.pos → st'.len = st.len → st'.len ≤ e.n → st'.pos ≤ e.n → Stop e st'.len →
          exN st' = exN st → Q () st') : Tri e st m Q := by
  obtain ⟨st', h1, h2, h3, h4⟩ := hm.out e st
  exact ⟨(), st', h1, h st' h2 h3 (by omega) (by omega) (by rw [h3]; exact hs) (exN_eq_of h4)⟩

theorem s_modifySt {Q : Unit → St → Prop} (f : St → St)
    (hf : ∀ st, (f st).pos = st.pos ∧ (f st).len = st.len ∧ (f st).expected = st.expected)
    (hl : st.len ≤ e.n) (hp : st.pos ≤ e.n) (hs : Stop e st.len)
    (h : ∀ st', st'.pos = st.pos → st'.len = st.len → st'.len ≤ e.n → st'.pos ≤ e.n → Stop e st'.len →
          exN st' = exN st → Q () st') : Tri e st (modifySt f) Q := by
  obtain ⟨h2, h3, h4⟩ := hf st
  exact ⟨(), f st, rfl, h _ h2 h3 (by omega) (by omega) (by rw [h3]; exact hs) (exN_eq_of h4)⟩

end rules

/-! ## C library helpers -/

theorem u8_le_iff (a b : UInt8) : a ≤ b ↔ a.toNat ≤ b.toNat := UInt8.le_iff_toNat_le

theorem isDigit_iff (c : UInt8) : isDigit c = true ↔ 48 ≤ c.toNat ∧ c.toNat ≤ 57 := by
  simp [isDigit, u8_le_iff]

theorem digitVal_range {c : UInt8} {d : Nat} (h : digitVal c = some d) :
    c.toNat ≠ 0 ∧ c.toNat ≠ 46 ∧ c.toNat ≠ 64 := by
  unfold digitVal at h
  split at h
  · rename_i h1
    rw [isDigit_iff] at h1
    omega
  · split at h
    · rename_i h1
      simp [u8_le_iff] at h1
      omega
    · split at h
      · rename_i h1
        simp [u8_le_iff] at h1
        omega
      · cases h

theorem scanDigits_spec (e : Env) (base : Nat) : ∀ (k i acc v j : Nat), scanDigits e base k i acc = (v, j) →
    i ≤ j ∧ ∀ t, i ≤ t → t < j → ∃ c d, e.rd t = some c ∧ digitVal c = some d := by
  intro k
  induction k with
  | zero =>
    intro i acc v j h
    simp [scanDigits] at h
    exact ⟨by omega, fun t h1 h2 => by omega⟩
  | succ k ih =>
    intro i acc v j h
    unfold scanDigits at h
    split at h
    · rename_i c hc
      split at h
      · rename_i d hd
        split at h
        · obtain ⟨h1, h2⟩ := ih _ _ _ _ h
          refine ⟨by omega, fun t ht1 ht2 => ?_⟩
          by_cases hti : t = i
          · subst hti
            exact ⟨c, d, hc, hd⟩
          · exact h2 t (by omega) ht2
        · simp at h
          exact ⟨by omega, fun t h1 h2 => by omega⟩
      · simp at h
        exact ⟨by omega, fun t h1 h2 => by omega⟩
    · simp at h
      exact ⟨by omega, fun t h1 h2 => by omega⟩

/-- a run of non-stop bytes starting at or before `l` ends at or before `l` -/
theorem run_le_len {e : Env} {l i j : Nat} (hs : Stop e l) (hi : i ≤ l)
    (h : ∀ t, i ≤ t → t < j → ∃ c d, e.rd t = some c ∧ digitVal c = some d) : j ≤ l := by
  by_cases hj : j ≤ l
  · exact hj
  · exfalso
    obtain ⟨c, d, hc, hd⟩ := h l hi (by omega)
    obtain ⟨h0, h1, h2⟩ := digitVal_range hd
    exact Nat.lt_irrefl _ (stop_strict hs hc (Nat.le_refl _) h0 h1 h2)



theorem getD_eq_some {e : Env} {i : Nat} {c : UInt8} (h : (e.rd i).getD 0 = c) (hc : c.toNat ≠ 0) : e.rd i = some c := by
  cases hr : e.rd i with
  | none => simp [hr] at h; subst h; simp at hc
  | some b => simp [hr] at h; subst h; rfl

theorem scanDigits_first {e : Env} {base k i acc : Nat} {c : UInt8} {d : Nat} (hc : e.rd i = some c)
    (hd : digitVal c = some d) (hb : d < base) :
    i < (scanDigits e base (k + 1) i acc).2 := by
  unfold scanDigits
  simp only [hc, hd, hb, ↓reduceIte]
  have := (scanDigits_spec e base k (i + 1) (acc * base + d) _ _ rfl).1
  omega

theorem strtoul0_spec {e : Env} {l i : Nat} {d : UInt8} (hs : Stop e l) (hl : l ≤ e.n) (hi : i < l)
    (hd : e.rd i = some d) (hdig : isDigit d = true) :
    i < (strtoul0 e i).2 ∧ (strtoul0 e i).2 ≤ l := by
  have hdr := (isDigit_iff d).1 hdig
  have hdv : digitVal d = some (d.toNat - 48) := by simp [digitVal, hdig]
  have hk : e.n + 1 - i = (e.n - i) + 1 := by omega
  unfold strtoul0
  simp only [hd, Option.getD_some]
  split
  · rename_i hc
    simp only [Bool.and_eq_true, Bool.or_eq_true, beq_iff_eq] at hc
    obtain ⟨hc0, hc1⟩ := hc
    have h1 : ∃ c1, e.rd (i + 1) = some c1 ∧ (c1.toNat = 120 ∨ c1.toNat = 88) := by
      rcases hc1 with hc1 | hc1
      · exact ⟨120, getD_eq_some hc1 (by decide), Or.inl rfl⟩
      · exact ⟨88, getD_eq_some hc1 (by decide), Or.inr rfl⟩
    obtain ⟨c1, hr1, hc1v⟩ := h1
    have hi1 : i + 1 < l := stop_strict hs hr1 (by omega) (by omega) (by omega) (by omega)
    split
    · obtain ⟨hij, hrun⟩ := scanDigits_spec e 16 (e.n + 1 - i) (i + 2) 0 _ _ rfl
      exact ⟨by omega, run_le_len hs (show i + 2 ≤ l by omega) hrun⟩
    · exact ⟨by simp, by simp; omega⟩
  · split
    · rename_i hc0
      have hc0 : d = 48 := by simpa using hc0
      rw [hk]
      have h1 := scanDigits_first (k := e.n - i) (acc := 0) (base := 8) hd hdv (by subst hc0; decide)
      obtain ⟨_, hrun⟩ := scanDigits_spec e 8 (e.n - i + 1) i 0 _ _ rfl
      exact ⟨h1, run_le_len hs (by omega) hrun⟩
    · rw [hk]
      have h1 := scanDigits_first (k := e.n - i) (acc := 0) (base := 10) hd hdv (by omega)
      obtain ⟨_, hrun⟩ := scanDigits_spec e 10 (e.n - i + 1) i 0 _ _ rfl
      exact ⟨h1, run_le_len hs (by omega) hrun⟩


theorem u8_eq_iff (a b : UInt8) : a = b ↔ a.toNat = b.toNat := UInt8.toNat_inj.symm

/-- normalise the char / Bool tests produced by `split` so that `omega` can use them -/
macro "norm_tests" : tactic => `(tactic|
  simp only [beq_iff_eq, bne_iff_ne, ne_eq, Bool.and_eq_true, Bool.or_eq_true, Bool.not_eq_true', Bool.not_eq_true,
    Bool.not_true, Bool.not_false, decide_eq_true_eq, decide_eq_false_iff_not, Bool.decide_eq_true,
    u8_eq_iff, UInt8.toNat_ofNat, ge_iff_le, gt_iff_lt, not_and, not_or, Nat.not_lt, Nat.not_le, Int.not_lt, Int.not_le,
    Bool.false_eq_true, Bool.true_eq_false, not_false_eq_true, not_true_eq_false, true_implies, false_implies,
    forall_const, and_true, true_and, implies_true, reduceCtorEq] at *)

/-- close an arithmetic leaf goal -/
macro "fin" : tactic => `(tactic| first | omega | ((try simp only [PeekFact] at *); (try norm_tests); omega))

/-! ## the `wp` tactic and the leaf grammar functions -/

attribute [local irreducible] M.bind M.pure peek curr consumeN consume posBack ddDebug debugConsume eof getSt getEnv getFixes modifySt incLevel decLevel incType decType appendBytes appendSeparator rdAt

syntax "wp1" : tactic
macro_rules | `(tactic| wp1) => `(tactic| first
  | apply tri_pure
  | (apply s_eof_if <;> intros <;> try (exfalso; omega))
  | (apply s_debugConsume_if _ (by decide) (by assumption) (by assumption) (by assumption) (by fin) <;> intros)
  | apply tri_bind
  | (apply s_eof <;> intros <;> try (exfalso; omega))
  | apply tri_getSt
  | apply tri_getEnv
  | apply tri_getFixes
  | (apply s_peek _ (by assumption) (by assumption); intros)
  | (apply s_curr (by assumption) (by assumption); intros)
  | (apply s_consumeN _ (by assumption) (by assumption) (by assumption) <;> intros <;> try (exfalso; omega))
  | (apply s_consume (by assumption) (by assumption) (by assumption) <;> intros <;> try (exfalso; omega))
  | (apply s_debugConsume _ (by decide) (by assumption) (by assumption) (by assumption) (by fin) <;> intros)
  | (apply s_ddDebug _ (by assumption) (by assumption) (by assumption) (by fin); intros)
  | (apply s_neutral _ (by assumption) (by assumption) (by assumption); intros)
  | (apply s_modifySt _ (by intro st; exact ⟨rfl, rfl, rfl⟩) (by assumption) (by assumption) (by assumption); intros)
  | (simp only [Bool.not_true, Bool.not_false, Bool.false_eq_true, ↓reduceIte])
  | (apply tri_ite <;> intro _)
  | split
  | (dsimp only))

macro "wp" : tactic => `(tactic| (repeat' wp1))


macro "leaf_close" h:ident : tactic => `(tactic| all_goals (apply $h <;> first | assumption | fin))

section leaf
variable {e : Env} {st : St}

theorem s_qualifier {Q : Int → St → Prop} (hl : st.len ≤ e.n) (hp : st.pos ≤ e.n) (hs : Stop e st.len)
    (h : ∀ r st', st'.len = st.len → st'.len ≤ e.n → st'.pos ≤ e.n → Stop e st'.len → exN st ≤ exN st' →
      st.pos ≤ st'.pos → Q r st') : Tri e st qualifier Q := by
  unfold qualifier
  wp
  leaf_close h

theorem s_number {Q : Int → St → Prop} (hl : st.len ≤ e.n) (hp : st.pos ≤ e.n) (hs : Stop e st.len)
    (h : ∀ r st', st'.len = st.len → st'.len ≤ e.n → st'.pos ≤ e.n → Stop e st'.len → exN st ≤ exN st' →
      st.pos ≤ st'.pos → (0 ≤ r → st.pos < st'.pos) → Q r st') : Tri e st number Q := by
  unfold number
  apply tri_bind
  apply tri_eof
  split
  · apply tri_pure
    apply h <;> first | assumption | fin
  rename_i hne
  have hlt : st.pos < st.len := by fin
  apply tri_bind
  apply tri_getSt
  dsimp only
  apply tri_bind
  apply tri_rdAt _ (by omega)
  intro c hc
  -- the continuation after the optional 'n'
  have key : ∀ (st1 : St) (i : Nat), st1.len = st.len → st1.pos = i → i ≤ st.len → st.pos ≤ i → exN st1 = exN st →
      Tri e st1 (do
        let d ← rdAt i
        if (!isDigit d) = true then do
            ddDebug 0
            pure (-1)
          else do
            let e ← getEnv
            match strtoul0 e i with
              | (num, j) => do
                modifySt fun st => { st with pos := st.pos + (j - i) }
                pure num) Q := by
    intro st1 i h1 h2 h3 h4 h5
    apply tri_bind
    apply tri_rdAt _ (by omega)
    intro d hd
    split
    · apply tri_bind
      apply s_ddDebug 0 (by omega) (by omega) (by rw [h1]; exact hs) (by omega)
      intros
      apply tri_pure
      apply h <;> first | assumption | fin
    · rename_i hdig
      have hdig : isDigit d = true := by simpa using hdig
      have hdr := (isDigit_iff d).1 hdig
      have hil : i < st.len := stop_strict hs hd h3 (by omega) (by omega) (by omega)
      obtain ⟨hj1, hj2⟩ := strtoul0_spec hs hl hil hd hdig
      apply tri_bind
      apply tri_getEnv
      split
      rename_i num j heq
      rw [heq] at hj1 hj2
      simp only at hj1 hj2
      apply tri_bind
      apply tri_modifySt
      apply tri_pure
      apply h
      · exact h1
      · simp only; omega
      · simp only; omega
      · rw [h1]; exact hs
      · simp only [exN] at *; omega
      · simp only; omega
      · intro _; simp only; omega
  split
  · apply tri_bind
    apply tri_modifySt
    exact key _ _ rfl rfl (by show st.pos + 1 ≤ st.len; omega) (by show st.pos ≤ st.pos + 1; omega) rfl
  · exact key _ _ rfl rfl (by omega) (by omega) rfl

macro_rules | `(tactic| wp1) => `(tactic| (apply s_number (by assumption) (by assumption) (by assumption); intros))
macro_rules | `(tactic| wp1) => `(tactic| (apply s_qualifier (by assumption) (by assumption) (by assumption); intros))
attribute [local irreducible] number qualifier

theorem s_templateParam {Q : Int → St → Prop} (hl : st.len ≤ e.n) (hp : st.pos ≤ e.n) (hs : Stop e st.len)
    (h : ∀ r st', st'.len = st.len → st'.len ≤ e.n → st'.pos ≤ e.n → Stop e st'.len → exN st ≤ exN st' →
      st.pos ≤ st'.pos → (0 ≤ r → st.pos < st'.pos) → Q r st') : Tri e st templateParam Q := by
  unfold templateParam
  wp
  leaf_close h

theorem s_functionParam {Q : Int → St → Prop} (hl : st.len ≤ e.n) (hp : st.pos ≤ e.n) (hs : Stop e st.len)
    (h : ∀ r st', st'.len = st.len → st'.len ≤ e.n → st'.pos ≤ e.n → Stop e st'.len → exN st ≤ exN st' →
      st.pos ≤ st'.pos → (0 ≤ r → st.pos < st'.pos) → Q r st') : Tri e st functionParam Q := by
  unfold functionParam
  wp
  leaf_close h

theorem s_callOffset {Q : Int → St → Prop} (hl : st.len ≤ e.n) (hp : st.pos ≤ e.n) (hs : Stop e st.len)
    (h : ∀ r st', st'.len = st.len → st'.len ≤ e.n → st'.pos ≤ e.n → Stop e st'.len → exN st ≤ exN st' →
      st.pos ≤ st'.pos → (0 ≤ r → st.pos < st'.pos) → Q r st') : Tri e st callOffset Q := by
  unfold callOffset
  wp
  leaf_close h

theorem s_discriminator {Q : Int → St → Prop} (hl : st.len ≤ e.n) (hp : st.pos ≤ e.n) (hs : Stop e st.len)
    (h : ∀ r st', st'.len = st.len → st'.len ≤ e.n → st'.pos ≤ e.n → Stop e st'.len → exN st ≤ exN st' →
      st.pos ≤ st'.pos → (0 ≤ r → st.pos < st'.pos) → Q r st') : Tri e st discriminator Q := by
  unfold discriminator
  wp
  leaf_close h

macro_rules | `(tactic| wp1) => `(tactic| (apply s_templateParam (by assumption) (by assumption) (by assumption); intros))
macro_rules | `(tactic| wp1) => `(tactic| (apply s_functionParam (by assumption) (by assumption) (by assumption); intros))
macro_rules | `(tactic| wp1) => `(tactic| (apply s_callOffset (by assumption) (by assumption) (by assumption); intros))
macro_rules | `(tactic| wp1) => `(tactic| (apply s_discriminator (by assumption) (by assumption) (by assumption); intros))

end leaf

end Uft.Demangle
