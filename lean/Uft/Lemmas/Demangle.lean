import Uft.Model.Demangle
/-!
# C13 — lemmas about the demangler model

A small Hoare-style framework (`Tri e st m Q`: from state `st` the computation `m`
returns normally with a result and state satisfying `Q`) with one summary rule
per primitive and per leaf grammar function, used in `DemangleSpec.lean` to prove
a summary (`Post`) of every grammar function by induction on the fuel.
-/
namespace Uft.Demangle
open Uft.Gen.DemangleTables

/-! ## the monad -/

theorem bind_def {α β} (m : M α) (f : α → M β) (e : Env) (st : St) :
    (m >>= f) e st = match m e st with
      | .ok a st' => f a e st'
      | .crash k => .crash k
      | .fuel => .fuel := rfl

theorem pure_def {α} (a : α) (e : Env) (st : St) : (pure a : M α) e st = .ok a st := rfl

/-- `dd->expected != NULL` as a number (for `omega`) -/
def exN (st : St) : Nat := if st.expected then 1 else 0

theorem exN_le (st : St) : exN st ≤ 1 := by unfold exN; split <;> omega

theorem exN_eq_of {st st' : St} (h : st'.expected = st.expected) : exN st' = exN st := by
  simp [exN, h]

/-- The byte at `dd->len` is the NUL or the `.`/`@` at which `dd_encoding` cut the name. -/
def Stop (e : Env) (l : Nat) : Prop := l = e.n ∨ e.rd l = some 46 ∨ e.rd l = some 64

theorem rd_n (e : Env) : e.rd e.n = some 0 := by simp [Env.rd, Env.n]

theorem rd_le {e : Env} {i : Nat} {c : UInt8} (h : e.rd i = some c) : i ≤ e.n := by
  unfold Env.rd at h
  unfold Env.n
  split at h
  · omega
  · split at h
    · omega
    · cases h

theorem rd_some_of_le (e : Env) {i : Nat} (h : i ≤ e.n) : ∃ c, e.rd i = some c := by
  unfold Env.rd Env.n at *
  by_cases h1 : i < e.s.size
  · exact ⟨e.s[i], by simp [h1]⟩
  · have : i = e.s.size := by omega
    exact ⟨0, by simp [this]⟩

theorem rd_lt {e : Env} {i : Nat} {c : UInt8} (h : e.rd i = some c) (hc : c.toNat ≠ 0) : i < e.n := by
  have h1 := rd_le h
  by_cases h2 : i = e.n
  · subst h2
    rw [rd_n] at h
    cases h
    simp at hc
  · omega

/-- a byte that is neither NUL nor `.` nor `@` lies strictly before `dd->len` -/
theorem stop_strict {e : Env} {l i : Nat} {c : UInt8} (hs : Stop e l) (h : e.rd i = some c) (hi : i ≤ l)
    (h0 : c.toNat ≠ 0) (h1 : c.toNat ≠ 46) (h2 : c.toNat ≠ 64) : i < l := by
  by_cases hil : i = l
  · subst hil
    rcases hs with hs | hs | hs
    · subst hs
      rw [rd_n] at h
      cases h
      simp at h0
    · rw [hs] at h
      cases h
      simp at h1
    · rw [hs] at h
      cases h
      simp at h2
  · omega

/-! ## triples -/

def Tri {α} (e : Env) (st : St) (m : M α) (Q : α → St → Prop) : Prop :=
  ∃ a st', m e st = .ok a st' ∧ Q a st'

theorem tri_pure {α} {e : Env} {st : St} {Q : α → St → Prop} {a : α} (h : Q a st) : Tri e st (pure a) Q :=
  ⟨a, st, rfl, h⟩

theorem tri_bind {α β} {e : Env} {st : St} {m : M α} {f : α → M β} {Q : β → St → Prop}
    (h : Tri e st m (fun a st' => Tri e st' (f a) Q)) : Tri e st (m >>= f) Q := by
  obtain ⟨a, st', hm, b, st'', hf, hq⟩ := h
  exact ⟨b, st'', by rw [bind_def, hm]; exact hf, hq⟩

theorem tri_mono {α} {e : Env} {st : St} {m : M α} {Q Q' : α → St → Prop}
    (h : Tri e st m Q) (hq : ∀ a st', Q a st' → Q' a st') : Tri e st m Q' := by
  obtain ⟨a, st', hm, h⟩ := h
  exact ⟨a, st', hm, hq _ _ h⟩

theorem tri_ite {α} {e : Env} {st : St} {c : Prop} [Decidable c] {A B : M α} {Q : α → St → Prop}
    (hT : c → Tri e st A Q) (hF : ¬c → Tri e st B Q) : Tri e st (if c then A else B) Q := by
  by_cases h : c
  · simpa [h] using hT h
  · simpa [h] using hF h

theorem tri_eof {e : Env} {st : St} {Q : Bool → St → Prop} (h : Q (decide (st.pos ≥ st.len)) st) : Tri e st eof Q :=
  ⟨_, st, rfl, h⟩

theorem tri_getSt {e : Env} {st : St} {Q : St → St → Prop} (h : Q st st) : Tri e st getSt Q := ⟨st, st, rfl, h⟩
theorem tri_getEnv {e : Env} {st : St} {Q : Env → St → Prop} (h : Q e st) : Tri e st getEnv Q := ⟨e, st, rfl, h⟩
theorem tri_getFixes {e : Env} {st : St} {Q : Fixes → St → Prop} (h : Q e.fx st) : Tri e st getFixes Q :=
  ⟨e.fx, st, rfl, h⟩

theorem tri_modifySt {e : Env} {st : St} {f : St → St} {Q : Unit → St → Prop} (h : Q () (f st)) :
    Tri e st (modifySt f) Q := ⟨(), f st, rfl, h⟩

/-- `dd->old[i]` with `i ≤ strlen` -/
theorem tri_rdAt {e : Env} {st : St} {Q : UInt8 → St → Prop} (i : Nat) (hi : i ≤ e.n)
    (h : ∀ c, e.rd i = some c → Q c st) : Tri e st (rdAt i) Q := by
  obtain ⟨c, hc⟩ := rd_some_of_le e hi
  exact ⟨c, st, by simp [rdAt, hc], h c hc⟩

/-- `dd_peek(dd, k)` -/
theorem tri_peek {e : Env} {st : St} {Q : UInt8 → St → Prop} (k : Nat) (hl : st.len ≤ e.n) (hs : Stop e st.len)
    (h : ∀ c, (c.toNat = 0 ∨ c.toNat = 46 ∨ c.toNat = 64 ∨ st.pos + k < st.len) →
          (c.toNat ≠ 0 → e.rd (st.pos + k) = some c) → Q c st) : Tri e st (peek k) Q := by
  unfold peek
  by_cases hk : st.pos + k > st.len
  · refine ⟨0, st, by simp [hk], h 0 (Or.inl rfl) (by simp)⟩
  · obtain ⟨c, hc⟩ := rd_some_of_le e (show st.pos + k ≤ e.n by omega)
    refine ⟨c, st, by simp [hk, hc], h c ?_ (fun _ => hc)⟩
    by_cases h0 : c.toNat = 0
    · exact Or.inl h0
    by_cases h1 : c.toNat = 46
    · exact Or.inr (Or.inl h1)
    by_cases h2 : c.toNat = 64
    · exact Or.inr (Or.inr (Or.inl h2))
    exact Or.inr (Or.inr (Or.inr (stop_strict hs hc (by omega) h0 h1 h2)))

theorem tri_curr {e : Env} {st : St} {Q : UInt8 → St → Prop} (hl : st.len ≤ e.n) (hs : Stop e st.len)
    (h : ∀ c, (c.toNat = 0 ∨ c.toNat = 46 ∨ c.toNat = 64 ∨ st.pos < st.len) →
          (c.toNat ≠ 0 → e.rd st.pos = some c) → Q c st) : Tri e st curr Q :=
  tri_peek 0 hl hs h

theorem tri_curr' {e : Env} {st : St} {Q : UInt8 → St → Prop} (hl : st.len ≤ e.n) (_hs : Stop e st.len)
    (h : ∀ c, (st.pos ≤ st.len → e.rd st.pos = some c) → Q c st) : Tri e st curr Q := by
  show Tri e st (peek 0) Q
  unfold peek
  by_cases hk : st.pos > st.len
  · have hk' : st.pos + 0 > st.len := by omega
    exact ⟨0, st, by simp only [Nat.add_zero, hk, ↓reduceIte], h 0 (fun h => by omega)⟩
  · have hk' : ¬ st.pos + 0 > st.len := by omega
    obtain ⟨c, hc⟩ := rd_some_of_le e (show st.pos ≤ e.n by omega)
    exact ⟨c, st, by simp only [hk, ↓reduceIte, Nat.add_zero, hc], h c (fun _ => hc)⟩

/-- `__dd_consume_n(dd, k)` -/
theorem tri_consumeN {e : Env} {st : St} {Q : UInt8 → St → Prop} (k : Nat) (hl : st.len ≤ e.n) (hs : Stop e st.len)
    (h : ∀ c st', st'.len = st.len → exN st' = exN st →
          ((st'.pos = st.pos ∧ st.pos + k > st.len ∧ c.toNat = 0) ∨
           (st'.pos = st.pos + k ∧ st.pos + k ≤ st.len ∧ e.rd st.pos = some c)) → Q c st') :
    Tri e st (consumeN k) Q := by
  unfold consumeN
  apply tri_bind
  apply tri_curr' hl hs
  intro c hc2
  apply tri_bind
  apply tri_getSt
  by_cases hk : st.pos + k > st.len
  · simp only [hk, ↓reduceIte]
    exact tri_pure (h 0 st rfl rfl (Or.inl ⟨rfl, hk, rfl⟩))
  · simp only [hk, ↓reduceIte]
    apply tri_bind
    apply tri_modifySt
    apply tri_pure
    exact h c _ rfl rfl (Or.inr ⟨rfl, by omega, hc2 (by omega)⟩)

theorem tri_consume {e : Env} {st : St} {Q : UInt8 → St → Prop} (hl : st.len ≤ e.n) (hs : Stop e st.len)
    (h : ∀ c st', st'.len = st.len → exN st' = exN st →
          ((st'.pos = st.pos ∧ st.pos + 1 > st.len ∧ c.toNat = 0) ∨
           (st'.pos = st.pos + 1 ∧ st.pos + 1 ≤ st.len ∧ e.rd st.pos = some c)) → Q c st') :
    Tri e st consume Q := tri_consumeN 1 hl hs h

/-- `dd->pos -= k` -/
theorem tri_posBack {e : Env} {st : St} {Q : Unit → St → Prop} (k : Nat) (hk : k ≤ st.pos)
    (h : Q () { st with pos := st.pos - k }) : Tri e st (posBack k) Q := by
  refine ⟨(), _, ?_, h⟩
  simp [posBack]
  omega

/-- `DD_DEBUG(dd, .., -k)` -/
theorem tri_ddDebug {e : Env} {st : St} {Q : Unit → St → Prop} (k : Nat) (hk : k ≤ st.pos)
    (h : ∀ st', st'.len = st.len → st'.pos = st.pos - k → exN st' = 1 → Q () st') : Tri e st (ddDebug k) Q := by
  unfold ddDebug
  apply tri_bind
  apply tri_posBack k hk
  apply tri_modifySt
  exact h _ rfl rfl (by simp [exN])

/-- `DD_DEBUG_CONSUME(dd, c)` -/
theorem tri_debugConsume {e : Env} {st : St} {Q : Bool → St → Prop} (c : UInt8) (hc : c.toNat ≠ 0)
    (hl : st.len ≤ e.n) (hs : Stop e st.len) (hp : 0 < st.pos ∨ st.pos < st.len ∨ exN st = 1)
    (h : ∀ b st', st'.len = st.len → exN st ≤ exN st' →
          (b = true → st'.pos = st.pos + 1 ∧ st.pos + 1 ≤ st.len ∧ exN st' = exN st ∧ e.rd st.pos = some c) →
          (b = false → exN st' = 1 ∧ st.pos ≤ st'.pos + (1 - exN st) ∧ st'.pos ≤ st.pos + 1 ∧
              (st'.pos = st.pos + 1 → st.pos + 1 ≤ st.len) ∧ (st.pos < st.len → st.pos ≤ st'.pos)) → Q b st') :
    Tri e st (debugConsume c) Q := by
  unfold debugConsume
  apply tri_bind
  apply tri_consume hl hs
  intro x st1 hl1 he1 hx
  split
  · -- matched
    rename_i hxc
    have hxc : x = c := by simpa using hxc
    subst hxc
    rcases hx with ⟨_, _, h0⟩ | ⟨hp1, hle, hrd⟩
    · exact absurd h0 hc
    · exact tri_pure (h true st1 hl1 (by omega) (fun _ => ⟨hp1, hle, he1, hrd⟩) (by simp))
  · apply tri_bind
    apply tri_getSt
    dsimp only
    by_cases hex : st1.expected = true
    · have h1 : exN st1 = 1 := by simp [exN, hex]
      simp only [hex, Bool.not_true, Bool.false_eq_true, ↓reduceIte]
      refine tri_pure (h false st1 hl1 (by omega) (by simp) (fun _ => ⟨h1, ?_, ?_, ?_, ?_⟩))
      · rcases hx with ⟨hp1, _, _⟩ | ⟨hp1, _, _⟩ <;> omega
      · rcases hx with ⟨hp1, _, _⟩ | ⟨hp1, _, _⟩ <;> omega
      · rcases hx with ⟨hp1, _, _⟩ | ⟨hp1, hh, _⟩ <;> omega
      · rcases hx with ⟨hp1, _, _⟩ | ⟨hp1, hh, _⟩ <;> omega
    · have hex' : st1.expected = false := by simpa using hex
      have h0 : exN st1 = 0 := by simp [exN, hex']
      simp only [hex', Bool.not_false, ↓reduceIte]
      apply tri_bind
      apply tri_posBack 1
      · rcases hx with ⟨hp1, hgt, _⟩ | ⟨hp1, _, _⟩
        · rcases hp with hp | hp | hp <;> omega
        · omega
      apply tri_bind
      apply tri_modifySt
      refine tri_pure (h false _ hl1 (by simp [exN]; exact exN_le _) (by simp) (fun _ => ⟨by simp [exN], ?_, ?_, ?_, ?_⟩))
      · simp only
        rcases hx with ⟨hp1, _, _⟩ | ⟨hp1, _, _⟩ <;> omega
      · simp only
        rcases hx with ⟨hp1, _, _⟩ | ⟨hp1, _, _⟩ <;> omega
      · simp only
        rcases hx with ⟨hp1, _, _⟩ | ⟨hp1, hh, _⟩ <;> omega
      · simp only
        rcases hx with ⟨hp1, _, _⟩ | ⟨hp1, hh, _⟩ <;> omega

/-! ## summary rules (fresh post-states, invariant pieces handed on) -/

section rules
variable {e : Env} {st : St}

theorem s_peek {Q : UInt8 → St → Prop} (k : Nat) (hl : st.len ≤ e.n) (hs : Stop e st.len)
    (h : ∀ c, (c.toNat = 0 ∨ (st.pos + k ≤ st.len ∧ (c.toNat = 46 ∨ c.toNat = 64)) ∨ st.pos + k < st.len) →
          (st.pos + k ≤ st.len → e.rd (st.pos + k) = some c) → Q c st) : Tri e st (peek k) Q := by
  unfold peek
  by_cases hk : st.pos + k > st.len
  · refine ⟨0, st, by simp [hk], h 0 (Or.inl rfl) (fun h => by omega)⟩
  · obtain ⟨c, hc⟩ := rd_some_of_le e (show st.pos + k ≤ e.n by omega)
    refine ⟨c, st, by simp [hk, hc], h c ?_ (fun _ => hc)⟩
    by_cases h0 : c.toNat = 0
    · exact Or.inl h0
    by_cases h1 : c.toNat = 46
    · exact Or.inr (Or.inl ⟨by omega, Or.inl h1⟩)
    by_cases h2 : c.toNat = 64
    · exact Or.inr (Or.inl ⟨by omega, Or.inr h2⟩)
    exact Or.inr (Or.inr (stop_strict hs hc (by omega) h0 h1 h2))

theorem s_eof {Q : Bool → St → Prop} (hT : st.len ≤ st.pos → Q true st) (hF : st.pos < st.len → Q false st) :
    Tri e st eof Q := by
  apply tri_eof
  by_cases h : st.pos ≥ st.len
  · simpa [h] using hT h
  · simpa [h] using hF (by omega)

theorem s_curr {Q : UInt8 → St → Prop} (hl : st.len ≤ e.n) (hs : Stop e st.len)
    (h : ∀ c, (c.toNat = 0 ∨ (st.pos ≤ st.len ∧ (c.toNat = 46 ∨ c.toNat = 64)) ∨ st.pos < st.len) →
          (st.pos ≤ st.len → e.rd st.pos = some c) → Q c st) : Tri e st curr Q := by
  have : curr = peek 0 := rfl
  rw [this]
  exact s_peek 0 hl hs fun c h1 h2 => h c (by simpa using h1) (by simpa using h2)

theorem s_consumeN {Q : UInt8 → St → Prop} (k : Nat) (hl : st.len ≤ e.n) (hp : st.pos ≤ e.n) (hs : Stop e st.len)
    (hFail : ∀ c st', st'.len = st.len → st'.len ≤ e.n → st'.pos ≤ e.n → Stop e st'.len → exN st' = exN st →
          st'.pos = st.pos → st.len < st.pos + k → c.toNat = 0 → Q c st')
    (hOk : ∀ c st', st'.len = st.len → st'.len ≤ e.n → st'.pos ≤ e.n → Stop e st'.len → exN st' = exN st →
          st'.pos = st.pos + k → st.pos + k ≤ st.len → e.rd st.pos = some c → Q c st') :
    Tri e st (consumeN k) Q := by
  apply tri_consumeN k hl hs
  intro c st' h1 h2 h3
  rcases h3 with ⟨h3, h4, h5⟩ | ⟨h3, h4, h5⟩
  · exact hFail c st' h1 (by omega) (by omega) (by rw [h1]; exact hs) h2 h3 (by omega) h5
  · exact hOk c st' h1 (by omega) (by omega) (by rw [h1]; exact hs) h2 h3 h4 h5

theorem s_consume {Q : UInt8 → St → Prop} (hl : st.len ≤ e.n) (hp : st.pos ≤ e.n) (hs : Stop e st.len)
    (hFail : ∀ c st', st'.len = st.len → st'.len ≤ e.n → st'.pos ≤ e.n → Stop e st'.len → exN st' = exN st →
          st'.pos = st.pos → st.len < st.pos + 1 → c.toNat = 0 → Q c st')
    (hOk : ∀ c st', st'.len = st.len → st'.len ≤ e.n → st'.pos ≤ e.n → Stop e st'.len → exN st' = exN st →
          st'.pos = st.pos + 1 → st.pos + 1 ≤ st.len → e.rd st.pos = some c → Q c st') :
    Tri e st consume Q := s_consumeN 1 hl hp hs hFail hOk

theorem s_ddDebug {Q : Unit → St → Prop} (k : Nat) (hl : st.len ≤ e.n) (hp : st.pos ≤ e.n) (hs : Stop e st.len)
    (hk : k ≤ st.pos)
    (h : ∀ st', st'.len = st.len → st'.len ≤ e.n → st'.pos ≤ e.n → Stop e st'.len → st'.pos = st.pos - k →
          exN st' = 1 → exN st ≤ exN st' → Q () st') : Tri e st (ddDebug k) Q := by
  apply tri_ddDebug k hk
  intro st' h1 h2 h3
  exact h st' h1 (by omega) (by omega) (by rw [h1]; exact hs) h2 h3 (by have := exN_le st; omega)

theorem s_debugConsume {Q : Bool → St → Prop} (c : UInt8) (hc : c.toNat ≠ 0)
    (hl : st.len ≤ e.n) (hp : st.pos ≤ e.n) (hs : Stop e st.len) (hpos : 0 < st.pos ∨ st.pos < st.len ∨ exN st = 1)
    (hT : ∀ st', st'.len = st.len → st'.len ≤ e.n → st'.pos ≤ e.n → Stop e st'.len → exN st' = exN st →
          st'.pos = st.pos + 1 → st.pos + 1 ≤ st.len → e.rd st.pos = some c → Q true st')
    (hF : ∀ st', st'.len = st.len → st'.len ≤ e.n → st'.pos ≤ e.n → Stop e st'.len → exN st ≤ exN st' →
          exN st' = 1 → st.pos ≤ st'.pos + (1 - exN st) → st'.pos ≤ st.pos + 1 →
          (st.pos < st.len → st.pos ≤ st'.pos) → Q false st') :
    Tri e st (debugConsume c) Q := by
  apply tri_debugConsume c hc hl hs hpos
  intro b st' h1 h2 h3 h4
  cases b
  · obtain ⟨h5, h6, h7, _, h9⟩ := h4 rfl
    exact hF st' h1 (by omega) (by omega) (by rw [h1]; exact hs) h2 h5 h6 h7 h9
  · obtain ⟨h5, h6, h7, h8⟩ := h3 rfl
    exact hT st' h1 (by omega) (by omega) (by rw [h1]; exact hs) h7 h5 h6 h8

/-- `if (dd_eof(dd)) A; B` -/
theorem s_eof_if {β} {Q : β → St → Prop} {A B : M β} (hT : st.len ≤ st.pos → Tri e st A Q)
    (hF : st.pos < st.len → Tri e st B Q) :
    Tri e st (eof >>= fun b => if b = true then A else B) Q := by
  apply tri_bind
  apply s_eof
  · intro h; simpa using hT h
  · intro h; simpa using hF h

/-- `DD_DEBUG_CONSUME(dd, c); B` with the macro's `return -1` being `A` -/
theorem s_debugConsume_if {β} {Q : β → St → Prop} {A B : M β} (c : UInt8) (hc : c.toNat ≠ 0)
    (hl : st.len ≤ e.n) (hp : st.pos ≤ e.n) (hs : Stop e st.len) (hpos : 0 < st.pos ∨ st.pos < st.len ∨ exN st = 1)
    (hT : ∀ st', st'.len = st.len → st'.len ≤ e.n → st'.pos ≤ e.n → Stop e st'.len → exN st' = exN st →
          st'.pos = st.pos + 1 → st.pos + 1 ≤ st.len → e.rd st.pos = some c → Tri e st' B Q)
    (hF : ∀ st', st'.len = st.len → st'.len ≤ e.n → st'.pos ≤ e.n → Stop e st'.len → exN st ≤ exN st' →
          exN st' = 1 → st.pos ≤ st'.pos + (1 - exN st) → st'.pos ≤ st.pos + 1 →
          (st.pos < st.len → st.pos ≤ st'.pos) → Tri e st' A Q) :
    Tri e st (debugConsume c >>= fun b => if (!b) = true then A else B) Q := by
  apply tri_bind
  apply s_debugConsume c hc hl hp hs hpos
  · intro st' h1 h2 h3 h4 h5 h6 h7 h8
    simpa using hT st' h1 h2 h3 h4 h5 h6 h7 h8
  · intro st' h1 h2 h3 h4 h5 h6 h7 h8 h9
    simpa using hF st' h1 h2 h3 h4 h5 h6 h7 h8 h9

/-- actions that touch neither `pos` nor `len` nor `expected` -/
class Neutral (m : M Unit) : Prop where
  out : ∀ (e : Env) (st : St), ∃ st', m e st = .ok () st' ∧ st'.pos = st.pos ∧ st'.len = st.len ∧ st'.expected = st.expected

instance : Neutral incLevel := ⟨fun _ _ => ⟨_, rfl, rfl, rfl, rfl⟩⟩
instance : Neutral decLevel := ⟨fun _ _ => ⟨_, rfl, rfl, rfl, rfl⟩⟩
instance : Neutral incType := ⟨fun _ _ => ⟨_, rfl, rfl, rfl, rfl⟩⟩
instance : Neutral decType := ⟨fun _ _ => ⟨_, rfl, rfl, rfl, rfl⟩⟩
instance (bs : List UInt8) : Neutral (appendBytes bs) := ⟨fun _ _ => ⟨_, rfl, rfl, rfl, rfl⟩⟩
instance (bs : List UInt8) : Neutral (appendSeparator bs) := ⟨fun e st => by
  unfold appendSeparator
  by_cases h : st.firstName = true <;> simp [bind_def, getSt, h, modifySt, appendBytes, pure_def]⟩

theorem s_neutral {Q : Unit → St → Prop} (m : M Unit) [hm : Neutral m] (hl : st.len ≤ e.n) (hp : st.pos ≤ e.n)
    (hs : Stop e st.len)
    (h : ∀ st', st'.pos = st.pos → st'.len = st.len → st'.len ≤ e.n → st'.pos ≤ e.n → Stop e st'.len →
          exN st' = exN st → Q () st') : Tri e st m Q := by
  obtain ⟨st', h1, h2, h3, h4⟩ := hm.out e st
  exact ⟨(), st', h1, h st' h2 h3 (by omega) (by omega) (by rw [h3]; exact hs) (exN_eq_of h4)⟩

theorem s_modifySt {Q : Unit → St → Prop} (f : St → St)
    (hf : ∀ st, (f st).pos = st.pos ∧ (f st).len = st.len ∧ (f st).expected = st.expected)
    (hl : st.len ≤ e.n) (hp : st.pos ≤ e.n) (hs : Stop e st.len)
    (h : ∀ st', st'.pos = st.pos → st'.len = st.len → st'.len ≤ e.n → st'.pos ≤ e.n → Stop e st'.len →
          exN st' = exN st → Q () st') : Tri e st (modifySt f) Q := by
  obtain ⟨h2, h3, h4⟩ := hf st
  exact ⟨(), f st, rfl, h _ h2 h3 (by omega) (by omega) (by rw [h3]; exact hs) (exN_eq_of h4)⟩

end rules

/-! ## C library helpers -/

theorem u8_le_iff (a b : UInt8) : a ≤ b ↔ a.toNat ≤ b.toNat := UInt8.le_iff_toNat_le

theorem isDigit_iff (c : UInt8) : isDigit c = true ↔ 48 ≤ c.toNat ∧ c.toNat ≤ 57 := by
  simp [isDigit, u8_le_iff]

theorem digitVal_range {c : UInt8} {d : Nat} (h : digitVal c = some d) :
    c.toNat ≠ 0 ∧ c.toNat ≠ 46 ∧ c.toNat ≠ 64 := by
  unfold digitVal at h
  split at h
  · rename_i h1
    rw [isDigit_iff] at h1
    omega
  · split at h
    · rename_i h1
      simp [u8_le_iff] at h1
      omega
    · split at h
      · rename_i h1
        simp [u8_le_iff] at h1
        omega
      · cases h

theorem scanDigits_spec (e : Env) (base : Nat) : ∀ (k i acc v j : Nat), scanDigits e base k i acc = (v, j) →
    i ≤ j ∧ ∀ t, i ≤ t → t < j → ∃ c d, e.rd t = some c ∧ digitVal c = some d := by
  intro k
  induction k with
  | zero =>
    intro i acc v j h
    simp [scanDigits] at h
    exact ⟨by omega, fun t h1 h2 => by omega⟩
  | succ k ih =>
    intro i acc v j h
    unfold scanDigits at h
    split at h
    · rename_i c hc
      split at h
      · rename_i d hd
        split at h
        · obtain ⟨h1, h2⟩ := ih _ _ _ _ h
          refine ⟨by omega, fun t ht1 ht2 => ?_⟩
          by_cases hti : t = i
          · subst hti
            exact ⟨c, d, hc, hd⟩
          · exact h2 t (by omega) ht2
        · simp at h
          exact ⟨by omega, fun t h1 h2 => by omega⟩
      · simp at h
        exact ⟨by omega, fun t h1 h2 => by omega⟩
    · simp at h
      exact ⟨by omega, fun t h1 h2 => by omega⟩

/-- a run of non-stop bytes starting at or before `l` ends at or before `l` -/
theorem run_le_len {e : Env} {l i j : Nat} (hs : Stop e l) (hi : i ≤ l)
    (h : ∀ t, i ≤ t → t < j → ∃ c d, e.rd t = some c ∧ digitVal c = some d) : j ≤ l := by
  by_cases hj : j ≤ l
  · exact hj
  · exfalso
    obtain ⟨c, d, hc, hd⟩ := h l hi (by omega)
    obtain ⟨h0, h1, h2⟩ := digitVal_range hd
    exact Nat.lt_irrefl _ (stop_strict hs hc (Nat.le_refl _) h0 h1 h2)



theorem getD_eq_some {e : Env} {i : Nat} {c : UInt8} (h : (e.rd i).getD 0 = c) (hc : c.toNat ≠ 0) : e.rd i = some c := by
  cases hr : e.rd i with
  | none => simp [hr] at h; subst h; simp at hc
  | some b => simp [hr] at h; subst h; rfl

theorem scanDigits_first {e : Env} {base k i acc : Nat} {c : UInt8} {d : Nat} (hc : e.rd i = some c)
    (hd : digitVal c = some d) (hb : d < base) :
    i < (scanDigits e base (k + 1) i acc).2 := by
  unfold scanDigits
  simp only [hc, hd, hb, ↓reduceIte]
  have := (scanDigits_spec e base k (i + 1) (acc * base + d) _ _ rfl).1
  omega

theorem strtoul0_spec {e : Env} {l i : Nat} {d : UInt8} (hs : Stop e l) (hl : l ≤ e.n) (hi : i < l)
    (hd : e.rd i = some d) (hdig : isDigit d = true) :
    i < (strtoul0 e i).2 ∧ (strtoul0 e i).2 ≤ l := by
  have hdr := (isDigit_iff d).1 hdig
  have hdv : digitVal d = some (d.toNat - 48) := by simp [digitVal, hdig]
  have hk : e.n + 1 - i = (e.n - i) + 1 := by omega
  unfold strtoul0
  simp only [hd, Option.getD_some]
  split
  · rename_i hc
    simp only [Bool.and_eq_true, Bool.or_eq_true, beq_iff_eq] at hc
    obtain ⟨hc0, hc1⟩ := hc
    have h1 : ∃ c1, e.rd (i + 1) = some c1 ∧ (c1.toNat = 120 ∨ c1.toNat = 88) := by
      rcases hc1 with hc1 | hc1
      · exact ⟨120, getD_eq_some hc1 (by decide), Or.inl rfl⟩
      · exact ⟨88, getD_eq_some hc1 (by decide), Or.inr rfl⟩
    obtain ⟨c1, hr1, hc1v⟩ := h1
    have hi1 : i + 1 < l := stop_strict hs hr1 (by omega) (by omega) (by omega) (by omega)
    split
    · obtain ⟨hij, hrun⟩ := scanDigits_spec e 16 (e.n + 1 - i) (i + 2) 0 _ _ rfl
      exact ⟨by omega, run_le_len hs (show i + 2 ≤ l by omega) hrun⟩
    · exact ⟨by simp, by simp; omega⟩
  · split
    · rename_i hc0
      have hc0 : d = 48 := by simpa using hc0
      rw [hk]
      have h1 := scanDigits_first (k := e.n - i) (acc := 0) (base := 8) hd hdv (by subst hc0; decide)
      obtain ⟨_, hrun⟩ := scanDigits_spec e 8 (e.n - i + 1) i 0 _ _ rfl
      exact ⟨h1, run_le_len hs (by omega) hrun⟩
    · rw [hk]
      have h1 := scanDigits_first (k := e.n - i) (acc := 0) (base := 10) hd hdv (by omega)
      obtain ⟨_, hrun⟩ := scanDigits_spec e 10 (e.n - i + 1) i 0 _ _ rfl
      exact ⟨h1, run_le_len hs (by omega) hrun⟩


theorem u8_eq_iff (a b : UInt8) : a = b ↔ a.toNat = b.toNat := UInt8.toNat_inj.symm

/-- normalise the char / Bool tests produced by `split` so that `omega` can use them -/
macro "norm_tests" : tactic => `(tactic|
  simp only [beq_iff_eq, bne_iff_ne, ne_eq, Bool.and_eq_true, Bool.or_eq_true, Bool.not_eq_true', Bool.not_eq_true,
    Bool.not_true, Bool.not_false, decide_eq_true_eq, decide_eq_false_iff_not, Bool.decide_eq_true,
    u8_eq_iff, UInt8.toNat_ofNat, ge_iff_le, gt_iff_lt, not_and, not_or, Nat.not_lt, Nat.not_le, Int.not_lt, Int.not_le,
    Bool.false_eq_true, Bool.true_eq_false, not_false_eq_true, not_true_eq_false, true_implies, false_implies,
    forall_const, and_true, true_and, implies_true, reduceCtorEq] at *)

/-- the same for the most recently introduced hypothesis only -/
macro "norm_last" : tactic => `(tactic|
  (rename_i hlast;
   try simp only [beq_iff_eq, bne_iff_ne, ne_eq, Bool.and_eq_true, Bool.or_eq_true, Bool.not_eq_true', Bool.not_eq_true,
    Bool.not_true, Bool.not_false, decide_eq_true_eq, decide_eq_false_iff_not, Bool.decide_eq_true,
    u8_eq_iff, UInt8.toNat_ofNat, ge_iff_le, gt_iff_lt, not_and, not_or, Nat.not_lt, Nat.not_le, Int.not_lt, Int.not_le,
    Bool.false_eq_true, Bool.true_eq_false, not_false_eq_true, not_true_eq_false, true_implies, false_implies,
    forall_const, and_true, true_and, implies_true, reduceCtorEq, Nat.add_zero,
    Uft.Gen.DemangleTables.dTypes, Uft.Gen.DemangleTables.tType, List.contains_cons, List.contains_nil, Bool.or_false] at hlast))

/-- for the hypothesis of an `else` branch: byte comparisons stay opaque (each `c ≠ k` would make `omega`
    split cases), only Bool/Int/Nat tests are normalised -/
macro "norm_neg" : tactic => `(tactic|
  (rename_i hlast;
   try simp only [beq_iff_eq, bne_iff_ne, ne_eq, Bool.and_eq_true, Bool.or_eq_true, Bool.not_eq_true', Bool.not_eq_true,
    Bool.not_true, Bool.not_false, decide_eq_true_eq, decide_eq_false_iff_not, Bool.decide_eq_true,
    ge_iff_le, gt_iff_lt, not_and, not_or, Nat.not_lt, Nat.not_le, Int.not_lt, Int.not_le,
    Bool.false_eq_true, Bool.true_eq_false, not_false_eq_true, not_true_eq_false, true_implies, false_implies,
    forall_const, and_true, true_and, implies_true, reduceCtorEq, Nat.add_zero, Decidable.not_not] at hlast))

/-- close an arithmetic leaf goal -/
macro "fin" : tactic => `(tactic| first | omega | ((try norm_tests); omega))

/-! ## the `wp` tactic and the leaf grammar functions -/

attribute [local irreducible] M.bind M.pure peek curr consumeN consume posBack ddDebug debugConsume eof getSt getEnv getFixes modifySt incLevel decLevel incType decType appendBytes appendSeparator rdAt

syntax "wp1" : tactic
macro_rules | `(tactic| wp1) => `(tactic| first
  | apply tri_pure
  | (apply s_eof_if <;> intros <;> try (exfalso; omega -splitDisjunctions -splitNatSub))
  | (apply s_debugConsume_if _ (by decide) (by assumption) (by assumption) (by assumption) (by fin) <;> intros)
  | apply tri_bind
  | (apply s_eof <;> intros <;> try (exfalso; omega -splitDisjunctions -splitNatSub))
  | apply tri_getSt
  | apply tri_getEnv
  | apply tri_getFixes
  | (apply s_peek _ (by assumption) (by assumption); intros)
  | (apply s_curr (by assumption) (by assumption); intros)
  | (apply s_consumeN _ (by assumption) (by assumption) (by assumption) <;> intros <;> try (exfalso; omega -splitDisjunctions -splitNatSub))
  | (apply s_consume (by assumption) (by assumption) (by assumption) <;> intros <;> try (exfalso; omega -splitDisjunctions -splitNatSub))
  | (apply s_debugConsume _ (by decide) (by assumption) (by assumption) (by assumption) (by fin) <;> intros)
  | (apply s_ddDebug _ (by assumption) (by assumption) (by assumption) (by fin); intros)
  | (apply s_neutral incLevel (by assumption) (by assumption) (by assumption); intros)
  | (apply s_neutral decLevel (by assumption) (by assumption) (by assumption); intros)
  | (apply s_neutral incType (by assumption) (by assumption) (by assumption); intros)
  | (apply s_neutral decType (by assumption) (by assumption) (by assumption); intros)
  | (apply s_neutral (appendBytes _) (by assumption) (by assumption) (by assumption); intros)
  | (apply s_neutral (appendSeparator _) (by assumption) (by assumption) (by assumption); intros)
  | (apply s_modifySt _ (by intro st; exact ⟨rfl, rfl, rfl⟩) (by assumption) (by assumption) (by assumption); intros)
  | (simp only [Bool.not_true, Bool.not_false, Bool.false_eq_true, ↓reduceIte])
  | (apply tri_ite; (case' hT => (intro _; norm_last)); (case' hF => (intro _; norm_neg)))
  | split
  | (dsimp only))

macro "wp" : tactic => `(tactic| (repeat' wp1))


macro "leaf_close" h:ident : tactic => `(tactic| all_goals (apply $h <;> first | assumption | fin))

section leaf
variable {e : Env} {st : St}

theorem s_qualifier {Q : Int → St → Prop} (hl : st.len ≤ e.n) (hp : st.pos ≤ e.n) (hs : Stop e st.len)
    (h : ∀ r st', st'.len = st.len → st'.len ≤ e.n → st'.pos ≤ e.n → Stop e st'.len → exN st ≤ exN st' →
      st.pos ≤ st'.pos → Q r st') : Tri e st qualifier Q := by
  unfold qualifier
  wp
  leaf_close h

/-- `dd_qualifier` when the current char is known to be a qualifier -/
theorem s_qualifier_prog {Q : Int → St → Prop} (c : UInt8) (hrd0 : st.pos ≤ st.len → e.rd st.pos = some c)
    (hq : strchrB Uft.Gen.DemangleTables.qualQualifier c = true) (hlt : st.pos < st.len)
    (hl : st.len ≤ e.n) (hp : st.pos ≤ e.n) (hs : Stop e st.len)
    (h : ∀ r st', st'.len = st.len → st'.len ≤ e.n → st'.pos ≤ e.n → Stop e st'.len → exN st' = exN st →
      st'.pos = st.pos + 1 → Q r st') : Tri e st qualifier Q := by
  have hrd := hrd0 (by omega)
  unfold qualifier
  apply tri_bind
  apply s_curr hl hs
  intro c' _ hc2
  have hcc : c' = c := by
    have := hc2 (by omega)
    rw [hrd] at this
    cases this
    rfl
  subst hcc
  apply s_eof_if
  · intro _; exfalso; omega
  · intro _
    rw [hq]
    simp only [↓reduceIte]
    apply tri_bind
    apply s_consume hl hp hs
    · intros; exfalso; omega
    · intro x st' h1 h2 h3 h4 h5 h6 _ _
      exact tri_pure (h 0 st' h1 h2 h3 h4 h5 h6)

theorem qual_sub_cv {c : UInt8} (h : strchrB Uft.Gen.DemangleTables.cvQual c = true) :
    strchrB Uft.Gen.DemangleTables.qualQualifier c = true := by
  simp only [strchrB, Uft.Gen.DemangleTables.cvQual, Uft.Gen.DemangleTables.qualQualifier, Bool.or_eq_true,
    beq_iff_eq, List.contains_cons, List.contains_nil, Bool.or_false] at *
  rcases h with h | h | h | h <;> simp [h]

theorem qual_sub_nested {c : UInt8} (h : strchrB Uft.Gen.DemangleTables.qualNested c = true) :
    strchrB Uft.Gen.DemangleTables.qualQualifier c = true := h

theorem s_number {Q : Int → St → Prop} (hl : st.len ≤ e.n) (hp : st.pos ≤ e.n) (hs : Stop e st.len)
    (h : ∀ r st', st'.len = st.len → st'.len ≤ e.n → st'.pos ≤ e.n → Stop e st'.len → exN st ≤ exN st' →
      st.pos ≤ st'.pos → (0 ≤ r → st.pos < st'.pos) → Q r st') : Tri e st number Q := by
  unfold number
  apply tri_bind
  apply tri_eof
  split
  · apply tri_pure
    apply h <;> first | assumption | fin
  rename_i hne
  have hlt : st.pos < st.len := by fin
  apply tri_bind
  apply tri_getSt
  dsimp only
  apply tri_bind
  apply tri_rdAt _ (by omega)
  intro c hc
  -- the continuation after the optional 'n'
  have key : ∀ (st1 : St) (i : Nat), st1.len = st.len → st1.pos = i → i ≤ st.len → st.pos ≤ i → exN st1 = exN st →
      Tri e st1 (do
        let d ← rdAt i
        if (!isDigit d) = true then do
            ddDebug 0
            pure (-1)
          else do
            let e ← getEnv
            match strtoul0 e i with
              | (num, j) => do
                modifySt fun st => { st with pos := st.pos + (j - i) }
                pure num) Q := by
    intro st1 i h1 h2 h3 h4 h5
    apply tri_bind
    apply tri_rdAt _ (by omega)
    intro d hd
    split
    · apply tri_bind
      apply s_ddDebug 0 (by omega) (by omega) (by rw [h1]; exact hs) (by omega)
      intros
      apply tri_pure
      apply h <;> first | assumption | fin
    · rename_i hdig
      have hdig : isDigit d = true := by simpa using hdig
      have hdr := (isDigit_iff d).1 hdig
      have hil : i < st.len := stop_strict hs hd h3 (by omega) (by omega) (by omega)
      obtain ⟨hj1, hj2⟩ := strtoul0_spec hs hl hil hd hdig
      apply tri_bind
      apply tri_getEnv
      split
      rename_i num j heq
      rw [heq] at hj1 hj2
      simp only at hj1 hj2
      apply tri_bind
      apply tri_modifySt
      apply tri_pure
      apply h
      · exact h1
      · simp only; omega
      · simp only; omega
      · rw [h1]; exact hs
      · simp only [exN] at *; omega
      · simp only; omega
      · intro _; simp only; omega
  split
  · apply tri_bind
    apply tri_modifySt
    exact key _ _ rfl rfl (by show st.pos + 1 ≤ st.len; omega) (by show st.pos ≤ st.pos + 1; omega) rfl
  · exact key _ _ rfl rfl (by omega) (by omega) rfl

macro_rules | `(tactic| wp1) => `(tactic| first | (apply s_number (by assumption) (by assumption) (by assumption); intros) | fail)
macro_rules | `(tactic| wp1) => `(tactic| first | (apply s_qualifier (by assumption) (by assumption) (by assumption); intros) | fail)
macro "qual_prog" : tactic => `(tactic|
  (refine s_qualifier_prog ?c ?hrd ?hq ?hlt (by assumption) (by assumption) (by assumption) ?k
   case hrd => assumption
   case hq => first | assumption | (apply qual_sub_cv; assumption) | (apply qual_sub_nested; assumption)
   case hlt => omega
   case' k => intros))
macro_rules | `(tactic| wp1) => `(tactic| first | qual_prog | fail)
attribute [local irreducible] number qualifier

theorem s_templateParam {Q : Int → St → Prop} (hl : st.len ≤ e.n) (hp : st.pos ≤ e.n) (hs : Stop e st.len)
    (h : ∀ r st', st'.len = st.len → st'.len ≤ e.n → st'.pos ≤ e.n → Stop e st'.len → exN st ≤ exN st' →
      st.pos ≤ st'.pos → (0 ≤ r → st.pos < st'.pos) → Q r st') : Tri e st templateParam Q := by
  unfold templateParam
  wp
  leaf_close h

theorem s_functionParam {Q : Int → St → Prop} (hl : st.len ≤ e.n) (hp : st.pos ≤ e.n) (hs : Stop e st.len)
    (h : ∀ r st', st'.len = st.len → st'.len ≤ e.n → st'.pos ≤ e.n → Stop e st'.len → exN st ≤ exN st' →
      st.pos ≤ st'.pos → (0 ≤ r → st.pos < st'.pos) → Q r st') : Tri e st functionParam Q := by
  unfold functionParam
  wp
  leaf_close h

theorem s_callOffset {Q : Int → St → Prop} (hl : st.len ≤ e.n) (hp : st.pos ≤ e.n) (hs : Stop e st.len)
    (h : ∀ r st', st'.len = st.len → st'.len ≤ e.n → st'.pos ≤ e.n → Stop e st'.len → exN st ≤ exN st' →
      st.pos ≤ st'.pos → (0 ≤ r → st.pos < st'.pos) → Q r st') : Tri e st callOffset Q := by
  unfold callOffset
  wp
  leaf_close h

macro_rules | `(tactic| wp1) => `(tactic| first | (apply s_templateParam (by assumption) (by assumption) (by assumption); intros) | fail)
macro_rules | `(tactic| wp1) => `(tactic| first | (apply s_functionParam (by assumption) (by assumption) (by assumption); intros) | fail)
macro_rules | `(tactic| wp1) => `(tactic| first | (apply s_callOffset (by assumption) (by assumption) (by assumption); intros) | fail)

end leaf

section leaf2
variable {e : Env}

theorem isUpper_iff (c : UInt8) : isUpper c = true ↔ 65 ≤ c.toNat ∧ c.toNat ≤ 90 := by
  simp [isUpper, u8_le_iff]

theorem t_seqScan : ∀ (k : Nat) (c : UInt8) (st : St), st.len ≤ e.n → st.pos ≤ e.n → Stop e st.len →
    ((isDigit c || isUpper c) = true → e.rd st.pos = some c ∧ st.pos ≤ st.len) →
    Tri e st (seqScan k c) (fun _ st' => st'.len = st.len ∧ st'.pos ≤ e.n ∧ exN st' = exN st ∧ st.pos ≤ st'.pos) := by
  intro k
  induction k with
  | zero => intro c st hl hp hs hc; exact tri_pure ⟨rfl, hp, rfl, Nat.le_refl _⟩
  | succ k ih =>
    intro c st hl hp hs hc
    unfold seqScan
    apply tri_ite
    · intro hal
      obtain ⟨hrd, hle⟩ := hc hal
      have hr : (48 ≤ c.toNat ∧ c.toNat ≤ 57) ∨ (65 ≤ c.toNat ∧ c.toNat ≤ 90) := by
        simp only [Bool.or_eq_true, isDigit_iff, isUpper_iff] at hal
        exact hal
      have hlt : st.pos < st.len := stop_strict hs hrd hle (by omega) (by omega) (by omega)
      apply tri_bind
      apply tri_modifySt
      apply tri_bind
      apply tri_getSt
      apply tri_bind
      apply tri_rdAt _ (by show st.pos + 1 ≤ e.n; omega)
      intro c' hc'
      refine tri_mono (ih c' _ (by exact hl) (by show st.pos + 1 ≤ e.n; omega) hs (fun _ => ⟨hc', by show st.pos + 1 ≤ st.len; omega⟩)) ?_
      intro _ st' ⟨h1, h2, h3, h4⟩
      exact ⟨h1, h2, h3, by have : st.pos + 1 ≤ st'.pos := h4; omega⟩
    · intro _
      exact tri_pure ⟨rfl, hp, rfl, Nat.le_refl _⟩

theorem s_seqId {st : St} {Q : Int → St → Prop} (hl : st.len ≤ e.n) (hp : st.pos ≤ e.n) (hs : Stop e st.len)
    (h : ∀ r st', st'.len = st.len → st'.len ≤ e.n → st'.pos ≤ e.n → Stop e st'.len → exN st ≤ exN st' →
      st.pos ≤ st'.pos → Q r st') : Tri e st seqId Q := by
  unfold seqId
  apply tri_bind
  apply s_curr hl hs
  intro c hc hc2
  apply s_eof_if
  · intro _
    apply tri_pure
    apply h <;> first | assumption | omega
  · intro hlt
    apply tri_bind
    apply tri_getEnv
    apply tri_bind
    refine tri_mono (t_seqScan _ c st hl hp hs ?_) ?_
    · intro hal
      have hr : (48 ≤ c.toNat ∧ c.toNat ≤ 57) ∨ (65 ≤ c.toNat ∧ c.toNat ≤ 90) := by
        simp only [Bool.or_eq_true, isDigit_iff, isUpper_iff] at hal
        exact hal
      exact ⟨hc2 (by omega), by omega⟩
    · intro _ st' ⟨h1, h2, h3, h4⟩
      apply tri_pure
      apply h _ _ h1 (by omega) h2 (by rw [h1]; exact hs) (by omega) h4

/-! ### helpers of dd_source_name -/

/-- same `pos`, `len`, `expected` -/
def Keep (st st' : St) : Prop := st'.pos = st.pos ∧ st'.len = st.len ∧ st'.expected = st.expected

theorem Keep.refl (st : St) : Keep st st := ⟨rfl, rfl, rfl⟩
theorem Keep.trans {a b c : St} (h1 : Keep a b) (h2 : Keep b c) : Keep a c :=
  ⟨h2.1.trans h1.1, h2.2.1.trans h1.2.1, h2.2.2.trans h1.2.2⟩

theorem t_neutral {st : St} (m : M Unit) [hm : Neutral m] : Tri e st m (fun _ st' => Keep st st') := by
  obtain ⟨st', h1, h2, h3, h4⟩ := hm.out e st
  exact ⟨(), st', h1, h2, h3, h4⟩

theorem t_readRange {st : St} : ∀ (k i : Nat), i + k ≤ e.n + 1 → Tri e st (readRange i k) (fun _ st' => st' = st) := by
  intro k
  induction k with
  | zero => intro i _; exact tri_pure rfl
  | succ k ih =>
    intro i hi
    unfold readRange
    apply tri_bind
    apply tri_rdAt _ (by omega)
    intro b _
    apply tri_bind
    refine tri_mono (ih (i + 1) (by omega)) ?_
    intro r st' h
    subst h
    exact tri_pure rfl

theorem t_appendFrom {st : St} (i k : Nat) (h : i + k ≤ e.n + 1) :
    Tri e st (appendFrom i k) (fun _ st' => Keep st st') := by
  unfold appendFrom
  apply tri_bind
  refine tri_mono (t_readRange k i h) ?_
  intro bs st' h
  subst h
  exact t_neutral _

theorem t_findByte {st : St} (c : UInt8) : ∀ (k i : Nat), i ≤ e.n →
    Tri e st (findByte c k i) (fun r st' => st' = st ∧ ∀ d, r = some d → i ≤ d ∧ d ≤ e.n ∧ e.rd d = some c) := by
  intro k
  induction k with
  | zero => intro i _; exact tri_pure ⟨rfl, by simp⟩
  | succ k ih =>
    intro i hi
    unfold findByte
    apply tri_bind
    apply tri_rdAt _ hi
    intro b hb
    apply tri_ite
    · intro hbc
      have : b = c := by simpa using hbc
      subst this
      refine tri_pure ⟨rfl, ?_⟩
      intro d hd
      cases hd
      exact ⟨Nat.le_refl _, hi, hb⟩
    · intro _
      apply tri_ite
      · intro _
        exact tri_pure ⟨rfl, by simp⟩
      · intro hb0
        have hb0 : b.toNat ≠ 0 := by
          intro h; apply hb0; simp [u8_eq_iff, h]
        have := rd_lt hb hb0
        refine tri_mono (ih (i + 1) (by omega)) ?_
        intro r st' ⟨h1, h2⟩
        refine ⟨h1, fun d hd => ?_⟩
        obtain ⟨h3, h4, h5⟩ := h2 d hd
        exact ⟨by omega, h4, h5⟩

theorem t_findDotDot {st : St} : ∀ (k i : Nat), i ≤ e.n →
    Tri e st (findDotDot k i) (fun r st' => st' = st ∧
      ∀ u, r = some u → i ≤ u ∧ e.rd u = some 46 ∧ e.rd (u + 1) = some 46) := by
  intro k
  induction k with
  | zero => intro i _; exact tri_pure ⟨rfl, by simp⟩
  | succ k ih =>
    intro i hi
    unfold findDotDot
    apply tri_bind
    apply tri_rdAt _ hi
    intro b hb
    apply tri_ite
    · intro _
      exact tri_pure ⟨rfl, by simp⟩
    · intro hb0
      have hb0 : b.toNat ≠ 0 := by
        intro h; apply hb0; simp [u8_eq_iff, h]
      have hlt := rd_lt hb hb0
      have rest : Tri e st (findDotDot k (i + 1)) (fun r st' => st' = st ∧
          ∀ u, r = some u → i ≤ u ∧ e.rd u = some 46 ∧ e.rd (u + 1) = some 46) := by
        refine tri_mono (ih (i + 1) (by omega)) ?_
        intro r st' ⟨h1, h2⟩
        refine ⟨h1, fun u hu => ?_⟩
        obtain ⟨h3, h4, h5⟩ := h2 u hu
        exact ⟨by omega, h4, h5⟩
      dsimp only
      apply tri_ite
      · intro hdot
        have hdot : b = 46 := by simpa using hdot
        subst hdot
        apply tri_bind
        apply tri_rdAt _ (by omega)
        intro b1 hb1
        apply tri_ite
        · intro h1
          have h1 : b1 = 46 := by simpa using h1
          subst h1
          refine tri_pure ⟨rfl, ?_⟩
          intro u hu
          cases hu
          exact ⟨Nat.le_refl _, hb, hb1⟩
        · intro _
          exact rest
      · intro _
        exact rest

theorem t_matchAt {st : St} : ∀ (cs : List UInt8) (i : Nat), i + cs.length ≤ e.n + 1 →
    Tri e st (matchAt cs i) (fun _ st' => st' = st) := by
  intro cs
  induction cs with
  | nil => intro i _; exact tri_pure rfl
  | cons c cs ih =>
    intro i hi
    simp only [List.length_cons] at hi
    unfold matchAt
    apply tri_bind
    apply tri_rdAt _ (by omega)
    intro b _
    apply tri_ite
    · intro _; exact tri_pure rfl
    · intro _; exact ih (i + 1) (by omega)

theorem t_matchAt_nz {st : St} : ∀ (cs : List UInt8) (i : Nat), (∀ c ∈ cs, c.toNat ≠ 0) → i ≤ e.n →
    Tri e st (matchAt cs i) (fun _ st' => st' = st) := by
  intro cs
  induction cs with
  | nil => intro i _ _; exact tri_pure rfl
  | cons c cs ih =>
    intro i hnz hi
    unfold matchAt
    apply tri_bind
    apply tri_rdAt _ hi
    intro b hb
    apply tri_ite
    · intro _; exact tri_pure rfl
    · intro hbc
      have hbc : b = c := by simpa using hbc
      subst hbc
      have := rd_lt hb (hnz b (List.mem_cons_self))
      exact ih (i + 1) (fun c hc => hnz c (List.mem_cons_of_mem _ hc)) (by omega)

theorem t_dotLoop (dollar : Nat) (hd : dollar ≤ e.n) (hrd : e.rd dollar = some 36) :
    ∀ (k sep : Nat) (st : St), sep ≤ dollar →
    Tri e st (dotLoop dollar k sep) (fun sep' st' => Keep st st' ∧ sep ≤ sep' ∧ sep' ≤ dollar) := by
  intro k
  induction k with
  | zero => intro sep st h; exact tri_pure ⟨Keep.refl _, Nat.le_refl _, h⟩
  | succ k ih =>
    intro sep st hsep
    unfold dotLoop
    apply tri_bind
    apply tri_getEnv
    apply tri_bind
    refine tri_mono (t_findDotDot _ sep (by omega)) ?_
    intro r st1 ⟨h1, h2⟩
    subst h1
    split
    · exact tri_pure ⟨Keep.refl _, Nat.le_refl _, hsep⟩
    · rename_i upd
      obtain ⟨h3, h4, h5⟩ := h2 upd rfl
      apply tri_ite
      · intro _
        exact tri_pure ⟨Keep.refl _, Nat.le_refl _, hsep⟩
      · intro hle
        have hne1 : upd ≠ dollar := by
          intro h; subst h; rw [hrd] at h4; cases h4
        have hne2 : upd + 1 ≠ dollar := by
          intro h; rw [h] at h5; rw [hrd] at h5; cases h5
        apply tri_bind
        refine tri_mono (t_appendFrom sep (upd - sep) (by omega)) ?_
        intro _ st2 hk2
        apply tri_bind
        refine tri_mono (t_neutral (appendSeparator colon2)) ?_
        intro _ st3 hk3
        refine tri_mono (ih (upd + 2) st3 (by omega)) ?_
        intro sep' st4 ⟨hk4, h6, h7⟩
        exact ⟨(hk2.trans hk3).trans hk4, by omega, h7⟩

theorem t_findMapping {st : St} (dollar endp : Nat) (he : endp ≤ e.n) :
    ∀ (l : List (List UInt8 × List UInt8)),
    Tri e st (findMapping true dollar endp l) (fun r st' => st' = st ∧
      ∀ code punc, r = some (code, punc) → dollar + code.length + 2 ≤ endp) := by
  intro l
  induction l with
  | nil => exact tri_pure ⟨rfl, by simp⟩
  | cons m l ih =>
    obtain ⟨code, punc⟩ := m
    unfold findMapping
    apply tri_ite
    · intro _; exact ih
    · intro hfit
      have hfit : dollar + code.length + 2 ≤ endp := by simpa using hfit
      apply tri_bind
      refine tri_mono (t_matchAt code (dollar + 1) (by omega)) ?_
      intro b st' h1
      subst h1
      apply tri_ite
      · intro _
        refine tri_pure ⟨rfl, ?_⟩
        intro c p h
        cases h
        exact hfit
      · intro _; exact ih

theorem asTrait_nz : ∀ c ∈ asTrait, c.toNat ≠ 0 := by decide

theorem t_dollarLoop (endp : Nat) (hfx : e.fx.rustSpan = true) :
    ∀ (k p : Nat) (d? : Option Nat) (st : St), st.len ≤ e.n → Stop e st.len → st.pos = p → p ≤ endp → endp ≤ st.len →
    (∀ d, d? = some d → p ≤ d ∧ d ≤ e.n ∧ e.rd d = some 36) →
    Tri e st (dollarLoop endp k p d?) (fun p' st' => st'.len = st.len ∧ exN st' = exN st ∧ st'.pos = p' ∧
      p ≤ p' ∧ p' ≤ endp) := by
  intro k
  induction k with
  | zero => intro p d? st _ _ hp hpe _ _; exact tri_pure ⟨rfl, rfl, hp, Nat.le_refl _, hpe⟩
  | succ k ih =>
    intro p d? st hl hs hp hpe hel hd
    have done : Tri e st (pure p : M Nat) (fun p' st' => st'.len = st.len ∧ exN st' = exN st ∧ st'.pos = p' ∧
        p ≤ p' ∧ p' ≤ endp) := tri_pure ⟨rfl, rfl, hp, Nat.le_refl _, hpe⟩
    unfold dollarLoop
    split
    · exact done
    · rename_i dollar
      obtain ⟨hd1, hd2, hd3⟩ := hd dollar rfl
      apply tri_ite
      · intro _; exact done
      · intro hlt
        have hlt : dollar < endp := by simpa using hlt
        apply tri_bind
        apply tri_getEnv
        apply tri_bind
        refine tri_mono (t_dotLoop dollar hd2 hd3 _ p st hd1) ?_
        intro sep st1 ⟨hk1, hs1, hs2⟩
        apply tri_bind
        refine tri_mono (t_appendFrom sep (dollar - sep) (by omega)) ?_
        intro _ st2 hk2
        apply tri_bind
        rw [hfx]
        refine tri_mono (t_findMapping dollar endp (by omega) _) ?_
        intro r st3 ⟨h3, hmap⟩
        subst h3
        have hk := hk1.trans hk2
        split
        · exact tri_pure ⟨hk.2.1, exN_eq_of hk.2.2, by rw [hk.1]; exact hp, Nat.le_refl _, hpe⟩
        · rename_i code punc
          have hfit := hmap code punc rfl
          -- after the (optional) "as TRAIT" test: a number `num` with p + num ≤ endp and a state that keeps pos/len
          have cont : ∀ (num : Nat) (st4 : St), Keep st st4 → p + num ≤ endp → dollar < p + num →
              Tri e st4 (do
                let _ ← consumeN num
                let p' := p + num
                let d ← findByte 36 (e.n + 1) p'
                dollarLoop endp k p' d) (fun p' st' => st'.len = st.len ∧ exN st' = exN st ∧ st'.pos = p' ∧
                  p ≤ p' ∧ p' ≤ endp) := by
            intro num st4 hk4 hn1 hn2
            have hl4 : st4.len ≤ e.n := by rw [hk4.2.1]; exact hl
            have hs4 : Stop e st4.len := by rw [hk4.2.1]; exact hs
            apply tri_bind
            apply s_consumeN num hl4 (by rw [hk4.1, hp]; omega) hs4
            · intro c st5 _ _ _ _ _ _ hfail _
              exfalso
              rw [hk4.1, hk4.2.1, hp] at hfail
              omega
            · intro c st5 h51 h52 h53 h54 h55 h56 _ _
              dsimp only
              apply tri_bind
              refine tri_mono (t_findByte 36 _ (p + num) (by omega)) ?_
              intro d st6 ⟨h6, hd6⟩
              rw [h6]
              refine tri_mono (ih (p + num) d st5 h52 h54 (by rw [h56, hk4.1, hp]) hn1
                (by rw [h51, hk4.2.1]; exact hel) hd6) ?_
              intro p' st7 ⟨h71, h72, h73, h74, h75⟩
              exact ⟨by rw [h71, h51, hk4.2.1], by rw [h72, h55]; exact exN_eq_of hk4.2.2, h73, by omega, h75⟩
          apply tri_bind
          apply tri_bind
          refine tri_mono (t_matchAt_nz asTrait dollar asTrait_nz hd2) ?_
          intro b st4 h4
          subst h4
          apply tri_ite
          · intro _
            apply tri_bind
            refine tri_mono (t_neutral (appendBytes [62])) ?_
            intro _ st5 hk5
            apply tri_pure
            exact cont (dollar - p + (endp - dollar)) st5 (hk.trans hk5) (by omega) (by omega)
          · intro _
            apply tri_bind
            refine tri_mono (t_neutral (appendBytes punc)) ?_
            intro _ st5 hk5
            apply tri_pure
            exact cont (dollar - p + code.length + 2) st5 (hk.trans hk5) (by omega) (by omega)

/-- summary of a leaf function (CPS form is derived from it) -/
def LeafPost (e : Env) (st : St) (r : Int) (st' : St) : Prop :=
  st'.len = st.len ∧ st'.pos ≤ e.n ∧ exN st ≤ exN st' ∧ st.pos ≤ st'.pos ∧ (0 ≤ r → st.pos < st'.pos)

theorem t_plain {st st0 : St} (n : Nat) (hl : st.len ≤ e.n) (hp : st.pos ≤ e.n) (hs : Stop e st.len)
    (hn : st.pos + n ≤ st.len) (h0 : st0.pos < st.pos) (h0l : st.len = st0.len) (h0e : exN st0 ≤ exN st) :
    Tri e st (do let _ ← consumeN n; pure (0 : Int)) (LeafPost e st0) := by
  apply tri_bind
  apply s_consumeN n hl hp hs
  · intros; exfalso; omega
  · intro c st' h1 h2 h3 h4 h5 h6 _ _
    exact tri_pure ⟨by omega, h3, by omega, by omega, fun _ => by omega⟩

theorem t_sourceName {st : St} (hfx : e.fx = Fixes.all) (hl : st.len ≤ e.n) (hp : st.pos ≤ e.n) (hs : Stop e st.len) :
    Tri e st sourceName (LeafPost e st) := by
  unfold sourceName
  apply tri_bind
  apply s_number hl hp hs
  intro num st1 h11 h12 h13 h14 h15 h16 h17
  apply tri_ite
  · intro _
    exact tri_pure ⟨h11, h13, h15, h16, fun h => by omega⟩
  intro hnum
  have hprog : st.pos < st1.pos := h17 (by omega)
  apply tri_bind
  apply tri_getEnv
  apply tri_bind
  apply tri_getSt
  apply s_eof_if
  · intro _
    apply tri_bind
    apply s_ddDebug 0 h12 h13 h14 (by omega)
    intro st2 h21 h22 h23 h24 h25 h26 h27
    exact tri_pure ⟨by omega, h23, by omega, by omega, fun _ => by omega⟩
  intro hlt
  dsimp only
  have hov : (!e.fx.intOvf && decide (st1.pos + num.toNat > 2147483647)) = false := by
    simp [hfx, Fixes.all]
  rw [hov]
  simp only [Bool.false_eq_true, ↓reduceIte]
  apply tri_ite
  · intro _
    apply tri_bind
    apply s_ddDebug 0 h12 h13 h14 (by omega)
    intro st2 h21 h22 h23 h24 h25 h26 h27
    exact tri_pure ⟨by omega, h23, by omega, by omega, fun _ => by omega⟩
  intro hfit
  have hfit : st1.pos + num.toNat ≤ st1.len := by omega
  have plain := t_plain (st0 := st) num.toNat h12 h13 h14 hfit hprog h11 h15
  apply tri_ite
  · intro _; exact plain
  intro _
  apply tri_ite
  · intro _; exact plain
  intro _
  apply tri_bind
  apply tri_bind
  apply tri_rdAt _ h13
  intro x _
  have hashPart : Tri e st1 (if (num.toNat == 17 && x == 104) = true then do
        let bs ← readRange (st1.pos + 1) 16
        pure (bs.all isXDigit)
      else pure false) (fun _ st' => st' = st1) := by
    apply tri_ite
    · intro h17
      have h17 : num.toNat = 17 := by
        simp only [Bool.and_eq_true, beq_iff_eq] at h17
        exact h17.1
      apply tri_bind
      refine tri_mono (t_readRange 16 (st1.pos + 1) (by omega)) ?_
      intro bs st' h
      subst h
      exact tri_pure rfl
    · intro _
      exact tri_pure rfl
  refine tri_mono hashPart ?_
  intro isHash st' hst'
  rw [hst']
  apply tri_ite
  · intro _; exact plain
  intro _
  apply tri_bind
  refine tri_mono (t_neutral (appendSeparator colon2)) ?_
  intro _ st2 hk2
  have hl2 : st2.len ≤ e.n := by rw [hk2.2.1]; exact h12
  have hs2 : Stop e st2.len := by rw [hk2.2.1]; exact h14
  have hp2 : st2.pos ≤ e.n := by rw [hk2.1]; exact h13
  have he2 : exN st2 = exN st1 := exN_eq_of hk2.2.2
  -- the common tail `appendFrom p n; consumeN n; return 0`
  have tail : Tri e st2 (do
      appendFrom st1.pos num.toNat
      let _ ← consumeN num.toNat
      pure (0 : Int)) (LeafPost e st) := by
    apply tri_bind
    refine tri_mono (t_appendFrom st1.pos num.toNat (by omega)) ?_
    intro _ st3 hk3
    have hk := hk2.trans hk3
    exact t_plain (st0 := st) num.toNat (by rw [hk.2.1]; exact h12) (by rw [hk.1]; exact h13)
      (by rw [hk.2.1]; exact h14) (by rw [hk.1, hk.2.1]; exact hfit) (by rw [hk.1]; exact hprog)
      (by rw [hk.2.1]; exact h11) (by rw [exN_eq_of hk.2.2]; exact h15)
  try dsimp only
  apply tri_bind
  refine tri_mono (t_findByte 36 _ st1.pos h13) ?_
  intro r st3 ⟨h3, hd⟩
  rw [h3]
  split
  · exact tail
  · rename_i dollar
    apply tri_ite
    · intro _; exact tail
    intro hde
    apply tri_bind
    refine tri_mono (t_dollarLoop (st1.pos + num.toNat) (by simp [hfx, Fixes.all]) _ st1.pos (some dollar) st2 hl2 hs2
      hk2.1 (by omega) (by rw [hk2.2.1]; exact hfit) (fun d hd' => hd d hd')) ?_
    intro p' st4 ⟨h41, h42, h43, h44, h45⟩
    try dsimp only
    have hnum' : ((st1.pos + num.toNat : Nat) : Int) - (p' : Int) = ((st1.pos + num.toNat - p' : Nat) : Int) := by omega
    rw [hnum']
    unfold appendFromInt consumeInt
    simp only [Int.natCast_nonneg, ge_iff_le, ↓reduceIte, Int.toNat_natCast]
    apply tri_bind
    refine tri_mono (t_appendFrom p' (st1.pos + num.toNat - p') (by omega)) ?_
    intro _ st5 hk5
    apply tri_bind
    apply tri_bind
    apply s_consumeN _ (by rw [hk5.2.1, h41]; exact hl2) (by rw [hk5.1, h43]; omega) (by rw [hk5.2.1, h41]; exact hs2)
    · intro c st6 _ _ _ _ _ _ hfail _
      exfalso
      rw [hk5.1, hk5.2.1, h43, h41, hk2.2.1] at hfail
      omega
    · intro c st6 h61 h62 h63 h64 h65 h66 _ _
      apply tri_pure
      apply tri_pure
      refine ⟨by rw [h61, hk5.2.1, h41, hk2.2.1, h11], h63, ?_, ?_, fun _ => ?_⟩
      · rw [h65, exN_eq_of hk5.2.2, h42, he2]; exact h15
      · rw [h66, hk5.1, h43]; omega
      · rw [h66, hk5.1, h43]; omega


theorem s_sourceName {st : St} {Q : Int → St → Prop} (hfx : e.fx = Fixes.all) (hl : st.len ≤ e.n) (hp : st.pos ≤ e.n)
    (hs : Stop e st.len)
    (h : ∀ r st', st'.len = st.len → st'.len ≤ e.n → st'.pos ≤ e.n → Stop e st'.len → exN st ≤ exN st' →
      st.pos ≤ st'.pos → (0 ≤ r → st.pos < st'.pos) → Q r st') : Tri e st sourceName Q := by
  refine tri_mono (t_sourceName hfx hl hp hs) ?_
  intro r st' ⟨h1, h2, h3, h4, h5⟩
  exact h r st' h1 (by omega) h2 (by rw [h1]; exact hs) h3 h4 h5

macro_rules | `(tactic| wp1) => `(tactic| first | (apply s_seqId (by assumption) (by assumption) (by assumption); intros) | fail)
macro_rules | `(tactic| wp1) => `(tactic| first | (apply s_sourceName (by assumption) (by assumption) (by assumption) (by assumption); intros) | fail)
theorem s_getFixes {e : Env} {st : St} {Q : Fixes → St → Prop} (hfx : e.fx = Fixes.all) (h : Q Fixes.all st) :
    Tri e st getFixes Q := by
  apply tri_getFixes
  rw [hfx]
  exact h

macro_rules | `(tactic| wp1) => `(tactic| first | (apply s_getFixes (by assumption); try simp only [Fixes.all, Bool.not_true, Bool.and_false, Bool.false_eq_true, ↓reduceIte, Bool.true_and, Bool.and_true, Bool.and_self]) | fail)

theorem s_discriminator {st : St} {Q : Int → St → Prop} (hfx : e.fx = Fixes.all) (hl : st.len ≤ e.n) (hp : st.pos ≤ e.n)
    (hs : Stop e st.len)
    (h : ∀ r st', st'.len = st.len → st'.len ≤ e.n → st'.pos ≤ e.n → Stop e st'.len → exN st ≤ exN st' →
      st.pos ≤ st'.pos → (0 ≤ r → st.pos < st'.pos) → Q r st') : Tri e st discriminator Q := by
  unfold discriminator
  wp
  leaf_close h

macro_rules | `(tactic| wp1) => `(tactic| first | (apply s_discriminator (by assumption) (by assumption) (by assumption) (by assumption); intros) | fail)

theorem isLowHex_facts (c : UInt8) (h : isLowHex c = true) : c.toNat ≠ 0 ∧ c.toNat ≠ 46 ∧ c.toNat ≠ 64 ∧ c.toNat ≠ 69 ∧ c.toNat ≠ 95 := by
  simp only [isLowHex, isXDigit, isDigit, isUpper, Bool.and_eq_true, Bool.or_eq_true, Bool.not_eq_true', decide_eq_true_eq,
    decide_eq_false_iff_not, u8_le_iff, Bool.and_eq_false_iff] at h
  have e1 : (48 : UInt8).toNat = 48 := rfl
  have e2 : (57 : UInt8).toNat = 57 := rfl
  have e3 : (65 : UInt8).toNat = 65 := rfl
  have e4 : (70 : UInt8).toNat = 70 := rfl
  have e5 : (97 : UInt8).toNat = 97 := rfl
  have e6 : (102 : UInt8).toNat = 102 := rfl
  have e7 : (90 : UInt8).toNat = 90 := rfl
  omega

/-- the F10k loop terminates: a lowercase hex digit is never the byte at `len` -/
theorem t_hexSkip : ∀ (k : Nat) (st : St), st.len ≤ e.n → st.pos ≤ e.n → Stop e st.len → e.n + 1 ≤ k + st.pos →
    Tri e st (hexSkip k) (fun _ st' => st'.len = st.len ∧ st'.pos ≤ e.n ∧ exN st' = exN st ∧ st.pos ≤ st'.pos) := by
  intro k
  induction k with
  | zero => intro st hl hp hs hk; omega
  | succ k ih =>
    intro st hl hp hs hk
    unfold hexSkip
    apply tri_bind
    apply s_curr hl hs
    intro c hc hc2
    apply tri_ite
    · intro hal
      have h3 := isLowHex_facts c hal
      apply tri_bind
      apply s_consume hl hp hs
      · intro c' st' h1 h2 h3' h4 h5 h6 h7 h8
        omega
      · intro c' st' h1 h2 h3' h4 h5 h6 h7 h8
        refine tri_mono (ih st' h2 h3' h4 (by omega)) ?_
        intro _ st'' ⟨a, b, c, d⟩
        exact ⟨by omega, b, by omega, by omega⟩
    · intro _
      exact tri_pure ⟨rfl, hp, rfl, Nat.le_refl _⟩

theorem s_hexSkip {st : St} {Q : Unit → St → Prop} (hl : st.len ≤ e.n) (hp : st.pos ≤ e.n) (hs : Stop e st.len)
    (h : ∀ r st', st'.len = st.len → st'.len ≤ e.n → st'.pos ≤ e.n → Stop e st'.len → exN st ≤ exN st' →
      st.pos ≤ st'.pos → Q r st') : Tri e st (hexSkip (e.n + 1)) Q := by
  refine tri_mono (t_hexSkip _ st hl hp hs (by omega)) ?_
  intro r st' ⟨h1, h2, h3, h4⟩
  exact h r st' h1 (by omega) h2 (by rw [h1]; exact hs) (by omega) h4

attribute [local irreducible] seqId sourceName templateParam functionParam callOffset discriminator hexSkip

theorem s_abiTag {st : St} {Q : Int → St → Prop} (hfx : e.fx = Fixes.all) (hl : st.len ≤ e.n) (hp : st.pos ≤ e.n)
    (hs : Stop e st.len)
    (h : ∀ r st', st'.len = st.len → st'.len ≤ e.n → st'.pos ≤ e.n → Stop e st'.len → exN st ≤ exN st' →
      st.pos ≤ st'.pos → (0 ≤ r → st.pos < st'.pos) → Q r st') : Tri e st abiTag Q := by
  unfold abiTag
  wp
  leaf_close h

macro_rules | `(tactic| wp1) => `(tactic| first | (apply s_abiTag (by assumption) (by assumption) (by assumption) (by assumption); intros) | fail)
attribute [local irreducible] abiTag

theorem s_substitution {st : St} {Q : Int → St → Prop} (hfx : e.fx = Fixes.all) (hl : st.len ≤ e.n) (hp : st.pos ≤ e.n)
    (hs : Stop e st.len)
    (h : ∀ r st', st'.len = st.len → st'.len ≤ e.n → st'.pos ≤ e.n → Stop e st'.len → exN st ≤ exN st' →
      st.pos ≤ st'.pos → (0 ≤ r → st.pos < st'.pos) → Q r st') : Tri e st substitution Q := by
  unfold substitution
  wp
  leaf_close h

macro_rules | `(tactic| wp1) => `(tactic| first | (apply s_substitution (by assumption) (by assumption) (by assumption) (by assumption); intros) | fail)

end leaf2

end Uft.Demangle
