import Uft.Model.Fstack
import Uft.Lemmas.McountCore
import Uft.Props.C05
/- C07 helper lemmas, part 5: what the record-time hooks (Uft.Mcount, C02/C05) write for a
   call forest under -F / -N / -D / -t, as the same `specCalls ∘ pruneCalls`. -/
set_option linter.unusedSimpArgs false
set_option linter.unusedVariables false
namespace Uft.Fstack
open Uft.Mcount

/-- record-time option sets made of -F, -N, -D, -t only (regular build, repaired -pg path) -/
structure FND (cfg : Cfg) : Prop where
  fast : cfg.fast = false
  fixd : cfg.f4fixed = true
  locIn : cfg.locIn = false
  caller : cfg.callerMode = false
  minSize : cfg.minSize = 0
  en : cfg.enabled0 = true
  trig : ∀ f, cfg.trig f = { filter := (cfg.trig f).filter }

/-- how the thread's filter state corresponds to the lexical environment of the specification -/
structure RRel (cfg : Cfg) (s : St) (E : Env) (d : Nat) : Prop where
  inC : s.filt.inCount = E.inC
  outC : s.filt.outCount = E.outC
  bud : E.outC = 0 → s.filt.depth + E.budget = cfg.depthOpt
  maxD : s.filt.maxDepth = noMaxDepth
  time : s.filt.time = noTime
  size : s.filt.size = 0
  ridx : s.recordIdx = d
  en : s.enabled = true
  over : s.over = 0

/-- ENTRY records `record_trace_data` would add for the open frames, and the frames afterwards -/
def pend (fs : List Frame) : List Rec := (flushBelow fs).2
def mark (fs : List Frame) : List Frame := (flushBelow fs).1

theorem flushBelow_idem (fs : List Frame) : flushBelow (flushBelow fs).1 = ((flushBelow fs).1, []) := by
  induction fs with
  | nil => rfl
  | cons f r ih =>
    simp only [flushBelow]
    by_cases hw : f.written = true
    · simp [hw, flushBelow]
    · simp only [hw, Bool.false_eq_true, ↓reduceIte]
      by_cases hs : f.skip = true
      · simp [hs, flushBelow, hw, ih]
      · simp [hs, flushBelow]

theorem pend_mark (fs : List Frame) : pend (mark fs) = [] := by
  simp [pend, mark, flushBelow_idem]

theorem mark_mark (fs : List Frame) : mark (mark fs) = mark fs := by
  simp [mark, flushBelow_idem]

theorem pend_cons_skip (F : Frame) (fs : List Frame) (hw : F.written = false) (hs : F.norecord = true) :
    pend (F :: fs) = pend fs ∧ mark (F :: fs) = F :: mark fs := by
  simp [pend, mark, flushBelow, hw, Frame.skip, hs]

theorem pend_cons_vis (F : Frame) (fs : List Frame) (hw : F.written = false) (hs : F.norecord = false)
    (hd : F.disabled = false) :
    pend (F :: fs) = pend fs ++ [entryRec F] ∧ mark (F :: fs) = { F with written := true } :: mark fs := by
  simp [pend, mark, flushBelow, hw, Frame.skip, hs, hd]

/-- the exit hook never changes the trace on/off switch -/
theorem exit_enabled (cfg : Cfg) (s : St) (t : Nat) : (exit cfg s t).enabled = s.enabled := by
  unfold exit
  split
  · rfl
  · split
    · rfl
    · simp only [exitFilterRecord]
      repeat' split
      all_goals rfl

/-- `visit` for a table made of -F and -N entries only -/
theorem visit_fnd (cfg : Cfg) (h : FND cfg) (E : Env) (f : Nat) (m : Option Bool) (hm : (cfg.trig f).filter = m) :
    visit (RCfg.ofRecord cfg) E f =
      (if E.outC > 0 then (false, E) else
       if m = some false then (false, { E with outC := E.outC + 1 }) else
       if (!(m == some true) && cfg.optIn && decide (E.inC = 0)) then (false, E) else
       if (if (m == some true) then cfg.depthOpt else E.budget) = 0 then
         (false, { inC := if (m == some true) then E.inC + 1 else E.inC, outC := E.outC,
                   budget := if (m == some true) then cfg.depthOpt else E.budget })
       else (true, { inC := if (m == some true) then E.inC + 1 else E.inC, outC := E.outC,
                     budget := (if (m == some true) then cfg.depthOpt else E.budget) - 1 })) := by
  have htr : cfg.trig f = { filter := m } := by have := h.trig f; rw [hm] at this; exact this
  unfold visit RCfg.ofRecord
  dsimp only
  rw [htr]
  dsimp only [locReject]
  simp only [h.locIn, Bool.false_eq_true, ↓reduceIte, Option.getD_none, Bool.or_false]
  by_cases h1 : E.outC > 0
  · simp [h1]
  · simp only [h1, ↓reduceIte]
    by_cases h2 : m = some false
    · simp [h2]
    · simp only [h2, ↓reduceIte]
      by_cases h3 : m = some true
      · subst h3
        simp
      · have hb : (m == some true) = false := by simpa using h3
        simp [hb]

/-- the frame an entry hook leaves on the shadow stack -/
def frOf (f start d : Nat) (cyg nr fil notr : Bool) (flt : Filt) : Frame :=
  { addr := f, start := start, depth := d, cyg := cyg, norecord := nr, filtered := fil, notrace := notr,
    sDepth := flt.depth, sMaxDepth := flt.maxDepth, sTime := flt.time, sSize := flt.size }

/-- what entry hooks do for a -F / -N / -D / -t configuration, against `visit` -/
theorem entry_fnd (cfg : Cfg) (h : FND cfg) (k : Kind) (s : St) (E : Env) (d f t0 : Nat)
    (hr : RRel cfg s E d) (hlen : s.frames.length < cfg.maxStack) :
    (entry cfg k s f t0).1.out = s.out ∧
    RRel cfg (entry cfg k s f t0).1 (visit (RCfg.ofRecord cfg) E f).2
      (if (visit (RCfg.ofRecord cfg) E f).1 then d + 1 else d) ∧
    (((entry cfg k s f t0).2 = true ∧ ∃ F : Frame, (entry cfg k s f t0).1.frames = F :: s.frames ∧
        F.norecord = !(visit (RCfg.ofRecord cfg) E f).1 ∧ F.written = false ∧ F.disabled = false ∧
        F.trace = false ∧ F.caller = false ∧ F.endT = 0 ∧ F.addr = f ∧ F.depth = d ∧
        ((visit (RCfg.ofRecord cfg) E f).1 = true → F.start = t0)) ∨
     ((entry cfg k s f t0).2 = false ∧ (entry cfg k s f t0).1.frames = s.frames ∧
        (visit (RCfg.ofRecord cfg) E f).1 = false)) := by
  generalize hm : (cfg.trig f).filter = m
  have htr : cfg.trig f = { filter := m } := by have := h.trig f; rw [hm] at this; exact this
  have hidx : ¬ (s.idx ≥ cfg.maxStack) := by simp [St.idx, hr.over]; omega
  obtain ⟨r1, r2, r3, r4, r5, r6, r7, r8, r9⟩ := hr
  rw [visit_fnd cfg h E f m hm]
  have hck : checkRstack cfg s = (false, { s with warned := false }) := by simp [checkRstack, hidx]
  have e1 : (FR.out == FR.rstack) = false := rfl
  have e2 : (FR.out == FR.in_) = false := rfl
  have e3 : (FR.in_ == FR.rstack) = false := rfl
  have e4 : (FR.in_ == FR.in_) = true := rfl
  have e5 : (FR.out != FR.in_) = true := rfl
  have e6 : (FR.in_ != FR.in_) = false := rfl
  by_cases h1 : E.outC > 0
  · -- inside an opt-out region
    have h1' : s.filt.outCount > 0 := by omega
    have hc : entryFilterCheck cfg s f = (.out, { s with warned := false, filt := saveFilt s.filt }, {}) := by
      simp [entryFilterCheck, hck, h.fast, h1']
    simp only [h1, ↓reduceIte, Bool.false_eq_true]
    cases k with
    | pg =>
      have he : entry cfg .pg s f t0 = ({ s with warned := false, filt := saveFilt s.filt }, false) := by
        simp [entry, hc, Trigger.changesState, e1, e5]
      rw [he]
      exact ⟨rfl, ⟨by simpa using r1, by simpa using r2, by intro h0; omega, by simpa using r4, by simpa using r5,
        by simpa using r6, r7, r8, r9⟩, Or.inr ⟨rfl, rfl, by simp⟩⟩
    | cyg =>
      have he : entry cfg .cyg s f t0 =
          ({ s with warned := false, filt := saveFilt s.filt,
                    frames := { addr := f, start := 0, depth := s.recordIdx, cyg := true, norecord := true,
                                sDepth := s.filt.depth, sMaxDepth := s.filt.maxDepth, sTime := s.filt.time,
                                sSize := s.filt.size } :: s.frames }, true) := by
        simp [entry, hc, e1, e2, entryFilterRecord, h.fast, saveFilt]
      rw [he]
      exact ⟨rfl, ⟨by simpa using r1, by simpa using r2, by intro h0; omega, by simpa using r4, by simpa using r5,
        by simpa using r6, r7, r8, r9⟩, Or.inl ⟨rfl, _, rfl, rfl, rfl, rfl, rfl, rfl, rfl, rfl, r7, by simp⟩⟩
  · have h1' : ¬ s.filt.outCount > 0 := by omega
    have hout0 : s.filt.outCount = 0 := by omega
    have hE0 : E.outC = 0 := by omega
    have hbud := r3 hE0
    simp only [h1, ↓reduceIte]
    have hdl : ∀ g : Filt, depthLimit cfg { filter := m } (saveFilt s.filt) = cfg.depthOpt := by
      intro g; simp [depthLimit, saveFilt, r4]
    by_cases h2 : m = some false
    · -- -N function
      subst h2
      simp only [↓reduceIte]
      have hrel : ∀ (S : St), S.filt.inCount = s.filt.inCount → S.filt.outCount = s.filt.outCount + 1 →
          S.filt.maxDepth = noMaxDepth → S.filt.time = noTime → S.filt.size = 0 → S.recordIdx = s.recordIdx →
          S.enabled = s.enabled → S.over = s.over → RRel cfg S { E with outC := E.outC + 1 } d := by
        intro S a1 a2 a3 a4 a5 a6 a7 a8
        exact ⟨by rw [a1, r1], by rw [a2, r2], by intro h0; simp at h0, a3, a4, a5, by rw [a6, r7], by rw [a7, r8],
          by rw [a8, r9]⟩
      by_cases hD : cfg.depthOpt = 0
      · have hc : entryFilterCheck cfg s f =
            (.out, { s with warned := false,
                            filt := { saveFilt s.filt with outCount := s.filt.outCount + 1, depth := 0 } },
             { filter := some false }) := by
          simp [entryFilterCheck, hck, h.fast, h1', htr, matchFilt, earlyOut, h.locIn, trigFilt, trigEnabled, depthLimit, r4, hD,
            saveFilt]
        cases k with
        | pg =>
          have he : entry cfg .pg s f t0 =
              ({ s with warned := false,
                        filt := { saveFilt s.filt with outCount := s.filt.outCount + 1, depth := 0 },
                        frames := frOf f t0 s.recordIdx false true false true s.filt :: s.frames }, true) := by
            simp [entry, hc, Trigger.changesState, e1, e5, h.fixd, entryFilterRecord, h.fast, saveFilt, frOf]
          rw [he]
          exact ⟨rfl, hrel _ rfl rfl r4 r5 r6 rfl rfl rfl,
            Or.inl ⟨rfl, _, rfl, rfl, rfl, rfl, rfl, rfl, rfl, rfl, r7, by simp⟩⟩
        | cyg =>
          have he : entry cfg .cyg s f t0 =
              ({ s with warned := false,
                        filt := { saveFilt s.filt with outCount := s.filt.outCount + 1, depth := 0 },
                        frames := frOf f 0 s.recordIdx true true false true s.filt :: s.frames }, true) := by
            simp [entry, hc, e1, e2, entryFilterRecord, h.fast, saveFilt, frOf]
          rw [he]
          exact ⟨rfl, hrel _ rfl rfl r4 r5 r6 rfl rfl rfl,
            Or.inl ⟨rfl, _, rfl, rfl, rfl, rfl, rfl, rfl, rfl, rfl, r7, by simp⟩⟩
      · have hc : entryFilterCheck cfg s f =
            (.in_, { s with warned := false,
                            filt := { saveFilt s.filt with outCount := s.filt.outCount + 1, depth := 1 } },
             { filter := some false }) := by
          have : ¬ (0 ≥ cfg.depthOpt) := by omega
          simp [entryFilterCheck, hck, h.fast, h1', htr, matchFilt, earlyOut, h.locIn, trigFilt, trigEnabled, depthLimit, r4, this,
            saveFilt]
        cases k with
        | pg =>
          have he : entry cfg .pg s f t0 =
              ({ s with warned := false,
                        filt := { saveFilt s.filt with outCount := s.filt.outCount + 1, depth := 1 },
                        frames := frOf f t0 s.recordIdx false true false true s.filt :: s.frames }, true) := by
            simp [entry, hc, Trigger.changesState, e3, e6, h.fixd, entryFilterRecord, h.fast, saveFilt, frOf]
          rw [he]
          exact ⟨rfl, hrel _ rfl rfl r4 r5 r6 rfl rfl rfl,
            Or.inl ⟨rfl, _, rfl, rfl, rfl, rfl, rfl, rfl, rfl, rfl, r7, by simp⟩⟩
        | cyg =>
          have he : entry cfg .cyg s f t0 =
              ({ s with warned := false,
                        filt := { saveFilt s.filt with outCount := s.filt.outCount + 1, depth := 1 },
                        frames := frOf f t0 s.recordIdx true true false true s.filt :: s.frames }, true) := by
            simp [entry, hc, e3, e4, entryFilterRecord, h.fast, saveFilt, frOf]
          rw [he]
          exact ⟨rfl, hrel _ rfl rfl r4 r5 r6 rfl rfl rfl,
            Or.inl ⟨rfl, _, rfl, rfl, rfl, rfl, rfl, rfl, rfl, rfl, r7, by simp⟩⟩
    · simp only [h2, ↓reduceIte]
      by_cases h3 : m = some true
      · -- -F function
        subst h3
        simp only [BEq.rfl, Bool.not_true, Bool.false_and, Bool.false_eq_true, ↓reduceIte]
        by_cases hD : cfg.depthOpt = 0
        · have hc : entryFilterCheck cfg s f =
              (.out, { s with warned := false,
                              filt := { saveFilt s.filt with inCount := s.filt.inCount + 1, depth := 0 } },
               { filter := some true }) := by
            simp [entryFilterCheck, hck, h.fast, h1', htr, matchFilt, earlyOut, h.locIn, trigFilt, trigEnabled,
              depthLimit, r4, hD, saveFilt]
          simp only [hD, ↓reduceIte]
          have hrel : ∀ (S : St), S.filt.inCount = s.filt.inCount + 1 → S.filt.outCount = s.filt.outCount →
              S.filt.depth = 0 → S.filt.maxDepth = noMaxDepth → S.filt.time = noTime → S.filt.size = 0 →
              S.recordIdx = s.recordIdx → S.enabled = s.enabled → S.over = s.over →
              RRel cfg S { inC := E.inC + 1, outC := E.outC, budget := 0 } d := by
            intro S a1 a2 a0 a3 a4 a5 a6 a7 a8
            exact ⟨by rw [a1, r1], by rw [a2, r2], by intro _; simp [a0, hD], a3, a4, a5, by rw [a6, r7],
              by rw [a7, r8], by rw [a8, r9]⟩
          cases k with
          | pg =>
            have he : entry cfg .pg s f t0 =
                ({ s with warned := false,
                          filt := { saveFilt s.filt with inCount := s.filt.inCount + 1, depth := 0 },
                          frames := frOf f t0 s.recordIdx false true true false s.filt :: s.frames }, true) := by
              simp [entry, hc, Trigger.changesState, e1, e5, h.fixd, entryFilterRecord, h.fast, saveFilt, frOf]
            rw [he]
            exact ⟨rfl, hrel _ rfl rfl rfl r4 r5 r6 rfl rfl rfl,
              Or.inl ⟨rfl, _, rfl, rfl, rfl, rfl, rfl, rfl, rfl, rfl, r7, by simp⟩⟩
          | cyg =>
            have he : entry cfg .cyg s f t0 =
                ({ s with warned := false,
                          filt := { saveFilt s.filt with inCount := s.filt.inCount + 1, depth := 0 },
                          frames := frOf f 0 s.recordIdx true true true false s.filt :: s.frames }, true) := by
              simp [entry, hc, e1, e2, entryFilterRecord, h.fast, saveFilt, frOf]
            rw [he]
            exact ⟨rfl, hrel _ rfl rfl rfl r4 r5 r6 rfl rfl rfl,
              Or.inl ⟨rfl, _, rfl, rfl, rfl, rfl, rfl, rfl, rfl, rfl, r7, by simp⟩⟩
        · have hc : entryFilterCheck cfg s f =
              (.in_, { s with warned := false,
                              filt := { saveFilt s.filt with inCount := s.filt.inCount + 1, depth := 1 } },
               { filter := some true }) := by
            have : ¬ (0 ≥ cfg.depthOpt) := by omega
            simp [entryFilterCheck, hck, h.fast, h1', htr, matchFilt, earlyOut, h.locIn, trigFilt, trigEnabled,
              depthLimit, r4, this, saveFilt]
          simp only [hD, ↓reduceIte]
          have hrel : ∀ (S : St), S.filt.inCount = s.filt.inCount + 1 → S.filt.outCount = s.filt.outCount →
              S.filt.depth = 1 → S.filt.maxDepth = noMaxDepth → S.filt.time = noTime → S.filt.size = 0 →
              S.recordIdx = s.recordIdx + 1 → S.enabled = s.enabled → S.over = s.over →
              RRel cfg S { inC := E.inC + 1, outC := E.outC, budget := cfg.depthOpt - 1 } (d + 1) := by
            intro S a1 a2 a0 a3 a4 a5 a6 a7 a8
            exact ⟨by rw [a1, r1], by rw [a2, r2], by intro _; simp [a0]; omega, a3, a4, a5, by rw [a6, r7],
              by rw [a7, r8], by rw [a8, r9]⟩
          cases k with
          | pg =>
            have he : entry cfg .pg s f t0 =
                ({ s with warned := false,
                          filt := { saveFilt s.filt with inCount := s.filt.inCount + 1, depth := 1 },
                          recordIdx := s.recordIdx + 1,
                          frames := frOf f t0 s.recordIdx false false true false s.filt :: s.frames }, true) := by
              simp [entry, hc, Trigger.changesState, e3, e6, h.fixd, entryFilterRecord, h.fast, saveFilt, frOf, hout0,
                r6, r8]
            rw [he]
            exact ⟨rfl, hrel _ rfl rfl rfl r4 r5 r6 rfl rfl rfl,
              Or.inl ⟨rfl, _, rfl, rfl, rfl, rfl, rfl, rfl, rfl, rfl, r7, by simp [frOf]⟩⟩
          | cyg =>
            have he : entry cfg .cyg s f t0 =
                ({ s with warned := false,
                          filt := { saveFilt s.filt with inCount := s.filt.inCount + 1, depth := 1 },
                          recordIdx := s.recordIdx + 1,
                          frames := frOf f t0 s.recordIdx true false true false s.filt :: s.frames }, true) := by
              simp [entry, hc, e3, e4, entryFilterRecord, h.fast, saveFilt, frOf, hout0, r6, r8]
            rw [he]
            exact ⟨rfl, hrel _ rfl rfl rfl r4 r5 r6 rfl rfl rfl,
              Or.inl ⟨rfl, _, rfl, rfl, rfl, rfl, rfl, rfl, rfl, rfl, r7, by simp [frOf]⟩⟩
      · -- no filter entry for this function
        have hmn : m = none := by
          rcases m with _ | (_ | _)
          · rfl
          · exact absurd rfl h2
          · exact absurd rfl h3
        subst hmn
        have htr0 : cfg.trig f = {} := htr
        simp only [Option.none_beq_some, Bool.not_false, Bool.true_and, Bool.false_eq_true, ↓reduceIte] at *
        have hrelE : ∀ (S : St), S.filt.inCount = s.filt.inCount → S.filt.outCount = s.filt.outCount →
            S.filt.depth = s.filt.depth → S.filt.maxDepth = noMaxDepth → S.filt.time = noTime → S.filt.size = 0 →
            S.recordIdx = s.recordIdx → S.enabled = s.enabled → S.over = s.over → RRel cfg S E d := by
          intro S a1 a2 a0 a3 a4 a5 a6 a7 a8
          exact ⟨by rw [a1, r1], by rw [a2, r2], by intro h0; rw [a0]; exact r3 h0, a3, a4, a5, by rw [a6, r7],
            by rw [a7, r8], by rw [a8, r9]⟩
        have hshape : ∀ (chk : FR × St × Trigger),
            chk = (.out, { s with warned := false, filt := saveFilt s.filt }, ({} : Trigger)) →
            entryFilterCheck cfg s f = chk →
            (entry cfg k s f t0).1.out = s.out ∧ RRel cfg (entry cfg k s f t0).1 E d ∧
            (((entry cfg k s f t0).2 = true ∧ ∃ F : Frame, (entry cfg k s f t0).1.frames = F :: s.frames ∧
                F.norecord = true ∧ F.written = false ∧ F.disabled = false ∧
                F.trace = false ∧ F.caller = false ∧ F.endT = 0 ∧ F.addr = f ∧ F.depth = d) ∨
             ((entry cfg k s f t0).2 = false ∧ (entry cfg k s f t0).1.frames = s.frames)) := by
          intro chk hchk hc
          subst hchk
          cases k with
          | pg =>
            have he : entry cfg .pg s f t0 = ({ s with warned := false, filt := saveFilt s.filt }, false) := by
              simp [entry, hc, Trigger.changesState, e1, e5]
            rw [he]
            exact ⟨rfl, hrelE _ rfl rfl rfl r4 r5 r6 rfl rfl rfl, Or.inr ⟨rfl, rfl⟩⟩
          | cyg =>
            have he : entry cfg .cyg s f t0 =
                ({ s with warned := false, filt := saveFilt s.filt,
                          frames := frOf f 0 s.recordIdx true true false false s.filt :: s.frames }, true) := by
              simp [entry, hc, e1, e2, entryFilterRecord, h.fast, saveFilt, frOf]
            rw [he]
            exact ⟨rfl, hrelE _ rfl rfl rfl r4 r5 r6 rfl rfl rfl,
              Or.inl ⟨rfl, _, rfl, rfl, rfl, rfl, rfl, rfl, rfl, rfl, r7⟩⟩
        by_cases h4 : cfg.optIn = true ∧ E.inC = 0
        · -- opt-in mode, not below a -F function
          have h4' : (cfg.optIn && decide (E.inC = 0)) = true := by simp [h4.1, h4.2]
          have hc : entryFilterCheck cfg s f =
              (.out, { s with warned := false, filt := saveFilt s.filt }, ({} : Trigger)) := by
            have : s.filt.inCount = 0 := by rw [r1]; exact h4.2
            simp [entryFilterCheck, hck, h.fast, h1', htr0, matchFilt, earlyOut, h.locIn, h4.1, this, saveFilt]
          obtain ⟨o1, o2, o3⟩ := hshape _ rfl hc
          simp only [h4', ↓reduceIte]
          refine ⟨o1, o2, ?_⟩
          rcases o3 with ⟨t, F, q1, q2, q3, q4, q5, q6, q7, q8, q9⟩ | ⟨t, q⟩
          · exact Or.inl ⟨t, F, q1, by simpa using q2, q3, q4, q5, q6, q7, q8, q9, by simp⟩
          · exact Or.inr ⟨t, q, by simp⟩
        · have h4' : (cfg.optIn && decide (E.inC = 0)) = false := by
            cases ho : cfg.optIn <;> simp_all
          have hearly : earlyOut cfg ({} : Trigger) (saveFilt s.filt) = false := by
            have hi : (saveFilt s.filt).inCount = E.inC := by simp [saveFilt, r1]
            unfold earlyOut
            dsimp only
            simp only [hi, h.locIn]
            cases ho : cfg.optIn <;> simp_all
          simp only [h4', Bool.false_eq_true, ↓reduceIte]
          by_cases h5 : E.budget = 0
          · -- depth budget used up
            have hdep : s.filt.depth ≥ cfg.depthOpt := by omega
            have hc : entryFilterCheck cfg s f =
                (.out, { s with warned := false, filt := saveFilt s.filt }, ({} : Trigger)) := by
              simp [entryFilterCheck, hck, h.fast, h1', htr0, matchFilt, hearly, trigFilt, trigEnabled, depthLimit, r4,
                hdep, saveFilt]
            obtain ⟨o1, o2, o3⟩ := hshape _ rfl hc
            simp only [h5, ↓reduceIte]
            have hEE : ({ inC := E.inC, outC := E.outC, budget := 0 } : Env) = E := by
              cases E; simp_all
            rw [hEE]
            refine ⟨o1, o2, ?_⟩
            rcases o3 with ⟨t, F, q1, q2, q3, q4, q5, q6, q7, q8, q9⟩ | ⟨t, q⟩
            · exact Or.inl ⟨t, F, q1, by simpa using q2, q3, q4, q5, q6, q7, q8, q9, by simp⟩
            · exact Or.inr ⟨t, q, by simp⟩
          · -- shown
            have hdep : ¬ (s.filt.depth ≥ cfg.depthOpt) := by omega
            have hc : entryFilterCheck cfg s f =
                (.in_, { s with warned := false, filt := { saveFilt s.filt with depth := s.filt.depth + 1 } },
                 ({} : Trigger)) := by
              have hsd : (saveFilt s.filt).depth = s.filt.depth := rfl
              have hsm : (saveFilt s.filt).maxDepth = s.filt.maxDepth := rfl
              have hso : (saveFilt s.filt).outCount = s.filt.outCount := rfl
              simp only [entryFilterCheck, hck, h.fast, Bool.false_eq_true, ↓reduceIte, hso, h1', htr0, matchFilt,
                hearly, trigFilt, trigEnabled, depthLimit, hsm, r4, hsd, hdep, Option.getD_none]
            simp only [h5, ↓reduceIte]
            have hrel : ∀ (S : St), S.filt.inCount = s.filt.inCount → S.filt.outCount = s.filt.outCount →
                S.filt.depth = s.filt.depth + 1 → S.filt.maxDepth = noMaxDepth → S.filt.time = noTime →
                S.filt.size = 0 → S.recordIdx = s.recordIdx + 1 → S.enabled = s.enabled → S.over = s.over →
                RRel cfg S { inC := E.inC, outC := E.outC, budget := E.budget - 1 } (d + 1) := by
              intro S a1 a2 a0 a3 a4 a5 a6 a7 a8
              exact ⟨by rw [a1, r1], by rw [a2, r2], by intro _; simp [a0]; omega, a3, a4, a5, by rw [a6, r7],
                by rw [a7, r8], by rw [a8, r9]⟩
            have hnr : (decide (s.filt.inCount = 0) && cfg.optIn) = false := by
              rw [r1]; cases ho : cfg.optIn <;> simp_all
            cases k with
            | pg =>
              have he : entry cfg .pg s f t0 =
                  ({ s with warned := false, filt := { saveFilt s.filt with depth := s.filt.depth + 1 },
                            recordIdx := s.recordIdx + 1,
                            frames := frOf f t0 s.recordIdx false false false false s.filt :: s.frames }, true) := by
                simp [entry, hc, Trigger.changesState, e3, e6, h.fixd, entryFilterRecord, h.fast, saveFilt, frOf, hout0,
                  r6, r8, hnr]
              rw [he]
              exact ⟨rfl, hrel _ rfl rfl rfl r4 r5 r6 rfl rfl rfl,
                Or.inl ⟨rfl, _, rfl, rfl, rfl, rfl, rfl, rfl, rfl, rfl, r7, by simp [frOf]⟩⟩
            | cyg =>
              have he : entry cfg .cyg s f t0 =
                  ({ s with warned := false, filt := { saveFilt s.filt with depth := s.filt.depth + 1 },
                            recordIdx := s.recordIdx + 1,
                            frames := frOf f t0 s.recordIdx true false false false s.filt :: s.frames }, true) := by
                simp [entry, hc, e3, e4, entryFilterRecord, h.fast, saveFilt, frOf, hout0, r6, r8, hnr]
              rw [he]
              exact ⟨rfl, hrel _ rfl rfl rfl r4 r5 r6 rfl rfl rfl,
                Or.inl ⟨rfl, _, rfl, rfl, rfl, rfl, rfl, rfl, rfl, rfl, r7, by simp [frOf]⟩⟩

/-- what the exit hook writes, tracing on, no time= / trace / caller trigger in play -/
theorem exit_fnd (cfg : Cfg) (h : FND cfg) (s2 : St) (F : Frame) (rest : List Frame) (t1 : Nat)
    (hfr : s2.frames = F :: rest) (hov : s2.over = 0) (hen : s2.enabled = true) (htime : s2.filt.time = noTime)
    (hdis : F.disabled = false) (htr : F.trace = false) (ht1 : t1 ≠ 0) :
    (exit cfg s2 t1).out =
      (if F.norecord || !(decide (t1 - F.start > cfg.threshold) || F.written) then s2.out
       else s2.out ++ (if F.written then [] else pend rest ++ [entryRec F]) ++
              [{ time := t1, type := 1, depth := F.depth, addr := F.addr }]) ∧
    (exit cfg s2 t1).frames =
      (if !F.norecord && (decide (t1 - F.start > cfg.threshold) || F.written) && !F.written then mark rest
       else rest) := by
  have ho : ¬ s2.over > 0 := by omega
  have ht1' : (t1 != 0) = true := by simpa using ht1
  cases hn : F.norecord with
  | true =>
    by_cases hc : F.cyg = true
    · simp [exit, ho, hfr, hc, hn, exitFilterRecord, h.fast]
    · have hc' : F.cyg = false := by simpa using hc
      simp [exit, ho, hfr, hc', hn, exitFilterRecord, h.fast]
  | false =>
    have hcn : (F.cyg && F.norecord) = false := by simp [hn]
    cases hw : F.written with
    | true =>
      simp [exit, ho, hfr, hcn, hn, hw, exitFilterRecord, h.fast, htime, hen, h.caller, htr, recordTrace, Frame.skip,
        hdis, ht1', exitRec]
    | false =>
      by_cases hd : t1 - F.start > cfg.threshold
      · simp [exit, ho, hfr, hcn, hn, hw, exitFilterRecord, h.fast, htime, hen, h.caller, htr, recordTrace, Frame.skip,
          hdis, ht1', exitRec, hd, pend, mark, entryRec]
      · simp [exit, ho, hfr, hcn, hn, hw, exitFilterRecord, h.fast, htime, hen, h.caller, htr, hd]

/-! ### the recorded stream of a forest -/

def Call.dur : Call → Nat
  | .node _ t0 t1 _ => t1 - t0

mutual
  /-- every call takes time on the clock and runs no longer than its caller -/
  def Call.nestOK : Call → Prop
    | .node _ t0 t1 kids => t0 < t1 ∧ Calls.allDurLe (t1 - t0) kids
  def Calls.allDurLe (n : Nat) : Calls → Prop
    | .nil => True
    | .cons x rest => Call.dur x ≤ n ∧ Call.nestOK x ∧ Calls.allDurLe n rest
end

theorem allDurLe_mono (n m : Nat) (hnm : n ≤ m) : ∀ (xs : Calls), Calls.allDurLe n xs → Calls.allDurLe m xs
  | .nil, _ => trivial
  | .cons x rest, h => by
    simp only [Calls.allDurLe] at h ⊢
    exact ⟨by omega, h.2.1, allDurLe_mono n m hnm rest h.2.2⟩

theorem pruneCall_fnd (cfg : Cfg) (h : FND cfg) (thr f t0 t1 : Nat) (kids : Calls) :
    pruneCall (RCfg.ofRecord cfg) true thr (.node f t0 t1 kids) =
      (if decide (t1 - t0 > thr) || !Calls.isNil (pruneCalls (RCfg.ofRecord cfg) true thr kids)
       then some (.node f t0 t1 (pruneCalls (RCfg.ofRecord cfg) true thr kids)) else none) := by
  have htr : cfg.trig f = { filter := (cfg.trig f).filter } := h.trig f
  unfold pruneCall RCfg.ofRecord
  dsimp only
  rw [htr]
  simp [keepDur, h.caller]

mutual
theorem prune_short_call (cfg : Cfg) (h : FND cfg) (thr : Nat) : ∀ (x : Call), Call.dur x ≤ thr → Call.nestOK x →
    pruneCall (RCfg.ofRecord cfg) true thr x = none
  | .node f t0 t1 kids, hd, hn => by
    simp only [Call.dur] at hd
    simp only [Call.nestOK] at hn
    have hk := prune_short_calls cfg h thr kids (allDurLe_mono _ _ hd kids hn.2)
    rw [pruneCall_fnd cfg h, hk]
    have : ¬ (t1 - t0 > thr) := by omega
    simp [this, Calls.isNil]
theorem prune_short_calls (cfg : Cfg) (h : FND cfg) (thr : Nat) : ∀ (xs : Calls), Calls.allDurLe thr xs →
    pruneCalls (RCfg.ofRecord cfg) true thr xs = .nil
  | .nil, _ => rfl
  | .cons x rest, hn => by
    simp only [Calls.allDurLe] at hn
    simp only [pruneCalls, prune_short_call cfg h thr x hn.1 hn.2.1, prune_short_calls cfg h thr rest hn.2.2]
end

theorem rrel_of_core (cfg : Cfg) (s s' : St) (E : Env) (d : Nat) (hc : core s' = core s) (hen : s'.enabled = true)
    (hr : RRel cfg s E d) : RRel cfg s' E d := by
  have h1 : eraseSv s'.filt = eraseSv s.filt := congrArg Core.filt hc
  have h2 : s'.recordIdx = s.recordIdx := congrArg Core.recordIdx hc
  have h3 : s'.over = s.over := congrArg Core.over hc
  have f1 : s'.filt.inCount = s.filt.inCount := by have := congrArg Filt.inCount h1; simpa [eraseSv] using this
  have f2 : s'.filt.outCount = s.filt.outCount := by have := congrArg Filt.outCount h1; simpa [eraseSv] using this
  have f3 : s'.filt.depth = s.filt.depth := by have := congrArg Filt.depth h1; simpa [eraseSv] using this
  have f4 : s'.filt.maxDepth = s.filt.maxDepth := by have := congrArg Filt.maxDepth h1; simpa [eraseSv] using this
  have f5 : s'.filt.time = s.filt.time := by have := congrArg Filt.time h1; simpa [eraseSv] using this
  have f6 : s'.filt.size = s.filt.size := by have := congrArg Filt.size h1; simpa [eraseSv] using this
  exact ⟨by rw [f1, hr.inC], by rw [f2, hr.outC], by intro h0; rw [f3]; exact hr.bud h0, by rw [f4, hr.maxD],
    by rw [f5, hr.time], by rw [f6, hr.size], by rw [h2, hr.ridx], hen, by rw [h3, hr.over]⟩

theorem fnd_nofinish (cfg : Cfg) (h : FND cfg) (f : Nat) : (cfg.trig f).finish = false := by
  rw [h.trig f]

theorem core_runCall (cfg : Cfg) (h : FND cfg) (k : Kind) (x : Call) (s : St) (hov : s.over = 0) :
    core (runCall cfg k s x) = core s := by
  cases k with
  | pg => exact Uft.C05.restored_call_pg cfg h.fast h.fixd (fnd_nofinish cfg h) x s (Or.inl hov)
  | cyg => exact Uft.C05.restored_call cfg h.fast (fnd_nofinish cfg h) x s (Or.inl hov)

end Uft.Fstack
