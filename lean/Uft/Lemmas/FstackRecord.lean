import Uft.Model.Fstack
import Uft.Lemmas.McountCore
import Uft.Lemmas.McountRestore
/- C07 helper lemmas, part 5: what the record-time hooks (Uft.Mcount, C02/C05) write for a
   call forest under -F / -N / -D / -t, as the same `specCalls ∘ pruneCalls`. -/
set_option linter.unusedSimpArgs false
set_option linter.unusedVariables false
namespace Uft.Fstack
open Uft.Mcount

/-- record-time option sets made of -F, -N, -D, -t only (regular build, repaired -pg path) -/
structure FND (cfg : Cfg) : Prop where
  fast : cfg.fast = false
  fixd : cfg.f4fixed = true
  locIn : cfg.locIn = false
  caller : cfg.callerMode = false
  minSize : cfg.minSize = 0
  en : cfg.enabled0 = true
  trig : ∀ f, cfg.trig f = { filter := (cfg.trig f).filter }

/-- how the thread's filter state corresponds to the lexical environment of the specification -/
structure RRel (cfg : Cfg) (s : St) (E : Env) (d : Nat) : Prop where
  inC : s.filt.inCount = E.inC
  outC : s.filt.outCount = E.outC
  bud : E.outC = 0 → s.filt.depth + E.budget = cfg.depthOpt
  maxD : s.filt.maxDepth = noMaxDepth
  time : s.filt.time = noTime
  size : s.filt.size = 0
  ridx : s.recordIdx = d
  en : s.enabled = true
  over : s.over = 0

/-- ENTRY records `record_trace_data` would add for the open frames, and the frames afterwards -/
def pend (fs : List Frame) : List Rec := (flushBelow fs).2
def mark (fs : List Frame) : List Frame := (flushBelow fs).1

theorem flushBelow_idem (fs : List Frame) : flushBelow (flushBelow fs).1 = ((flushBelow fs).1, []) := by
  induction fs with
  | nil => rfl
  | cons f r ih =>
    simp only [flushBelow]
    by_cases hw : f.written = true
    · simp [hw, flushBelow]
    · simp only [hw, Bool.false_eq_true, ↓reduceIte]
      by_cases hs : f.skip = true
      · simp [hs, flushBelow, hw, ih]
      · simp [hs, flushBelow]

theorem pend_mark (fs : List Frame) : pend (mark fs) = [] := by
  simp [pend, mark, flushBelow_idem]

theorem mark_mark (fs : List Frame) : mark (mark fs) = mark fs := by
  simp [mark, flushBelow_idem]

theorem pend_cons_skip (F : Frame) (fs : List Frame) (hw : F.written = false) (hs : F.norecord = true) :
    pend (F :: fs) = pend fs ∧ mark (F :: fs) = F :: mark fs := by
  simp [pend, mark, flushBelow, hw, Frame.skip, hs]

theorem pend_cons_vis (F : Frame) (fs : List Frame) (hw : F.written = false) (hs : F.norecord = false)
    (hd : F.disabled = false) :
    pend (F :: fs) = pend fs ++ [entryRec F] ∧ mark (F :: fs) = { F with written := true } :: mark fs := by
  simp [pend, mark, flushBelow, hw, Frame.skip, hs, hd]

/-- the exit hook never changes the trace on/off switch -/
theorem exit_enabled (cfg : Cfg) (s : St) (t : Nat) : (exit cfg s t).enabled = s.enabled := by
  unfold exit
  split
  · rfl
  · split
    · rfl
    · simp only [exitFilterRecord]
      repeat' split
      all_goals rfl

/-- `visit` for a table made of -F and -N entries only -/
theorem visit_fnd (cfg : Cfg) (h : FND cfg) (E : Env) (f : Nat) (m : Option Bool) (hm : (cfg.trig f).filter = m) :
    visit (RCfg.ofRecord cfg) E f =
      (if E.outC > 0 then (false, E) else
       if m = some false then (false, { E with outC := E.outC + 1 }) else
       if (!(m == some true) && cfg.optIn && decide (E.inC = 0)) then (false, E) else
       if (if (m == some true) then cfg.depthOpt else E.budget) = 0 then
         (false, { inC := if (m == some true) then E.inC + 1 else E.inC, outC := E.outC,
                   budget := if (m == some true) then cfg.depthOpt else E.budget })
       else (true, { inC := if (m == some true) then E.inC + 1 else E.inC, outC := E.outC,
                     budget := (if (m == some true) then cfg.depthOpt else E.budget) - 1 })) := by
  have htr : cfg.trig f = { filter := m } := by have := h.trig f; rw [hm] at this; exact this
  unfold visit RCfg.ofRecord
  dsimp only
  rw [htr]
  dsimp only [locReject]
  simp only [h.locIn, Bool.false_eq_true, ↓reduceIte, Option.getD_none, Bool.or_false]
  by_cases h1 : E.outC > 0
  · simp [h1]
  · simp only [h1, ↓reduceIte]
    by_cases h2 : m = some false
    · simp [h2]
    · simp only [h2, ↓reduceIte]
      by_cases h3 : m = some true
      · subst h3
        simp
      · have hb : (m == some true) = false := by simpa using h3
        simp [hb]

/-- the frame an entry hook leaves on the shadow stack -/
def frOf (f start d : Nat) (cyg nr fil notr : Bool) (flt : Filt) : Frame :=
  { addr := f, start := start, depth := d, cyg := cyg, norecord := nr, filtered := fil, notrace := notr,
    sDepth := flt.depth, sMaxDepth := flt.maxDepth, sTime := flt.time, sSize := flt.size }

/-- what entry hooks do for a -F / -N / -D / -t configuration, against `visit` -/
theorem entry_fnd (cfg : Cfg) (h : FND cfg) (k : Kind) (s : St) (E : Env) (d f t0 : Nat)
    (hr : RRel cfg s E d) (hlen : s.frames.length < cfg.maxStack) :
    (entry cfg k s f t0).1.out = s.out ∧
    RRel cfg (entry cfg k s f t0).1 (visit (RCfg.ofRecord cfg) E f).2
      (if (visit (RCfg.ofRecord cfg) E f).1 then d + 1 else d) ∧
    (((entry cfg k s f t0).2 = true ∧ ∃ F : Frame, (entry cfg k s f t0).1.frames = F :: s.frames ∧
        F.norecord = !(visit (RCfg.ofRecord cfg) E f).1 ∧ F.written = false ∧ F.disabled = false ∧
        F.trace = false ∧ F.caller = false ∧ F.endT = 0 ∧ F.addr = f ∧ F.depth = d ∧
        ((visit (RCfg.ofRecord cfg) E f).1 = true → F.start = t0)) ∨
     ((entry cfg k s f t0).2 = false ∧ (entry cfg k s f t0).1.frames = s.frames ∧
        (visit (RCfg.ofRecord cfg) E f).1 = false)) := by
  generalize hm : (cfg.trig f).filter = m
  have htr : cfg.trig f = { filter := m } := by have := h.trig f; rw [hm] at this; exact this
  have hidx : ¬ (s.idx ≥ cfg.maxStack) := by simp [St.idx, hr.over]; omega
  obtain ⟨r1, r2, r3, r4, r5, r6, r7, r8, r9⟩ := hr
  rw [visit_fnd cfg h E f m hm]
  have hck : checkRstack cfg s = (false, { s with warned := false }) := by simp [checkRstack, hidx]
  have e1 : (FR.out == FR.rstack) = false := rfl
  have e2 : (FR.out == FR.in_) = false := rfl
  have e3 : (FR.in_ == FR.rstack) = false := rfl
  have e4 : (FR.in_ == FR.in_) = true := rfl
  have e5 : (FR.out != FR.in_) = true := rfl
  have e6 : (FR.in_ != FR.in_) = false := rfl
  by_cases h1 : E.outC > 0
  · -- inside an opt-out region
    have h1' : s.filt.outCount > 0 := by omega
    have hc : entryFilterCheck cfg s f = (.out, { s with warned := false, filt := saveFilt s.filt }, {}) := by
      simp [entryFilterCheck, hck, h.fast, h1']
    simp only [h1, ↓reduceIte, Bool.false_eq_true]
    cases k with
    | pg =>
      have he : entry cfg .pg s f t0 = ({ s with warned := false, filt := saveFilt s.filt }, false) := by
        simp [entry, hc, Trigger.changesState, e1, e5]
      rw [he]
      exact ⟨rfl, ⟨by simpa using r1, by simpa using r2, by intro h0; omega, by simpa using r4, by simpa using r5,
        by simpa using r6, r7, r8, r9⟩, Or.inr ⟨rfl, rfl, by simp⟩⟩
    | cyg =>
      have he : entry cfg .cyg s f t0 =
          ({ s with warned := false, filt := saveFilt s.filt,
                    frames := { addr := f, start := 0, depth := s.recordIdx, cyg := true, norecord := true,
                                sDepth := s.filt.depth, sMaxDepth := s.filt.maxDepth, sTime := s.filt.time,
                                sSize := s.filt.size } :: s.frames }, true) := by
        simp [entry, hc, e1, e2, entryFilterRecord, h.fast, saveFilt]
      rw [he]
      exact ⟨rfl, ⟨by simpa using r1, by simpa using r2, by intro h0; omega, by simpa using r4, by simpa using r5,
        by simpa using r6, r7, r8, r9⟩, Or.inl ⟨rfl, _, rfl, rfl, rfl, rfl, rfl, rfl, rfl, rfl, r7, by simp⟩⟩
  · have h1' : ¬ s.filt.outCount > 0 := by omega
    have hout0 : s.filt.outCount = 0 := by omega
    have hE0 : E.outC = 0 := by omega
    have hbud := r3 hE0
    simp only [h1, ↓reduceIte]
    have hdl : ∀ g : Filt, depthLimit cfg { filter := m } (saveFilt s.filt) = cfg.depthOpt := by
      intro g; simp [depthLimit, saveFilt, r4]
    by_cases h2 : m = some false
    · -- -N function
      subst h2
      simp only [↓reduceIte]
      have hrel : ∀ (S : St), S.filt.inCount = s.filt.inCount → S.filt.outCount = s.filt.outCount + 1 →
          S.filt.maxDepth = noMaxDepth → S.filt.time = noTime → S.filt.size = 0 → S.recordIdx = s.recordIdx →
          S.enabled = s.enabled → S.over = s.over → RRel cfg S { E with outC := E.outC + 1 } d := by
        intro S a1 a2 a3 a4 a5 a6 a7 a8
        exact ⟨by rw [a1, r1], by rw [a2, r2], by intro h0; simp at h0, a3, a4, a5, by rw [a6, r7], by rw [a7, r8],
          by rw [a8, r9]⟩
      by_cases hD : cfg.depthOpt = 0
      · have hc : entryFilterCheck cfg s f =
            (.out, { s with warned := false,
                            filt := { saveFilt s.filt with outCount := s.filt.outCount + 1, depth := 0 } },
             { filter := some false }) := by
          simp [entryFilterCheck, hck, h.fast, h1', htr, matchFilt, earlyOut, h.locIn, trigFilt, trigEnabled, depthLimit, r4, hD,
            saveFilt]
        cases k with
        | pg =>
          have he : entry cfg .pg s f t0 =
              ({ s with warned := false,
                        filt := { saveFilt s.filt with outCount := s.filt.outCount + 1, depth := 0 },
                        frames := frOf f t0 s.recordIdx false true false true s.filt :: s.frames }, true) := by
            simp [entry, hc, Trigger.changesState, e1, e5, h.fixd, entryFilterRecord, h.fast, saveFilt, frOf]
          rw [he]
          exact ⟨rfl, hrel _ rfl rfl r4 r5 r6 rfl rfl rfl,
            Or.inl ⟨rfl, _, rfl, rfl, rfl, rfl, rfl, rfl, rfl, rfl, r7, by simp⟩⟩
        | cyg =>
          have he : entry cfg .cyg s f t0 =
              ({ s with warned := false,
                        filt := { saveFilt s.filt with outCount := s.filt.outCount + 1, depth := 0 },
                        frames := frOf f 0 s.recordIdx true true false true s.filt :: s.frames }, true) := by
            simp [entry, hc, e1, e2, entryFilterRecord, h.fast, saveFilt, frOf]
          rw [he]
          exact ⟨rfl, hrel _ rfl rfl r4 r5 r6 rfl rfl rfl,
            Or.inl ⟨rfl, _, rfl, rfl, rfl, rfl, rfl, rfl, rfl, rfl, r7, by simp⟩⟩
      · have hc : entryFilterCheck cfg s f =
            (.in_, { s with warned := false,
                            filt := { saveFilt s.filt with outCount := s.filt.outCount + 1, depth := 1 } },
             { filter := some false }) := by
          have : ¬ (0 ≥ cfg.depthOpt) := by omega
          simp [entryFilterCheck, hck, h.fast, h1', htr, matchFilt, earlyOut, h.locIn, trigFilt, trigEnabled, depthLimit, r4, this,
            saveFilt]
        cases k with
        | pg =>
          have he : entry cfg .pg s f t0 =
              ({ s with warned := false,
                        filt := { saveFilt s.filt with outCount := s.filt.outCount + 1, depth := 1 },
                        frames := frOf f t0 s.recordIdx false true false true s.filt :: s.frames }, true) := by
            simp [entry, hc, Trigger.changesState, e3, e6, h.fixd, entryFilterRecord, h.fast, saveFilt, frOf]
          rw [he]
          exact ⟨rfl, hrel _ rfl rfl r4 r5 r6 rfl rfl rfl,
            Or.inl ⟨rfl, _, rfl, rfl, rfl, rfl, rfl, rfl, rfl, rfl, r7, by simp⟩⟩
        | cyg =>
          have he : entry cfg .cyg s f t0 =
              ({ s with warned := false,
                        filt := { saveFilt s.filt with outCount := s.filt.outCount + 1, depth := 1 },
                        frames := frOf f t0 s.recordIdx true true false true s.filt :: s.frames }, true) := by
            simp [entry, hc, e3, e4, entryFilterRecord, h.fast, saveFilt, frOf]
          rw [he]
          exact ⟨rfl, hrel _ rfl rfl r4 r5 r6 rfl rfl rfl,
            Or.inl ⟨rfl, _, rfl, rfl, rfl, rfl, rfl, rfl, rfl, rfl, r7, by simp⟩⟩
    · simp only [h2, ↓reduceIte]
      by_cases h3 : m = some true
      · -- -F function
        subst h3
        simp only [BEq.rfl, Bool.not_true, Bool.false_and, Bool.false_eq_true, ↓reduceIte]
        by_cases hD : cfg.depthOpt = 0
        · have hc : entryFilterCheck cfg s f =
              (.out, { s with warned := false,
                              filt := { saveFilt s.filt with inCount := s.filt.inCount + 1, depth := 0 } },
               { filter := some true }) := by
            simp [entryFilterCheck, hck, h.fast, h1', htr, matchFilt, earlyOut, h.locIn, trigFilt, trigEnabled,
              depthLimit, r4, hD, saveFilt]
          simp only [hD, ↓reduceIte]
          have hrel : ∀ (S : St), S.filt.inCount = s.filt.inCount + 1 → S.filt.outCount = s.filt.outCount →
              S.filt.depth = 0 → S.filt.maxDepth = noMaxDepth → S.filt.time = noTime → S.filt.size = 0 →
              S.recordIdx = s.recordIdx → S.enabled = s.enabled → S.over = s.over →
              RRel cfg S { inC := E.inC + 1, outC := E.outC, budget := 0 } d := by
            intro S a1 a2 a0 a3 a4 a5 a6 a7 a8
            exact ⟨by rw [a1, r1], by rw [a2, r2], by intro _; simp [a0, hD], a3, a4, a5, by rw [a6, r7],
              by rw [a7, r8], by rw [a8, r9]⟩
          cases k with
          | pg =>
            have he : entry cfg .pg s f t0 =
                ({ s with warned := false,
                          filt := { saveFilt s.filt with inCount := s.filt.inCount + 1, depth := 0 },
                          frames := frOf f t0 s.recordIdx false true true false s.filt :: s.frames }, true) := by
              simp [entry, hc, Trigger.changesState, e1, e5, h.fixd, entryFilterRecord, h.fast, saveFilt, frOf]
            rw [he]
            exact ⟨rfl, hrel _ rfl rfl rfl r4 r5 r6 rfl rfl rfl,
              Or.inl ⟨rfl, _, rfl, rfl, rfl, rfl, rfl, rfl, rfl, rfl, r7, by simp⟩⟩
          | cyg =>
            have he : entry cfg .cyg s f t0 =
                ({ s with warned := false,
                          filt := { saveFilt s.filt with inCount := s.filt.inCount + 1, depth := 0 },
                          frames := frOf f 0 s.recordIdx true true true false s.filt :: s.frames }, true) := by
              simp [entry, hc, e1, e2, entryFilterRecord, h.fast, saveFilt, frOf]
            rw [he]
            exact ⟨rfl, hrel _ rfl rfl rfl r4 r5 r6 rfl rfl rfl,
              Or.inl ⟨rfl, _, rfl, rfl, rfl, rfl, rfl, rfl, rfl, rfl, r7, by simp⟩⟩
        · have hc : entryFilterCheck cfg s f =
              (.in_, { s with warned := false,
                              filt := { saveFilt s.filt with inCount := s.filt.inCount + 1, depth := 1 } },
               { filter := some true }) := by
            have : ¬ (0 ≥ cfg.depthOpt) := by omega
            simp [entryFilterCheck, hck, h.fast, h1', htr, matchFilt, earlyOut, h.locIn, trigFilt, trigEnabled,
              depthLimit, r4, this, saveFilt]
          simp only [hD, ↓reduceIte]
          have hrel : ∀ (S : St), S.filt.inCount = s.filt.inCount + 1 → S.filt.outCount = s.filt.outCount →
              S.filt.depth = 1 → S.filt.maxDepth = noMaxDepth → S.filt.time = noTime → S.filt.size = 0 →
              S.recordIdx = s.recordIdx + 1 → S.enabled = s.enabled → S.over = s.over →
              RRel cfg S { inC := E.inC + 1, outC := E.outC, budget := cfg.depthOpt - 1 } (d + 1) := by
            intro S a1 a2 a0 a3 a4 a5 a6 a7 a8
            exact ⟨by rw [a1, r1], by rw [a2, r2], by intro _; simp [a0]; omega, a3, a4, a5, by rw [a6, r7],
              by rw [a7, r8], by rw [a8, r9]⟩
          cases k with
          | pg =>
            have he : entry cfg .pg s f t0 =
                ({ s with warned := false,
                          filt := { saveFilt s.filt with inCount := s.filt.inCount + 1, depth := 1 },
                          recordIdx := s.recordIdx + 1,
                          frames := frOf f t0 s.recordIdx false false true false s.filt :: s.frames }, true) := by
              simp [entry, hc, Trigger.changesState, e3, e6, h.fixd, entryFilterRecord, h.fast, saveFilt, frOf, hout0,
                r6, r8]
            rw [he]
            exact ⟨rfl, hrel _ rfl rfl rfl r4 r5 r6 rfl rfl rfl,
              Or.inl ⟨rfl, _, rfl, rfl, rfl, rfl, rfl, rfl, rfl, rfl, r7, by simp [frOf]⟩⟩
          | cyg =>
            have he : entry cfg .cyg s f t0 =
                ({ s with warned := false,
                          filt := { saveFilt s.filt with inCount := s.filt.inCount + 1, depth := 1 },
                          recordIdx := s.recordIdx + 1,
                          frames := frOf f t0 s.recordIdx true false true false s.filt :: s.frames }, true) := by
              simp [entry, hc, e3, e4, entryFilterRecord, h.fast, saveFilt, frOf, hout0, r6, r8]
            rw [he]
            exact ⟨rfl, hrel _ rfl rfl rfl r4 r5 r6 rfl rfl rfl,
              Or.inl ⟨rfl, _, rfl, rfl, rfl, rfl, rfl, rfl, rfl, rfl, r7, by simp [frOf]⟩⟩
      · -- no filter entry for this function
        have hmn : m = none := by
          rcases m with _ | (_ | _)
          · rfl
          · exact absurd rfl h2
          · exact absurd rfl h3
        subst hmn
        have htr0 : cfg.trig f = {} := htr
        simp only [Option.none_beq_some, Bool.not_false, Bool.true_and, Bool.false_eq_true, ↓reduceIte] at *
        have hrelE : ∀ (S : St), S.filt.inCount = s.filt.inCount → S.filt.outCount = s.filt.outCount →
            S.filt.depth = s.filt.depth → S.filt.maxDepth = noMaxDepth → S.filt.time = noTime → S.filt.size = 0 →
            S.recordIdx = s.recordIdx → S.enabled = s.enabled → S.over = s.over → RRel cfg S E d := by
          intro S a1 a2 a0 a3 a4 a5 a6 a7 a8
          exact ⟨by rw [a1, r1], by rw [a2, r2], by intro h0; rw [a0]; exact r3 h0, a3, a4, a5, by rw [a6, r7],
            by rw [a7, r8], by rw [a8, r9]⟩
        have hshape : ∀ (chk : FR × St × Trigger),
            chk = (.out, { s with warned := false, filt := saveFilt s.filt }, ({} : Trigger)) →
            entryFilterCheck cfg s f = chk →
            (entry cfg k s f t0).1.out = s.out ∧ RRel cfg (entry cfg k s f t0).1 E d ∧
            (((entry cfg k s f t0).2 = true ∧ ∃ F : Frame, (entry cfg k s f t0).1.frames = F :: s.frames ∧
                F.norecord = true ∧ F.written = false ∧ F.disabled = false ∧
                F.trace = false ∧ F.caller = false ∧ F.endT = 0 ∧ F.addr = f ∧ F.depth = d) ∨
             ((entry cfg k s f t0).2 = false ∧ (entry cfg k s f t0).1.frames = s.frames)) := by
          intro chk hchk hc
          subst hchk
          cases k with
          | pg =>
            have he : entry cfg .pg s f t0 = ({ s with warned := false, filt := saveFilt s.filt }, false) := by
              simp [entry, hc, Trigger.changesState, e1, e5]
            rw [he]
            exact ⟨rfl, hrelE _ rfl rfl rfl r4 r5 r6 rfl rfl rfl, Or.inr ⟨rfl, rfl⟩⟩
          | cyg =>
            have he : entry cfg .cyg s f t0 =
                ({ s with warned := false, filt := saveFilt s.filt,
                          frames := frOf f 0 s.recordIdx true true false false s.filt :: s.frames }, true) := by
              simp [entry, hc, e1, e2, entryFilterRecord, h.fast, saveFilt, frOf]
            rw [he]
            exact ⟨rfl, hrelE _ rfl rfl rfl r4 r5 r6 rfl rfl rfl,
              Or.inl ⟨rfl, _, rfl, rfl, rfl, rfl, rfl, rfl, rfl, rfl, r7⟩⟩
        by_cases h4 : cfg.optIn = true ∧ E.inC = 0
        · -- opt-in mode, not below a -F function
          have h4' : (cfg.optIn && decide (E.inC = 0)) = true := by simp [h4.1, h4.2]
          have hc : entryFilterCheck cfg s f =
              (.out, { s with warned := false, filt := saveFilt s.filt }, ({} : Trigger)) := by
            have : s.filt.inCount = 0 := by rw [r1]; exact h4.2
            simp [entryFilterCheck, hck, h.fast, h1', htr0, matchFilt, earlyOut, h.locIn, h4.1, this, saveFilt]
          obtain ⟨o1, o2, o3⟩ := hshape _ rfl hc
          simp only [h4', ↓reduceIte]
          refine ⟨o1, o2, ?_⟩
          rcases o3 with ⟨t, F, q1, q2, q3, q4, q5, q6, q7, q8, q9⟩ | ⟨t, q⟩
          · exact Or.inl ⟨t, F, q1, by simpa using q2, q3, q4, q5, q6, q7, q8, q9, by simp⟩
          · exact Or.inr ⟨t, q, by simp⟩
        · have h4' : (cfg.optIn && decide (E.inC = 0)) = false := by
            cases ho : cfg.optIn <;> simp_all
          have hearly : earlyOut cfg ({} : Trigger) (saveFilt s.filt) = false := by
            have hi : (saveFilt s.filt).inCount = E.inC := by simp [saveFilt, r1]
            unfold earlyOut
            dsimp only
            simp only [hi, h.locIn]
            cases ho : cfg.optIn <;> simp_all
          simp only [h4', Bool.false_eq_true, ↓reduceIte]
          by_cases h5 : E.budget = 0
          · -- depth budget used up
            have hdep : s.filt.depth ≥ cfg.depthOpt := by omega
            have hc : entryFilterCheck cfg s f =
                (.out, { s with warned := false, filt := saveFilt s.filt }, ({} : Trigger)) := by
              simp [entryFilterCheck, hck, h.fast, h1', htr0, matchFilt, hearly, trigFilt, trigEnabled, depthLimit, r4,
                hdep, saveFilt]
            obtain ⟨o1, o2, o3⟩ := hshape _ rfl hc
            simp only [h5, ↓reduceIte]
            have hEE : ({ inC := E.inC, outC := E.outC, budget := 0 } : Env) = E := by
              cases E; simp_all
            rw [hEE]
            refine ⟨o1, o2, ?_⟩
            rcases o3 with ⟨t, F, q1, q2, q3, q4, q5, q6, q7, q8, q9⟩ | ⟨t, q⟩
            · exact Or.inl ⟨t, F, q1, by simpa using q2, q3, q4, q5, q6, q7, q8, q9, by simp⟩
            · exact Or.inr ⟨t, q, by simp⟩
          · -- shown
            have hdep : ¬ (s.filt.depth ≥ cfg.depthOpt) := by omega
            have hc : entryFilterCheck cfg s f =
                (.in_, { s with warned := false, filt := { saveFilt s.filt with depth := s.filt.depth + 1 } },
                 ({} : Trigger)) := by
              have hsd : (saveFilt s.filt).depth = s.filt.depth := rfl
              have hsm : (saveFilt s.filt).maxDepth = s.filt.maxDepth := rfl
              have hso : (saveFilt s.filt).outCount = s.filt.outCount := rfl
              simp only [entryFilterCheck, hck, h.fast, Bool.false_eq_true, ↓reduceIte, hso, h1', htr0, matchFilt,
                hearly, trigFilt, trigEnabled, depthLimit, hsm, r4, hsd, hdep, Option.getD_none, traceOffFlush_none]
            simp only [h5, ↓reduceIte]
            have hrel : ∀ (S : St), S.filt.inCount = s.filt.inCount → S.filt.outCount = s.filt.outCount →
                S.filt.depth = s.filt.depth + 1 → S.filt.maxDepth = noMaxDepth → S.filt.time = noTime →
                S.filt.size = 0 → S.recordIdx = s.recordIdx + 1 → S.enabled = s.enabled → S.over = s.over →
                RRel cfg S { inC := E.inC, outC := E.outC, budget := E.budget - 1 } (d + 1) := by
              intro S a1 a2 a0 a3 a4 a5 a6 a7 a8
              exact ⟨by rw [a1, r1], by rw [a2, r2], by intro _; simp [a0]; omega, a3, a4, a5, by rw [a6, r7],
                by rw [a7, r8], by rw [a8, r9]⟩
            have hnr : (decide (s.filt.inCount = 0) && cfg.optIn) = false := by
              rw [r1]; cases ho : cfg.optIn <;> simp_all
            cases k with
            | pg =>
              have he : entry cfg .pg s f t0 =
                  ({ s with warned := false, filt := { saveFilt s.filt with depth := s.filt.depth + 1 },
                            recordIdx := s.recordIdx + 1,
                            frames := frOf f t0 s.recordIdx false false false false s.filt :: s.frames }, true) := by
                simp [entry, hc, Trigger.changesState, e3, e6, h.fixd, entryFilterRecord, h.fast, saveFilt, frOf, hout0,
                  r6, r8, hnr]
              rw [he]
              exact ⟨rfl, hrel _ rfl rfl rfl r4 r5 r6 rfl rfl rfl,
                Or.inl ⟨rfl, _, rfl, rfl, rfl, rfl, rfl, rfl, rfl, rfl, r7, by simp [frOf]⟩⟩
            | cyg =>
              have he : entry cfg .cyg s f t0 =
                  ({ s with warned := false, filt := { saveFilt s.filt with depth := s.filt.depth + 1 },
                            recordIdx := s.recordIdx + 1,
                            frames := frOf f t0 s.recordIdx true false false false s.filt :: s.frames }, true) := by
                simp [entry, hc, e3, e4, entryFilterRecord, h.fast, saveFilt, frOf, hout0, r6, r8, hnr]
              rw [he]
              exact ⟨rfl, hrel _ rfl rfl rfl r4 r5 r6 rfl rfl rfl,
                Or.inl ⟨rfl, _, rfl, rfl, rfl, rfl, rfl, rfl, rfl, rfl, r7, by simp [frOf]⟩⟩

/-- what the exit hook writes, tracing on, no time= / trace / caller trigger in play -/
theorem exit_fnd (cfg : Cfg) (h : FND cfg) (s2 : St) (F : Frame) (rest : List Frame) (t1 : Nat)
    (hfr : s2.frames = F :: rest) (hov : s2.over = 0) (hen : s2.enabled = true) (htime : s2.filt.time = noTime)
    (hdis : F.disabled = false) (htr : F.trace = false) (ht1 : t1 ≠ 0) :
    (exit cfg s2 t1).out =
      (if F.norecord || !(durOk cfg (t1 - F.start) cfg.threshold || F.written) then s2.out
       else s2.out ++ (if F.written then [] else pend rest ++ [entryRec F]) ++
              [{ time := t1, type := 1, depth := F.depth, addr := F.addr }]) ∧
    (exit cfg s2 t1).frames =
      (if !F.norecord && (durOk cfg (t1 - F.start) cfg.threshold || F.written) && !F.written then mark rest
       else rest) := by
  have ho : ¬ s2.over > 0 := by omega
  have ht1' : (t1 != 0) = true := by simpa using ht1
  cases hn : F.norecord with
  | true =>
    by_cases hc : F.cyg = true
    · simp [exit, ho, hfr, hc, hn, exitFilterRecord, h.fast]
    · have hc' : F.cyg = false := by simpa using hc
      simp [exit, ho, hfr, hc', hn, exitFilterRecord, h.fast]
  | false =>
    have hcn : (F.cyg && F.norecord) = false := by simp [hn]
    cases hw : F.written with
    | true =>
      simp [exit, ho, hfr, hcn, hn, hw, exitFilterRecord, h.fast, htime, hen, h.caller, htr, recordTrace, Frame.skip,
        hdis, ht1', exitRec]
    | false =>
      by_cases hd : durOk cfg (t1 - F.start) cfg.threshold = true
      · simp [exit, ho, hfr, hcn, hn, hw, exitFilterRecord, h.fast, htime, hen, h.caller, htr, recordTrace, Frame.skip,
          hdis, ht1', exitRec, hd, pend, mark, entryRec]
      · simp [exit, ho, hfr, hcn, hn, hw, exitFilterRecord, h.fast, htime, hen, h.caller, htr, hd]

/-! ### the recorded stream of a forest -/

/-- the record-time duration test is the specification's, strict before the repair of S4 -/
theorem keepDur_durOk (cfg : Cfg) (dur thr : Nat) : keepDur (!cfg.s4fixed) dur thr = durOk cfg dur thr := by
  unfold keepDur durOk
  cases cfg.s4fixed <;> simp

theorem durOk_mono (cfg : Cfg) (m n thr : Nat) (hmn : m ≤ n) (h : durOk cfg n thr = false) : durOk cfg m thr = false := by
  cases hs : cfg.s4fixed
  · simp only [durOk, hs, Bool.false_eq_true, ↓reduceIte, decide_eq_false_iff_not] at h ⊢; omega
  · simp only [durOk, hs, ↓reduceIte, decide_eq_false_iff_not] at h ⊢; omega

def Call.dur : Call → Nat
  | .node _ t0 t1 _ => t1 - t0

mutual
  /-- clock readings are ordered, the exit time is not the "not yet returned" sentinel 0, and no call
      runs longer than its caller -/
  def Call.nestOK : Call → Prop
    | .node _ t0 t1 kids => t0 ≤ t1 ∧ t1 ≠ 0 ∧ Calls.allDurLe (t1 - t0) kids
  def Calls.allDurLe (n : Nat) : Calls → Prop
    | .nil => True
    | .cons x rest => Call.dur x ≤ n ∧ Call.nestOK x ∧ Calls.allDurLe n rest
end

theorem allDurLe_mono (n m : Nat) (hnm : n ≤ m) : ∀ (xs : Calls), Calls.allDurLe n xs → Calls.allDurLe m xs
  | .nil, _ => trivial
  | .cons x rest, h => by
    simp only [Calls.allDurLe] at h ⊢
    exact ⟨by omega, h.2.1, allDurLe_mono n m hnm rest h.2.2⟩

theorem pruneCall_fnd (cfg : Cfg) (h : FND cfg) (thr f t0 t1 : Nat) (kids : Calls) :
    pruneCall (RCfg.ofRecord cfg) (!cfg.s4fixed) thr (.node f t0 t1 kids) =
      (if durOk cfg (t1 - t0) thr || !Calls.isNil (pruneCalls (RCfg.ofRecord cfg) (!cfg.s4fixed) thr kids)
       then some (.node f t0 t1 (pruneCalls (RCfg.ofRecord cfg) (!cfg.s4fixed) thr kids)) else none) := by
  have htr : cfg.trig f = { filter := (cfg.trig f).filter } := h.trig f
  unfold pruneCall RCfg.ofRecord
  dsimp only
  rw [htr]
  simp [keepDur_durOk, h.caller]

mutual
theorem prune_short_call (cfg : Cfg) (h : FND cfg) (thr : Nat) : ∀ (x : Call), durOk cfg (Call.dur x) thr = false → Call.nestOK x →
    pruneCall (RCfg.ofRecord cfg) (!cfg.s4fixed) thr x = none
  | .node f t0 t1 kids, hd, hn => by
    simp only [Call.dur] at hd
    simp only [Call.nestOK] at hn
    have hk := prune_short_calls cfg h thr kids (t1 - t0) hd hn.2.2
    rw [pruneCall_fnd cfg h, hk]
    simp [hd, Calls.isNil]
theorem prune_short_calls (cfg : Cfg) (h : FND cfg) (thr : Nat) : ∀ (xs : Calls) (n : Nat),
    durOk cfg n thr = false → Calls.allDurLe n xs → pruneCalls (RCfg.ofRecord cfg) (!cfg.s4fixed) thr xs = .nil
  | .nil, _, _, _ => rfl
  | .cons x rest, n, hs, hn => by
    simp only [Calls.allDurLe] at hn
    simp only [pruneCalls, prune_short_call cfg h thr x (durOk_mono cfg _ _ thr hn.1 hs) hn.2.1,
      prune_short_calls cfg h thr rest n hs hn.2.2]
end

theorem rrel_of_core (cfg : Cfg) (s s' : St) (E : Env) (d : Nat) (hc : core s' = core s) (hen : s'.enabled = true)
    (hr : RRel cfg s E d) : RRel cfg s' E d := by
  have h1 : eraseSv s'.filt = eraseSv s.filt := congrArg Core.filt hc
  have h2 : s'.recordIdx = s.recordIdx := congrArg Core.recordIdx hc
  have h3 : s'.over = s.over := congrArg Core.over hc
  have f1 : s'.filt.inCount = s.filt.inCount := by have := congrArg Filt.inCount h1; simpa [eraseSv] using this
  have f2 : s'.filt.outCount = s.filt.outCount := by have := congrArg Filt.outCount h1; simpa [eraseSv] using this
  have f3 : s'.filt.depth = s.filt.depth := by have := congrArg Filt.depth h1; simpa [eraseSv] using this
  have f4 : s'.filt.maxDepth = s.filt.maxDepth := by have := congrArg Filt.maxDepth h1; simpa [eraseSv] using this
  have f5 : s'.filt.time = s.filt.time := by have := congrArg Filt.time h1; simpa [eraseSv] using this
  have f6 : s'.filt.size = s.filt.size := by have := congrArg Filt.size h1; simpa [eraseSv] using this
  exact ⟨by rw [f1, hr.inC], by rw [f2, hr.outC], by intro h0; rw [f3]; exact hr.bud h0, by rw [f4, hr.maxD],
    by rw [f5, hr.time], by rw [f6, hr.size], by rw [h2, hr.ridx], hen, by rw [h3, hr.over]⟩

theorem fnd_nofinish (cfg : Cfg) (h : FND cfg) (f : Nat) : (cfg.trig f).finish = false := by
  rw [h.trig f]

theorem core_runCall (cfg : Cfg) (h : FND cfg) (k : Kind) (x : Call) (s : St) (hov : s.over = 0) :
    core (runCall cfg k s x) = core s := by
  cases k with
  | pg => exact Uft.C05.restored_call_pg cfg h.fast h.fixd (fnd_nofinish cfg h) x s (Or.inl hov)
  | cyg => exact Uft.C05.restored_call cfg h.fast (fnd_nofinish cfg h) x s (Or.inl hov)

def evsOf (R : RCfg) (E : Env) (d : Nat) : Option Call → List Rec
  | some x' => specCall R E d x'
  | none => []

theorem specCalls_nil (R : RCfg) (E : Env) (d : Nat) : specCalls R E d .nil = [] := rfl

theorem isNil_eq_nil (xs : Calls) (h : Calls.isNil xs = true) : xs = .nil := by
  cases xs with
  | nil => rfl
  | cons a b => simp [Calls.isNil] at h

/-- what one call adds to the recorded stream, given what its callees added -/
theorem rec_node (cfg : Cfg) (h : FND cfg) (k : Kind) (f t0 t1 : Nat) (kids : Calls) (s : St) (E : Env) (d : Nat)
    (hr : RRel cfg s E d) (hlen : s.frames.length < cfg.maxStack) (ht1 : t1 ≠ 0)
    (hshort : durOk cfg (t1 - t0) cfg.threshold = false →
      pruneCalls (RCfg.ofRecord cfg) (!cfg.s4fixed) cfg.threshold kids = .nil)
    (ih : ∀ (s1 : St) (E1 : Env) (d1 : Nat), RRel cfg s1 E1 d1 → s1.frames.length ≤ s.frames.length + 1 →
      (runCalls cfg k s1 kids).out = s1.out ++
          (if specCalls (RCfg.ofRecord cfg) E1 d1 (pruneCalls (RCfg.ofRecord cfg) (!cfg.s4fixed) cfg.threshold kids) = [] then []
           else pend s1.frames) ++
          specCalls (RCfg.ofRecord cfg) E1 d1 (pruneCalls (RCfg.ofRecord cfg) (!cfg.s4fixed) cfg.threshold kids) ∧
      (runCalls cfg k s1 kids).frames =
          (if specCalls (RCfg.ofRecord cfg) E1 d1 (pruneCalls (RCfg.ofRecord cfg) (!cfg.s4fixed) cfg.threshold kids) = []
           then s1.frames else mark s1.frames) ∧
      RRel cfg (runCalls cfg k s1 kids) E1 d1) :
    (runCall cfg k s (.node f t0 t1 kids)).out = s.out ++
        (if evsOf (RCfg.ofRecord cfg) E d (pruneCall (RCfg.ofRecord cfg) (!cfg.s4fixed) cfg.threshold (.node f t0 t1 kids)) = []
         then [] else pend s.frames) ++
        evsOf (RCfg.ofRecord cfg) E d (pruneCall (RCfg.ofRecord cfg) (!cfg.s4fixed) cfg.threshold (.node f t0 t1 kids)) ∧
    (runCall cfg k s (.node f t0 t1 kids)).frames =
        (if evsOf (RCfg.ofRecord cfg) E d (pruneCall (RCfg.ofRecord cfg) (!cfg.s4fixed) cfg.threshold (.node f t0 t1 kids)) = []
         then s.frames else mark s.frames) ∧
    RRel cfg (runCall cfg k s (.node f t0 t1 kids)) E d := by
  obtain ⟨eo, erel, eshape⟩ := entry_fnd cfg h k s E d f t0 hr hlen
  have hcore := core_runCall cfg h k (.node f t0 t1 kids) s hr.over
  rw [pruneCall_fnd cfg h]
  generalize hks : pruneCalls (RCfg.ofRecord cfg) (!cfg.s4fixed) cfg.threshold kids = ks at ih hshort
  generalize hv : visit (RCfg.ofRecord cfg) E f = v at eo erel eshape
  obtain ⟨vis, Ek⟩ := v
  simp only at erel eshape
  have hspecN : specCall (RCfg.ofRecord cfg) E d (.node f t0 t1 ks) =
      (if vis then [{ time := t0, type := 0, depth := d, addr := f }] ++
                   specCalls (RCfg.ofRecord cfg) Ek (d + 1) ks ++ [{ time := t1, type := 1, depth := d, addr := f }]
       else specCalls (RCfg.ofRecord cfg) Ek d ks) := by
    simp only [specCall, hv]
  have hev : evsOf (RCfg.ofRecord cfg) E d
        (if (durOk cfg (t1 - t0) cfg.threshold || !Calls.isNil ks) = true then some (.node f t0 t1 ks) else none) =
      (if vis then
         (if (durOk cfg (t1 - t0) cfg.threshold || !Calls.isNil ks) = true then
            [{ time := t0, type := 0, depth := d, addr := f }] ++ specCalls (RCfg.ofRecord cfg) Ek (d + 1) ks ++
              [{ time := t1, type := 1, depth := d, addr := f }]
          else [])
       else specCalls (RCfg.ofRecord cfg) Ek d ks) := by
    by_cases hkeep : (durOk cfg (t1 - t0) cfg.threshold || !Calls.isNil ks) = true
    · simp only [hkeep, ↓reduceIte, evsOf, hspecN]
    · simp only [hkeep, Bool.false_eq_true, ↓reduceIte, evsOf]
      have hn : Calls.isNil ks = true := by
        cases hk : Calls.isNil ks with
        | true => rfl
        | false => simp [hk] at hkeep
      rw [isNil_eq_nil ks hn]
      cases vis <;> simp [specCalls_nil]
  rw [hev]
  have hnilOf : ∀ (E' : Env) (d' : Nat), specCalls (RCfg.ofRecord cfg) E' d' ks ≠ [] → Calls.isNil ks = false := by
    intro E' d' hne
    cases hk : Calls.isNil ks with
    | false => rfl
    | true => rw [isNil_eq_nil ks hk] at hne; exact absurd rfl hne
  simp only [runCall]
  generalize hs1 : (entry cfg k s f t0).1 = s1 at eo erel eshape
  generalize htook : (entry cfg k s f t0).2 = took at eshape
  rcases eshape with ⟨htk, F, hfr, hnr, hw, hdis, htrc, hcal, hend, haddr, hdep, hstart⟩ | ⟨htk, hfr, hvis⟩
  · -- a frame was pushed
    subst htk
    simp only [↓reduceIte]
    obtain ⟨ko, kf, krel⟩ := ih s1 Ek (if vis then d + 1 else d) erel (by rw [hfr]; simp)
    generalize hs2 : runCalls cfg k s1 kids = s2 at ko kf krel
    have hen2 : (exit cfg s2 t1).enabled = true := by rw [exit_enabled]; exact krel.en
    have hrel : RRel cfg (exit cfg s2 t1) E d := by
      have : runCall cfg k s (.node f t0 t1 kids) = exit cfg s2 t1 := by
        simp only [runCall, hs1, htook, ↓reduceIte, hs2]
      rw [← this]
      exact rrel_of_core cfg s _ E d hcore (by rw [this]; exact hen2) hr
    cases vis with
    | false =>
      -- not shown: a NORECORD frame, transparent for the lazy writer
      simp only [Bool.not_false] at hnr
      obtain ⟨p1, p2⟩ := pend_cons_skip F s.frames hw hnr
      simp only [Bool.false_eq_true, ↓reduceIte] at ko kf ⊢
      by_cases hek : specCalls (RCfg.ofRecord cfg) Ek d ks = []
      · simp only [hek, ↓reduceIte, List.append_nil] at ko kf ⊢
        have hx := exit_fnd cfg h s2 F s.frames t1 (by rw [kf, hfr]) krel.over krel.en krel.time hdis htrc ht1
        simp only [hnr, Bool.true_or, ↓reduceIte, Bool.not_true, Bool.false_and, Bool.false_eq_true] at hx
        exact ⟨by rw [hx.1, ko, eo], hx.2, hrel⟩
      · simp only [hek, ↓reduceIte] at ko kf ⊢
        have hx := exit_fnd cfg h s2 F (mark s.frames) t1 (by rw [kf, hfr, p2]) krel.over krel.en krel.time hdis
          htrc ht1
        simp only [hnr, Bool.true_or, ↓reduceIte, Bool.not_true, Bool.false_and, Bool.false_eq_true] at hx
        exact ⟨by rw [hx.1, ko, eo, hfr, p1], hx.2, hrel⟩
    | true =>
      -- shown: the frame's ENTRY is owed until something below it, or the call itself, is written
      simp only [Bool.not_true] at hnr
      obtain ⟨p1, p2⟩ := pend_cons_vis F s.frames hw hnr hdis
      have hst : F.start = t0 := hstart rfl
      have hER : entryRec F = { time := t0, type := 0, depth := d, addr := f } := by
        simp [entryRec, hst, hdep, haddr]
      simp only [↓reduceIte] at ko kf ⊢
      by_cases hek : specCalls (RCfg.ofRecord cfg) Ek (d + 1) ks = []
      · simp only [hek, ↓reduceIte, List.append_nil] at ko kf ⊢
        have hx := exit_fnd cfg h s2 F s.frames t1 (by rw [kf, hfr]) krel.over krel.en krel.time hdis htrc ht1
        simp only [hnr, hw, Bool.false_or, Bool.or_false, Bool.not_false, Bool.true_and, Bool.and_true,
          Bool.false_eq_true, ↓reduceIte, hst] at hx
        by_cases hdur : durOk cfg (t1 - t0) cfg.threshold = true
        · simp only [hdur, decide_true, Bool.not_true, Bool.false_eq_true, ↓reduceIte, Bool.true_or] at hx ⊢
          refine ⟨?_, ?_, hrel⟩
          · rw [hx.1, ko, eo, hER, hdep, haddr]; simp [List.append_assoc]
          · rw [hx.2]; simp
        · have hdur : durOk cfg (t1 - t0) cfg.threshold = false := by simpa using hdur
          have hkn := hshort hdur
          simp only [hdur, decide_false, Bool.not_false, ↓reduceIte, Bool.false_eq_true, hkn, Calls.isNil,
            Bool.not_true, Bool.or_self, List.append_nil] at hx ⊢
          exact ⟨by rw [hx.1, ko, eo], hx.2, hrel⟩
      · simp only [hek, ↓reduceIte] at ko kf ⊢
        have hnil := hnilOf _ _ hek
        have hx := exit_fnd cfg h s2 { F with written := true } (mark s.frames) t1 (by rw [kf, hfr, p2])
          krel.over krel.en krel.time hdis htrc ht1
        simp only [hnr, Bool.or_true, Bool.not_true, Bool.or_false, Bool.false_eq_true, ↓reduceIte,
          Bool.and_false, List.nil_append] at hx
        simp only [hnil, Bool.not_false, Bool.or_true, ↓reduceIte]
        refine ⟨?_, ?_, hrel⟩
        · rw [hx.1, ko, eo, hfr, p1, hER, hdep, haddr]; simp [List.append_assoc]
        · rw [hx.2]; simp
  · -- -pg hook that did not take the call: no frame, nothing to undo
    subst htk
    subst hvis
    simp only [Bool.false_eq_true, ↓reduceIte] at erel ⊢
    obtain ⟨ko, kf, krel⟩ := ih s1 Ek d erel (by rw [hfr]; omega)
    have hrun : runCall cfg k s (.node f t0 t1 kids) = runCalls cfg k s1 kids := by
      simp only [runCall, hs1, htook, Bool.false_eq_true, ↓reduceIte]
    have hrel : RRel cfg (runCalls cfg k s1 kids) E d := by
      rw [← hrun]
      exact rrel_of_core cfg s _ E d hcore (by rw [hrun]; exact krel.en) hr
    exact ⟨by rw [ko, eo, hfr], by rw [kf, hfr], hrel⟩

theorem specCalls_pruneCalls_cons (R : RCfg) (st : Bool) (thr : Nat) (E : Env) (d : Nat) (x : Call) (rest : Calls) :
    specCalls R E d (pruneCalls R st thr (.cons x rest)) =
      evsOf R E d (pruneCall R st thr x) ++ specCalls R E d (pruneCalls R st thr rest) := by
  simp only [pruneCalls]
  cases pruneCall R st thr x with
  | none => simp [evsOf]
  | some x' => simp [evsOf, specCalls]

mutual
theorem rec_call (cfg : Cfg) (h : FND cfg) (k : Kind) : ∀ (x : Call) (s : St) (E : Env) (d : Nat),
    RRel cfg s E d → s.frames.length + x.height ≤ cfg.maxStack → Call.nestOK x →
    (runCall cfg k s x).out = s.out ++
        (if evsOf (RCfg.ofRecord cfg) E d (pruneCall (RCfg.ofRecord cfg) (!cfg.s4fixed) cfg.threshold x) = [] then []
         else pend s.frames) ++
        evsOf (RCfg.ofRecord cfg) E d (pruneCall (RCfg.ofRecord cfg) (!cfg.s4fixed) cfg.threshold x) ∧
    (runCall cfg k s x).frames =
        (if evsOf (RCfg.ofRecord cfg) E d (pruneCall (RCfg.ofRecord cfg) (!cfg.s4fixed) cfg.threshold x) = [] then s.frames
         else mark s.frames) ∧
    RRel cfg (runCall cfg k s x) E d
  | .node f t0 t1 kids, s, E, d, hr, hh, hn => by
    simp only [Call.height] at hh
    simp only [Call.nestOK] at hn
    exact rec_node cfg h k f t0 t1 kids s E d hr (by omega) hn.2.1
      (fun hd => prune_short_calls cfg h cfg.threshold kids (t1 - t0) hd hn.2.2)
      (fun s1 E1 d1 hr1 hl => rec_calls cfg h k kids s1 E1 d1 (t1 - t0) hr1 (by omega) hn.2.2)
theorem rec_calls (cfg : Cfg) (h : FND cfg) (k : Kind) : ∀ (xs : Calls) (s : St) (E : Env) (d n : Nat),
    RRel cfg s E d → s.frames.length + xs.height ≤ cfg.maxStack → Calls.allDurLe n xs →
    (runCalls cfg k s xs).out = s.out ++
        (if specCalls (RCfg.ofRecord cfg) E d (pruneCalls (RCfg.ofRecord cfg) (!cfg.s4fixed) cfg.threshold xs) = [] then []
         else pend s.frames) ++
        specCalls (RCfg.ofRecord cfg) E d (pruneCalls (RCfg.ofRecord cfg) (!cfg.s4fixed) cfg.threshold xs) ∧
    (runCalls cfg k s xs).frames =
        (if specCalls (RCfg.ofRecord cfg) E d (pruneCalls (RCfg.ofRecord cfg) (!cfg.s4fixed) cfg.threshold xs) = []
         then s.frames else mark s.frames) ∧
    RRel cfg (runCalls cfg k s xs) E d
  | .nil, s, E, d, n, hr, _, _ => by
    simp [runCalls, pruneCalls, specCalls, hr]
  | .cons x rest, s, E, d, n, hr, hh, hn => by
    simp only [Calls.height] at hh
    simp only [Calls.allDurLe] at hn
    obtain ⟨xo, xf, xr⟩ := rec_call cfg h k x s E d hr (by omega) hn.2.1
    have hlen : (runCall cfg k s x).frames.length = s.frames.length := by
      rw [xf]; split
      · rfl
      · simp only [mark]
        have := congrArg List.length (flushBelow_core s.frames)
        simpa using this
    obtain ⟨ro, rf, rr⟩ := rec_calls cfg h k rest (runCall cfg k s x) E d n xr (by rw [hlen]; omega) hn.2.2
    simp only [runCalls]
    rw [specCalls_pruneCalls_cons]
    generalize evsOf (RCfg.ofRecord cfg) E d (pruneCall (RCfg.ofRecord cfg) (!cfg.s4fixed) cfg.threshold x) = ex at xo xf
    generalize specCalls (RCfg.ofRecord cfg) E d (pruneCalls (RCfg.ofRecord cfg) (!cfg.s4fixed) cfg.threshold rest) = er
      at ro rf
    refine ⟨?_, ?_, rr⟩
    · rw [ro, xo, xf]
      by_cases hx : ex = []
      · subst hx; simp
      · by_cases hre : er = []
        · subst hre; simp [hx]
        · simp [hx, hre, pend_mark, List.append_assoc]
    · rw [rf, xf]
      by_cases hx : ex = []
      · subst hx; simp
      · by_cases hre : er = []
        · subst hre; simp [hx]
        · simp [hx, hre, mark_mark]
end

/-- C07, record side: what the hooks write for a forest under -F / -N / -D / -t is the
    documented selection (with the record-time comparison `>` for -t) -/
theorem record_out (cfg : Cfg) (h : FND cfg) (k : Kind) (cs : Calls) (n : Nat)
    (hh : cs.height ≤ cfg.maxStack) (hn : Calls.allDurLe n cs) :
    (runCalls cfg k (St.init cfg) cs).out = spec (RCfg.ofRecord cfg) (!cfg.s4fixed) cs := by
  have hr : RRel cfg (St.init cfg) (Env.init (RCfg.ofRecord cfg)) 0 := by
    constructor <;> simp [St.init, Env.init, RCfg.ofRecord, h.minSize, h.en]
  obtain ⟨o, _, _⟩ := rec_calls cfg h k cs (St.init cfg) (Env.init (RCfg.ofRecord cfg)) 0 n hr
    (by simp [St.init]; exact hh) hn
  rw [o]
  simp [St.init, pend, flushBelow, spec, RCfg.ofRecord]

/-! ### finding F-C07-TRACEOFF-FLUSH: the flush at the TRACE_OFF update of mcount_entry_filter_check

`pend fs` is what record_trace_data owes for the stack `fs` (innermost first): the ENTRY records of the
unwritten recordable frames, outermost first, down to the first written frame.  `WDown` is the lazy
writer's invariant (below a written frame every recordable frame is written; holds in every reachable
state, `wdown_runCalls`), under which `pend` is all unwritten recordable frames (`owed`). -/
namespace Flush
open Uft.Mcount

/-- every recordable (not NORECORD, not DISABLED) frame has its ENTRY record written -/
def AllWritten (fs : List Frame) : Prop := ∀ F ∈ fs, F.skip = false → F.written = true

/-- below a written frame every recordable frame is written -/
def WDown : List Frame → Prop
  | [] => True
  | F :: r => (F.written = true → AllWritten r) ∧ WDown r

/-- the ENTRY records of all unwritten recordable frames, outermost first -/
def owed : List Frame → List Rec
  | [] => []
  | F :: r => owed r ++ (if !F.written && !F.skip then [entryRec F] else [])

/-- the calls still open: `end_time` is 0 until the exit hook sets it -/
def Open (fs : List Frame) : Prop := ∀ F ∈ fs, F.endT = 0

theorem owed_allWritten : ∀ (fs : List Frame), AllWritten fs → owed fs = []
  | [], _ => rfl
  | F :: r, h => by
    have hr : AllWritten r := fun G hG => h G (by simp [hG])
    simp only [owed, owed_allWritten r hr, List.nil_append]
    cases hs : F.skip with
    | true => simp
    | false => simp [h F (by simp) hs]

theorem flushBelow_wdown : ∀ (fs : List Frame), WDown fs →
    WDown (flushBelow fs).1 ∧ AllWritten (flushBelow fs).1 ∧ (flushBelow fs).2 = owed fs
  | [], _ => ⟨trivial, fun _ h => by simp [flushBelow] at h, rfl⟩
  | F :: r, h => by
    obtain ⟨ih1, ih2, ih3⟩ := flushBelow_wdown r h.2
    simp only [flushBelow]
    by_cases hw : F.written = true
    · simp only [hw, ↓reduceIte]
      refine ⟨h, ?_, ?_⟩
      · intro G hG hs
        simp only [List.mem_cons] at hG
        rcases hG with rfl | hG
        · exact hw
        · exact h.1 hw G hG hs
      · simp [owed, hw, owed_allWritten r (h.1 hw)]
    · have hw' : F.written = false := by simpa using hw
      simp only [hw', Bool.false_eq_true, ↓reduceIte]
      by_cases hs : F.skip = true
      · simp only [hs, ↓reduceIte]
        refine ⟨⟨fun hx => by simp [hw'] at hx, ih1⟩, ?_, ?_⟩
        · intro G hG hsG
          simp only [List.mem_cons] at hG
          rcases hG with rfl | hG
          · simp [hs] at hsG
          · exact ih2 G hG hsG
        · simp [owed, hw', hs, ih3]
      · have hs' : F.skip = false := by simpa using hs
        simp only [hs', Bool.false_eq_true, ↓reduceIte]
        refine ⟨⟨fun _ => ih2, ih1⟩, ?_, ?_⟩
        · intro G hG hsG
          simp only [List.mem_cons] at hG
          rcases hG with rfl | hG
          · rfl
          · exact ih2 G hG hsG
        · simp [owed, hw', hs', ih3]

/-- under the invariant, what record_trace_data owes is every unwritten recordable frame -/
theorem pend_eq_owed (fs : List Frame) (h : WDown fs) : pend fs = owed fs := (flushBelow_wdown fs h).2.2

theorem mark_allWritten (fs : List Frame) (h : WDown fs) : AllWritten (mark fs) := (flushBelow_wdown fs h).2.1

theorem mark_wdown (fs : List Frame) (h : WDown fs) : WDown (mark fs) := (flushBelow_wdown fs h).1

theorem flushBelow_addr : ∀ (fs : List Frame), (flushBelow fs).1.map Frame.addr = fs.map Frame.addr
  | [] => rfl
  | F :: r => by
    simp only [flushBelow]
    split
    · rfl
    · split <;> simp [flushBelow_addr r]

theorem mark_addr (fs : List Frame) : (mark fs).map Frame.addr = fs.map Frame.addr := flushBelow_addr fs

theorem wdown_of_allWritten : ∀ (fs : List Frame), AllWritten fs → WDown fs
  | [], _ => trivial
  | F :: r, h => ⟨fun _ G hG => h G (by simp [hG]), wdown_of_allWritten r (fun G hG => h G (by simp [hG]))⟩

theorem flushBelow_endT : ∀ (fs : List Frame), (flushBelow fs).1.map (·.endT) = fs.map (·.endT)
  | [] => rfl
  | F :: r => by
    simp only [flushBelow]
    split
    · rfl
    · split <;> simp [flushBelow_endT r]

theorem recordTrace_endT (fs : List Frame) : (recordTrace fs).1.map (·.endT) = fs.map (·.endT) := by
  cases fs with
  | nil => rfl
  | cons top rest =>
    simp only [recordTrace]
    split <;> split <;> split <;> simp [flushBelow_endT]

theorem open_of_map {fs gs : List Frame} (h : gs.map (·.endT) = fs.map (·.endT)) (ho : Open fs) : Open gs := by
  intro G hG
  have : G.endT ∈ fs.map (·.endT) := by rw [← h]; exact List.mem_map_of_mem hG
  obtain ⟨F, hF, hFe⟩ := List.mem_map.mp this
  rw [← hFe]; exact ho F hF

/-- record_trace_data for a stack of open calls is the downward walk -/
theorem recordTrace_pend (fs : List Frame) (ho : Open fs) : recordTrace fs = (mark fs, pend fs) := by
  cases fs with
  | nil => rfl
  | cons top rest =>
    have he : top.endT = 0 := ho top (by simp)
    simp only [recordTrace, mark, pend, flushBelow, he]
    by_cases hw : top.written = true
    · simp [hw]
    · by_cases hs : top.skip = true
      · simp [hw, hs]
      · simp [hw, hs]

theorem wdown_tail : ∀ (fs : List Frame), WDown fs → WDown fs.tail
  | [], h => h
  | _ :: _, h => h.2

theorem recordTrace_wdown (fs : List Frame) (h : WDown fs) : WDown (recordTrace fs).1 := by
  cases fs with
  | nil => exact h
  | cons top rest =>
    obtain ⟨f1, f2, _⟩ := flushBelow_wdown rest h.2
    simp only [recordTrace]
    by_cases hw : top.written = true
    · simp only [hw, ↓reduceIte, Bool.not_true, Bool.false_and, Bool.false_eq_true]
      split
      · exact ⟨fun _ => h.1 hw, h.2⟩
      · exact ⟨fun _ => h.1 hw, h.2⟩
    · simp only [hw, Bool.false_eq_true, ↓reduceIte]
      split <;> split <;> exact ⟨fun _ => f2, f1⟩

/-! the hooks keep the invariant and the open calls -/

/-- the invariant of the shadow stack between hooks -/
def FInv (fs : List Frame) : Prop := WDown fs ∧ Open fs

def Inv (s : St) : Prop := FInv s.frames

theorem finv_recordTrace (fs : List Frame) (h : FInv fs) : FInv (recordTrace fs).1 :=
  ⟨recordTrace_wdown _ h.1, open_of_map (recordTrace_endT _) h.2⟩

theorem finv_head (F G : Frame) (rest : List Frame) (h : FInv (F :: rest)) (hw : G.written = F.written)
    (he : G.endT = F.endT) : FInv (G :: rest) := by
  refine ⟨⟨fun hx => h.1.1 (hw ▸ hx), h.1.2⟩, ?_⟩
  intro X hX
  simp only [List.mem_cons] at hX
  rcases hX with rfl | hX
  · rw [he]; exact h.2 F (by simp)
  · exact h.2 X (by simp [hX])

theorem finv_push (F : Frame) (fs : List Frame) (h : FInv fs) (hw : F.written = false) (he : F.endT = 0) :
    FInv (F :: fs) :=
  ⟨⟨fun hx => by simp [hw] at hx, h.1⟩, fun G hG => by
    simp only [List.mem_cons] at hG
    rcases hG with rfl | hG
    · exact he
    · exact h.2 G hG⟩

theorem finv_tail : ∀ (fs : List Frame), FInv fs → FInv fs.tail
  | [], h => h
  | F :: r, h => ⟨h.1.2, fun G hG => h.2 G (by simp only [List.tail_cons] at hG; simp [hG])⟩

theorem inv_traceOffFlush (cfg : Cfg) (s : St) (tr : Trigger) (h : Inv s) : Inv (traceOffFlush cfg s tr) := by
  unfold traceOffFlush
  split
  · exact finv_recordTrace _ h
  · exact h

theorem inv_checkRstack (cfg : Cfg) (s : St) (h : Inv s) : Inv (checkRstack cfg s).2 := by
  unfold checkRstack
  split
  · split
    · exact finv_recordTrace _ h
    · exact h
  · exact h

theorem inv_entryFilterCheck (cfg : Cfg) (s : St) (f : Nat) (h : Inv s) : Inv (entryFilterCheck cfg s f).2.1 := by
  have hc := inv_checkRstack cfg s h
  unfold entryFilterCheck
  generalize checkRstack cfg s = cr at hc
  obtain ⟨b, s'⟩ := cr
  simp only at hc ⊢
  split
  · exact hc
  · split
    · split <;> exact hc
    · split
      · exact hc
      · split
        · exact hc
        · have := inv_traceOffFlush cfg s' (cfg.trig f) hc
          split <;> exact this

theorem entryFilterRecord_frames (cfg : Cfg) (s : St) (tr : Trigger) (F : Frame) (rest : List Frame)
    (hfr : s.frames = F :: rest) :
    ∃ G : Frame, G.written = F.written ∧ G.endT = F.endT ∧
      ((entryFilterRecord cfg s tr).frames = G :: rest ∨
       (entryFilterRecord cfg s tr).frames = (recordTrace (G :: rest)).1) := by
  unfold entryFilterRecord
  simp only [hfr]
  repeat' split
  all_goals first
    | exact ⟨F, rfl, rfl, Or.inl rfl⟩
    | (refine ⟨_, ?_, ?_, Or.inl rfl⟩ <;> rfl)
    | (refine ⟨_, ?_, ?_, Or.inr rfl⟩ <;> rfl)

theorem inv_entryFilterRecord (cfg : Cfg) (s : St) (tr : Trigger) (h : Inv s) : Inv (entryFilterRecord cfg s tr) := by
  cases hfr : s.frames with
  | nil =>
    have : entryFilterRecord cfg s tr = s := by unfold entryFilterRecord; simp [hfr]
    rw [this]; exact h
  | cons F rest =>
    have hF : FInv (F :: rest) := by simpa [Inv, hfr] using h
    obtain ⟨G, hw, he, hG⟩ := entryFilterRecord_frames cfg s tr F rest hfr
    have hGi := finv_head F G rest hF hw he
    unfold Inv
    rcases hG with hG | hG
    · rw [hG]; exact hGi
    · rw [hG]; exact finv_recordTrace _ hGi

theorem inv_entry (cfg : Cfg) (k : Kind) (s : St) (f t0 : Nat) (h : Inv s) : Inv (entry cfg k s f t0).1 := by
  have hc := inv_entryFilterCheck cfg s f h
  unfold entry
  generalize entryFilterCheck cfg s f = c at hc
  obtain ⟨fr, s1, tr⟩ := c
  simp only at hc ⊢
  cases k with
  | pg =>
    simp only
    split
    · exact hc
    · exact inv_entryFilterRecord cfg _ tr (finv_push _ _ hc rfl rfl)
  | cyg =>
    simp only
    split
    · exact hc
    · exact inv_entryFilterRecord cfg _ tr (finv_push _ _ hc rfl rfl)

theorem exitFilterRecord_frames (cfg : Cfg) (s : St) :
    (exitFilterRecord cfg s).frames = s.frames ∨ (exitFilterRecord cfg s).frames = (recordTrace s.frames).1 := by
  unfold exitFilterRecord
  cases hfr : s.frames with
  | nil => left; simp [hfr]
  | cons F rest =>
    simp only
    repeat' split
    all_goals first
      | exact Or.inl hfr
      | exact Or.inl rfl
      | exact Or.inr rfl

/-- the frame being popped may carry its exit time: only the frames below it stay -/
theorem inv_exit (cfg : Cfg) (s : St) (t : Nat) (h : Inv s) : Inv (exit cfg s t) := by
  unfold exit
  split
  · exact h
  · cases hfr : s.frames with
    | nil => simpa [Inv, hfr] using h
    | cons F rest =>
      have hF : FInv (F :: rest) := by simpa [Inv, hfr] using h
      have hrest : FInv rest := finv_tail _ hF
      have key : ∀ (G : Frame), G.written = F.written →
          FInv (exitFilterRecord cfg { s with frames := G :: rest }).frames.tail := by
        intro G hw
        have hwd : WDown (G :: rest) := ⟨fun hx => hF.1.1 (hw ▸ hx), hF.1.2⟩
        have hR : FInv (recordTrace (G :: rest)).1.tail := by
          refine ⟨wdown_tail _ (recordTrace_wdown _ hwd), ?_⟩
          have hm := recordTrace_endT (G :: rest)
          cases hr : (recordTrace (G :: rest)).1 with
          | nil => intro X hX; simp at hX
          | cons a b =>
            rw [hr] at hm
            simp only [List.map_cons, List.cons.injEq] at hm
            exact open_of_map hm.2 hrest.2
        rcases exitFilterRecord_frames cfg { s with frames := G :: rest } with he | he
        · rw [he]; exact hrest
        · rw [he]; exact hR
      simp only
      split
      · exact key F rfl
      · exact key _ rfl

mutual
theorem inv_runCall (cfg : Cfg) (k : Kind) : ∀ (x : Call) (s : St), Inv s → Inv (runCall cfg k s x)
  | .node f t0 t1 kids, s, h => by
    simp only [runCall]
    have h1 := inv_runCalls cfg k kids _ (inv_entry cfg k s f t0 h)
    split
    · exact inv_exit cfg _ t1 h1
    · exact h1
theorem inv_runCalls (cfg : Cfg) (k : Kind) : ∀ (xs : Calls) (s : St), Inv s → Inv (runCalls cfg k s xs)
  | .nil, s, h => h
  | .cons x rest, s, h => by
    simp only [runCalls]
    exact inv_runCalls cfg k rest _ (inv_runCall cfg k x s h)
end

theorem inv_init (cfg : Cfg) : Inv (St.init cfg) := ⟨trivial, fun _ h => by simp [St.init] at h⟩

/-! what the entry hook of a function with a trace_off trigger does while tracing is on -/

theorem recordTrace_disabled_top (G : Frame) (rest : List Frame) (hw : G.written = false) (hd : G.disabled = true)
    (he : G.endT = 0) (hm : flushBelow rest = (rest, [])) : recordTrace (G :: rest) = (G :: rest, []) := by
  simp [recordTrace, hw, hm, Frame.skip, hd, he]

/-- mcount_entry_filter_record on a fresh frame while tracing is off and nothing is owed below it -/
theorem entryFilterRecord_off (cfg : Cfg) (hfast : cfg.fast = false) (s : St) (F : Frame) (rest : List Frame)
    (tr : Trigger) (hfin : tr.finish = false) (hfr : s.frames = F :: rest) (hen : s.enabled = false)
    (hw : F.written = false) (hend : F.endT = 0) (hm : flushBelow rest = (rest, [])) :
    (entryFilterRecord cfg s tr).out = s.out ∧ (entryFilterRecord cfg s tr).enabled = false ∧
    ∃ F', F'.written = false ∧ F'.addr = F.addr ∧ (entryFilterRecord cfg s tr).frames = F' :: rest := by
  unfold entryFilterRecord
  simp only [hfr, hfast, hfin, Bool.false_eq_true, ↓reduceIte, hen, Bool.not_false, Bool.true_and, Bool.or_true]
  split
  · refine ⟨rfl, rfl, _, ?_, ?_, rfl⟩
    · exact hw
    · rfl
  · split
    · rw [recordTrace_disabled_top _ rest ?_ ?_ ?_ hm]
      · refine ⟨by simp, rfl, _, ?_, ?_, rfl⟩
        · exact hw
        · rfl
      · exact hw
      · rfl
      · exact hend
    · refine ⟨by simp, rfl, _, ?_, ?_, rfl⟩
      · exact hw
      · rfl

/-- mcount_entry_filter_check of the repaired code for a function whose trace_off trigger is reached (not inside
    a -N region, not rejected before the TRACE_OFF update) while tracing is on: whatever the verdict, the pending
    ENTRY records of the open callers are written and tracing is off -/
theorem check_traceoff (cfg : Cfg) (hfix : cfg.f7fixed = true) (hfast : cfg.fast = false) (s : St) (f : Nat)
    (hidx : s.idx < cfg.maxStack) (hout : s.filt.outCount = 0)
    (hearly : earlyOut cfg (cfg.trig f) (saveFilt s.filt) = false)
    (hoff : (cfg.trig f).traceOff = true) (hen : s.enabled = true) (hop : Open s.frames) :
    ∃ (v : FR) (flt : Filt), v ≠ .rstack ∧
      (v = .out ↔ (trigFilt (cfg.trig f) (matchFilt (cfg.trig f) (saveFilt s.filt))).depth ≥
                    depthLimit cfg (cfg.trig f) (saveFilt s.filt)) ∧
      entryFilterCheck cfg s f =
        (v, { s with warned := false, filt := flt, enabled := false, frames := mark s.frames,
                     out := s.out ++ pend s.frames }, cfg.trig f) := by
  have hidx' : ¬ (s.idx ≥ cfg.maxStack) := by omega
  have hrt := recordTrace_pend s.frames hop
  have hso : ¬ ((saveFilt s.filt).outCount > 0) := by simp [saveFilt, hout]
  have hfl : traceOffFlush cfg { s with warned := false } (cfg.trig f) =
      { s with warned := false, frames := mark s.frames, out := s.out ++ pend s.frames } := by
    simp [traceOffFlush, hfix, hoff, hen, hrt]
  have hte : trigEnabled (cfg.trig f) s.enabled = false := by simp [trigEnabled, hoff]
  unfold entryFilterCheck checkRstack
  simp only [hidx', ↓reduceIte, hfast, Bool.false_eq_true, hso, hearly, hfl, hte]
  by_cases hd : (trigFilt (cfg.trig f) (matchFilt (cfg.trig f) (saveFilt s.filt))).depth ≥
      depthLimit cfg (cfg.trig f) (saveFilt s.filt)
  · simp only [hd, ↓reduceIte]
    exact ⟨.out, _, by decide, by simp [hd], rfl⟩
  · simp only [hd, ↓reduceIte]
    exact ⟨.in_, _, by decide, by simp [hd], rfl⟩

/-- the entry hook of the repaired code for a function whose trace_off trigger is reached while tracing is on —
    accepted or rejected by the filters, -pg / -mfentry or -finstrument-functions: the pending ENTRY records of
    the open callers are written (`pend`), nothing else; the callers' frames are marked (`mark`); tracing is off -/
theorem entry_traceoff (cfg : Cfg) (hfix : cfg.f7fixed = true) (hfast : cfg.fast = false) (k : Kind) (s : St)
    (f t0 : Nat) (hidx : s.idx < cfg.maxStack) (hout : s.filt.outCount = 0)
    (hearly : earlyOut cfg (cfg.trig f) (saveFilt s.filt) = false)
    (hoff : (cfg.trig f).traceOff = true) (hfin : (cfg.trig f).finish = false)
    (hen : s.enabled = true) (hop : Open s.frames) :
    (entry cfg k s f t0).1.out = s.out ++ pend s.frames ∧
    (entry cfg k s f t0).1.enabled = false ∧
    ((entry cfg k s f t0).1.frames = mark s.frames ∨
     ∃ F : Frame, F.written = false ∧ F.addr = f ∧ (entry cfg k s f t0).1.frames = F :: mark s.frames) := by
  obtain ⟨v, flt, hv, _, hc⟩ := check_traceoff cfg hfix hfast s f hidx hout hearly hoff hen hop
  have hm : flushBelow (mark s.frames) = (mark s.frames, []) := flushBelow_idem s.frames
  unfold entry
  rw [hc]
  have hvr : (v == FR.rstack) = false := by cases v <;> simp_all
  cases k with
  | pg =>
    simp only [hvr, Bool.false_or]
    split
    · exact ⟨rfl, rfl, Or.inl rfl⟩
    · obtain ⟨o, e, F', hw, ha, hf⟩ := entryFilterRecord_off cfg hfast
        { s with warned := false, filt := flt, enabled := false,
                 frames := { addr := f, start := t0, depth := s.recordIdx, norecord := v != FR.in_ } :: mark s.frames,
                 out := s.out ++ pend s.frames }
        _ (mark s.frames) (cfg.trig f) hfin rfl rfl rfl rfl hm
      exact ⟨o, e, Or.inr ⟨F', hw, ha, hf⟩⟩
  | cyg =>
    simp only [hvr, Bool.false_eq_true, ↓reduceIte]
    obtain ⟨o, e, F', hw, ha, hf⟩ := entryFilterRecord_off cfg hfast
      { s with warned := false, filt := flt, enabled := false,
               frames := { addr := f, start := if (v == FR.in_) = true then t0 else 0, depth := s.recordIdx, cyg := true,
                           norecord := !(v == FR.in_) } :: mark s.frames,
               out := s.out ++ pend s.frames }
      _ (mark s.frames) (cfg.trig f) hfin rfl rfl rfl rfl hm
    exact ⟨o, e, Or.inr ⟨F', hw, ha, hf⟩⟩

end Flush

end Uft.Fstack
