import Uft.Model.Fstack
import Uft.Lemmas.McountCore
import Uft.Props.C05
/- C07 helper lemmas, part 5: what the record-time hooks (Uft.Mcount, C02/C05) write for a
   call forest under -F / -N / -D / -t, as the same `specCalls ∘ pruneCalls`. -/
set_option linter.unusedSimpArgs false
set_option linter.unusedVariables false
namespace Uft.Fstack
open Uft.Mcount

/-- record-time option sets made of -F, -N, -D, -t only (regular build, repaired -pg path) -/
structure FND (cfg : Cfg) : Prop where
  fast : cfg.fast = false
  fixd : cfg.f4fixed = true
  locIn : cfg.locIn = false
  caller : cfg.callerMode = false
  minSize : cfg.minSize = 0
  en : cfg.enabled0 = true
  trig : ∀ f, cfg.trig f = { filter := (cfg.trig f).filter }

/-- how the thread's filter state corresponds to the lexical environment of the specification -/
structure RRel (cfg : Cfg) (s : St) (E : Env) (d : Nat) : Prop where
  inC : s.filt.inCount = E.inC
  outC : s.filt.outCount = E.outC
  bud : E.outC = 0 → s.filt.depth + E.budget = cfg.depthOpt
  maxD : s.filt.maxDepth = noMaxDepth
  time : s.filt.time = noTime
  size : s.filt.size = 0
  ridx : s.recordIdx = d
  en : s.enabled = true
  over : s.over = 0

/-- ENTRY records `record_trace_data` would add for the open frames, and the frames afterwards -/
def pend (fs : List Frame) : List Rec := (flushBelow fs).2
def mark (fs : List Frame) : List Frame := (flushBelow fs).1

theorem flushBelow_idem (fs : List Frame) : flushBelow (flushBelow fs).1 = ((flushBelow fs).1, []) := by
  induction fs with
  | nil => rfl
  | cons f r ih =>
    simp only [flushBelow]
    by_cases hw : f.written = true
    · simp [hw, flushBelow]
    · simp only [hw, Bool.false_eq_true, ↓reduceIte]
      by_cases hs : f.skip = true
      · simp [hs, flushBelow, hw, ih]
      · simp [hs, flushBelow]

theorem pend_mark (fs : List Frame) : pend (mark fs) = [] := by
  simp [pend, mark, flushBelow_idem]

theorem mark_mark (fs : List Frame) : mark (mark fs) = mark fs := by
  simp [mark, flushBelow_idem]

theorem pend_cons_skip (F : Frame) (fs : List Frame) (hw : F.written = false) (hs : F.norecord = true) :
    pend (F :: fs) = pend fs ∧ mark (F :: fs) = F :: mark fs := by
  simp [pend, mark, flushBelow, hw, Frame.skip, hs]

theorem pend_cons_vis (F : Frame) (fs : List Frame) (hw : F.written = false) (hs : F.norecord = false)
    (hd : F.disabled = false) :
    pend (F :: fs) = pend fs ++ [entryRec F] ∧ mark (F :: fs) = { F with written := true } :: mark fs := by
  simp [pend, mark, flushBelow, hw, Frame.skip, hs, hd]

/-- the exit hook never changes the trace on/off switch -/
theorem exit_enabled (cfg : Cfg) (s : St) (t : Nat) : (exit cfg s t).enabled = s.enabled := by
  unfold exit
  split
  · rfl
  · split
    · rfl
    · simp only [exitFilterRecord]
      repeat' split
      all_goals rfl

/-- `visit` for a table made of -F and -N entries only -/
theorem visit_fnd (cfg : Cfg) (h : FND cfg) (E : Env) (f : Nat) (m : Option Bool) (hm : (cfg.trig f).filter = m) :
    visit (RCfg.ofRecord cfg) E f =
      (if E.outC > 0 then (false, E) else
       if m = some false then (false, { E with outC := E.outC + 1 }) else
       if (!(m == some true) && cfg.optIn && decide (E.inC = 0)) then (false, E) else
       if (if (m == some true) then cfg.depthOpt else E.budget) = 0 then
         (false, { inC := if (m == some true) then E.inC + 1 else E.inC, outC := E.outC,
                   budget := if (m == some true) then cfg.depthOpt else E.budget })
       else (true, { inC := if (m == some true) then E.inC + 1 else E.inC, outC := E.outC,
                     budget := (if (m == some true) then cfg.depthOpt else E.budget) - 1 })) := by
  have htr : cfg.trig f = { filter := m } := by have := h.trig f; rw [hm] at this; exact this
  unfold visit RCfg.ofRecord
  dsimp only
  rw [htr]
  dsimp only [locReject]
  simp only [h.locIn, Bool.false_eq_true, ↓reduceIte, Option.getD_none, Bool.or_false]
  by_cases h1 : E.outC > 0
  · simp [h1]
  · simp only [h1, ↓reduceIte]
    by_cases h2 : m = some false
    · simp [h2]
    · simp only [h2, ↓reduceIte]
      by_cases h3 : m = some true
      · subst h3
        simp
      · have hb : (m == some true) = false := by simpa using h3
        simp [hb]

/-- what entry hooks do for a -F / -N / -D / -t configuration, against `visit` -/
theorem entry_fnd (cfg : Cfg) (h : FND cfg) (k : Kind) (s : St) (E : Env) (d f t0 : Nat)
    (hr : RRel cfg s E d) (hlen : s.frames.length < cfg.maxStack) :
    (entry cfg k s f t0).1.out = s.out ∧
    RRel cfg (entry cfg k s f t0).1 (visit (RCfg.ofRecord cfg) E f).2
      (if (visit (RCfg.ofRecord cfg) E f).1 then d + 1 else d) ∧
    (((entry cfg k s f t0).2 = true ∧ ∃ F : Frame, (entry cfg k s f t0).1.frames = F :: s.frames ∧
        F.norecord = !(visit (RCfg.ofRecord cfg) E f).1 ∧ F.written = false ∧ F.disabled = false ∧
        F.trace = false ∧ F.caller = false ∧ F.endT = 0 ∧ F.addr = f ∧ F.depth = d ∧
        ((visit (RCfg.ofRecord cfg) E f).1 = true → F.start = t0)) ∨
     ((entry cfg k s f t0).2 = false ∧ (entry cfg k s f t0).1.frames = s.frames ∧
        (visit (RCfg.ofRecord cfg) E f).1 = false)) := by
  generalize hm : (cfg.trig f).filter = m
  have htr : cfg.trig f = { filter := m } := by have := h.trig f; rw [hm] at this; exact this
  have hidx : ¬ (s.idx ≥ cfg.maxStack) := by simp [St.idx, hr.over]; omega
  obtain ⟨r1, r2, r3, r4, r5, r6, r7, r8, r9⟩ := hr
  rw [visit_fnd cfg h E f m hm]
  have hck : checkRstack cfg s = (false, { s with warned := false }) := by simp [checkRstack, hidx]
  have e1 : (FR.out == FR.rstack) = false := rfl
  have e2 : (FR.out == FR.in_) = false := rfl
  have e3 : (FR.in_ == FR.rstack) = false := rfl
  have e4 : (FR.in_ == FR.in_) = true := rfl
  have e5 : (FR.out != FR.in_) = true := rfl
  have e6 : (FR.in_ != FR.in_) = false := rfl
  by_cases h1 : E.outC > 0
  · -- inside an opt-out region
    have h1' : s.filt.outCount > 0 := by omega
    have hc : entryFilterCheck cfg s f = (.out, { s with warned := false, filt := saveFilt s.filt }, {}) := by
      simp [entryFilterCheck, hck, h.fast, h1']
    simp only [h1, ↓reduceIte, Bool.false_eq_true]
    cases k with
    | pg =>
      have he : entry cfg .pg s f t0 = ({ s with warned := false, filt := saveFilt s.filt }, false) := by
        simp [entry, hc, Trigger.changesState, e1, e5]
      rw [he]
      exact ⟨rfl, ⟨by simpa using r1, by simpa using r2, by intro h0; omega, by simpa using r4, by simpa using r5,
        by simpa using r6, r7, r8, r9⟩, Or.inr ⟨rfl, rfl, by simp⟩⟩
    | cyg =>
      have he : entry cfg .cyg s f t0 =
          ({ s with warned := false, filt := saveFilt s.filt,
                    frames := { addr := f, start := 0, depth := s.recordIdx, cyg := true, norecord := true,
                                sDepth := s.filt.depth, sMaxDepth := s.filt.maxDepth, sTime := s.filt.time,
                                sSize := s.filt.size } :: s.frames }, true) := by
        simp [entry, hc, e1, e2, entryFilterRecord, h.fast, saveFilt]
      rw [he]
      exact ⟨rfl, ⟨by simpa using r1, by simpa using r2, by intro h0; omega, by simpa using r4, by simpa using r5,
        by simpa using r6, r7, r8, r9⟩, Or.inl ⟨rfl, _, rfl, rfl, rfl, rfl, rfl, rfl, rfl, rfl, r7, by simp⟩⟩
  · sorry

end Uft.Fstack
