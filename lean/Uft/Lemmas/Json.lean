import Uft.Model.Json
/- Helper lemmas for C15 (escaping, name buffer, the JSON automaton). -/
namespace Uft.Json

/-! ## string bodies -/

theorem bodyRun_append (m : SMode) (a b : List Nat) :
    bodyRun m (a ++ b) = (bodyRun m a).bind (fun m' => bodyRun m' b) := by
  induction a generalizing m with
  | nil => simp [bodyRun]
  | cons c cs ih =>
    simp only [List.cons_append, bodyRun]
    cases h : strStep m c with
    | none => simp
    | some r => cases r with
      | close => simp
      | cont m' => simp [ih]

theorem bodyRun_trans {m m1 m2 : SMode} {a b : List Nat}
    (h1 : bodyRun m a = some m1) (h2 : bodyRun m1 b = some m2) : bodyRun m (a ++ b) = some m2 := by
  rw [bodyRun_append, h1]; simpa using h2

/-- a byte that is copied as it is -/
def plain (c : Nat) : Prop := 32 ≤ c ∧ c ≤ 126 ∧ c ≠ 34 ∧ c ≠ 92

theorem strStep_plain {c : Nat} (h : plain c) : strStep .normal c = some (.cont .normal) := by
  obtain ⟨h1, h2, h3, h4⟩ := h
  simp only [strStep, h3, h4, ↓reduceIte]
  have : ¬(c < 32 ∨ 127 < c) := by omega
  simp [this]

theorem bodyRun_plain {l : List Nat} (h : ∀ c ∈ l, plain c) : bodyRun .normal l = some .normal := by
  induction l with
  | nil => rfl
  | cons c cs ih =>
    simp only [bodyRun, strStep_plain (h c (by simp))]
    exact ih (fun x hx => h x (by simp [hx]))

theorem hexDigit_plain {n : Nat} (h : n < 16) : plain (hexDigit n) := by
  unfold plain hexDigit; split <;> omega

theorem escapeChar_body (c : Nat) : bodyRun .normal (escapeChar c) = some .normal := by
  unfold escapeChar
  split
  · decide
  · split
    · decide
    · split
      · decide
      · split
        · decide
        · split
          · rename_i h1 h2 h3 h4 h5
            have hp : plain c := by
              simp only [isPrint, Bool.and_eq_true, decide_eq_true_eq] at h5
              exact ⟨h5.1, h5.2, h4, h3⟩
            exact bodyRun_plain (by simpa using hp)
          · have h1 : plain (hexDigit (c / 16 % 16)) := hexDigit_plain (by omega)
            have h2 : plain (hexDigit (c % 16)) := hexDigit_plain (by omega)
            simp only [bodyRun]
            have e1 : strStep .normal 92 = some (.cont .esc) := by decide
            have e2 : strStep .esc 92 = some (.cont .normal) := by decide
            have e3 : strStep .normal 120 = some (.cont .normal) := by decide
            simp only [e1, e2, e3, strStep_plain h1, strStep_plain h2]

theorem escapeStr_body (bs : List Nat) : bodyRun .normal (escapeStr bs) = some .normal := by
  induction bs with
  | nil => rfl
  | cons c cs ih =>
    simp only [escapeStr, List.flatMap_cons] at *
    exact bodyRun_trans (escapeChar_body c) ih

theorem escapeStr_append (a b : List Nat) : escapeStr (a ++ b) = escapeStr a ++ escapeStr b := by
  simp [escapeStr]

theorem escCmdline_body : ∀ bs : List Nat, bodyRun .normal (escCmdline bs) = some .normal
  | [] => rfl
  | [c] => escapeChar_body c
  | c :: d :: r => by
    unfold escCmdline
    split
    · have e1 : strStep .normal 92 = some (.cont .esc) := by decide
      have e2 : strStep .esc 34 = some (.cont .normal) := by decide
      simp only [bodyRun, e1, e2]
      exact escCmdline_body r
    · exact bodyRun_trans (escapeChar_body c) (escCmdline_body (d :: r))

theorem escapeChar_length (c : Nat) : 1 ≤ (escapeChar c).length ∧ (escapeChar c).length ≤ 5 := by
  unfold escapeChar; repeat' split
  all_goals simp

theorem escapeChar_viaChar {c : Nat} (h : viaChar c = true) : escapeChar c = [c] := by
  simp only [viaChar, Bool.and_eq_true, bne_iff_ne, ne_eq] at h
  obtain ⟨⟨h1, h2⟩, h3⟩ := h
  have h4 : c ≠ 10 := by
    intro e; subst e; simp [isPrint] at h1
  have h5 : c ≠ 9 := by
    intro e; subst e; simp [isPrint] at h1
  simp [escapeChar, h1, h2, h3, h4, h5]

/-! ## decimal numbers -/

theorem digit_plain (n : Nat) : plain (digit n) := by
  simp only [plain, digit]; omega

theorem digit_isDigit (n : Nat) : isDigit (digit n) = true := by
  have h : 48 + n % 10 ≤ 57 := by omega
  simp [isDigit, digit, h]

theorem decF_plain : ∀ f n, ∀ c ∈ decF f n, plain c
  | 0, _ => by simp [decF]
  | f + 1, n => by
    intro c hc
    unfold decF at hc
    split at hc
    · simp at hc; subst hc; exact digit_plain n
    · simp only [List.mem_append, List.mem_cons, List.not_mem_nil, or_false] at hc
      rcases hc with hc | hc
      · exact decF_plain f (n / 10) c hc
      · subst hc; exact digit_plain n

theorem dec_body (n : Nat) : bodyRun .normal (dec n) = some .normal :=
  bodyRun_plain (decF_plain _ _)

/-! ## the automaton -/

theorem run_append (s : St) (a b : List Nat) :
    run s (a ++ b) = (run s a).bind (fun s' => run s' b) := by
  induction a generalizing s with
  | nil => simp [run]
  | cons c cs ih =>
    simp only [List.cons_append, run]
    cases step s c with
    | none => simp
    | some s' => simp [ih]

theorem run_trans {s t u : St} {a b : List Nat} (h1 : run s a = some t) (h2 : run t b = some u) :
    run s (a ++ b) = some u := by
  rw [run_append, h1]; simpa using h2

/-- inside a string the automaton follows `bodyRun` and leaves the stack alone -/
theorem run_body {k : Bool} {m m' : SMode} {stk : List Ctx} {bs : List Nat}
    (h : bodyRun m bs = some m') : run ⟨.str k m, stk⟩ bs = some ⟨.str k m', stk⟩ := by
  induction bs generalizing m with
  | nil => simp [bodyRun] at h; subst h; rfl
  | cons c cs ih =>
    simp only [bodyRun] at h
    cases hs : strStep m c with
    | none => simp [hs] at h
    | some r =>
      cases r with
      | close => simp [hs] at h
      | cont m1 =>
        simp only [hs] at h
        simp only [run, step, hs]
        exact ih h

theorem decF_run_val : ∀ f n, n < f → ∀ stk,
    run ⟨.val, stk⟩ (decF f n) = some ⟨if n = 0 then .zero else .int, stk⟩
  | 0, n, h, _ => by omega
  | f + 1, n, h, stk => by
    unfold decF
    split
    · rename_i h10
      by_cases h0 : n = 0
      · subst h0; rfl
      · have hd : digit n ≠ 48 := by unfold digit; omega
        have hw : isWs (digit n) = false := by
          simp only [isWs, digit, Bool.or_eq_false_iff, beq_eq_false_iff_ne, ne_eq]; omega
        have h1 : digit n ≠ 34 ∧ digit n ≠ 123 ∧ digit n ≠ 91 ∧ digit n ≠ 45 := by unfold digit; omega
        simp [run, step, startValue, hw, hd, h1, digit_isDigit, h0]
    · rename_i h10
      have hlt : n / 10 < f := by omega
      have hne : n / 10 ≠ 0 := by omega
      have hn0 : n ≠ 0 := by omega
      refine run_trans (decF_run_val f (n / 10) hlt stk) ?_
      simp [hne, hn0, run, step, digit_isDigit]

theorem dec_run_val (n : Nat) (stk : List Ctx) :
    run ⟨.val, stk⟩ (dec n) = some ⟨if n = 0 then .zero else .int, stk⟩ :=
  decF_run_val (n + 1) n (by omega) stk

theorem tsText_run_val (t : Nat) (stk : List Ctx) : run ⟨.val, stk⟩ (tsText t) = some ⟨.frac, stk⟩ := by
  unfold tsText pad3
  refine run_trans (t := ⟨.dot, stk⟩) (run_trans (dec_run_val _ stk) ?_) ?_
  · split <;> rfl
  · simp [run, step, digit_isDigit]

end Uft.Json

namespace Uft.Json

/-! ## the name buffer -/

structure NBInv (b : NB) : Prop where
  term : b.term = false
  oob : b.oob = false
  pos : b.pos = b.out.length
  len : b.len + b.pos = 2047

theorem nbInit_inv : NBInv nbInit := ⟨rfl, rfl, rfl, rfl⟩

theorem wrapSub_small {a b : Nat} (h : b ≤ a) (ha : a < 4096) : wrapSub a b = a - b := by
  unfold wrapSub W; omega

/-- a store that fits keeps the buffer a plain C string -/
theorem putEsc_inv {b : NB} (c : Nat) (hi : NBInv b) (hl : (escapeChar c).length < b.len) :
    NBInv (putEsc b c) ∧ (putEsc b c).out = b.out ++ escapeChar c := by
  obtain ⟨ht, ho, hp, hlen⟩ := hi
  have hx := escapeChar_length c
  unfold putEsc
  split
  · rename_i hv
    have he := escapeChar_viaChar hv
    rw [he] at hl ⊢
    simp only [List.length_cons, List.length_nil] at hl
    refine ⟨⟨?_, ?_, ?_, ?_⟩, ?_⟩
    · simp [printChar, ht]
    · simp only [printChar, ho, cap, Bool.false_or]; exact decide_eq_false (by omega)
    · simp [printChar, ht, hp]
    · simp only [printChar]; rw [wrapSub_small (a := b.len) (b := 1) (by omega) (by omega)]; omega
    · simp [printChar, ht]
  · have hne : b.len ≠ 0 := by omega
    have hk : min (escapeChar c).length (b.len - 1) = (escapeChar c).length := by omega
    refine ⟨⟨?_, ?_, ?_, ?_⟩, ?_⟩
    · simp [printArgs, hne, ht, hk]
    · simp only [printArgs, hne, ↓reduceIte, hk, ho, cap, Bool.false_or]; exact decide_eq_false (by omega)
    · simp [printArgs, hne, ht, hk, hp]
    · simp only [printArgs, hne, ↓reduceIte]
      rw [wrapSub_small (a := b.len) (b := (escapeChar c).length) (by omega) (by omega)]; omega
    · simp [printArgs, hne, ht, hk]

theorem escapeStr_cons (c : Nat) (cs : List Nat) : escapeStr (c :: cs) = escapeChar c ++ escapeStr cs := by
  simp [escapeStr]

/-- as long as everything fits (with the guard: fits with 6 bytes to spare) the loop
    produces the escaped name -/
theorem nameLoop_fits (f : Bool) (bound : Nat) (hb : bound ≤ 2046) (hf : f = true → bound ≤ 2041) :
    ∀ (name : List Nat) (b : NB), NBInv b → b.pos + (escapeStr name).length ≤ bound →
      NBInv (nameLoop f b name) ∧ (nameLoop f b name).out = b.out ++ escapeStr name
  | [], b, hi, _ => by simp [nameLoop, escapeStr, hi]
  | c :: cs, b, hi, hl => by
    have hx := escapeChar_length c
    rw [escapeStr_cons, List.length_append] at hl
    have hlen := hi.len
    have hg : (f && decide (b.len < 6)) = false := by
      cases f with
      | false => rfl
      | true =>
        have := hf rfl
        simp only [Bool.true_and, decide_eq_false_iff_not]; omega
    have h1 := putEsc_inv c hi (by omega)
    have hpos : (putEsc b c).pos = b.pos + (escapeChar c).length := by
      rw [h1.1.pos, h1.2, hi.pos, List.length_append]
    have h2 := nameLoop_fits f bound hb hf cs (putEsc b c) h1.1 (by omega)
    simp only [nameLoop, hg, Bool.false_eq_true, ↓reduceIte]
    refine ⟨h2.1, ?_⟩
    rw [h2.2, h1.2, escapeStr_cons, List.append_assoc]

/-- with the guard the loop never leaves the buffer and stops between two escapes -/
theorem nameLoop_fixed : ∀ (name : List Nat) (b : NB), NBInv b →
    NBInv (nameLoop true b name) ∧ ∃ k, (nameLoop true b name).out = b.out ++ escapeStr (name.take k)
  | [], b, hi => by exact ⟨by simpa [nameLoop] using hi, 0, by simp [nameLoop, escapeStr]⟩
  | c :: cs, b, hi => by
    simp only [nameLoop, Bool.true_and]
    split
    · exact ⟨hi, 0, by simp [escapeStr]⟩
    · rename_i hg
      have hx := escapeChar_length c
      have hg' : 6 ≤ b.len := by simpa using hg
      have h1 := putEsc_inv c hi (by omega)
      obtain ⟨h2, k, hk⟩ := nameLoop_fixed cs (putEsc b c) h1.1
      refine ⟨h2, k + 1, ?_⟩
      rw [hk, h1.2, List.take_succ_cons, escapeStr_cons, List.append_assoc]

/-- `p - name_buf` is the escaped length, whatever happens to the buffer -/
theorem nameLoop_false_pos : ∀ (name : List Nat) (b : NB),
    (nameLoop false b name).pos = b.pos + (escapeStr name).length
  | [], b => by simp [nameLoop, escapeStr]
  | c :: cs, b => by
    simp only [nameLoop, Bool.false_and, Bool.false_eq_true, ↓reduceIte]
    rw [nameLoop_false_pos cs, escapeStr_cons, List.length_append]
    have : (putEsc b c).pos = b.pos + (escapeChar c).length := by
      unfold putEsc
      split
      · rename_i hv; rw [escapeChar_viaChar hv]; rfl
      · unfold printArgs; split <;> rfl
    omega

/-! ## the document -/

theorem body_of_valid {bs : List Nat} (h : validBody bs = true) : bodyRun .normal bs = some .normal := by
  simpa [validBody] using h

theorem numEnd_run {c : Prop} [Decidable c] {T : List Ctx} {l : List Nat} {u : St}
    (h0 : run ⟨.zero, T⟩ l = some u) (h1 : run ⟨.int, T⟩ l = some u) :
    run ⟨if c then .zero else .int, T⟩ l = some u := by
  split <;> assumption

theorem metaLine_run {kind comm : List Nat} (tid : Nat)
    (hk : bodyRun .normal kind = some .normal) (hc : bodyRun .normal comm = some .normal) :
    run ⟨.val, [.arr, .obj]⟩ (metaLine kind tid comm) = some ⟨.after, [.arr, .obj]⟩ := by
  unfold metaLine
  have hA : run ⟨.val, [.arr, .obj]⟩ b!"{\"ts\":0,\"ph\":\"M\",\"pid\":" = some ⟨.val, [.obj, .arr, .obj]⟩ := by decide
  have hB : run ⟨if tid = 0 then .zero else .int, [.obj, .arr, .obj]⟩ b!",\"name\":\"" =
      some ⟨.str false .normal, [.obj, .arr, .obj]⟩ := numEnd_run (by decide) (by decide)
  have hC : run ⟨.str false .normal, [.obj, .arr, .obj]⟩ b!"\",\"args\":{\"name\":\"[" =
      some ⟨.str false .normal, [.obj, .obj, .arr, .obj]⟩ := by decide
  have hD : run ⟨.str false .normal, [.obj, .obj, .arr, .obj]⟩ b!"] " =
      some ⟨.str false .normal, [.obj, .obj, .arr, .obj]⟩ := by decide
  have hE : run ⟨.str false .normal, [.obj, .obj, .arr, .obj]⟩ b!"\"}}" = some ⟨.after, [.arr, .obj]⟩ := by decide
  exact run_trans (run_trans (run_trans (run_trans (run_trans (run_trans (run_trans (run_trans
    hA (dec_run_val tid _)) hB) (run_body hk)) hC) (run_body (dec_body tid))) hD) (run_body hc)) hE

theorem evText_run (f : Bool) (e : Ev) (hn : bodyRun .normal (escapeName f e.name).out = some .normal) :
    run ⟨.val, [.arr, .obj]⟩ (evText f e) = some ⟨.after, [.arr, .obj]⟩ := by
  unfold evText
  have h1 : run ⟨.val, [.arr, .obj]⟩ b!"{\"ts\":" = some ⟨.val, [.obj, .arr, .obj]⟩ := by decide
  have h2 : run ⟨.frac, [.obj, .arr, .obj]⟩ b!",\"ph\":\"" = some ⟨.str false .normal, [.obj, .arr, .obj]⟩ := by decide
  have h3 : run ⟨.str false .normal, [.obj, .arr, .obj]⟩ [if e.entry then 66 else 69] =
      some ⟨.str false .normal, [.obj, .arr, .obj]⟩ := by split <;> decide
  have h4 : run ⟨.str false .normal, [.obj, .arr, .obj]⟩ b!"\",\"pid\":" = some ⟨.val, [.obj, .arr, .obj]⟩ := by decide
  have h5 : ∃ n, run ⟨.val, [.obj, .arr, .obj]⟩
      (if e.pid = e.tid then dec e.tid else dec e.pid ++ b!",\"tid\":" ++ dec e.tid) =
      some ⟨if n = 0 then .zero else .int, [.obj, .arr, .obj]⟩ := by
    split
    · exact ⟨e.tid, dec_run_val _ _⟩
    · refine ⟨e.tid, run_trans (t := ⟨.val, [.obj, .arr, .obj]⟩) (run_trans (dec_run_val e.pid _) ?_) (dec_run_val _ _)⟩
      exact numEnd_run (by decide) (by decide)
  obtain ⟨n, h5⟩ := h5
  have h6 : run ⟨if n = 0 then .zero else .int, [.obj, .arr, .obj]⟩ b!",\"name\":\"" =
      some ⟨.str false .normal, [.obj, .arr, .obj]⟩ := numEnd_run (by decide) (by decide)
  have h7 : run ⟨.str false .normal, [.obj, .arr, .obj]⟩ b!"\"}" = some ⟨.after, [.arr, .obj]⟩ := by decide
  exact run_trans (run_trans (run_trans (run_trans (run_trans (run_trans (run_trans (run_trans
    h1 (tsText_run_val e.time _)) h2) h3) h4) h5) h6) (run_body hn)) h7

/-- the state between two elements of the "traceEvents" array -/
def openSt (lc : Bool) : St := if lc then ⟨.after, [.arr, .obj]⟩ else ⟨.valOrEnd, [.arr, .obj]⟩

/-- an element (an object) printed with the `last_comma` protocol -/
theorem elem_run {E : List Nat} (lc : Bool) (hE : run ⟨.val, [.arr, .obj]⟩ (123 :: E) = some ⟨.after, [.arr, .obj]⟩) :
    run (openSt lc) ((if lc then b!",\n" else []) ++ 123 :: E) = some (openSt true) := by
  cases lc with
  | true =>
    have : run ⟨.after, [.arr, .obj]⟩ b!",\n" = some ⟨.val, [.arr, .obj]⟩ := by decide
    exact run_trans this hE
  | false =>
    have h2 : run ⟨.valOrEnd, [.arr, .obj]⟩ (123 :: E) = run ⟨.val, [.arr, .obj]⟩ (123 :: E) := rfl
    simpa [openSt, h2] using hE

theorem evText_head (f : Bool) (e : Ev) : ∃ E, evText f e = 123 :: E := by
  unfold evText; exact ⟨_, by simp [List.append_assoc]; rfl⟩

theorem metaLine_head (kind : List Nat) (tid : Nat) (comm : List Nat) : ∃ E, metaLine kind tid comm = 123 :: E := by
  unfold metaLine; exact ⟨_, by simp [List.append_assoc]; rfl⟩

theorem nameOut_body (name : List Nat) : bodyRun .normal (escapeName true name).out = some .normal := by
  obtain ⟨_, k, hk⟩ := nameLoop_fixed name nbInit nbInit_inv
  have : (escapeName true name).out = escapeStr (name.take k) := by simpa [escapeName, nbInit] using hk
  rw [this]; exact escapeStr_body _

theorem header_run (comm : List Nat) (tasks : List Task) :
    run init (headerFix comm tasks).1 = some (openSt (headerFix comm tasks).2) := by
  have h0 : run init b!"{\"traceEvents\":[\n" = some (openSt false) := by decide
  have hl : ∀ (ts : List Task) (lc : Bool),
      run (openSt lc) (headerFixLines comm lc ts).1 = some (openSt (headerFixLines comm lc ts).2) := by
    intro ts
    induction ts with
    | nil => intro lc; simp [headerFixLines, run]
    | cons t ts ih =>
      intro lc
      simp only [headerFixLines]
      have hc := escapeStr_body comm
      have hp : bodyRun .normal b!"process_name" = some .normal := by decide
      have ht : bodyRun .normal b!"thread_name" = some .normal := by decide
      obtain ⟨E, hE⟩ := metaLine_head b!"process_name" t.tid (escapeStr comm)
      have h1 : run (openSt lc) ((if lc then b!",\n" else []) ++ metaLine b!"process_name" t.tid (escapeStr comm)) =
          some (openSt true) := by
        rw [hE]; exact elem_run lc (by rw [← hE]; exact metaLine_run t.tid hp hc)
      have h2 : run (openSt true) b!",\n" = some ⟨.val, [.arr, .obj]⟩ := by decide
      have h3 := metaLine_run (comm := escapeStr comm) t.tid ht hc
      exact run_trans (run_trans (run_trans h1 h2) h3) (ih true)
  unfold headerFix
  exact run_trans h0 (hl tasks false)

theorem evs_run (evs : List Ev) (lc : Bool) :
    run (openSt lc) (evsText true lc evs) = some (openSt (lc || !evs.isEmpty)) := by
  induction evs generalizing lc with
  | nil => simp [evsText, run]
  | cons e es ih =>
    simp only [evsText]
    obtain ⟨E, hE⟩ := evText_head true e
    have hn : bodyRun .normal (escapeName true e.name).out = some .normal := nameOut_body e.name
    have h1 : run (openSt lc) ((if lc then b!",\n" else []) ++ evText true e) = some (openSt true) := by
      rw [hE]; exact elem_run lc (by rw [← hE]; exact evText_run true e hn)
    have := run_trans h1 (ih true)
    simpa using this

theorem footer_run (lc : Bool) (version date c : List Nat)
    (hv : validBody version = true) (hd : validBody date = true) :
    run (openSt lc) (footer true version date (some c)) = some ⟨.after, []⟩ := by
  have f1 : run (openSt lc) b!"\n], \"displayTimeUnit\": \"ns\", \"metadata\": {\n" =
      some ⟨.keyOrEnd, [.obj, .obj]⟩ := by cases lc <;> decide
  have f2 : run ⟨.keyOrEnd, [.obj, .obj]⟩ b!"\"version\":\"uftrace " = some ⟨.str false .normal, [.obj, .obj]⟩ := by decide
  have f3 : run ⟨.str false .normal, [.obj, .obj]⟩ b!"\",\n" = some ⟨.key, [.obj, .obj]⟩ := by decide
  have f4 : run ⟨.key, [.obj, .obj]⟩ b!"\"recorded_time\":\"" = some ⟨.str false .normal, [.obj, .obj]⟩ := by decide
  have f6 : run ⟨.key, [.obj, .obj]⟩ b!"\"command_line\":\"" = some ⟨.str false .normal, [.obj, .obj]⟩ := by decide
  have f7 : run ⟨.str false .normal, [.obj, .obj]⟩ b!"\"\n" = some ⟨.after, [.obj, .obj]⟩ := by decide
  have f8 : run ⟨.after, [.obj, .obj]⟩ b!"} }\n" = some ⟨.after, []⟩ := by decide
  have bv := run_body (k := false) (stk := [.obj, .obj]) (body_of_valid hv)
  have bd := run_body (k := false) (stk := [.obj, .obj]) (body_of_valid hd)
  have bc := run_body (k := false) (stk := [.obj, .obj]) (escCmdline_body c)
  simp only [footer, ↓reduceIte, run_append, f1, f2, bv, f3, f4, bd, f6, bc, f7, f8, Option.bind_some]

end Uft.Json
