import Uft.Model.Json
/- Helper lemmas for C15 (escaping, name buffer, the JSON automaton). -/
namespace Uft.Json

/-! ## string bodies -/

theorem bodyRun_append (m : SMode) (a b : List Nat) :
    bodyRun m (a ++ b) = (bodyRun m a).bind (fun m' => bodyRun m' b) := by
  induction a generalizing m with
  | nil => simp [bodyRun]
  | cons c cs ih =>
    simp only [List.cons_append, bodyRun]
    cases h : strStep m c with
    | none => simp
    | some r => cases r with
      | close => simp
      | cont m' => simp [ih]

theorem bodyRun_trans {m m1 m2 : SMode} {a b : List Nat}
    (h1 : bodyRun m a = some m1) (h2 : bodyRun m1 b = some m2) : bodyRun m (a ++ b) = some m2 := by
  rw [bodyRun_append, h1]; simpa using h2

/-- a byte that is copied as it is -/
def plain (c : Nat) : Prop := 32 ≤ c ∧ c ≤ 126 ∧ c ≠ 34 ∧ c ≠ 92

theorem strStep_plain {c : Nat} (h : plain c) : strStep .normal c = some (.cont .normal) := by
  obtain ⟨h1, h2, h3, h4⟩ := h
  simp only [strStep, h3, h4, ↓reduceIte]
  have : ¬(c < 32 ∨ 127 < c) := by omega
  simp [this]

theorem bodyRun_plain {l : List Nat} (h : ∀ c ∈ l, plain c) : bodyRun .normal l = some .normal := by
  induction l with
  | nil => rfl
  | cons c cs ih =>
    simp only [bodyRun, strStep_plain (h c (by simp))]
    exact ih (fun x hx => h x (by simp [hx]))

theorem hexDigit_plain {n : Nat} (h : n < 16) : plain (hexDigit n) := by
  unfold plain hexDigit; split <;> omega

theorem escapeChar_body (c : Nat) : bodyRun .normal (escapeChar c) = some .normal := by
  unfold escapeChar
  split
  · decide
  · split
    · decide
    · split
      · decide
      · split
        · decide
        · split
          · rename_i h1 h2 h3 h4 h5
            have hp : plain c := by
              simp only [isPrint, Bool.and_eq_true, decide_eq_true_eq] at h5
              exact ⟨h5.1, h5.2, h4, h3⟩
            exact bodyRun_plain (by simpa using hp)
          · have h1 : plain (hexDigit (c / 16 % 16)) := hexDigit_plain (by omega)
            have h2 : plain (hexDigit (c % 16)) := hexDigit_plain (by omega)
            simp only [bodyRun]
            have e1 : strStep .normal 92 = some (.cont .esc) := by decide
            have e2 : strStep .esc 92 = some (.cont .normal) := by decide
            have e3 : strStep .normal 120 = some (.cont .normal) := by decide
            simp only [e1, e2, e3, strStep_plain h1, strStep_plain h2]

theorem escapeStr_body (bs : List Nat) : bodyRun .normal (escapeStr bs) = some .normal := by
  induction bs with
  | nil => rfl
  | cons c cs ih =>
    simp only [escapeStr, List.flatMap_cons] at *
    exact bodyRun_trans (escapeChar_body c) ih

theorem escapeStr_append (a b : List Nat) : escapeStr (a ++ b) = escapeStr a ++ escapeStr b := by
  simp [escapeStr]

theorem escCmdline_body : ∀ bs : List Nat, bodyRun .normal (escCmdline bs) = some .normal
  | [] => rfl
  | [c] => escapeChar_body c
  | c :: d :: r => by
    unfold escCmdline
    split
    · have e1 : strStep .normal 92 = some (.cont .esc) := by decide
      have e2 : strStep .esc 34 = some (.cont .normal) := by decide
      simp only [bodyRun, e1, e2]
      exact escCmdline_body r
    · exact bodyRun_trans (escapeChar_body c) (escCmdline_body (d :: r))

theorem escapeChar_length (c : Nat) : 1 ≤ (escapeChar c).length ∧ (escapeChar c).length ≤ 5 := by
  unfold escapeChar; repeat' split
  all_goals simp

theorem escapeChar_viaChar {c : Nat} (h : viaChar c = true) : escapeChar c = [c] := by
  simp only [viaChar, Bool.and_eq_true, bne_iff_ne, ne_eq] at h
  obtain ⟨⟨h1, h2⟩, h3⟩ := h
  have h4 : c ≠ 10 := by
    intro e; subst e; simp [isPrint] at h1
  have h5 : c ≠ 9 := by
    intro e; subst e; simp [isPrint] at h1
  simp [escapeChar, h1, h2, h3, h4, h5]

/-! ## decimal numbers -/

theorem digit_plain (n : Nat) : plain (digit n) := by
  simp only [plain, digit]; omega

theorem digit_isDigit (n : Nat) : isDigit (digit n) = true := by
  have h : 48 + n % 10 ≤ 57 := by omega
  simp [isDigit, digit, h]

theorem decF_plain : ∀ f n, ∀ c ∈ decF f n, plain c
  | 0, _ => by simp [decF]
  | f + 1, n => by
    intro c hc
    unfold decF at hc
    split at hc
    · simp at hc; subst hc; exact digit_plain n
    · simp only [List.mem_append, List.mem_cons, List.not_mem_nil, or_false] at hc
      rcases hc with hc | hc
      · exact decF_plain f (n / 10) c hc
      · subst hc; exact digit_plain n

theorem dec_body (n : Nat) : bodyRun .normal (dec n) = some .normal :=
  bodyRun_plain (decF_plain _ _)

/-! ## the automaton -/

theorem run_append (s : St) (a b : List Nat) :
    run s (a ++ b) = (run s a).bind (fun s' => run s' b) := by
  induction a generalizing s with
  | nil => simp [run]
  | cons c cs ih =>
    simp only [List.cons_append, run]
    cases step s c with
    | none => simp
    | some s' => simp [ih]

theorem run_trans {s t u : St} {a b : List Nat} (h1 : run s a = some t) (h2 : run t b = some u) :
    run s (a ++ b) = some u := by
  rw [run_append, h1]; simpa using h2

/-- inside a string the automaton follows `bodyRun` and leaves the stack alone -/
theorem run_body {k : Bool} {m m' : SMode} {stk : List Ctx} {bs : List Nat}
    (h : bodyRun m bs = some m') : run ⟨.str k m, stk⟩ bs = some ⟨.str k m', stk⟩ := by
  induction bs generalizing m with
  | nil => simp [bodyRun] at h; subst h; rfl
  | cons c cs ih =>
    simp only [bodyRun] at h
    cases hs : strStep m c with
    | none => simp [hs] at h
    | some r =>
      cases r with
      | close => simp [hs] at h
      | cont m1 =>
        simp only [hs] at h
        simp only [run, step, hs]
        exact ih h

theorem decF_run_val : ∀ f n, n < f → ∀ stk,
    run ⟨.val, stk⟩ (decF f n) = some ⟨if n = 0 then .zero else .int, stk⟩
  | 0, n, h, _ => by omega
  | f + 1, n, h, stk => by
    unfold decF
    split
    · rename_i h10
      by_cases h0 : n = 0
      · subst h0; rfl
      · have hd : digit n ≠ 48 := by unfold digit; omega
        have hw : isWs (digit n) = false := by
          simp only [isWs, digit, Bool.or_eq_false_iff, beq_eq_false_iff_ne, ne_eq]; omega
        have h1 : digit n ≠ 34 ∧ digit n ≠ 123 ∧ digit n ≠ 91 ∧ digit n ≠ 45 := by unfold digit; omega
        simp [run, step, startValue, hw, hd, h1, digit_isDigit, h0]
    · rename_i h10
      have hlt : n / 10 < f := by omega
      have hne : n / 10 ≠ 0 := by omega
      have hn0 : n ≠ 0 := by omega
      refine run_trans (decF_run_val f (n / 10) hlt stk) ?_
      simp [hne, hn0, run, step, digit_isDigit]

theorem dec_run_val (n : Nat) (stk : List Ctx) :
    run ⟨.val, stk⟩ (dec n) = some ⟨if n = 0 then .zero else .int, stk⟩ :=
  decF_run_val (n + 1) n (by omega) stk

theorem tsText_run_val (t : Nat) (stk : List Ctx) : run ⟨.val, stk⟩ (tsText t) = some ⟨.frac, stk⟩ := by
  unfold tsText pad3
  refine run_trans (t := ⟨.dot, stk⟩) (run_trans (dec_run_val _ stk) ?_) ?_
  · split <;> rfl
  · simp [run, step, digit_isDigit]

/-! ## the time stamp reads back exactly -/

theorem digitsVal_append (a : List Nat) (d : Nat) :
    digitsVal (a ++ [d]) = digitsVal a * 10 + (d - 48) := by
  simp [digitsVal, List.foldl_append]

theorem allDigits_append (a b : List Nat) : allDigits (a ++ b) = (allDigits a && allDigits b) := by
  simp [allDigits]

theorem allDigits_digit (n : Nat) : allDigits [digit n] = true := by
  have h : 48 + n % 10 ≤ 57 := by omega
  simp [allDigits, digit, h]

/-- `%lu`: the digits read back as the number, for every number -/
theorem decF_val : ∀ f n, n < f →
    digitsVal (decF f n) = n ∧ allDigits (decF f n) = true ∧ decF f n ≠ []
  | 0, n, h => by omega
  | f + 1, n, h => by
    unfold decF
    split
    · rename_i h10
      refine ⟨?_, allDigits_digit n, by simp⟩
      simp only [digitsVal, List.foldl, digit]; omega
    · rename_i h10
      obtain ⟨a, b, _⟩ := decF_val f (n / 10) (by omega)
      refine ⟨?_, ?_, by simp⟩
      · rw [digitsVal_append, a]; simp only [digit]; omega
      · rw [allDigits_append, b, allDigits_digit]; rfl

theorem dec_val (n : Nat) : digitsVal (dec n) = n ∧ allDigits (dec n) = true ∧ dec n ≠ [] :=
  decF_val (n + 1) n (by omega)

/-- `%03d` of a value below 1000 -/
theorem pad3_val (m : Nat) (h : m < 1000) :
    digitsVal (pad3 m) = m ∧ allDigits (pad3 m) = true ∧ (pad3 m).length = 3 := by
  refine ⟨?_, ?_, rfl⟩
  · simp only [digitsVal, pad3, List.foldl, digit]; omega
  · have h1 : 48 + m / 100 % 10 ≤ 57 := by omega
    have h2 : 48 + m / 10 % 10 ≤ 57 := by omega
    have h3 : 48 + m % 10 ≤ 57 := by omega
    simp [allDigits, pad3, digit, h1, h2, h3]

end Uft.Json

namespace Uft.Json

/-! ## the name buffer -/

structure NBInv (b : NB) : Prop where
  term : b.term = false
  oob : b.oob = false
  pos : b.pos = b.out.length
  len : b.len + b.pos = 2047

theorem nbInit_inv : NBInv nbInit := ⟨rfl, rfl, rfl, rfl⟩

theorem wrapSub_small {a b : Nat} (h : b ≤ a) (ha : a < 4096) : wrapSub a b = a - b := by
  unfold wrapSub W; omega

/-- a store that fits keeps the buffer a plain C string -/
theorem putEsc_inv {b : NB} (c : Nat) (hi : NBInv b) (hl : (escapeChar c).length < b.len) :
    NBInv (putEsc b c) ∧ (putEsc b c).out = b.out ++ escapeChar c := by
  obtain ⟨ht, ho, hp, hlen⟩ := hi
  have hx := escapeChar_length c
  unfold putEsc
  split
  · rename_i hv
    have he := escapeChar_viaChar hv
    rw [he] at hl ⊢
    simp only [List.length_cons, List.length_nil] at hl
    refine ⟨⟨?_, ?_, ?_, ?_⟩, ?_⟩
    · simp [printChar, ht]
    · simp only [printChar, ho, cap, Bool.false_or]; exact decide_eq_false (by omega)
    · simp [printChar, ht, hp]
    · simp only [printChar]; rw [wrapSub_small (a := b.len) (b := 1) (by omega) (by omega)]; omega
    · simp [printChar, ht]
  · have hne : b.len ≠ 0 := by omega
    have hk : min (escapeChar c).length (b.len - 1) = (escapeChar c).length := by omega
    refine ⟨⟨?_, ?_, ?_, ?_⟩, ?_⟩
    · simp [printArgs, hne, ht, hk]
    · simp only [printArgs, hne, ↓reduceIte, hk, ho, cap, Bool.false_or]; exact decide_eq_false (by omega)
    · simp [printArgs, hne, ht, hk, hp]
    · simp only [printArgs, hne, ↓reduceIte]
      rw [wrapSub_small (a := b.len) (b := (escapeChar c).length) (by omega) (by omega)]; omega
    · simp [printArgs, hne, ht, hk]

theorem escapeStr_cons (c : Nat) (cs : List Nat) : escapeStr (c :: cs) = escapeChar c ++ escapeStr cs := by
  simp [escapeStr]

/-- as long as everything fits (with the guard: fits with 6 bytes to spare) the loop
    produces the escaped name -/
theorem nameLoop_fits (f : Bool) (bound : Nat) (hb : bound ≤ 2046) (hf : f = true → bound ≤ 2041) :
    ∀ (name : List Nat) (b : NB), NBInv b → b.pos + (escapeStr name).length ≤ bound →
      NBInv (nameLoop f b name) ∧ (nameLoop f b name).out = b.out ++ escapeStr name
  | [], b, hi, _ => by simp [nameLoop, escapeStr, hi]
  | c :: cs, b, hi, hl => by
    have hx := escapeChar_length c
    rw [escapeStr_cons, List.length_append] at hl
    have hlen := hi.len
    have hg : (f && decide (b.len < 6)) = false := by
      cases f with
      | false => rfl
      | true =>
        have := hf rfl
        simp only [Bool.true_and, decide_eq_false_iff_not]; omega
    have h1 := putEsc_inv c hi (by omega)
    have hpos : (putEsc b c).pos = b.pos + (escapeChar c).length := by
      rw [h1.1.pos, h1.2, hi.pos, List.length_append]
    have h2 := nameLoop_fits f bound hb hf cs (putEsc b c) h1.1 (by omega)
    simp only [nameLoop, hg, Bool.false_eq_true, ↓reduceIte]
    refine ⟨h2.1, ?_⟩
    rw [h2.2, h1.2, escapeStr_cons, List.append_assoc]

/-- with the guard the loop never leaves the buffer and stops between two escapes -/
theorem nameLoop_fixed : ∀ (name : List Nat) (b : NB), NBInv b →
    NBInv (nameLoop true b name) ∧ ∃ k, (nameLoop true b name).out = b.out ++ escapeStr (name.take k)
  | [], b, hi => by exact ⟨by simpa [nameLoop] using hi, 0, by simp [nameLoop, escapeStr]⟩
  | c :: cs, b, hi => by
    simp only [nameLoop, Bool.true_and]
    split
    · exact ⟨hi, 0, by simp [escapeStr]⟩
    · rename_i hg
      have hx := escapeChar_length c
      have hg' : 6 ≤ b.len := by simpa using hg
      have h1 := putEsc_inv c hi (by omega)
      obtain ⟨h2, k, hk⟩ := nameLoop_fixed cs (putEsc b c) h1.1
      refine ⟨h2, k + 1, ?_⟩
      rw [hk, h1.2, List.take_succ_cons, escapeStr_cons, List.append_assoc]

/-- `p - name_buf` is the escaped length, whatever happens to the buffer -/
theorem nameLoop_false_pos : ∀ (name : List Nat) (b : NB),
    (nameLoop false b name).pos = b.pos + (escapeStr name).length
  | [], b => by simp [nameLoop, escapeStr]
  | c :: cs, b => by
    simp only [nameLoop, Bool.false_and, Bool.false_eq_true, ↓reduceIte]
    rw [nameLoop_false_pos cs, escapeStr_cons, List.length_append]
    have : (putEsc b c).pos = b.pos + (escapeChar c).length := by
      unfold putEsc
      split
      · rename_i hv; rw [escapeChar_viaChar hv]; rfl
      · unfold printArgs; split <;> rfl
    omega

/-! ## the document -/

theorem body_of_valid {bs : List Nat} (h : validBody bs = true) : bodyRun .normal bs = some .normal := by
  simpa [validBody] using h

theorem numEnd_run {c : Prop} [Decidable c] {T : List Ctx} {l : List Nat} {u : St}
    (h0 : run ⟨.zero, T⟩ l = some u) (h1 : run ⟨.int, T⟩ l = some u) :
    run ⟨if c then .zero else .int, T⟩ l = some u := by
  split <;> assumption

theorem metaLine_run {kind comm : List Nat} (tid : Nat)
    (hk : bodyRun .normal kind = some .normal) (hc : bodyRun .normal comm = some .normal) :
    run ⟨.val, [.arr, .obj]⟩ (metaLine kind tid comm) = some ⟨.after, [.arr, .obj]⟩ := by
  unfold metaLine
  have hA : run ⟨.val, [.arr, .obj]⟩ b!"{\"ts\":0,\"ph\":\"M\",\"pid\":" = some ⟨.val, [.obj, .arr, .obj]⟩ := by decide
  have hB : run ⟨if tid = 0 then .zero else .int, [.obj, .arr, .obj]⟩ b!",\"name\":\"" =
      some ⟨.str false .normal, [.obj, .arr, .obj]⟩ := numEnd_run (by decide) (by decide)
  have hC : run ⟨.str false .normal, [.obj, .arr, .obj]⟩ b!"\",\"args\":{\"name\":\"[" =
      some ⟨.str false .normal, [.obj, .obj, .arr, .obj]⟩ := by decide
  have hD : run ⟨.str false .normal, [.obj, .obj, .arr, .obj]⟩ b!"] " =
      some ⟨.str false .normal, [.obj, .obj, .arr, .obj]⟩ := by decide
  have hE : run ⟨.str false .normal, [.obj, .obj, .arr, .obj]⟩ b!"\"}}" = some ⟨.after, [.arr, .obj]⟩ := by decide
  exact run_trans (run_trans (run_trans (run_trans (run_trans (run_trans (run_trans (run_trans
    hA (dec_run_val tid _)) hB) (run_body hk)) hC) (run_body (dec_body tid))) hD) (run_body hc)) hE

/-! ## the argument buffer -/

/-- invariant of `spec_buf` under the repaired `print_args` / `print_char`.  `ok` stands for
    "every piece printed so far was a string body": with `ok := False` the invariant is pure
    buffer safety (for arbitrary pieces), with `ok := True` it also gives the JSON validity. -/
structure SBInv (ok : Prop) (b : NB) : Prop where
  term : b.term = false
  oob : b.oob = false
  pos : b.pos = b.out.length
  len : b.len + b.pos = 2048
  room : 1 ≤ b.len
  body : ok → bodyRun .normal b.out = some .normal

theorem sbInit_inv (ok : Prop) : SBInv ok sbInit := ⟨rfl, rfl, rfl, rfl, by decide, fun _ => rfl⟩

/-- a piece that fits is appended -/
theorem pA_fits {ok : Prop} {b : NB} {s : List Nat} (hi : SBInv ok b)
    (hs : ok → bodyRun .normal s = some .normal)
    (hl : s.length < b.len) : SBInv ok (pA true b s) ∧ (pA true b s).out = b.out ++ s := by
  obtain ⟨ht, ho, hp, hlen, hr, hb⟩ := hi
  have hne : b.len ≠ 0 := by omega
  have hg : ¬ b.len ≤ s.length := by omega
  have hk : min s.length (b.len - 1) = s.length := by omega
  have hw : wrapSub b.len s.length = b.len - s.length := wrapSub_small (by omega) (by omega)
  simp only [pA, Bool.true_and, hg, decide_false, Bool.false_eq_true, ↓reduceIte]
  refine ⟨⟨?_, ?_, ?_, ?_, ?_, ?_⟩, ?_⟩
  · simp [printArgs, hne, ht, hk]
  · simp only [printArgs, hne, ↓reduceIte, hk, ho, cap, Bool.false_or]; exact decide_eq_false (by omega)
  · simp [printArgs, hne, ht, hk, hp]
  · simp only [printArgs, hne, ↓reduceIte, hw]; omega
  · simp only [printArgs, hne, ↓reduceIte, hw]; omega
  · intro h
    simp only [printArgs, hne, ↓reduceIte, ht, hk, Bool.false_eq_true, List.take_length]
    exact bodyRun_trans (hb h) (hs h)
  · simp [printArgs, hne, ht, hk]

/-- a piece that does not fit is dropped -/
theorem pA_drop {b : NB} {s : List Nat} (hl : b.len ≤ s.length) : pA true b s = b := by
  simp [pA, hl]

theorem pA_inv {ok : Prop} {b : NB} {s : List Nat} (hi : SBInv ok b)
    (hs : ok → bodyRun .normal s = some .normal) : SBInv ok (pA true b s) := by
  by_cases hl : s.length < b.len
  · exact (pA_fits hi hs hl).1
  · rw [pA_drop (by omega)]; exact hi

theorem viaChar_plain {c : Nat} (h : viaChar c = true) : plain c := by
  simp only [viaChar, isPrint, Bool.and_eq_true, decide_eq_true_eq, bne_iff_ne, ne_eq] at h
  exact ⟨h.1.1.1, h.1.1.2, h.2, h.1.2⟩

theorem pC_fits {ok : Prop} {b : NB} {c : Nat} (hi : SBInv ok b) (hc : plain c) (hl : 1 < b.len) :
    SBInv ok (pC true b c) ∧ (pC true b c).out = b.out ++ [c] := by
  obtain ⟨ht, ho, hp, hlen, hr, hb⟩ := hi
  have hg : ¬ b.len < 2 := by omega
  have hw : wrapSub b.len 1 = b.len - 1 := wrapSub_small (by omega) (by omega)
  simp only [pC, Bool.true_and, hg, decide_false, Bool.false_eq_true, ↓reduceIte]
  refine ⟨⟨?_, ?_, ?_, ?_, ?_, ?_⟩, ?_⟩
  · simp [printChar, ht]
  · simp only [printChar, ho, cap, Bool.false_or]; exact decide_eq_false (by omega)
  · simp [printChar, ht, hp]
  · simp only [printChar, hw]; omega
  · simp only [printChar, hw]; omega
  · intro h
    simp only [printChar, ht, Bool.false_eq_true, ↓reduceIte]
    exact bodyRun_trans (hb h) (bodyRun_plain (by simpa using hc))
  · simp [printChar, ht]

theorem pC_inv {ok : Prop} {b : NB} {c : Nat} (hi : SBInv ok b) (hc : plain c) : SBInv ok (pC true b c) := by
  by_cases hl : 1 < b.len
  · exact (pC_fits hi hc hl).1
  · have : b.len < 2 := by omega
    simp only [pC, Bool.true_and, this, decide_true, ↓reduceIte]; exact hi

theorem pE_inv {ok : Prop} {b : NB} (c : Nat) (hi : SBInv ok b) : SBInv ok (pE true b c) := by
  unfold pE
  split
  · rename_i hv; exact pC_inv hi (viaChar_plain hv)
  · exact pA_inv hi (fun _ => escapeChar_body c)

theorem pE_fits {ok : Prop} {b : NB} (c : Nat) (hi : SBInv ok b) (hl : (escapeChar c).length < b.len) :
    SBInv ok (pE true b c) ∧ (pE true b c).out = b.out ++ escapeChar c := by
  unfold pE
  split
  · rename_i hv
    have he := escapeChar_viaChar hv
    rw [he] at hl ⊢
    exact pC_fits hi (viaChar_plain hv) (by simpa using hl)
  · exact pA_fits hi (fun _ => escapeChar_body c) hl

theorem foldl_pE_inv {ok : Prop} : ∀ (l : List Nat) (b : NB), SBInv ok b → SBInv ok (l.foldl (pE true) b)
  | [], _, hi => hi
  | c :: cs, b, hi => foldl_pE_inv cs (pE true b c) (pE_inv c hi)

theorem foldl_pE_fits {ok : Prop} : ∀ (l : List Nat) (b : NB), SBInv ok b → (escapeStr l).length < b.len →
    SBInv ok (l.foldl (pE true) b) ∧ (l.foldl (pE true) b).out = b.out ++ escapeStr l
  | [], b, hi, _ => by simp [escapeStr, hi]
  | c :: cs, b, hi, hl => by
    rw [escapeStr_cons, List.length_append] at hl
    have h1 := pE_fits c hi (by omega)
    have hlen1 := h1.1.len
    have hlen0 := hi.len
    have hpos : (pE true b c).pos = b.pos + (escapeChar c).length := by
      rw [h1.1.pos, h1.2, hi.pos, List.length_append]
    have h2 := foldl_pE_fits cs (pE true b c) h1.1 (by omega)
    simp only [List.foldl_cons]
    refine ⟨h2.1, ?_⟩
    rw [h2.2, h1.2, escapeStr_cons, List.append_assoc]

/-- the text of one value -/
def valText : ArgVal → List Nat
  | .str bs std =>
    (if bs = [255, 255, 255, 255] then b!"NULL" else [92, 34] ++ escapeStr (cstr bs) ++ [92, 34]) ++
    (if std then [115] else [])
  | .chr c => [39] ++ escapeChar c ++ [39]
  | .sym name => 38 :: escapeStr name
  | .raw t => t

/-- what the formats outside the model print is assumed to be a string body
    (printf of numbers: digits, letters, "0x", ".", "-", "<ENUM?> …", "{...}") -/
def ArgVal.ok : ArgVal → Prop
  | .raw t => bodyRun .normal t = some .normal
  | _ => True

theorem q_body : bodyRun .normal [92, 34] = some .normal := by decide

theorem valText_body (v : ArgVal) (hv : v.ok) : bodyRun .normal (valText v) = some .normal := by
  cases v with
  | str bs std =>
    simp only [valText]
    have h1 : bodyRun .normal (if bs = [255, 255, 255, 255] then b!"NULL"
        else [92, 34] ++ escapeStr (cstr bs) ++ [92, 34]) = some .normal := by
      split
      · decide
      · exact bodyRun_trans (bodyRun_trans q_body (escapeStr_body _)) q_body
    refine bodyRun_trans h1 ?_
    split <;> decide
  | chr c =>
    simp only [valText]
    exact bodyRun_trans (bodyRun_trans (by decide) (escapeChar_body c)) (by decide)
  | sym name =>
    simp only [valText]
    have : (38 :: escapeStr name) = [38] ++ escapeStr name := rfl
    rw [this]
    exact bodyRun_trans (by decide) (escapeStr_body _)
  | raw t => exact hv

/-- one value keeps the invariant; the content stays a string body when the value's printf text
    is one and symbol names go through the escaper (`asym`) -/
theorem argPiece_inv {ok : Prop} {b : NB} (asym : Bool) (v : ArgVal) (hv : ok → v.ok) (hsym : ok → asym = true)
    (hi : SBInv ok b) : SBInv ok (argPiece true asym b v) := by
  cases v with
  | str bs std =>
    simp only [argPiece]
    have h1 : SBInv ok (if bs = [255, 255, 255, 255] then pA true b b!"NULL"
        else pA true ((cstr bs).foldl (pE true) (pA true b [92, 34])) [92, 34]) := by
      split
      · exact pA_inv hi (fun _ => by decide)
      · exact pA_inv (foldl_pE_inv _ _ (pA_inv hi (fun _ => q_body))) (fun _ => q_body)
    split
    · exact pA_inv h1 (fun _ => by decide)
    · exact h1
  | chr c =>
    simp only [argPiece]
    exact pA_inv (pE_inv c (pA_inv hi (fun _ => by decide))) (fun _ => by decide)
  | sym name =>
    simp only [argPiece]
    split
    · exact foldl_pE_inv _ _ (pA_inv hi (fun _ => by decide))
    · rename_i hf
      exact pA_inv hi (fun h => absurd (hsym h) hf)
  | raw t => exact pA_inv hi hv

/-- a value whose text fits is printed completely -/
theorem argPiece_fits {ok : Prop} {b : NB} (v : ArgVal) (hv : ok → v.ok) (hi : SBInv ok b)
    (hl : (valText v).length < b.len) :
    SBInv ok (argPiece true true b v) ∧ (argPiece true true b v).out = b.out ++ valText v := by
  have hlen0 := hi.len
  cases v with
  | str bs std =>
    simp only [argPiece, valText] at hl ⊢
    have h1 : SBInv ok (if bs = [255, 255, 255, 255] then pA true b b!"NULL"
          else pA true ((cstr bs).foldl (pE true) (pA true b [92, 34])) [92, 34]) ∧
        (if bs = [255, 255, 255, 255] then pA true b b!"NULL"
          else pA true ((cstr bs).foldl (pE true) (pA true b [92, 34])) [92, 34]).out =
        b.out ++ (if bs = [255, 255, 255, 255] then b!"NULL" else [92, 34] ++ escapeStr (cstr bs) ++ [92, 34]) := by
      split
      · rename_i hn
        simp only [hn, ↓reduceIte, List.length_append] at hl
        exact pA_fits hi (fun _ => by decide) (by simp at hl ⊢; omega)
      · rename_i hn
        simp only [hn, ↓reduceIte, List.length_append, List.length_cons, List.length_nil] at hl
        have a := pA_fits hi (fun _ => q_body) (by simp; omega)
        have al := a.1.len
        have ap : (pA true b [92, 34]).pos = b.pos + 2 := by rw [a.1.pos, a.2, hi.pos]; simp
        have c := foldl_pE_fits (cstr bs) _ a.1 (by omega)
        have cl := c.1.len
        have cp : ((cstr bs).foldl (pE true) (pA true b [92, 34])).pos = b.pos + 2 + (escapeStr (cstr bs)).length := by
          rw [c.1.pos, c.2, a.2, hi.pos]; simp; omega
        have d := pA_fits c.1 (fun _ => q_body) (by simp; omega)
        refine ⟨d.1, ?_⟩
        rw [d.2, c.2, a.2]; simp
    split
    · rename_i hs
      simp only [hs, ↓reduceIte, List.length_append, List.length_cons, List.length_nil] at hl
      have l1 := h1.1.len
      have p1 : (if bs = [255, 255, 255, 255] then pA true b b!"NULL"
          else pA true ((cstr bs).foldl (pE true) (pA true b [92, 34])) [92, 34]).pos =
          b.pos + (if bs = [255, 255, 255, 255] then b!"NULL" else [92, 34] ++ escapeStr (cstr bs) ++ [92, 34]).length := by
        rw [h1.1.pos, h1.2, hi.pos, List.length_append]
      have d := pA_fits h1.1 (s := [115]) (fun _ => by decide) (by simp; omega)
      refine ⟨d.1, ?_⟩
      rw [d.2, h1.2]; simp
    · rename_i hs
      simp only [hs, Bool.false_eq_true, ↓reduceIte, List.append_nil] at hl ⊢
      exact h1
  | chr c =>
    simp only [argPiece, valText, List.length_append, List.length_cons, List.length_nil] at hl ⊢
    have a := pA_fits hi (s := [39]) (fun _ => by decide) (by simp; omega)
    have al := a.1.len
    have ap : (pA true b [39]).pos = b.pos + 1 := by rw [a.1.pos, a.2, hi.pos]; simp
    have c1 := pE_fits c a.1 (by omega)
    have cl := c1.1.len
    have cp : (pE true (pA true b [39]) c).pos = b.pos + 1 + (escapeChar c).length := by
      rw [c1.1.pos, c1.2, a.2, hi.pos]; simp; omega
    have d := pA_fits c1.1 (s := [39]) (fun _ => by decide) (by simp; omega)
    refine ⟨d.1, ?_⟩
    rw [d.2, c1.2, a.2]; simp
  | sym name =>
    simp only [argPiece, valText, ↓reduceIte, List.length_cons] at hl ⊢
    have a := pA_fits hi (s := [38]) (fun _ => by decide) (by simp; omega)
    have al := a.1.len
    have ap : (pA true b [38]).pos = b.pos + 1 := by rw [a.1.pos, a.2, hi.pos]; simp
    have c := foldl_pE_fits name _ a.1 (by omega)
    refine ⟨c.1, ?_⟩
    rw [c.2, a.2]; simp
  | raw t => exact pA_fits hi hv hl

theorem argLoop_inv {ok : Prop} (asym retval : Bool) (hsym : ok → asym = true) :
    ∀ (vs : List ArgVal) (first : Bool) (b : NB), (ok → ∀ v ∈ vs, v.ok) → SBInv ok b →
    SBInv ok (argLoop true asym retval first b vs)
  | [], _, b, _, hi => by simpa [argLoop] using hi
  | v :: vs, first, b, hv, hi => by
    have h1 : SBInv ok (if first = true then b else pA true b b!", ") := by
      split
      · exact hi
      · exact pA_inv hi (fun _ => by decide)
    have h2 := argPiece_inv asym v (fun h => hv h v (by simp)) hsym h1
    have h3 := argLoop_inv asym retval hsym vs false _ (fun h x hx => hv h x (by simp [hx])) h2
    simp only [argLoop]
    by_cases hg : (argPiece true asym (if first = true then b else pA true b b!", ") v).len ≤ 2 ∨ retval = true
    · rw [if_pos hg]; exact h2
    · rw [if_neg hg]; exact h3

/-- the values joined by ", " -/
def argsJoin : List ArgVal → List Nat
  | [] => []
  | [v] => valText v
  | v :: w :: vs => valText v ++ b!", " ++ argsJoin (w :: vs)

/-- the complete text: "(a, b, c)" for arguments, the first value for a return value -/
def argFull (retval : Bool) (vs : List ArgVal) : List Nat :=
  if retval then (match vs with | [] => [] | v :: _ => valText v) else [40] ++ argsJoin vs ++ [41]

theorem argsJoin_cons (v : ArgVal) (vs : List ArgVal) :
    argsJoin (v :: vs) = valText v ++ (if vs = [] then [] else b!", " ++ argsJoin vs) := by
  cases vs with
  | nil => simp [argsJoin]
  | cons w r => simp [argsJoin]

/-- as long as three bytes stay free after every value the loop prints all of them -/
theorem argLoop_fits {ok : Prop} : ∀ (vs : List ArgVal) (first : Bool) (b : NB), (ok → ∀ v ∈ vs, v.ok) → SBInv ok b →
    b.pos + (if first = true ∨ vs = [] then 0 else 2) + (argsJoin vs).length + 3 ≤ 2048 →
    SBInv ok (argLoop true true false first b vs) ∧
    (argLoop true true false first b vs).out =
      b.out ++ (if first = true ∨ vs = [] then [] else b!", ") ++ argsJoin vs
  | [], _, b, _, hi, _ => by simp [argLoop, argsJoin, hi]
  | v :: vs, first, b, hv, hi, hl => by
    have hlen0 := hi.len
    rw [argsJoin_cons, List.length_append] at hl
    simp only [reduceCtorEq, or_false] at hl ⊢
    simp only [argLoop]
    have h1 : SBInv ok (if first = true then b else pA true b b!", ") ∧
        (if first = true then b else pA true b b!", ").out = b.out ++ (if first = true then [] else b!", ") := by
      split
      · simp [hi]
      · rename_i hf
        simp only [hf, ↓reduceIte] at hl
        exact pA_fits hi (fun _ => by decide) (by simp; omega)
    have l1 := h1.1.len
    have p1 : (if first = true then b else pA true b b!", ").pos = b.pos + (if first = true then 0 else 2) := by
      rw [h1.1.pos, h1.2, hi.pos, List.length_append]
      split <;> simp
    have h2 := argPiece_fits v (fun h => hv h v (by simp)) h1.1 (by omega)
    have l2 := h2.1.len
    have p2 : (argPiece true true (if first = true then b else pA true b b!", ") v).pos =
        b.pos + (if first = true then 0 else 2) + (valText v).length := by
      rw [h2.1.pos, h2.2, List.length_append, ← h1.1.pos, p1]
    by_cases hvs : vs = []
    · subst hvs
      simp only [↓reduceIte, List.length_nil, Nat.add_zero] at hl
      have : (if (argPiece true true (if first = true then b else pA true b b!", ") v).len ≤ 2 ∨ false = true
          then argPiece true true (if first = true then b else pA true b b!", ") v
          else argLoop true true false false (argPiece true true (if first = true then b else pA true b b!", ") v) []) =
          argPiece true true (if first = true then b else pA true b b!", ") v := by
        split <;> simp [argLoop]
      rw [this]
      refine ⟨h2.1, ?_⟩
      rw [h2.2, h1.2]; simp [argsJoin]
    · simp only [hvs, ↓reduceIte, List.length_append] at hl
      have hg : ¬ ((argPiece true true (if first = true then b else pA true b b!", ") v).len ≤ 2 ∨ false = true) := by
        simp only [Bool.false_eq_true, or_false]
        have : (b!", ").length = 2 := rfl
        omega
      simp only [hg, ↓reduceIte]
      have h3 := argLoop_fits vs false _ (fun h x hx => hv h x (by simp [hx])) h2.1 (by
        simp only [Bool.false_eq_true, hvs, or_self, ↓reduceIte]
        have : (b!", ").length = 2 := rfl
        omega)
      refine ⟨h3.1, ?_⟩
      rw [h3.2, h2.2, h1.2, argsJoin_cons v vs]
      simp [hvs, List.append_assoc]

theorem argsText_run (e : Ev)
    (ha : ∀ vs, e.args = some vs → bodyRun .normal (argString true true (!e.entry) vs).out = some .normal) :
    run ⟨.str false .normal, [.obj, .arr, .obj]⟩ ([34] ++ argsText Fix.all e) = some ⟨.after, [.arr, .obj]⟩ := by
  unfold argsText
  cases h : e.args with
  | none => exact (by decide : run ⟨.str false .normal, [.obj, .arr, .obj]⟩ ([34] ++ b!"}") = some ⟨.after, [.arr, .obj]⟩)
  | some vs =>
    have hb := ha vs h
    simp only [Fix.all]
    have h1 : run ⟨.str false .normal, [.obj, .arr, .obj]⟩
        ([34] ++ (if e.entry = true then b!",\"args\":{\"arguments\":\"" else b!",\"args\":{\"retval\":\"")) =
        some ⟨.str false .normal, [.obj, .obj, .arr, .obj]⟩ := by split <;> decide
    have h2 : run ⟨.str false .normal, [.obj, .obj, .arr, .obj]⟩ b!"\"}}" = some ⟨.after, [.arr, .obj]⟩ := by decide
    have := run_trans (run_trans h1 (run_body hb)) h2
    simpa [List.append_assoc] using this

theorem evText_run (e : Ev) (hn : bodyRun .normal (escapeName true e.name).out = some .normal)
    (ha : ∀ vs, e.args = some vs → bodyRun .normal (argString true true (!e.entry) vs).out = some .normal) :
    run ⟨.val, [.arr, .obj]⟩ (evText Fix.all e) = some ⟨.after, [.arr, .obj]⟩ := by
  unfold evText
  have h1 : run ⟨.val, [.arr, .obj]⟩ b!"{\"ts\":" = some ⟨.val, [.obj, .arr, .obj]⟩ := by decide
  have h2 : run ⟨.frac, [.obj, .arr, .obj]⟩ b!",\"ph\":\"" = some ⟨.str false .normal, [.obj, .arr, .obj]⟩ := by decide
  have h3 : run ⟨.str false .normal, [.obj, .arr, .obj]⟩ [if e.entry then 66 else 69] =
      some ⟨.str false .normal, [.obj, .arr, .obj]⟩ := by split <;> decide
  have h4 : run ⟨.str false .normal, [.obj, .arr, .obj]⟩ b!"\",\"pid\":" = some ⟨.val, [.obj, .arr, .obj]⟩ := by decide
  have h5 : ∃ n, run ⟨.val, [.obj, .arr, .obj]⟩
      (if e.pid = e.tid then dec e.tid else dec e.pid ++ b!",\"tid\":" ++ dec e.tid) =
      some ⟨if n = 0 then .zero else .int, [.obj, .arr, .obj]⟩ := by
    split
    · exact ⟨e.tid, dec_run_val _ _⟩
    · refine ⟨e.tid, run_trans (t := ⟨.val, [.obj, .arr, .obj]⟩) (run_trans (dec_run_val e.pid _) ?_) (dec_run_val _ _)⟩
      exact numEnd_run (by decide) (by decide)
  obtain ⟨n, h5⟩ := h5
  have h6 : run ⟨if n = 0 then .zero else .int, [.obj, .arr, .obj]⟩ b!",\"name\":\"" =
      some ⟨.str false .normal, [.obj, .arr, .obj]⟩ := numEnd_run (by decide) (by decide)
  have h7 := argsText_run e ha
  have := run_trans (run_trans (run_trans (run_trans (run_trans (run_trans (run_trans (run_trans
    h1 (tsText_run_val e.time _)) h2) h3) h4) h5) h6) (run_body hn)) h7
  simpa [Fix.all, List.append_assoc] using this

/-- the state between two elements of the "traceEvents" array -/
def openSt (lc : Bool) : St := if lc then ⟨.after, [.arr, .obj]⟩ else ⟨.valOrEnd, [.arr, .obj]⟩

/-- an element (an object) printed with the `last_comma` protocol -/
theorem elem_run {E : List Nat} (lc : Bool) (hE : run ⟨.val, [.arr, .obj]⟩ (123 :: E) = some ⟨.after, [.arr, .obj]⟩) :
    run (openSt lc) ((if lc then b!",\n" else []) ++ 123 :: E) = some (openSt true) := by
  cases lc with
  | true =>
    have : run ⟨.after, [.arr, .obj]⟩ b!",\n" = some ⟨.val, [.arr, .obj]⟩ := by decide
    exact run_trans this hE
  | false =>
    have h2 : run ⟨.valOrEnd, [.arr, .obj]⟩ (123 :: E) = run ⟨.val, [.arr, .obj]⟩ (123 :: E) := rfl
    simpa [openSt, h2] using hE

theorem evText_head (f : Fix) (e : Ev) : ∃ E, evText f e = 123 :: E := by
  unfold evText; exact ⟨_, by simp [List.append_assoc]; rfl⟩

theorem metaLine_head (kind : List Nat) (tid : Nat) (comm : List Nat) : ∃ E, metaLine kind tid comm = 123 :: E := by
  unfold metaLine; exact ⟨_, by simp [List.append_assoc]; rfl⟩

theorem nameOut_body (name : List Nat) : bodyRun .normal (escapeName true name).out = some .normal := by
  obtain ⟨_, k, hk⟩ := nameLoop_fixed name nbInit nbInit_inv
  have : (escapeName true name).out = escapeStr (name.take k) := by simpa [escapeName, nbInit] using hk
  rw [this]; exact escapeStr_body _

theorem header_run (comm : List Nat) (tasks : List Task) :
    run init (headerFix comm tasks).1 = some (openSt (headerFix comm tasks).2) := by
  have h0 : run init b!"{\"traceEvents\":[\n" = some (openSt false) := by decide
  have hl : ∀ (ts : List Task) (lc : Bool),
      run (openSt lc) (headerFixLines comm lc ts).1 = some (openSt (headerFixLines comm lc ts).2) := by
    intro ts
    induction ts with
    | nil => intro lc; simp [headerFixLines, run]
    | cons t ts ih =>
      intro lc
      simp only [headerFixLines]
      have hc := escapeStr_body comm
      have hp : bodyRun .normal b!"process_name" = some .normal := by decide
      have ht : bodyRun .normal b!"thread_name" = some .normal := by decide
      obtain ⟨E, hE⟩ := metaLine_head b!"process_name" t.tid (escapeStr comm)
      have h1 : run (openSt lc) ((if lc then b!",\n" else []) ++ metaLine b!"process_name" t.tid (escapeStr comm)) =
          some (openSt true) := by
        rw [hE]; exact elem_run lc (by rw [← hE]; exact metaLine_run t.tid hp hc)
      have h2 : run (openSt true) b!",\n" = some ⟨.val, [.arr, .obj]⟩ := by decide
      have h3 := metaLine_run (comm := escapeStr comm) t.tid ht hc
      exact run_trans (run_trans (run_trans h1 h2) h3) (ih true)
  unfold headerFix
  exact run_trans h0 (hl tasks false)

/-- every `raw` piece of every event is a string body -/
def Ev.ok (e : Ev) : Prop := ∀ vs, e.args = some vs → ∀ v ∈ vs, v.ok

/-- `get_argspec_string` with the repaired writers: buffer safety for every value list, and
    (if `ok`) a string body -/
theorem argString_gen {ok : Prop} (asym retval : Bool) (vs : List ArgVal) (hv : ok → ∀ v ∈ vs, v.ok)
    (hsym : ok → asym = true) :
    (argString true asym retval vs).oob = false ∧ (argString true asym retval vs).term = false ∧
    (argString true asym retval vs).out.length ≤ 2047 ∧
    (ok → bodyRun .normal (argString true asym retval vs).out = some .normal) := by
  cases retval with
  | true =>
    have hi := argLoop_inv asym true hsym vs true sbInit hv (sbInit_inv ok)
    have hl := hi.len
    have hr := hi.room
    have hp := hi.pos
    simp only [argString, ↓reduceIte]
    refine ⟨?_, hi.term, by omega, hi.body⟩
    simp only [hi.oob, cap, Bool.false_or]; exact decide_eq_false (by omega)
  | false =>
    have hi := pA_inv (s := [41]) (argLoop_inv asym false hsym vs true _ hv
      (pA_inv (s := [40]) (sbInit_inv ok) (fun _ => by decide))) (fun _ => by decide)
    have hl := hi.len
    have hr := hi.room
    have hp := hi.pos
    simp only [argString, Bool.false_eq_true, ↓reduceIte]
    exact ⟨hi.oob, hi.term, by omega, hi.body⟩

theorem argString_inv (retval : Bool) (vs : List ArgVal) (hv : ∀ v ∈ vs, v.ok) :
    (argString true true retval vs).oob = false ∧ (argString true true retval vs).term = false ∧
    (argString true true retval vs).out.length ≤ 2047 ∧
    bodyRun .normal (argString true true retval vs).out = some .normal := by
  obtain ⟨a, b, c, d⟩ := argString_gen (ok := True) true retval vs (fun _ => hv) (fun _ => rfl)
  exact ⟨a, b, c, d trivial⟩

/-- the arguments in parentheses are printed completely when they fit -/
theorem argString_fits (vs : List ArgVal) (hl : (argFull false vs).length + 2 ≤ 2048) :
    (argString true true false vs).out = argFull false vs := by
  have h0 := pA_fits (ok := False) (s := [40]) (sbInit_inv False) (fun h => h.elim) (by decide)
  have hp0 : (pA true sbInit [40]).pos = 1 := by rw [h0.1.pos, h0.2]; rfl
  simp only [argFull, Bool.false_eq_true, ↓reduceIte, List.length_append, List.length_cons, List.length_nil] at hl
  have h1 := argLoop_fits (ok := False) vs true _ (fun h => h.elim) h0.1 (by simp only [true_or, ↓reduceIte]; omega)
  have hl1 := h1.1.len
  have hp1 : (argLoop true true false true (pA true sbInit [40]) vs).pos = 1 + (argsJoin vs).length := by
    rw [h1.1.pos, h1.2, h0.2]; simp [sbInit]; omega
  have h2 := pA_fits (s := [41]) h1.1 (fun h => h.elim) (by simp; omega)
  simp only [argString, Bool.false_eq_true, ↓reduceIte, argFull]
  rw [h2.2, h1.2, h0.2]; simp [sbInit]

theorem evs_run (evs : List Ev) (lc : Bool) (hok : ∀ e ∈ evs, e.ok) :
    run (openSt lc) (evsText Fix.all lc evs) = some (openSt (lc || !evs.isEmpty)) := by
  induction evs generalizing lc with
  | nil => simp [evsText, run]
  | cons e es ih =>
    simp only [evsText]
    obtain ⟨E, hE⟩ := evText_head Fix.all e
    have hn : bodyRun .normal (escapeName true e.name).out = some .normal := nameOut_body e.name
    have ha : ∀ vs, e.args = some vs → bodyRun .normal (argString true true (!e.entry) vs).out = some .normal :=
      fun vs h => (argString_inv _ vs (hok e (by simp) vs h)).2.2.2
    have h1 : run (openSt lc) ((if lc then b!",\n" else []) ++ evText Fix.all e) = some (openSt true) := by
      rw [hE]; exact elem_run lc (by rw [← hE]; exact evText_run e hn ha)
    have := run_trans h1 (ih true (fun x hx => hok x (by simp [hx])))
    simpa using this

theorem footer_run (lc : Bool) (version date c : List Nat)
    (hv : validBody version = true) (hd : validBody date = true) :
    run (openSt lc) (footer true version date (some c)) = some ⟨.after, []⟩ := by
  have f1 : run (openSt lc) b!"\n], \"displayTimeUnit\": \"ns\", \"metadata\": {\n" =
      some ⟨.keyOrEnd, [.obj, .obj]⟩ := by cases lc <;> decide
  have f2 : run ⟨.keyOrEnd, [.obj, .obj]⟩ b!"\"version\":\"uftrace " = some ⟨.str false .normal, [.obj, .obj]⟩ := by decide
  have f3 : run ⟨.str false .normal, [.obj, .obj]⟩ b!"\",\n" = some ⟨.key, [.obj, .obj]⟩ := by decide
  have f4 : run ⟨.key, [.obj, .obj]⟩ b!"\"recorded_time\":\"" = some ⟨.str false .normal, [.obj, .obj]⟩ := by decide
  have f6 : run ⟨.key, [.obj, .obj]⟩ b!"\"command_line\":\"" = some ⟨.str false .normal, [.obj, .obj]⟩ := by decide
  have f7 : run ⟨.str false .normal, [.obj, .obj]⟩ b!"\"\n" = some ⟨.after, [.obj, .obj]⟩ := by decide
  have f8 : run ⟨.after, [.obj, .obj]⟩ b!"} }\n" = some ⟨.after, []⟩ := by decide
  have bv := run_body (k := false) (stk := [.obj, .obj]) (body_of_valid hv)
  have bd := run_body (k := false) (stk := [.obj, .obj]) (body_of_valid hd)
  have bc := run_body (k := false) (stk := [.obj, .obj]) (escCmdline_body c)
  simp only [footer, ↓reduceIte, run_append, f1, f2, bv, f3, f4, bd, f6, bc, f7, f8, Option.bind_some]


/-! ## the argument buffer before the repair -/

/-- without the repair the writers are the ones of the name loop -/
theorem foldl_pE_false : ∀ (l : List Nat) (b : NB), l.foldl (pE false) b = nameLoop false b l
  | [], _ => by simp [nameLoop]
  | c :: cs, b => by
    simp only [List.foldl_cons, nameLoop, Bool.false_and, Bool.false_eq_true, ↓reduceIte]
    rw [foldl_pE_false cs]
    rfl

/-- `p` and `len` stay in step modulo 2^64, whatever is cut or lost -/
def PInv (b : NB) : Prop := (b.len + b.pos) % 18446744073709551616 = 2048 ∧ b.len < 18446744073709551616

theorem printArgs_pinv {b : NB} (s : List Nat) (h : PInv b) : PInv (printArgs b s) := by
  unfold PInv at *
  unfold printArgs
  split
  · rename_i h0
    simp only [wrapSub, W]
    rw [h0] at h
    omega
  · simp only [wrapSub, W]
    omega

theorem printChar_pinv {b : NB} (c : Nat) (h : PInv b) : PInv (printChar b c) := by
  unfold PInv at *
  simp only [printChar, wrapSub, W]
  omega

theorem putEsc_pinv {b : NB} (c : Nat) (h : PInv b) : PInv (putEsc b c) := by
  unfold putEsc
  split
  · exact printChar_pinv c h
  · exact printArgs_pinv _ h

theorem nameLoop_false_pinv : ∀ (l : List Nat) (b : NB), PInv b → PInv (nameLoop false b l)
  | [], _, h => by simpa [nameLoop] using h
  | c :: cs, b, h => by
    simp only [nameLoop, Bool.false_and, Bool.false_eq_true, ↓reduceIte]
    exact nameLoop_false_pinv cs _ (putEsc_pinv c h)

theorem printArgs_pos (b : NB) (s : List Nat) : (printArgs b s).pos = b.pos + s.length := by
  unfold printArgs; split <;> rfl

theorem cstr_id : ∀ (bs : List Nat), (∀ c ∈ bs, c ≠ 0) → cstr bs = bs
  | [], _ => rfl
  | c :: r, h => by
    have hc : c ≠ 0 := h c (by simp)
    simp only [cstr, hc, ↓reduceIte]
    rw [cstr_id r (fun x hx => h x (by simp [hx]))]

theorem escapeStr_length_le (bs : List Nat) : (escapeStr bs).length ≤ 5 * bs.length := by
  induction bs with
  | nil => simp [escapeStr]
  | cons c cs ih =>
    rw [escapeStr_cons, List.length_append, List.length_cons]
    have := (escapeChar_length c).2
    omega

/-- a store through `print_args` at or beyond the end of the buffer, with a non-zero `len` -/
theorem printArgs_oob {b : NB} (s : List Nat) (hp : cap ≤ b.pos) (hl : b.len ≠ 0) : (printArgs b s).oob = true := by
  have : cap ≤ b.pos + min s.length (b.len - 1) := by omega
  simp [printArgs, hl, this]

/-- the code before the repair, one string argument (not the NULL marker, no NUL byte inside, a length that
    fits the 16-bit length field): when the escaped string has 2044 bytes or more, the closing parenthesis is
    stored outside `spec_buf` -/
theorem argString_prefix_oob (asym : Bool) (bs : List Nat) (h0 : ∀ c ∈ bs, c ≠ 0) (hn : bs ≠ [255, 255, 255, 255])
    (hlen : bs.length ≤ 65535) (h : 2044 ≤ (escapeStr bs).length) :
    (argString false asym false [.str bs false]).oob = true := by
  have hA : ∀ (b : NB) (s : List Nat), pA false b s = printArgs b s := fun _ _ => rfl
  have e1 : argString false asym false [.str bs false] =
      printArgs (printArgs (nameLoop false (printArgs (printArgs sbInit [40]) [92, 34]) bs) [92, 34]) [41] := by
    simp only [argString, Bool.false_eq_true, ↓reduceIte, argLoop, argPiece, hn, cstr_id bs h0, foldl_pE_false, hA,
      or_false, ite_self]
  rw [e1]
  have hi0 : PInv (printArgs (printArgs sbInit [40]) [92, 34]) :=
    printArgs_pinv _ (printArgs_pinv _ (by unfold PInv sbInit cap; decide))
  have hi := printArgs_pinv [92, 34] (nameLoop_false_pinv bs _ hi0)
  have hpos : (printArgs (nameLoop false (printArgs (printArgs sbInit [40]) [92, 34]) bs) [92, 34]).pos =
      5 + (escapeStr bs).length := by
    rw [printArgs_pos, nameLoop_false_pos, printArgs_pos, printArgs_pos]
    simp [sbInit]; omega
  have hle := escapeStr_length_le bs
  apply printArgs_oob
  · rw [hpos]; simp only [cap]; omega
  · intro hz
    unfold PInv at hi
    rw [hz, hpos] at hi
    omega

end Uft.Json
