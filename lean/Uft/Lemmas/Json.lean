import Uft.Model.Json
/- Helper lemmas for C15 (escaping, name buffer, the JSON automaton). -/
namespace Uft.Json

/-! ## string bodies -/

theorem bodyRun_append (m : SMode) (a b : List Nat) :
    bodyRun m (a ++ b) = (bodyRun m a).bind (fun m' => bodyRun m' b) := by
  induction a generalizing m with
  | nil => simp [bodyRun]
  | cons c cs ih =>
    simp only [List.cons_append, bodyRun]
    cases h : strStep m c with
    | none => simp
    | some r => cases r with
      | close => simp
      | cont m' => simp [ih]

theorem bodyRun_trans {m m1 m2 : SMode} {a b : List Nat}
    (h1 : bodyRun m a = some m1) (h2 : bodyRun m1 b = some m2) : bodyRun m (a ++ b) = some m2 := by
  rw [bodyRun_append, h1]; simpa using h2

/-- a byte that is copied as it is -/
def plain (c : Nat) : Prop := 32 ≤ c ∧ c ≤ 126 ∧ c ≠ 34 ∧ c ≠ 92

theorem strStep_plain {c : Nat} (h : plain c) : strStep .normal c = some (.cont .normal) := by
  obtain ⟨h1, h2, h3, h4⟩ := h
  simp only [strStep, h3, h4, ↓reduceIte]
  have : ¬(c < 32 ∨ 127 < c) := by omega
  simp [this]

theorem bodyRun_plain {l : List Nat} (h : ∀ c ∈ l, plain c) : bodyRun .normal l = some .normal := by
  induction l with
  | nil => rfl
  | cons c cs ih =>
    simp only [bodyRun, strStep_plain (h c (by simp))]
    exact ih (fun x hx => h x (by simp [hx]))

theorem hexDigit_plain {n : Nat} (h : n < 16) : plain (hexDigit n) := by
  unfold plain hexDigit; split <;> omega

theorem escapeChar_body (c : Nat) : bodyRun .normal (escapeChar c) = some .normal := by
  unfold escapeChar
  split
  · decide
  · split
    · decide
    · split
      · decide
      · split
        · decide
        · split
          · rename_i h1 h2 h3 h4 h5
            have hp : plain c := by
              simp only [isPrint, Bool.and_eq_true, decide_eq_true_eq] at h5
              exact ⟨h5.1, h5.2, h4, h3⟩
            exact bodyRun_plain (by simpa using hp)
          · have h1 : plain (hexDigit (c / 16 % 16)) := hexDigit_plain (by omega)
            have h2 : plain (hexDigit (c % 16)) := hexDigit_plain (by omega)
            simp only [bodyRun]
            have e1 : strStep .normal 92 = some (.cont .esc) := by decide
            have e2 : strStep .esc 92 = some (.cont .normal) := by decide
            have e3 : strStep .normal 120 = some (.cont .normal) := by decide
            simp only [e1, e2, e3, strStep_plain h1, strStep_plain h2]

theorem escapeStr_body (bs : List Nat) : bodyRun .normal (escapeStr bs) = some .normal := by
  induction bs with
  | nil => rfl
  | cons c cs ih =>
    simp only [escapeStr, List.flatMap_cons] at *
    exact bodyRun_trans (escapeChar_body c) ih

theorem escapeStr_append (a b : List Nat) : escapeStr (a ++ b) = escapeStr a ++ escapeStr b := by
  simp [escapeStr]

theorem escCmdline_body : ∀ bs : List Nat, bodyRun .normal (escCmdline bs) = some .normal
  | [] => rfl
  | [c] => escapeChar_body c
  | c :: d :: r => by
    unfold escCmdline
    split
    · have e1 : strStep .normal 92 = some (.cont .esc) := by decide
      have e2 : strStep .esc 34 = some (.cont .normal) := by decide
      simp only [bodyRun, e1, e2]
      exact escCmdline_body r
    · exact bodyRun_trans (escapeChar_body c) (escCmdline_body (d :: r))

theorem escapeChar_length (c : Nat) : 1 ≤ (escapeChar c).length ∧ (escapeChar c).length ≤ 5 := by
  unfold escapeChar; repeat' split
  all_goals simp

theorem escapeChar_viaChar {c : Nat} (h : viaChar c = true) : escapeChar c = [c] := by
  simp only [viaChar, Bool.and_eq_true, bne_iff_ne, ne_eq] at h
  obtain ⟨⟨h1, h2⟩, h3⟩ := h
  have h4 : c ≠ 10 := by
    intro e; subst e; simp [isPrint] at h1
  have h5 : c ≠ 9 := by
    intro e; subst e; simp [isPrint] at h1
  simp [escapeChar, h1, h2, h3, h4, h5]

/-! ## decimal numbers -/

theorem digit_plain (n : Nat) : plain (digit n) := by
  simp only [plain, digit]; omega

theorem digit_isDigit (n : Nat) : isDigit (digit n) = true := by
  have h : 48 + n % 10 ≤ 57 := by omega
  simp [isDigit, digit, h]

theorem decF_plain : ∀ f n, ∀ c ∈ decF f n, plain c
  | 0, _ => by simp [decF]
  | f + 1, n => by
    intro c hc
    unfold decF at hc
    split at hc
    · simp at hc; subst hc; exact digit_plain n
    · simp only [List.mem_append, List.mem_cons, List.not_mem_nil, or_false] at hc
      rcases hc with hc | hc
      · exact decF_plain f (n / 10) c hc
      · subst hc; exact digit_plain n

theorem dec_body (n : Nat) : bodyRun .normal (dec n) = some .normal :=
  bodyRun_plain (decF_plain _ _)

/-! ## the automaton -/

theorem run_append (s : St) (a b : List Nat) :
    run s (a ++ b) = (run s a).bind (fun s' => run s' b) := by
  induction a generalizing s with
  | nil => simp [run]
  | cons c cs ih =>
    simp only [List.cons_append, run]
    cases step s c with
    | none => simp
    | some s' => simp [ih]

theorem run_trans {s t u : St} {a b : List Nat} (h1 : run s a = some t) (h2 : run t b = some u) :
    run s (a ++ b) = some u := by
  rw [run_append, h1]; simpa using h2

/-- inside a string the automaton follows `bodyRun` and leaves the stack alone -/
theorem run_body {k : Bool} {m m' : SMode} {stk : List Ctx} {bs : List Nat}
    (h : bodyRun m bs = some m') : run ⟨.str k m, stk⟩ bs = some ⟨.str k m', stk⟩ := by
  induction bs generalizing m with
  | nil => simp [bodyRun] at h; subst h; rfl
  | cons c cs ih =>
    simp only [bodyRun] at h
    cases hs : strStep m c with
    | none => simp [hs] at h
    | some r =>
      cases r with
      | close => simp [hs] at h
      | cont m1 =>
        simp only [hs] at h
        simp only [run, step, hs]
        exact ih h

theorem decF_run_val : ∀ f n, n < f → ∀ stk,
    run ⟨.val, stk⟩ (decF f n) = some ⟨if n = 0 then .zero else .int, stk⟩
  | 0, n, h, _ => by omega
  | f + 1, n, h, stk => by
    unfold decF
    split
    · rename_i h10
      by_cases h0 : n = 0
      · subst h0; rfl
      · have hd : digit n ≠ 48 := by unfold digit; omega
        have hw : isWs (digit n) = false := by
          simp only [isWs, digit, Bool.or_eq_false_iff, beq_eq_false_iff_ne, ne_eq]; omega
        have h1 : digit n ≠ 34 ∧ digit n ≠ 123 ∧ digit n ≠ 91 ∧ digit n ≠ 45 := by unfold digit; omega
        simp [run, step, startValue, hw, hd, h1, digit_isDigit, h0]
    · rename_i h10
      have hlt : n / 10 < f := by omega
      have hne : n / 10 ≠ 0 := by omega
      have hn0 : n ≠ 0 := by omega
      refine run_trans (decF_run_val f (n / 10) hlt stk) ?_
      simp [hne, hn0, run, step, digit_isDigit]

theorem dec_run_val (n : Nat) (stk : List Ctx) :
    run ⟨.val, stk⟩ (dec n) = some ⟨if n = 0 then .zero else .int, stk⟩ :=
  decF_run_val (n + 1) n (by omega) stk

theorem tsText_run_val (t : Nat) (stk : List Ctx) : run ⟨.val, stk⟩ (tsText t) = some ⟨.frac, stk⟩ := by
  unfold tsText pad3
  refine run_trans (t := ⟨.dot, stk⟩) (run_trans (dec_run_val _ stk) ?_) ?_
  · split <;> rfl
  · simp [run, step, digit_isDigit]

end Uft.Json
