/- C06: lemmas about the replay model with the fix-ups (`replayX`): the name classification,
   one step unfolded, the fix-up-free stream (= `replay`), leaf folding. Core only. -/
import Uft.Lemmas.ReplayTree
namespace Uft.Replay
open Uft.Merge

/-! ### the name classification -/

theorem strstr_iff_infix (h n : List Char) : strstr h n = true ↔ n <:+: h := by
  induction h with
  | nil =>
    simp only [strstr, List.isEmpty_iff]
    constructor
    · intro e; subst e; exact List.infix_refl _
    · intro e; exact List.eq_nil_of_infix_nil e
  | cons c cs ih =>
    simp only [strstr, Bool.or_eq_true, List.isPrefixOf_iff_prefix, ih]
    constructor
    · rintro (hp | hi)
      · exact hp.isInfix
      · exact hi.trans (List.infix_cons (List.infix_refl _))
    · intro hi
      rcases List.infix_cons_iff.1 hi with hp | hi'
      · exact Or.inl hp
      · exact Or.inr hi'

/-- what the property needs: the four families, name by name -/
def specClass (name : String) : Fix :=
  if ["execl", "execlp", "execle", "execv", "execve", "execvp", "execvpe"].contains name then .exec
  else if ["setjmp", "_setjmp", "sigsetjmp", "__sigsetjmp"].contains name then .setjmp
  else if ["longjmp", "siglongjmp", "__longjmp_chk", "_longjmp"].contains name then .longjmp
  else if ["fork", "vfork", "daemon", "posix.fork"].contains name then .fork
  else .none

theorem classifyName_eq_spec (name : String) : classifyName name = specClass name := by
  unfold classifyName
  by_cases h : fixupSyms.contains name = true
  · rw [if_pos h]
    have hm : name ∈ fixupSyms := by simpa using h
    simp only [fixupSyms, List.mem_cons, List.not_mem_nil, or_false] at hm
    rcases hm with h | h | h | h | h | h | h | h | h | h | h | h | h | h | h | h | h | h | h <;> subst h <;> decide
  · rw [if_neg h]
    have hm : name ∉ fixupSyms := by simpa using h
    simp only [fixupSyms, List.mem_cons, List.not_mem_nil, or_false, not_or] at hm
    obtain ⟨h1, h2, h3, h4, h5, h6, h7, h8, h9, h10, h11, h12, h13, h14, h15, h16, h17, h18, h19⟩ := hm
    simp [specClass, h1, h2, h3, h4, h5, h6, h7, h8, h9, h10, h11, h12, h13, h14, h15, h16, h17, h18, h19]

/-! ### one step of `replayX`, unfolded -/

theorem replayX_cons_exit {fx : Fixes} {cls : Nat → Fix} {b : Bool} {w : W} {i : Nat} {r : Rec}
    (rest : List (Nat × Rec)) (h : r.exit = true) :
    replayX fx cls b w ((i, r) :: rest) =
      ((replayX fx cls b (exitW w i (consumeX fx w i r)) rest).1,
       exitEv i (consumeX fx w i r) r :: (replayX fx cls b (exitW w i (consumeX fx w i r)) rest).2) := by
  cases rest with
  | nil => simp [replayX, h]
  | cons p rest => obtain ⟨j, x⟩ := p; simp [replayX, h]

theorem replayX_cons_entry {fx : Fixes} {cls : Nat → Fix} {b : Bool} {w : W} {i : Nat} {r : Rec}
    (rest : List (Nat × Rec)) (h : r.exit = false)
    (hn : b = false ∨ jumps cls r.addr = true ∨ rest = [] ∨
      ∃ j x rest', rest = (j, x) :: rest' ∧ foldsWith i r j x = false) :
    replayX fx cls b w ((i, r) :: rest) =
      ((replayX fx cls b (entryW cls w i (consumeX fx w i r) r) rest).1,
       entryEv i (consumeX fx w i r) r :: (replayX fx cls b (entryW cls w i (consumeX fx w i r) r) rest).2) := by
  cases rest with
  | nil => simp [replayX, h]
  | cons p rest =>
    obtain ⟨j, x⟩ := p
    rcases hn with hb | hj | hr | ⟨j', x', rest', he, hf⟩
    · simp [replayX, h, hb]
    · simp [replayX, h, hj]
    · simp at hr
    · simp only [List.cons.injEq, Prod.mk.injEq] at he
      obtain ⟨⟨rfl, rfl⟩, rfl⟩ := he
      simp [replayX, h, hf]

theorem replayX_cons_leaf {fx : Fixes} {cls : Nat → Fix} {w : W} {i : Nat} {r : Rec} {j : Nat} {x : Rec}
    (rest : List (Nat × Rec)) (h : r.exit = false) (hj : jumps cls r.addr = false) (hf : foldsWith i r j x = true) :
    replayX fx cls true w ((i, r) :: (j, x) :: rest) =
      ((replayX fx cls true (leafW cls w i (consumeX fx w i r) (consume 0 (consumeX fx w i r) x) r) rest).1,
       leafEv i (consumeX fx w i r) (consume 0 (consumeX fx w i r) x) r ::
         (replayX fx cls true (leafW cls w i (consumeX fx w i r) (consume 0 (consumeX fx w i r) x) r) rest).2) := by
  simp [replayX, h, hf, hj]

/-- `--no-merge`: every record is one step -/
def stepX (fx : Fixes) (cls : Nat → Fix) (w : W) (i : Nat) (r : Rec) : W × Ev :=
  if r.exit then (exitW w i (consumeX fx w i r), exitEv i (consumeX fx w i r) r)
  else (entryW cls w i (consumeX fx w i r) r, entryEv i (consumeX fx w i r) r)

theorem replayX_false_cons (fx : Fixes) (cls : Nat → Fix) (w : W) (i : Nat) (r : Rec) (rest : List (Nat × Rec)) :
    replayX fx cls false w ((i, r) :: rest) =
      ((replayX fx cls false (stepX fx cls w i r).1 rest).1,
       (stepX fx cls w i r).2 :: (replayX fx cls false (stepX fx cls w i r).1 rest).2) := by
  by_cases h : r.exit = true
  · rw [replayX_cons_exit rest h]; simp [stepX, h]
  · have h : r.exit = false := by simpa using h
    rw [replayX_cons_entry rest h (Or.inl rfl)]; simp [stepX, h]

/-! ### a stream without exec/longjmp entries, code without the repairs: `replayX` is `replay` -/

theorem jumps_false_iff {cls : Nat → Fix} {a : Nat} :
    jumps cls a = false ↔ cls a ≠ .exec ∧ cls a ≠ .longjmp := by
  simp [jumps]

theorem entryStateX_plain {cls : Nat → Fix} {w : W} {s : TaskSt} {r : Rec} (h : jumps cls r.addr = false) :
    entryStateX cls w s r = entryState (isForkOf cls) s r := by
  obtain ⟨h1, h2⟩ := jumps_false_iff.1 h
  unfold entryStateX
  split <;> simp_all

theorem noteW_g (cls : Nat → Fix) (w : W) (i : Nat) (s : TaskSt) (r : Rec) : (noteW cls w i s r).g = w.g := by
  unfold noteW; split <;> rfl

@[simp] theorem entryW_g (cls : Nat → Fix) (w : W) (i : Nat) (s : TaskSt) (r : Rec) :
    (entryW cls w i s r).g = upd w.g i (entryStateX cls w s r) := rfl
@[simp] theorem exitW_g (w : W) (i : Nat) (s : TaskSt) : (exitW w i s).g = upd w.g i (exitState s) := rfl
@[simp] theorem leafW_g (cls : Nat → Fix) (w : W) (i : Nat) (s s2 : TaskSt) (r : Rec) :
    (leafW cls w i s s2 r).g = upd w.g i (leafState (isForkOf cls) s s2 r) := rfl

theorem inhX_plain (w : W) (i : Nat) (r : Rec) : inhX {} w i r = inhOf w.g i := by
  unfold inhX inhOf
  cases (w.g i).parent with
  | none => simp
  | some p =>
    by_cases h : (w.g p).forkDisp = 0
    · simp [h]
    · simp [h]

theorem restoreX_plain (w : W) (i : Nat) (r : Rec) : restoreX {} w i r = w.g i := by
  unfold restoreX
  cases w.xp i with
  | none => rfl
  | some p => simp

theorem consumeX_plain (w : W) (i : Nat) (r : Rec) : consumeX {} w i r = consume (inhOf w.g i) (w.g i) r := by
  simp [consumeX, inhX_plain, restoreX_plain]

/-- no exec*/longjmp-family call in the stream (setjmp- and fork-family calls are allowed) -/
def JumpFree (cls : Nat → Fix) (m : List (Nat × Rec)) : Prop :=
  ∀ p ∈ m, p.2.exit = false → jumps cls p.2.addr = false

theorem replayX_plain (cls : Nat → Fix) (b : Bool) :
    ∀ (n : Nat) (m : List (Nat × Rec)), m.length ≤ n → ∀ w : W, JumpFree cls m →
      (replayX {} cls b w m).1.g = (replay b (isForkOf cls) w.g m).1 ∧
      (replayX {} cls b w m).2 = (replay b (isForkOf cls) w.g m).2 := by
  intro n
  induction n with
  | zero =>
    intro m hm w _
    have : m = [] := List.eq_nil_of_length_eq_zero (Nat.le_zero.1 hm)
    subst this
    simp [replayX, replay]
  | succ n ih =>
    intro m hm w hjf
    match m, hm, hjf with
    | [], _, _ => simp [replayX, replay]
    | (i, r) :: rest, hm, hjf =>
      have hlen : rest.length ≤ n := by simp at hm; omega
      have hjr : JumpFree cls rest := fun p hp => hjf p (List.mem_cons_of_mem _ hp)
      by_cases hx : r.exit = true
      · rw [replayX_cons_exit rest hx, replay_cons_exit rest hx, consumeX_plain]
        have := ih rest hlen (exitW w i (consume (inhOf w.g i) (w.g i) r)) hjr
        simp only [exitW_g] at this
        exact ⟨this.1, by rw [this.2]⟩
      · have hx : r.exit = false := by simpa using hx
        have hj : jumps cls r.addr = false := hjf (i, r) (by simp) hx
        match rest, hlen, hjr with
        | [], _, _ =>
          rw [replayX_cons_entry [] hx (Or.inr (Or.inr (Or.inl rfl))),
            replay_cons_entry [] hx (Or.inr (Or.inl rfl)), consumeX_plain]
          simp [replayX, replay, entryStateX_plain hj]
        | (j, x) :: rest', hlen, hjr =>
          by_cases hf : b = true ∧ foldsWith i r j x = true
          · obtain ⟨hb, hf⟩ := hf
            subst hb
            have hlen' : rest'.length ≤ n := by simp at hlen; omega
            have hjr' : JumpFree cls rest' := fun p hp => hjr p (List.mem_cons_of_mem _ hp)
            rw [replayX_cons_leaf rest' hx hj hf, replay_cons_leaf rest' hx hf, consumeX_plain]
            have := ih rest' hlen' (leafW cls w i (consume (inhOf w.g i) (w.g i) r)
              (consume 0 (consume (inhOf w.g i) (w.g i) r) x) r) hjr'
            simp only [leafW_g] at this
            exact ⟨this.1, by rw [this.2]⟩
          · have hn : b = false ∨ foldsWith i r j x = false := by
              cases b <;> simp_all
            rw [replayX_cons_entry ((j, x) :: rest') hx
                (hn.elim Or.inl (fun h => Or.inr (Or.inr (Or.inr ⟨j, x, rest', rfl, h⟩)))),
              replay_cons_entry ((j, x) :: rest') hx
                (hn.elim Or.inl (fun h => Or.inr (Or.inr ⟨j, x, rest', rfl, h⟩))), consumeX_plain]
            have := ih ((j, x) :: rest') hlen (entryW cls w i (consume (inhOf w.g i) (w.g i) r) r) hjr
            simp only [entryW_g, entryStateX_plain hj] at this
            exact ⟨this.1, by rw [this.2]⟩

/-! ### leaf folding is presentation, with the fix-ups -/

theorem noteW_xp_plain {cls : Nat → Fix} {w : W} {i : Nat} {s : TaskSt} {r : Rec} (h : jumps cls r.addr = false) :
    (noteW cls w i s r).xp = updO w.xp i none := by
  obtain ⟨h1, _⟩ := jumps_false_iff.1 h
  unfold noteW
  split <;> simp_all

theorem noteW_forked (cls : Nat → Fix) (w : W) (i : Nat) (s : TaskSt) (r : Rec) : (noteW cls w i s r).forked = w.forked := by
  unfold noteW; split <;> rfl

theorem updO_idem (f : Nat → Option (Nat × Nat)) (i : Nat) (a b : Option (Nat × Nat)) :
    updO (updO f i a) i b = updO f i b := by
  funext k; by_cases hk : k = i <;> simp [updO, hk]

theorem upd_idem (g : G) (i : Nat) (a b : TaskSt) : upd (upd g i a) i b = upd g i b := by
  funext k; by_cases hk : k = i <;> simp [upd, hk]

/-- ENTRY then EXIT, unfolded, leaves the reader where the folded leaf leaves it -/
theorem leafW_eq (fx : Fixes) (cls : Nat → Fix) (w : W) (j : Nat) (s : TaskSt) (r x : Rec)
    (hs : s.started = true) (hj : jumps cls r.addr = false) :
    exitW (entryW cls w j s r) j (consumeX fx (entryW cls w j s r) j x) = leafW cls w j s (consume 0 s x) r := by
  have hxp : (entryW cls w j s r).xp j = none := by
    simp [entryW, noteW_xp_plain hj, updO]
  have hre : restoreX fx (entryW cls w j s r) j x = entryState (isForkOf cls) s r := by
    simp [restoreX, hxp, entryStateX_plain hj]
  have hst : (entryState (isForkOf cls) s r).started = true := by simp [entryState, hs]
  have hc : consumeX fx (entryW cls w j s r) j x = consume 0 (entryState (isForkOf cls) s r) x := by
    rw [consumeX, hre, consume_of_started hst]
  rw [hc]
  have hl := leaf_state_eq (isForkOf cls) 0 s r x hs
  simp only [exitW, entryW, leafW, entryStateX_plain hj, upd_idem, hl, updO_idem, noteW_xp_plain hj]

theorem foldX_eq_nomerge (fx : Fixes) (cls : Nat → Fix) :
    ∀ (n : Nat) (m : List (Nat × Rec)), m.length ≤ n → ∀ w : W, PairsOK m →
      (replayX fx cls true w m).1 = (replayX fx cls false w m).1 ∧
      unfold (replayX fx cls true w m).2 = (replayX fx cls false w m).2 := by
  intro n
  induction n with
  | zero =>
    intro m hm w _
    have : m = [] := List.eq_nil_of_length_eq_zero (Nat.le_zero.1 hm)
    subst this
    simp [replayX, unfold]
  | succ n ih =>
    intro m hm w hok
    match m, hm, hok with
    | [], _, _ => simp [replayX, unfold]
    | (i, r) :: rest, hm, hok =>
      have hlen : rest.length ≤ n := by simp at hm; omega
      have hokr := pairsOK_tail hok
      by_cases hx : r.exit = true
      · rw [replayX_cons_exit rest hx, replayX_cons_exit rest hx]
        have := ih rest hlen (exitW w i (consumeX fx w i r)) hokr
        simp only [unfold, exitEv]
        exact ⟨this.1, by rw [this.2]⟩
      · have hx : r.exit = false := by simpa using hx
        rw [replayX_cons_entry (b := false) rest hx (Or.inl rfl)]
        match rest, hlen, hok, hokr with
        | [], _, _, _ =>
          rw [replayX_cons_entry (b := true) [] hx (Or.inr (Or.inr (Or.inl rfl)))]
          simp [replayX, unfold, entryEv]
        | (j, x) :: rest', hlen, hok, hokr =>
          by_cases hf : jumps cls r.addr = false ∧ foldsWith i r j x = true
          · -- folded
            obtain ⟨hjmp, hf⟩ := hf
            rw [replayX_cons_leaf rest' hx hjmp hf]
            have hj : (j = i ∧ x.depth = r.depth) ∧ x.exit = true := by
              simpa [foldsWith, Bool.and_eq_true] using hf
            obtain ⟨⟨rfl, hd⟩, hxe⟩ := hj
            obtain ⟨hok1, _⟩ := hok
            obtain ⟨haddr, htime⟩ := hok1 hx hf
            rw [replayX_cons_exit rest' hxe]
            have hlen' : rest'.length ≤ n := by simp at hlen; omega
            have hs1 : (consumeX fx w j r).started = true := rfl
            rw [leafW_eq fx cls w j (consumeX fx w j r) r x hs1 hjmp]
            have := ih rest' hlen' (leafW cls w j (consumeX fx w j r) (consume 0 (consumeX fx w j r) x) r)
              (pairsOK_tail hokr)
            refine ⟨this.1, ?_⟩
            simp only [unfold, leafEv]
            rw [this.2]
            obtain ⟨c, hc, hslot⟩ := consume_entry_top (inhX fx w j r) (restoreX fx w j r) hx
            have hxp : (entryW cls w j (consumeX fx w j r) r).xp j = none := by
              simp [entryW, noteW_xp_plain hjmp, updO]
            have hre : restoreX fx (entryW cls w j (consumeX fx w j r) r) j x =
                entryState (isForkOf cls) (consumeX fx w j r) r := by
              simp [restoreX, hxp, entryStateX_plain hjmp]
            have he := leaf_events_eq (isForkOf cls) j
              (inhX fx (entryW cls w j (consumeX fx w j r) r) j x)
              (consumeX fx w j r) r x c hs1 hc hslot hxe haddr htime
            have hcx : consumeX fx (entryW cls w j (consumeX fx w j r) r) j x =
                consume (inhX fx (entryW cls w j (consumeX fx w j r) r) j x)
                  (entryState (isForkOf cls) (consumeX fx w j r) r) x := by
              rw [consumeX, hre]
            rw [hcx, he.1, he.2]
            simp [leafEv]
          · have hn : jumps cls r.addr = true ∨ foldsWith i r j x = false := by
              cases h1 : jumps cls r.addr <;> cases h2 : foldsWith i r j x <;> simp_all
            rw [replayX_cons_entry (b := true) ((j, x) :: rest') hx
              (hn.elim (fun h => Or.inr (Or.inl h)) (fun h => Or.inr (Or.inr (Or.inr ⟨j, x, rest', rfl, h⟩))))]
            have := ih ((j, x) :: rest') hlen (entryW cls w i (consumeX fx w i r) r) hokr
            simp only [unfold, entryEv]
            exact ⟨this.1, by rw [this.2]⟩

end Uft.Replay
