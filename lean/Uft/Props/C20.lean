import Uft.Lemmas.DirGuard
/-
C20 — Recording never destroys data that is not a uftrace data directory.
Property theorems only (helpers are in Lemmas/DirGuard.lean).
`fs` is the parent directory; `d` is DIR, `old` is DIR.old.
-/
namespace Uft.DirGuard

/-- "foreign" as the property states it: exists, and is neither empty nor a
    previous uftrace data directory (a regular file is foreign). -/
def Foreign (fs : Ents) (d : String) : Prop :=
  (fs.get d).isSome = true ∧ canRemove (fs.get d) = false

instance (fs : Ents) (d : String) : Decidable (Foreign fs d) := by
  unfold Foreign; infer_instance

/-- C20 main statement: any other existing directory or file is left untouched
    and recording fails — for every file-system state and every fault
    schedule. -/
theorem c20_foreign_untouched (e : Env) (fs : Ents) (d old : String) (h : Foreign fs d) :
    (createDirectory e fs d old).fs = fs ∧ (createDirectory e fs d old).ok = false := by
  obtain ⟨hs, hc⟩ := h
  have hn : (fs.get d).isNone = false := by
    cases hg : fs.get d <;> simp_all
  simp [createDirectory, createDirectoryG, hc, mkdirPhase, hn]

/-- A regular file in place of DIR is never replaced. -/
theorem c20_file_never_replaced (e : Env) (fs : Ents) (d old : String) (b : List UInt8)
    (h : fs.get d = some (.file b)) :
    (createDirectory e fs d old).fs = fs ∧ (createDirectory e fs d old).ok = false :=
  c20_foreign_untouched e fs d old (by simp [Foreign, h, canRemove, isUftraceDir, isEmptyDir])

theorem mkdirPhase_get_other (fixed : Bool) (e : Env) (fs : Ents) {d x : String} (hd : x ≠ d) :
    (mkdirPhase fixed e fs d).fs.get x = fs.get x := by
  simp only [mkdirPhase]
  split <;> (try split) <;> (try split) <;> (try split) <;> (try split) <;>
    simp_all [get_set_ne _ _ hd]

theorem removeOld_get_other (e : Env) (fs : Ents) {old x : String} (ho : x ≠ old) :
    (removeOld e fs old).2.1.get x = fs.get x := by
  simp only [removeOld]
  split
  · split
    · split <;> simp_all [get_set_ne _ _ ho, get_erase_ne _ ho]
    · rfl
  · rfl

/-- A foreign DIR.old (non-empty non-uftrace directory, or a file) is never
    touched, and then an existing DIR is not replaced either. -/
theorem c20_foreign_old_untouched (e : Env) (fs : Ents) (d old : String) (hne : d ≠ old)
    (h : Foreign fs old) :
    (createDirectory e fs d old).fs.get old = fs.get old ∧
    ((fs.get d).isSome = true →
      (createDirectory e fs d old).fs = fs ∧ (createDirectory e fs d old).ok = false) := by
  obtain ⟨hs, hc⟩ := h
  have hno : old ≠ d := fun x => hne x.symm
  have hren : renameOk (fs.get old) = false := by
    cases ho : fs.get old with
    | none => simp [ho] at hs
    | some o =>
      cases o with
      | file b => rfl
      | link t => rfl
      | dir es =>
        cases es with
        | nil => simp [ho, canRemove, isEmptyDir, Ents.isNil] at hc
        | cons => rfl
  by_cases hd : canRemove (fs.get d) = true
  · simp [createDirectory, createDirectoryG, hd, removeOld, hc, renamePhase, hren]
  · have hd' : canRemove (fs.get d) = false := by simpa using hd
    constructor
    · simp only [createDirectory, createDirectoryG, hd', Bool.false_eq_true, ↓reduceIte]
      exact mkdirPhase_get_other true e fs hno
    · intro hsd
      exact c20_foreign_untouched e fs d old ⟨hsd, hd'⟩

/-- Nothing outside {DIR, DIR.old} is ever modified, whatever fails
    (both for the current code and for the pre-fix code). -/
theorem c20_others_untouched (fixed : Bool) (e : Env) (fs : Ents) (d old x : String)
    (hd : x ≠ d) (ho : x ≠ old) :
    (createDirectoryG fixed e fs d old).fs.get x = fs.get x := by
  simp only [createDirectoryG]
  split
  · split
    · exact removeOld_get_other e fs ho
    · split
      · exact removeOld_get_other e fs ho
      · rename_i e2 fs2 hr
        rw [mkdirPhase_get_other fixed _ _ hd]
        simp only [renamePhase] at hr
        split at hr
        · simp at hr
        · split at hr
          · simp at hr
          · simp only [Prod.mk.injEq, Option.some.injEq] at hr
            rw [← hr.2, get_set_ne _ _ ho, get_erase_ne _ hd]
            exact removeOld_get_other e fs ho
  · exact mkdirPhase_get_other fixed e fs hd


def NoFaults : Env := { faults := [] }

theorem removeOld_nofault (e : Env) (fs : Ents) (old : String) (h : e.faults = [])
    (hr : fs.get old = none ∨ canRemove (fs.get old) = true) :
    (removeOld e fs old).2.1.get old = none ∧ (removeOld e fs old).2.2 = true ∧
    (removeOld e fs old).1.faults = [] := by
  simp only [removeOld]
  rcases hr with hr | hr
  · simp [hr, canRemove, h]
  · simp only [hr, ↓reduceIte]
    cases ho : fs.get old with
    | none => simp [ho, h]
    | some o =>
      cases o with
      | file b => simp [ho, canRemove, isUftraceDir, isEmptyDir] at hr
      | link t => simp [ho, canRemove, isUftraceDir, isEmptyDir] at hr
      | dir es =>
        obtain ⟨h1, h2⟩ := rmNode_nofault (.dir es) e h
        obtain ⟨h3, h4⟩ := h1 es rfl
        simp [h3, h4, h2]

theorem mkdirPhase_fresh (fixed : Bool) (e : Env) (fs : Ents) (d : String) (he : e.faults = [])
    (hd : fs.get d = none) :
    (mkdirPhase fixed e fs d).ok = true ∧
    (mkdirPhase fixed e fs d).fs.get d = some (.dir (.cons "default.opts" defaultOpts .nil)) := by
  have t2 := tick_nofault e .mkdir he
  have t3 := tick_nofault (e.tick .mkdir).1 .fopen t2.2
  have h1 : (fs.set d (.dir .nil)).get d = some (.dir .nil) := get_set_eq _ _ _
  simp only [mkdirPhase, t2.1, hd, Option.isNone_none, Bool.not_false, Bool.and_self, ↓reduceIte,
    Bool.not_true, Bool.false_and, Bool.false_eq_true, h1, t3.1]
  simp [Ents.get, Ents.set, Ents.erase]

/-- Rotation: if DIR is empty or uftrace data, and DIR.old is absent or itself
    removable, a fault-free run succeeds, DIR is fresh (only `default.opts`),
    DIR.old is exactly the previous DIR. (Other names: `c20_others_untouched`.) -/
theorem c20_rotation (e : Env) (fs : Ents) (d old : String) (hne : d ≠ old)
    (he : e.faults = [])
    (hd : canRemove (fs.get d) = true)
    (ho : fs.get old = none ∨ canRemove (fs.get old) = true) :
    (createDirectory e fs d old).ok = true ∧
    (createDirectory e fs d old).fs.get old = fs.get d ∧
    (createDirectory e fs d old).fs.get d = some (.dir (.cons "default.opts" defaultOpts .nil)) := by
  obtain ⟨h1, h2, h3⟩ := removeOld_nofault e fs old he ho
  have hg : (removeOld e fs old).2.1.get d = fs.get d := removeOld_get_other e fs hne
  obtain ⟨n, hn⟩ : ∃ n, fs.get d = some n := by
    cases hx : fs.get d with
    | none => simp [hx, canRemove] at hd
    | some n => exact ⟨n, rfl⟩
  have t := tick_nofault (removeOld e fs old).1 .rename h3
  have hno : old ≠ d := fun x => hne x.symm
  have hdn : ((((removeOld e fs old).2.1).erase d).set old n).get d = none := by
    rw [get_set_ne _ _ hne]; simp
  have hf := mkdirPhase_fresh true ((removeOld e fs old).1.tick .rename).1
    ((((removeOld e fs old).2.1).erase d).set old n) d t.2 hdn
  have hoo := mkdirPhase_get_other true ((removeOld e fs old).1.tick .rename).1
    ((((removeOld e fs old).2.1).erase d).set old n) hno
  have hd' : canRemove (some n) = true := hn ▸ hd
  simp only [createDirectory, createDirectoryG, hd', ↓reduceIte, h2, Bool.not_true,
    Bool.false_eq_true, renamePhase, t.1, h1, renameOk, Bool.or_self, hg, hn]
  refine ⟨hf.1, ?_, hf.2⟩
  rw [hoo]; simp

/-- Live mode removes only the temporary directory it created itself
    (`mkstemp` hands out a name that does not exist): every other name keeps
    its content whatever fails, and without faults the temporary name is gone
    again. -/
theorem c20_live_removes_only_own (e : Env) (fs : Ents) (tmp : String) (filled : Ents)
    (hfresh : fs.get tmp = none) :
    (∀ x, x ≠ tmp → (liveRun e fs tmp filled).get x = fs.get x) ∧
    (e.faults = [] → (liveRun e fs tmp filled).get tmp = none) := by
  have hcr : createDirectory e fs tmp (tmp ++ ".old") = mkdirPhase true e fs tmp := by
    simp [createDirectory, createDirectoryG, hfresh, canRemove]
  constructor
  · intro x hx
    simp only [liveRun, hcr]
    have := mkdirPhase_get_other true e fs hx
    split
    · exact this
    · split <;> simp [get_set_ne _ _ hx, get_erase_ne _ hx, this]
  · intro he
    have hf := mkdirPhase_fresh true e fs tmp he hfresh
    have hfl : (mkdirPhase true e fs tmp).env.faults = [] := by
      simp [mkdirPhase]
      split <;> simp [tick_faults, he]
    obtain ⟨h1, _⟩ := rmNode_nofault (.dir filled) _ hfl
    obtain ⟨h3, _⟩ := h1 filled rfl
    simp only [liveRun, hcr, hf.1, Bool.not_true, Bool.false_eq_true, ↓reduceIte]
    split
    · simp
    · rename_i heq; rw [heq] at h3; simp at h3

/-- The whole record run (local or --host): a foreign DIR is untouched and the
    run fails, whatever the run would have written and whatever fails. -/
theorem c20_record_run_foreign_untouched (host : Bool) (e : Env) (fs : Ents) (d : String) (filled : Ents)
    (h : Foreign fs d) : recordRun host e fs d filled = (fs, false) := by
  obtain ⟨h1, h2⟩ := c20_foreign_untouched e fs d (d ++ ".old") h
  simp [recordRun, h1, h2]

/-! ### The finding (F1) as a theorem about the pre-fix code, and non-vacuity -/

/-- a foreign directory holding one user file -/
def fsUser : Ents := .cons "DIR" (.dir (.cons "precious.txt" (.file [1, 2, 3]) .nil)) .nil

example : Foreign fsUser "DIR" := by decide

/-- F1 witness: the code before the fix drops `default.opts` into a foreign
    directory although it reports failure … -/
theorem c20_prefix_default_opts_witness :
    Foreign fsUser "DIR" ∧
    (createDirectoryPreFix NoFaults fsUser "DIR" "DIR.old").ok = false ∧
    Ents.beq (createDirectoryPreFix NoFaults fsUser "DIR" "DIR.old").fs fsUser = false := by
  decide

/-- … and after that first failed run the directory counts as uftrace data, so
    four runs in total delete the user's file (pre-fix code). -/
theorem c20_prefix_data_loss_witness :
    let run := fun fs => (createDirectoryPreFix NoFaults fs "DIR" "DIR.old").fs
    let fs4 := run (run (run (run fsUser)))
    (match fs4.get "DIR" with | some (.dir es) => (es.get "precious.txt").isSome | _ => false) = false ∧
    (match fs4.get "DIR.old" with | some (.dir es) => (es.get "precious.txt").isSome | _ => false) = false := by
  decide

/-- the same four runs with the current code leave everything as it was -/
example :
    let run := fun fs => (createDirectory NoFaults fs "DIR" "DIR.old").fs
    Ents.beq (run (run (run (run fsUser)))) fsUser = true := by
  decide

/-- non-vacuity of `c20_rotation`: an old uftrace directory and an older one -/
def fsRot : Ents :=
  .cons "DIR" (.dir (.cons "info" (.file (magic ++ [9])) (.cons "1.dat" (.file [7]) .nil)))
  (.cons "DIR.old" (.dir (.cons "default.opts" (.file []) (.cons "sub" (.dir (.cons "x" (.file []) .nil)) .nil))) .nil)

example : canRemove (fsRot.get "DIR") = true ∧ canRemove (fsRot.get "DIR.old") = true := by decide

/-- non-vacuity of `c20_foreign_old_untouched` -/
example : Foreign (.cons "DIR.old" (.file [1]) fsRot) "DIR.old" := by decide

end Uft.DirGuard
