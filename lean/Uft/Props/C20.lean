import Uft.Lemmas.DirGuard
import Uft.Gen.DirCallers
/-
C20 — Recording never destroys data that is not a uftrace data directory.
Property theorems only (helpers are in Lemmas/DirGuard.lean).
`fs` is the parent directory; `d` is DIR, `old` is DIR.old.
-/
namespace Uft.DirGuard

/-- "foreign" as the property states it: exists, and is neither empty nor a
    previous uftrace data directory (a regular file is foreign). -/
def Foreign (fs : Ents) (d : String) : Prop :=
  (fs.get d).isSome = true ∧ canRemove (fs.get d) = false

instance (fs : Ents) (d : String) : Decidable (Foreign fs d) := by
  unfold Foreign; infer_instance

/-- C20 main statement: any other existing directory or file is left untouched
    and recording fails — for every file-system state and every fault
    schedule. -/
theorem c20_foreign_untouched (e : Env) (fs : Ents) (d old : String) (h : Foreign fs d) :
    (createDirectory e fs d old).fs = fs ∧ (createDirectory e fs d old).ok = false := by
  obtain ⟨hs, hc⟩ := h
  have hn : (fs.get d).isNone = false := by
    cases hg : fs.get d <;> simp_all
  simp [createDirectory, createDirectoryG, hc, mkdirPhase, hn]

/-- A regular file in place of DIR is never replaced. -/
theorem c20_file_never_replaced (e : Env) (fs : Ents) (d old : String) (b : List UInt8)
    (h : fs.get d = some (.file b)) :
    (createDirectory e fs d old).fs = fs ∧ (createDirectory e fs d old).ok = false :=
  c20_foreign_untouched e fs d old (by simp [Foreign, h, canRemove, isUftraceDir, isEmptyDir])

theorem mkdirPhase_get_other (fixed : Bool) (e : Env) (fs : Ents) {d x : String} (hd : x ≠ d) :
    (mkdirPhase fixed e fs d).fs.get x = fs.get x := by
  simp only [mkdirPhase]
  split <;> (try split) <;> (try split) <;> (try split) <;> (try split) <;>
    simp_all [get_set_ne _ _ hd]

theorem removeOld_get_other (e : Env) (fs : Ents) {old x : String} (ho : x ≠ old) :
    (removeOld e fs old).2.1.get x = fs.get x := by
  simp only [removeOld]
  split
  · split
    · split <;> simp_all [get_set_ne _ _ ho, get_erase_ne _ ho]
    · rfl
  · rfl

/-- A foreign DIR.old (non-empty non-uftrace directory, or a file) is never
    touched, and then an existing DIR is not replaced either. -/
theorem c20_foreign_old_untouched (e : Env) (fs : Ents) (d old : String) (hne : d ≠ old)
    (h : Foreign fs old) :
    (createDirectory e fs d old).fs.get old = fs.get old ∧
    ((fs.get d).isSome = true →
      (createDirectory e fs d old).fs = fs ∧ (createDirectory e fs d old).ok = false) := by
  obtain ⟨hs, hc⟩ := h
  have hno : old ≠ d := fun x => hne x.symm
  have hren : renameOk (fs.get old) = false := by
    cases ho : fs.get old with
    | none => simp [ho] at hs
    | some o =>
      cases o with
      | file b => rfl
      | link t => rfl
      | dir es =>
        cases es with
        | nil => simp [ho, canRemove, isEmptyDir, Ents.isNil] at hc
        | cons => rfl
  by_cases hd : canRemove (fs.get d) = true
  · simp [createDirectory, createDirectoryG, hd, removeOld, hc, renamePhase, hren]
  · have hd' : canRemove (fs.get d) = false := by simpa using hd
    constructor
    · simp only [createDirectory, createDirectoryG, hd', Bool.false_eq_true, ↓reduceIte]
      exact mkdirPhase_get_other true e fs hno
    · intro hsd
      exact c20_foreign_untouched e fs d old ⟨hsd, hd'⟩

/-- Nothing outside {DIR, DIR.old} is ever modified, whatever fails
    (both for the current code and for the pre-fix code). -/
theorem c20_others_untouched (fixed : Bool) (e : Env) (fs : Ents) (d old x : String)
    (hd : x ≠ d) (ho : x ≠ old) :
    (createDirectoryG fixed e fs d old).fs.get x = fs.get x := by
  simp only [createDirectoryG]
  split
  · split
    · exact removeOld_get_other e fs ho
    · split
      · exact removeOld_get_other e fs ho
      · rename_i e2 fs2 hr
        rw [mkdirPhase_get_other fixed _ _ hd]
        simp only [renamePhase] at hr
        split at hr
        · simp at hr
        · split at hr
          · simp at hr
          · simp only [Prod.mk.injEq, Option.some.injEq] at hr
            rw [← hr.2, get_set_ne _ _ ho, get_erase_ne _ hd]
            exact removeOld_get_other e fs ho
  · exact mkdirPhase_get_other fixed e fs hd


def NoFaults : Env := { faults := [] }

theorem removeOld_nofault (e : Env) (fs : Ents) (old : String) (h : e.faults = [])
    (hr : fs.get old = none ∨ canRemove (fs.get old) = true) :
    (removeOld e fs old).2.1.get old = none ∧ (removeOld e fs old).2.2 = true ∧
    (removeOld e fs old).1.faults = [] := by
  simp only [removeOld]
  rcases hr with hr | hr
  · simp [hr, canRemove, h]
  · simp only [hr, ↓reduceIte]
    cases ho : fs.get old with
    | none => simp [ho, h]
    | some o =>
      cases o with
      | file b => simp [ho, canRemove, isUftraceDir, isEmptyDir] at hr
      | link t => simp [ho, canRemove, isUftraceDir, isEmptyDir] at hr
      | dir es =>
        obtain ⟨h1, h2⟩ := rmNode_nofault (.dir es) e h
        obtain ⟨h3, h4⟩ := h1 es rfl
        simp [h3, h4, h2]

theorem mkdirPhase_fresh (fixed : Bool) (e : Env) (fs : Ents) (d : String) (he : e.faults = [])
    (hd : fs.get d = none) :
    (mkdirPhase fixed e fs d).ok = true ∧
    (mkdirPhase fixed e fs d).fs.get d = some (.dir (.cons "default.opts" defaultOpts .nil)) := by
  have t2 := tick_nofault e .mkdir he
  have t3 := tick_nofault (e.tick .mkdir).1 .fopen t2.2
  have h1 : (fs.set d (.dir .nil)).get d = some (.dir .nil) := get_set_eq _ _ _
  simp only [mkdirPhase, t2.1, hd, Option.isNone_none, Bool.not_false, Bool.and_self, ↓reduceIte,
    Bool.not_true, Bool.false_and, Bool.false_eq_true, h1, t3.1]
  simp [Ents.get, Ents.set, Ents.erase]

/-- Rotation: if DIR is empty or uftrace data, and DIR.old is absent or itself
    removable, a fault-free run succeeds, DIR is fresh (only `default.opts`),
    DIR.old is exactly the previous DIR. (Other names: `c20_others_untouched`.) -/
theorem c20_rotation (e : Env) (fs : Ents) (d old : String) (hne : d ≠ old)
    (he : e.faults = [])
    (hd : canRemove (fs.get d) = true)
    (ho : fs.get old = none ∨ canRemove (fs.get old) = true) :
    (createDirectory e fs d old).ok = true ∧
    (createDirectory e fs d old).fs.get old = fs.get d ∧
    (createDirectory e fs d old).fs.get d = some (.dir (.cons "default.opts" defaultOpts .nil)) := by
  obtain ⟨h1, h2, h3⟩ := removeOld_nofault e fs old he ho
  have hg : (removeOld e fs old).2.1.get d = fs.get d := removeOld_get_other e fs hne
  obtain ⟨n, hn⟩ : ∃ n, fs.get d = some n := by
    cases hx : fs.get d with
    | none => simp [hx, canRemove] at hd
    | some n => exact ⟨n, rfl⟩
  have t := tick_nofault (removeOld e fs old).1 .rename h3
  have hno : old ≠ d := fun x => hne x.symm
  have hdn : ((((removeOld e fs old).2.1).erase d).set old n).get d = none := by
    rw [get_set_ne _ _ hne]; simp
  have hf := mkdirPhase_fresh true ((removeOld e fs old).1.tick .rename).1
    ((((removeOld e fs old).2.1).erase d).set old n) d t.2 hdn
  have hoo := mkdirPhase_get_other true ((removeOld e fs old).1.tick .rename).1
    ((((removeOld e fs old).2.1).erase d).set old n) hno
  have hd' : canRemove (some n) = true := hn ▸ hd
  simp only [createDirectory, createDirectoryG, hd', ↓reduceIte, h2, Bool.not_true,
    Bool.false_eq_true, renamePhase, t.1, h1, renameOk, Bool.or_self, hg, hn]
  refine ⟨hf.1, ?_, hf.2⟩
  rw [hoo]; simp

/-- Live mode removes only the temporary directory it created itself
    (`mkstemp` hands out a name that does not exist): every other name keeps
    its content whatever fails, and without faults the temporary name is gone
    again. -/
theorem c20_live_removes_only_own (e : Env) (fs : Ents) (tmp : String) (filled : Ents)
    (hfresh : fs.get tmp = none) :
    (∀ x, x ≠ tmp → (liveRun e fs tmp filled).get x = fs.get x) ∧
    (e.faults = [] → (liveRun e fs tmp filled).get tmp = none) := by
  have hcr : createDirectory e fs tmp (tmp ++ ".old") = mkdirPhase true e fs tmp := by
    simp [createDirectory, createDirectoryG, hfresh, canRemove]
  constructor
  · intro x hx
    simp only [liveRun, hcr]
    have := mkdirPhase_get_other true e fs hx
    split
    · exact this
    · split <;> simp [get_set_ne _ _ hx, get_erase_ne _ hx, this]
  · intro he
    have hf := mkdirPhase_fresh true e fs tmp he hfresh
    have hfl : (mkdirPhase true e fs tmp).env.faults = [] := by
      simp [mkdirPhase]
      split <;> simp [tick_faults, he]
    obtain ⟨h1, _⟩ := rmNode_nofault (.dir filled) _ hfl
    obtain ⟨h3, _⟩ := h1 filled rfl
    simp only [liveRun, hcr, hf.1, Bool.not_true, Bool.false_eq_true, ↓reduceIte]
    split
    · simp
    · rename_i heq; rw [heq] at h3; simp at h3

/-- The whole record run (local or --host): a foreign DIR is untouched and the
    run fails, whatever the run would have written and whatever fails. -/
theorem c20_record_run_foreign_untouched (host : Bool) (e : Env) (fs : Ents) (d : String) (filled : Ents)
    (h : Foreign fs d) : recordRun host e fs d filled = (fs, false) := by
  obtain ⟨h1, h2⟩ := c20_foreign_untouched e fs d (d ++ ".old") h
  simp [recordRun, h1, h2]

/-! ### The finding (F1) as a theorem about the pre-fix code, and non-vacuity -/

/-- a foreign directory holding one user file -/
def fsUser : Ents := .cons "DIR" (.dir (.cons "precious.txt" (.file [1, 2, 3]) .nil)) .nil

example : Foreign fsUser "DIR" := by decide

/-- F1 witness: the code before the fix drops `default.opts` into a foreign
    directory although it reports failure … -/
theorem c20_prefix_default_opts_witness :
    Foreign fsUser "DIR" ∧
    (createDirectoryPreFix NoFaults fsUser "DIR" "DIR.old").ok = false ∧
    Ents.beq (createDirectoryPreFix NoFaults fsUser "DIR" "DIR.old").fs fsUser = false := by
  decide

/-- … and after that first failed run the directory counts as uftrace data, so
    four runs in total delete the user's file (pre-fix code). -/
theorem c20_prefix_data_loss_witness :
    let run := fun fs => (createDirectoryPreFix NoFaults fs "DIR" "DIR.old").fs
    let fs4 := run (run (run (run fsUser)))
    (match fs4.get "DIR" with | some (.dir es) => (es.get "precious.txt").isSome | _ => false) = false ∧
    (match fs4.get "DIR.old" with | some (.dir es) => (es.get "precious.txt").isSome | _ => false) = false := by
  decide

/-- the same four runs with the current code leave everything as it was -/
example :
    let run := fun fs => (createDirectory NoFaults fs "DIR" "DIR.old").fs
    Ents.beq (run (run (run (run fsUser)))) fsUser = true := by
  decide

/-- non-vacuity of `c20_rotation`: an old uftrace directory and an older one -/
def fsRot : Ents :=
  .cons "DIR" (.dir (.cons "info" (.file (magic ++ [9])) (.cons "1.dat" (.file [7]) .nil)))
  (.cons "DIR.old" (.dir (.cons "default.opts" (.file []) (.cons "sub" (.dir (.cons "x" (.file []) .nil)) .nil))) .nil)

example : canRemove (fsRot.get "DIR") = true ∧ canRemove (fsRot.get "DIR.old") = true := by decide

/-- non-vacuity of `c20_foreign_old_untouched` -/
example : Foreign (.cons "DIR.old" (.file [1]) fsRot) "DIR.old" := by decide

/-! ### Every entry point (commands that create or remove a data directory) -/

theorem ne_append_old (s : String) : s ≠ s ++ ".old" := by
  intro h
  have := congrArg String.length h
  simp [String.length_append] at this

theorem foreign_congr {fs fs' : Ents} {x : String} (h : fs'.get x = fs.get x) : Foreign fs' x ↔ Foreign fs x := by
  simp [Foreign, h]

theorem removeDir_get_other (e : Env) (fs : Ents) {n x : String} (h : x ≠ n) :
    (removeDir e fs n).2.get x = fs.get x := by
  simp only [removeDir]
  split
  · split <;> simp [get_erase_ne _ h, get_set_ne _ _ h]
  · rfl

/-- `create_directory(d)` (current code), seen from a name `x` that is foreign before the call:
    whatever the result, `x` keeps its content -/
theorem createDirectory_keeps_foreign (e : Env) (fs : Ents) (d x : String) (hx : Foreign fs x) :
    (createDirectory e fs d (d ++ ".old")).fs.get x = fs.get x := by
  by_cases h1 : x = d
  · subst h1
    rw [(c20_foreign_untouched e fs x (x ++ ".old") hx).1]
  · by_cases h2 : x = d ++ ".old"
    · subst h2
      exact (c20_foreign_old_untouched e fs d (d ++ ".old") (ne_append_old d) hx).1
    · exact c20_others_untouched true e fs d (d ++ ".old") x h1 h2

/-- one event keeps the invariant: the names that were foreign at the start still hold what they
    held, and no owned path names one of them -/
theorem stepEv_inv (ρ : String → String) (filled : String → Ents) (fs0 : Ents) (owned : List String)
    (st st' : Env × Ents) (ev : DEv)
    (hI : ∀ x, Foreign fs0 x → st.2.get x = fs0.get x)
    (hO : ∀ p ∈ owned, ¬ Foreign fs0 (ρ p))
    (hg : guardedFrom owned [ev] = true)
    (hs : stepEv ρ filled st ev = some st') :
    (∀ x, Foreign fs0 x → st'.2.get x = fs0.get x) ∧
    (∀ p ∈ (match ev with | .fresh q => q :: owned | .createOk q => q :: owned | _ => owned),
        ¬ Foreign fs0 (ρ p)) := by
  cases ev with
  | fresh p =>
    simp only [stepEv] at hs
    split at hs
    · rename_i hn
      cases hs
      refine ⟨hI, ?_⟩
      intro q hq
      simp only [List.mem_cons] at hq
      rcases hq with rfl | hq
      · intro hf
        have := hI _ hf
        rw [this] at hn
        simp [Foreign] at hf
        cases hg0 : fs0.get (ρ q) <;> simp_all
      · exact hO q hq
    · cases hs
  | createOk p =>
    simp only [stepEv] at hs
    split at hs
    · rename_i hok
      cases hs
      have hnf : ¬ Foreign fs0 (ρ p) := by
        intro hf
        have hf' : Foreign st.2 (ρ p) := (foreign_congr (hI _ hf)).2 hf
        have := (c20_foreign_untouched st.1 st.2 (ρ p) (ρ p ++ ".old") hf').2
        simp [this] at hok
      refine ⟨?_, ?_⟩
      · intro x hx
        have hne : x ≠ ρ p := fun h => hnf (h ▸ hx)
        have hx' : Foreign st.2 x := (foreign_congr (hI _ hx)).2 hx
        simp only
        rw [get_set_ne _ _ hne, createDirectory_keeps_foreign st.1 st.2 (ρ p) x hx', hI x hx]
      · intro q hq
        simp only [List.mem_cons] at hq
        rcases hq with rfl | hq
        · exact hnf
        · exact hO q hq
    · cases hs
  | createFail p =>
    simp only [stepEv] at hs
    split at hs
    · cases hs
    · cases hs
      refine ⟨?_, hO⟩
      intro x hx
      have hx' : Foreign st.2 x := (foreign_congr (hI _ hx)).2 hx
      simp only
      rw [createDirectory_keeps_foreign st.1 st.2 (ρ p) x hx', hI x hx]
  | remove p =>
    simp only [stepEv, Option.some.injEq] at hs
    subst hs
    have hp : p ∈ owned := by
      simp only [guardedFrom, Bool.and_true, List.contains_iff_mem] at hg
      exact hg
    refine ⟨?_, hO⟩
    intro x hx
    have hne : x ≠ ρ p := fun h => hO p hp (h ▸ hx)
    rw [removeDir_get_other _ _ hne, hI x hx]

theorem guarded_trace_inv (ρ : String → String) (filled : String → Ents) (fs0 : Ents) :
    ∀ (tr : List DEv) (owned : List String) (st st' : Env × Ents),
      (∀ x, Foreign fs0 x → st.2.get x = fs0.get x) →
      (∀ p ∈ owned, ¬ Foreign fs0 (ρ p)) →
      guardedFrom owned tr = true → execTrace ρ filled st tr = some st' →
      ∀ x, Foreign fs0 x → st'.2.get x = fs0.get x
  | [], _, st, st', hI, _, _, hs => by
    simp only [execTrace, Option.some.injEq] at hs
    subst hs; exact hI
  | ev :: r, owned, st, st', hI, hO, hg, hs => by
    simp only [execTrace] at hs
    cases h1 : stepEv ρ filled st ev with
    | none => simp [h1] at hs
    | some st2 =>
      simp only [h1] at hs
      have hg1 : guardedFrom owned [ev] = true := by
        cases ev <;> simp_all [guardedFrom]
      have hstep := stepEv_inv ρ filled fs0 owned st st2 ev hI hO hg1 h1
      cases ev with
      | fresh p => exact guarded_trace_inv ρ filled fs0 r (p :: owned) st2 st' hstep.1 hstep.2 (by simpa [guardedFrom] using hg) hs
      | createOk p => exact guarded_trace_inv ρ filled fs0 r (p :: owned) st2 st' hstep.1 hstep.2 (by simpa [guardedFrom] using hg) hs
      | createFail p => exact guarded_trace_inv ρ filled fs0 r owned st2 st' hstep.1 hstep.2 (by simpa [guardedFrom] using hg) hs
      | remove p =>
        have : guardedFrom owned r = true := by
          simp only [guardedFrom, Bool.and_eq_true] at hg
          exact hg.2
        exact guarded_trace_inv ρ filled fs0 r owned st2 st' hstep.1 hstep.2 this hs

/-- C20 for a whole execution path of a command: if every `remove_directory(p)` on the path comes
    after a successful `create_directory(p)` (or a `mkstemp(p)` that showed the name to be free) of
    the same path, then — whatever the path names stand for, whatever the run records into the
    directories it made, whatever fails — every directory or file that was foreign when the command
    started holds exactly what it held. -/
theorem c20_guarded_trace_foreign_untouched (ρ : String → String) (filled : String → Ents) (e : Env) (fs0 : Ents)
    (tr : List DEv) (st' : Env × Ents) (hg : guarded tr = true)
    (hs : execTrace ρ filled (e, fs0) tr = some st') :
    ∀ x, Foreign fs0 x → st'.2.get x = fs0.get x :=
  guarded_trace_inv ρ filled fs0 tr [] (e, fs0) st' (fun _ _ => rfl) (fun _ h => by simp at h) hg hs

open Uft.Gen.DirCallers in
/-- The proof obligation on the code: every execution path of every command that can reach
    `create_directory` / `remove_directory` / `mkstemp` (the list is regenerated from cmds/*.c on
    every run) is guarded.  A new `remove_directory(p)` that is not dominated by a successful
    `create_directory(p)` of the same path makes this fail. -/
theorem c20_every_entry_point_guards : ∀ ep ∈ entryPoints, ep.guards = true := by
  decide

open Uft.Gen.DirCallers in
/-- … hence C20's "any other existing directory or file is left untouched" for every command -/
theorem c20_entry_points_foreign_untouched (ep : EntryPoint) (hep : ep ∈ entryPoints) (tr : List DEv)
    (htr : tr ∈ ep.traces) (ρ : String → String) (filled : String → Ents) (e : Env) (fs0 : Ents)
    (st' : Env × Ents) (hs : execTrace ρ filled (e, fs0) tr = some st') :
    ∀ x, Foreign fs0 x → st'.2.get x = fs0.get x := by
  have h := c20_every_entry_point_guards ep hep
  simp only [EntryPoint.guards, List.all_eq_true] at h
  exact c20_guarded_trace_foreign_untouched ρ filled e fs0 tr st' (h tr htr) hs

open Uft.Gen.DirCallers in
/-- the commands the end-to-end part of the check drives against pre-populated directories are
    exactly the ones that can create or remove a data directory -/
theorem c20_entry_points_covered_by_e2e :
    entryPoints.map (·.name) = ["command_live", "command_record", "command_recv", "command_script"] := by
  decide

/-- the unlink/rmdir/rename/remove/system/nftw calls of cmds/*.c that have been looked at: the
    template file of live mode (`mkstemp` made it) and the FIFO inside the directory that
    `create_directory` has just made -/
def knownRaw : List (String × String × String) :=
  [("command_live", "unlink", "tmp_dirname"), ("command_record", "unlink", "channel")]

open Uft.Gen.DirCallers in
theorem c20_raw_calls_known : ∀ c ∈ rawCalls, c ∈ knownRaw := by decide

open Uft.Gen.DirCallers in
/-- nothing outside cmds/*.c (unit tests aside) creates or removes data directories -/
theorem c20_no_callers_outside_cmds : otherCallers = [] := by decide

/-- why the guard is needed (non-vacuity of `guarded`): the path "create_directory failed, clean
    up" is not guarded, it can happen on the user's directory of `fsUser`, and it deletes it -/
theorem c20_unguarded_remove_witness :
    guarded [.createFail "d", .remove "d"] = false ∧
    Foreign fsUser "DIR" ∧
    (match execTrace (fun _ => "DIR") (fun _ => .nil) (NoFaults, fsUser) [.createFail "d", .remove "d"] with
     | some st => (st.2.get "DIR").isNone
     | none => false) = true := by
  decide

/-- non-vacuity of `c20_guarded_trace_foreign_untouched`: a guarded path (live mode: fresh name,
    create, record, remove) that does happen next to the user's directory -/
example :
    guarded [.fresh "t", .createOk "t", .remove "t"] = true ∧
    (match execTrace (fun _ => "tmp") (fun _ => .cons "info" (.file magic) .nil) (NoFaults, fsUser)
        [.fresh "t", .createOk "t", .remove "t"] with
     | some st => Ents.beq st.2 fsUser
     | none => false) = true := by
  decide

end Uft.DirGuard
