import Uft.Lemmas.NonLocal
import Uft.Gen.PltTables
/-
C11 — Non-local control flow keeps shadow stack and real stack in step.
Property theorems only; the model is Uft/Model/NonLocal.lean, the invariants
(`Inv`/`InStep`, `TraceInv`), `WellFormedOp` and the per-op lemmas are in
Uft/Lemmas/NonLocal.lean.

All `c11_*` theorems without `prefix` are about the repaired code (`Fix.all`);
each `c11_prefix_*_witness` shows, for one finding, that the code as it is
(`Fix.none`, or the flag of that finding alone) breaks the statement.
-/
namespace Uft.NonLocal

/-! The statements are about the code as it is now (`Fix.current`, which is `Fix.all` once every
    libmcount finding of C11 is repaired; replay's longjmp fix-up is `replayCurrent`).  The proofs
    (`rep_*`) are in Uft/Lemmas/NonLocal.lean. -/

/-- Main invariant: whatever the program does next — call (hooked by mcount/fentry, through
    the PLT, or not at all; also from a landing pad), return, tail call, setjmp, longjmp to any
    live jmp_buf, throw, one step of unwinding, _Unwind_Resume, catch, pthread_exit, exit, the
    thread destructor, fork (either side), exec, vfork+exec — a machine that is in step stays in
    step.  (A signal handler is a `call` at an arbitrary point, see `c11_signal_transparent`.) -/
theorem c11_instep_invariant {m : M} {op : Op} (hi : InStep m) (hw : WellFormedOp m op)
    (hv : ∀ a b c d e, op ≠ .vforkExec a b c d e) : InStep (step Fix.current m op) :=
  rep_instep_invariant hi hw hv

/-- the same including vfork+exec (the hypothesis of `c11_instep_invariant` is not needed) -/
theorem c11_instep_invariant_all {m : M} {op : Op} (hi : InStep m) (hw : WellFormedOp m op) :
    InStep (step Fix.current m op) := by
  rcases hi with hh | hi
  · left; rw [step_halted _ hh]; exact hh
  · by_cases hv : ∀ a b c d e, op ≠ .vforkExec a b c d e
    · exact rep_instep_invariant (Or.inr hi) hw hv
    · cases op with
      | vforkExec a b c d e => right; exact (inv_vforkExec hi hw).1
      | _ => exact absurd (by intro a b c d e h; cases h) hv

/-- vfork + exec: the parent comes back from vfork to its caller although the child used the shared
    shadow stack in between (prepare_vfork / setup_vfork / restore_vfork) -/
theorem c11_vfork_returns {m : M} (hi : Inv m) {child slot orig echild eorig : Nat}
    (hw : WellFormedOp m (.vforkExec child slot orig echild eorig)) :
    (step Fix.current m (.vforkExec child slot orig echild eorig)).last = orig := rep_vfork_returns hi hw

/-- fork: both the parent and the child (which runs on a copy of the shadow stack) stay in step and
    come back from fork to the caller -/
theorem c11_fork_both_sides {m : M} (hi : Inv m) {inChild : Bool} {child slot orig : Nat}
    (hw : WellFormedOp m (.fork inChild child slot orig)) :
    Inv (step Fix.current m (.fork inChild child slot orig)) := (inv_fork hi hw).1

/-- the invariant is not vacuous: the initial machine is in step -/
example : Inv M.init := inv_init

/-- Under the invariant a return goes to the real caller: the program behaves as untraced.
    (Through a tail-call chain this takes one exit hook per chain element.) -/
theorem c11_every_return_reaches_caller {m : M} (hi : Inv m) (hw : WellFormedOp m .ret) {f : Frame} {fs : List Frame}
    (hf : m.fs = f :: fs) :
    (step Fix.current m .ret).last = f.orig ∧ (step Fix.current m .ret).fs = fs :=
  rep_every_return_reaches_caller hi hw hf

/-- longjmp lands behind the setjmp call of the target jmp_buf, with exactly the frames of
    that moment, and the shadow stack follows (by `c11_instep_invariant`) -/
theorem c11_longjmp_reaches_setjmp {m : M} (hi : Inv m) {j child slot orig : Nat}
    (hw : WellFormedOp m (.longjmp j child slot orig)) :
    ∃ jb, m.rjb.lookup j = some jb ∧ (step Fix.current m (.longjmp j child slot orig)).last = jb.sorig ∧
      (step Fix.current m (.longjmp j child slot orig)).fs = jb.frames :=
  rep_longjmp_reaches_setjmp hi hw

/-- setjmp itself returns to its caller -/
theorem c11_setjmp_returns {m : M} (hi : Inv m) {j child slot orig : Nat}
    (hw : WellFormedOp m (.setjmp j child slot orig)) :
    (step Fix.current m (.setjmp j child slot orig)).last = orig := rep_setjmp_returns hi hw

/-- While an exception is in flight every live return slot holds the real return address:
    the C++ unwinder, which walks the stack through these slots, sees the untraced stack. -/
theorem c11_unwinder_sees_real_addresses {m : M} (hi : Inv m) (hw : WellFormedOp m .throw) :
    ∀ f ∈ (step Fix.current m .throw).fs, (step Fix.current m .throw).sh.mem f.slot = f.orig :=
  rep_unwinder_sees_real_addresses hi hw

/-- The depth bookkeeping survives every non-terminal step: `record_idx` is the number of
    shadow entries and every entry's `depth` is the number of entries below it (also in every
    jmp_buf copy). -/
theorem c11_trace_depth_invariant {m : M} {op : Op} (hi : Inv m) (ht : TraceInv m.sh) (hw : WellFormedOp m op)
    (hnt : op.noDepthClaim = false) : TraceInv (step Fix.current m op).sh :=
  rep_trace_depth_invariant hi ht hw hnt

/-- After a longjmp or a catch (or any other non-terminal step that leaves no exception in
    flight) the depth counter is the true nesting depth — the number of hooked logical calls that
    are open on the real stack — and the depths stored in the shadow entries are
    n-1, …, 0; so the records of every later call (entryRec/exitRec copy `depth`) carry the true depth. -/
theorem c11_trace_depth_after_jump {m : M} {op : Op} (hi : Inv m) (ht : TraceInv m.sh) (hw : WellFormedOp m op)
    (hnt : op.noDepthClaim = false) (hx : (step Fix.current m op).sh.inExc = false) :
    (step Fix.current m op).sh.recIdx = logicalDepth (step Fix.current m op).fs ∧
    (step Fix.current m op).sh.rs.map Ent.depth = descFrom (logicalDepth (step Fix.current m op).fs) :=
  rep_trace_depth_after_jump hi ht hw hnt hx

/-- the entry pushed by a hooked call carries the true nesting depth -/
theorem c11_entry_depth_true {m : M} {k : Kind} {child slot orig fpw : Nat} (hi : Inv m) (ht : TraceInv m.sh)
    (hw : WellFormedOp m (.call k child slot orig fpw)) (hk : k ≠ .none) :
    ((step Fix.current m (.call k child slot orig fpw)).sh.rs.head?).map Ent.depth = some (logicalDepth m.fs) :=
  rep_entry_depth_true hi ht hw hk

/-- Replay (repaired fix-up): on every record stream that is locally coherent — which is how the
    shadow stack emits it: calls nest, returns close the innermost call, and the record after a
    longjmp ENTRY is the second EXIT of a setjmp whose ENTRY was seen at that depth — every record
    is displayed at its record depth, also after a longjmp to a jmp_buf that is not the latest. -/
theorem c11_replay_depth_coherent (l : List RRec) (h : coherent CSt.init l = true) :
    rrun true RSt.init l = l.map (·.depth) := rep_replay_depth_coherent l h

/-- Replay as it is (one global setjmp_depth, finding C11-LONGJMP-DEPTH open): the same holds on the
    coherent streams in which every longjmp goes to the jmp_buf armed last; the witness
    `c11_prefix_longjmp_depth_witness` shows that the hypothesis cannot be dropped. -/
theorem c11_replay_depth_asis_partial (l : List RRec) (h : coherent CSt.init l = true)
    (hl : latestOnly CSt.init l = true) : rrun replayCurrent RSt.init l = l.map (·.depth) :=
  rrun_asis l RSt.init CSt.init rinvA_init h hl

/-! ### whole histories: from the first instruction of the program -/

/-- Every history of well-formed steps from the initial machine (calls of any kind, returns, tail
    calls, setjmp/longjmp, throw/unwind/catch/resume, fork in the parent, exec, the thread destructor)
    keeps the machine in step with correct depth bookkeeping at every point. -/
theorem c11_history_in_step (ops : List Op) (h : History M.init ops) :
    Inv (run Fix.current M.init ops) ∧ TraceInv (run Fix.current M.init ops).sh := by
  obtain ⟨c', a1, a2, _, _⟩ := history_run ops M.init CSt.init inv_init traceInv_init streamInv_init h
  exact ⟨a1, a2⟩

/-- `History` is satisfiable: main is called and returns -/
example : History M.init [.call .mcount 0 60 1000 61, .ret] := by
  refine ⟨⟨by decide, by simp [M.init], by decide, by simp [M.init, Sh.init], by simp⟩, by simp [SymOk, okKind, symKind], ?_⟩
  refine ⟨⟨?_, ?_⟩, trivial, trivial⟩
  · simp [step, M.init]
  · simp [step, M.init, Sh.init, hookEntry, mcountEntry, pushHook]

/-- … and the records libmcount wrote for the task along such a history form a locally coherent
    stream (this is what links the hooks to replay's hypothesis) … -/
theorem c11_history_stream_coherent (ops : List Op) (h : History M.init ops) :
    coherent CSt.init (taskStream (run Fix.current M.init ops).sh.out) = true := by
  obtain ⟨c', _, _, a3, _⟩ := history_run ops M.init CSt.init inv_init traceInv_init streamInv_init h
  rw [coherent_iff_crun, a3.ok.run]; rfl

/-- … so the repaired replay shows every record of every such history at its recorded depth … -/
theorem c11_history_replay_depth (ops : List Op) (h : History M.init ops) :
    rrun true RSt.init (taskStream (run Fix.current M.init ops).sh.out) =
      (taskStream (run Fix.current M.init ops).sh.out).map (·.depth) :=
  rep_replay_depth_coherent _ (c11_history_stream_coherent ops h)

/-- … and replay as it is does on the histories whose longjmps go to the jmp_buf armed last. -/
theorem c11_history_replay_depth_asis_partial (ops : List Op) (h : History M.init ops)
    (hl : latestOnly CSt.init (taskStream (run Fix.current M.init ops).sh.out) = true) :
    rrun replayCurrent RSt.init (taskStream (run Fix.current M.init ops).sh.out) =
      (taskStream (run Fix.current M.init ops).sh.out).map (·.depth) :=
  c11_replay_depth_asis_partial _ (c11_history_stream_coherent ops h) hl

/-! ### signal handlers: a balanced history at an arbitrary point -/

/-- A balanced history inserted at any point (a signal handler interrupting traced code, itself
    traced or not, calling whatever it likes as long as everything returns) leaves the machine in
    step and the state unchanged: same frames, same shadow entries, same content of every live
    return slot, same depth counter, same jmp_buf copies. -/
theorem c11_signal_transparent {h : List Op} (hb : Balanced h) {m : M} (hi : Inv m) (hx : m.sh.inExc = false)
    (hw : WFRun m h) : Inv (run Fix.current m h) ∧ SameState m (run Fix.current m h) :=
  rep_signal_transparent hb hi hx hw

/-- the theorem is not vacuous: a handler calling a traced and a PLT function on top of main -/
example : Balanced [.call .mcount 5 20 3000 29, .call .plt 100 10 3001 0, .ret, .ret] :=
  Balanced.wrap (h1 := [.call .plt 100 10 3001 0, .ret]) (h2 := [])
    (Balanced.wrap (h1 := []) (h2 := []) Balanced.nil Balanced.nil) Balanced.nil

/-! ### witnesses: the code as it is -/

/-- C11-LONGJMP-DEPTH: main: setjmp(A); g: setjmp(B); h: longjmp(A); then main calls leaf.
    The stream is coherent, the unrepaired replay shows leaf at depth 2 instead of 1. -/
def ljStream : List RRec :=
  [⟨0, 0, .plain⟩, ⟨0, 1, .setjmp⟩, ⟨1, 1, .setjmp⟩, ⟨0, 1, .plain⟩, ⟨0, 2, .setjmp⟩, ⟨1, 2, .setjmp⟩,
   ⟨0, 2, .plain⟩, ⟨0, 3, .longjmp⟩, ⟨1, 1, .setjmp⟩, ⟨0, 1, .plain⟩]

theorem c11_prefix_longjmp_depth_witness :
    coherent CSt.init ljStream = true ∧ rrun false RSt.init ljStream ≠ ljStream.map (·.depth) ∧
    (rrun false RSt.init ljStream).getLast? = some 2 := by decide

/-- C11-JMPBUF-OVERFLOW: the copy is taken into an array of 1024 entries whatever --max-stack is -/
theorem c11_prefix_jmpbuf_overflow_witness (s : Sh) (a : Nat) (h : JMPBUF_CAP < s.rs.length) :
    (setupJmpbuf Fix.none s a).oob = true ∧ (setupJmpbuf Fix.all s a).oob = s.oob := by
  simp [setupJmpbuf, Fix.none, Fix.all, h]

/-- C11-REHOOK-ORDER: a PLT-called library function tail-calls a traced callback which catches an
    exception and returns: mcount_rstack_rehook (top→bottom) leaves plthook_return in the slot of
    the chain [PLT entry, mcount entry]; the return then pops a non-PLT entry in __plthook_exit
    ("invalid dynsym idx").  With the repaired order the callback returns to the library's caller. -/
def rehookOps : List Op :=
  [.call .mcount 0 60 1000 61, .call .plt 100 50 1001 0, .tailcall .mcount 1, .call .mcount 2 40 1002 49,
   .throw, .unwind, .catch_ 49, .ret]

theorem c11_prefix_rehook_order_witness :
    (run { Fix.all with rehook := false } M.init rehookOps).sh.dead = true ∧
    (run Fix.all M.init rehookOps).sh.dead = false ∧ (run Fix.all M.init rehookOps).last = 1001 := by decide

/-- C11-EXC-FRAME: with -mfentry `parent_loc[-1]` is no frame pointer; the fallback `parent_loc - 1`
    keeps the entry of the unwound callee (same slot), so the destructor called from the landing
    pad is recorded at depth 2 instead of 1. -/
def excFrameOps : List Op :=
  [.call .mcount 0 60 1000 61, .call .mcount 1 50 1001 0, .throw, .unwind, .call .mcount 2 50 1002 0]

theorem c11_prefix_exc_frame_witness :
    ((run { Fix.all with excFrame := false } M.init excFrameOps).sh.rs.head?).map Ent.depth = some 2 ∧
    ((run Fix.all M.init excFrameOps).sh.rs.head?).map Ent.depth = some 1 ∧
    logicalDepth (run Fix.all M.init excFrameOps).fs = 2 := by decide

/-- C11-PTHREAD-EXIT: after pthread_exit from a nested call the dead entries stay on the shadow
    stack; start_thread's next callee reuses the thread function's return slot and mtd_dtor's
    mcount_rstack_restore overwrites its return address (2000) with the dead frame's (1000). -/
def pthreadOps : List Op :=
  [.call .mcount 0 60 1000 61, .call .mcount 1 50 1001 59, .pthreadExit 106 45 1002, .call .none 0 60 2000 0,
   .mtdDtor, .ret]

theorem c11_prefix_pthread_exit_witness :
    (run { Fix.all with pthExit := false } M.init pthreadOps).last = 1000 ∧
    (run Fix.all M.init pthreadOps).last = 2000 := by decide

/-- C11-EXC-PLT: a landing pad calls a library function through the PLT (in_exception still set):
    its entry goes on top of the dead entry; the traced callback it calls pops both (frame address
    of the landing-pad function), and the library function's return finds a non-PLT entry. -/
def excPltOps : List Op :=
  [.call .mcount 0 60 1000 61, .call .mcount 1 50 1001 59, .throw, .unwind, .call .plt 100 50 1002 0,
   .call .mcount 2 40 1003 59, .ret, .ret]

theorem c11_prefix_exc_plt_witness :
    (run { Fix.all with excPlt := false } M.init excPltOps).sh.dead = true ∧
    (run Fix.all M.init excPltOps).sh.dead = false ∧ (run Fix.all M.init excPltOps).last = 1002 := by decide

/-! ### the special-function tables of libmcount/plthook.c

libmcount recognises setjmp, longjmp, vfork, the exception entry point, … BY NAME
(`setup_dynsym_indexes`).  `Uft.Gen.PltTables` is regenerated from libmcount/plthook.c, libmcount/wrap.c,
libmcount/internal.h and utils/fstack.c on every run (translators/c11_plttables.py); the theorems below
state over the regenerated lists what the model assumes (`Sym`, `Sym.flushes`) and what the property needs:
every entry point a program can bind for a jump is treated as a jump AND force-flushed (the ENTRY record
of the jump and of the abandoned callers is written before the jump discards them — "marks the jump"),
and replay's fix-up knows the name.  A table that loses a name breaks the theorem that names it. -/
namespace Tables
open Uft.Gen.PltTables

/-- what `__plthook_entry` does with a dynamic symbol of this name, in the order of the code: a skip
    symbol is left alone; then the else-if chain setjmp / longjmp / vfork / … / except acts on the first
    flag that is set; a symbol that is only in flush_syms is flushed -/
def symOfName (n : String) : Sym :=
  if skip_syms.contains n then .skip
  else if setjmp_syms.contains n then .setjmp
  else if longjmp_syms.contains n then .longjmp
  else if vfork_syms.contains n then .vfork
  else if except_syms.contains n then .except
  else if flush_syms.contains n then .flush
  else .plain

/-- every name in any of the tables -/
def allNames : List String :=
  skip_syms ++ setjmp_syms ++ longjmp_syms ++ vfork_syms ++ dlsym_syms ++ flush_syms ++ except_syms ++ resolve_syms

/-- the entry points glibc exports for a jump: longjmp, _longjmp (BSD), siglongjmp, and __longjmp_chk, which
    all three become under -D_FORTIFY_SOURCE with optimisation -/
def glibcJumpNames : List String := ["longjmp", "_longjmp", "siglongjmp", "__longjmp_chk"]
/-- the entry points for arming a jmp_buf: setjmp, _setjmp (what the setjmp macro calls), sigsetjmp,
    __sigsetjmp (what the sigsetjmp macro calls) -/
def glibcSetjmpNames : List String := ["setjmp", "_setjmp", "sigsetjmp", "__sigsetjmp"]
/-- finding C11-LONGJMP-ALIAS: names of `glibcJumpNames` that the tables of /repo lack as found -/
def jumpNamesMissingAsFound : List String := ["_longjmp"]
/-- calls that end the process image, start a second one, or come back twice: the pending records must
    be written before them -/
def noReturnNames : List String :=
  ["fork", "vfork", "daemon", "exit", "execl", "execlp", "execle", "execv", "execve", "execvp", "execvpe",
   "fexecve", "posix_spawn", "posix_spawnp"]
/-- the exception entry points libmcount interposes itself (libmcount/wrap.c) -/
def exceptionWrappers : List String :=
  ["__cxa_throw", "__cxa_rethrow", "_Unwind_Resume", "__cxa_begin_catch", "__cxa_end_catch"]

/-- is the table set complete for the jumps (the full statement; false while C11-LONGJMP-ALIAS is open)?
    checks/c11.py reads it through its own copy of the lists and confirms it on the implementation. -/
def jumpNamesComplete : Bool := glibcJumpNames.all fun n => longjmp_syms.contains n && flush_syms.contains n
end Tables

open Uft.Gen.PltTables Tables in
/-- **Every symbol that is treated as a longjmp is force-flushed**: its ENTRY record and the ENTRY records
    of the callers it abandons are written before the jump (this is the model's `Sym.longjmp.flushes`). -/
theorem c11_tables_longjmp_flushed : ∀ n ∈ longjmp_syms, n ∈ flush_syms := by decide

open Uft.Gen.PltTables Tables in
/-- … and so is vfork (the child runs on the parent's shadow stack) -/
theorem c11_tables_vfork_flushed : ∀ n ∈ vfork_syms, n ∈ flush_syms := by decide

open Uft.Gen.PltTables Tables in
/-- FULL STATEMENT (kept visible): `∀ n ∈ glibcJumpNames, n ∈ longjmp_syms ∧ n ∈ flush_syms ∧ n ∈ fixup_syms`.
    Proved for every name except the ones of finding C11-LONGJMP-ALIAS (`_longjmp`, which libmcount takes
    for an ordinary function: the program then returns from `_longjmp` into the frame that called it);
    the statement keeps holding when the tables gain the missing name. -/
theorem c11_tables_jump_names_partial :
    ∀ n ∈ glibcJumpNames, n ∉ jumpNamesMissingAsFound → n ∈ longjmp_syms ∧ n ∈ flush_syms ∧ n ∈ fixup_syms := by
  decide

open Uft.Gen.PltTables Tables in
/-- every way of arming a jmp_buf is a setjmp symbol, and replay's fix-up knows it -/
theorem c11_tables_setjmp_names : ∀ n ∈ glibcSetjmpNames, n ∈ setjmp_syms ∧ n ∈ fixup_syms := by decide

open Uft.Gen.PltTables Tables in
/-- vfork is in both its tables (special handling and forced flush) and known to replay -/
theorem c11_tables_vfork_names : "vfork" ∈ vfork_syms ∧ "vfork" ∈ flush_syms ∧ "vfork" ∈ fixup_syms := by decide

open Uft.Gen.PltTables Tables in
/-- the unwinder's entry point restores the return addresses (`except_syms`), and the exception entry
    points that libmcount wraps itself are exported by wrap.c and left alone by the PLT hook (`skip_syms`) -/
theorem c11_tables_exception_names :
    "_Unwind_RaiseException" ∈ except_syms ∧ ∀ n ∈ exceptionWrappers, n ∈ wrappers ∧ n ∈ skip_syms := by decide

open Uft.Gen.PltTables Tables in
/-- fork / vfork / daemon / exit / exec* / posix_spawn* are force-flushed; the exec family and
    pthread_exit are resolved by hand (they never return to plthook_exit) -/
theorem c11_tables_noreturn_flushed :
    (∀ n ∈ noReturnNames, n ∈ flush_syms) ∧ "pthread_exit" ∈ resolve_syms ∧ "pthread_exit" ∈ wrappers := by decide

open Uft.Gen.PltTables Tables in
/-- the model's view of a symbol agrees with the tables: for every name of any table that the hook does
    not skip, the flush the model performs for its kind (`Sym.flushes`: longjmp, vfork and the flush-only
    symbols) is exactly membership in flush_syms -/
theorem c11_tables_model_flush_agrees :
    ∀ n ∈ allNames, symOfName n ≠ .skip → (symOfName n).flushes = flush_syms.contains n := by decide

open Uft.Gen.PltTables Tables in
/-- the tables of the else-if chain do not overlap (only the first flag of the chain acts), none of them
    overlaps skip_syms (a skipped symbol is never hooked), each table is attached to its own flag, and
    setjmp is tested before longjmp -/
theorem c11_tables_chain_disjoint :
    (setjmp_syms.all fun n => !longjmp_syms.contains n && !vfork_syms.contains n && !except_syms.contains n &&
      !skip_syms.contains n) = true ∧
    (longjmp_syms.all fun n => !vfork_syms.contains n && !except_syms.contains n && !skip_syms.contains n) = true ∧
    (vfork_syms.all fun n => !except_syms.contains n && !skip_syms.contains n) = true ∧
    (except_syms.all fun n => !skip_syms.contains n) = true ∧
    setup.contains (setjmp_syms, "PLT_FL_SETJMP") = true ∧ setup.contains (longjmp_syms, "PLT_FL_LONGJMP") = true ∧
    setup.contains (vfork_syms, "PLT_FL_VFORK") = true ∧ setup.contains (flush_syms, "PLT_FL_FLUSH") = true ∧
    setup.contains (except_syms, "PLT_FL_EXCEPT") = true ∧ setup.contains (skip_syms, "PLT_FL_SKIP") = true ∧
    entryChain.take 3 = ["PLT_FL_SETJMP", "PLT_FL_LONGJMP", "PLT_FL_VFORK"] ∧
    entryTests.take 2 = ["PLT_FL_SKIP", "PLT_FL_FLUSH"] := by decide

open Uft.Gen.PltTables Tables in
/-- replay's fix-up table knows every symbol the hooks treat as setjmp, longjmp or vfork (otherwise the
    second return of a setjmp, or the child of a vfork, would be shown at a wrong depth) -/
theorem c11_tables_replay_knows_jumps :
    ∀ n ∈ setjmp_syms ++ longjmp_syms ++ vfork_syms, n ∈ fixup_syms := by decide

open Uft.Gen.PltTables Tables in
/-- the fortified longjmp gets both flags -/
example : flagsOf "__longjmp_chk" = ["PLT_FL_LONGJMP", "PLT_FL_FLUSH"] := by decide

end Uft.NonLocal
