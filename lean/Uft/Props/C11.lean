import Uft.Lemmas.NonLocal
/-
C11 — Non-local control flow keeps shadow stack and real stack in step.
Property theorems only; the model is Uft/Model/NonLocal.lean, the invariants
(`Inv`/`InStep`, `TraceInv`), `WellFormedOp` and the per-op lemmas are in
Uft/Lemmas/NonLocal.lean.

All `c11_*` theorems without `prefix` are about the repaired code (`Fix.all`);
each `c11_prefix_*_witness` shows, for one finding, that the code as it is
(`Fix.none`, or the flag of that finding alone) breaks the statement.
-/
namespace Uft.NonLocal

/-- Main invariant: whatever the program does next — call (hooked by mcount/fentry, through
    the PLT, or not at all; also from a landing pad), return, tail call, setjmp, longjmp to any
    live jmp_buf, throw, one step of unwinding, _Unwind_Resume, catch, pthread_exit, exit, the
    thread destructor — a machine that is in step stays in step.  (A signal handler is a `call`
    at an arbitrary point, see `c11_signal_transparent`.)  `vforkExec` is in the executable model
    and in the correspondence harness only. -/
theorem c11_instep_invariant {m : M} {op : Op} (hi : InStep m) (hw : WellFormedOp m op)
    (hv : ∀ a b c d e, op ≠ .vforkExec a b c d e) : InStep (step Fix.all m op) := by
  rcases hi with hh | hi
  · left; rw [step_halted _ hh]; exact hh
  · cases op with
    | call k child slot orig fpw => right; exact inv_call hi hw
    | ret =>
      right
      obtain ⟨f, fs, hf⟩ : ∃ f fs, m.fs = f :: fs := by
        cases h : m.fs with
        | nil => exact absurd h hw.1
        | cons f fs => exact ⟨f, fs, rfl⟩
      exact (ret_spec hi hw hf).1
    | tailcall k child => right; exact inv_tailcall hi hw
    | setjmp j child slot orig => right; exact (inv_setjmp hi hw).1
    | longjmp j child slot orig =>
      right
      obtain ⟨jb, _, h, _⟩ := inv_longjmp hi hw
      exact h
    | throw => right; exact inv_throw hi hw
    | unwind => right; exact inv_unwind hi hw
    | resume => right; exact inv_resume hi hw
    | catch_ fa => right; exact inv_catch hi hw
    | pthreadExit child slot orig => right; exact inv_pthreadExit hi hw
    | exit child slot orig => exact instep_exit child slot orig
    | vforkExec a b c d e => right; exact (inv_vforkExec hi hw).1
    | mtdDtor => right; exact inv_mtdDtor hi hw

/-- vfork + exec: the parent comes back from vfork to its caller although the child used the shared
    shadow stack in between (prepare_vfork / setup_vfork / restore_vfork) -/
theorem c11_vfork_returns {m : M} (hi : Inv m) {child slot orig echild eorig : Nat}
    (hw : WellFormedOp m (.vforkExec child slot orig echild eorig)) :
    (step Fix.all m (.vforkExec child slot orig echild eorig)).last = orig := (inv_vforkExec hi hw).2

/-- non-terminal steps keep the machine running and in step -/
theorem inv_step_nonterminal {m : M} {op : Op} (hi : Inv m) (hw : WellFormedOp m op) (hnt : op.noDepthClaim = false) :
    Inv (step Fix.all m op) := by
  cases op with
  | call k child slot orig fpw => exact inv_call hi hw
  | ret =>
    obtain ⟨f, fs, hf⟩ : ∃ f fs, m.fs = f :: fs := by
      cases h : m.fs with
      | nil => exact absurd h hw.1
      | cons f fs => exact ⟨f, fs, rfl⟩
    exact (ret_spec hi hw hf).1
  | tailcall k child => exact inv_tailcall hi hw
  | setjmp j child slot orig => exact (inv_setjmp hi hw).1
  | longjmp j child slot orig =>
    obtain ⟨jb, _, h, _⟩ := inv_longjmp hi hw
    exact h
  | throw => exact inv_throw hi hw
  | unwind => exact inv_unwind hi hw
  | resume => exact inv_resume hi hw
  | catch_ fa => exact inv_catch hi hw
  | pthreadExit child slot orig => simp [Op.noDepthClaim] at hnt
  | exit child slot orig => simp [Op.noDepthClaim] at hnt
  | vforkExec a b c d e => simp [Op.noDepthClaim] at hnt
  | mtdDtor => exact inv_mtdDtor hi hw

/-- the invariant is not vacuous: the initial machine is in step and so is a machine inside
    two nested hooked calls with a setjmp taken -/
example : Inv M.init :=
  ⟨rfl, rfl, rfl, ⟨[], rfl, fun _ => rfl⟩, List.Pairwise.nil, (fun _ h => by cases h), (fun _ h => by cases h),
    (fun _ => TopOk_of_nil (fs := []) rfl), (fun _ _ h => by cases h), (fun _ _ h => by cases h)⟩

/-- Under the invariant a return goes to the real caller: the program behaves as untraced.
    (Through a tail-call chain this takes one exit hook per chain element.) -/
theorem c11_every_return_reaches_caller {m : M} (hi : Inv m) (hw : WellFormedOp m .ret) {f : Frame} {fs : List Frame}
    (hf : m.fs = f :: fs) :
    (step Fix.all m .ret).last = f.orig ∧ (step Fix.all m .ret).fs = fs := by
  refine ⟨(ret_spec hi hw hf).2, ?_⟩
  rw [step_ret_eq _ hi.nh hf]

/-- longjmp lands behind the setjmp call of the target jmp_buf, with exactly the frames of
    that moment, and the shadow stack follows (by `c11_instep_invariant`) -/
theorem c11_longjmp_reaches_setjmp {m : M} (hi : Inv m) {j child slot orig : Nat}
    (hw : WellFormedOp m (.longjmp j child slot orig)) :
    ∃ jb, m.rjb.lookup j = some jb ∧ (step Fix.all m (.longjmp j child slot orig)).last = jb.sorig ∧
      (step Fix.all m (.longjmp j child slot orig)).fs = jb.frames := by
  obtain ⟨jb, h1, _, h3, h4⟩ := inv_longjmp hi hw
  exact ⟨jb, h1, h3, h4⟩

/-- setjmp itself returns to its caller -/
theorem c11_setjmp_returns {m : M} (hi : Inv m) {j child slot orig : Nat}
    (hw : WellFormedOp m (.setjmp j child slot orig)) :
    (step Fix.all m (.setjmp j child slot orig)).last = orig := (inv_setjmp hi hw).2

/-- While an exception is in flight every live return slot holds the real return address:
    the C++ unwinder, which walks the stack through these slots, sees the untraced stack. -/
theorem c11_unwinder_sees_real_addresses {m : M} (hi : Inv m) (hw : WellFormedOp m .throw) :
    ∀ f ∈ (step Fix.all m .throw).fs, (step Fix.all m .throw).sh.mem f.slot = f.orig :=
  (inv_throw hi hw).exc (by simp [step, hi.nh, cxaThrow])

/-- The depth bookkeeping survives every non-terminal step: `record_idx` is the number of
    shadow entries and every entry's `depth` is the number of entries below it (also in every
    jmp_buf copy). -/
theorem c11_trace_depth_invariant {m : M} {op : Op} (hi : Inv m) (ht : TraceInv m.sh) (hw : WellFormedOp m op)
    (hnt : op.noDepthClaim = false) : TraceInv (step Fix.all m op).sh :=
  trace_step hi ht hw hnt

/-- After a longjmp or a catch (or any other non-terminal step that leaves no exception in
    flight) the depth counter is the true nesting depth — the number of hooked logical calls that
    are open on the real stack — and the depths stored in the shadow entries are
    n-1, …, 0; so the records of every later call (entryRec/exitRec copy `depth`) carry the true depth. -/
theorem c11_trace_depth_after_jump {m : M} {op : Op} (hi : Inv m) (ht : TraceInv m.sh) (hw : WellFormedOp m op)
    (hnt : op.noDepthClaim = false) (hx : (step Fix.all m op).sh.inExc = false) :
    (step Fix.all m op).sh.recIdx = logicalDepth (step Fix.all m op).fs ∧
    (step Fix.all m op).sh.rs.map Ent.depth = descFrom (logicalDepth (step Fix.all m op).fs) := by
  have ht' := trace_step hi ht hw hnt
  have hi' := inv_step_nonterminal hi hw hnt
  obtain ⟨dead, hc, hd0⟩ := hi'.ctl
  have hd : dead = [] := hd0 hx
  subst hd
  have hl : (step Fix.all m op).sh.rs.length = logicalDepth (step Fix.all m op).fs := by
    have := congrArg List.length hc
    simpa [expFrames_length] using this
  exact ⟨by rw [ht'.idx, hl], by rw [ht'.depths, hl]⟩

/-- the entry pushed by a hooked call carries the true nesting depth -/
theorem c11_entry_depth_true {m : M} {k : Kind} {child slot orig fpw : Nat} (hi : Inv m) (ht : TraceInv m.sh)
    (hw : WellFormedOp m (.call k child slot orig fpw)) (hk : k ≠ .none) :
    ((step Fix.all m (.call k child slot orig fpw)).sh.rs.head?).map Ent.depth = some (logicalDepth m.fs) := by
  have hx : (step Fix.all m (.call k child slot orig fpw)).sh.inExc = false := by
    have hstep : (step Fix.all m (.call k child slot orig fpw)).sh =
        hookEntry Fix.all (progWrite m.sh slot orig fpw) k slot child := by
      simp [step, hi.nh, progWrite]
    rw [hstep]
    rcases Bool.eq_false_or_eq_true (progWrite m.sh slot orig fpw).inExc with he | he
    · cases k with
      | none => exact absurd rfl hk
      | mcount => simp only [hookEntry]; rw [mcountEntry_exc _ he]; simp [excPre]
      | plt => simp only [hookEntry]; rw [plthookEntry_plain_exc he]; simp [excPre]
    · cases k with
      | none => exact absurd rfl hk
      | mcount => simp only [hookEntry]; rw [mcountEntry_noexc _ he]; simpa using he
      | plt => simp only [hookEntry]; rw [plthookEntry_plain_noexc _ he]; simpa using he
  obtain ⟨_, h2⟩ := c11_trace_depth_after_jump hi ht hw rfl hx
  have hfs : (step Fix.all m (.call k child slot orig fpw)).fs = ⟨slot, orig, chainOf k child⟩ :: m.fs := by
    simp [step, hi.nh]
  rw [hfs] at h2
  have hld : logicalDepth (⟨slot, orig, chainOf k child⟩ :: m.fs) = logicalDepth m.fs + 1 := by
    rw [chainOf_hooked hk]; simp [logicalDepth]; omega
  rw [hld] at h2
  cases hr : (step Fix.all m (.call k child slot orig fpw)).sh.rs with
  | nil => rw [hr] at h2; simp [descFrom] at h2
  | cons e r =>
    rw [hr] at h2
    simp only [List.map_cons, descFrom, List.cons.injEq] at h2
    simp [h2.1]

/-- Replay (repaired fix-up): on every record stream that is locally coherent — which is how the
    shadow stack emits it: calls nest, returns close the innermost call, and the record after a
    longjmp ENTRY is the second EXIT of a setjmp whose ENTRY was seen at that depth — every record
    is displayed at its record depth, also after a longjmp to a jmp_buf that is not the latest. -/
theorem c11_replay_depth_coherent (l : List RRec) (h : coherent CSt.init l = true) :
    rrun true RSt.init l = l.map (·.depth) :=
  rrun_coherent l RSt.init CSt.init ⟨rfl, (fun h => by cases h), (fun _ h => by cases h), rfl⟩ h

/-! ### signal handlers: a balanced history at an arbitrary point -/

/-- well-nested calls and returns: what a (traced or untraced) signal handler and everything it
    calls do between the arrival of the signal and sigreturn -/
inductive Balanced : List Op → Prop
  | nil : Balanced []
  | wrap {k : Kind} {child slot orig fpw : Nat} {h1 h2 : List Op} :
      Balanced h1 → Balanced h2 → Balanced (.call k child slot orig fpw :: h1 ++ .ret :: h2)

/-- every op of the history is well formed in the state it is executed in -/
def WFRun (m : M) : List Op → Prop
  | [] => True
  | op :: r => WellFormedOp m op ∧ WFRun (step Fix.all m op) r

theorem run_append (fx : Fix) (m : M) (a b : List Op) : run fx m (a ++ b) = run fx (run fx m a) b := by
  simp [run, List.foldl_append]

theorem WFRun_append {m : M} {a b : List Op} (h : WFRun m (a ++ b)) : WFRun m a ∧ WFRun (run Fix.all m a) b := by
  induction a generalizing m with
  | nil => exact ⟨trivial, h⟩
  | cons op r ih =>
    obtain ⟨h1, h2⟩ := h
    obtain ⟨h3, h4⟩ := ih h2
    exact ⟨⟨h1, h3⟩, h4⟩

/-- everything that later steps can depend on is the same -/
structure SameState (m m' : M) : Prop where
  fs : m'.fs = m.fs
  ctl : m'.sh.rs.map Ent.c = m.sh.rs.map Ent.c
  mem : ∀ f ∈ m.fs, m'.sh.mem f.slot = m.sh.mem f.slot
  recIdx : m'.sh.recIdx = m.sh.recIdx
  inExc : m'.sh.inExc = m.sh.inExc
  jbs : m'.sh.jbs = m.sh.jbs
  rjb : m'.rjb = m.rjb

theorem SameState.trans {a b c : M} (h1 : SameState a b) (h2 : SameState b c) : SameState a c :=
  ⟨h2.fs.trans h1.fs, h2.ctl.trans h1.ctl,
    fun f hf => (h2.mem f (by rw [h1.fs]; exact hf)).trans (h1.mem f hf),
    h2.recIdx.trans h1.recIdx, h2.inExc.trans h1.inExc, h2.jbs.trans h1.jbs, h2.rjb.trans h1.rjb⟩

/-- A balanced history inserted at any point (a signal handler interrupting traced code, itself
    traced or not, calling whatever it likes as long as everything returns) leaves the machine in
    step and the state unchanged: same frames, same shadow entries, same content of every live
    return slot, same depth counter, same jmp_buf copies. -/
theorem c11_signal_transparent {h : List Op} (hb : Balanced h) :
    ∀ {m : M}, Inv m → m.sh.inExc = false → WFRun m h →
      Inv (run Fix.all m h) ∧ SameState m (run Fix.all m h) := by
  induction hb with
  | nil => intro m hi _ _; exact ⟨hi, ⟨rfl, rfl, fun _ _ => rfl, rfl, rfl, rfl, rfl⟩⟩
  | @wrap k child slot orig fpw h1 h2 _ _ ih1 ih2 =>
    intro m hi hx hw
    obtain ⟨hwc, hw'⟩ := hw
    obtain ⟨hw1, hw''⟩ := WFRun_append hw'
    obtain ⟨hwr, hw2⟩ := hw''
    have hrun : run Fix.all m (.call k child slot orig fpw :: h1 ++ .ret :: h2) =
        run Fix.all (step Fix.all (run Fix.all (step Fix.all m (.call k child slot orig fpw)) h1) .ret) h2 := by
      show run Fix.all (step Fix.all m _) (h1 ++ .ret :: h2) = _
      rw [run_append]; rfl
    rw [hrun]
    -- the call
    have hi1 := inv_call hi hwc
    obtain ⟨c1, c2, c3, c4, c5, c6⟩ := call_frame hi hx hwc
    -- the nested history
    obtain ⟨hi2, s12⟩ := ih1 hi1 c2 hw1
    have hx2 : (run Fix.all (step Fix.all m (.call k child slot orig fpw)) h1).sh.inExc = false := by
      rw [s12.inExc]; exact c2
    have hf2 : (run Fix.all (step Fix.all m (.call k child slot orig fpw)) h1).fs =
        ⟨slot, orig, chainOf k child⟩ :: m.fs := by rw [s12.fs]; exact c1
    -- the return
    obtain ⟨hi3, _⟩ := ret_spec hi2 hwr hf2
    obtain ⟨r1, r2, r3, r4, r5⟩ := ret_frame hi2 hx2 hwr hf2
    have hfs3 : (step Fix.all (run Fix.all (step Fix.all m (.call k child slot orig fpw)) h1) .ret).fs = m.fs := by
      rw [step_ret_eq _ hi2.nh hf2]
    have s03 : SameState m (step Fix.all (run Fix.all (step Fix.all m (.call k child slot orig fpw)) h1) .ret) := by
      obtain ⟨d0, hc0, hd0⟩ := hi.ctl
      obtain ⟨d3, hc3, hd3⟩ := hi3.ctl
      have e0 : d0 = [] := hd0 hx
      have e3 : d3 = [] := hd3 r1
      subst e0; subst e3
      refine ⟨hfs3, ?_, ?_, ?_, by rw [r1, hx], by rw [r2, s12.jbs, c3], by rw [r3, s12.rjb, c4]⟩
      · rw [hc3, hc0, hfs3]
      · intro g hg
        have hgs : slot < g.slot := hwc.2.1 g hg
        by_cases htop : ∃ p ps, expFrames m.fs = p :: ps ∧ g.slot = p.loc
        · -- the top hooked frame: hooked before and after
          obtain ⟨p, ps, hp, hgp⟩ := htop
          rw [hgp, hi3.top r1 p ps (by rw [hfs3]; exact hp), hi.top hx p ps hp]
        · have hne : ∀ p ps, expFrames m.fs = p :: ps → g.slot ≠ p.loc :=
            fun p ps hp h => htop ⟨p, ps, hp, h⟩
          rw [r5 g.slot hne, s12.mem g (by rw [c1]; simp [hg]), c6 g.slot (by omega) (by omega) hne]
      · rw [r4, s12.recIdx, c5]; simp
    -- the rest of the history
    have hx3 : (step Fix.all (run Fix.all (step Fix.all m (.call k child slot orig fpw)) h1) .ret).sh.inExc = false := r1
    obtain ⟨hi4, s34⟩ := ih2 hi3 hx3 hw2
    exact ⟨hi4, s03.trans s34⟩

/-- the theorem is not vacuous: a handler calling a traced and a PLT function on top of main -/
example : Balanced [.call .mcount 5 20 3000 29, .call .plt 100 10 3001 0, .ret, .ret] :=
  Balanced.wrap (h1 := [.call .plt 100 10 3001 0, .ret]) (h2 := [])
    (Balanced.wrap (h1 := []) (h2 := []) Balanced.nil Balanced.nil) Balanced.nil

/-! ### witnesses: the code as it is -/

/-- C11-LONGJMP-DEPTH: main: setjmp(A); g: setjmp(B); h: longjmp(A); then main calls leaf.
    The stream is coherent, the unrepaired replay shows leaf at depth 2 instead of 1. -/
def ljStream : List RRec :=
  [⟨0, 0, .plain⟩, ⟨0, 1, .setjmp⟩, ⟨1, 1, .setjmp⟩, ⟨0, 1, .plain⟩, ⟨0, 2, .setjmp⟩, ⟨1, 2, .setjmp⟩,
   ⟨0, 2, .plain⟩, ⟨0, 3, .longjmp⟩, ⟨1, 1, .setjmp⟩, ⟨0, 1, .plain⟩]

theorem c11_prefix_longjmp_depth_witness :
    coherent CSt.init ljStream = true ∧ rrun false RSt.init ljStream ≠ ljStream.map (·.depth) ∧
    (rrun false RSt.init ljStream).getLast? = some 2 := by decide

/-- C11-JMPBUF-OVERFLOW: the copy is taken into an array of 1024 entries whatever --max-stack is -/
theorem c11_prefix_jmpbuf_overflow_witness (s : Sh) (a : Nat) (h : JMPBUF_CAP < s.rs.length) :
    (setupJmpbuf Fix.none s a).oob = true ∧ (setupJmpbuf Fix.all s a).oob = s.oob := by
  simp [setupJmpbuf, Fix.none, Fix.all, h]

/-- C11-REHOOK-ORDER: a PLT-called library function tail-calls a traced callback which catches an
    exception and returns: mcount_rstack_rehook (top→bottom) leaves plthook_return in the slot of
    the chain [PLT entry, mcount entry]; the return then pops a non-PLT entry in __plthook_exit
    ("invalid dynsym idx").  With the repaired order the callback returns to the library's caller. -/
def rehookOps : List Op :=
  [.call .mcount 0 60 1000 61, .call .plt 100 50 1001 0, .tailcall .mcount 1, .call .mcount 2 40 1002 49,
   .throw, .unwind, .catch_ 49, .ret]

theorem c11_prefix_rehook_order_witness :
    (run { Fix.all with rehook := false } M.init rehookOps).sh.dead = true ∧
    (run Fix.all M.init rehookOps).sh.dead = false ∧ (run Fix.all M.init rehookOps).last = 1001 := by decide

/-- C11-EXC-FRAME: with -mfentry `parent_loc[-1]` is no frame pointer; the fallback `parent_loc - 1`
    keeps the entry of the unwound callee (same slot), so the destructor called from the landing
    pad is recorded at depth 2 instead of 1. -/
def excFrameOps : List Op :=
  [.call .mcount 0 60 1000 61, .call .mcount 1 50 1001 0, .throw, .unwind, .call .mcount 2 50 1002 0]

theorem c11_prefix_exc_frame_witness :
    ((run { Fix.all with excFrame := false } M.init excFrameOps).sh.rs.head?).map Ent.depth = some 2 ∧
    ((run Fix.all M.init excFrameOps).sh.rs.head?).map Ent.depth = some 1 ∧
    logicalDepth (run Fix.all M.init excFrameOps).fs = 2 := by decide

/-- C11-PTHREAD-EXIT: after pthread_exit from a nested call the dead entries stay on the shadow
    stack; start_thread's next callee reuses the thread function's return slot and mtd_dtor's
    mcount_rstack_restore overwrites its return address (2000) with the dead frame's (1000). -/
def pthreadOps : List Op :=
  [.call .mcount 0 60 1000 61, .call .mcount 1 50 1001 59, .pthreadExit 106 45 1002, .call .none 0 60 2000 0,
   .mtdDtor, .ret]

theorem c11_prefix_pthread_exit_witness :
    (run { Fix.all with pthExit := false } M.init pthreadOps).last = 1000 ∧
    (run Fix.all M.init pthreadOps).last = 2000 := by decide

/-- C11-EXC-PLT: a landing pad calls a library function through the PLT (in_exception still set):
    its entry goes on top of the dead entry; the traced callback it calls pops both (frame address
    of the landing-pad function), and the library function's return finds a non-PLT entry. -/
def excPltOps : List Op :=
  [.call .mcount 0 60 1000 61, .call .mcount 1 50 1001 59, .throw, .unwind, .call .plt 100 50 1002 0,
   .call .mcount 2 40 1003 59, .ret, .ret]

theorem c11_prefix_exc_plt_witness :
    (run { Fix.all with excPlt := false } M.init excPltOps).sh.dead = true ∧
    (run Fix.all M.init excPltOps).sh.dead = false ∧ (run Fix.all M.init excPltOps).last = 1002 := by decide

end Uft.NonLocal
