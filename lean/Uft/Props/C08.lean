import Uft.Lemmas.ReportOpen
import Uft.Lemmas.ReportSort
import Uft.Lemmas.ReportDiff
import Uft.Lemmas.ReportMono
import Uft.Lemmas.ReportExt
/- C08 — Report statistics are exact sums over the trace.

   Setting.  A data set is a list of call forests, one per task (`forests[i]` is what task `i`
   executed: complete calls `Call.node f t0 t1 callees`).  `streamsOf forests` are the per-task
   record streams, `reportNodes false m streams` is the model of `uftrace report`'s node table
   (`build_function_tree` over the merged stream + `add_remaining_fstack`), `m` = max_stack.
   `allInvs forests` is the tree-defined list of invocations: for every call its function, its
   duration `t1 - t0` (`total`), its duration minus its callees' durations (`self`) and whether
   the same function is among its open callers (`recursive`).
   `wtL forest` ("well timed"): every call ends no earlier than it starts, before 2^64 ns, and
   its callees' durations fit into its own — implied by non-decreasing timestamps
   (`c08_monotone_is_well_timed`).  Without it the reader's `uint64_t` arithmetic and its clamp
   `child ≤ total` decide; `c08_report_is_tree_fold` states the result for that case too. -/
namespace Uft.C08
open Uft.Report
open Uft.Mcount (Call Calls)

/-- the report's node of function `f` for a data set of complete forests -/
def node (m : Nat) (forests : List Calls) (f : Nat) : Node := reportNodes false m (streamsOf forests) f

/-- Core (no hypothesis on the timestamps): whatever the interleaving chosen by the merge, the
    node table is the empty table folded over the forests' invocations *as the reader computes
    them* (`upds`: `uint64_t` subtraction, clamp `child ≤ total`). -/
theorem c08_report_is_tree_fold (m : Nat) (forests : List Calls) (hfit : ∀ cs ∈ forests, cs.height ≤ m) :
    reportNodes false m (streamsOf forests) = Nodes.upds (fun _ => {}) (allUpds forests) :=
  report_forests m forests hfit

/-- The node table does not depend on how the tasks' records are interleaved: for *any* merged
    stream `evs` (task index, record), it is the start table folded over the updates of task 0's
    records, then task 1's, … -/
theorem c08_interleaving_irrelevant (n : Nat) (s : St) (evs : List (Nat × Rec)) (h : ∀ e ∈ evs, e.1 < n) :
    (run false s evs).nodes = s.nodes.upds (blocks n s.tasks evs) := by
  obtain ⟨us, h1, h2⟩ := run_nodes n evs s h
  rw [h1, Nodes.upds_perm _ h2]

example : ∀ e ∈ [((0 : Nat), ({ time := 5, typ := 0, depth := 0, addr := 1 } : Rec)), (1, { time := 5, typ := 0, depth := 0, addr := 2 })],
    e.1 < 2 := by decide

theorem allUpds_eq_allInvs (forests : List Calls) (hwt : ∀ cs ∈ forests, wtL cs) :
    allUpds forests = allInvs forests := by
  unfold allUpds allInvs
  exact flatMap_eq_of_forall _ _ _ (fun cs h => updsL_eq cs [] (hwt cs h))

theorem forKey_length_tags (f : Nat) : ∀ (us vs : List Upd), us.map Upd.tag = vs.map Upd.tag →
    (forKey f us).length = (forKey f vs).length
  | [], [], _ => rfl
  | [], _ :: _, h => by simp at h
  | _ :: _, [], h => by simp at h
  | u :: us, v :: vs, h => by
    simp only [List.map_cons, List.cons.injEq, Upd.tag, Prod.mk.injEq] at h
    have ih := forKey_length_tags f us vs h.2
    simp only [forKey, List.filter_cons, h.1.1] at ih ⊢
    split <;> simp [ih]

theorem allUpds_tags (forests : List Calls) : (allUpds forests).map Upd.tag = (allInvs forests).map Upd.tag := by
  unfold allUpds allInvs
  rw [List.map_flatMap, List.map_flatMap]
  exact flatMap_eq_of_forall _ _ _ (fun cs _ => updsL_tags cs [])

/-- Calls = number of invocations of the function in the data set (no hypothesis on timestamps). -/
theorem c08_calls_exact (m : Nat) (forests : List Calls) (hfit : ∀ cs ∈ forests, cs.height ≤ m) (f : Nat) :
    (node m forests f).call = (forKey f (allInvs forests)).length := by
  unfold node
  rw [report_forests m forests hfit, Nodes.upds_apply, Node.upds_call,
    forKey_length_tags f _ _ (allUpds_tags forests)]
  simp

/-- Total = summed duration of the invocations that have no invocation of the same function
    among their callers; the recursive ones are summed in `rec`.  (The table prints Total mod 2^64.) -/
theorem c08_total_exact (m : Nat) (forests : List Calls) (hfit : ∀ cs ∈ forests, cs.height ≤ m)
    (hwt : ∀ cs ∈ forests, wtL cs) (f : Nat) :
    (node m forests f).total.sum =
        (((forKey f (allInvs forests)).filter (fun u => !u.recursive)).map (·.total)).sum ∧
    (node m forests f).total.recs =
        (((forKey f (allInvs forests)).filter (fun u => u.recursive)).map (·.total)).sum := by
  unfold node
  rw [report_forests m forests hfit, Nodes.upds_apply, Node.upds_total_sum, Node.upds_total_recs,
    allUpds_eq_allInvs forests hwt]
  simp

/-- Self = Σ over the invocations of (duration − Σ durations of the direct callees). -/
theorem c08_self_exact (m : Nat) (forests : List Calls) (hfit : ∀ cs ∈ forests, cs.height ≤ m)
    (hwt : ∀ cs ∈ forests, wtL cs) (f : Nat) :
    (node m forests f).self.sum = ((forKey f (allInvs forests)).map (·.self)).sum ∧
    (node m forests f).self.recs = 0 := by
  unfold node
  rw [report_forests m forests hfit, Nodes.upds_apply, Node.upds_self_sum, Node.upds_self_recs,
    allUpds_eq_allInvs forests hwt]
  simp

/-- non-vacuity: a forest with direct recursion that is well timed and fits max_stack = 4 -/
def exForest : Calls :=
  .cons (.node 1 10 100 (.cons (.node 2 20 30 .nil) (.cons (.node 1 30 70 (.cons (.node 3 40 40 .nil) .nil)) .nil)))
    (.cons (.node 2 100 120 .nil) .nil)

example : (∀ cs ∈ [exForest, exForest], cs.height ≤ 4) ∧ (∀ cs ∈ [exForest, exForest], wtL cs) := by
  refine ⟨by simp [exForest, Calls.height, Call.height], ?_⟩
  simp [exForest, wtL, wt, durSum, durI, M64]

/-- Non-decreasing timestamps (below 2^64) make a forest well timed: the hypothesis `wtL` of the
    theorems here holds for every timestamp-monotone record stream. -/
theorem c08_monotone_is_well_timed (cs : Calls) (hm : Mono (times (evCalls 0 cs)))
    (hb : ∀ x ∈ times (evCalls 0 cs), x < M64) : wtL cs :=
  wtL_of_mono cs 0 hm hb

example : Mono (times (evCalls 0 exForest)) ∧ ∀ x ∈ times (evCalls 0 exForest), x < M64 := by
  simp [Mono, times, exForest, evCalls, evCall, M64]

/-! ### the self times telescope -/

theorem sum_zero_of_forall : ∀ (l : List Nat), (∀ y ∈ l, y = 0) → l.sum = 0
  | [], _ => rfl
  | a :: l, h => by
    simp only [List.sum_cons, h a List.mem_cons_self, sum_zero_of_forall l (fun y hy => h y (List.mem_cons_of_mem _ hy))]

theorem sum_map_add (g h : Nat → Nat) : ∀ (l : List Nat),
    (l.map (fun f => g f + h f)).sum = (l.map g).sum + (l.map h).sum
  | [] => rfl
  | a :: l => by simp only [List.map_cons, List.sum_cons, sum_map_add g h l]; omega

theorem sum_indicator (x k : Nat) : ∀ (keys : List Nat), keys.Nodup → k ∈ keys →
    (keys.map (fun f => if k = f then x else 0)).sum = x
  | [], _, h => by cases h
  | a :: keys, hnd, hm => by
    obtain ⟨ha, hk⟩ := List.nodup_cons.mp hnd
    simp only [List.map_cons, List.sum_cons]
    by_cases e : k = a
    · subst e
      have : (keys.map (fun f => if k = f then x else 0)).sum = 0 := by
        apply sum_zero_of_forall
        intro y hy
        obtain ⟨f, hf, rfl⟩ := List.mem_map.mp hy
        have : ¬ k = f := fun e => ha (e ▸ hf)
        simp [this]
      simp [this]
    · have hm' : k ∈ keys := by
        rcases List.mem_cons.mp hm with h | h
        · exact absurd h e
        · exact h
      simp [e, sum_indicator x k keys hk hm']

theorem sum_forKey_self (keys : List Nat) (hnd : keys.Nodup) : ∀ (us : List Upd), (∀ u ∈ us, u.key ∈ keys) →
    (keys.map (fun f => ((forKey f us).map (·.self)).sum)).sum = (us.map (·.self)).sum
  | [], _ => by
    simp only [forKey, List.filter_nil, List.map_nil, List.sum_nil]
    apply sum_zero_of_forall
    intro y hy
    obtain ⟨f, _, rfl⟩ := List.mem_map.mp hy
    rfl
  | u :: us, h => by
    have ih := sum_forKey_self keys hnd us (fun x hx => h x (List.mem_cons_of_mem _ hx))
    have hk : u.key ∈ keys := h u List.mem_cons_self
    have e : ∀ f, ((forKey f (u :: us)).map (·.self)).sum =
        (if u.key = f then u.self else 0) + ((forKey f us).map (·.self)).sum := by
      intro f
      by_cases hf : u.key = f
      · have : (u.key == f) = true := by simp [hf]
        simp [forKey, List.filter_cons, this, hf]
      · have : (u.key == f) = false := by simp [hf]
        simp [forKey, List.filter_cons, this, hf]
    simp only [e, List.map_cons, List.sum_cons]
    rw [sum_map_add, sum_indicator u.self u.key keys hnd hk, ih]

/-- Telescoping, one task: the self times of a task's invocations add up to the summed duration of
    its top-level calls. -/
theorem c08_self_telescopes_task (cs : Calls) (hwt : wtL cs) :
    ((invsL [] cs).map (·.self)).sum = durSum cs :=
  self_sum_calls cs [] hwt

/-- Telescoping, the table: over any list of distinct function ids that covers the functions of
    the data set, the Self column adds up to the summed duration of all tasks' top-level calls. -/
theorem c08_self_telescopes (m : Nat) (forests : List Calls) (hfit : ∀ cs ∈ forests, cs.height ≤ m)
    (hwt : ∀ cs ∈ forests, wtL cs) (keys : List Nat) (hnd : keys.Nodup)
    (hcov : ∀ u ∈ allInvs forests, u.key ∈ keys) :
    (keys.map (fun f => (node m forests f).self.sum)).sum = (forests.map durSum).sum := by
  have h1 : ∀ f, (node m forests f).self.sum = ((forKey f (allInvs forests)).map (·.self)).sum :=
    fun f => (c08_self_exact m forests hfit hwt f).1
  simp only [h1]
  rw [sum_forKey_self keys hnd _ hcov]
  unfold allInvs
  clear hcov h1 hfit
  induction forests with
  | nil => rfl
  | cons cs rest ih =>
    simp only [List.flatMap_cons, List.map_append, List.sum_append, List.map_cons, List.sum_cons]
    rw [self_sum_calls cs [] (hwt cs List.mem_cons_self), ih (fun x hx => hwt x (List.mem_cons_of_mem _ hx))]

example : ∃ keys : List Nat, keys.Nodup ∧ ∀ u ∈ allInvs [exForest, exForest], u.key ∈ keys :=
  ⟨[1, 2, 3], by decide, by simp [allInvs, exForest, invsL, invs]⟩

/-! ### min / max / avg -/

mutual
theorem invs_lt : ∀ (c : Call) (ctx : List Nat), wt c → ∀ u ∈ invs ctx c, u.total < M64 ∧ u.self < M64
  | .node f t0 t1 kids, ctx, h => by
    simp only [wt] at h
    intro u hu
    simp only [invs, List.mem_append, List.mem_singleton] at hu
    rcases hu with hu | hu
    · exact invsL_lt kids _ h.2.2.2 u hu
    · subst hu; simp only; omega
theorem invsL_lt : ∀ (cs : Calls) (ctx : List Nat), wtL cs → ∀ u ∈ invsL ctx cs, u.total < M64 ∧ u.self < M64
  | .nil, _, _ => by intro u hu; simp [invsL] at hu
  | .cons c rest, ctx, h => by
    simp only [wtL] at h
    intro u hu
    simp only [invsL, List.mem_append] at hu
    rcases hu with hu | hu
    · exact invs_lt c ctx h.1 u hu
    · exact invsL_lt rest ctx h.2 u hu
end

theorem sum_split_rec (us : List Upd) :
    ((us.filter (fun u => !u.recursive)).map (·.total)).sum + ((us.filter (fun u => u.recursive)).map (·.total)).sum =
      (us.map (·.total)).sum := by
  induction us with
  | nil => rfl
  | cons u us ih =>
    cases hr : u.recursive <;> simp [List.filter_cons, hr] <;> omega

theorem foldl_min_in (l : List Nat) (hne : l ≠ []) (hlt : ∀ x ∈ l, x < M64) : l.foldl min (M64 - 1) ∈ l := by
  rcases foldl_min_mem l (M64 - 1) with h | h
  · obtain ⟨x, hx⟩ := List.exists_mem_of_ne_nil l hne
    have h1 := (foldl_min_le l (M64 - 1)).2 x hx
    have h2 := hlt x hx
    have : x = l.foldl min (M64 - 1) := by omega
    exact this ▸ hx
  · exact h

theorem foldl_max_in (l : List Nat) (hne : l ≠ []) : l.foldl max 0 ∈ l := by
  rcases foldl_max_mem l 0 with h | h
  · obtain ⟨x, hx⟩ := List.exists_mem_of_ne_nil l hne
    have h1 := (foldl_max_ge l 0).2 x hx
    have : x = l.foldl max 0 := by omega
    exact this ▸ hx
  · exact h

/-- min / max / avg of a node that received the updates `us` (durations below 2^64) -/
theorem min_max_avg_of_upds (us : List Upd) (hne : us ≠ []) (hmem : ∀ u ∈ us, u.total < M64 ∧ u.self < M64) :
    let totals := us.map (·.total)
    let selfs := us.map (·.self)
    let n := ({} : Node).upds us
    (n.total.min ∈ totals ∧ ∀ d ∈ totals, n.total.min ≤ d) ∧
    (n.total.max ∈ totals ∧ ∀ d ∈ totals, d ≤ n.total.max) ∧
    (n.self.min ∈ selfs ∧ ∀ d ∈ selfs, n.self.min ≤ d) ∧
    (n.self.max ∈ selfs ∧ ∀ d ∈ selfs, d ≤ n.self.max) ∧
    n.total.avg n.call = (totals.sum % M64) / totals.length ∧
    n.self.avg n.call = (selfs.sum % M64) / selfs.length := by
  intro totals selfs n
  have htne : totals ≠ [] := by simpa [totals] using hne
  have hsne : selfs ≠ [] := by simpa [selfs] using hne
  have htl : ∀ x ∈ totals, x < M64 := by
    intro x hx; obtain ⟨u, hu, rfl⟩ := List.mem_map.mp hx; exact (hmem u hu).1
  have hsl : ∀ x ∈ selfs, x < M64 := by
    intro x hx; obtain ⟨u, hu, rfl⟩ := List.mem_map.mp hx; exact (hmem u hu).2
  have e1 : n.total.min = totals.foldl min (M64 - 1) := by simp only [n]; rw [Node.upds_total_min]
  have e2 : n.total.max = totals.foldl max 0 := by simp only [n]; rw [Node.upds_total_max]
  have e3 : n.self.min = selfs.foldl min (M64 - 1) := by simp only [n]; rw [Node.upds_self_min]
  have e4 : n.self.max = selfs.foldl max 0 := by simp only [n]; rw [Node.upds_self_max]
  have e5 : n.call = totals.length := by simp only [n]; rw [Node.upds_call]; simp [totals]
  have e6 : n.total.sum + n.total.recs = totals.sum := by
    simp only [n]
    rw [Node.upds_total_sum, Node.upds_total_recs]
    have := sum_split_rec us
    simp only [totals]; simp; omega
  have e7 : n.self.sum + n.self.recs = selfs.sum := by
    simp only [n]
    rw [Node.upds_self_sum, Node.upds_self_recs]; simp [selfs]
  refine ⟨⟨?_, ?_⟩, ⟨?_, ?_⟩, ⟨?_, ?_⟩, ⟨?_, ?_⟩, ?_, ?_⟩
  · rw [e1]; exact foldl_min_in totals htne htl
  · rw [e1]; exact (foldl_min_le totals _).2
  · rw [e2]; exact foldl_max_in totals htne
  · rw [e2]; exact (foldl_max_ge totals _).2
  · rw [e3]; exact foldl_min_in selfs hsne hsl
  · rw [e3]; exact (foldl_min_le selfs _).2
  · rw [e4]; exact foldl_max_in selfs hsne
  · rw [e4]; exact (foldl_max_ge selfs _).2
  · simp only [Stat.avg, e6, e5]
  · have : selfs.length = totals.length := by simp [selfs, totals]
    simp only [Stat.avg, e7, e5, this]

/-- min / max are the extremal durations of the function's invocations (all of them, recursive
    ones included), avg is the C integer division of their sum (mod 2^64) by the call count — for
    the Total and the Self figures; these are the columns of --avg-total / --avg-self. -/
theorem c08_min_max_avg (m : Nat) (forests : List Calls) (hfit : ∀ cs ∈ forests, cs.height ≤ m)
    (hwt : ∀ cs ∈ forests, wtL cs) (f : Nat) (hcalled : forKey f (allInvs forests) ≠ []) :
    let totals := (forKey f (allInvs forests)).map (·.total)
    let selfs := (forKey f (allInvs forests)).map (·.self)
    let n := node m forests f
    (n.total.min ∈ totals ∧ ∀ d ∈ totals, n.total.min ≤ d) ∧
    (n.total.max ∈ totals ∧ ∀ d ∈ totals, d ≤ n.total.max) ∧
    (n.self.min ∈ selfs ∧ ∀ d ∈ selfs, n.self.min ≤ d) ∧
    (n.self.max ∈ selfs ∧ ∀ d ∈ selfs, d ≤ n.self.max) ∧
    n.total.avg n.call = (totals.sum % M64) / totals.length ∧
    n.self.avg n.call = (selfs.sum % M64) / selfs.length := by
  intro totals selfs n
  have hmem : ∀ u ∈ forKey f (allInvs forests), u.total < M64 ∧ u.self < M64 := by
    intro u hu
    have hu' : u ∈ allInvs forests := (List.mem_filter.mp hu).1
    obtain ⟨cs, hcs, hin⟩ := List.mem_flatMap.mp hu'
    exact invsL_lt cs [] (hwt cs hcs) u hin
  have hn : n = ({} : Node).upds (forKey f (allInvs forests)) := by
    show reportNodes false m (streamsOf forests) f = _
    rw [report_forests m forests hfit, Nodes.upds_apply, allUpds_eq_allInvs forests hwt]
  have := min_max_avg_of_upds (forKey f (allInvs forests)) hcalled hmem
  simp only [← hn] at this
  exact this

example : forKey 1 (allInvs [exForest, exForest]) ≠ [] := by
  simp [allInvs, exForest, invsL, invs, forKey]

/-! ### sorting -/

/-- The printed rows are the rows of the name tree, reordered so that no row is followed by one
    that compares greater under the requested key chain (first key that differs decides; `func`
    compares names in reverse). -/
theorem c08_sorted_by_keys (keys : List Key) (rows : List Row) :
    (sortByKeys keys rows).Perm rows ∧
    (sortByKeys keys rows).Pairwise (fun a b => ¬ cmpChain (keys.map Key.cmp) a b < 0) := by
  have hc : IsCmp (cmpChain (keys.map Key.cmp)) := by
    apply cmpChain_isCmp
    intro c hcm
    obtain ⟨k, _, rfl⟩ := List.mem_map.mp hcm
    exact Key.cmp_isCmp k
  exact sortRows_spec _ hc rows

/-- A sort key given more than once adds nothing to the order: the chain without the repetitions
    compares every pair of rows the same way, so skipping a key that is already linked (the
    repair of finding F-C08-DUP) sorts exactly as requested. -/
theorem c08_duplicate_keys_redundant (ks : List Key) (rows : List Row) :
    sortByKeys (dedupKeys ks) rows = sortByKeys ks rows := by
  unfold sortByKeys
  rw [cmpChain_dedup]

/-- The repaired `report_setup_sort` + `report_sort_nodes` for any accepted `-s` string: the
    report terminates and its rows are those of the name tree ordered by the *requested* chain
    (repetitions included). -/
theorem c08_sorted_by_requested_keys (names : List String) (ks : List Key) (rows : List Row)
    (hk : setupSort names = some ks) :
    ∃ chain out, setupSortG true names = some chain ∧ sortByChainG chain rows = some out ∧
      out.Perm rows ∧ out.Pairwise (fun a b => ¬ cmpChain (ks.map Key.cmp) a b < 0) := by
  refine ⟨(dedupKeys ks, false), sortByKeys ks rows, by simp [setupSortG, hk], ?_, c08_sorted_by_keys ks rows⟩
  simp only [sortByChainG, Bool.false_and, Bool.false_eq_true, if_false, cmpChain_dedup]
  rfl

example : setupSort ["total", "self", "total"] = some [.total, .self, .total] := by decide

/-- F-C08-DUP witness (the code as it is, `fixed = false`): with two rows that tie on `total`,
    `-s total,total` never returns (`total.next = total`), and `-s total,self,total` has dropped
    `self` from the chain: the rows stay in name order although the second has the larger self
    time.  The repaired code orders them by self time. -/
theorem c08_prefix_dup_key_witness :
    let a : Row := { key := 1, call := 1, size := 0, tsum := 100, tavg := 100, tmin := 100, tmax := 100,
                     ssum := 60, savg := 60, smin := 60, smax := 60 }
    let b : Row := { a with key := 2, ssum := 100, savg := 100, smin := 100, smax := 100 }
    (setupSortG false ["total", "total"]).map (fun c => sortByChainG c [a, b]) = some none ∧
    (setupSortG false ["total", "self", "total"]).map (fun c => sortByChainG c [a, b]) = some (some [a, b]) ∧
    (setupSortG true ["total", "self", "total"]).map (fun c => sortByChainG c [a, b]) = some (some [b, a]) := by
  decide

/-! ### --diff against itself -/

theorem nameRows_nodup (ns : Nodes) (size : Nat → Nat) (keys : List Nat) (h : keys.Nodup) :
    ((nameRows ns size keys).map (·.key)).Nodup := by
  have : (nameRows ns size keys).map (·.key) = keys.filter (fun k => (ns k).call > 0) := by
    simp only [nameRows, List.map_map]
    conv => rhs; rw [← List.map_id (keys.filter _)]
    apply List.map_congr_left
    intro k _
    rfl
  rw [this]
  exact h.filter _

/-- `--diff` of a node table against itself (the same data directory read twice gives the same
    table): every function is paired with its own figures, no row is added, and every difference
    the table shows is zero — whatever sort keys, --sort-column and diff policy. -/
theorem c08_diff_self_zero (keys : List Key) (column : Nat) (absolute : Bool)
    (ns : Nodes) (size : Nat → Nat) (ids : List Nat) (hnd : ids.Nodup) :
    let rows := nameRows ns size ids
    (diffByKeys keys column absolute rows rows).Perm (rows.map (fun b => { base := b, pair := b })) ∧
    ∀ d ∈ diffByKeys keys column absolute rows rows, d.pair = d.base ∧ ∀ k : Key, diff64 (k.val d.base) (k.val d.pair) = 0 := by
  intro rows
  have hp := diffRows_self (cmpChainD (keys.map (Key.cmpDiff column absolute))) rows (nameRows_nodup ns size ids hnd)
  refine ⟨hp, ?_⟩
  intro d hd
  have := hp.mem_iff.mp hd
  obtain ⟨b, _, rfl⟩ := List.mem_map.mp this
  exact ⟨rfl, fun k => diff64_self _⟩

example : ([0, 1, 2, 7] : List Nat).Nodup := by decide

/-! ### calls still open at the end of the data -/

/-- A task whose data ends inside calls: `done` are its completed top-level calls, `spine` the
    calls still open (outermost first, each with the callees it completed).  The report is the
    report of the same task with every open call returning at the time of the last record:
    open calls are charged up to the last timestamp, and their callers get that time as child time. -/
theorem c08_open_calls_accounted (m : Nat) (done : Calls) (spine : Open)
    (hd : done.height ≤ m) (hs : openHeight spine ≤ m)
    (hwd : wtL done)
    (hw : wtL (closeAt (lastTimeOf 0 (evCalls 0 done ++ evOpen 0 spine)) spine)) :
    reportNodes false m [evCalls 0 done ++ evOpen 0 spine] =
      Nodes.upds (fun _ => {})
        (invsL [] (capp done (closeAt (lastTimeOf 0 (evCalls 0 done ++ evOpen 0 spine)) spine))) := by
  rw [report_open m done spine hd hs hw, updsL_eq _ [] ((wtL_capp _ _).mpr ⟨hwd, hw⟩)]

/-- non-vacuity: f1 entered at 10 is still open, completed f2 (20–30), then entered f3 at 40 (still
    open, no callees); the last record is f3's entry at 40 -/
example : let done : Calls := .cons (.node 5 1 9 .nil) .nil
    let spine : Open := [(1, 10, .cons (.node 2 20 30 .nil) .nil), (3, 40, .nil)]
    done.height ≤ 4 ∧ openHeight spine ≤ 4 ∧ wtL done ∧
    wtL (closeAt (lastTimeOf 0 (evCalls 0 done ++ evOpen 0 spine)) spine) := by
  simp [Calls.height, Call.height, openHeight, wtL, wt, closeAt, capp, durSum, durI, lastTimeOf, evCalls, evCall,
    evOpen, M64]

/-! ### the report keys its rows by NAME (any symbol table)

   `uftrace report` finds the node of an invocation by the *name* `symbol_getname` gives its
   address (`find_insert_node`, `insert_node`): every address inside a symbol of that name — two
   static functions of different files, the same name in two modules, overloads demangled alike,
   two addresses inside one function — shares one row; an address without a symbol has a row of
   its own (`<hex address>`).  So "each function" of the property is a function *as the user sees
   it*, a name: `ky.name a` is the row of address `a`, `ky.sym a` says whether `a` has a symbol.
   `reportNodesK ky m streams` is the model of that report; `ky.byName = true` is the repaired
   recursion test (proposed_fixes/C08-SAMENAME.diff), `false` the code as found (finding
   F-C08-SAMENAME).  `allInvsN ky.name forests` is the tree-defined list of invocations *by row*:
   row `name f`, duration, self time, and `recursive` = an open caller belongs to the same row.
   `allInvs forests` is the address-level list of the theorems above. -/

/-- the report's node of row `k` (a name) for a data set of complete forests -/
def nodeK (ky : Keying) (m : Nat) (forests : List Calls) (k : Nat) : Node :=
  reportNodesK ky m (streamsOf forests) k

/-- Core, any keying (as found or repaired), any symbol table, no hypothesis on the timestamps:
    the name-keyed node table is the empty table folded over the forests' invocations as the
    reader computes them. -/
theorem c08_named_report_is_tree_fold (ky : Keying) (m : Nat) (forests : List Calls)
    (hfit : ∀ cs ∈ forests, cs.height ≤ m) :
    reportNodesK ky m (streamsOf forests) = Nodes.upds (fun _ => {}) (allUpdsK ky forests) :=
  report_forestsK ky m forests hfit

/-- The name-keyed model extends the model of the theorems above: with a 1-1 symbol table (every
    address its own name) and the recursion test as found it is `reportNodes false` on *every*
    record stream (LOST, late starts, inverted timestamps included) … -/
theorem c08_named_extends_plain (sym : Nat → Bool) (m : Nat) (streams : List (List Rec)) :
    reportNodesK (Keying.plain sym) m streams = reportNodes false m streams :=
  reportNodesK_plain sym m streams

/-- … and on complete forests the repaired recursion test changes nothing when no two addresses
    share a name: every theorem about `node` holds for the repaired code on 1-1 symbol tables. -/
theorem c08_named_injective_is_plain (ky : Keying) (hid : ∀ a, ky.name a = a) (m : Nat) (forests : List Calls)
    (hfit : ∀ cs ∈ forests, cs.height ≤ m) (f : Nat) :
    nodeK ky m forests f = node m forests f := by
  unfold nodeK node
  rw [report_forestsK ky m forests hfit, report_forests m forests hfit, allUpdsK_id ky hid]

example : ∀ a, ({ name := id, sym := fun _ => true, byName := true } : Keying).name a = a := fun _ => rfl

/-- Calls of a row = the number of invocations of every address of that name (any keying, any
    table, no hypothesis on timestamps): each named function is listed once, in one row. -/
theorem c08_named_calls_exact (ky : Keying) (m : Nat) (forests : List Calls)
    (hfit : ∀ cs ∈ forests, cs.height ≤ m) (k : Nat) :
    (nodeK ky m forests k).call = (forKey k (allInvsN ky.name forests)).length ∧
    (forKey k (allInvsN ky.name forests)).length =
      ((allInvs forests).filter (fun u => ky.name u.key == k)).length := by
  refine ⟨?_, ?_⟩
  · unfold nodeK
    rw [report_forestsK ky m forests hfit, Nodes.upds_apply, Node.upds_call,
      forKey_length_tags k _ _ (allUpdsK_tags ky forests),
      (forKey_of_figs k _ _ (allInvsK_figs ky forests)).1]
    simp
  · have := forKey_of_named ky.name k _ _ (allInvsN_figs ky.name forests)
    have h2 := congrArg List.length this
    simpa using h2

/-- Self of a row = Σ over its invocations of (duration − Σ durations of the direct callees)
    (any keying, any table); these are the self times of the address-level invocations of every
    address of that name. -/
theorem c08_named_self_exact (ky : Keying) (m : Nat) (forests : List Calls)
    (hfit : ∀ cs ∈ forests, cs.height ≤ m) (hwt : ∀ cs ∈ forests, wtL cs) (k : Nat) :
    (nodeK ky m forests k).self.sum = ((forKey k (allInvsN ky.name forests)).map (·.self)).sum ∧
    (nodeK ky m forests k).self.recs = 0 ∧
    (forKey k (allInvsN ky.name forests)).map (·.self) =
      ((allInvs forests).filter (fun u => ky.name u.key == k)).map (·.self) := by
  refine ⟨?_, ?_, ?_⟩
  · unfold nodeK
    rw [report_forestsK ky m forests hfit, Nodes.upds_apply, Node.upds_self_sum,
      allUpdsK_eq ky forests hwt, (forKey_of_figs k _ _ (allInvsK_figs ky forests)).2.1]
    simp
  · unfold nodeK
    rw [report_forestsK ky m forests hfit, Nodes.upds_apply, Node.upds_self_recs]
  · have := forKey_of_named ky.name k _ _ (allInvsN_figs ky.name forests)
    have h2 := congrArg (List.map Prod.snd) this
    simpa [List.map_map, Function.comp_def] using h2

/-- Total of a row, repaired recursion test, sane symbol table: the summed duration of the row's
    invocations that do not run inside another invocation of the same row (the outermost ones);
    the others are summed in `rec`. -/
theorem c08_named_total_exact (ky : Keying) (hb : ky.byName = true) (hw : ky.WF) (m : Nat) (forests : List Calls)
    (hfit : ∀ cs ∈ forests, cs.height ≤ m) (hwt : ∀ cs ∈ forests, wtL cs) (k : Nat) :
    (nodeK ky m forests k).total.sum =
        (((forKey k (allInvsN ky.name forests)).filter (fun u => !u.recursive)).map (·.total)).sum ∧
    (nodeK ky m forests k).total.recs =
        (((forKey k (allInvsN ky.name forests)).filter (fun u => u.recursive)).map (·.total)).sum := by
  unfold nodeK
  rw [report_forestsK ky m forests hfit, Nodes.upds_apply, Node.upds_total_sum, Node.upds_total_recs,
    allUpdsK_eq ky forests hwt, allInvsK_eq_allInvsN ky hb hw forests]
  simp

/-- a keying with several addresses per name (2 and 3 are both `dup`), addresses without symbol
    (10 and above), repaired test: it is sane -/
def exKy (fixed : Bool) : Keying :=
  { name := fun a => if a = 3 then 2 else a, sym := fun a => decide (a < 10), byName := fixed }

theorem exKy_wf (fixed : Bool) : (exKy fixed).WF := by
  intro a b h
  simp only [exKy] at h ⊢
  by_cases ha : a = 3 <;> by_cases hb : b = 3 <;> simp [ha, hb] at h ⊢ <;> omega

example : (exKy true).byName = true ∧ (exKy true).WF := ⟨rfl, exKy_wf true⟩

/-- With the repaired test no row's Total exceeds the summed duration of the data set's top-level
    calls: the outermost invocations of a row never overlap (this is what the recursion test is
    for, and what fails before the repair: `c08_prefix_samename_witness`). -/
theorem c08_named_total_le_toplevel (ky : Keying) (hb : ky.byName = true) (hw : ky.WF) (m : Nat)
    (forests : List Calls) (hfit : ∀ cs ∈ forests, cs.height ≤ m) (hwt : ∀ cs ∈ forests, wtL cs) (k : Nat) :
    (nodeK ky m forests k).total.sum ≤ (forests.map durSum).sum := by
  rw [(c08_named_total_exact ky hb hw m forests hfit hwt k).1]
  exact nonrec_le_forests ky.name k forests hwt

theorem allInvsN_self_sum (name : Nat → Nat) : ∀ (forests : List Calls), (∀ cs ∈ forests, wtL cs) →
    ((allInvsN name forests).map (·.self)).sum = (forests.map durSum).sum
  | [], _ => rfl
  | cs :: rest, h => by
    have ih := allInvsN_self_sum name rest (fun x hx => h x (List.mem_cons_of_mem _ hx))
    unfold allInvsN at ih ⊢
    simp only [List.flatMap_cons, List.map_append, List.sum_append, List.map_cons, List.sum_cons]
    rw [invsLN_self_sum name cs [] (h cs List.mem_cons_self), ih]

/-- Telescoping for the name-keyed table (any keying, any table): over any list of distinct
    names that covers the rows of the data set, the Self column adds up to the summed duration of
    all tasks' top-level calls. -/
theorem c08_named_self_telescopes (ky : Keying) (m : Nat) (forests : List Calls)
    (hfit : ∀ cs ∈ forests, cs.height ≤ m) (hwt : ∀ cs ∈ forests, wtL cs) (keys : List Nat) (hnd : keys.Nodup)
    (hcov : ∀ u ∈ allInvsN ky.name forests, u.key ∈ keys) :
    (keys.map (fun k => (nodeK ky m forests k).self.sum)).sum = (forests.map durSum).sum := by
  have h1 : ∀ k, (nodeK ky m forests k).self.sum = ((forKey k (allInvsN ky.name forests)).map (·.self)).sum :=
    fun k => (c08_named_self_exact ky m forests hfit hwt k).1
  simp only [h1]
  rw [sum_forKey_self keys hnd _ hcov, allInvsN_self_sum ky.name forests hwt]

example : ∃ keys : List Nat, keys.Nodup ∧ ∀ u ∈ allInvsN (exKy true).name [exForest, exForest], u.key ∈ keys :=
  ⟨[1, 2], by decide, by simp [allInvsN, exForest, invsLN, invsN, exKy]⟩

/-- min / max / avg of a row (any keying, any table): the extremal durations of the row's
    invocations (all of them), avg the C integer division of their sum (mod 2^64) by Calls — the
    columns of --avg-total / --avg-self. -/
theorem c08_named_min_max_avg (ky : Keying) (m : Nat) (forests : List Calls)
    (hfit : ∀ cs ∈ forests, cs.height ≤ m) (hwt : ∀ cs ∈ forests, wtL cs) (k : Nat)
    (hcalled : forKey k (allInvsN ky.name forests) ≠ []) :
    let totals := (forKey k (allInvsN ky.name forests)).map (·.total)
    let selfs := (forKey k (allInvsN ky.name forests)).map (·.self)
    let n := nodeK ky m forests k
    (n.total.min ∈ totals ∧ ∀ d ∈ totals, n.total.min ≤ d) ∧
    (n.total.max ∈ totals ∧ ∀ d ∈ totals, d ≤ n.total.max) ∧
    (n.self.min ∈ selfs ∧ ∀ d ∈ selfs, n.self.min ≤ d) ∧
    (n.self.max ∈ selfs ∧ ∀ d ∈ selfs, d ≤ n.self.max) ∧
    n.total.avg n.call = (totals.sum % M64) / totals.length ∧
    n.self.avg n.call = (selfs.sum % M64) / selfs.length := by
  intro totals selfs n
  obtain ⟨hlen, hs, ht⟩ := forKey_of_figs k _ _ (allInvsK_figs ky forests)
  have hn : n = ({} : Node).upds (forKey k (allInvsK ky forests)) := by
    show reportNodesK ky m (streamsOf forests) k = _
    rw [report_forestsK ky m forests hfit, Nodes.upds_apply, allUpdsK_eq ky forests hwt]
  have hne : forKey k (allInvsK ky forests) ≠ [] := by
    intro e
    rw [e] at hlen
    exact hcalled (List.length_eq_zero_iff.mp hlen.symm)
  have hmemN : ∀ u ∈ forKey k (allInvsN ky.name forests), u.total < M64 ∧ u.self < M64 := by
    intro u hu
    have hu' : u ∈ allInvsN ky.name forests := (List.mem_filter.mp hu).1
    obtain ⟨cs, hcs, hin⟩ := List.mem_flatMap.mp hu'
    exact invsLN_lt ky.name cs [] (hwt cs hcs) u hin
  have hmem : ∀ u ∈ forKey k (allInvsK ky forests), u.total < M64 ∧ u.self < M64 := by
    intro u hu
    have h1 : u.total ∈ (forKey k (allInvsN ky.name forests)).map (·.total) := ht ▸ List.mem_map_of_mem hu
    have h2 : u.self ∈ (forKey k (allInvsN ky.name forests)).map (·.self) := hs ▸ List.mem_map_of_mem hu
    obtain ⟨v, hv, e1⟩ := List.mem_map.mp h1
    obtain ⟨w, hw', e2⟩ := List.mem_map.mp h2
    exact ⟨e1 ▸ (hmemN v hv).1, e2 ▸ (hmemN w hw').2⟩
  have := min_max_avg_of_upds (forKey k (allInvsK ky forests)) hne hmem
  simp only [ht, hs, ← hn] at this
  exact this

example : forKey 2 (allInvsN (exKy true).name [exForest, exForest]) ≠ [] := by
  simp [allInvsN, exForest, invsLN, invsN, forKey, exKy]

/-- the finding's shape: `main` (1) calls `dup` at address 2, which calls the other `dup` at
    address 3 (both named 2), 1000–2000, 1100–1900, 1200–1500 -/
def dupForest : Calls :=
  .cons (.node 1 1000 2000 (.cons (.node 2 1100 1900 (.cons (.node 3 1200 1500 .nil) .nil)) .nil)) .nil

/-- F-C08-SAMENAME witness (the code as found, `byName = false`): the row `dup` gets Total
    800 + 300 = 1100 ns although the whole program ran 1000 ns (its two invocations are nested, the
    inner one is not taken for recursive because its address differs); Calls and Self are right.
    The repaired test gives 800 ns, the duration of the outermost invocation. -/
theorem c08_prefix_samename_witness :
    (nodeK (exKy false) 8 [dupForest] 2).total.sum = 1100 ∧
    (nodeK (exKy false) 8 [dupForest] 1).total.sum = 1000 ∧ durSum dupForest = 1000 ∧
    (nodeK (exKy false) 8 [dupForest] 2).call = 2 ∧ (nodeK (exKy false) 8 [dupForest] 2).self.sum = 800 ∧
    (nodeK (exKy true) 8 [dupForest] 2).total.sum = 800 ∧ (nodeK (exKy true) 8 [dupForest] 2).total.recs = 300 := by
  decide

/-! ### the task report (`--task`) -/

/-- `report --task -s KEYS` with the repaired `tid` comparison: for every accepted key list the
    printed rows are the task rows reordered so that no row is followed by one that compares
    greater under the requested chain (total, self, func = number of functions: larger first;
    tid: smaller tid first, compared as numbers; name: the task's comm). -/
theorem c08_task_rows_sorted (names : List String) (rows out : List Row)
    (h : sortTaskRows true names rows = some out) :
    out.Perm rows ∧
    out.Pairwise (fun a b => ¬ cmpChain ((names.map (taskCmpT true)).filterMap id) a b < 0) :=
  sortTaskRows_spec names rows out h

example : ∃ out, sortTaskRows true ["func", "tid"] [zeroRow 100, zeroRow 99] = some out := ⟨_, rfl⟩

/-- `-s tid`: the TID column is in ascending numeric order. -/
theorem c08_task_tid_numeric (rows out : List Row) (h : sortTaskRows true ["tid"] rows = some out) :
    out.Perm rows ∧ out.Pairwise (fun a b => a.key ≤ b.key) := by
  obtain ⟨hp, hd⟩ := sortTaskRows_spec ["tid"] rows out h
  refine ⟨hp, hd.imp ?_⟩
  intro a b hab
  have e : ((["tid"].map (taskCmpT true)).filterMap id) = [fun a b => cmpNat b.key a.key] := by
    simp [taskCmpT]
  rw [e] at hab
  simp only [cmpChain, cmpNat] at hab
  by_cases h1 : b.key = a.key
  · omega
  · by_cases h2 : b.key > a.key
    · omega
    · simp [h1, h2] at hab

/-- F-C08-TIDSORT witness (the code as found: `strcmp` on the decimal strings): `-s tid` puts tid
    100 before tid 99; the repaired comparison puts 99 first. -/
theorem c08_prefix_tid_sort_witness :
    sortTaskRows false ["tid"] [zeroRow 99, zeroRow 100] = some [zeroRow 100, zeroRow 99] ∧
    sortTaskRows true ["tid"] [zeroRow 100, zeroRow 99] = some [zeroRow 99, zeroRow 100] := by
  decide

/-! ### `--diff-policy percent` of a data set against itself -/

/-- With the percent policy a node table diffed against itself pairs every row with itself, adds
    no row, and every percentage it shows is 0 (numerator 0; a zero figure is printed `N/A`) —
    whatever sort keys, --sort-column and abs/no-abs. -/
theorem c08_percent_diff_self_zero (keys : List Key) (column : Nat) (absolute : Bool)
    (ns : Nodes) (size : Nat → Nat) (ids : List Nat) (hnd : ids.Nodup) :
    let rows := nameRows ns size ids
    (diffByKeysP keys column absolute true rows rows).Perm (rows.map (fun b => { base := b, pair := b })) ∧
    ∀ d ∈ diffByKeysP keys column absolute true rows rows, d.pair = d.base ∧
      ∀ k : Key, (pcntOf (diff64 (k.val d.base) (k.val d.pair)) (k.val d.base)).1 = 0 := by
  intro rows
  have hp := diffRows_self (cmpChainD (keys.map (Key.cmpDiffP column absolute true))) rows
    (nameRows_nodup ns size ids hnd)
  refine ⟨hp, ?_⟩
  intro d hd
  have := hp.mem_iff.mp hd
  obtain ⟨b, _, rfl⟩ := List.mem_map.mp this
  exact ⟨rfl, fun k => pcntOf_self _⟩

end Uft.C08
