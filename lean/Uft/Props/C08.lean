import Uft.Model.Report
/- C08 — placeholder while the harness is brought up -/
namespace Uft.C08
open Uft.Report

theorem c08_placeholder (a b : Nat) : add64 a b < M64 := by
  unfold add64 M64; omega

end Uft.C08
