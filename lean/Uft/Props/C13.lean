import Uft.Model.Demangle
import Uft.Lemmas.DemangleSpec
/-!
# C13 — Symbol demangling is total, safe and correct for compiler-produced names

Model: `Uft/Model/Demangle.lean` (port of the simple demangler of `utils/demangle.c`,
tables generated into `Uft/Gen/DemangleTables.lean`).  `Fixes.all` is the code with the
minimal repairs of findings F10, F10b, F10c, F10d, F10e, F10g; `Fixes.none` is the tree
as it is (the `c13_prefix_*_witness` theorems show that each finding is real there).

The main lemma `run_spec` (Lemmas/DemangleSpec.lean) proves, by induction on the fuel, a
summary of each of the 34 mutually recursive grammar functions / loops.
-/
namespace Uft.Demangle

/-- the part of the name that is parsed (after an optional `_GLOBAL__sub_I_`) -/
def parsedPart (s : Array UInt8) : Array UInt8 :=
  if globalPrefix.isPrefixOf s.toList then s.extract 15 s.size else s

/-- "a mangled name should start with `_Z`" -/
def isMangled (s : Array UInt8) : Bool :=
  (parsedPart s).getD 0 0 == 95 && (parsedPart s).getD 1 0 == 90

/-- the initial parser state and environment of `demangle_simple` -/
def env0 (fx : Fixes) (s : Array UInt8) : Env := { s := parsedPart s, fx := fx }
def st0 (s : Array UInt8) : St := { pos := 0, len := (parsedPart s).size }

/-! ## position monotonicity, memory safety of the input side, termination -/

/-- **Position monotonicity** (all 34 grammar functions and loops, repaired code).  Started in a state
    with `pos ≤ strlen`, `len ≤ strlen` (`old[len]` being the NUL or the `.`/`@` where `dd_encoding`
    cut the name) and with enough fuel, every grammar function returns normally with
    `entry pos - δ ≤ pos ≤ strlen` where `δ = 1` for `dd_expression`, `dd_unresolved_name`,
    `dd_base_unresolved_name`, `dd_simple_id`, `dd_expr_list` (and their loops) — `dd_simple_id` executes
    `dd->pos--` on a non-digit — and `δ = 0` for all others; `len` never grows; a successful call
    (`ret ≥ 0`) of a non-loop function consumes at least one character. -/
theorem c13_pos_monotone (n : Nat) (f : Fn) (e : Env) (st : St) (hfx : e.fx = Fixes.all)
    (hl : st.len ≤ e.n) (hp : st.pos ≤ e.n) (hs : Stop e st.len) (hfuel : Need f e st n) (hd : delta f ≤ st.pos) :
    ∃ r st', run n f e st = .ok r st' ∧ st.pos ≤ st'.pos + delta f ∧ st'.pos ≤ e.n ∧
      st'.len ≤ st.len ∧ st'.len ≤ e.n ∧ Stop e st'.len ∧ Prog f st.pos r st'.pos := by
  obtain ⟨r, st', h, p1, p2, p3, p4, _, p6, p7, _⟩ := run_spec n f e st hfx hl hp hs hfuel hd
  refine ⟨r, st', h, ?_, p2, p4, p1, p3, p7⟩
  have := exN_le st'
  have : delta f * exN st' ≤ delta f := by
    cases hx : exN st' with
    | zero => simp
    | succ k => have : k = 0 := by omega
                subst this; simp
  omega

/-- non-vacuity: the hypotheses hold for the initial state of `demangle_simple` -/
example (s : Array UInt8) : Need .encoding (env0 Fixes.all s) (st0 s) (8 * ((parsedPart s).size + 1)) := by
  simp [Need, rank, st0, env0, Env.n]; omega

theorem st0_inv (fx : Fixes) (s : Array UInt8) :
    (st0 s).len ≤ (env0 fx s).n ∧ (st0 s).pos ≤ (env0 fx s).n ∧ Stop (env0 fx s) (st0 s).len := by
  refine ⟨Nat.le_refl _, Nat.zero_le _, Or.inl rfl⟩

theorem parsedPart_size_le (s : Array UInt8) : (parsedPart s).size ≤ s.size := by
  unfold parsedPart
  split
  · simp
  · exact Nat.le_refl _

/-- **Termination in bounded time, memory safety, totality** (repaired code): with any fuel
    `≥ 8 * (strlen + 1)` the demangler returns a string: it never reads `old[i]` beyond the NUL
    (`Crash.oob`), never moves `pos` below 0 (`Crash.negPos`), never hits one of the repaired defects,
    and never runs out of fuel — the depth of the call/iteration chain is at most `8 * strlen + 8`. -/
theorem c13_fuel_suffices (s : Array UInt8) (fuel : Nat) (hf : 8 * (s.size + 1) ≤ fuel) :
    ∃ bs, demangleWith Fixes.all fuel s = .str bs := by
  have hsz := parsedPart_size_le s
  unfold demangleWith
  simp only
  split
  · exact ⟨_, rfl⟩
  · obtain ⟨h1, h2, h3⟩ := st0_inv Fixes.all s
    have hrun := run_spec fuel .encoding (env0 Fixes.all s) (st0 s) rfl h1 h2 h3
      (by simp [Need, rank, st0, env0, Env.n]; omega) (by simp [delta])
    obtain ⟨r, st, hr, p1, p2, p3, p4, _⟩ := hrun
    have hr' : run fuel Fn.encoding { s := parsedPart s, fx := Fixes.all } { pos := 0, len := (parsedPart s).size } =
        .ok r st := hr
    unfold parsedPart at hr'
    rw [hr']
    simp only
    split
    · exact ⟨_, rfl⟩
    · split
      · split <;> exact ⟨_, rfl⟩
      · split
        · exact ⟨_, rfl⟩
        · have hrun2 := run_spec fuel .name (env0 Fixes.all s) st rfl p1 p2 p3
            (by simp [Need, rank, env0, Env.n]; omega) (by simp [delta])
          obtain ⟨r2, st2, hr2, _⟩ := hrun2
          have hr2' : run fuel Fn.name { s := parsedPart s, fx := Fixes.all } st = .ok r2 st2 := hr2
          unfold parsedPart at hr2'
          rw [hr2']
          simp only
          split
          · exact ⟨_, rfl⟩
          · split <;> exact ⟨_, rfl⟩

/-- **Totality**: for every byte string the (repaired) demangler returns a string. -/
theorem c13_total_returns_string (s : Array UInt8) : ∃ bs, demangle Fixes.all s = .str bs :=
  c13_fuel_suffices s (fuelFor s) (by unfold fuelFor; omega)

/-- **Input-side memory safety** (and absence of every other modelled crash): the result is never a crash,
    in particular never `Crash.oob` (a read of `old[i]` beyond the terminating NUL). -/
theorem c13_no_oob (s : Array UInt8) (k : Crash) : demangle Fixes.all s ≠ .crash k := by
  obtain ⟨bs, h⟩ := c13_total_returns_string s
  rw [h]
  intro h'
  cases h'

end Uft.Demangle
