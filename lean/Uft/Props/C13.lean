import Uft.Model.Demangle
import Uft.Lemmas.DemangleSpec
import Uft.Lemmas.DemangleMangle
import Uft.Lemmas.DemangleMangleT
/-!
# C13 — Symbol demangling is total, safe and correct for compiler-produced names

Model: `Uft/Model/Demangle.lean` (port of the simple demangler of `utils/demangle.c`,
tables generated into `Uft/Gen/DemangleTables.lean`).  `Fixes.all` is the code with the
minimal repairs of findings F10, F10b, F10c, F10d, F10e, F10g; `Fixes.none` is the tree
as it is (the `c13_prefix_*_witness` theorems show that each finding is real there).

The main lemma `run_spec` (Lemmas/DemangleSpec.lean) proves, by induction on the fuel, a
summary of each of the 34 mutually recursive grammar functions / loops.
-/
namespace Uft.Demangle

/-- the part of the name that is parsed (after an optional `_GLOBAL__sub_I_`) -/
def parsedPart (s : Array UInt8) : Array UInt8 :=
  if globalPrefix.isPrefixOf s.toList then s.extract 15 s.size else s

/-- "a mangled name should start with `_Z`" -/
def isMangled (s : Array UInt8) : Bool :=
  (parsedPart s).getD 0 0 == 95 && (parsedPart s).getD 1 0 == 90

theorem demangleWith_eq (fx : Fixes) (fuel : Nat) (s : Array UInt8) :
    demangleWith fx fuel s = demangleCore fx fuel s.toList (globalPrefix.isPrefixOf s.toList) (parsedPart s) := rfl

/-! ## position monotonicity, memory safety of the input side, termination -/

/-- **Position monotonicity** (all 34 grammar functions and loops, repaired code).  Started in a state
    with `pos ≤ strlen`, `len ≤ strlen` (`old[len]` being the NUL or the `.`/`@` where `dd_encoding`
    cut the name) and with enough fuel, every grammar function returns normally with
    `entry pos - δ ≤ pos ≤ strlen` where `δ = 1` for `dd_expression`, `dd_unresolved_name`,
    `dd_base_unresolved_name`, `dd_simple_id`, `dd_expr_list` (and their loops) — `dd_simple_id` executes
    `dd->pos--` on a non-digit — and `δ = 0` for all others; `len` never grows; a successful call
    (`ret ≥ 0`) of a non-loop function consumes at least one character. -/
theorem c13_pos_monotone (n : Nat) (f : Fn) (e : Env) (st : St) (hfx : e.fx = Fixes.all)
    (hl : st.len ≤ e.n) (hp : st.pos ≤ e.n) (hs : Stop e st.len) (hfuel : Need f e st n) (hd : delta f ≤ st.pos) :
    ∃ r st', run n f e st = .ok r st' ∧ st.pos ≤ st'.pos + delta f ∧ st'.pos ≤ e.n ∧
      st'.len ≤ st.len ∧ st'.len ≤ e.n ∧ Stop e st'.len ∧ Prog f st.pos r st'.pos := by
  obtain ⟨r, st', h, p1, p2, p3, p4, _, p6, p7, _⟩ := run_spec n f e st hfx hl hp hs hfuel hd
  refine ⟨r, st', h, ?_, p2, p4, p1, p3, p7⟩
  have := exN_le st'
  have : delta f * exN st' ≤ delta f := by
    cases hx : exN st' with
    | zero => simp
    | succ k => have : k = 0 := by omega
                subst this; simp
  omega

/-- non-vacuity: the hypotheses hold for the initial state of `demangle_simple` -/
example (fx : Fixes) (body : Array UInt8) :
    Need .encoding { s := body, fx := fx } { pos := 0, len := body.size } (8 * (body.size + 1)) := by
  simp [Need, rank, Env.n]; omega

theorem parsedPart_size_le (s : Array UInt8) : (parsedPart s).size ≤ s.size := by
  unfold parsedPart
  split
  · simp
  · exact Nat.le_refl _

theorem core_total (fuel : Nat) (orig : List UInt8) (hp : Bool) (body : Array UInt8) (hf : 8 * (body.size + 1) ≤ fuel) :
    ∃ bs, demangleCore Fixes.all fuel orig hp body = .str bs := by
  unfold demangleCore
  split
  · exact ⟨_, rfl⟩
  · have hrun := run_spec fuel .encoding { s := body, fx := Fixes.all } { pos := 0, len := body.size } rfl
      (Nat.le_refl _) (Nat.zero_le _) (Or.inl rfl) (by simp [Need, rank, Env.n]; omega) (by simp [delta])
    obtain ⟨r, st, hr, p1, p2, p3, p4, _⟩ := hrun
    simp only [hr]
    split
    · exact ⟨_, rfl⟩
    · split
      · split <;> exact ⟨_, rfl⟩
      · split
        · exact ⟨_, rfl⟩
        · have hrun2 := run_spec fuel .name { s := body, fx := Fixes.all } st rfl p1 p2 p3
            (by simp [Need, rank, Env.n] at *; omega) (by simp [delta])
          obtain ⟨r2, st2, hr2, _⟩ := hrun2
          simp only [hr2]
          split
          · exact ⟨_, rfl⟩
          · split <;> exact ⟨_, rfl⟩

/-- **Termination in bounded time, memory safety, totality** (repaired code): with any fuel
    `≥ 8 * (strlen + 1)` the demangler returns a string: it never reads `old[i]` beyond the NUL
    (`Crash.oob`), never moves `pos` below 0 (`Crash.negPos`), never hits one of the repaired defects,
    and never runs out of fuel — the depth of the call/iteration chain is at most `8 * strlen + 8`. -/
theorem c13_fuel_suffices (s : Array UInt8) (fuel : Nat) (hf : 8 * (s.size + 1) ≤ fuel) :
    ∃ bs, demangleWith Fixes.all fuel s = .str bs := by
  rw [demangleWith_eq]
  have := parsedPart_size_le s
  exact core_total fuel _ _ _ (by omega)

/-- **Totality**: for every byte string the (repaired) demangler returns a string. -/
theorem c13_total_returns_string (s : Array UInt8) : ∃ bs, demangle Fixes.all s = .str bs :=
  c13_fuel_suffices s (fuelFor s) (by unfold fuelFor; omega)

/-- **Input-side memory safety** (and absence of every other modelled crash): the result is never a crash,
    in particular never `Crash.oob` (a read of `old[i]` beyond the terminating NUL). -/
theorem c13_no_oob (s : Array UInt8) (k : Crash) : demangle Fixes.all s ≠ .crash k := by
  obtain ⟨bs, h⟩ := c13_total_returns_string s
  rw [h]
  intro h'
  cases h'

/-! ## fallback to the input -/

/-- **Not a supported mangled name ⇒ unchanged**: a name that (after an optional `_GLOBAL__sub_I_`) does
    not start with `_Z` comes back unchanged — this covers plain C names, Rust v0 (`_R…`) names, and every
    choice of repairs and fuel. -/
theorem c13_unmangled_identity (fx : Fixes) (fuel : Nat) (s : Array UInt8) (h : isMangled s = false) :
    demangleWith fx fuel s = .str s.toList := by
  rw [demangleWith_eq]
  unfold demangleCore
  unfold isMangled at h
  split
  · rfl
  · rename_i hh
    rw [h] at hh
    simp at hh

/-- **Parse error ⇒ the input is returned**: whenever `dd_encoding` fails (`ret < 0`), or leaves
    `dd.level != 0`, or stops before the end of a name that is not a type-info name, or the trailing
    `dd_name` fails, the result is the input string itself. -/
theorem c13_fallback_identity (fx : Fixes) (fuel : Nat) (s : Array UInt8) (r : Int) (st : St)
    (hrun : run fuel .encoding { s := parsedPart s, fx := fx } { pos := 0, len := (parsedPart s).size } = .ok r st)
    (hfail : r < 0 ∨ st.level ≠ 0 ∨ (st.pos < st.len ∧ st.typeInfo = false) ∨
      (st.pos < st.len ∧ ∃ r2 st2, run fuel .name { s := parsedPart s, fx := fx } st = .ok r2 st2 ∧ r2 < 0)) :
    demangleWith fx fuel s = .str s.toList := by
  rw [demangleWith_eq]
  unfold demangleCore
  split
  · rfl
  · simp only [hrun]
    rcases hfail with h | h | ⟨h1, h2⟩ | ⟨h1, r2, st2, h2, h3⟩
    · simp [h]
    · simp [h]
    · split
      · rfl
      · have : ¬ st.pos ≥ st.len := by omega
        simp [this, h2]
    · split
      · rfl
      · have : ¬ st.pos ≥ st.len := by omega
        simp only [this, ↓reduceIte]
        split
        · rfl
        · simp [h2, h3]

/-- non-vacuity of `c13_fallback_identity`: `_ZN3fooE3` fails to parse and comes back unchanged -/
example : demangle Fixes.all #[95, 90, 78, 51, 102, 111, 111] = .str [95, 90, 78, 51, 102, 111, 111] := by decide

/-- a plain identifier: letters, digits, `_`, `$`, `.` that does not start with `_Z` / `_GLOBAL__sub_I__Z` -/
def isPlain (s : Array UInt8) : Bool := isMangled s == false

/-- **Idempotent on plain names**: demangling a name that is already plain changes nothing; in
    particular demangling twice equals demangling once for them. -/
theorem c13_idempotent_on_plain (fx : Fixes) (s : Array UInt8) (h : isPlain s = true) :
    demangle fx s = .str s.toList ∧ demangle fx s.toList.toArray = .str s.toList := by
  have h' : isMangled s = false := by simpa [isPlain] using h
  constructor
  · exact c13_unmangled_identity fx _ s h'
  · have : s.toList.toArray = s := by simp
    rw [this]
    exact c13_unmangled_identity fx _ s h'

/-- non-vacuity: `main` is plain -/
example : isPlain #[109, 97, 105, 110] = true := by decide

/-! ## the defects of the tree as it is (`Fixes.none`): one witness per finding -/

/-- F10: `_ZC1v` — a constructor code before any name was emitted: `strrchr(dd->new == NULL, ':')`
    (`/repo/misc/demangler _ZC1v` segfaults) -/
theorem c13_prefix_f10_witness : demangle Fixes.none #[95, 90, 67, 49, 118] = .crash .nullDeref := by decide

/-- F10 is the known finding of the design round (same witness, longer name `_ZNC1Ev`) -/
theorem c13_prefix_ctor_null_witness :
    demangle Fixes.none #[95, 90, 78, 67, 49, 69, 118] = .crash .nullDeref := by decide

/-- F10b: `_ZT` — `strchr(T_type, '\0')` succeeds and `T_type_name[6]` is read out of bounds -/
theorem c13_prefix_f10b_witness : demangle Fixes.none #[95, 90, 84] = .crash .tableOob := by decide

set_option maxRecDepth 8000 in
/-- F10c: `_Z1fD` — `dd_type` returns 0 without consuming the `D`, `dd_encoding` loops forever:
    the fuel that provably suffices for the repaired code runs out -/
theorem c13_prefix_f10c_witness : demangle Fixes.none #[95, 90, 49, 102, 68] = .outOfFuel := by decide

/-- F10d: `_Z2147483647x` — `dd->pos + num` overflows `int` (then a 2 GB realloc and exit) -/
theorem c13_prefix_f10d_witness :
    demangle Fixes.none #[95, 90, 50, 49, 52, 55, 52, 56, 51, 54, 52, 55, 120] = .crash .intOverflow := by decide

/-- F10e: `_Z3a$C` — the rust mapping `$C` runs past the end of the name and `strchr` reads beyond the NUL -/
theorem c13_prefix_f10e_witness : demangle Fixes.none #[95, 90, 51, 97, 36, 67] = .crash .oob := by decide

/-- F10g: `_ZUt_` — the parse succeeds without output and `demangle()` returns NULL -/
theorem c13_prefix_f10g_witness : demangle Fixes.none #[95, 90, 85, 116, 95] = .null := by decide

/-- F10i: `_ZZ3foovEN1A3barE_01B` (g++: `foo()::A::bar(B)` with `B` the second local class of `foo`):
    `dd_discriminator` read the `_0` with `dd_number`, which took `01` and left `B` where a parameter type
    was expected: the parse failed and the name came back unchanged. -/
theorem c13_prefix_f10i_witness :
    demangle { Fixes.all with discDigit := false }
      #[95, 90, 90, 51, 102, 111, 111, 118, 69, 78, 49, 65, 51, 98, 97, 114, 69, 95, 48, 49, 66] =
      .str [95, 90, 90, 51, 102, 111, 111, 118, 69, 78, 49, 65, 51, 98, 97, 114, 69, 95, 48, 49, 66] ∧
    demangle Fixes.all
      #[95, 90, 90, 51, 102, 111, 111, 118, 69, 78, 49, 65, 51, 98, 97, 114, 69, 95, 48, 49, 66] =
      .str (bs%"foo::A::bar") := by decide +kernel

/-- F10k: `_ZN1CILf3fc00000EE1mEv` (g++ -std=c++20: `C<1.5f>::m()`): the hex digits `3fc00000` of the
    floating-point literal were not skipped (`dd_number` stops at the `f`), the `E` was not found and the
    name came back unchanged. -/
theorem c13_prefix_f10k_witness :
    demangle { Fixes.all with floatLit := false }
      #[95, 90, 78, 49, 67, 73, 76, 102, 51, 102, 99, 48, 48, 48, 48, 48, 69, 69, 49, 109, 69, 118] =
      .str [95, 90, 78, 49, 67, 73, 76, 102, 51, 102, 99, 48, 48, 48, 48, 48, 69, 69, 49, 109, 69, 118] ∧
    demangle Fixes.all
      #[95, 90, 78, 49, 67, 73, 76, 102, 51, 102, 99, 48, 48, 48, 48, 48, 69, 69, 49, 109, 69, 118] =
      .str (bs%"C::m") := by decide +kernel

/-- F10j: `_Z1fIiEDTdvfp_fp0_ET_S1_` (g++ and clang++: `template<class T> auto f(T a, T b) -> decltype(a / b)`
    instantiated with `int`): the binary-operator loop of `dd_expression` skipped every code with
    `c1 == 'v'` (meant for `cv`), so `dv` fell through to `dd_unresolved_name`, the parse failed and the name
    came back unchanged (likewise `cm`, `co`; `nw`/`na` were taken for binary operators). -/
theorem c13_prefix_f10j_witness :
    demangle { Fixes.all with exprOps := false } #[95, 90, 49, 102, 73, 105, 69, 68, 84, 100, 118, 102, 112, 95, 102, 112, 48, 95, 69, 84, 95, 83, 49, 95] =
      .str [95, 90, 49, 102, 73, 105, 69, 68, 84, 100, 118, 102, 112, 95, 102, 112, 48, 95, 69, 84, 95, 83, 49, 95] ∧
    demangle Fixes.all #[95, 90, 49, 102, 73, 105, 69, 68, 84, 100, 118, 102, 112, 95, 102, 112, 48, 95, 69, 84, 95, 83, 49, 95] = .str (bs%"f") := by decide +kernel

/-- with the repairs these inputs come back unchanged; `_Z3a$C` becomes `aa$C` (the code re-appends the
    text before an unmapped `$`, observation F10h — a wrong result, not a memory error, kept as is) -/
example : demangle Fixes.all #[95, 90, 67, 49, 118] = .str [95, 90, 67, 49, 118] := by decide
example : demangle Fixes.all #[95, 90, 84] = .str [95, 90, 84] := by decide
example : demangle Fixes.all #[95, 90, 49, 102, 68] = .str [95, 90, 49, 102, 68] := by decide
example : demangle Fixes.all #[95, 90, 51, 97, 36, 67] = .str [97, 97, 36, 67] := by decide
example : demangle Fixes.all #[95, 90, 85, 116, 95] = .str [95, 90, 85, 116, 95] := by decide

/-! ## partial correctness: demangle ∘ mangle -/

/-- **demangle ∘ mangle = qualified name** for the declarations `Decl` (Lemmas/DemangleMangle.lean):
    a function, constructor `C<k>`, destructor `D<k>` or member operator (any entry of the generated
    `ops[]` table except the conversion and literal operators) in one or more nested namespaces / classes
    with builtin parameter types (codes of the generated `types[]` table).  `mangle d` is the Itanium
    encoding `_ZN <len><id>… [C<k>|D<k>|<op>] E <type>*`; identifiers are arbitrary byte strings of
    length `< 2^31` that are non-empty, do not start with a digit, contain no `$` (and no `:` for the class
    name of a constructor / destructor) and are not of the form `h<16 hex digits>` (which the code takes
    for a Rust hash).  The result is `a::b::f`, `a::K::K`, `a::K::~K`, `a::K::operator+`, …

    Not covered by this theorem (covered by the compiled corpus of the check instead): non-nested names,
    template arguments, substitutions, non-builtin parameter types, conversion / literal operators. -/
theorem c13_mangle_demangle_partial (d : Decl) (h : d.Ok) :
    demangle Fixes.all (mangle d).toArray = .str (qualifiedName d) := demangle_mangle d h

/-- non-vacuity: `ns::K::K(int)`, i.e. `_ZN2ns1KC1Ei`, satisfies the hypotheses, and the theorem gives `ns::K::K` -/
def declExample : Decl := { scope := [[110, 115]], name := [75], leaf := .ctor 49, params := [105] }

theorem declExample_ok : declExample.Ok where
  ids := by
    intro id hid
    simp only [Decl.path, declExample, List.cons_append, List.nil_append, List.mem_cons, List.not_mem_nil, or_false] at hid
    rcases hid with rfl | rfl <;> exact ⟨by decide, by decide, by decide, by decide, by decide⟩
  nocolon := by decide
  leaf := by simp [declExample, Leaf.Ok]; decide
  params := by decide

example : mangle declExample = [95, 90, 78, 50, 110, 115, 49, 75, 67, 49, 69, 105] := by decide
example : demangle Fixes.all (mangle declExample).toArray = .str [110, 115, 58, 58, 75, 58, 58, 75] :=
  c13_mangle_demangle_partial declExample declExample_ok

/-! ## class templates with non-type arguments: counters balanced, later components still emitted -/

/-- **`dd->type`, `dd->level`, `dd->templates` are balanced by `dd_template_args`** on a well-formed argument
    list `I <arg>+ E` whose arguments are builtin types, integer literals `L<type><k>E`, references
    `L_Z<name>E` and addresses `XadL_Z<name><types>EE`: started with `templates == 0` and enough fuel the
    function returns 0 in a state that differs from the entry state *only in `pos`* — in particular
    `type`, `level`, `templates`, the output buffer and `first_name` are unchanged, so the name components that
    follow the arguments are emitted.  (This is the invariant that a missing `dd->type--` on the `L_Z…E` path
    of `dd_expr_primary` breaks.) -/
theorem c13_template_args_balanced (e : Env) (st : St) (hfx : e.fx = Fixes.all) (args : List TArg) (F : Nat)
    (rest : List UInt8) (hok : ∀ a ∈ args, a.Ok) (hF : argsNeed args ≤ F) (hl : st.len = e.n) (htm : st.templates = 0)
    (h : Rest e st.pos (targsBytes args ++ rest)) :
    run (F + args.length + 2) .templateArgs e st = .ok 0 { st with pos := st.pos + (targsBytes args).length } :=
  templateArgs_eq hfx args F rest hok hF hl htm h

/-- The balance does **not** hold for every successful call on arbitrary input: `dd_type` ignores the result
    of `dd_vector_type`, which returns early after `dd->type++` on the malformed vector type `Dvx`; the
    counter stays raised and the later component `b` is dropped (`/repo/misc/demangler _ZN1aIDvxE1bEv`
    prints `a`; with the well-formed `Dv4_x` it prints `a::b`).  Not a compiler-produced name. -/
theorem c13_counter_leak_malformed_witness :
    demangle Fixes.all #[95, 90, 78, 49, 97, 73, 68, 118, 120, 69, 49, 98, 69, 118] = .str [97] := by
  decide +kernel

example : demangle Fixes.all #[95, 90, 78, 49, 97, 73, 68, 118, 52, 95, 120, 69, 49, 98, 69, 118] = .str [97, 58, 58, 98] := by
  decide +kernel

/-- **demangle ∘ mangle with template arguments**: as `c13_mangle_demangle_partial`, but every scope and the
    innermost class / function may carry a template-argument list of builtin types, positive integer
    literals, `L_Z…E` references to globals and `XadL_Z…EE` addresses of functions or globals (`DeclT`,
    `mangleT`, Lemmas/DemangleMangleT.lean): the result is the qualified name without any argument list,
    e.g. `ns::Caller<&bar>::call()` = `_ZN2ns6CallerIXadL_Z3barvEEE4callEv` ↦ `ns::Caller::call`. -/
theorem c13_mangle_demangle_templates_partial (d : DeclT) (h : d.Ok) :
    demangle Fixes.all (mangleT d).toArray = .str (qualifiedNameT d) := demangle_mangleT d h

/-- non-vacuity: the member of a class template instantiated with the address of a function -/
def declTExample : DeclT :=
  { scope := [⟨[110, 115], []⟩], name := ⟨[67, 97, 108, 108, 101, 114], [.addr [98, 97, 114] [118]]⟩,
    leaf := .ctor 49, params := [118] }

example : mangleT declTExample =
    [95, 90, 78, 50, 110, 115, 54, 67, 97, 108, 108, 101, 114, 73, 88, 97, 100, 76, 95, 90, 51, 98, 97, 114, 118, 69, 69,
     69, 67, 49, 69, 118] := by decide

theorem declTExample_ok : declTExample.Ok where
  ids := by
    intro c hc
    simp only [DeclT.path, declTExample, List.cons_append, List.nil_append, List.mem_cons, List.not_mem_nil, or_false] at hc
    rcases hc with rfl | rfl
    · exact ⟨⟨by decide, by decide, by decide, by decide, by decide⟩, by simp⟩
    · refine ⟨⟨by decide, by decide, by decide, by decide, by decide⟩, ?_⟩
      intro a ha
      simp only [List.mem_singleton] at ha
      subst ha
      exact ⟨⟨by decide, by decide, by decide, by decide⟩, by decide⟩
  nocolon := by decide
  leaf := by simp [declTExample, Leaf.Ok]; decide
  params := by decide

/-- `_ZN2ns6CallerIXadL_Z3barvEEEC1Ev` ↦ `ns::Caller::Caller` -/
example : demangle Fixes.all (mangleT declTExample).toArray =
    .str [110, 115, 58, 58, 67, 97, 108, 108, 101, 114, 58, 58, 67, 97, 108, 108, 101, 114] :=
  c13_mangle_demangle_templates_partial declTExample declTExample_ok

end Uft.Demangle
