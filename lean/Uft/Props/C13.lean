import Uft.Model.Demangle
/-!
# C13 — Symbol demangling is total, safe and correct for compiler-produced names
-/
namespace Uft.Demangle

/-- bytes of an ASCII string (for the witnesses) -/
def ascii (s : String) : Array UInt8 := (s.toList.map fun c => c.toNat.toUInt8).toArray

/-- F10: a constructor/destructor code before any name was emitted dereferences the NULL
    output buffer in the code as it is (`/repo/misc/demangler _ZC1v` segfaults) -/
theorem c13_prefix_ctor_null_witness :
    demangle Fixes.none #[95, 90, 67, 49, 118] = .crash .nullDeref := by decide

end Uft.Demangle
