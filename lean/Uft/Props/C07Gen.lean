import Uft.Lemmas.FstackGenEq
/- C07 — tie by translation (translators/c2lean.py): the definitions generated on every run from the current
text of utils/fstack.c (`Uft/Gen/FstackC.lean`) compute what the hand-written model `Uft/Model/Fstack.lean`
computes.  A change of `fstack_entry`, `fstack_exit` or `fstack_update` in the source tree changes the generated
definitions, and the theorems below stop checking unless the change preserves the modelled behaviour.
Mapping, abstractions and hypotheses: see `Uft/Lemmas/FstackGenEq.lean`. -/
namespace Uft.C07Gen
open Uft.Fstack Uft.Gen.C Uft.Gen.FstackC Uft.FstackGenEq

/-- **fstack_entry.**  For every option set, trigger table, reader state and record address: on a state that the
    mapping `Rel` relates to the model state `fs`, the generated `fstack_entry` ends in a state related to
    `(fsEntry c fs addr).1`, returns 0 exactly when the model accepts the record, and leaves in the func_stack
    slot the frame the model pushes.  Hypotheses (`EntryEnv`): the trigger `uftrace_match_filter` fills in encodes
    `c.trig addr` / `c.hide addr`; no fix-up matches; user record of a known session; the slot exists. -/
theorem c07_gen_fstack_entry_eq (c : RCfg) (o : Oracles) (task rstack tr : Ptr) (s : St) (fs : FS)
    (hr : Rel c fs s) (he : EntryEnv c o task rstack tr s) :
    Rel c (fsEntry c fs s.rstack_addr).1 (fstack_entry o task rstack tr s).1 ∧
    ((fstack_entry o task rstack tr s).2 == 0) = (fsEntry c fs s.rstack_addr).2 ∧
    SlotRel (topFr c (fsEntry c fs s.rstack_addr).1) (fstack_entry o task rstack tr s).1 :=
  fstack_entry_eq c o task rstack tr s fs hr he

/-- the hypotheses of `c07_gen_fstack_entry_eq` can be met for every option set and trigger table -/
example (c : RCfg) (task rstack tr : Ptr) (s : St) : EntryEnv c (demoOracles c) task rstack tr s :=
  entryEnv_demo c task rstack tr s

/-- … and `fstack_entry` returns 0 or -1 and does not touch what the model leaves out. -/
theorem c07_gen_fstack_entry_frame (c : RCfg) (o : Oracles) (task rstack tr : Ptr) (s : St)
    (he : EntryEnv c o task rstack tr s) :
    ((fstack_entry o task rstack tr s).2 = 0 ∨ (fstack_entry o task rstack tr s).2 = -1) ∧
    (fstack_entry o task rstack tr s).1.setjmp_count = s.setjmp_count ∧
    (fstack_entry o task rstack tr s).1.setjmp_depth = s.setjmp_depth ∧
    (fstack_entry o task rstack tr s).1.task_fork_display_depth = s.task_fork_display_depth ∧
    (fstack_entry o task rstack tr s).1.task_stack_count = s.task_stack_count ∧
    (fstack_entry o task rstack tr s).1.calls = s.calls ∧
    (fstack_entry o task rstack tr s).1.aborted = s.aborted :=
  fstack_entry_frame c o task rstack tr s he

/-- **fstack_exit.**  On related states, with the slot holding the model's top frame, the generated `fstack_exit`
    ends in a state related to `fsExit c fs`.  `hin` / `hout`: the counter that is decremented is positive (the
    model counts in Nat, the code in int). -/
theorem c07_gen_fstack_exit_eq (c : RCfg) (o : Oracles) (task : Ptr) (s : St) (fs : FS)
    (hr : Rel c fs s) (hsl : SlotRel (topFr c fs) s)
    (hget : (o.fstack_get "fstack_exit:1" task s.task_stack_count {}).1 ≠ Ptr.null)
    (hin : (topFr c fs).filtered = true → 0 < fs.inCount)
    (hout : (topFr c fs).notrace = true → 0 < fs.outCount) :
    Rel c (fsExit c fs) (fstack_exit o task s) :=
  fstack_exit_eq c o task s fs hr hsl hget hin hout

example : ∃ (c : RCfg) (fs : FS) (s : St), Rel c fs s ∧ SlotRel (topFr c fs) s ∧
    ((topFr c fs).filtered = true → 0 < fs.inCount) ∧ (topFr c fs).filtered = true :=
  ⟨{}, { depth := 3, inCount := 1, stack := [{ origDepth := 5, filtered := true }] },
   { task_filter_in_count := 1, task_filter_depth := 3, task_h_depth := 1024, fstack_enabled := true,
     task_display_depth_set := true, fstack_orig_depth := 5, fstack_flags := 1 },
   by refine ⟨⟨?_, ?_, ?_, ?_, ?_, ?_, ?_, ?_, ?_, ?_⟩, ⟨?_, ?_, ?_, ?_⟩, ?_, ?_⟩ <;> simp [topFr]⟩

/-- … it clears the slot, restores the depth saved in it and touches nothing but the two counters. -/
theorem c07_gen_fstack_exit_frame (o : Oracles) (task : Ptr) (s : St)
    (hget : (o.fstack_get "fstack_exit:1" task s.task_stack_count {}).1 ≠ Ptr.null) :
    (fstack_exit o task s).fstack_flags = 0 ∧ (fstack_exit o task s).task_filter_depth = s.fstack_orig_depth ∧
    { (fstack_exit o task s) with
        fstack_flags := s.fstack_flags
        task_filter_depth := s.task_filter_depth
        task_filter_in_count := s.task_filter_in_count
        task_filter_out_count := s.task_filter_out_count } = s :=
  fstack_exit_frame o task s hget

/-- **fstack_update(UFTRACE_ENTRY)** without the EXEC / LONGJMP fix-up flags is the model's `updEntry`. -/
theorem c07_gen_fstack_update_entry_eq (c : RCfg) (o : Oracles) (task fstack : Ptr) (s : St) (fs : FS) (fr : Fr)
    (hr : Rel c fs s) (hsl : SlotRel fr s) (hp : fstack ≠ Ptr.null)
    (hx : ((s.fstack_flags &&& 8) != 0) = false) (hl : ((s.fstack_flags &&& 16) != 0) = false) :
    Rel c (updEntry fs) (fstack_update o 0 task fstack s).1 ∧
    (fstack_update o 0 task fstack s).2 = ((updEntry fs).dispDepth : Int) ∧
    SlotRel fr (fstack_update o 0 task fstack s).1 :=
  fstack_update_entry_eq c o task fstack s fs fr hr hsl hp hx hl

/-- **fstack_update(UFTRACE_EXIT)** is the model's `updExit`. -/
theorem c07_gen_fstack_update_exit_eq (c : RCfg) (o : Oracles) (task fstack : Ptr) (s : St) (fs : FS)
    (hr : Rel c fs s) (hp : fstack ≠ Ptr.null) :
    Rel c (updExit fs) (fstack_update o 1 task fstack s).1 ∧
    (fstack_update o 1 task fstack s).2 = ((updExit fs).dispDepth : Int) ∧
    (fstack_update o 1 task fstack s).1.fstack_flags = s.fstack_flags :=
  fstack_update_exit_eq c o task fstack s fs hr hp

end Uft.C07Gen
