import Uft.Model.Graph
namespace Uft.C15
theorem c15_tmp : Uft.Json.escapeChar 34 = [92, 34] := by decide
end Uft.C15
