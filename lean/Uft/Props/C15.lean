import Uft.Lemmas.Json
import Uft.Lemmas.Graph
/-
C15 — Graph, flame-graph and Chrome exports are faithful projections of the trace.
Property theorems only; helpers are in Lemmas/Json.lean and Lemmas/Graph.lean.

Bytes are `Nat` values.  `fixed = true` is the code with the repairs (findings F9
comm/cmdline escaping, F9b separator after the metadata lines, F9c flame count digits,
S3 name_buf bound); `fixed = false` is the code before them.  The chrome printers take a
`Json.Fix`: `main` = F9, F9b, S3 (in /repo), `abuf` = C15-ARGBUF (`print_args` / `print_char`
never leave the buffer they are given), `asym` = C15-ARGSYM (the symbol name of a pointer
argument goes through the escaper in JSON mode).  `Fix.all` is the repaired code, `Fix.repo`
the code with the `main` repairs only, `Fix.none` the code before every repair.
-/
namespace Uft.C15
open Uft.Json Uft.Graph

/-! ## escaping -/

/-- ∀ byte strings, the output of `print_json_escaped_char` over the string is a valid
    JSON string body (ASCII only, no raw control byte, every backslash starts a legal
    escape, no bare double quote). -/
theorem c15_escape_valid (bs : List Nat) : validBody (escapeStr bs) = true := by
  simp [validBody, escapeStr_body]

/-- the same for bytes given as `UInt8` -/
theorem c15_escape_valid_bytes (bs : List UInt8) : validBody (escapeStr (bs.map (·.toNat))) = true :=
  c15_escape_valid _

/-- the repaired footer escaping gives a valid string body for every stored command line -/
theorem c15_cmdline_escape_valid (bs : List Nat) : validBody (escCmdline bs) = true := by
  simp [validBody, escCmdline_body]

/-- S3 repaired: with the guard `if (len < 6) break;` no store of the escape loop (nor the
    final NUL) leaves `name_buf[2048]`, the buffer holds the escaped form of a prefix of the
    name (cut between two escapes), which is a valid string body; names whose escaped form
    has at most 2041 bytes are not cut at all. -/
theorem c15_name_buf_safe (name : List Nat) :
    (escapeName true name).oob = false ∧ (escapeName true name).term = false ∧
    validBody (escapeName true name).out = true ∧
    (∃ k, (escapeName true name).out = escapeStr (name.take k)) ∧
    ((escapeStr name).length ≤ 2041 → (escapeName true name).out = escapeStr name) := by
  obtain ⟨hi, k, hk⟩ := nameLoop_fixed name nbInit nbInit_inv
  have hk' : (nameLoop true nbInit name).out = escapeStr (name.take k) := by simpa [nbInit] using hk
  have hlen := hi.len
  refine ⟨?_, ?_, ?_, ⟨k, ?_⟩, ?_⟩
  · simp only [escapeName, hi.oob, cap, Bool.false_or]; exact decide_eq_false (by omega)
  · simpa [escapeName] using hi.term
  · simp [escapeName, hk', validBody, escapeStr_body]
  · simpa [escapeName] using hk'
  · intro h
    have := (nameLoop_fits true 2041 (by omega) (fun _ => Nat.le_refl _) name nbInit nbInit_inv
      (by simpa [nbInit] using h)).2
    simpa [escapeName, nbInit] using this

/-- the unrepaired loop is right as long as the escaped name has at most 2046 bytes -/
theorem c15_name_buf_short_ok (name : List Nat) (h : (escapeStr name).length ≤ 2046) :
    (escapeName false name).oob = false ∧ (escapeName false name).out = escapeStr name := by
  obtain ⟨hi, ho⟩ := nameLoop_fits false 2046 (by omega) (fun h => by cases h) name nbInit nbInit_inv
    (by simpa [nbInit] using h)
  have hlen := hi.len
  constructor
  · simp only [escapeName, hi.oob, cap, Bool.false_or]; exact decide_eq_false (by omega)
  · simpa [escapeName, nbInit] using ho

example : (escapeStr b!"a\"b\\c").length ≤ 2046 := by decide

/-- S3 witness, for every name: when the escaped name has 2048 bytes or more, the code as
    it is stores outside `name_buf` (at the latest the terminating NUL). -/
theorem c15_prefix_name_buf_overflow_witness (name : List Nat) (h : 2048 ≤ (escapeStr name).length) :
    (escapeName false name).oob = true := by
  have hp := nameLoop_false_pos name nbInit
  have : cap ≤ (nameLoop false nbInit name).pos := by rw [hp]; simp only [nbInit, cap]; omega
  simp [escapeName, this]

set_option maxRecDepth 100000 in
example : 2048 ≤ (escapeStr (List.replicate 2048 97)).length := by decide

set_option maxRecDepth 100000 in
/-- S3 witness inside the buffer: 2045 letters and a double quote escape to 2047 bytes; the
    last `vsnprintf` has room for one character, so the name ends in a lone backslash —
    no store is out of bounds, and the text is not a JSON string body (it swallows the
    closing quote). -/
theorem c15_prefix_name_buf_cut_witness :
    (escapeName false (List.replicate 2045 97 ++ [34])).oob = false ∧
    validBody (escapeName false (List.replicate 2045 97 ++ [34])).out = false := by decide

/-! ## the chrome document -/

/-- FULL (repaired code): `dump --chrome` is a valid JSON text for every executable name,
    command line, task list and event list — whatever bytes occur in names, comm, the
    command line, string / char arguments and return values and the names of the symbols that
    pointer arguments resolve to, with or without events, however long the argument list is.
    Hypotheses: the info file has the CMDLINE bit (always written by `uftrace record`), the
    two build/run constants that are printed with %s (UFTRACE_VERSION, ctime() of the info
    file) are string bodies, and so is what printf produces for the numeric formats (`raw`
    values: `Ev.ok`; no condition on any other kind of value). -/
theorem c15_chrome_valid_with_args (d : Doc) (c : List Nat) (hc : d.cmdline = some c)
    (hv : validBody d.version = true) (hd : validBody d.date = true) (hok : ∀ e ∈ d.evs, e.ok) :
    validJson (chromeOutput Fix.all d) = true := by
  have h1 := header_run (commOf d.exename) d.tasks
  have h2 := evs_run d.evs (headerFix (commOf d.exename) d.tasks).2 hok
  have h3 := footer_run ((headerFix (commOf d.exename) d.tasks).2 || !d.evs.isEmpty) d.version d.date c hv hd
  have := run_trans (run_trans h1 h2) h3
  have hm : Fix.all.main = true := rfl
  simp only [validJson, chromeOutput, hm, header, ↓reduceIte, hc, this]
  rfl

/-- the statement as it stood before argument payloads were modelled: records without
    payload (`frs->more = 0`), no further hypothesis -/
theorem c15_chrome_valid (d : Doc) (c : List Nat) (hc : d.cmdline = some c)
    (hv : validBody d.version = true) (hd : validBody d.date = true)
    (hna : ∀ e ∈ d.evs, e.args = none) :
    validJson (chromeOutput Fix.all d) = true :=
  c15_chrome_valid_with_args d c hc hv hd (fun e he vs h => by rw [hna e he] at h; cases h)

/-- C15-ARGBUF repaired: whatever the values are (any bytes, any printf text, any length,
    any number of values, symbol names escaped or not) `get_argspec_string` stores nothing
    outside `spec_buf[2048]`, not even the terminating NUL, and leaves a NUL-terminated
    string of at most 2047 bytes. -/
theorem c15_args_buf_safe (asym retval : Bool) (vs : List ArgVal) :
    (argString true asym retval vs).oob = false ∧ (argString true asym retval vs).term = false ∧
    (argString true asym retval vs).out.length ≤ 2047 := by
  obtain ⟨a, b, c, _⟩ := argString_gen (ok := False) asym retval vs (fun h => h.elim) (fun h => h.elim)
  exact ⟨a, b, c⟩

/-- and as long as the complete text "(v1, v2, …)" has at most 2046 bytes all of it is printed -/
theorem c15_args_complete (vs : List ArgVal) (hl : (argFull false vs).length ≤ 2046) :
    (argString true true false vs).out = argFull false vs :=
  argString_fits vs (by omega)

example : (argFull false [.str b!"a\"b\n" false, .chr 0, .sym b!"f\\", .raw b!"0x1f", .str [255, 255, 255, 255] true]) =
    b!"(\\\"a\\\"b\\\\n\\\", '\\\\x00', &f\\\\, 0x1f, NULLs)" := by decide

/-- C15-ARGBUF + C15-ARGSYM repaired: the argument / return value text is a JSON string body
    for every byte content of strings, chars and symbol names -/
theorem c15_args_body_valid (retval : Bool) (vs : List ArgVal) (hv : ∀ v ∈ vs, v.ok) :
    validBody (argString true true retval vs).out = true := by
  simp [validBody, (argString_inv retval vs hv).2.2.2]

/-- the event object with arguments / a return value, as it stands in the "traceEvents" array,
    is accepted by the recogniser for every byte content (the state before and after is "a
    value of the array has ended") -/
theorem c15_args_json_valid (e : Ev) (hok : e.ok) :
    run ⟨.val, [.arr, .obj]⟩ (evText Fix.all e) = some ⟨.after, [.arr, .obj]⟩ :=
  evText_run e (nameOut_body e.name) (fun vs h => (argString_inv _ vs (hok vs h)).2.2.2)

/-- the same as a closed JSON text: the array with that one event -/
theorem c15_args_json_valid_doc (e : Ev) (hok : e.ok) :
    validJson (b!"{\"traceEvents\":[\n" ++ evText Fix.all e ++ b!"\n]}") = true := by
  have h0 : run init b!"{\"traceEvents\":[\n" = some ⟨.valOrEnd, [.arr, .obj]⟩ := by decide
  obtain ⟨E, hE⟩ := evText_head Fix.all e
  have h1 : run ⟨.valOrEnd, [.arr, .obj]⟩ (evText Fix.all e) = some ⟨.after, [.arr, .obj]⟩ := by
    have := c15_args_json_valid e hok
    rw [hE] at this ⊢
    exact this
  have h2 : run ⟨.after, [.arr, .obj]⟩ b!"\n]}" = some ⟨.after, []⟩ := by decide
  have := run_trans (run_trans h0 h1) h2
  simp only [validJson, this]
  rfl

/-- non-vacuity: an event with hostile arguments meets `Ev.ok` -/
example : (⟨true, 1, 1, b!"main", 2000, some [.str b!"a\"\\\x01" true, .chr 34, .sym b!"q\"x", .raw b!"-12"]⟩ : Ev).ok := by
  intro vs h v hv
  simp only [Option.some.injEq] at h
  subst h
  simp only [List.mem_cons, List.not_mem_nil, or_false] at hv
  rcases hv with rfl | rfl | rfl | rfl
  · trivial
  · trivial
  · trivial
  · exact (by decide : bodyRun .normal b!"-12" = some .normal)

set_option maxRecDepth 100000 in
/-- non-vacuity of `c15_chrome_valid_with_args`: a document with hostile values meets its hypotheses -/
example :
    let d : Doc := { exename := b!"/synth/q\"x", version := b!"v0.17", date := b!"Mon Sep 21 14:13:20 2026",
                     cmdline := some b!"uftrace record ./q\\\"x", tasks := [⟨1, 1⟩],
                     evs := [⟨true, 1, 1, b!"f", 2000, some [.str b!"a\"\\\x01" true, .chr 34, .sym b!"q\"x"]⟩,
                             ⟨false, 1, 1, b!"f", 3000, some [.str [255, 255, 255, 255] false]⟩] }
    d.cmdline = some b!"uftrace record ./q\\\"x" ∧ validBody d.version = true ∧ validBody d.date = true ∧
    (∀ e ∈ d.evs, e.ok) ∧ validJson (chromeOutput Fix.all d) = true ∧ validJson (chromeOutput Fix.repo d) = false := by
  refine ⟨rfl, by decide, by decide, ?_, by decide, by decide⟩
  intro e he vs h v hv
  simp only [List.mem_cons, List.not_mem_nil, or_false] at he
  rcases he with rfl | rfl
  · simp only [Option.some.injEq] at h
    subst h
    simp only [List.mem_cons, List.not_mem_nil, or_false] at hv
    rcases hv with rfl | rfl | rfl <;> trivial
  · simp only [Option.some.injEq] at h
    subst h
    simp only [List.mem_cons, List.not_mem_nil, or_false] at hv
    subst hv
    trivial

/-- and no event name leaves the name buffer, no argument string the argument buffer -/
theorem c15_chrome_no_overflow (d : Doc) : chromeOob Fix.all d = false := by
  simp only [chromeOob, List.any_eq_false]
  intro e _
  have h2 : argsOob Fix.all e = false := by
    unfold argsOob
    cases e.args with
    | none => rfl
    | some vs => exact (c15_args_buf_safe _ _ vs).1
  have hm : Fix.all.main = true := rfl
  simp [hm, (c15_name_buf_safe e.name).1, h2]

example : validBody b!" ( x86_64 dwarf python3 luajit tui perf sched kernel )" = true ∧
    validBody b!"Mon Sep 21 14:13:20 2026" = true := by decide

/-- F9 witness (comm): executable `q"x`, one task, one event: the header prints comm raw -/
theorem c15_prefix_comm_quote_witness :
    validJson (chromeOutput Fix.none
      { exename := b!"/synth/q\"x", version := b!"v", date := b!"d", cmdline := some b!"c",
        tasks := [⟨1, 1⟩], evs := [⟨true, 1, 1, b!"main", 2000, none⟩] }) = false := by decide

/-- F9 witness (footer): a backslash in the command line is printed raw (`a\ b` is not a
    JSON escape) -/
theorem c15_prefix_cmdline_backslash_witness :
    validJson (chromeOutput Fix.none
      { exename := b!"/synth/prog", version := b!"v", date := b!"d", cmdline := some b!"a\\ b",
        tasks := [⟨1, 1⟩], evs := [⟨true, 1, 1, b!"main", 2000, none⟩] }) = false := by decide

/-- F9b witness: no event survives the filters — the metadata lines end in ",\n" and the
    array closes right after the comma -/
theorem c15_prefix_empty_trace_witness :
    validJson (chromeOutput Fix.none
      { exename := b!"/synth/prog", version := b!"v", date := b!"d", cmdline := some b!"c",
        tasks := [⟨1, 1⟩], evs := [] }) = false := by decide

/-- the same three documents are valid with the repairs (instances of `c15_chrome_valid`) -/
example : validJson (chromeOutput Fix.all
      { exename := b!"/synth/q\"x", version := b!"v", date := b!"d", cmdline := some b!"a\\ b",
        tasks := [⟨1, 1⟩], evs := [] }) = true := by decide

set_option maxRecDepth 100000 in
/-- C15-ARGBUF witness (the code before the repair): one string argument of 410 bytes 0x01
    (each printed as the five characters \\x01).  The 409th escape is cut by `vsnprintf`,
    `print_args` still advances by five: `len` reaches 0, the 410th call subtracts five
    from 0 and `len` wraps around to 2^64 - 5, and the closing quote is stored at
    spec_buf[2053]. -/
theorem c15_prefix_argbuf_overflow_witness :
    (argString false false false [.str (List.replicate 410 1) false]).oob = true ∧
    (argString true false false [.str (List.replicate 410 1) false]).oob = false := by decide

set_option maxRecDepth 100000 in
/-- C15-ARGBUF witness through `print_char`: 2046 letters.  The last one is stored at
    spec_buf[2048]; no NUL was ever stored, so the `%s` that prints the buffer reads on. -/
theorem c15_prefix_argbuf_char_witness :
    (argString false false false [.str (List.replicate 2046 97) false]).oob = true ∧
    (argString true false false [.str (List.replicate 2046 97) false]).oob = false := by decide

/-- C15-ARGBUF witness for every string argument (the code before the repair; the string is not the
    NULL marker, has no NUL byte inside and a length that fits the 16-bit length field of the record):
    when its escaped form has 2044 bytes or more, at the latest the closing parenthesis is stored outside
    `spec_buf[2048]` -/
theorem c15_prefix_argbuf_overflow_any_witness (asym : Bool) (bs : List Nat) (h0 : ∀ c ∈ bs, c ≠ 0)
    (hn : bs ≠ [255, 255, 255, 255]) (hlen : bs.length ≤ 65535) (h : 2044 ≤ (escapeStr bs).length) :
    (argString false asym false [.str bs false]).oob = true :=
  argString_prefix_oob asym bs h0 hn hlen h

set_option maxRecDepth 100000 in
/-- non-vacuity: 409 bytes 0xc3 (utf-8 text; a real argument record holds up to 1024 bytes) -/
example : (∀ c ∈ List.replicate 409 195, c ≠ 0) ∧ List.replicate 409 195 ≠ [255, 255, 255, 255] ∧
    (List.replicate 409 195).length ≤ 65535 ∧ 2044 ≤ (escapeStr (List.replicate 409 195)).length := by decide

set_option maxRecDepth 100000 in
/-- C15-ARGBUF witness inside the buffer: 2043 letters.  The closing `\"` finds `len = 2`, `vsnprintf`
    stores the backslash and a NUL, `len` becomes 0 and the parenthesis is lost: no store is out of
    bounds, but the text ends in a lone backslash, which swallows the quote that closes the JSON string.
    With the repair the piece is dropped as a whole. -/
theorem c15_prefix_argbuf_cut_witness :
    (argString false false false [.str (List.replicate 2043 97) false]).oob = false ∧
    validBody (argString false false false [.str (List.replicate 2043 97) false]).out = false ∧
    validBody (argString true false false [.str (List.replicate 2043 97) false]).out = true := by decide

/-- C15-ARGSYM witness: `f(&q"x)` — a pointer argument whose value is the address of the
    symbol `q"x`; the name is printed with %s inside the JSON string -/
theorem c15_prefix_argsym_quote_witness :
    validJson (chromeOutput Fix.repo
      { exename := b!"/synth/prog", version := b!"v", date := b!"d", cmdline := some b!"c",
        tasks := [⟨1, 1⟩], evs := [⟨true, 1, 1, b!"main", 2000, some [.sym b!"q\"x"]⟩] }) = false ∧
    validJson (chromeOutput Fix.all
      { exename := b!"/synth/prog", version := b!"v", date := b!"d", cmdline := some b!"c",
        tasks := [⟨1, 1⟩], evs := [⟨true, 1, 1, b!"main", 2000, some [.sym b!"q\"x"]⟩] }) = true := by decide

/-! ## path aggregation -/

/-- For every sequence of callback invocations (any number of tasks, any interleaving,
    recursion, calls closed by the "remaining functions" loop), with or without the flame
    graph's exit callback, and for every call path `q`: the trie node reached by the names of
    `q` has nr_calls = number of calls with call path `q` and time = sum of the total times
    handed over at their exits.  (The call path of a record is the stack of names of its task,
    `annot`; a path that never occurred reads as 0.) -/
theorem c15_path_count_time (sample : Option Nat) (rn : Name) (os : List Out) (q : Path) :
    callsN (build sample (G.init rn) os).root q = callsAt q (annot (fun _ => []) os) ∧
    timeN (build sample (G.init rn) os).root q = timeAt q (annot (fun _ => []) os) := by
  obtain ⟨_, h⟩ := build_counts sample os (G.init rn) (valid_init rn)
  have h0 : callsN (G.init rn).root q = 0 ∧ timeN (G.init rn).root q = 0 := by
    cases q with
    | nil => simp [callsN, timeN, G.init, Node.get]
    | cons y r => simp [callsN, timeN, G.init, get_cons, Nodes.find]
  have := h q
  simp only [h0.1, h0.2, Nat.zero_add] at this
  simpa [G.init] using this

/-- induction over call trees: the records of a forest of closed calls of one task
    (entry, callees, exit — as libmcount writes them), read back through the time accounting
    of `fstack` and aggregated, give for every call path `q`: nr_calls = number of calls of
    the forest with call path `q`, time = sum of their durations `t1 - t0`. -/
theorem c15_path_count_time_tree (sample : Option Nat) (rn : Name) (tid : Nat) (cs : Calls) (q : Path) :
    callsN (build sample (G.init rn) (outs [tid] (cs.recs tid))).root q = cs.countAt [] q ∧
    timeN (build sample (G.init rn) (outs [tid] (cs.recs tid))).root q = cs.durAt [] q := by
  have h := c15_path_count_time sample rn (outs [tid] (cs.recs tid)) q
  rw [outs_calls] at h ⊢
  have a := Calls.annot_counts tid q cs (fun _ => []) []
  simp only [List.append_nil, annot, callsAt, timeAt, List.filter_nil, List.length_nil, List.map_nil,
    List.sum_nil, Nat.add_zero] at a
  simp only [callsAt, timeAt] at h
  exact ⟨h.1.trans a.1, h.2.trans a.2⟩

/-- main(){ f(){g()} f(){} }: path [main, f] has 2 calls, 30 + 5 ns -/
example :
    let cs : Calls := .cons (.node b!"main" 0 100 (.cons (.node b!"f" 10 40 (.cons (.node b!"g" 20 30 .nil) .nil))
      (.cons (.node b!"f" 50 55 .nil) .nil))) .nil
    cs.countAt [] [b!"main", b!"f"] = 2 ∧ cs.durAt [] [b!"main", b!"f"] = 35 := by decide

/-! ## flame graph, graphviz, mermaid -/

/-- `dump --flame-graph` (repaired count formatting) for the trie built from any callback
    sequence: the text is one line per entry; there is at most one entry per call path; `(p, s)`
    is an entry iff the trie has a node at the non-empty path `p` whose printed number
    (nr_calls without sampling, (time - child_time) / sample_time with sampling) is `s ≠ 0`;
    and without sampling `s` is the number of calls with call path `p`. -/
theorem c15_flame_lines (st : Nat) (rn : Name) (os : List Out) :
    let root := (build (some st) (G.init rn) os).root
    flameText true st root = (flameEntries st root).flatMap (fun x => flameLine true x.1 x.2) ∧
    ((flameEntries st root).map (·.1)).Nodup ∧
    (∀ p s, (p, s) ∈ flameEntries st root ↔
      p ≠ [] ∧ ∃ n, root.get p = some n ∧ sampleOf st n = s ∧ s ≠ 0) ∧
    (st = 0 → ∀ p s, (p, s) ∈ flameEntries st root → s = callsAt p (annot (fun _ => []) os)) := by
  intro root
  have hu : root.uniq := uniq_build (some st) os (G.init rn) (uniq_init rn)
  have hiff : ∀ p s, (p, s) ∈ flameEntries st root ↔
      p ≠ [] ∧ ∃ n, root.get p = some n ∧ sampleOf st n = s ∧ s ≠ 0 := by
    intro p s
    simp only [flameEntries, List.mem_map, List.mem_filter, decide_eq_true_eq, Prod.mk.injEq]
    constructor
    · rintro ⟨e, ⟨he, hne⟩, rfl, rfl⟩
      obtain ⟨h1, h2, _⟩ := walk_sound root hu e he
      exact ⟨h1, e.2.2, h2, rfl, hne⟩
    · rintro ⟨hp, n, hg, rfl, hne⟩
      obtain ⟨par, hm⟩ := walk_complete root p n hp hg
      exact ⟨(par, p, n), ⟨hm, hne⟩, rfl, rfl⟩
  refine ⟨flameText_eq true st root, ?_, hiff, ?_⟩
  · have hs : ((flameEntries st root).map (·.1)) =
        ((walk root).filter (fun e => sampleOf st e.2.2 ≠ 0)).map (fun e => e.2.1) := by
      simp [flameEntries, List.map_map, Function.comp_def]
    rw [hs]
    exact List.Nodup.sublist (List.Sublist.map _ List.filter_sublist) (walk_nodup root hu)
  · intro h0 p s hm
    obtain ⟨_, n, hg, hs, _⟩ := (hiff p s).1 hm
    have := (c15_path_count_time (some st) rn os p).1
    simp only [callsN] at this
    rw [show (build (some st) (G.init rn) os).root = root from rfl, hg] at this
    subst h0
    simp only [sampleOf, ne_eq, not_true_eq_false, and_false, ↓reduceIte] at hs
    simp only [Option.map_some, Option.getD_some] at this
    omega

/-- F9c witness: function "f" called 25 times without sampling: the line is "f 2" -/
theorem c15_prefix_flame_digits_witness :
    flameLine false [b!"f"] 25 = b!"f 2\n" ∧ flameLine true [b!"f"] 25 = b!"f 25\n" := by decide

/-- `dump --graphviz` / `--mermaid` for the trie built from any callback sequence: every
    visited (parent, path, node) — mermaid prints all of them, graphviz those with
    nr_calls ≠ 0, each once — is the trie node at that path, its label nr_calls is the number
    of calls with that call path, its name is the last function of the path and the parent
    shown is the caller on that path (the program name for top-level functions); every
    call path that occurred is visited; no path is visited twice. -/
theorem c15_edge_counts (rn : Name) (os : List Out) :
    let root := (build none (G.init rn) os).root
    (∀ e ∈ walk root,
      e.2.2.calls = callsAt e.2.1 (annot (fun _ => []) os) ∧
      (∃ h : e.2.1 ≠ [], e.2.2.name = e.2.1.getLast h) ∧
      (e.2.1.dropLast = [] → e.1.name = rn) ∧
      (∀ h : e.2.1.dropLast ≠ [], e.1.name = e.2.1.dropLast.getLast h)) ∧
    (∀ p, p ≠ [] → callsAt p (annot (fun _ => []) os) ≠ 0 → ∃ e ∈ walk root, e.2.1 = p) ∧
    ((walk root).map (fun e => e.2.1)).Nodup ∧
    (∀ version cmdline, ∃ hd, graphvizText version cmdline root =
      hd ++ (gvEdges root).flatMap (fun x => graphvizLine x.1 x.2.1 x.2.2) ++ b!"}\n") := by
  intro root
  have hu : root.uniq := uniq_build none os (G.init rn) (uniq_init rn)
  have hname : root.name = rn := by
    exact name_build none os (G.init rn)
  refine ⟨?_, ?_, walk_nodup root hu, ?_⟩
  · intro e he
    obtain ⟨h1, h2, h3⟩ := walk_sound root hu e he
    have hc := (c15_path_count_time none rn os e.2.1).1
    simp only [callsN] at hc
    rw [show (build none (G.init rn) os).root = root from rfl, h2] at hc
    refine ⟨by simpa using hc, ⟨h1, get_name h1 h2⟩, ?_, ?_⟩
    · intro hd
      rw [hd] at h3
      simp only [Node.get, Option.some.injEq] at h3
      rw [← h3]; exact hname
    · intro hd
      exact get_name hd h3
  · intro p hp hc
    have := (c15_path_count_time none rn os p).1
    rw [show (build none (G.init rn) os).root = root from rfl] at this
    simp only [callsN] at this
    cases hg : root.get p with
    | none => simp [hg] at this; omega
    | some n =>
      obtain ⟨par, hm⟩ := walk_complete root p n hp hg
      exact ⟨_, hm, rfl⟩
  · intro version cmdline
    unfold graphvizText
    rw [graphvizText_eq version cmdline root]
    exact ⟨_, rfl⟩

/-! ## chrome events -/

/-- For a well-formed record sequence (per task the time does not go back and every EXIT
    closes the innermost open call of its task) the callbacks of `dump --chrome` see every
    record in order with its own time stamp (printed as time/1000 "." time%1000 in 3 digits,
    `tsText`), followed by one EXIT per call still open; and for every task of the info
    file the begin/end events are balanced and properly nested: each E closes the innermost
    open B of the same function, nothing stays open. -/
theorem c15_chrome_balanced (tids : List Nat) (recs : List Rec) (hw : WF RS.init recs) :
    (∃ tail, outs tids recs = (replay RS.init recs).2 ++ tail ∧
      (replay RS.init recs).2.map (fun o => (⟨o.tid, o.entry, o.name, o.time⟩ : Rec)) = recs ∧
      (∀ o ∈ tail, o.entry = false ∧ o.tid ∈ tids)) ∧
    ∀ t ∈ tids, balRun [] (evsOf t (outs tids recs)) = some [] := by
  have hs0 : Started RS.init := by intro t f hf; simp [RS.init] at hf
  obtain ⟨hs, hb⟩ := replay_balanced recs RS.init hw hs0
  constructor
  · refine ⟨tails (replay RS.init recs).1 tids, rfl, replay_faithful recs RS.init, ?_⟩
    have hgen : ∀ (ts : List Nat) (s : RS), ∀ o ∈ tails s ts, o.entry = false ∧ o.tid ∈ ts := by
      intro ts
      induction ts with
      | nil => intro s o h; simp [tails] at h
      | cons t ts ih =>
        intro s o h
        simp only [tails, List.mem_append] at h
        rcases h with h | h
        · have htid := tailTask_tid t (s.last t) (s.stacks t) 0 o h
          have hent : ∀ (stk : List Frame) (c : Nat), ∀ o ∈ tailTask t (s.last t) c stk, o.entry = false := by
            intro stk
            induction stk with
            | nil => intro c o h; simp [tailTask] at h
            | cons f r ih2 =>
              intro c o h
              simp only [tailTask] at h
              split at h
              · exact ih2 _ o h
              · simp only [List.mem_cons] at h
                rcases h with h | h
                · subst h; rfl
                · exact ih2 _ o h
          exact ⟨hent _ _ o h, by simp [htid]⟩
        · obtain ⟨a, b⟩ := ih _ o h
          exact ⟨a, by simp [b]⟩
    exact hgen tids _
  · intro t ht
    have h1 := hb t
    have h2 := tails_balanced tids (replay RS.init recs).1 hs t
    simp only [outs, evsOf_append, balRun_append]
    have h1' : balRun [] (evsOf t (replay RS.init recs).2) = some (names ((replay RS.init recs).1.stacks t)) := h1
    rw [h1']
    simpa [ht] using h2

/-- "Stamped with the record time in microseconds", for EVERY time (no bound: any 64-bit value and
    beyond): the stamp `tsText t` is `<digits>.<three digits>`, and read back with exact integer
    arithmetic the number it denotes, times 1000, is the record time: int part * 1000 + fraction = t.
    (`evText` prints `{"ts":` ++ tsText e.time ++ `,"ph":…` for the B and the E event alike.) -/
theorem c15_chrome_ts_exact (t : Nat) :
    ∃ ip fp, tsText t = ip ++ [46] ++ fp ∧ ip ≠ [] ∧ allDigits ip = true ∧ allDigits fp = true ∧
      fp.length = 3 ∧ digitsVal ip * 1000 + digitsVal fp = t := by
  obtain ⟨a, b, c⟩ := dec_val (t / 1000)
  obtain ⟨d, e, f⟩ := pad3_val (t % 1000) (Nat.mod_lt _ (by decide))
  exact ⟨dec (t / 1000), pad3 (t % 1000), rfl, c, b, e, f, by rw [a, d]; omega⟩

/-- … hence two records whose times differ, be it by one nanosecond at 2^53 or at 2^64 - 1, never
    get the same stamp -/
theorem c15_chrome_ts_injective (t t' : Nat) (h : tsText t = tsText t') : t = t' := by
  have hl : (pad3 (t % 1000)).length = (pad3 (t' % 1000)).length := rfl
  have h0 : (dec (t / 1000) ++ [46]) ++ pad3 (t % 1000) = (dec (t' / 1000) ++ [46]) ++ pad3 (t' % 1000) := h
  obtain ⟨h1, h2⟩ := List.append_inj' h0 hl
  have h3 : dec (t / 1000) = dec (t' / 1000) := (List.append_inj' h1 rfl).1
  have e1 := congrArg digitsVal h3
  have e2 := congrArg digitsVal h2
  rw [(dec_val _).1, (dec_val _).1] at e1
  rw [(pad3_val _ (Nat.mod_lt _ (by decide))).1, (pad3_val _ (Nat.mod_lt _ (by decide))).1] at e2
  omega

/-- the stamps of 2^53 + 1 ns (where a double loses the last bit) and of the largest 64-bit time -/
example : tsText 9007199254740993 = b!"9007199254740.993" ∧
    tsText 18446744073709551615 = b!"18446744073709551.615" := by decide

/-! ## times shown by `uftrace graph` (print_time_unit) -/

/-- C15-TIMEUNIT repaired (`limit[] = {1000, 1000, 1000, 60, 60, INT_MAX}`): for every non-zero time
    below 1000 hours, what `uftrace graph` (and replay / report, which share the printer) shows as
    "W.FFF unit" denotes the time rounded down to the three-digit step of the unit: W units plus FFF
    steps (ns for us, us for ms, ms for s, seconds for m, minutes for h) is at most the time, and
    less than one step below it. -/
theorem c15_time_unit_exact (ns : Nat) (hlt : ns < 3600000000000000) :
    let r := timeUnit true ns
    r.2.2 ≤ 4 ∧ r.2.1 * subNs r.2.2 < unitNs r.2.2 ∧
    r.1 * unitNs r.2.2 + r.2.1 * subNs r.2.2 ≤ ns ∧
    ns < r.1 * unitNs r.2.2 + (r.2.1 + 1) * subNs r.2.2 :=
  timeUnit_fixed_exact ns hlt

example : timeUnit true 1800000000000 = (30, 0, 3) ∧ timeUnit true 3725000000000 = (1, 2, 4) := by decide

/-- the table as it is agrees with the repaired one for every time below 24 minutes -/
theorem c15_time_unit_prefix_below_24min (ns : Nat) (h : ns < 1440000000000) :
    timeUnit false ns = timeUnit true ns :=
  timeUnit_prefix_small ns h

/-- C15-TIMEUNIT witness (the table as it is has 24 where the minutes per hour belong): a call of
    30 minutes is shown as "1.006 h", one of exactly one hour as "2.012 h", one of 100 hours as
    "250.000 h" — none of which denotes the time (1 h 6 min = 3960 s ≠ 1800 s). -/
theorem c15_prefix_time_unit_hours_witness :
    timeUnit false 1800000000000 = (1, 6, 4) ∧ timeUnit false 3600000000000 = (2, 12, 4) ∧
    timeUnit false 360000000000000 = (250, 0, 4) ∧
    ¬ (1 * unitNs 4 + 6 * subNs 4 ≤ 1800000000000) := by decide

/-! ## scheduling events -/

/-- C15-DUMP-PREEMPT witness.  main { foo { <pre-empted: sched-out 3000, sched-in 4000> bar {} } }.  A
    scheduling event is shown as a call named linux:schedule (sched-out opens it, sched-in closes it); for
    the repaired code that is a record sequence like any other and `c15_chrome_balanced`,
    `c15_path_count_time`, `c15_edge_counts` apply.  As it is, `dump_replay_event` does not hand the
    sched-out of a PRE-EMPTED task to the dump callbacks: `dump --chrome` prints an E event that closes
    nothing (not balanced), and in the trie of --flame-graph / --graphviz / --mermaid the sched-in closes
    foo instead, so bar is counted under main;bar and the edge foo -> bar is missing. -/
theorem c15_prefix_preempt_witness :
    let recs (sched : Name) : List Rec :=
      [⟨1, true, b!"main", 2000⟩, ⟨1, true, b!"foo", 2100⟩, ⟨1, true, sched, 3000⟩,
       ⟨1, false, b!"linux:schedule", 4000⟩, ⟨1, true, b!"bar", 5000⟩, ⟨1, false, b!"bar", 5100⟩,
       ⟨1, false, b!"foo", 9000⟩, ⟨1, false, b!"main", 9100⟩]
    let asIs := dropEntries isPreMark (outs [1] (recs (b!"linux:schedule" ++ [0])))
    let repaired := outs [1] (recs b!"linux:schedule")
    balRun [] (evsOf 1 asIs) = none ∧ balRun [] (evsOf 1 repaired) = some [] ∧
    callsN (build none (G.init b!"prog") asIs).root [b!"main", b!"bar"] = 1 ∧
    callsN (build none (G.init b!"prog") asIs).root [b!"main", b!"foo", b!"bar"] = 0 ∧
    callsN (build none (G.init b!"prog") repaired).root [b!"main", b!"foo", b!"bar"] = 1 ∧
    callsN (build none (G.init b!"prog") repaired).root [b!"main", b!"foo", b!"linux:schedule"] = 1 := by
  decide

/-- non-vacuity: main { f { } g { (still open) — two tasks interleaved -/
example : WF RS.init [⟨1, true, b!"main", 10⟩, ⟨2, true, b!"main", 11⟩, ⟨1, true, b!"f", 12⟩,
    ⟨1, false, b!"f", 15⟩, ⟨1, true, b!"g", 15⟩] := by
  simp [WF, stepRec, RS.init, setFn]

end Uft.C15
