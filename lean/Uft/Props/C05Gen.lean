import Uft.Lemmas.McountGenEq
/- C05 (and C02) — tie by translation (translators/c2lean.py): the definitions generated on every run from the
current text of libmcount/mcount.c (`Uft/Gen/McountC.lean`) compute, on the per-thread filter state, what the
hand-written hook model `Uft/Model/Mcount.lean` computes.  A change of `mcount_save_filter`,
`mcount_entry_filter_check`, `filter_restore_from_rstack` or of the first part of `mcount_exit_filter_record`
changes the generated definitions, and the theorems below stop checking unless the modelled behaviour is kept.
Mapping, abstractions and hypotheses: see `Uft/Lemmas/McountGenEq.lean`. -/
namespace Uft.C05Gen
open Uft.Mcount Uft.Gen.C Uft.McountGenEq
open Uft.Gen.McountC (Oracles mcount_save_filter mcount_entry_filter_check mcount_exit_filter_record_prefix)

/-- **mcount_save_filter** is the model's `saveFilt` … -/
theorem c05_gen_save_filter_eq (o : Oracles) (mtdp : Ptr) (s : GSt) (f : Filt) (hr : FiltRel f s) :
    FiltRel (saveFilt f) (mcount_save_filter o mtdp s) :=
  mcount_save_filter_eq o mtdp s f hr

example : ∃ (f : Filt) (s : GSt), FiltRel f s ∧ f.depth ≠ f.svDepth :=
  ⟨{ depth := 2 }, { mtdp_filter_depth := 2, mtdp_filter_max_depth := 65535, mtdp_filter_time := 18446744073709551615 },
   by refine ⟨⟨?_, ?_, ?_, ?_, ?_, ?_, ?_, ?_, ?_, ?_⟩, ?_⟩ <;>
      simp [noMaxDepth, noTime, Uft.Gen.Consts.FILTER_NO_MAX_DEPTH, Uft.Gen.Consts.FILTER_NO_TIME]⟩

/-- … and writes nothing but the four saved_* locations. -/
theorem c05_gen_save_filter_frame (o : Oracles) (mtdp : Ptr) (s : GSt) :
    mcount_save_filter o mtdp s =
      { s with mtdp_filter_saved_depth := s.mtdp_filter_depth
               mtdp_filter_saved_max_depth := s.mtdp_filter_max_depth
               mtdp_filter_saved_time := s.mtdp_filter_time
               mtdp_filter_saved_size := s.mtdp_filter_size } :=
  mcount_save_filter_frame o mtdp s

/-- **mcount_entry_filter_check.**  For every option set, trigger table, filter state and function address, once
    mcount_check_rstack has reported no overflow: the generated function returns the code of the model's verdict
    and leaves the model's new filter state and `mcount_enabled` (`efc` = `entryFilterCheck` after its first
    line, see `c05_gen_entry_filter_check_model`).  Hypotheses (`EntryEnv`): no overflow; the trigger
    `uftrace_match_filter` fills in encodes `cfg.trig addr`. -/
theorem c05_gen_entry_filter_check_eq (cfg : Cfg) (o : Oracles) (mtdp tr : Ptr) (child : Nat) (s : GSt)
    (f : Filt) (en : Bool) (hr : FiltRel f s) (hc : CfgRel cfg s) (hen : s.mcount_enabled = en)
    (he : EntryEnv cfg o mtdp tr child) :
    (mcount_entry_filter_check o mtdp child tr s).2 = frCode (efc cfg f en child).1 ∧
    FiltRel (efc cfg f en child).2.1 (mcount_entry_filter_check o mtdp child tr s).1 ∧
    (mcount_entry_filter_check o mtdp child tr s).1.mcount_enabled = (efc cfg f en child).2.2 :=
  mcount_entry_filter_check_eq cfg o mtdp tr child s f en hr hc hen he

/-- the hypotheses of `c05_gen_entry_filter_check_eq` can be met for every option set and trigger table -/
example (cfg : Cfg) (mtdp tr : Ptr) (child : Nat) : EntryEnv cfg (demoOracles cfg) mtdp tr child :=
  entryEnv_demo cfg mtdp tr child

/-- `efc` is what the model's `entryFilterCheck` computes for the regular build when the return stack does not
    overflow — whatever the value of the model's `f7fixed` flag. -/
theorem c05_gen_entry_filter_check_model (cfg : Cfg) (ms : Uft.Mcount.St) (addr : Nat) (hfast : cfg.fast = false)
    (hov : (checkRstack cfg ms).1 = false) :
    (entryFilterCheck cfg ms addr).1 = (efc cfg (checkRstack cfg ms).2.filt (checkRstack cfg ms).2.enabled addr).1 ∧
    (entryFilterCheck cfg ms addr).2.1.filt = (efc cfg (checkRstack cfg ms).2.filt (checkRstack cfg ms).2.enabled addr).2.1 ∧
    (entryFilterCheck cfg ms addr).2.1.enabled = (efc cfg (checkRstack cfg ms).2.filt (checkRstack cfg ms).2.enabled addr).2.2 :=
  entryFilterCheck_core cfg ms addr hfast hov

example : ∃ (cfg : Cfg) (ms : Uft.Mcount.St), cfg.fast = false ∧ (checkRstack cfg ms).1 = false :=
  ⟨{}, {}, rfl, by decide⟩

/-- with an overflowing return stack the function returns FILTER_RSTACK and changes no filter state -/
theorem c05_gen_entry_filter_check_overflow (o : Oracles) (mtdp tr : Ptr) (child : Nat) (s : GSt)
    (hov : (o.mcount_check_rstack "mcount_entry_filter_check:1" mtdp {}).1 = true) :
    (mcount_entry_filter_check o mtdp child tr s).2 = frCode .rstack ∧
    (mcount_entry_filter_check o mtdp child tr s).1 =
      { s with calls := s.calls ++ [{ fn := "mcount_check_rstack", site := "mcount_entry_filter_check:1",
                                       ints := [], ptrs := [mtdp] }] } :=
  mcount_entry_filter_check_overflow o mtdp tr child s hov

/-- **The flush at a trace_off trigger** (repair of finding F-C07-TRACEOFF-FLUSH).  The logged opaque calls of
    mcount_entry_filter_check are: mcount_check_rstack once; then record_trace_data on the callers' top frame
    `&mtdp->rstack[mtdp->idx - 1]` exactly when the model's `entryFilterCheck` flushes (`flushCond`, see
    `c05_gen_entry_filter_check_flush_model`) and there is a caller frame; nothing else. -/
theorem c05_gen_entry_filter_check_calls (cfg : Cfg) (o : Oracles) (mtdp tr : Ptr) (child : Nat) (s : GSt)
    (f : Filt) (en : Bool) (hr : FiltRel f s) (hc : CfgRel cfg s) (hen : s.mcount_enabled = en)
    (he : EntryEnv cfg o mtdp tr child) :
    (mcount_entry_filter_check o mtdp child tr s).1.calls =
      s.calls ++ [{ fn := "mcount_check_rstack", site := "mcount_entry_filter_check:1", ints := [], ptrs := [mtdp] }] ++
        (if flushCond cfg f en child = true ∧ s.mtdp_idx > 0 then
          [{ fn := "record_trace_data", site := "mcount_entry_filter_check:3", ints := [],
             ptrs := [mtdp, Ptr.idx s.mtdp_rstack (s.mtdp_idx - 1), Ptr.null] }] else []) ∧
    (mcount_entry_filter_check o mtdp child tr s).1.aborted = s.aborted :=
  mcount_entry_filter_check_calls cfg o mtdp tr child s f en hr hc hen he

/-- `flushCond` is when the model's `entryFilterCheck` with `f7fixed = true` writes the callers' pending records -/
theorem c05_gen_entry_filter_check_flush_model (cfg : Cfg) (ms : Uft.Mcount.St) (addr : Nat)
    (hfast : cfg.fast = false) (hfix : cfg.f7fixed = true) (hov : (checkRstack cfg ms).1 = false) :
    (entryFilterCheck cfg ms addr).2.1.out =
      if flushCond cfg (checkRstack cfg ms).2.filt (checkRstack cfg ms).2.enabled addr
      then (checkRstack cfg ms).2.out ++ (recordTrace (checkRstack cfg ms).2.frames).2
      else (checkRstack cfg ms).2.out :=
  entryFilterCheck_flush cfg ms addr hfast hfix hov

example : ∃ (cfg : Cfg) (f : Filt), flushCond cfg f true 5 = true :=
  ⟨{ trig := fun _ => { traceOff := true } }, {}, by decide⟩

/-- **mcount_exit_filter_record, filter-restoring part.**  On a state whose `mtdp->filter` holds the model's
    `Filt` and whose rstack slot holds the model's top frame, the generated prefix of mcount_exit_filter_record
    (up to and including filter_restore_from_rstack) leaves the `Filt` of the model's `exitFilterRecord`
    (`exitFilt`, see `c05_gen_exit_filter_model`).  `hin` / `hout`: the decremented counter is positive (the model
    counts in Nat, the code in int). -/
theorem c05_gen_exit_filter_restore_eq (o : Oracles) (mtdp rstack retval : Ptr) (s : GSt) (f : Filt)
    (fr : Frame) (hr : FiltRel f s) (hf : FrameRel fr s)
    (hin : fr.filtered = true → 0 < f.inCount)
    (hout : fr.filtered = false → fr.notrace = true → 0 < f.outCount) :
    FiltRel (exitFilt fr f) (mcount_exit_filter_record_prefix o mtdp rstack retval s) :=
  mcount_exit_filter_record_prefix_eq o mtdp rstack retval s f fr hr hf hin hout

/-- `exitFilt` is the filter state the model's `exitFilterRecord` leaves (regular build) -/
theorem c05_gen_exit_filter_model (cfg : Cfg) (ms : Uft.Mcount.St) (fr : Frame) (rest : List Frame)
    (hfast : cfg.fast = false) (hfr : ms.frames = fr :: rest) :
    (exitFilterRecord cfg ms).filt = exitFilt fr ms.filt :=
  exitFilterRecord_filt cfg ms fr rest hfast hfr

end Uft.C05Gen
