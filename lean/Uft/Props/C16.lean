import Uft.Lemmas.Net
/-
C16 — Recording over the network stores the same data as recording locally.
Property theorems only (helpers are in Lemmas/Net.lean).

  sender      : `iovsOf`/`encode` (the iovec arrays of send_trace_*), `writevAll`/`writeAll`
  stream      : any list of segments whose concatenation is the bytes sent
  receiver    : `recvRaw`/`recvConn` (handle_client_sock + recv_trace_*), `readAll`
  message lvl : `applyMsg`/`run`; per directory: `dirStep`; local recording: `localStep`
-/
namespace Uft.Net

/-! ### full-write / full-read loops -/

/-- writev_all: for every iovec array and every schedule of partial writes
    (any byte counts incl. 0, EINTR, errors), what reached the fd is a prefix of
    the concatenation of the iovecs, it is all of it whenever 0 is returned,
    and the "invalid iovec count" abort is unreachable. -/
theorem c16_writev_all_exact (sched : List WOut) (iovs : List Bytes) :
    ((writevAll sched iovs).1 = .ok → (writevAll sched iovs).2.1 = iovs.flatten) ∧
    (∃ k, (writevAll sched iovs).2.1 = iovs.flatten.take k) ∧
    (writevAll sched iovs).1 ≠ .badcount := by
  obtain ⟨⟨k, _, hk⟩, hok, hbad⟩ :=
    writevLoop_spec sched iovs (iovs.map List.length).sum [] (sum_length_eq iovs)
  exact ⟨by simpa [writevAll] using hok, ⟨k, by simpa [writevAll] using hk⟩, hbad⟩

/-- … and it does return 0 once the kernel has accepted enough bytes without a
    hard error (termination / no lost progress). -/
theorem c16_writev_all_completes (sched : List WOut) (iovs : List Bytes)
    (hne : noErr sched = true) (hp : (iovs.map List.length).sum ≤ progress sched) :
    (writevAll sched iovs).1 = .ok :=
  writevLoop_completes sched iovs _ [] (sum_length_eq iovs) hne hp

example : noErr [.wrote 1, .eintr, .wrote 0, .wrote 5] = true ∧
    ([[1, 2], [], [3, 4]].map List.length).sum ≤ progress [.wrote 1, .eintr, .wrote 0, .wrote 5] := by
  decide

/-- write_all (send_trace_end): same statement for one buffer. -/
theorem c16_write_all_exact (sched : List WOut) (buf : Bytes) :
    ((writeAll sched buf).1 = .ok → (writeAll sched buf).2.1 = buf) ∧
    (∃ k, (writeAll sched buf).2.1 = buf.take k) := by
  obtain ⟨⟨k, hk⟩, hok⟩ := writeLoop_spec sched buf []
  exact ⟨by simpa [writeAll] using hok, ⟨k, by simpa [writeAll] using hk⟩⟩

/-- read_all(n): for every segmentation of the stream (incl. interrupted reads)
    it returns exactly the next n bytes and leaves exactly the rest — it never
    reads into the next message — and it fails iff the stream ends first. -/
theorem c16_read_all_exact (n : Nat) (segs : List Bytes) :
    (n ≤ segs.flatten.length →
      ∃ rest, readAll n segs = some (segs.flatten.take n, rest) ∧
        rest.flatten = segs.flatten.drop n) ∧
    (segs.flatten.length < n → readAll n segs = none) :=
  ⟨readAll_spec n segs, readAll_none n segs⟩

/-! ### byte order -/

/-- ntoh ∘ hton = id for the 16/32/64-bit fields (any width), on little- and
    big-endian hosts, and what travels is the big-endian encoding. -/
theorem c16_byteorder_involution (le : Bool) (w v : Nat) (hv : v < 256 ^ w) :
    ntoh le w (hton le w v) = v ∧ hostEncode le w (hton le w v) = netEncode w v ∧
    netDecode (netEncode w v) = v := by
  refine ⟨?_, mem_hton le w v, ?_⟩
  · rw [ntoh_hton, Nat.mod_eq_of_lt hv]
  · rw [netDecode_netEncode, Nat.mod_eq_of_lt hv]

example : (0xface : Nat) < 256 ^ 2 := by decide

/-- The file header is converted field by field exactly twice end to end
    (send_trace_info in place, recv_trace_info back): the `info` file starts
    with the sender's 40 header bytes. -/
theorem c16_header_swapped_twice (le : Bool) (h : Bytes) (hl : h.length = HDR_SIZE) :
    hdrMap (inPlace le ntoh) (hdrMap (inPlace le hton) h) = h :=
  hdr_roundtrip le h hl

example : (List.replicate 40 (0 : UInt8)).length = HDR_SIZE := by decide

/-! ### framing -/

/-- What a sender puts on the socket for one message is `encode m`, whatever
    the partial-write schedule. -/
theorem c16_sender_stream (le : Bool) (m : Msg) (sched : List WOut)
    (h : (writevAll sched (iovsOf le m)).1 = .ok) :
    (writevAll sched (iovsOf le m)).2.1 = encode le m :=
  (c16_writev_all_exact sched (iovsOf le m)).1 h

/-- One readable event: for every segmentation of a stream that starts with an
    encoded message, handle_client_sock consumes exactly that message and does
    what the message-level receiver does. -/
theorem c16_framing_step (le fixed : Bool) (s : Server) (sock : Nat) (segs : List Bytes) (m : Msg)
    (tail : Bytes) (hwf : m.WF) (h : segs.flatten = encode le m ++ tail) :
    ∃ rest, rest.flatten = tail ∧
      recvRaw le fixed s sock segs = Raw.ofOpt (applyMsg fixed s sock m) rest (decide (m = .end_)) :=
  recvRaw_encode le fixed s sock segs m tail hwf h

/-- Framing round trip / segmentation independence: the concatenated encodings
    of any message list, delivered under any segmentation, are received as that
    message list. -/
theorem c16_framing_roundtrip (le fixed : Bool) (ms : List Msg) (s : Server) (sock : Nat)
    (segs : List Bytes) (hwf : ∀ m ∈ ms, m.WF)
    (h : segs.flatten = (ms.map (encode le)).flatten) :
    recvConn le fixed ms.length s sock segs = runConn fixed s sock ms :=
  recvConn_encode le fixed ms s sock segs ms.length hwf (Nat.le_refl _) h

/-- two segmentations of the same bytes give the same receiver state -/
theorem c16_segmentation_independent (le fixed : Bool) (ms : List Msg) (s : Server) (sock : Nat)
    (segs1 segs2 : List Bytes) (hwf : ∀ m ∈ ms, m.WF)
    (h1 : segs1.flatten = (ms.map (encode le)).flatten) (h2 : segs2.flatten = segs1.flatten) :
    recvConn le fixed ms.length s sock segs1 = recvConn le fixed ms.length s sock segs2 := by
  rw [c16_framing_roundtrip le fixed ms s sock segs1 hwf h1,
    c16_framing_roundtrip le fixed ms s sock segs2 hwf (h2.trans h1)]

example : (Msg.data 7 [1, 2, 3]).WF ∧ (Msg.file [97] []).WF ∧
    (Msg.info (List.replicate 40 0) [1]).WF ∧ (Msg.dirName [100]).WF := by
  simp [Msg.WF, HDR_SIZE]

/-! ### files -/

/-- Every file of the received directory is the concatenation, in order, of the
    payloads addressed to it (TID.dat = that tid's buffers in order, …). -/
theorem c16_file_is_concat (ms : List Msg) (d : Dir) (g : Bytes) :
    aget (ms.foldl dirStep d) g = combine (aget d g) (partsFor g ms) :=
  foldl_dirStep_get ms d g

/-- … and the received directory equals, file by file, what the local path
    writes for the same buffers, provided every metadata file is sent once
    (as record.c does: task.txt, sid-*.map, *.sym, *.dbg, info, …). -/
theorem c16_files_equal_local (ms : List Msg) (d : Dir)
    (hfree : ∀ m ∈ ms, ∀ n, metaName m = some n → aget d n = none) (hon : MetaOnce ms)
    (g : Bytes) :
    aget (ms.foldl dirStep d) g = aget (ms.foldl localStep d) g :=
  local_eq ms d d (fun _ => rfl) hfree hon g

example : MetaOnce [.file [1] [9], .file [2] [8], .info [] []] ∧
    (∀ m ∈ [Msg.file [1] [9], .file [2] [8], .info [] []], ∀ n, metaName m = some n →
      aget freshDir n = none) := by
  refine ⟨?_, ?_⟩
  · simp [MetaOnce, metaName, fileOf, infoName]
  · intro m hm n hn
    simp only [List.mem_cons, List.not_mem_nil, or_false] at hm
    rcases hm with rfl | rfl | rfl <;> simp [metaName] at hn <;> subst hn <;> decide

/-- C16 for one recording: for every directory name, every sequence of trace,
    kernel, perf, metadata and info messages (metadata files sent once), and
    every segmentation of the byte stream, the receiver ends with a directory
    for this connection that equals, file by file, what local recording of the
    same buffers writes. -/
theorem c16_network_equals_local (le fixed : Bool) (sock : Nat) (name : Bytes) (ms : List Msg)
    (segs : List Bytes) (hplain : ∀ m ∈ ms, m.plain = true) (hwf : ∀ m ∈ ms, m.WF)
    (hname : name.length < 2 ^ 31) (hon : MetaOnce ms)
    (hfree : ∀ m ∈ ms, ∀ n, metaName m = some n → aget freshDir n = none)
    (hsegs : segs.flatten = ((Msg.dirName name :: ms).map (encode le)).flatten) :
    ∃ s d, recvConn le fixed (Msg.dirName name :: ms).length Server.init sock segs = some s ∧
      obs s sock = [some d] ∧ ∀ g, aget d g = aget (ms.foldl localStep freshDir) g := by
  have hwf' : ∀ m ∈ Msg.dirName name :: ms, m.WF := by
    intro m hm
    rcases List.mem_cons.mp hm with rfl | h
    · exact hname
    · exact hwf m h
  rw [c16_framing_roundtrip le fixed _ Server.init sock segs hwf' hsegs]
  have h0 := applyMsg_dirName_init fixed sock name
  have o0 : obs { clients := [{ sock := sock, dir := name }], fs := createDir [] name } sock =
      [some freshDir] := by
    simp [obs, createDir_get_self]
  obtain ⟨s', hr, ho⟩ := runConn_plain fixed ms _ sock freshDir [] (by simp [DistinctDirs]) hplain o0
  refine ⟨s', ms.foldl dirStep freshDir, ?_, ho, ?_⟩
  · simp [runConn, h0, hr]
  · exact c16_files_equal_local ms freshDir hfree hon

/-- non-vacuity: a recording with trace data and a metadata file -/
example : ∃ s d, recvConn true false 3 Server.init 1
      [((Msg.dirName [100] :: [Msg.data 7 [1], .file [97] [2]]).map (encode true)).flatten] = some s ∧
      obs s 1 = [some d] ∧
      ∀ g, aget d g = aget ([Msg.data 7 [1], .file [97] [2]].foldl localStep freshDir) g := by
  refine c16_network_equals_local true false 1 [100] [Msg.data 7 [1], .file [97] [2]] _ ?_ ?_ (by decide)
    ?_ ?_ (by simp)
  · intro m hm; simp at hm; rcases hm with rfl | rfl <;> rfl
  · intro m hm; simp at hm; rcases hm with rfl | rfl <;> simp [Msg.WF]
  · refine ⟨?_, ?_, ?_, ?_, trivial⟩
    · intro n hn; simp [metaName] at hn
    · intro m' hm' n hn f data hf
      simp at hm'; subst hm'
      simp [metaName] at hn; simp [fileOf] at hf
      rw [← hn, ← hf.1]; decide
    · intro n hn m' hm'; simp at hm'
    · intro m' hm'; simp at hm'
  · intro m hm n hn
    simp at hm
    rcases hm with rfl | rfl <;> simp [metaName] at hn
    subst hn; decide

/-! ### the per-cpu perf files -/

/-- Every perf-cpuN.dat the client sends data for arrives under the same name with the same bytes, whatever
    the set of cpus (holes, numbers ≥ 10, up to 2^32 - 1): for every cpu N the file perf-cpuN.dat of the
    received directory is the concatenation, in order, of the SEND_PERF_DATA payloads for cpu N — data of
    two cpus never shares a file, trace / kernel / info data never lands in it — and the file exists exactly
    when the client sent perf data for N (no file is made for a cpu without events).
    Hypothesis: no metadata file is sent under the name perf-cpuN.dat (record.c sends task.txt, sid-*.map,
    *.sym, *.dbg, kernel_header, kallsyms, events.txt and the log file). -/
theorem c16_perf_files_preserved (ms : List Msg) (cpu : Nat) (hc : cpu < 2 ^ 32) (hwf : ∀ m ∈ ms, m.WF)
    (hmeta : ∀ m ∈ ms, ∀ n c, m = .file n c → n ≠ perfName cpu) :
    aget (ms.foldl dirStep freshDir) (perfName cpu) =
      (if perfParts cpu ms = [] then none else some (perfParts cpu ms).flatten) ∧
    (∀ cpu', cpu' < 2 ^ 32 → cpu' ≠ cpu → perfName cpu' ≠ perfName cpu) := by
  constructor
  · rw [c16_file_is_concat, partsFor_perfName cpu hc ms hwf hmeta]
    have h0 : aget freshDir (perfName cpu) = none := by
      simp [freshDir, aget, perfName_ne_defaultOpts cpu]
    simp [combine, h0]
  · intro cpu' hc' hne h
    exact hne (perfName_inj hc' hc h)

/-- non-vacuity: events on cpus 13 and 2 only, in two buffers for 13; cpu 0 sent nothing and has no file -/
example :
    let ms : List Msg := [.perf 13 [1, 2], .data 7 [9], .perf 2 [5], .perf 13 [3], .file [116] [8]]
    aget (ms.foldl dirStep freshDir) (perfName 13) = some [1, 2, 3] ∧
    aget (ms.foldl dirStep freshDir) (perfName 2) = some [5] ∧
    aget (ms.foldl dirStep freshDir) (perfName 0) = none := by decide

/-- "Replay and report of the received directory give the same output as for the local one", as far as the
    perf events go: the readers take the per-cpu files in glob order and merge their events by time stamp
    (`perfMerge` = the rounds of read_perf_data).  Two directories whose per-cpu files WITH events are the
    same, in the same order — the local one has an empty file for every other cpu, the received one has
    none — hand out the same event sequence, for every number of rounds.  (Events with equal time stamps
    included: the first file in glob order wins in both.) -/
theorem c16_perf_reader_ignores_empty_files (n : Nat) (loc rcv : List (List PEv))
    (h : withEvents loc = withEvents rcv) : perfMerge n loc = perfMerge n rcv :=
  perfMerge_congr n loc rcv h

/-- in particular removing the empty files changes nothing -/
theorem c16_perf_reader_without_empty_files (n : Nat) (fs : List (List PEv)) :
    perfMerge n (withEvents fs) = perfMerge n fs :=
  perfMerge_congr n _ _ (withEvents_idem fs)

/-- non-vacuity: 16 cpus, events on cpus 13 and 2 (glob order …, 13, …, 2, …), equal time stamps across files -/
example :
    let a : List PEv := [⟨5, 100, 2⟩, ⟨9, 100, 1⟩]
    let b : List PEv := [⟨5, 101, 2⟩, ⟨7, 101, 1⟩]
    withEvents [[], [], [], a, [], b, []] = withEvents [a, b] ∧
    perfMerge 4 [[], [], [], a, [], b, []] = [⟨5, 100, 2⟩, ⟨5, 101, 2⟩, ⟨7, 101, 1⟩, ⟨9, 100, 1⟩] := by decide

/-- C16-DUMP-PERFIDX repaired: `uftrace dump` announces every per-cpu block with the cpu number of its
    file, so the labels are a function of the files with data alone: the received directory and the local
    one (same files with data, in the same glob order) are labelled alike. -/
theorem c16_dump_perf_labels (loc rcv : List (Nat × Bool))
    (h : loc.filter (·.2) = rcv.filter (·.2)) :
    dumpLabels true loc = dumpLabels true rcv ∧ dumpLabels true loc = (loc.filter (·.2)).map (·.1) := by
  simp only [dumpLabels, dumpLabelsFrom_fixed, h, and_self]

/-- C16-DUMP-PERFIDX witness (the printer as it is prints the position in the glob result): a 16-cpu
    machine, events on cpu 13 only.  Locally perf-cpu13.dat is the sixth file (0, 1, 10, 11, 12, 13, …) and is
    announced as perf-cpu5.dat; in the received directory it is the only file and is announced as
    perf-cpu0.dat: the dump of the received directory differs from the local one, and both name a file that
    does not hold these events. -/
theorem c16_prefix_dump_perf_label_witness :
    let loc : List (Nat × Bool) := [(0, false), (1, false), (10, false), (11, false), (12, false), (13, true),
      (14, false), (15, false), (2, false), (3, false), (4, false), (5, false), (6, false), (7, false), (8, false),
      (9, false)]
    dumpLabels false loc = [5] ∧ dumpLabels false [(13, true)] = [0] ∧
    dumpLabels true loc = [13] ∧ dumpLabels true [(13, true)] = [13] := by decide

/-! ### several clients -/

/-- Isolation, for any number of clients and any interleaving of their
    messages: what the receiver holds for a connection depends only on that
    connection's own messages.  Holds for the repaired receiver
    (`fixed = true`) unconditionally, and for the code as it is when no
    SEND_DIR_NAME names a directory in use by a connected client
    (`safeRun`). -/
theorem c16_clients_isolated (fixed : Bool) (evs : List (Nat × Msg)) (s s' : Server)
    (D : DistinctDirs s.clients) (hsafe : fixed = true ∨ safeRun s evs = true)
    (h : run fixed s evs = some s') (k : Nat) :
    obs s' k = (proj k evs).foldl ownStep (obs s k) :=
  (run_obs fixed evs s s' D hsafe h k).2

/-- Two clients on separate connections, their message streams interleaved
    arbitrarily: each gets the directory it would get alone. -/
theorem c16_two_clients_as_if_alone (fixed : Bool) (a b : Nat) (hab : a ≠ b) (na nb : Bytes)
    (as bs : List Msg) (sched : List Bool) (s' : Server)
    (hpa : ∀ m ∈ as, m.plain = true) (hpb : ∀ m ∈ bs, m.plain = true)
    (hsafe : fixed = true ∨
      safeRun Server.init (interleave sched ((Msg.dirName na :: as).map (a, ·))
        ((Msg.dirName nb :: bs).map (b, ·))) = true)
    (h : run fixed Server.init (interleave sched ((Msg.dirName na :: as).map (a, ·))
        ((Msg.dirName nb :: bs).map (b, ·))) = some s') :
    obs s' a = [some (as.foldl dirStep freshDir)] ∧ obs s' b = [some (bs.foldl dirStep freshDir)] := by
  have ha := c16_clients_isolated fixed _ Server.init s' (by simp [Server.init, DistinctDirs]) hsafe h a
  have hb := c16_clients_isolated fixed _ Server.init s' (by simp [Server.init, DistinctDirs]) hsafe h b
  have hba : ¬ b = a := fun e => hab e.symm
  have pa : proj a (interleave sched ((Msg.dirName na :: as).map (a, ·))
      ((Msg.dirName nb :: bs).map (b, ·))) = Msg.dirName na :: as := by
    unfold proj
    rw [filter_interleave_left _ sched _ _ (by simp) (by simp [hba])]
    simp [Function.comp_def]
  have pb : proj b (interleave sched ((Msg.dirName na :: as).map (a, ·))
      ((Msg.dirName nb :: bs).map (b, ·))) = Msg.dirName nb :: bs := by
    unfold proj
    rw [filter_interleave_right _ sched _ _ (by simp [hab]) (by simp)]
    simp [Function.comp_def]
  rw [pa] at ha
  rw [pb] at hb
  have o0 : ∀ k, obs Server.init k = [] := fun _ => rfl
  simp only [o0, List.foldl_cons, ownStep] at ha hb
  rw [foldl_ownStep_plain as _ _ hpa] at ha
  rw [foldl_ownStep_plain bs _ _ hpb] at hb
  exact ⟨ha, hb⟩

/-- non-vacuity of the pre-fix hypothesis: different names are safe -/
example : safeRun Server.init (interleave [true, false, true] ((Msg.dirName [1] :: [.file [7] [1]]).map (1, ·))
    ((Msg.dirName [2] :: [.file [7] [2]]).map (2, ·))) = true := by decide

/-- F-C16-DIR witness (code as it is, `fixed = false`): two connected clients
    that both name their directory [100]; the first one's second file lands in
    the second client's directory, which should hold only what that client
    sent (nothing). -/
def witnessEvs : List (Nat × Msg) :=
  [(1, .dirName [100]), (1, .file [97] [1]), (2, .dirName [100]), (1, .file [97] [2])]

theorem c16_prefix_same_dirname_witness :
    ∃ s, run false Server.init witnessEvs = some s ∧
      obs s 2 = [some (freshDir ++ [([97], [2])])] ∧
      (proj 2 witnessEvs).foldl ownStep [] = [some freshDir] ∧
      obs s 1 = [some (freshDir ++ [([97], [2])])] ∧
      (proj 1 witnessEvs).foldl ownStep [] = [some (freshDir ++ [([97], [1, 2])])] :=
  ⟨_, rfl, by decide, by decide, by decide, by decide⟩

/-- the same events with the repaired receiver: the second client is given
    [100] ++ ".1" and both directories are right -/
example :
    ∃ s, run true Server.init witnessEvs = some s ∧
      obs s 1 = [some (freshDir ++ [([97], [1, 2])])] ∧ obs s 2 = [some freshDir] :=
  ⟨_, rfl, by decide, by decide⟩

/-! ### several writer threads on one socket -/

/-- PARTIAL (explicit atomicity hypothesis `atomic = true`, i.e. a lock around
    each send_trace_* call, which the code as it is does not have): when every
    message reaches the socket contiguously, then for all thread schedules, all
    partial-write chunkings and all segmentations the receiver sees whole
    messages, in an order-preserving merge of the threads' message lists.
    What is missing for the code as it is: the hypothesis is false there, see
    `c16_prefix_many_writers_witness`. -/
theorem c16_one_socket_many_writers_partial (le fixed : Bool) (msgs : List (List Msg))
    (chunks : List (List (List Bytes))) (sched : List Nat) (s : Server) (sock : Nat)
    (segs : List Bytes)
    (hwf : ∀ t ∈ msgs, ∀ m ∈ t, m.WF)
    (hchunks : chunks.map (·.map List.flatten) = msgs.map (·.map (encode le)))
    (hsegs : segs.flatten = sockStream true sched chunks) :
    recvConn le fixed (mergeBy sched msgs).length s sock segs =
      runConn fixed s sock (mergeBy sched msgs) := by
  apply c16_framing_roundtrip
  · intro m hm
    rw [mem_mergeBy] at hm
    obtain ⟨t, ht, hmt⟩ := List.mem_flatten.mp hm
    exact hwf t ht m hmt
  · rw [hsegs]
    simp only [sockStream, ↓reduceIte, hchunks, mergeBy_map]

/-- the chunk lists produced by writev_all satisfy `hchunks` (non-vacuity) -/
example : ([[ [[1, 2], [3]] ], [ [[4], [5, 6]] ]] : List (List (List Bytes))).map (·.map List.flatten) =
    [[[1, 2, 3]], [[4, 5, 6]]] := by decide

/-- F-C16-S5 witness (no lock, `atomic = false`): two threads, one message
    each, each written in two chunks; the schedule 0,1,0,1 puts bytes on the
    socket that are neither message order, so the second header the receiver
    reads is payload. -/
def wA : List Bytes := [[0xfa, 0xce, 0, 106, 0, 0], [0, 6, 0, 0, 0, 1, 65, 66]]
def wB : List Bytes := [[0xfa, 0xce, 0, 107], [0, 0, 0, 0]]

theorem c16_prefix_many_writers_witness :
    sockStream false [0, 1, 0, 1] [[wA], [wB]] ≠ wA.flatten ++ wB.flatten ∧
    sockStream false [0, 1, 0, 1] [[wA], [wB]] ≠ wB.flatten ++ wA.flatten ∧
    sockStream true [0, 1, 0, 1] [[wA], [wB]] = wA.flatten ++ wB.flatten ∧
    sockStream false [0, 0, 1, 1] [[wA], [wB]] = wA.flatten ++ wB.flatten := by
  decide

end Uft.Net
