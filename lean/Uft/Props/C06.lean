/- C06 — Replay shows all tasks in time order with correct nesting and durations.

   Model: `Uft.Merge` (read_rstack / read_user_stack: k-way merge, ties to the lowest
   task index) and `Uft.Replay` (fstack_account_time, fstack_update_stack_count,
   fstack_entry/exit/update, print_graph_rstack with leaf folding, fork depth
   inheritance, print_remaining_stack; `--column-view` and the `-f` time fields as
   passes over the printed lines).  `checks/c06.py` ties the model to the code. -/
import Uft.Lemmas.ReplayTree
namespace Uft.C06
open Uft.Merge Uft.Replay

/-! ## the merged stream -/

/-- If every task's records are in time order, replay reads all records of all tasks in
    non-decreasing time order, and each task's records in their own order, whatever the
    number of tasks and their lengths. -/
theorem c06_merge_perm_and_sorted (ts : List (List Rec))
    (h : ∀ t ∈ ts, t.Pairwise (fun a b => a.time ≤ b.time)) :
    (merge ts).Pairwise (fun a b => a.2.time ≤ b.2.time) ∧
    ∀ i, ((merge ts).filter (fun p => p.1 == i)).map (·.2) = ts.getD i [] := by
  constructor
  · refine List.Pairwise.imp ?_ (mergeFuel_lex _ ts (sortedTasks_of_forall h))
    intro a b hab
    rcases hab with h | h <;> omega
  · intro i
    rw [← nth_eq_getD]
    exact mergeFuel_filter _ ts (Nat.le_refl _) i

example : merge [[⟨5, false, 0, 1⟩, ⟨9, true, 0, 1⟩], [⟨5, false, 0, 2⟩, ⟨7, true, 0, 2⟩]] =
    [(0, ⟨5, false, 0, 1⟩), (1, ⟨5, false, 0, 2⟩), (1, ⟨7, true, 0, 2⟩), (0, ⟨9, true, 0, 1⟩)] := by decide

/-- Per-task order is kept even for data that is not time-sorted. -/
theorem c06_merge_keeps_task_order (ts : List (List Rec)) (i : Nat) :
    ((merge ts).filter (fun p => p.1 == i)).map (·.2) = ts.getD i [] := by
  rw [← nth_eq_getD]
  exact mergeFuel_filter _ ts (Nat.le_refl _) i

/-- Records with equal timestamps come out with the lower task index first: the merged
    stream is sorted by (time, task index). -/
theorem c06_merge_ties_stable (ts : List (List Rec))
    (h : ∀ t ∈ ts, t.Pairwise (fun a b => a.time ≤ b.time)) :
    (merge ts).Pairwise (fun a b => a.2.time < b.2.time ∨ (a.2.time = b.2.time ∧ a.1 ≤ b.1)) :=
  mergeFuel_lex _ ts (sortedTasks_of_forall h)

example : ∀ t ∈ [[(⟨5, false, 0, 1⟩ : Rec), ⟨9, true, 0, 1⟩], [⟨5, false, 0, 2⟩, ⟨7, true, 0, 2⟩]],
    t.Pairwise (fun a b => a.time ≤ b.time) := by decide

/-! ## leaf folding, --no-merge -/

/-- Unfolding every `name();` line of the default output into `name() {` and `}` gives the
    `--no-merge` output: same lines, same order, same indentation, durations, addresses and
    times; both runs end in the same state (hence the same "remaining functions" list).
    `PairsOK m`: an EXIT directly after the ENTRY of the same task at the same depth is
    that call's EXIT (same function, not earlier). -/
theorem c06_folding_is_presentation (isFork : Nat → Bool) (g : G) (m : List (Nat × Rec)) (h : PairsOK m) :
    unfold (replay true isFork g m).2 = (replay false isFork g m).2 ∧
    (replay true isFork g m).1 = (replay false isFork g m).1 := by
  have := fold_eq_nomerge isFork m.length m (Nat.le_refl _) g h
  exact ⟨this.2, this.1⟩

/-- for the merged stream of tasks that are each well-formed in this sense, folding is presentation -/
theorem c06_folding_is_presentation_merged (isFork : Nat → Bool) (g : G) (ts : List (List Rec))
    (h : ∀ t ∈ ts, TaskOK t) :
    unfold (replay true isFork g (merge ts)).2 = (replay false isFork g (merge ts)).2 ∧
    (replay true isFork g (merge ts)).1 = (replay false isFork g (merge ts)).1 := by
  apply c06_folding_is_presentation
  apply pairsOK_mergeFuel
  intro j
  by_cases hj : j < ts.length
  · exact h _ (nth_mem hj)
  · rw [nth_of_length_le (Nat.le_of_not_lt hj)]; simp [TaskOK]

/-- the hypothesis of the previous theorem holds for every task whose records are a forest of
    completed calls, none of which returns before it was entered -/
theorem c06_tree_streams_wellformed (d : Nat) (cs : Calls) (h : cs.timed) : TaskOK (recsCalls d cs) :=
  taskOK_recsCalls d cs h

-- non-vacuity: a leaf is folded, and the hypothesis holds for it
example : (replay true (fun _ => false) (g0 [none])
    (merge [[⟨10, false, 0, 7⟩, ⟨25, true, 0, 7⟩]])).2.map (fun e => (e.kind, e.indent, e.dur)) = [(.leaf, 0, 15)] := by
  decide
example : ∀ t ∈ [[(⟨10, false, 0, 7⟩ : Rec), ⟨25, true, 0, 7⟩]], TaskOK t := by
  simp [TaskOK]

/-! ## nesting depth and durations -/

/-- What replay shows for one task (without folding) is what the task's own state machine
    produces from the task's own records, in any interleaving with other tasks; the only
    outside input is the display depth inherited from the parent task at the first record
    (`inh`, 0 = none; always 0 for a task that has no parent task). -/
theorem c06_lines_depend_on_own_records (isFork : Nat → Bool) (g : G) (m : List (Nat × Rec)) (i : Nat) :
    ∃ inh, linesOf i (replay false isFork g m).2 = (runNM isFork i inh (g i) (proj i m)).2 ∧
      ((g i).parent = none → inh = 0) := by
  obtain ⟨inh, h, h0⟩ := replay_false_proj isFork i m g
  exact ⟨inh, h.1, h0⟩

/-- A task (not forked) whose records are a properly nested forest of completed calls is shown,
    in any data set and any interleaving, exactly as `shownCalls`: every call with its `{` and `}`
    lines at indent = nesting depth, the `}` line with duration = exit time - entry time. -/
theorem c06_nested_task_lines (isFork : Nat → Bool) (parents : List (Option Nat)) (ts : List (List Rec))
    (i : Nat) (cs : Calls) (hroot : parents.getD i none = none) (hi : ts.getD i [] = recsCalls 0 cs) :
    linesOf i (replay false isFork (g0 parents) (merge ts)).2 = shownCalls i 0 0 cs := by
  obtain ⟨inh, h, h0⟩ := replay_false_proj isFork i (merge ts) (g0 parents)
  have hp : proj i (merge ts) = recsCalls 0 cs := by
    rw [← hi, ← nth_eq_getD]; exact mergeFuel_filter _ ts (Nat.le_refl _) i
  have h00 : inh = 0 := h0 hroot
  rw [h.1, hp, h00]
  exact runNM_root_calls isFork i _ cs

/-- the default (folding) output of a nested task: after unfolding it is `shownCalls` too -/
theorem c06_nested_task_lines_default (isFork : Nat → Bool) (parents : List (Option Nat)) (ts : List (List Rec))
    (i : Nat) (cs : Calls) (hroot : parents.getD i none = none) (hi : ts.getD i [] = recsCalls 0 cs)
    (hok : ∀ t ∈ ts, TaskOK t) :
    linesOf i (unfold (replay true isFork (g0 parents) (merge ts)).2) = shownCalls i 0 0 cs := by
  rw [(c06_folding_is_presentation_merged isFork _ ts hok).1]
  exact c06_nested_task_lines isFork parents ts i cs hroot hi

theorem c06_indent_is_depth (isFork : Nat → Bool) (parents : List (Option Nat)) (ts : List (List Rec))
    (i : Nat) (cs : Calls) (hroot : parents.getD i none = none) (hi : ts.getD i [] = recsCalls 0 cs) :
    (linesOf i (replay false isFork (g0 parents) (merge ts)).2).map (fun e => (e.kind, e.fn, e.time, e.indent)) =
      (shownCalls i 0 0 cs).map (fun e => (e.kind, e.fn, e.time, e.indent)) := by
  rw [c06_nested_task_lines isFork parents ts i cs hroot hi]

theorem c06_duration_exact (isFork : Nat → Bool) (parents : List (Option Nat)) (ts : List (List Rec))
    (i : Nat) (cs : Calls) (hroot : parents.getD i none = none) (hi : ts.getD i [] = recsCalls 0 cs) :
    (linesOf i (replay false isFork (g0 parents) (merge ts)).2).map (fun e => (e.kind, e.fn, e.time, e.dur)) =
      (shownCalls i 0 0 cs).map (fun e => (e.kind, e.fn, e.time, e.dur)) := by
  rw [c06_nested_task_lines isFork parents ts i cs hroot hi]

-- non-vacuity: main { f { g } }, interleaved with another task
example : (linesOf 1 (replay false (fun _ => false) (g0 [none, none]) (merge [[⟨11, false, 0, 9⟩],
      recsCalls 0 (.cons (.node 1 10 50 (.cons (.node 2 20 40 (.cons (.node 3 25 30 .nil) .nil)) .nil)) .nil)])).2).map
      (fun e => (e.kind, e.fn, e.indent, e.dur)) =
    [(.entry, 1, 0, 0), (.entry, 2, 1, 0), (.entry, 3, 2, 0), (.exit, 3, 2, 5), (.exit, 2, 1, 20), (.exit, 1, 0, 40)] := by
  decide

/-- A forked child continues at its parent's depth: if the parent's `fork()` line was shown at
    indent `D` (so the child inherits `D + 1`), the child's return from fork is shown at indent
    `D` and the calls it then makes at `D` + their nesting depth. -/
theorem c06_fork_child_continues (isFork : Nat → Bool) (i D : Nat) (parent : Option Nat) (t d a : Nat) (kids : Calls) :
    (runNM isFork i (D + 1) (TaskSt.fresh parent)
        ({ time := t, exit := true, depth := d, addr := a } :: recsCalls d kids)).2 =
      { kind := .exit, task := i, indent := D, fn := a, addr := 0, dur := 0, time := t } ::
        shownCalls i D 0 kids :=
  runNM_fork_child isFork i D parent t d a kids

-- the whole picture on a small data set: the child (task 1) returns from fork at the indent of the parent's fork() line
example : (replay false (fun a => a == 99) (g0 [none, some 0])
      (merge [[⟨10, false, 0, 1⟩, ⟨20, false, 1, 99⟩, ⟨40, true, 1, 99⟩, ⟨50, true, 0, 1⟩],
              [⟨30, true, 1, 99⟩, ⟨35, false, 1, 5⟩, ⟨36, true, 1, 5⟩, ⟨45, true, 0, 1⟩]])).2.map
      (fun e => (e.task, e.kind, e.fn, e.indent)) =
    [(0, .entry, 1, 0), (0, .entry, 99, 1), (1, .exit, 99, 1), (1, .entry, 5, 1), (1, .exit, 5, 1), (0, .exit, 99, 1),
     (1, .exit, 1, 0), (0, .exit, 1, 0)] := by
  decide

/-! ## --tid -/

/-- `--tid`: replaying only the selected tasks shows exactly the lines the full replay shows
    for them (same order and values), and leaves them in the same state, provided the parent
    task of every selected forked task is selected as well. -/
theorem c06_tid_is_projection (isFork : Nat → Bool) (parents : List (Option Nat)) (ts : List (List Rec))
    (sel : Nat → Bool) (hclosed : ∀ i p, sel i = true → parents.getD i none = some p → sel p = true) :
    (replay false isFork (g0 parents) (merge (selectTasks sel ts))).2 =
      (replay false isFork (g0 parents) (merge ts)).2.filter (fun e => sel e.task) ∧
    ∀ i, sel i = true → (replay false isFork (g0 parents) (merge (selectTasks sel ts))).1 i =
      (replay false isFork (g0 parents) (merge ts)).1 i := by
  rw [merge_select]
  exact replay_false_filter isFork sel (merge ts) (g0 parents) (g0 parents) (fun _ _ => rfl)
    (fun i hi p hp => hclosed i p hi (by simpa [g0, TaskSt.fresh] using hp))

/-- the same for the default (folding) output, after unfolding: folding itself differs, since
    `--tid` removes the lines of other tasks that stood between an ENTRY and its EXIT -/
theorem c06_tid_is_projection_default (isFork : Nat → Bool) (parents : List (Option Nat)) (ts : List (List Rec))
    (sel : Nat → Bool) (hclosed : ∀ i p, sel i = true → parents.getD i none = some p → sel p = true)
    (hok : ∀ t ∈ ts, TaskOK t) :
    unfold (replay true isFork (g0 parents) (merge (selectTasks sel ts))).2 =
      (unfold (replay true isFork (g0 parents) (merge ts)).2).filter (fun e => sel e.task) := by
  have hok' : ∀ t ∈ selectTasks sel ts, TaskOK t := by
    intro t ht
    obtain ⟨j, hj, rfl⟩ : ∃ j, j < (selectTasks sel ts).length ∧ nth (selectTasks sel ts) j = t := by
      obtain ⟨j, hj, he⟩ := List.getElem_of_mem ht
      exact ⟨j, hj, by rw [nth_eq_getD, List.getD_eq_getElem?_getD, List.getElem?_eq_getElem hj]; simpa using he⟩
    rw [nth_select]
    split
    · by_cases hl : j < ts.length
      · exact hok _ (nth_mem hl)
      · rw [nth_of_length_le (Nat.le_of_not_lt hl)]; simp [TaskOK]
    · simp [TaskOK]
  rw [(c06_folding_is_presentation_merged isFork _ _ hok').1, (c06_folding_is_presentation_merged isFork _ _ hok).1]
  exact (c06_tid_is_projection isFork parents ts sel hclosed).1

-- non-vacuity of the closure hypothesis, and what happens without it: selecting only the forked
-- child (task 1) loses the inherited depth; its lines keep order and values but not the indent
example : ∀ i p, (fun i => i == 0 || i == 1) i = true → [none, some 0].getD i none = some p →
    (fun i => i == 0 || i == 1) p = true := by
  intro i p h hp
  match i, h with
  | 0, _ => simp at hp
  | 1, _ => simp at hp; subst hp; rfl

theorem c06_tid_orphan_child_witness :
    let ts : List (List Rec) := [[⟨10, false, 0, 1⟩, ⟨20, false, 1, 99⟩, ⟨40, true, 1, 99⟩, ⟨50, true, 0, 1⟩],
                                  [⟨30, true, 1, 99⟩, ⟨45, true, 0, 1⟩]]
    let full := (replay false (fun a => a == 99) (g0 [none, some 0]) (merge ts)).2
    let only := (replay false (fun a => a == 99) (g0 [none, some 0]) (merge (selectTasks (fun i => i == 1) ts))).2
    only.map (fun e => (e.kind, e.fn, e.dur, e.time)) = (full.filter (fun e => e.task == 1)).map (fun e => (e.kind, e.fn, e.dur, e.time)) ∧
    only.map (·.indent) = [0, 0] ∧ (full.filter (fun e => e.task == 1)).map (·.indent) = [1, 0] := by
  decide

/-! ## calls still open at the end -/

/-- A task (not forked) whose records stop with calls still open ends with exactly those calls
    on its stack, and `print_remaining_stack` lists them innermost first as `[k] name` with
    `k` = nesting depth; the task is listed iff there is an open call.  (No function at address 0.) -/
theorem c06_open_calls_listed (isFork : Nat → Bool) (parents : List (Option Nat)) (ts : List (List Rec))
    (i : Nat) (ch : OpenChain) (hroot : parents.getD i none = none) (hi : ts.getD i [] = recsOpen 0 ch)
    (hnz : ∀ a ∈ opens ch, a ≠ 0) :
    remainingOf ((replay false isFork (g0 parents) (merge ts)).1 i) =
      (opens ch).zipIdx.reverse.map (fun p => (p.2, p.1)) ∧
    (zeroCount ((replay false isFork (g0 parents) (merge ts)).1 i) =
      ((replay false isFork (g0 parents) (merge ts)).1 i).stackCount ↔ opens ch = []) := by
  obtain ⟨inh, h, h0⟩ := replay_false_proj isFork i (merge ts) (g0 parents)
  have hp : proj i (merge ts) = recsOpen 0 ch := by
    rw [← hi, ← nth_eq_getD]; exact mergeFuel_filter _ ts (Nat.le_refl _) i
  have h00 : inh = 0 := h0 hroot
  rw [h.2, hp, h00]
  obtain ⟨a, b⟩ := runNM_root_open isFork i (g0 parents i).parent ch
  have hg : g0 parents i = TaskSt.fresh (g0 parents i).parent := by simp [g0, TaskSt.fresh]
  rw [hg]
  exact remainingOf_eq a b hnz

example : remaining 2 (replay true (fun _ => false) (g0 [none, none])
    (merge [[⟨10, false, 0, 7⟩, ⟨12, false, 1, 8⟩, ⟨13, true, 1, 8⟩, ⟨14, false, 1, 9⟩], [⟨11, false, 0, 5⟩, ⟨15, true, 0, 5⟩]])).1 =
    [(0, [(1, 9), (0, 7)])] := by decide

/-! ## -f fields, --column-view -/

/-- The `-f` time fields (time, delta, elapsed) are computed from the printed lines; they add
    columns and change no line. -/
theorem c06_fields_are_projection (first : Nat) (last : List (Nat × Nat)) (evs : List Ev) :
    (annotate first last evs).map (·.ev) = evs :=
  annotate_ev first last evs

/-- `--column-view` only moves every line of a task right by that task's column. -/
theorem c06_column_view_is_presentation (off : Nat) (evs : List Ev) :
    ∃ col : Nat → Nat, columnize off [] evs = evs.map (fun e => e.shift (col e.task * off)) := by
  obtain ⟨col, h, _⟩ := columnize_spec off evs []
  exact ⟨col, h⟩

end Uft.C06
