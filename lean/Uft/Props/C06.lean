/- C06 — Replay shows all tasks in time order with correct nesting and durations.

   Model: `Uft.Merge` (read_rstack / read_user_stack: k-way merge, ties to the lowest
   task index) and `Uft.Replay` (fstack_account_time, fstack_update_stack_count,
   fstack_entry/exit/update, print_graph_rstack with leaf folding, fork depth
   inheritance, print_remaining_stack; `--column-view` and the `-f` time fields as
   passes over the printed lines; `replayX`: the same loop with the replay-time fix-ups of
   fstack_entry/fstack_update -- exec, setjmp/longjmp, fork family, classified by symbol
   name -- and the repair flags `Fixes`).  `checks/c06.py` ties the model to the code. -/
import Uft.Lemmas.ReplaySpec
namespace Uft.C06
open Uft.Merge Uft.Replay

/-! ## the merged stream -/

/-- If every task's records are in time order, replay reads all records of all tasks in
    non-decreasing time order, and each task's records in their own order, whatever the
    number of tasks and their lengths. -/
theorem c06_merge_perm_and_sorted (ts : List (List Rec))
    (h : ∀ t ∈ ts, t.Pairwise (fun a b => a.time ≤ b.time)) :
    (merge ts).Pairwise (fun a b => a.2.time ≤ b.2.time) ∧
    ∀ i, ((merge ts).filter (fun p => p.1 == i)).map (·.2) = ts.getD i [] := by
  constructor
  · refine List.Pairwise.imp ?_ (mergeFuel_lex _ ts (sortedTasks_of_forall h))
    intro a b hab
    rcases hab with h | h <;> omega
  · intro i
    rw [← nth_eq_getD]
    exact mergeFuel_filter _ ts (Nat.le_refl _) i

example : merge [[⟨5, false, 0, 1⟩, ⟨9, true, 0, 1⟩], [⟨5, false, 0, 2⟩, ⟨7, true, 0, 2⟩]] =
    [(0, ⟨5, false, 0, 1⟩), (1, ⟨5, false, 0, 2⟩), (1, ⟨7, true, 0, 2⟩), (0, ⟨9, true, 0, 1⟩)] := by decide

/-- Per-task order is kept even for data that is not time-sorted. -/
theorem c06_merge_keeps_task_order (ts : List (List Rec)) (i : Nat) :
    ((merge ts).filter (fun p => p.1 == i)).map (·.2) = ts.getD i [] := by
  rw [← nth_eq_getD]
  exact mergeFuel_filter _ ts (Nat.le_refl _) i

/-- Records with equal timestamps come out with the lower task index first: the merged
    stream is sorted by (time, task index). -/
theorem c06_merge_ties_stable (ts : List (List Rec))
    (h : ∀ t ∈ ts, t.Pairwise (fun a b => a.time ≤ b.time)) :
    (merge ts).Pairwise (fun a b => a.2.time < b.2.time ∨ (a.2.time = b.2.time ∧ a.1 ≤ b.1)) :=
  mergeFuel_lex _ ts (sortedTasks_of_forall h)

example : ∀ t ∈ [[(⟨5, false, 0, 1⟩ : Rec), ⟨9, true, 0, 1⟩], [⟨5, false, 0, 2⟩, ⟨7, true, 0, 2⟩]],
    t.Pairwise (fun a b => a.time ≤ b.time) := by decide

/-! ## leaf folding, --no-merge -/

/-- Unfolding every `name();` line of the default output into `name() {` and `}` gives the
    `--no-merge` output: same lines, same order, same indentation, durations, addresses and
    times; both runs end in the same state (hence the same "remaining functions" list).
    `PairsOK m`: an EXIT directly after the ENTRY of the same task at the same depth is
    that call's EXIT (same function, not earlier). -/
theorem c06_folding_is_presentation (isFork : Nat → Bool) (g : G) (m : List (Nat × Rec)) (h : PairsOK m) :
    unfold (replay true isFork g m).2 = (replay false isFork g m).2 ∧
    (replay true isFork g m).1 = (replay false isFork g m).1 := by
  have := fold_eq_nomerge isFork m.length m (Nat.le_refl _) g h
  exact ⟨this.2, this.1⟩

/-- for the merged stream of tasks that are each well-formed in this sense, folding is presentation -/
theorem c06_folding_is_presentation_merged (isFork : Nat → Bool) (g : G) (ts : List (List Rec))
    (h : ∀ t ∈ ts, TaskOK t) :
    unfold (replay true isFork g (merge ts)).2 = (replay false isFork g (merge ts)).2 ∧
    (replay true isFork g (merge ts)).1 = (replay false isFork g (merge ts)).1 := by
  apply c06_folding_is_presentation
  apply pairsOK_mergeFuel
  intro j
  by_cases hj : j < ts.length
  · exact h _ (nth_mem hj)
  · rw [nth_of_length_le (Nat.le_of_not_lt hj)]; simp [TaskOK]

/-- the hypothesis of the previous theorem holds for every task whose records are a forest of
    completed calls, none of which returns before it was entered -/
theorem c06_tree_streams_wellformed (d : Nat) (cs : Calls) (h : cs.timed) : TaskOK (recsCalls d cs) :=
  taskOK_recsCalls d cs h

-- non-vacuity: a leaf is folded, and the hypothesis holds for it
example : (replay true (fun _ => false) (g0 [none])
    (merge [[⟨10, false, 0, 7⟩, ⟨25, true, 0, 7⟩]])).2.map (fun e => (e.kind, e.indent, e.dur)) = [(.leaf, 0, 15)] := by
  decide
example : ∀ t ∈ [[(⟨10, false, 0, 7⟩ : Rec), ⟨25, true, 0, 7⟩]], TaskOK t := by
  simp [TaskOK]

/-! ## nesting depth and durations -/

/-- What replay shows for one task (without folding) is what the task's own state machine
    produces from the task's own records, in any interleaving with other tasks; the only
    outside input is the display depth inherited from the parent task at the first record
    (`inh`, 0 = none; always 0 for a task that has no parent task). -/
theorem c06_lines_depend_on_own_records (isFork : Nat → Bool) (g : G) (m : List (Nat × Rec)) (i : Nat) :
    ∃ inh, linesOf i (replay false isFork g m).2 = (runNM isFork i inh (g i) (proj i m)).2 ∧
      ((g i).parent = none → inh = 0) := by
  obtain ⟨inh, h, h0⟩ := replay_false_proj isFork i m g
  exact ⟨inh, h.1, h0⟩

/-- A task (not forked) whose records are a properly nested forest of completed calls is shown,
    in any data set and any interleaving, exactly as `shownCalls`: every call with its `{` and `}`
    lines at indent = nesting depth, the `}` line with duration = exit time - entry time. -/
theorem c06_nested_task_lines (isFork : Nat → Bool) (parents : List (Option Nat)) (ts : List (List Rec))
    (i : Nat) (cs : Calls) (hroot : parents.getD i none = none) (hi : ts.getD i [] = recsCalls 0 cs) :
    linesOf i (replay false isFork (g0 parents) (merge ts)).2 = shownCalls i 0 0 cs := by
  obtain ⟨inh, h, h0⟩ := replay_false_proj isFork i (merge ts) (g0 parents)
  have hp : proj i (merge ts) = recsCalls 0 cs := by
    rw [← hi, ← nth_eq_getD]; exact mergeFuel_filter _ ts (Nat.le_refl _) i
  have h00 : inh = 0 := h0 hroot
  rw [h.1, hp, h00]
  exact runNM_root_calls isFork i _ cs

/-- the default (folding) output of a nested task: after unfolding it is `shownCalls` too -/
theorem c06_nested_task_lines_default (isFork : Nat → Bool) (parents : List (Option Nat)) (ts : List (List Rec))
    (i : Nat) (cs : Calls) (hroot : parents.getD i none = none) (hi : ts.getD i [] = recsCalls 0 cs)
    (hok : ∀ t ∈ ts, TaskOK t) :
    linesOf i (unfold (replay true isFork (g0 parents) (merge ts)).2) = shownCalls i 0 0 cs := by
  rw [(c06_folding_is_presentation_merged isFork _ ts hok).1]
  exact c06_nested_task_lines isFork parents ts i cs hroot hi

theorem c06_indent_is_depth (isFork : Nat → Bool) (parents : List (Option Nat)) (ts : List (List Rec))
    (i : Nat) (cs : Calls) (hroot : parents.getD i none = none) (hi : ts.getD i [] = recsCalls 0 cs) :
    (linesOf i (replay false isFork (g0 parents) (merge ts)).2).map (fun e => (e.kind, e.fn, e.time, e.indent)) =
      (shownCalls i 0 0 cs).map (fun e => (e.kind, e.fn, e.time, e.indent)) := by
  rw [c06_nested_task_lines isFork parents ts i cs hroot hi]

theorem c06_duration_exact (isFork : Nat → Bool) (parents : List (Option Nat)) (ts : List (List Rec))
    (i : Nat) (cs : Calls) (hroot : parents.getD i none = none) (hi : ts.getD i [] = recsCalls 0 cs) :
    (linesOf i (replay false isFork (g0 parents) (merge ts)).2).map (fun e => (e.kind, e.fn, e.time, e.dur)) =
      (shownCalls i 0 0 cs).map (fun e => (e.kind, e.fn, e.time, e.dur)) := by
  rw [c06_nested_task_lines isFork parents ts i cs hroot hi]

-- non-vacuity: main { f { g } }, interleaved with another task
example : (linesOf 1 (replay false (fun _ => false) (g0 [none, none]) (merge [[⟨11, false, 0, 9⟩],
      recsCalls 0 (.cons (.node 1 10 50 (.cons (.node 2 20 40 (.cons (.node 3 25 30 .nil) .nil)) .nil)) .nil)])).2).map
      (fun e => (e.kind, e.fn, e.indent, e.dur)) =
    [(.entry, 1, 0, 0), (.entry, 2, 1, 0), (.entry, 3, 2, 0), (.exit, 3, 2, 5), (.exit, 2, 1, 20), (.exit, 1, 0, 40)] := by
  decide

/-- A forked child continues at its parent's depth: if the parent's `fork()` line was shown at
    indent `D` (so the child inherits `D + 1`), the child's return from fork is shown at indent
    `D` and the calls it then makes at `D` + their nesting depth. -/
theorem c06_fork_child_continues (isFork : Nat → Bool) (i D : Nat) (parent : Option Nat) (t d a : Nat) (kids : Calls) :
    (runNM isFork i (D + 1) (TaskSt.fresh parent)
        ({ time := t, exit := true, depth := d, addr := a } :: recsCalls d kids)).2 =
      { kind := .exit, task := i, indent := D, fn := a, addr := 0, dur := 0, time := t } ::
        shownCalls i D 0 kids :=
  runNM_fork_child isFork i D parent t d a kids

-- the whole picture on a small data set: the child (task 1) returns from fork at the indent of the parent's fork() line
example : (replay false (fun a => a == 99) (g0 [none, some 0])
      (merge [[⟨10, false, 0, 1⟩, ⟨20, false, 1, 99⟩, ⟨40, true, 1, 99⟩, ⟨50, true, 0, 1⟩],
              [⟨30, true, 1, 99⟩, ⟨35, false, 1, 5⟩, ⟨36, true, 1, 5⟩, ⟨45, true, 0, 1⟩]])).2.map
      (fun e => (e.task, e.kind, e.fn, e.indent)) =
    [(0, .entry, 1, 0), (0, .entry, 99, 1), (1, .exit, 99, 1), (1, .entry, 5, 1), (1, .exit, 5, 1), (0, .exit, 99, 1),
     (1, .exit, 1, 0), (0, .exit, 1, 0)] := by
  decide

/-! ## --tid -/

/-- `--tid`: replaying only the selected tasks shows exactly the lines the full replay shows
    for them (same order and values), and leaves them in the same state, provided the parent
    task of every selected forked task is selected as well. -/
theorem c06_tid_is_projection (isFork : Nat → Bool) (parents : List (Option Nat)) (ts : List (List Rec))
    (sel : Nat → Bool) (hclosed : ∀ i p, sel i = true → parents.getD i none = some p → sel p = true) :
    (replay false isFork (g0 parents) (merge (selectTasks sel ts))).2 =
      (replay false isFork (g0 parents) (merge ts)).2.filter (fun e => sel e.task) ∧
    ∀ i, sel i = true → (replay false isFork (g0 parents) (merge (selectTasks sel ts))).1 i =
      (replay false isFork (g0 parents) (merge ts)).1 i := by
  rw [merge_select]
  exact replay_false_filter isFork sel (merge ts) (g0 parents) (g0 parents) (fun _ _ => rfl)
    (fun i hi p hp => hclosed i p hi (by simpa [g0, TaskSt.fresh] using hp))

/-- the same for the default (folding) output, after unfolding: folding itself differs, since
    `--tid` removes the lines of other tasks that stood between an ENTRY and its EXIT -/
theorem c06_tid_is_projection_default (isFork : Nat → Bool) (parents : List (Option Nat)) (ts : List (List Rec))
    (sel : Nat → Bool) (hclosed : ∀ i p, sel i = true → parents.getD i none = some p → sel p = true)
    (hok : ∀ t ∈ ts, TaskOK t) :
    unfold (replay true isFork (g0 parents) (merge (selectTasks sel ts))).2 =
      (unfold (replay true isFork (g0 parents) (merge ts)).2).filter (fun e => sel e.task) := by
  have hok' : ∀ t ∈ selectTasks sel ts, TaskOK t := by
    intro t ht
    obtain ⟨j, hj, rfl⟩ : ∃ j, j < (selectTasks sel ts).length ∧ nth (selectTasks sel ts) j = t := by
      obtain ⟨j, hj, he⟩ := List.getElem_of_mem ht
      exact ⟨j, hj, by rw [nth_eq_getD, List.getD_eq_getElem?_getD, List.getElem?_eq_getElem hj]; simpa using he⟩
    rw [nth_select]
    split
    · by_cases hl : j < ts.length
      · exact hok _ (nth_mem hl)
      · rw [nth_of_length_le (Nat.le_of_not_lt hl)]; simp [TaskOK]
    · simp [TaskOK]
  rw [(c06_folding_is_presentation_merged isFork _ _ hok').1, (c06_folding_is_presentation_merged isFork _ _ hok).1]
  exact (c06_tid_is_projection isFork parents ts sel hclosed).1

-- non-vacuity of the closure hypothesis, and what happens without it: selecting only the forked
-- child (task 1) loses the inherited depth; its lines keep order and values but not the indent
example : ∀ i p, (fun i => i == 0 || i == 1) i = true → [none, some 0].getD i none = some p →
    (fun i => i == 0 || i == 1) p = true := by
  intro i p h hp
  match i, h with
  | 0, _ => simp at hp
  | 1, _ => simp at hp; subst hp; rfl

theorem c06_tid_orphan_child_witness :
    let ts : List (List Rec) := [[⟨10, false, 0, 1⟩, ⟨20, false, 1, 99⟩, ⟨40, true, 1, 99⟩, ⟨50, true, 0, 1⟩],
                                  [⟨30, true, 1, 99⟩, ⟨45, true, 0, 1⟩]]
    let full := (replay false (fun a => a == 99) (g0 [none, some 0]) (merge ts)).2
    let only := (replay false (fun a => a == 99) (g0 [none, some 0]) (merge (selectTasks (fun i => i == 1) ts))).2
    only.map (fun e => (e.kind, e.fn, e.dur, e.time)) = (full.filter (fun e => e.task == 1)).map (fun e => (e.kind, e.fn, e.dur, e.time)) ∧
    only.map (·.indent) = [0, 0] ∧ (full.filter (fun e => e.task == 1)).map (·.indent) = [1, 0] := by
  decide

/-! ## calls still open at the end -/

/-- A task (not forked) whose records stop with calls still open ends with exactly those calls
    on its stack, and `print_remaining_stack` lists them innermost first as `[k] name` with
    `k` = nesting depth; the task is listed iff there is an open call.  (No function at address 0.) -/
theorem c06_open_calls_listed (isFork : Nat → Bool) (parents : List (Option Nat)) (ts : List (List Rec))
    (i : Nat) (ch : OpenChain) (hroot : parents.getD i none = none) (hi : ts.getD i [] = recsOpen 0 ch)
    (hnz : ∀ a ∈ opens ch, a ≠ 0) :
    remainingOf ((replay false isFork (g0 parents) (merge ts)).1 i) =
      (opens ch).zipIdx.reverse.map (fun p => (p.2, p.1)) ∧
    (zeroCount ((replay false isFork (g0 parents) (merge ts)).1 i) =
      ((replay false isFork (g0 parents) (merge ts)).1 i).stackCount ↔ opens ch = []) := by
  obtain ⟨inh, h, h0⟩ := replay_false_proj isFork i (merge ts) (g0 parents)
  have hp : proj i (merge ts) = recsOpen 0 ch := by
    rw [← hi, ← nth_eq_getD]; exact mergeFuel_filter _ ts (Nat.le_refl _) i
  have h00 : inh = 0 := h0 hroot
  rw [h.2, hp, h00]
  obtain ⟨a, b⟩ := runNM_root_open isFork i (g0 parents i).parent ch
  have hg : g0 parents i = TaskSt.fresh (g0 parents i).parent := by simp [g0, TaskSt.fresh]
  rw [hg]
  exact remainingOf_eq a b hnz

example : remaining 2 (replay true (fun _ => false) (g0 [none, none])
    (merge [[⟨10, false, 0, 7⟩, ⟨12, false, 1, 8⟩, ⟨13, true, 1, 8⟩, ⟨14, false, 1, 9⟩], [⟨11, false, 0, 5⟩, ⟨15, true, 0, 5⟩]])).1 =
    [(0, [(1, 9), (0, 7)])] := by decide

/-! ## -f fields, --column-view -/

/-- The `-f` time fields (time, delta, elapsed) are computed from the printed lines; they add
    columns and change no line. -/
theorem c06_fields_are_projection (first : Nat) (last : List (Nat × Nat)) (evs : List Ev) :
    (annotate first last evs).map (·.ev) = evs :=
  annotate_ev first last evs

/-- `--column-view` only moves every line of a task right by that task's column. -/
theorem c06_column_view_is_presentation (off : Nat) (evs : List Ev) :
    ∃ col : Nat → Nat, columnize off [] evs = evs.map (fun e => e.shift (col e.task * off)) := by
  obtain ⟨col, h, _⟩ := columnize_spec off evs []
  exact ⟨col, h⟩

/-! ## the replay-time fix-ups: which functions -/

/-- the model's `strstr` is the substring relation -/
theorem c06_strstr_is_infix (hay needle : List Char) : strstr hay needle = true ↔ needle <:+: hay :=
  strstr_iff_infix hay needle

/-- Every name is classified: a function is an exec / setjmp / longjmp / fork fix-up exactly when its
    whole name is one of the names of the family (`specClass` lists them: 7 + 4 + 3 + 4 names, among them
    `__longjmp_chk`, `__sigsetjmp`, `_setjmp`, `vfork`, `daemon`, `posix.fork`), whatever it contains:
    the table look-up (whole-name `strcmp`) followed by fstack_entry's strncmp/strstr cascade computes
    that classification for every string. -/
theorem c06_fixup_classification_total (name : String) : classifyName name = specClass name :=
  classifyName_eq_spec name

/-- names that merely contain or resemble a fix-up name are ordinary functions -/
theorem c06_lookalikes_are_plain :
    ∀ n ∈ ["my_longjmp_helper", "setjmp_wrapper", "do_fork", "forkpty", "exec", "execute", "daemonize", "longjmp_",
           "longjmp_chk", "posix_fork", "vforked", "xsetjmp", "fexecve"], classifyName n = Fix.none := by decide

example : classifyName "__longjmp_chk" = .longjmp ∧ classifyName "__sigsetjmp" = .setjmp ∧
    classifyName "execvpe" = .exec ∧ classifyName "vfork" = .fork ∧ classifyName "posix.fork" = .fork := by decide

/-! ## the replay-time fix-ups: the main loop -/

/-- On a stream without exec-family and longjmp-family calls, the code without the repairs behaves as
    `replay` (the model all theorems above are about): same lines, same task states.  setjmp- and
    fork-family calls may occur (a setjmp only arms the jump point). -/
theorem c06_fixup_free_is_plain (cls : Nat → Fix) (b : Bool) (w : W) (m : List (Nat × Rec)) (h : JumpFree cls m) :
    (replayX {} cls b w m).1.g = (replay b (isForkOf cls) w.g m).1 ∧
    (replayX {} cls b w m).2 = (replay b (isForkOf cls) w.g m).2 :=
  replayX_plain cls b m.length m (Nat.le_refl _) w h

example : JumpFree (fun a => if a = 11 then .setjmp else if a = 12 then .longjmp else .none)
    [(0, ⟨10, false, 0, 1⟩), (0, ⟨20, false, 1, 11⟩), (0, ⟨25, true, 1, 11⟩)] := by
  intro p hp; simp at hp; rcases hp with h | h | h <;> subst h <;> simp [jumps]

/-- Leaf folding is presentation with the fix-ups too, whatever the repairs: unfolding the default
    output gives the `--no-merge` output and both runs end in the same state.  (An exec/longjmp entry is
    never folded.) -/
theorem c06_foldingX_is_presentation (fx : Fixes) (cls : Nat → Fix) (w : W) (m : List (Nat × Rec)) (h : PairsOK m) :
    unfold (replayX fx cls true w m).2 = (replayX fx cls false w m).2 ∧
    (replayX fx cls true w m).1 = (replayX fx cls false w m).1 := by
  have := foldX_eq_nomerge fx cls m.length m (Nat.le_refl _) w h
  exact ⟨this.2, this.1⟩

theorem c06_foldingX_is_presentation_merged (fx : Fixes) (cls : Nat → Fix) (w : W) (ts : List (List Rec))
    (h : ∀ t ∈ ts, TaskOK t) :
    unfold (replayX fx cls true w (merge ts)).2 = (replayX fx cls false w (merge ts)).2 ∧
    (replayX fx cls true w (merge ts)).1 = (replayX fx cls false w (merge ts)).1 := by
  apply c06_foldingX_is_presentation
  apply pairsOK_mergeFuel
  intro j
  by_cases hj : j < ts.length
  · exact h _ (nth_mem hj)
  · rw [nth_of_length_le (Nat.le_of_not_lt hj)]; simp [TaskOK]

/-! ## coherent streams are shown as recorded (any tasks, forks, exec, setjmp/longjmp)

`cohB fx cls st S m`: from the reader's state `S` on, the merged stream `m` is coherent --
the depth field of every record is the number of calls open in its task (an ENTRY pushes, an EXIT pops,
an exec-family ENTRY is followed by a depth-0 ENTRY or, repaired code only, by its own EXIT; after a
longjmp-family ENTRY the stack is the one of the setjmp-family call that was entered last, by any task:
"last-armed target"); a task's first record is an ENTRY at depth 0, or, for a forked child, the EXIT/ENTRY
that continues the stack of the parent's fork() -- with the code as it is only if that fork() is the
parent's latest one so far (finding C06-FORK-LATEST), with `forkLatest` any of them. -/

/-- `--no-merge` output of a coherent stream, all tasks at once: one line per record, in stream order, at
    indent = the record's depth; an `}` line shows the function and the duration `exit.time - entry.time`
    of the innermost open call of its task (`specLines`); replay's final stacks are the reader's. -/
theorem c06_coherent_stream_shown_as_recorded (fx : Fixes) (cls : Nat → Fix) (parents : List (Option Nat))
    (forked : List Bool) (m : List (Nat × Rec))
    (hc : cohB fx cls (static0 parents forked) spec0 m = true) :
    (replayX fx cls false (w0 parents forked) m).2 = specLines cls spec0 m ∧
    Rel (static0 parents forked) (replayX fx cls false (w0 parents forked) m).1 (specEnd cls spec0 m) :=
  replayX_refines_spec fx cls _ m _ _ (rel0 parents forked) hc

/-- the same from any state of replay that agrees with the reader's -/
theorem c06_coherent_suffix_shown_as_recorded (fx : Fixes) (cls : Nat → Fix) (st : Static) (w : W) (S : Spec)
    (m : List (Nat × Rec)) (hr : Rel st w S) (hc : cohB fx cls st S m = true) :
    (replayX fx cls false w m).2 = specLines cls S m ∧ Rel st (replayX fx cls false w m).1 (specEnd cls S m) :=
  replayX_refines_spec fx cls st m w S hr hc

/-- the default (folding) output of a coherent stream, after unfolding -/
theorem c06_coherent_stream_default (fx : Fixes) (cls : Nat → Fix) (parents : List (Option Nat))
    (forked : List Bool) (m : List (Nat × Rec)) (hp : PairsOK m)
    (hc : cohB fx cls (static0 parents forked) spec0 m = true) :
    unfold (replayX fx cls true (w0 parents forked) m).2 = specLines cls spec0 m := by
  rw [(c06_foldingX_is_presentation fx cls _ m hp).1]
  exact (c06_coherent_stream_shown_as_recorded fx cls parents forked m hc).1

/-- indentation = the depth recorded in the stream, for every line of every task -/
theorem c06_indent_is_recorded_depth (fx : Fixes) (cls : Nat → Fix) (parents : List (Option Nat))
    (forked : List Bool) (m : List (Nat × Rec))
    (hc : cohB fx cls (static0 parents forked) spec0 m = true) :
    (replayX fx cls false (w0 parents forked) m).2.map (fun e => (e.kind, e.task, e.indent, e.fn, e.time)) =
      m.map (fun p => ((if p.2.exit then Kind.exit else Kind.entry), p.1, p.2.depth, p.2.addr, p.2.time)) := by
  rw [(c06_coherent_stream_shown_as_recorded fx cls parents forked m hc).1]
  exact specLines_shape cls m spec0

/-- the calls replay lists as still open at the end are the reader's open calls of the task -/
theorem c06_open_calls_are_recorded (fx : Fixes) (cls : Nat → Fix) (parents : List (Option Nat))
    (forked : List Bool) (m : List (Nat × Rec)) (i : Nat) (T : STask)
    (hc : cohB fx cls (static0 parents forked) spec0 m = true) (hT : (specEnd cls spec0 m).task i = some T)
    (hp : T.pend = none) :
    openAddrs ((replayX fx cls false (w0 parents forked) m).1.g i) = T.stk.map (·.addr) := by
  have := openAddrs_of_rel (c06_coherent_stream_shown_as_recorded fx cls parents forked m hc).2 i
  rw [this, hT]
  simp [hp]

-- non-vacuity: main{ setjmp(); foo{ bar{ longjmp() ~> second return of setjmp } } baz() }, a second task interleaved
example : cohB {} (fun a => if a = 11 then .setjmp else if a = 12 then .longjmp else .none) (static0 [none, none] [false, false])
    spec0 (merge [[⟨10, false, 0, 1⟩, ⟨20, false, 1, 11⟩, ⟨25, true, 1, 11⟩, ⟨30, false, 1, 2⟩, ⟨40, false, 2, 3⟩,
      ⟨50, false, 3, 12⟩, ⟨60, true, 1, 11⟩, ⟨70, false, 1, 4⟩, ⟨80, true, 1, 4⟩, ⟨90, true, 0, 1⟩],
      [⟨15, false, 0, 8⟩, ⟨55, false, 1, 9⟩, ⟨65, true, 1, 9⟩]]) = true := by decide

example : ((replayX {} (fun a => if a = 11 then .setjmp else if a = 12 then .longjmp else .none) false (w0 [none] [false])
    (merge [[⟨10, false, 0, 1⟩, ⟨20, false, 1, 11⟩, ⟨25, true, 1, 11⟩, ⟨30, false, 1, 2⟩, ⟨40, false, 2, 3⟩,
      ⟨50, false, 3, 12⟩, ⟨60, true, 1, 11⟩, ⟨70, false, 1, 4⟩, ⟨80, true, 1, 4⟩, ⟨90, true, 0, 1⟩]])).2).map
      (fun e => (e.kind, e.fn, e.indent, e.dur)) =
    [(.entry, 1, 0, 0), (.entry, 11, 1, 0), (.exit, 11, 1, 5), (.entry, 2, 1, 0), (.entry, 3, 2, 0), (.entry, 12, 3, 0),
     (.exit, 11, 1, 30), (.entry, 4, 1, 0), (.exit, 4, 1, 10), (.exit, 1, 0, 80)] := by decide

/-- After a longjmp the next call is shown at the depth of the setjmp call it returns to: in every coherent
    stream -- setjmp-family ENTRY `sj` of task `i`, then no other setjmp-family ENTRY of any task (`mid`), a
    longjmp-family ENTRY `lj` of task `i`, then the next two records of task `i`, an EXIT `x` (the second
    return of setjmp) and an ENTRY `e` -- both are printed at indent `sj.depth` (and every line of the stream
    at its record's depth). -/
theorem c06_longjmp_restores_indent (fx : Fixes) (cls : Nat → Fix) (parents : List (Option Nat)) (forked : List Bool)
    (i : Nat) (sj lj x e : Rec) (pre mid mid2 mid3 rest : List (Nat × Rec))
    (hsj : sj.exit = false ∧ cls sj.addr = .setjmp) (hlj : lj.exit = false ∧ cls lj.addr = .longjmp)
    (hx : x.exit = true) (he : e.exit = false)
    (hmid : ∀ p ∈ mid, p.2.exit = false → cls p.2.addr ≠ .setjmp)
    (hmid2 : ∀ p ∈ mid2, p.1 ≠ i) (hmid3 : ∀ p ∈ mid3, p.1 ≠ i)
    (hc : cohB fx cls (static0 parents forked) spec0
      (pre ++ (i, sj) :: (mid ++ (i, lj) :: (mid2 ++ (i, x) :: (mid3 ++ (i, e) :: rest)))) = true) :
    x.depth = sj.depth ∧ e.depth = sj.depth ∧
    (replayX fx cls false (w0 parents forked)
        (pre ++ (i, sj) :: (mid ++ (i, lj) :: (mid2 ++ (i, x) :: (mid3 ++ (i, e) :: rest))))).2.map (·.indent) =
      (pre ++ (i, sj) :: (mid ++ (i, lj) :: (mid2 ++ (i, x) :: (mid3 ++ (i, e) :: rest)))).map (·.2.depth) := by
  have hd : x.depth = sj.depth ∧ e.depth = sj.depth := by
    rw [cohB_append, Bool.and_eq_true] at hc
    exact coh_longjmp_depths fx cls _ _ i sj lj x e mid mid2 mid3 rest hsj hlj hx he hmid hmid2 hmid3 hc.2
  refine ⟨hd.1, hd.2, ?_⟩
  have := c06_indent_is_recorded_depth fx cls parents forked _ hc
  have h2 := congrArg (List.map (fun q : Kind × Nat × Nat × Nat × Nat => q.2.2.1)) this
  simpa [List.map_map, Function.comp_def] using h2

-- non-vacuity of the stream shape: the stream of the example above, cut at the setjmp / longjmp / second return / next call
example : (⟨60, true, 1, 11⟩ : Rec).depth = (⟨20, false, 1, 11⟩ : Rec).depth ∧ (⟨70, false, 1, 4⟩ : Rec).depth = (⟨20, false, 1, 11⟩ : Rec).depth :=
  let cls : Nat → Fix := fun a => if a = 11 then .setjmp else if a = 12 then .longjmp else .none
  let h := c06_longjmp_restores_indent {} cls [none] [false] 0 ⟨20, false, 1, 11⟩ ⟨50, false, 3, 12⟩ ⟨60, true, 1, 11⟩ ⟨70, false, 1, 4⟩
    [(0, ⟨10, false, 0, 1⟩)] [(0, ⟨25, true, 1, 11⟩), (0, ⟨30, false, 1, 2⟩), (0, ⟨40, false, 2, 3⟩)] [] []
    [(0, ⟨80, true, 1, 4⟩), (0, ⟨90, true, 0, 1⟩)] (by decide) (by decide) rfl rfl (by decide) (by decide) (by decide) (by decide)
  ⟨h.1, h.2.1⟩

/-- After a successful exec the new program image starts at depth 0: the task's next ENTRY after an
    exec-family ENTRY carries depth 0 in every coherent stream, and is shown there. -/
theorem c06_exec_resets_depth (fx : Fixes) (cls : Nat → Fix) (parents : List (Option Nat)) (forked : List Bool)
    (i : Nat) (ex e : Rec) (pre mid rest : List (Nat × Rec))
    (hex : ex.exit = false ∧ cls ex.addr = .exec) (he : e.exit = false) (hmid : ∀ p ∈ mid, p.1 ≠ i)
    (hc : cohB fx cls (static0 parents forked) spec0 (pre ++ (i, ex) :: (mid ++ (i, e) :: rest)) = true) :
    e.depth = 0 ∧
    (replayX fx cls false (w0 parents forked) (pre ++ (i, ex) :: (mid ++ (i, e) :: rest))).2.map (·.indent) =
      (pre ++ (i, ex) :: (mid ++ (i, e) :: rest)).map (·.2.depth) := by
  have hd : e.depth = 0 := by
    rw [cohB_append, Bool.and_eq_true] at hc
    exact coh_exec_depth fx cls _ _ i ex e mid rest hex he hmid hc.2
  refine ⟨hd, ?_⟩
  have := c06_indent_is_recorded_depth fx cls parents forked _ hc
  have h2 := congrArg (List.map (fun q : Kind × Nat × Nat × Nat × Nat => q.2.2.1)) this
  simpa [List.map_map, Function.comp_def] using h2

-- non-vacuity: main{ run{ execv() ~> new image: main{ } } }
example : cohB {} (fun a => if a = 7 then .exec else .none) (static0 [none] [false]) spec0
    (merge [[⟨10, false, 0, 1⟩, ⟨20, false, 1, 2⟩, ⟨30, false, 2, 7⟩, ⟨40, false, 0, 1⟩, ⟨50, true, 0, 1⟩]]) = true := by decide

/-! ## findings: the code as it is, and the repaired code -/

/-- C06-FORK-LATEST, the code as it is (`forkLatest := false`): the parent (task 0) calls fork() at depth 2
    inside `a`, returns, and calls fork() again at depth 1 before the first child (task 1) has its first
    record: the child's lines come out at indents 1 1 1 0 0 although its records carry the depths 2 2 2 1 0
    (it continues the parent's stack main > a > fork).  Shape: the parent's latest fork() so far is not the one
    the child returns from, i.e. the stream is not coherent for `forkLatest := false`. -/
theorem c06_prefix_fork_latest_witness :
    let cls : Nat → Fix := fun a => if a = 99 then .fork else .none
    let ts : List (List Rec) :=
      [[⟨10, false, 0, 1⟩, ⟨20, false, 1, 2⟩, ⟨30, false, 2, 99⟩, ⟨40, true, 2, 99⟩, ⟨50, true, 1, 2⟩,
        ⟨60, false, 1, 99⟩, ⟨90, true, 1, 99⟩, ⟨100, true, 0, 1⟩],
       [⟨70, true, 2, 99⟩, ⟨75, false, 2, 5⟩, ⟨80, true, 2, 5⟩, ⟨85, true, 1, 2⟩, ⟨95, true, 0, 1⟩]]
    (linesOf 1 (replayX {} cls false (w0 [none, some 0] [false, true]) (merge ts)).2).map (·.indent) = [1, 1, 1, 0, 0] ∧
    (ts.getD 1 []).map (·.depth) = [2, 2, 2, 1, 0] ∧
    cohB {} cls (static0 [none, some 0] [false, true]) spec0 (merge ts) = false ∧
    (linesOf 1 (replayX { forkLatest := true } cls false (w0 [none, some 0] [false, true]) (merge ts)).2).map (·.indent) =
      [2, 2, 2, 1, 0] ∧
    cohB { forkLatest := true } cls (static0 [none, some 0] [false, true]) spec0 (merge ts) = true := by
  decide

/-- The repaired code: a forked child may continue ANY earlier fork() of its parent -- the start condition
    of a child whose parent has forked holds whatever the parent's latest fork() was; so
    `c06_coherent_stream_shown_as_recorded` / `c06_indent_is_recorded_depth` with `forkLatest := true` show
    every such child at the depths its records carry ("a forked child continues at its parent's depth"). -/
theorem c06_fork_child_continues_any_fork (fx : Fixes) (hfx : fx.forkLatest = true) (st : Static) (S : Spec)
    (i : Nat) (r : Rec) (hp : S.forkOf (st.par i) ≠ 0) : startOK fx st S i r = true := by
  unfold startOK
  cases S.task i with
  | some _ => rfl
  | none => simp [hp, hfx]

/-- without the repair the child must return from the parent's latest fork() -/
theorem c06_fork_child_latest_only (st : Static) (S : Spec) (i : Nat) (r : Rec) (hT : S.task i = none)
    (hp : S.forkOf (st.par i) ≠ 0) : startOK {} st S i r = true ↔ S.forkOf (st.par i) = firstCount r := by
  simp [startOK, hT, hp]

/-- C06-EXEC-FAILED, the code as it is: main{ run{ execv() fails and returns; leaf() } }: the `}` of execv
    and everything after it is printed at indent 0 (records: 2 2 2 1 0) and the durations pair with the
    wrong slots (the `}` of execv shows main's start time 10).  The repaired code (`execFail := true`) shows
    the stream as recorded; it is coherent only for the repaired code. -/
theorem c06_prefix_exec_failed_witness :
    let cls : Nat → Fix := fun a => if a = 7 then .exec else .none
    let ts : List (List Rec) :=
      [[⟨10, false, 0, 1⟩, ⟨20, false, 1, 2⟩, ⟨30, false, 2, 7⟩, ⟨40, true, 2, 7⟩, ⟨50, false, 2, 5⟩, ⟨60, true, 2, 5⟩,
        ⟨70, true, 1, 2⟩, ⟨80, true, 0, 1⟩]]
    (replayX {} cls false (w0 [none] [false]) (merge ts)).2.map (fun e => (e.indent, e.dur)) =
      [(0, 0), (1, 0), (2, 0), (0, 10), (0, 0), (0, 10), (0, 10), (0, 10)] ∧
    cohB {} cls (static0 [none] [false]) spec0 (merge ts) = false ∧
    (replayX { execFail := true } cls false (w0 [none] [false]) (merge ts)).2.map (fun e => (e.indent, e.dur)) =
      [(0, 0), (1, 0), (2, 0), (2, 10), (2, 0), (2, 10), (1, 50), (0, 70)] ∧
    cohB { execFail := true } cls (static0 [none] [false]) spec0 (merge ts) = true := by
  decide

/-- C06-TID-ORPHAN with the repair: the forked child replayed alone (`--tid <child>`) is coherent and
    hence shown at the depths of its records (compare `c06_tid_orphan_child_witness`). -/
theorem c06_tid_orphan_repaired_witness :
    let cls : Nat → Fix := fun a => if a = 99 then .fork else .none
    let ts : List (List Rec) := [[⟨10, false, 0, 1⟩, ⟨20, false, 1, 99⟩, ⟨40, true, 1, 99⟩, ⟨50, true, 0, 1⟩],
                                  [⟨30, true, 1, 99⟩, ⟨45, true, 0, 1⟩]]
    (replayX { orphan := true } cls false (w0 [none, some 0] [false, true]) (merge (selectTasks (fun i => i == 1) ts))).2.map
      (·.indent) = [1, 0] ∧
    cohB { orphan := true } cls (static0 [none, some 0] [false, true]) spec0 (merge (selectTasks (fun i => i == 1) ts)) = true ∧
    cohB {} cls (static0 [none, some 0] [false, true]) spec0 (merge (selectTasks (fun i => i == 1) ts)) = false := by
  decide

end Uft.C06
