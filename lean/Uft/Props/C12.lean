import Uft.Lemmas.Trunc
import Uft.Lemmas.TextFiles
import Uft.Lemmas.TextLines
/-
C12 — Analysis commands survive truncated or partially written data.
Property theorems only (helpers: Lemmas/Trunc.lean, Lemmas/TextFiles.lean, Lemmas/TextLines.lean).

Part 1: the per-task trace data (`<tid>.dat`), model Uft/Model/Trunc.lean.
`readAll true` is the reader with proposed_fixes/C12-F7.diff, C12-S4.diff, C12-F14.diff applied,
`readAll false` the reader as found.
-/
namespace Uft.C12
open Uft.Trunc

/-- C12 main statement for trace data: for every list of well-formed records (payloads of any
    size: string arguments, fixed-size arguments, events) and EVERY cut position `k`, the
    repaired reader delivers exactly the records that are completely present in the first `k`
    bytes, stops with a clean end-of-data, and leaves `task->ustack` (from which report/graph
    take the closing time of unfinished calls) at the last whole record: nothing of a partial
    record is delivered or leaks. -/
theorem c12_cut_equals_whole_prefix (ctx : Ctx) (rs : List Rec) (hwf : ∀ r ∈ rs, WF ctx r)
    (k : Nat) :
    readAll true ctx ((encodeAll rs).take k) =
      (rs.take (wholeRecordsBefore rs k), .eof, lastHdr (rs.take (wholeRecordsBefore rs k))) := by
  unfold readAll lastHdr
  apply readAllF_cut ctx rs hwf
  have h := whole_le rs k
  have hl : ((encodeAll rs).take k).length = min k (encodeAll rs).length := by simp
  rw [hl]
  have : 16 * wholeRecordsBefore rs k ≤ min k (encodeAll rs).length := by
    rw [Nat.le_min]; exact h
  omega

/-- Composition: whatever a command computes from the reader's result (records, stop reason,
    final `ustack`), on a cut file it computes exactly what it computes on the copy that ends at
    the last whole record. -/
theorem c12_commands_prefix {α : Type} (cmd : List Rec × Status × Bytes → α) (ctx : Ctx)
    (rs : List Rec) (hwf : ∀ r ∈ rs, WF ctx r) (k : Nat) :
    cmd (readAll true ctx ((encodeAll rs).take k)) =
      cmd (readAll true ctx (encodeAll (rs.take (wholeRecordsBefore rs k)))) := by
  have hwf' : ∀ r ∈ rs.take (wholeRecordsBefore rs k), WF ctx r :=
    fun r hr => hwf r (List.mem_of_mem_take hr)
  have h1 := c12_cut_equals_whole_prefix ctx rs hwf k
  have h2 := c12_cut_equals_whole_prefix ctx _ hwf'
    (encodeAll (rs.take (wholeRecordsBefore rs k))).length
  rw [List.take_length, whole_full, List.take_length] at h2
  rw [h1, h2]

/-- Memory safety of the repaired reader on EVERY byte string (not only cuts of valid files):
    it never stops in the out-of-bounds state, never delivers a record whose payload read was
    incomplete, and for every delivered record the consumers' walk (replay/`dump --chrome` with
    `raw = false`, raw `dump` with `raw = true`) stays inside the delivered payload. -/
theorem c12_read_in_bounds (ctx : Ctx) (hok : SpecsOK ctx) (raw : Bool) (bs : Bytes) :
    (readAll true ctx bs).2.1 ≠ .oob ∧
    ∀ r ∈ (readAll true ctx bs).1, r.partl = false ∧ consumeOk true raw ctx r = true :=
  readAllF_safe hok raw _ _ _

/-- The reader terminates on every byte string (repaired or not): the fuel `len/16 + 1`
    is never exhausted, because every delivered record consumed its 16 header bytes. -/
theorem c12_read_terminates (fixed : Bool) (ctx : Ctx) (bs : Bytes) :
    (readAll fixed ctx bs).2.1 ≠ .fuel :=
  readAllF_fuel fixed ctx _ _ _ (by omega)

/-! ### perf-cpuN.dat (utils/perf.c `read_perf_event`, the reader AS CODED: `fixed = false`) -/

/-- C12 for the per-cpu perf files: for every sequence of well-formed perf records (context switches,
    task-new / task-exit with their trailing `sample_id`, comm records of both name lengths, records of
    any unknown type and length) and EVERY cut position `k`, the reader as coded delivers exactly the
    events of the records that are completely present in the first `k` bytes and ends with a clean end
    of file: a record whose trailing `sample_id` (or any other part) is missing is not delivered. -/
theorem c12_perf_cut_equals_whole_prefix (rs : List PRec) (hwf : ∀ r ∈ rs, PWF r) (k : Nat) :
    readPerfAll false ((pEncodeAll rs).take k) =
      ((rs.take (pWholeBefore rs k)).filterMap pEvOf, .eof) := by
  unfold readPerfAll
  apply readPerfAllF_cut rs hwf
  have := pWhole_le rs k
  omega

/-- whatever a command computes from the events of a per-cpu file: on a cut file it is what it computes
    on the copy that ends at the last whole perf record -/
theorem c12_perf_commands_prefix {α : Type} (cmd : List PEv × PStatus → α) (rs : List PRec)
    (hwf : ∀ r ∈ rs, PWF r) (k : Nat) :
    cmd (readPerfAll false ((pEncodeAll rs).take k)) =
      cmd (readPerfAll false (pEncodeAll (rs.take (pWholeBefore rs k)))) := by
  have hwf' : ∀ r ∈ rs.take (pWholeBefore rs k), PWF r :=
    fun r hr => hwf r (List.mem_of_mem_take hr)
  have h1 := c12_perf_cut_equals_whole_prefix rs hwf k
  have h2 := c12_perf_cut_equals_whole_prefix _ hwf' (pEncodeAll (rs.take (pWholeBefore rs k))).length
  rw [List.take_length, pWhole_full, List.take_length] at h2
  rw [h1, h2]

/-- memory safety of the perf reader.  As coded, on every cut of every well-formed file: the body reads
    stay inside the 40-byte union and no size field wraps around (reading stops with `eof`).  On EVERY
    byte string this holds for the reader with proposed_fixes/C12-PERF-LEN.diff (`fixed = true`); the
    reader as coded trusts the size field of the file (`c12_prefix_perf_len_witness`). -/
theorem c12_perf_read_in_bounds :
    (∀ (rs : List PRec), (∀ r ∈ rs, PWF r) → ∀ k,
      (readPerfAll false ((pEncodeAll rs).take k)).2 = .eof) ∧
    (∀ bs : Bytes, (readPerfAll true bs).2 ≠ .oob ∧ (readPerfAll true bs).2 ≠ .badSize) :=
  ⟨fun rs hwf k => by rw [c12_perf_cut_equals_whole_prefix rs hwf k],
   fun bs => readPerfAllF_fixed_safe _ bs⟩

/-- non-vacuity: a file with a sched-out, an unknown record and a task-exit; cut 1 byte before
    its end the task-exit is not delivered -/
def perfW : List PRec :=
  [⟨14, 0x2000, leBytes 4 101 ++ leBytes 4 101 ++ leBytes 8 2120⟩,
   ⟨9, 0, zeros 8⟩,
   ⟨4, 0, leBytes 4 101 ++ leBytes 4 1 ++ leBytes 4 101 ++ leBytes 4 101 ++ leBytes 8 2950 ++
      leBytes 4 101 ++ leBytes 4 101 ++ leBytes 8 2950⟩]

set_option maxRecDepth 8000 in
example : (∀ r ∈ perfW, PWF r) ∧ (pEncodeAll perfW).length = 88 ∧
    (readPerfAll false (pEncodeAll perfW)).1.map (·.time) = [2120, 2950] ∧
    (readPerfAll false ((pEncodeAll perfW).take 87)).1.map (·.time) = [2120] ∧
    pWholeBefore perfW 87 = 2 := by
  refine ⟨?_, by decide, by decide, by decide, by decide⟩
  intro r hr
  simp only [perfW, List.mem_cons, List.not_mem_nil, or_false] at hr
  rcases hr with rfl | rfl | rfl <;> simp [PWF, zeros]

set_option maxRecDepth 8000 in
/-- the reader as coded takes the length of the body read from the file: a context-switch record whose
    size field says 56 with 48 bytes behind the header stores 48 bytes in the 40-byte union -/
theorem c12_prefix_perf_len_witness :
    (readPerfAll false (leBytes 4 14 ++ leBytes 2 0 ++ leBytes 2 56 ++ zeros 48)).2 = .oob ∧
    (readPerfAll true (leBytes 4 14 ++ leBytes 2 0 ++ leBytes 2 56 ++ zeros 48)).2 = .eof ∧
    (readPerfAll false (zeros 8)).2 = .badSize := by decide

/-! ### non-vacuity and the findings as theorems about the code as found -/

/-- `foo(int, char *)` returning int, `bar(char *)` returning a string -/
def ctxW : Ctx where
  specs := fun a =>
    if a = 0x401100 then some [⟨1, .other, 4⟩, ⟨2, .str, 8⟩, ⟨0, .other, 4⟩]
    else if a = 0x401200 then some [⟨1, .str, 8⟩, ⟨0, .str, 8⟩]
    else none

def strArg (s : List UInt8) : Bytes :=
  let p := leBytes 2 s.length ++ s
  p ++ zeros ((4 - p.length % 4) % 4)

/-- main() { foo(7, "hello") { statm event; bar("wonderful") = "ok"; } = -3 } -/
def recsW : List Rec :=
  [ { time := 2000, typ := 0, more := false, depth := 0, addr := 0x401000, payload := [] },
    { time := 2100, typ := 0, more := true, depth := 1, addr := 0x401100,
      payload := leBytes 4 7 ++ strArg [104, 101, 108, 108, 111] },
    { time := 2150, typ := 3, more := true, depth := 2, addr := 100001,
      payload := leBytes 8 10 ++ leBytes 8 20 ++ leBytes 8 30 },
    { time := 2200, typ := 0, more := true, depth := 2, addr := 0x401200,
      payload := strArg [119, 111, 110, 100, 101, 114, 102, 117, 108] },
    { time := 2300, typ := 1, more := true, depth := 2, addr := 0x401200,
      payload := strArg [111, 107] },
    { time := 2400, typ := 1, more := true, depth := 1, addr := 0x401100,
      payload := leBytes 4 (2 ^ 32 - 3) },
    { time := 2500, typ := 1, more := false, depth := 0, addr := 0x401000, payload := [] } ]

theorem recsW_wf : ∀ r ∈ recsW, WF ctxW r := by
  intro r hr
  simp only [recsW, List.mem_cons, List.not_mem_nil, or_false] at hr
  rcases hr with rfl | rfl | rfl | rfl | rfl | rfl | rfl
  · exact ⟨by decide, by decide, by decide, by decide, rfl, by decide, by decide⟩
  · refine ⟨by decide, by decide, by decide, by decide, rfl, by decide, fun _ => .inl ⟨by decide, _, rfl, by decide, by decide⟩⟩
  · exact ⟨by decide, by decide, by decide, by decide, rfl, by decide, fun _ => .inr ⟨rfl, by decide, .inl (by decide)⟩⟩
  · refine ⟨by decide, by decide, by decide, by decide, rfl, by decide, fun _ => .inl ⟨by decide, _, rfl, by decide, by decide⟩⟩
  · refine ⟨by decide, by decide, by decide, by decide, rfl, by decide, fun _ => .inl ⟨by decide, _, rfl, by decide, by decide⟩⟩
  · refine ⟨by decide, by decide, by decide, by decide, rfl, by decide, fun _ => .inl ⟨by decide, _, rfl, by decide, by decide⟩⟩
  · exact ⟨by decide, by decide, by decide, by decide, rfl, by decide, by decide⟩

/-- the hypotheses of the theorems above are satisfiable, with payload-carrying records -/
example : (∀ r ∈ recsW, WF ctxW r) ∧ (encodeAll recsW).length = 192 ∧
    wholeRecordsBefore recsW 43 = 1 ∧ wholeRecordsBefore recsW 44 = 2 ∧
    wholeRecordsBefore recsW 192 = 7 :=
  ⟨recsW_wf, by decide +kernel, by decide +kernel, by decide +kernel, by decide +kernel⟩

example : SpecsOK ctxW := by
  intro a l h sp hsp
  simp only [ctxW] at h
  split at h
  · simp only [Option.some.injEq] at h; subst h
    simp only [List.mem_cons, List.not_mem_nil, or_false] at hsp
    rcases hsp with rfl | rfl | rfl <;> simp [SpecOK]
  · split at h
    · simp only [Option.some.injEq] at h; subst h
      simp only [List.mem_cons, List.not_mem_nil, or_false] at hsp
      rcases hsp with rfl | rfl <;> simp [SpecOK]
    · simp at h

/-- F7 witness: the reader as found, on the file cut inside the string argument of `foo`
    (byte 40 of 192), still delivers `foo`'s record — with 6 of its 12 payload bytes — and the
    consumer's walk over that payload leaves the buffer (the heap-buffer-overflow ASan reports in
    `get_argspec_string`).  The repaired reader delivers only `main`. -/
theorem c12_prefix_partial_payload_witness :
    let cut := (encodeAll recsW).take 40
    (readAll false ctxW cut).1.length = 2 ∧
    (readAll false ctxW cut).1.any (fun r => r.partl && !consumeOk false false ctxW r) = true ∧
    (readAll true ctxW cut).1 = recsW.take 1 := by
  decide +kernel


/-!
Part 2: the text files (`info`, `task.txt`, `sid-*.map`, `*.sym`), models Uft/Model/InfoFile.lean
and Uft/Model/TaskTxt.lean.  `fixed = true`: with proposed_fixes/C12-F8, -S2, -F8t, -F8s, -F13,
-F12, -S3, -F16, -F17 applied (memory safety).  `nl = true`: with proposed_fixes/C12-F18i (info),
-F18t (task.txt), -F18m (map), -F18s (.sym) applied: a last line without its newline is an incomplete
record and ends the file (Part 3 below).  The in-bounds theorems hold for both values of `nl`.
-/
open Uft.TextScan (b PR)
open Uft.InfoFile (parseInfo)
open Uft.TaskTxt (parseTaskTxt parseMap parseSym chromeHeader replayNamesOk isKernel Maps)

/-- Every text parser of a data directory, with the proposed fixes, is total and in bounds on
    EVERY byte string (so in particular on every cut of every file): it returns a value or an
    error enum, never `oob`.  The last conjunct is the `dump --chrome` header walk over the tids
    of `info` against whatever task list was parsed. -/
theorem c12_parsers_total_in_bounds (nl : Bool) (bs modname : List UInt8) :
    (parseInfo true nl bs).isOob = false ∧ (parseTaskTxt true nl bs).isOob = false ∧
    (parseMap true nl bs).isOob = false ∧ (parseSym true nl modname bs).isOob = false ∧
    (∀ items tids, (chromeHeader true items tids).isOob = false) ∧
    (∀ ls, replayNamesOk true ls = true) :=
  ⟨InfoFile.parseInfo_safe nl bs, TaskTxt.parseTaskTxt_safe nl bs, TaskTxt.parseMap_safe nl bs,
   TaskTxt.parseSym_safe nl modname bs, TaskTxt.chromeHeader_safe, fun _ => rfl⟩

/-- With C12-F12.diff a map file never makes a user-space address a kernel address: the kernel
    base is either the writer's "none" value or one of `guess_kernel_base`'s, all ≥ 1 GiB —
    whatever bytes the map file holds (cut before the `[stack]` line or anywhere else). -/
theorem c12_map_kernel_base_sane (nl : Bool) (bs : List UInt8) (m : Maps) (h : parseMap true nl bs = .ok m) :
    0x40000000 ≤ m.kernelBase ∧ ∀ a, a < 0x40000000 → isKernel m a = false := by
  have hk := TaskTxt.mapLines_kb _ h (by decide)
  refine ⟨hk, fun a ha => ?_⟩
  simp only [isKernel, decide_eq_false_iff_not, Nat.not_le]
  omega

/-- non-vacuity: the repaired reader on a map file without `[stack]` line succeeds, with the
    writer's "no kernel" base -/
example : (match parseMap true false (b "400000-402000 r-xp 00000000 00:00 0     /p\n") with
    | .ok m => m.kernelBase == 2 ^ 64 - 1 && m.maps.length == 1
    | _ => false) = true := by decide +kernel

/-! ### the findings as theorems about the parsers as found -/

def hdr40 (mask : Nat) : List UInt8 :=
  InfoFile.magic ++ [4, 0, 0, 0, 40, 0, 1, 2] ++ Uft.Trunc.leBytes 8 0x1263 ++ Uft.Trunc.leBytes 8 mask ++
    [0, 4, 0, 0, 0, 0, 0, 0]

/-- F8 witness: `info` cut right after `exename:` — `copy_info_str` reads `dst[-1]`;
    the repaired reader reports the failing section instead. -/
theorem c12_prefix_info_key_cut_witness :
    (parseInfo false false (hdr40 1 ++ b "exename:")).isOob = true ∧
    (∀ nl, (parseInfo true nl (hdr40 1 ++ b "exename:")).isOob = false) ∧
    (parseInfo false false (hdr40 1 ++ b "exename:/p\n")).isOob = false := by
  decide +kernel

/-- S2 witness: the `tids=` fill writes `tids[nr_tid]`: a zero-task `info` cut right after
    `taskinfo:tids=`, and an `info` listing more tids than `nr_tid`. -/
theorem c12_prefix_tids_overflow_witness :
    (parseInfo false false (hdr40 128 ++ b "taskinfo:lines=2\ntaskinfo:nr_tid=0\ntaskinfo:tids=")).isOob = true ∧
    (parseInfo false false (hdr40 128 ++ b "taskinfo:lines=2\ntaskinfo:nr_tid=1\ntaskinfo:tids=5,6\n")).isOob = true ∧
    (parseInfo false false (hdr40 128 ++ b "taskinfo:lines=2\ntaskinfo:nr_tid=2\ntaskinfo:tids=5,6\n")).isOob = false := by
  decide +kernel

/-- F8t witness: task.txt cut right after `exename=`, or after a bare tag. -/
theorem c12_prefix_tasktxt_cut_witness :
    (parseTaskTxt false false (b "SESS timestamp=1.2 pid=1 sid=abc exename=")).isOob = true ∧
    (parseTaskTxt false false (b "TASK timestamp=1.2 tid=5 pid=5\nTASK")).isOob = true ∧
    (parseTaskTxt false false (b "SESS timestamp=1.2 pid=1 sid=abc exename=\"")).isOob = false := by
  decide +kernel

/-- S3 witness: `sid=%s` without a width leaves the message struct for a long token. -/
theorem c12_prefix_scanf_width_witness :
    (parseTaskTxt false false (b "SESS timestamp=1.2 pid=1 sid=0123456789012345678901234 exename=\"x\"")).isOob = true ∧
    (parseMap false false (b "400000-402000 r-xpp 00000000 00:00 0 /p\n")).isOob = true := by
  decide +kernel

/-- F8s / F13 witnesses: a `.sym` file cut right after `# path name: `, and a symbol line cut
    right before the type. -/
theorem c12_prefix_symfile_cut_witness :
    (parseSym false false (b "/p") (b "# path name: ")).isOob = true ∧
    (parseSym false false (b "/p") (b "# path name: /p\n0000000000001000 00000100 ")).isOob = true ∧
    (parseSym false false (b "/p") (b "# path name: /p\n0000000000001000 00000100")).isOob = false := by
  decide +kernel

/-- F12 witness: the reader as found, on a map file without `[stack]` line, makes the user
    address 0x401000 a kernel address. -/
theorem c12_prefix_map_kernel_witness :
    (match parseMap false false (b "400000-402000 r-xp 00000000 00:00 0     /p\n") with
     | .ok m => isKernel m 0x401000
     | _ => false) = true ∧
    (match parseMap true false (b "400000-402000 r-xp 00000000 00:00 0     /p\n") with
     | .ok m => isKernel m 0x401000
     | _ => true) = false := by
  decide +kernel

/-- F16 / F17 witnesses: a tid of `info` without TASK/FORK line, an empty symbol name. -/
theorem c12_prefix_null_task_witness :
    (chromeHeader false [.sess 1 101 [] [], .task 2 101 101] [101, 103]).isOob = true ∧
    replayNamesOk false [⟨0x1000, 0x40, 84, []⟩] = false := by
  decide +kernel

/-- F7 (header part) witness: a cut inside the NEXT record's header changes `task->ustack`
    in the code as found (report/graph close open calls at that time); not in the repaired one. -/
theorem c12_prefix_header_leak_witness :
    (readAll false ctxW ((encodeAll recsW).take 153)).1 = (readAll true ctxW ((encodeAll recsW).take 153)).1 ∧
    (readAll false ctxW ((encodeAll recsW).take 153)).2.2 ≠ lastHdr (recsW.take 5) ∧
    (readAll true ctxW ((encodeAll recsW).take 153)).2.2 = lastHdr (recsW.take 5) := by
  decide +kernel

/-- F14 witness: the raw `dump` consumer on the complete 2-character string "ok". -/
theorem c12_prefix_raw_short_string_witness :
    (recsW.map (consumeOk false true ctxW)) = [true, true, true, true, false, true, true] ∧
    (recsW.map (consumeOk true true ctxW)) = [true, true, true, true, true, true, true] := by
  decide +kernel

/-- S4 witness: a watch event whose length field is 4 (< 8): `len -= 8` wraps in uint16_t. -/
theorem c12_prefix_watch_len_witness :
    let bs := encHdr { time := 1, typ := 3, more := true, depth := 0, addr := watchVarId, payload := [] } ++
      leBytes 2 4 ++ zeros 16
    (readAll false ctxW bs).2.1 = .oob ∧ (readAll true ctxW bs).2.1 = .badEvent := by
  decide +kernel

/-!
Part 3: the text files, "exactly as for a copy cut at the last whole record".  A record of a text file
is a line with its newline.  `TextScan.wholeLines s` is `s` cut at its last newline,
`InfoFile.infoWhole s` the same behind the 40-byte binary header of `info`.  The readers with
proposed_fixes/C12-F18i, -F18t, -F18m, -F18s (`nl = true`) read a cut file exactly as they read that
copy, for EVERY byte content and every cut position; the readers as found (`nl = false`) do not
(witnesses below).
-/
open Uft.TextScan (wholeLines joinLines wholeLinesBefore NL)
open Uft.InfoFile (infoWhole)
open Uft.TaskTxt (taskFields hasTask)

/-- `wholeLines s` is `s` cut at its last newline: it is a prefix of `s`, what is behind it holds no
    newline, and it is empty or ends with a newline (so it is the longest such prefix). -/
theorem c12_whole_lines_is_last_newline_cut (s : List UInt8) :
    (∃ t, s = wholeLines s ++ t ∧ t.contains NL = false) ∧
    (wholeLines s = [] ∨ (wholeLines s).getLast? = some NL) ∧
    wholeLines (wholeLines s) = wholeLines s :=
  ⟨TextScan.wholeLines_prefix s, TextScan.wholeLines_last s, TextScan.wholeLines_idem s⟩

/-- C12 last clause for task.txt, the map file and the symbol file: for every byte content `file`,
    every cut position `k` (and with or without the memory-safety fixes), the repaired reader's
    result on the cut file IS its result on the copy cut at the last newline at or before `k`:
    nothing of an incomplete last line is delivered, and it changes nothing. -/
theorem c12_text_cut_equals_last_whole_line (fixed : Bool) (file modname : List UInt8) (k : Nat) :
    parseTaskTxt fixed true (file.take k) = parseTaskTxt fixed true (wholeLines (file.take k)) ∧
    parseMap fixed true (file.take k) = parseMap fixed true (wholeLines (file.take k)) ∧
    parseSym fixed true modname (file.take k) = parseSym fixed true modname (wholeLines (file.take k)) :=
  ⟨(TaskTxt.parseTaskTxt_whole fixed _).symm, (TaskTxt.parseMap_whole fixed _).symm,
   (TaskTxt.parseSym_whole fixed modname _).symm⟩

/-- The same for `info` (40-byte binary header, then lines): every handler of `read_uftrace_info`
    reads the cut file as it reads the copy cut at the last whole line. -/
theorem c12_info_cut_equals_last_whole_line (fixed : Bool) (file : List UInt8) (k : Nat) :
    parseInfo fixed true (file.take k) = parseInfo fixed true (infoWhole (file.take k)) :=
  (InfoFile.parseInfo_whole fixed _).symm

/-- Records view (the analogue of `c12_cut_equals_whole_prefix`): a file written as the lines `ls`
    (each followed by a newline), cut at ANY byte `k`, is read as the file made of the
    `wholeLinesBefore ls k` lines that are completely inside the first `k` bytes. -/
theorem c12_text_cut_equals_whole_records (fixed : Bool) (ls : List (List UInt8)) (modname : List UInt8)
    (hl : ∀ l ∈ ls, l.contains NL = false) (k : Nat) :
    let whole := joinLines (ls.take (wholeLinesBefore ls k))
    parseTaskTxt fixed true ((joinLines ls).take k) = parseTaskTxt fixed true whole ∧
    parseMap fixed true ((joinLines ls).take k) = parseMap fixed true whole ∧
    parseSym fixed true modname ((joinLines ls).take k) = parseSym fixed true modname whole := by
  intro whole
  have h := TextScan.wholeLines_take_joinLines ls hl k
  refine ⟨?_, ?_, ?_⟩
  · rw [← TaskTxt.parseTaskTxt_whole, h]
  · rw [← TaskTxt.parseMap_whole, h]
  · rw [← TaskTxt.parseSym_whole, h]

/-- … and for `info`: header `hdr` (40 bytes) followed by the lines `ls`, cut anywhere behind the
    header. -/
theorem c12_info_cut_equals_whole_records (fixed : Bool) (hdr : List UInt8) (ls : List (List UInt8))
    (hh : hdr.length = 40) (hl : ∀ l ∈ ls, l.contains NL = false) (k : Nat) :
    parseInfo fixed true ((hdr ++ joinLines ls).take (40 + k)) =
      parseInfo fixed true (hdr ++ joinLines (ls.take (wholeLinesBefore ls k))) := by
  rw [← InfoFile.parseInfo_whole]
  have e : (hdr ++ joinLines ls).take (40 + k) = hdr ++ (joinLines ls).take k := by
    rw [List.take_append, List.take_of_length_le (by omega)]
    congr 2
    omega
  have hlen : ¬ (hdr ++ (joinLines ls).take k).length < 40 := by
    simp only [List.length_append]; omega
  have e1 : (hdr ++ (joinLines ls).take k).take 40 = hdr := by
    rw [List.take_append_of_le_length (by omega), List.take_of_length_le (by omega)]
  have e2 : (hdr ++ (joinLines ls).take k).drop 40 = (joinLines ls).take k := by
    rw [List.drop_append_of_le_length (by omega), List.drop_eq_nil_of_le (by omega)]; rfl
  rw [e]
  unfold infoWhole
  rw [if_neg hlen, e1, e2, TextScan.wholeLines_take_joinLines ls hl k]

/-- Composition: whatever a command computes from the four parses (the header and system
    information, the task and session list, the maps, the symbols), on a directory whose text files
    are cut at arbitrary bytes it computes exactly what it computes on the copies cut at the last
    whole record.  Together with `c12_commands_prefix` (trace data) this is the last sentence of C12
    for the readers; what the commands do with the results is C06/C08/C15. -/
theorem c12_commands_prefix_text {α : Type} (fixed : Bool)
    (cmd : PR (InfoFile.Hdr × InfoFile.Info) → PR (List TaskTxt.Item) → PR Maps → PR TaskTxt.SymFile → α)
    (info task map sym modname : List UInt8) (ki kt km ks : Nat) :
    cmd (parseInfo fixed true (info.take ki)) (parseTaskTxt fixed true (task.take kt))
        (parseMap fixed true (map.take km)) (parseSym fixed true modname (sym.take ks)) =
    cmd (parseInfo fixed true (infoWhole (info.take ki))) (parseTaskTxt fixed true (wholeLines (task.take kt)))
        (parseMap fixed true (wholeLines (map.take km))) (parseSym fixed true modname (wholeLines (sym.take ks))) := by
  rw [InfoFile.parseInfo_whole, TaskTxt.parseTaskTxt_whole, TaskTxt.parseMap_whole, TaskTxt.parseSym_whole]

/-- With C12-F19.diff the commands that use `task->t` of every task listed in `info`
    (`replay -f task`, `report --task`, `graph --task`) never meet a NULL task, whatever task.txt
    held: every tid is shown, the ones without a TASK/FORK line as nameless tasks. -/
theorem c12_task_fields_total (items : List TaskTxt.Item) (tids : List Int) :
    taskFields true items tids = .ok (tids.map fun t => (t, hasTask items t)) := by
  induction tids with
  | nil => rfl
  | cons t r ih => simp [taskFields, ih]

/-! ### non-vacuity and the F18 / F19 findings as theorems about the readers as found -/

def taskLinesW : List (List UInt8) :=
  [b "SESS timestamp=0.000001000 pid=101 sid=a1b2c3d4e5f60718 exename=\"/synth/prog\"",
   b "TASK timestamp=0.000001001 tid=101 pid=101",
   b "FORK timestamp=0.000002450 pid=103 ppid=101"]

/-- the hypotheses of the records-view theorems are satisfiable, and the counting is the expected
    one: task.txt of the two-task directory of the check, 165 bytes; a cut at byte 160 (inside the
    FORK line) leaves two whole records, a cut at 121 (right behind the TASK line) too -/
example : (∀ l ∈ taskLinesW, l.contains NL = false) ∧ (joinLines taskLinesW).length = 165 ∧
    wholeLinesBefore taskLinesW 160 = 2 ∧ wholeLinesBefore taskLinesW 121 = 2 ∧
    wholeLinesBefore taskLinesW 120 = 1 ∧ wholeLinesBefore taskLinesW 165 = 3 := by
  decide +kernel

/-- … and for `info`: a 40-byte header and the version section; 20 bytes of text hold no whole line,
    22 bytes hold the one line -/
example : (hdr40 8192).length = 40 ∧ (∀ l ∈ [b "uftrace_version:v0.17"], l.contains NL = false) ∧
    wholeLinesBefore [b "uftrace_version:v0.17"] 20 = 0 ∧ wholeLinesBefore [b "uftrace_version:v0.17"] 22 = 1 ∧
    (hdr40 8192 ++ joinLines [b "uftrace_version:v0.17"]).take (40 + 20) = hdr40 8192 ++ b "uftrace_version:v0.1" := by
  decide +kernel

/-- F18t witness: task.txt cut inside the last line.  The reader as found delivers a FORK record
    with parent 10 (the file says `ppid=101`) — a record that is not completely present; the repaired
    reader delivers the two whole records, as for the copy cut behind the TASK line. -/
theorem c12_prefix_tasktxt_line_cut_witness :
    let cut := (joinLines taskLinesW).take 163
    parseTaskTxt true false cut =
      .ok [.sess 1000 101 (b "a1b2c3d4e5f60718") (b "/synth/prog"), .task 1001 101 101, .fork 2450 103 10] ∧
    parseTaskTxt true true cut =
      .ok [.sess 1000 101 (b "a1b2c3d4e5f60718") (b "/synth/prog"), .task 1001 101 101] ∧
    parseTaskTxt true false cut ≠ parseTaskTxt true false (wholeLines cut) := by
  decide +kernel

/-- F18i witness: `info` (here: only the version section) cut inside its last line: the reader as
    found stores the version "v0.1" of a file that says "v0.17"; the repaired reader reports the
    section as unreadable, as for the copy cut at the last whole line. -/
theorem c12_prefix_info_line_cut_witness :
    let cut := hdr40 8192 ++ b "uftrace_version:v0.1"
    ((match parseInfo true false cut with
      | .ok (_, i) => i.get "uftrace_version:" == some (b "v0.1")
      | _ => false) = true) ∧
    ((match parseInfo true false (hdr40 8192 ++ b "uftrace_version:v0.17\n") with
      | .ok (_, i) => i.get "uftrace_version:" == some (b "v0.17")
      | _ => false) = true) ∧
    infoWhole cut = hdr40 8192 ∧
    ((match parseInfo true true cut, parseInfo true false (infoWhole cut) with
      | .err e1, .err e2 => e1 == "info bit 13" && e2 == "info bit 13"
      | _, _ => false) = true) := by
  decide +kernel

/-- F18m witness: the map file cut inside the path of its last line: the reader as found creates a
    mapping for "/synth/pro" (the file says "/synth/prog"); the repaired reader creates none. -/
theorem c12_prefix_map_line_cut_witness :
    let cut := b "400000-402000 r-xp 00000000 00:00 0                          /synth/pro"
    ((match parseMap true false cut with
      | .ok m => m.maps.map (·.path) == [b "/synth/pro"]
      | _ => false) = true) ∧
    ((match parseMap true true cut with
      | .ok m => m.maps.isEmpty
      | _ => false) = true) ∧ wholeLines cut = [] := by
  decide +kernel

/-- F18s witness: the symbol file cut inside the name of its last symbol: the loader as found creates
    the symbol "le" (the file says "leaf"); the repaired loader stops at the last whole line. -/
theorem c12_prefix_symfile_line_cut_witness :
    let cut := b "# path name: /p\n0000000000001000 00000100 T main\n0000000000001200 00000040 T le"
    ((match parseSym true false (b "/p") cut with
      | .ok f => f.lines.map (·.name) == [b "main", b "le"]
      | _ => false) = true) ∧
    ((match parseSym true true (b "/p") cut with
      | .ok f => f.lines.map (·.name) == [b "main"]
      | _ => false) = true) ∧
    parseSym true true (b "/p") cut = parseSym true false (b "/p") (wholeLines cut) := by
  decide +kernel

/-- F19 witness: task.txt cut right behind the TASK line (a whole-record cut), `info` lists the tids
    101 and 103: the commands that use `task->t` (`report --task`, `graph --task`, `replay -f task`)
    dereference the NULL task of 103; with C12-F19.diff 103 is a nameless task. -/
theorem c12_prefix_task_missing_witness :
    (match parseTaskTxt true true ((joinLines taskLinesW).take 121) with
     | .ok items => (taskFields false items [101, 103]).isOob &&
                    (taskFields true items [101, 103] matches .ok [(101, true), (103, false)])
     | _ => false) = true := by
  decide +kernel

end Uft.C12
