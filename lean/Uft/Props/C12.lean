import Uft.Lemmas.Trunc
/-
C12 — Analysis commands survive truncated or partially written data.
Property theorems only (helpers: Lemmas/Trunc.lean, Lemmas/TextFiles.lean).

Part 1: the per-task trace data (`<tid>.dat`), model Uft/Model/Trunc.lean.
`readAll true` is the reader with proposed_fixes/C12-F7.diff, C12-S4.diff, C12-F14.diff applied,
`readAll false` the reader as found.
-/
namespace Uft.Trunc

/-- C12 main statement for trace data: for every list of well-formed records (payloads of any
    size: string arguments, fixed-size arguments, events) and EVERY cut position `k`, the
    repaired reader delivers exactly the records that are completely present in the first `k`
    bytes, stops with a clean end-of-data, and leaves `task->ustack` (from which report/graph
    take the closing time of unfinished calls) at the last whole record: nothing of a partial
    record is delivered or leaks. -/
theorem c12_cut_equals_whole_prefix (ctx : Ctx) (rs : List Rec) (hwf : ∀ r ∈ rs, WF ctx r)
    (k : Nat) :
    readAll true ctx ((encodeAll rs).take k) =
      (rs.take (wholeRecordsBefore rs k), .eof, lastHdr (rs.take (wholeRecordsBefore rs k))) := by
  unfold readAll lastHdr
  apply readAllF_cut ctx rs hwf
  have h := whole_le rs k
  have hl : ((encodeAll rs).take k).length = min k (encodeAll rs).length := by simp
  rw [hl]
  have : 16 * wholeRecordsBefore rs k ≤ min k (encodeAll rs).length := by
    rw [Nat.le_min]; exact h
  omega

/-- Composition: whatever a command computes from the reader's result (records, stop reason,
    final `ustack`), on a cut file it computes exactly what it computes on the copy that ends at
    the last whole record. -/
theorem c12_commands_prefix {α : Type} (cmd : List Rec × Status × Bytes → α) (ctx : Ctx)
    (rs : List Rec) (hwf : ∀ r ∈ rs, WF ctx r) (k : Nat) :
    cmd (readAll true ctx ((encodeAll rs).take k)) =
      cmd (readAll true ctx (encodeAll (rs.take (wholeRecordsBefore rs k)))) := by
  have hwf' : ∀ r ∈ rs.take (wholeRecordsBefore rs k), WF ctx r :=
    fun r hr => hwf r (List.mem_of_mem_take hr)
  have h1 := c12_cut_equals_whole_prefix ctx rs hwf k
  have h2 := c12_cut_equals_whole_prefix ctx _ hwf'
    (encodeAll (rs.take (wholeRecordsBefore rs k))).length
  rw [List.take_length, whole_full, List.take_length] at h2
  rw [h1, h2]

/-- Memory safety of the repaired reader on EVERY byte string (not only cuts of valid files):
    it never stops in the out-of-bounds state, never delivers a record whose payload read was
    incomplete, and for every delivered record the consumers' walk (replay/`dump --chrome` with
    `raw = false`, raw `dump` with `raw = true`) stays inside the delivered payload. -/
theorem c12_read_in_bounds (ctx : Ctx) (hok : SpecsOK ctx) (raw : Bool) (bs : Bytes) :
    (readAll true ctx bs).2.1 ≠ .oob ∧
    ∀ r ∈ (readAll true ctx bs).1, r.partl = false ∧ consumeOk true raw ctx r = true :=
  readAllF_safe hok raw _ _ _

/-- The reader terminates on every byte string (repaired or not): the fuel `len/16 + 1`
    is never exhausted, because every delivered record consumed its 16 header bytes. -/
theorem c12_read_terminates (fixed : Bool) (ctx : Ctx) (bs : Bytes) :
    (readAll fixed ctx bs).2.1 ≠ .fuel :=
  readAllF_fuel fixed ctx _ _ _ (by omega)

/-! ### non-vacuity and the findings as theorems about the code as found -/

/-- `foo(int, char *)` returning int, `bar(char *)` returning a string -/
def ctxW : Ctx where
  specs := fun a =>
    if a = 0x401100 then some [⟨1, .other, 4⟩, ⟨2, .str, 8⟩, ⟨0, .other, 4⟩]
    else if a = 0x401200 then some [⟨1, .str, 8⟩, ⟨0, .str, 8⟩]
    else none

def strArg (s : List UInt8) : Bytes :=
  let p := leBytes 2 s.length ++ s
  p ++ zeros ((4 - p.length % 4) % 4)

/-- main() { foo(7, "hello") { statm event; bar("wonderful") = "ok"; } = -3 } -/
def recsW : List Rec :=
  [ { time := 2000, typ := 0, more := false, depth := 0, addr := 0x401000, payload := [] },
    { time := 2100, typ := 0, more := true, depth := 1, addr := 0x401100,
      payload := leBytes 4 7 ++ strArg [104, 101, 108, 108, 111] },
    { time := 2150, typ := 3, more := true, depth := 2, addr := 100001,
      payload := leBytes 8 10 ++ leBytes 8 20 ++ leBytes 8 30 },
    { time := 2200, typ := 0, more := true, depth := 2, addr := 0x401200,
      payload := strArg [119, 111, 110, 100, 101, 114, 102, 117, 108] },
    { time := 2300, typ := 1, more := true, depth := 2, addr := 0x401200,
      payload := strArg [111, 107] },
    { time := 2400, typ := 1, more := true, depth := 1, addr := 0x401100,
      payload := leBytes 4 (2 ^ 32 - 3) },
    { time := 2500, typ := 1, more := false, depth := 0, addr := 0x401000, payload := [] } ]

theorem recsW_wf : ∀ r ∈ recsW, WF ctxW r := by
  intro r hr
  simp only [recsW, List.mem_cons, List.not_mem_nil, or_false] at hr
  rcases hr with rfl | rfl | rfl | rfl | rfl | rfl | rfl
  · exact ⟨by decide, by decide, by decide, by decide, rfl, by decide, by decide⟩
  · refine ⟨by decide, by decide, by decide, by decide, rfl, by decide, fun _ => .inl ⟨by decide, _, rfl, by decide, by decide⟩⟩
  · exact ⟨by decide, by decide, by decide, by decide, rfl, by decide, fun _ => .inr ⟨rfl, by decide, .inl (by decide)⟩⟩
  · refine ⟨by decide, by decide, by decide, by decide, rfl, by decide, fun _ => .inl ⟨by decide, _, rfl, by decide, by decide⟩⟩
  · refine ⟨by decide, by decide, by decide, by decide, rfl, by decide, fun _ => .inl ⟨by decide, _, rfl, by decide, by decide⟩⟩
  · refine ⟨by decide, by decide, by decide, by decide, rfl, by decide, fun _ => .inl ⟨by decide, _, rfl, by decide, by decide⟩⟩
  · exact ⟨by decide, by decide, by decide, by decide, rfl, by decide, by decide⟩

/-- the hypotheses of the theorems above are satisfiable, with payload-carrying records -/
example : (∀ r ∈ recsW, WF ctxW r) ∧ (encodeAll recsW).length = 192 ∧
    wholeRecordsBefore recsW 43 = 1 ∧ wholeRecordsBefore recsW 44 = 2 ∧
    wholeRecordsBefore recsW 192 = 7 :=
  ⟨recsW_wf, by decide +kernel, by decide +kernel, by decide +kernel, by decide +kernel⟩

example : SpecsOK ctxW := by
  intro a l h sp hsp
  simp only [ctxW] at h
  split at h
  · simp only [Option.some.injEq] at h; subst h
    simp only [List.mem_cons, List.not_mem_nil, or_false] at hsp
    rcases hsp with rfl | rfl | rfl <;> simp [SpecOK]
  · split at h
    · simp only [Option.some.injEq] at h; subst h
      simp only [List.mem_cons, List.not_mem_nil, or_false] at hsp
      rcases hsp with rfl | rfl <;> simp [SpecOK]
    · simp at h

/-- F7 witness: the reader as found, on the file cut inside the string argument of `foo`
    (byte 40 of 192), still delivers `foo`'s record — with 6 of its 12 payload bytes — and the
    consumer's walk over that payload leaves the buffer (the heap-buffer-overflow ASan reports in
    `get_argspec_string`).  The repaired reader delivers only `main`. -/
theorem c12_prefix_partial_payload_witness :
    let cut := (encodeAll recsW).take 40
    (readAll false ctxW cut).1.length = 2 ∧
    (readAll false ctxW cut).1.any (fun r => r.partl && !consumeOk false false ctxW r) = true ∧
    (readAll true ctxW cut).1 = recsW.take 1 := by
  decide +kernel

end Uft.Trunc
