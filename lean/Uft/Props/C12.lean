import Uft.Lemmas.Trunc
import Uft.Lemmas.TextFiles
/-
C12 — Analysis commands survive truncated or partially written data.
Property theorems only (helpers: Lemmas/Trunc.lean, Lemmas/TextFiles.lean).

Part 1: the per-task trace data (`<tid>.dat`), model Uft/Model/Trunc.lean.
`readAll true` is the reader with proposed_fixes/C12-F7.diff, C12-S4.diff, C12-F14.diff applied,
`readAll false` the reader as found.
-/
namespace Uft.C12
open Uft.Trunc

/-- C12 main statement for trace data: for every list of well-formed records (payloads of any
    size: string arguments, fixed-size arguments, events) and EVERY cut position `k`, the
    repaired reader delivers exactly the records that are completely present in the first `k`
    bytes, stops with a clean end-of-data, and leaves `task->ustack` (from which report/graph
    take the closing time of unfinished calls) at the last whole record: nothing of a partial
    record is delivered or leaks. -/
theorem c12_cut_equals_whole_prefix (ctx : Ctx) (rs : List Rec) (hwf : ∀ r ∈ rs, WF ctx r)
    (k : Nat) :
    readAll true ctx ((encodeAll rs).take k) =
      (rs.take (wholeRecordsBefore rs k), .eof, lastHdr (rs.take (wholeRecordsBefore rs k))) := by
  unfold readAll lastHdr
  apply readAllF_cut ctx rs hwf
  have h := whole_le rs k
  have hl : ((encodeAll rs).take k).length = min k (encodeAll rs).length := by simp
  rw [hl]
  have : 16 * wholeRecordsBefore rs k ≤ min k (encodeAll rs).length := by
    rw [Nat.le_min]; exact h
  omega

/-- Composition: whatever a command computes from the reader's result (records, stop reason,
    final `ustack`), on a cut file it computes exactly what it computes on the copy that ends at
    the last whole record. -/
theorem c12_commands_prefix {α : Type} (cmd : List Rec × Status × Bytes → α) (ctx : Ctx)
    (rs : List Rec) (hwf : ∀ r ∈ rs, WF ctx r) (k : Nat) :
    cmd (readAll true ctx ((encodeAll rs).take k)) =
      cmd (readAll true ctx (encodeAll (rs.take (wholeRecordsBefore rs k)))) := by
  have hwf' : ∀ r ∈ rs.take (wholeRecordsBefore rs k), WF ctx r :=
    fun r hr => hwf r (List.mem_of_mem_take hr)
  have h1 := c12_cut_equals_whole_prefix ctx rs hwf k
  have h2 := c12_cut_equals_whole_prefix ctx _ hwf'
    (encodeAll (rs.take (wholeRecordsBefore rs k))).length
  rw [List.take_length, whole_full, List.take_length] at h2
  rw [h1, h2]

/-- Memory safety of the repaired reader on EVERY byte string (not only cuts of valid files):
    it never stops in the out-of-bounds state, never delivers a record whose payload read was
    incomplete, and for every delivered record the consumers' walk (replay/`dump --chrome` with
    `raw = false`, raw `dump` with `raw = true`) stays inside the delivered payload. -/
theorem c12_read_in_bounds (ctx : Ctx) (hok : SpecsOK ctx) (raw : Bool) (bs : Bytes) :
    (readAll true ctx bs).2.1 ≠ .oob ∧
    ∀ r ∈ (readAll true ctx bs).1, r.partl = false ∧ consumeOk true raw ctx r = true :=
  readAllF_safe hok raw _ _ _

/-- The reader terminates on every byte string (repaired or not): the fuel `len/16 + 1`
    is never exhausted, because every delivered record consumed its 16 header bytes. -/
theorem c12_read_terminates (fixed : Bool) (ctx : Ctx) (bs : Bytes) :
    (readAll fixed ctx bs).2.1 ≠ .fuel :=
  readAllF_fuel fixed ctx _ _ _ (by omega)

/-! ### non-vacuity and the findings as theorems about the code as found -/

/-- `foo(int, char *)` returning int, `bar(char *)` returning a string -/
def ctxW : Ctx where
  specs := fun a =>
    if a = 0x401100 then some [⟨1, .other, 4⟩, ⟨2, .str, 8⟩, ⟨0, .other, 4⟩]
    else if a = 0x401200 then some [⟨1, .str, 8⟩, ⟨0, .str, 8⟩]
    else none

def strArg (s : List UInt8) : Bytes :=
  let p := leBytes 2 s.length ++ s
  p ++ zeros ((4 - p.length % 4) % 4)

/-- main() { foo(7, "hello") { statm event; bar("wonderful") = "ok"; } = -3 } -/
def recsW : List Rec :=
  [ { time := 2000, typ := 0, more := false, depth := 0, addr := 0x401000, payload := [] },
    { time := 2100, typ := 0, more := true, depth := 1, addr := 0x401100,
      payload := leBytes 4 7 ++ strArg [104, 101, 108, 108, 111] },
    { time := 2150, typ := 3, more := true, depth := 2, addr := 100001,
      payload := leBytes 8 10 ++ leBytes 8 20 ++ leBytes 8 30 },
    { time := 2200, typ := 0, more := true, depth := 2, addr := 0x401200,
      payload := strArg [119, 111, 110, 100, 101, 114, 102, 117, 108] },
    { time := 2300, typ := 1, more := true, depth := 2, addr := 0x401200,
      payload := strArg [111, 107] },
    { time := 2400, typ := 1, more := true, depth := 1, addr := 0x401100,
      payload := leBytes 4 (2 ^ 32 - 3) },
    { time := 2500, typ := 1, more := false, depth := 0, addr := 0x401000, payload := [] } ]

theorem recsW_wf : ∀ r ∈ recsW, WF ctxW r := by
  intro r hr
  simp only [recsW, List.mem_cons, List.not_mem_nil, or_false] at hr
  rcases hr with rfl | rfl | rfl | rfl | rfl | rfl | rfl
  · exact ⟨by decide, by decide, by decide, by decide, rfl, by decide, by decide⟩
  · refine ⟨by decide, by decide, by decide, by decide, rfl, by decide, fun _ => .inl ⟨by decide, _, rfl, by decide, by decide⟩⟩
  · exact ⟨by decide, by decide, by decide, by decide, rfl, by decide, fun _ => .inr ⟨rfl, by decide, .inl (by decide)⟩⟩
  · refine ⟨by decide, by decide, by decide, by decide, rfl, by decide, fun _ => .inl ⟨by decide, _, rfl, by decide, by decide⟩⟩
  · refine ⟨by decide, by decide, by decide, by decide, rfl, by decide, fun _ => .inl ⟨by decide, _, rfl, by decide, by decide⟩⟩
  · refine ⟨by decide, by decide, by decide, by decide, rfl, by decide, fun _ => .inl ⟨by decide, _, rfl, by decide, by decide⟩⟩
  · exact ⟨by decide, by decide, by decide, by decide, rfl, by decide, by decide⟩

/-- the hypotheses of the theorems above are satisfiable, with payload-carrying records -/
example : (∀ r ∈ recsW, WF ctxW r) ∧ (encodeAll recsW).length = 192 ∧
    wholeRecordsBefore recsW 43 = 1 ∧ wholeRecordsBefore recsW 44 = 2 ∧
    wholeRecordsBefore recsW 192 = 7 :=
  ⟨recsW_wf, by decide +kernel, by decide +kernel, by decide +kernel, by decide +kernel⟩

example : SpecsOK ctxW := by
  intro a l h sp hsp
  simp only [ctxW] at h
  split at h
  · simp only [Option.some.injEq] at h; subst h
    simp only [List.mem_cons, List.not_mem_nil, or_false] at hsp
    rcases hsp with rfl | rfl | rfl <;> simp [SpecOK]
  · split at h
    · simp only [Option.some.injEq] at h; subst h
      simp only [List.mem_cons, List.not_mem_nil, or_false] at hsp
      rcases hsp with rfl | rfl <;> simp [SpecOK]
    · simp at h

/-- F7 witness: the reader as found, on the file cut inside the string argument of `foo`
    (byte 40 of 192), still delivers `foo`'s record — with 6 of its 12 payload bytes — and the
    consumer's walk over that payload leaves the buffer (the heap-buffer-overflow ASan reports in
    `get_argspec_string`).  The repaired reader delivers only `main`. -/
theorem c12_prefix_partial_payload_witness :
    let cut := (encodeAll recsW).take 40
    (readAll false ctxW cut).1.length = 2 ∧
    (readAll false ctxW cut).1.any (fun r => r.partl && !consumeOk false false ctxW r) = true ∧
    (readAll true ctxW cut).1 = recsW.take 1 := by
  decide +kernel


/-!
Part 2: the text files (`info`, `task.txt`, `sid-*.map`, `*.sym`), models Uft/Model/InfoFile.lean
and Uft/Model/TaskTxt.lean.  `fixed = true`: with proposed_fixes/C12-F8, -S2, -F8t, -F8s, -F13,
-F12, -S3, -F16, -F17 applied.
-/
open Uft.TextScan (b PR)
open Uft.InfoFile (parseInfo)
open Uft.TaskTxt (parseTaskTxt parseMap parseSym chromeHeader replayNamesOk isKernel Maps)

/-- Every text parser of a data directory, with the proposed fixes, is total and in bounds on
    EVERY byte string (so in particular on every cut of every file): it returns a value or an
    error enum, never `oob`.  The last conjunct is the `dump --chrome` header walk over the tids
    of `info` against whatever task list was parsed. -/
theorem c12_parsers_total_in_bounds (bs modname : List UInt8) :
    (parseInfo true bs).isOob = false ∧ (parseTaskTxt true bs).isOob = false ∧
    (parseMap true bs).isOob = false ∧ (parseSym true modname bs).isOob = false ∧
    (∀ items tids, (chromeHeader true items tids).isOob = false) ∧
    (∀ ls, replayNamesOk true ls = true) :=
  ⟨InfoFile.parseInfo_safe bs, TaskTxt.parseTaskTxt_safe bs, TaskTxt.parseMap_safe bs,
   TaskTxt.parseSym_safe modname bs, TaskTxt.chromeHeader_safe, fun _ => rfl⟩

/-- With C12-F12.diff a map file never makes a user-space address a kernel address: the kernel
    base is either the writer's "none" value or one of `guess_kernel_base`'s, all ≥ 1 GiB —
    whatever bytes the map file holds (cut before the `[stack]` line or anywhere else). -/
theorem c12_map_kernel_base_sane (bs : List UInt8) (m : Maps) (h : parseMap true bs = .ok m) :
    0x40000000 ≤ m.kernelBase ∧ ∀ a, a < 0x40000000 → isKernel m a = false := by
  have hk := TaskTxt.mapLines_kb _ h (by decide)
  refine ⟨hk, fun a ha => ?_⟩
  simp only [isKernel, decide_eq_false_iff_not, Nat.not_le]
  omega

/-- non-vacuity: the repaired reader on a map file without `[stack]` line succeeds, with the
    writer's "no kernel" base -/
example : (match parseMap true (b "400000-402000 r-xp 00000000 00:00 0     /p\n") with
    | .ok m => m.kernelBase == 2 ^ 64 - 1 && m.maps.length == 1
    | _ => false) = true := by decide +kernel

/-! ### the findings as theorems about the parsers as found -/

def hdr40 (mask : Nat) : List UInt8 :=
  InfoFile.magic ++ [4, 0, 0, 0, 40, 0, 1, 2] ++ Uft.Trunc.leBytes 8 0x1263 ++ Uft.Trunc.leBytes 8 mask ++
    [0, 4, 0, 0, 0, 0, 0, 0]

/-- F8 witness: `info` cut right after `exename:` — `copy_info_str` reads `dst[-1]`;
    the repaired reader reports the failing section instead. -/
theorem c12_prefix_info_key_cut_witness :
    (parseInfo false (hdr40 1 ++ b "exename:")).isOob = true ∧
    (parseInfo true (hdr40 1 ++ b "exename:")).isOob = false ∧
    (parseInfo false (hdr40 1 ++ b "exename:/p\n")).isOob = false := by
  decide +kernel

/-- S2 witness: the `tids=` fill writes `tids[nr_tid]`: a zero-task `info` cut right after
    `taskinfo:tids=`, and an `info` listing more tids than `nr_tid`. -/
theorem c12_prefix_tids_overflow_witness :
    (parseInfo false (hdr40 128 ++ b "taskinfo:lines=2\ntaskinfo:nr_tid=0\ntaskinfo:tids=")).isOob = true ∧
    (parseInfo false (hdr40 128 ++ b "taskinfo:lines=2\ntaskinfo:nr_tid=1\ntaskinfo:tids=5,6\n")).isOob = true ∧
    (parseInfo false (hdr40 128 ++ b "taskinfo:lines=2\ntaskinfo:nr_tid=2\ntaskinfo:tids=5,6\n")).isOob = false := by
  decide +kernel

/-- F8t witness: task.txt cut right after `exename=`, or after a bare tag. -/
theorem c12_prefix_tasktxt_cut_witness :
    (parseTaskTxt false (b "SESS timestamp=1.2 pid=1 sid=abc exename=")).isOob = true ∧
    (parseTaskTxt false (b "TASK timestamp=1.2 tid=5 pid=5\nTASK")).isOob = true ∧
    (parseTaskTxt false (b "SESS timestamp=1.2 pid=1 sid=abc exename=\"")).isOob = false := by
  decide +kernel

/-- S3 witness: `sid=%s` without a width leaves the message struct for a long token. -/
theorem c12_prefix_scanf_width_witness :
    (parseTaskTxt false (b "SESS timestamp=1.2 pid=1 sid=0123456789012345678901234 exename=\"x\"")).isOob = true ∧
    (parseMap false (b "400000-402000 r-xpp 00000000 00:00 0 /p\n")).isOob = true := by
  decide +kernel

/-- F8s / F13 witnesses: a `.sym` file cut right after `# path name: `, and a symbol line cut
    right before the type. -/
theorem c12_prefix_symfile_cut_witness :
    (parseSym false (b "/p") (b "# path name: ")).isOob = true ∧
    (parseSym false (b "/p") (b "# path name: /p\n0000000000001000 00000100 ")).isOob = true ∧
    (parseSym false (b "/p") (b "# path name: /p\n0000000000001000 00000100")).isOob = false := by
  decide +kernel

/-- F12 witness: the reader as found, on a map file without `[stack]` line, makes the user
    address 0x401000 a kernel address. -/
theorem c12_prefix_map_kernel_witness :
    (match parseMap false (b "400000-402000 r-xp 00000000 00:00 0     /p\n") with
     | .ok m => isKernel m 0x401000
     | _ => false) = true ∧
    (match parseMap true (b "400000-402000 r-xp 00000000 00:00 0     /p\n") with
     | .ok m => isKernel m 0x401000
     | _ => true) = false := by
  decide +kernel

/-- F16 / F17 witnesses: a tid of `info` without TASK/FORK line, an empty symbol name. -/
theorem c12_prefix_null_task_witness :
    (chromeHeader false [.sess 1 101 [] [], .task 2 101 101] [101, 103]).isOob = true ∧
    replayNamesOk false [⟨0x1000, 0x40, 84, []⟩] = false := by
  decide +kernel

/-- F7 (header part) witness: a cut inside the NEXT record's header changes `task->ustack`
    in the code as found (report/graph close open calls at that time); not in the repaired one. -/
theorem c12_prefix_header_leak_witness :
    (readAll false ctxW ((encodeAll recsW).take 153)).1 = (readAll true ctxW ((encodeAll recsW).take 153)).1 ∧
    (readAll false ctxW ((encodeAll recsW).take 153)).2.2 ≠ lastHdr (recsW.take 5) ∧
    (readAll true ctxW ((encodeAll recsW).take 153)).2.2 = lastHdr (recsW.take 5) := by
  decide +kernel

/-- F14 witness: the raw `dump` consumer on the complete 2-character string "ok". -/
theorem c12_prefix_raw_short_string_witness :
    (recsW.map (consumeOk false true ctxW)) = [true, true, true, true, false, true, true] ∧
    (recsW.map (consumeOk true true ctxW)) = [true, true, true, true, true, true, true] := by
  decide +kernel

/-- S4 witness: a watch event whose length field is 4 (< 8): `len -= 8` wraps in uint16_t. -/
theorem c12_prefix_watch_len_witness :
    let bs := encHdr { time := 1, typ := 3, more := true, depth := 0, addr := watchVarId, payload := [] } ++
      leBytes 2 4 ++ zeros 16
    (readAll false ctxW bs).2.1 = .oob ∧ (readAll true ctxW bs).2.1 = .badEvent := by
  decide +kernel

end Uft.C12
