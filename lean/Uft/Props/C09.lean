import Uft.Model.Argbuf
import Uft.Lemmas.Argbuf
import Uft.Model.MemRegion
import Uft.Lemmas.MemRegion
/-
C09 — Captured arguments and return values are the values actually passed.

Model: `Uft/Model/Argbuf.lean` (writer save_to_argbuf / record_ret_stack, the x86-64
fetchers, the readers read_task_args and get_argspec_string), tied to the code by the
H1 run (real libmcount, byte-exact slice and record comparison) and the H3 run
(model payloads read back by `uftrace replay`).

`Fix.none` is today's code, `Fix.all` the repaired code:
  F6  NULL strings are stored as the characters "NULL" (readers test for 0xffffffff)
  S1  values are stored before the total size is checked: writes beyond the 1024-byte slice
-/
namespace Uft.C09
open Uft.Argbuf Uft.Gen.Layout

/-! ### parse ∘ pack -/


/-- Whatever the specs and the values (any mix of integers of every size, characters, floats
    as bit patterns, strings of any length incl. NULL / unreadable pointers, structs) and
    whatever was in the buffer before: when the writer accepts the data, the framing reader
    consumes exactly the payload plus its padding to 8 bytes (the cursor lands on the next
    record) and the value reader sees exactly the observable part of every value. -/
theorem c09_parse_pack (fx : Fix) (specs : List Spec) (vals : List Val) (m0 : Mem)
    (payload rest : List Byte)
    (hlen : vals.length = specs.length) (hwf : ∀ sp ∈ specs, WF sp) (hv : ∀ v ∈ vals, ValOk v)
    (h : packArgs fx specs vals m0 = .ok payload) :
    readArgs specs (payload ++ padTo8 payload.length ++ rest) = some (payload, rest) ∧
    decodeVals specs payload = (specs.zip vals).map (fun p => obs fx p.1 p.2) :=
  parse_pack fx specs vals m0 payload rest hlen hwf hv h

example : ∃ p, packArgs Fix.all [⟨1, .sint, 4, 0, 0, []⟩, ⟨2, .str, 8, 0, 0, []⟩] [.word 7, .str [104, 105]]
    ⟨fun _ => 0xa5, 0⟩ = .ok p := ⟨_, rfl⟩


/-! ### framing of a stream of records -/


/-- Decoding the concatenation of any number of records — with or without payload, payloads of
    any size and alignment, data dropped because it was too big — gives back exactly the
    records, in order, each with exactly its own argument data: a payload never desynchronises
    the records that follow it. -/
theorem c09_framing_preserved (fx : Fix) (specOf : Nat → List Spec) (cs : List Call)
    (hok : ∀ c ∈ cs, CallOk specOf c) :
    decodeAll specOf (cs.flatMap (Call.bytes fx)).length (cs.flatMap (Call.bytes fx))
      = some (cs.map (Call.toRec fx)) :=
  decodeAll_calls fx specOf cs _ hok (flatMap_length_ge fx cs)


example : CallOk (fun _ => [⟨1, .str, 8, 0, 0, []⟩]) ⟨100, 0, 3, 0x401000, [⟨1, .str, 8, 0, 0, []⟩], [.null], ⟨fun _ => 0, 0⟩⟩ := by
  refine ⟨by decide, by decide, by decide, by decide, rfl, rfl, ?_, ?_⟩
  · intro sp hsp; simp at hsp; subst hsp; exact ⟨by decide, by decide⟩
  · intro v hv; simp at hv; subst hv; intro s hs; cases hs


/-! ### bounds of the per-frame slice (finding S1) -/


/-- The repaired writer never stores a byte outside the frame's 1024-byte slice, for any specs,
    values and prior buffer contents: `packArgs` never reports `oob`. -/
theorem c09_pack_in_bounds (fx : Fix) (hb : fx.bounds = true) (specs : List Spec) (vals : List Val) (m0 : Mem)
    (hp : ∀ p ∈ specs.zip vals, Sized p.1 p.2 ∧ ValOk p.2) :
    (packRun fx specs vals (St.init m0)).mem.hi ≤ SLICE ∧ packArgs fx specs vals m0 ≠ .error .oob := by
  have h := packRun_hi fx hb specs vals (St.init m0) hp (by simp [St.init, SLICE])
  refine ⟨h, ?_⟩
  unfold packArgs
  simp only
  rw [if_neg (by omega)]
  split <;> simp


example : Sized ⟨1, .str, 8, 0, 0, []⟩ (.str [65]) ∧ ValOk (.str [65]) := by
  refine ⟨⟨by decide, by decide⟩, ?_⟩
  intro s hs; cases hs; intro b hb; simp at hb; subst hb; decide


/-- Today's writer (finding S1): with 1000 bytes already stored, an 18-byte string is accepted
    (total 1020 ≤ 1020, the record gets the payload) although its terminator was stored at
    offset 1024, the first byte of the next frame's slice (for the deepest frame: one byte
    past the heap block).  A 20-byte string reaches offset 1025 before the size check rejects it. -/
theorem c09_prefix_oob_witness :
    (packRun Fix.none [⟨1, .strct, 1000, 0, 0, []⟩, ⟨2, .str, 8, 0, 0, []⟩] [.blob [], .str w18]
      (St.init ⟨fun _ => 0, 0⟩)).mem.hi = 1025 ∧
    (packRun Fix.none [⟨1, .strct, 1000, 0, 0, []⟩, ⟨2, .str, 8, 0, 0, []⟩] [.blob [], .str w18]
      (St.init ⟨fun _ => 0, 0⟩)).total = 1020 ∧
    (packRun Fix.none [⟨1, .strct, 1000, 0, 0, []⟩, ⟨2, .str, 8, 0, 0, []⟩] [.blob [], .str (w18 ++ [66, 66])]
      (St.init ⟨fun _ => 0, 0⟩)).mem.hi = 1026 := by
  refine ⟨by decide, by decide, by decide⟩


/-! ### too big -/


/-- Data that does not fit is dropped cleanly: the record is the bare 16-byte header with the
    `more` bit clear (so the reader does not look for a payload and the next record is decoded
    correctly, see `c09_framing_preserved`); and `tooBig` is only ever reported when no byte
    outside the slice was written while finding that out (the other outcome, `oob`, exists for
    today's writer only: `c09_prefix_oob_witness`, `c09_pack_in_bounds`). -/
theorem c09_too_big_is_clean (fx : Fix) (c : Call) :
    (accepted fx c.chosen c.vals c.m0 = none →
      c.bytes fx = hdrBytes c.time c.type false c.depth c.addr ∧ (c.bytes fx).length = 16) ∧
    (packArgs fx c.chosen c.vals c.m0 = .error .tooBig →
      accepted fx c.chosen c.vals c.m0 = none ∧ (packRun fx c.chosen c.vals (St.init c.m0)).mem.hi ≤ SLICE) := by
  constructor
  · intro h
    have hp : c.payload fx = none := h
    refine ⟨?_, ?_⟩
    · unfold Call.bytes recordBytes; rw [hp]
    · unfold Call.bytes recordBytes hdrBytes; rw [hp]; simp
  · intro h
    unfold packArgs at h
    unfold accepted
    simp only at h ⊢
    split at h
    · cases h
    · split at h
      · rename_i h1 h2
        exact ⟨by rw [if_pos h2], by omega⟩
      · cases h

example : packArgs Fix.all [⟨1, .strct, 2000, 0, 0, []⟩] [.blob []] ⟨fun _ => 0, 0⟩ = .error .tooBig := rfl


/-! ### strings -/


/-- Strings, for every prior buffer content and either writer: the empty string comes back
    empty, a string of up to 97 bytes comes back unchanged — every byte value, also ≥ 0x80 —
    and a longer one as its first 95 bytes followed by "...". -/
theorem c09_string_cases (fx : Fix) (sp : Spec) (hsp : sp.isStr = true) (hwf : WF sp) (s : List Byte)
    (hs : NoNul s) (m0 : Mem) :
    ∃ p, packArgs fx [sp] [.str s] m0 = .ok p ∧
      (s.length ≤ 97 → decodeVals [sp] p = [.str s]) ∧
      (98 ≤ s.length → decodeVals [sp] p = [.str (s.take 95 ++ [46, 46, 46])]) := by
  have hv : ValOk (.str s) := by intro t ht; cases ht; exact hs
  obtain ⟨p, hp⟩ := single_str_ok fx sp hsp (.str s) hv (Or.inr ⟨s, rfl⟩) m0
  obtain ⟨_, hd⟩ := c09_parse_pack fx [sp] [.str s] m0 p [] rfl
    (by intro x hx; simp at hx; subst hx; exact hwf) (by intro x hx; simp at hx; subst hx; exact hv) hp
  refine ⟨p, hp, ?_, ?_⟩
  · intro hl
    rw [hd]
    simp only [List.zip_cons_cons, List.zip_nil_right, List.map_cons, List.map_nil, obs_str fx sp _ hsp]
    simp only [strBody, Val.src, strObs]
    rw [if_pos (by omega)]
  · intro hl
    rw [hd]
    simp only [List.zip_cons_cons, List.zip_nil_right, List.map_cons, List.map_nil, obs_str fx sp _ hsp]
    simp only [strBody, Val.src, strObs]
    rw [if_neg (by omega)]
    rfl


example : NoNul [104, 195, 169] := by intro b hb; simp at hb; rcases hb with rfl | rfl | rfl <;> decide


/-! ### NULL (finding F6) -/


/-- With the repaired writer a NULL string argument is rendered differently from every real
    string (other than the four bytes ff ff ff ff, which are the on-disk marker itself):
    NULL is shown as `NULL`, strings in quotes. -/
theorem c09_null_distinguishable (fx : Fix) (hf : fx.nullMarker = true) (sp : Spec) (hsp : sp.isStr = true)
    (hwf : WF sp) (s : List Byte) (hs : NoNul s) (hne : s ≠ [255, 255, 255, 255]) (m0 m1 : Mem) :
    ∃ p q, packArgs fx [sp] [.null] m0 = .ok p ∧ packArgs fx [sp] [.str s] m1 = .ok q ∧
      renderAll false [sp] (decodeVals [sp] p) ≠ renderAll false [sp] (decodeVals [sp] q) := by
  have hv : ValOk (.str s) := by intro t ht; cases ht; exact hs
  have hvn : ValOk .null := by intro t ht; cases ht
  obtain ⟨p, hp⟩ := single_str_ok fx sp hsp .null hvn (Or.inl rfl) m0
  obtain ⟨q, hq⟩ := single_str_ok fx sp hsp (.str s) hv (Or.inr ⟨s, rfl⟩) m1
  obtain ⟨_, hdp⟩ := c09_parse_pack fx [sp] [.null] m0 p [] rfl
    (by intro x hx; simp at hx; subst hx; exact hwf) (by intro x hx; simp at hx; subst hx; exact hvn) hp
  obtain ⟨_, hdq⟩ := c09_parse_pack fx [sp] [.str s] m1 q [] rfl
    (by intro x hx; simp at hx; subst hx; exact hwf) (by intro x hx; simp at hx; subst hx; exact hv) hq
  refine ⟨p, q, hp, hq, ?_⟩
  rw [hdp, hdq]
  simp only [List.zip_cons_cons, List.zip_nil_right, List.map_cons, List.map_nil, obs_str fx sp _ hsp,
    renderAll, Bool.false_eq_true, if_false, intercalate]
  have hnb : strBody fx .null = [255, 255, 255, 255] := by
    simp [strBody, Val.src, nullBytes, hf]
  have hsb : strBody fx (.str s) ≠ [255, 255, 255, 255] := by
    simp only [strBody, Val.src, strObs]
    split
    · exact hne
    · intro h
      have := congrArg List.length h
      simp at this
      omega
  rw [hnb]
  generalize strBody fx (.str s) = b at hsb
  unfold renderVal
  simp only [if_true]
  rw [if_neg hsb]
  -- NULL starts with 'N', a string with '"'
  intro h
  have h0 := congrArg (fun l => l.headD 0) h
  by_cases hS : sp.fmt = .stdstr
  · simp only [hS, if_true] at h0
    split at h0 <;> simp at h0
  · simp only [hS, if_false] at h0
    split at h0 <;> simp at h0


/-- Today's writer (finding F6): `f(NULL)` and `f("NULL")` are stored and rendered identically. -/
theorem c09_prefix_null_witness :
    obs Fix.none ⟨1, .str, 8, 0, 0, []⟩ .null = obs Fix.none ⟨1, .str, 8, 0, 0, []⟩ (.str [78, 85, 76, 76]) ∧
    renderVal ⟨1, .str, 8, 0, 0, []⟩ (obs Fix.none ⟨1, .str, 8, 0, 0, []⟩ .null) = [34, 78, 85, 76, 76, 34] := by
  refine ⟨by decide, by decide⟩


/-! ### from the register to the reader -/

/-- An integer argument passed in a register (arg1 … arg6 = rdi, rsi, rdx, rcx, r8, r9), of any
    size 1..8 and any integer / pointer / float-bits format, goes through the fetcher, the packer
    and both readers as exactly the low `size` bytes of the register: the value shown is the value
    passed (whatever is in the other registers, on the stack and in the buffer). -/
theorem c09_int_arg_captured (fx : Fix) (m : Machine) (sp : Spec) (m0 : Mem)
    (hty : sp.ty = 0) (hidx : 1 ≤ sp.idx ∧ sp.idx ≤ 6)
    (hfmt : sp.isStr = false ∧ sp.fmt ≠ .strct ∧ sp.fmt ≠ .chr) (hsz : 1 ≤ sp.size ∧ sp.size ≤ 8) :
    ∃ p, captured fx m false [sp] m0 = .ok p ∧
      decodeVals [sp] p = [.int (m.regs.getD (sp.idx - 1) 0 % 256 ^ sp.size)] := by
  obtain ⟨hns, hst, hchr⟩ := hfmt
  have hf1 : sp.fmt ≠ .str := by intro h; unfold Spec.isStr at hns; rw [h] at hns; simp at hns
  have hf2 : sp.fmt ≠ .stdstr := by intro h; unfold Spec.isStr at hns; rw [h] at hns; simp at hns
  have hreg : getRegArg m 0 sp.ty sp.idx sp.loc sp.size = (m.regs.getD (sp.idx - 1) 0 % 256 ^ 8, true) := by
    unfold getRegArg
    rw [hty]
    simp [hidx.1, hidx.2, setLow_zero]
  have hfetch : fetchAll fx m false [sp] 0 = [.word (m.regs.getD (sp.idx - 1) 0 % 256 ^ 8)] := by
    simp [fetchAll, fetch, hst, hreg, hf1, hf2]
  unfold captured
  rw [sel_single_arg sp hidx.1, hfetch]
  obtain ⟨p, hp⟩ := single_word_ok fx sp hns hst (by omega) (m.regs.getD (sp.idx - 1) 0 % 256 ^ 8) m0
  have hwf : WF sp := ⟨fun h => by rw [hns] at h; exact absurd h (by decide), fun h => absurd h hchr⟩
  obtain ⟨_, hd⟩ := c09_parse_pack fx [sp] [.word (m.regs.getD (sp.idx - 1) 0 % 256 ^ 8)] m0 p [] rfl
    (by intro x hx; simp at hx; subst hx; exact hwf)
    (by intro x hx; simp at hx; subst hx; intro s hs; cases hs) hp
  refine ⟨p, hp, ?_⟩
  rw [hd]
  simp only [List.zip_cons_cons, List.zip_nil_right, List.map_cons, List.map_nil, obs, hns, Bool.false_eq_true,
    if_false, if_neg hchr, if_neg hst, Val.asWord]
  congr 2
  exact Nat.mod_mod_of_dvd _ (Nat.pow_dvd_pow 256 hsz.2)

example : (⟨3, .hex, 4, 0, 0, []⟩ : Spec).ty = 0 ∧ (⟨3, .hex, 4, 0, 0, []⟩ : Spec).isStr = false := by decide

/-! ### the writer's and the reader's spec list (option sources)

The writer (libmcount) builds a function's list from UFTRACE_TRIGGER, then UFTRACE_ARGUMENT, then
UFTRACE_RETVAL; the readers (replay, dump, script) build it from the `argspec:` / `retspec:` lines that
`extract_trigger_args` stored in the info file.  A payload is laid out by one list and decoded by the
other.  `T`, `A`, `R` are arbitrary sequences of option items (any number of -T / -A / -R options, any
patterns — plain names, regex, glob, overlapping —, duplicate and non-increasing indices, items without
specs that fall back to the auto-args table / DWARF `auto`), `f` any function.
`xf` selects the repaired info transformation (findings C09-TRIGRET, C09-TRIGAUTO, C09-OLDFMT). -/

/-- For every sequence of option items: when the old-format pass of setup_fstack_args does not run, the
    reader's list and the writer's list of every function have the same argument entries and the same
    return-value entries — same order, same format / size / location, same `exact` marks — hence the
    same payload layout. -/
theorem c09_spec_lists_agree (auto : Nat → Bool → List Spec) (hauto : AutoOk auto) (xf : XFix)
    (hxa : xf.auto = true) (hxr : xf.ret = true) (T A R : List Item)
    (hT : ItemsOk T) (hA : ItemsOk A) (hR : ItemsOk R) (f : Nat)
    (hold : oldPass xf (infoArgs xf T A) (infoRets xf T R) = false) (b : Bool) :
    part b (readerList auto xf T A R f) = part b (writerList auto T A R f) ∧
    layout b (readerList auto xf T A R f) = layout b (writerList auto T A R f) := by
  have h : part b (readerList auto xf T A R f) = part b (writerList auto T A R f) := by
    unfold readerList writerList
    rw [part_build b _ (readerAdds_ok auto hauto xf T A R hT hA hR f),
      part_build b _ (writerAdds_ok auto hauto T A R hT hA hR f)]
    cases b
    · rw [part_false_filter, part_false_filter, adds_args_agree auto hauto xf hxa T A R f]
    · rw [part_true_filter, part_true_filter, adds_rets_agree auto hauto xf hxa hxr T A R f hold]
  exact ⟨h, by rw [layout_eq_part, layout_eq_part, h]⟩

example : AutoOk (fun f b => if f = 1 ∧ b = false then [⟨1, .str, 8, 0, 0, []⟩] else []) := by
  intro f b sp h
  simp only at h
  split at h
  · rename_i hc
    simp at h; subst h
    exact ⟨by rw [hc.2]; rfl, fun hr => rfl⟩
  · cases h

example : ItemsOk [{ fns := [1, 2], exact := false, specs := [⟨2, .sint, 4, 0, 0, []⟩, ⟨0, .str, 8, 0, 0, []⟩] }] ∧
    oldPass XFix.all (infoArgs XFix.all [{ fns := [1, 2], exact := false, specs := [⟨2, .sint, 4, 0, 0, []⟩, ⟨0, .str, 8, 0, 0, []⟩] }]
        [{ fns := [1], exact := true, specs := [⟨1, .hex, 8, 0, 0, []⟩] }])
      (infoRets XFix.all [{ fns := [1, 2], exact := false, specs := [⟨2, .sint, 4, 0, 0, []⟩, ⟨0, .str, 8, 0, 0, []⟩] }] []) = false := by
  refine ⟨?_, by decide⟩
  intro it hit sp hsp
  simp at hit; subst hit
  simp at hsp
  rcases hsp with rfl | rfl <;> intro _ <;> rfl

/-- Arguments never depend on how return values were asked for: with `auto-args` stored as the writer
    uses it, the argument entries (hence the layout of every ENTRY payload) agree for every sequence of
    option items — whether or not the old-format pass runs, with or without the other two repairs. -/
theorem c09_spec_lists_agree_args (auto : Nat → Bool → List Spec) (hauto : AutoOk auto) (xf : XFix)
    (hxa : xf.auto = true) (T A R : List Item) (hT : ItemsOk T) (hA : ItemsOk A) (hR : ItemsOk R) (f : Nat) :
    part false (readerList auto xf T A R f) = part false (writerList auto T A R f) ∧
    layout false (readerList auto xf T A R f) = layout false (writerList auto T A R f) := by
  have h : part false (readerList auto xf T A R f) = part false (writerList auto T A R f) := by
    unfold readerList writerList
    rw [part_build false _ (readerAdds_ok auto hauto xf T A R hT hA hR f),
      part_build false _ (writerAdds_ok auto hauto T A R hT hA hR f),
      part_false_filter, part_false_filter, adds_args_agree auto hauto xf hxa T A R f]
  exact ⟨h, by rw [layout_eq_part, layout_eq_part, h]⟩

/-- With all three repairs the old-format pass (kept for data recorded before `retspec:` existed) can only
    run when the info file has no `retspec:` line, and then the writer's list has no return-value entry:
    no EXIT record carries a payload that the extra entries of the reader could misread. -/
theorem c09_old_format_pass_harmless (auto : Nat → Bool → List Spec) (hauto : AutoOk auto) (xf : XFix)
    (hxa : xf.auto = true) (hxr : xf.ret = true) (hxc : xf.compat = true) (T A R : List Item)
    (hT : ItemsOk T) (hA : ItemsOk A) (hR : ItemsOk R) (f : Nat)
    (hold : oldPass xf (infoArgs xf T A) (infoRets xf T R) = true) :
    layout true (writerList auto T A R f) = [] := by
  rw [layout_eq_part]
  unfold writerList
  rw [part_build true _ (writerAdds_ok auto hauto T A R hT hA hR f), part_true_filter,
    adds_rets_empty auto hauto xf hxa hxr hxc T A R f hold]
  rfl

example : oldPass XFix.all (infoArgs XFix.all [] [{ fns := [1], exact := true, specs := [⟨1, .auto, 8, 0, 0, []⟩, ⟨0, .str, 8, 0, 0, []⟩] }])
    (infoRets XFix.all [] []) = true := by decide

/-- C09-TRIGRET, the code as it is: `-T f@retval/s` is stored as `f@retval`.  The writer records the
    string (2-byte length + bytes), the reader decodes 8 bytes as an integer and — for a string longer
    than 6 bytes — resumes reading in the middle of the payload.  With the repair the lists agree. -/
theorem c09_prefix_trigger_retval_witness :
    layout true (writerList (fun _ _ => []) [{ fns := [1], exact := true, specs := [⟨0, .str, 8, 0, 0, []⟩] }] [] [] 1)
      = [⟨0, .str, 8, 0, 0, []⟩] ∧
    layout true (readerList (fun _ _ => []) XFix.none [{ fns := [1], exact := true, specs := [⟨0, .str, 8, 0, 0, []⟩] }] [] [] 1)
      = [⟨0, .auto, 8, 0, 0, []⟩] ∧
    layout true (readerList (fun _ _ => []) XFix.all [{ fns := [1], exact := true, specs := [⟨0, .str, 8, 0, 0, []⟩] }] [] [] 1)
      = [⟨0, .str, 8, 0, 0, []⟩] := by
  refine ⟨by decide, by decide, by decide⟩

/-- C09-TRIGAUTO, the code as it is: `-T f@arg1/x64,auto-args` for a function the auto-args table knows
    (here as `f(p, u, s)`).  The writer ignores `auto-args` next to an explicit spec and records one
    8-byte value; the info file gets `f@arg1/x64;f`, and the reader decodes pointer, integer, string. -/
theorem c09_prefix_trigger_auto_witness :
    let auto : Nat → Bool → List Spec := fun f b =>
      if f = 1 ∧ b = false then [⟨1, .ptr, 8, 0, 0, []⟩, ⟨2, .uint, 8, 0, 0, []⟩, ⟨3, .str, 8, 0, 0, []⟩] else []
    let T : List Item := [{ fns := [1], exact := true, specs := [⟨1, .hex, 8, 0, 0, []⟩], autoArgs := true }]
    layout false (writerList auto T [] [] 1) = [⟨1, .hex, 8, 0, 0, []⟩] ∧
    layout false (readerList auto XFix.none T [] [] 1)
      = [⟨1, .ptr, 8, 0, 0, []⟩, ⟨2, .uint, 8, 0, 0, []⟩, ⟨3, .str, 8, 0, 0, []⟩] ∧
    layout false (readerList auto XFix.all T [] [] 1) = [⟨1, .hex, 8, 0, 0, []⟩] := by
  refine ⟨by decide, by decide, by decide⟩

/-- C09-OLDFMT, the code as it is: `-A f@arg1,retval/s -R f@retval/i32`.  -A does not accept a retval
    action, so the writer records a 4-byte integer; the reader's old-format pass finds "retval" in the
    argspec line, applies that line once more as a return-value string and overrides the -R spec. -/
theorem c09_prefix_oldfmt_witness :
    let A : List Item := [{ fns := [1], exact := true, specs := [⟨1, .auto, 8, 0, 0, []⟩, ⟨0, .str, 8, 0, 0, []⟩] }]
    let R : List Item := [{ fns := [1], exact := true, specs := [⟨0, .sint, 4, 0, 0, []⟩] }]
    layout true (writerList (fun _ _ => []) [] A R 1) = [⟨0, .sint, 4, 0, 0, []⟩] ∧
    layout true (readerList (fun _ _ => []) XFix.none [] A R 1) = [⟨0, .str, 8, 0, 0, []⟩] ∧
    layout true (readerList (fun _ _ => []) XFix.all [] A R 1) = [⟨0, .sint, 4, 0, 0, []⟩] := by
  refine ⟨by decide, by decide, by decide⟩

/-- What the order of the sources means (and why an info file that lists -A before the trigger specs
    breaks the layout): `-T f@arg2/i32 -A f@arg3/x64` — the writer's list is [arg2, arg3]; a reader that
    applied -A first would get [arg3, arg2]. -/
theorem c09_source_order_matters :
    let T : List Item := [{ fns := [1], exact := true, specs := [⟨2, .sint, 4, 0, 0, []⟩] }]
    let A : List Item := [{ fns := [1], exact := true, specs := [⟨3, .hex, 8, 0, 0, []⟩] }]
    layout false (writerList (fun _ _ => []) T A [] 1) = [⟨2, .sint, 4, 0, 0, []⟩, ⟨3, .hex, 8, 0, 0, []⟩] ∧
    layout false (readerList (fun _ _ => []) XFix.all T A [] 1) = [⟨2, .sint, 4, 0, 0, []⟩, ⟨3, .hex, 8, 0, 0, []⟩] ∧
    layout false (build (addsOf (fun _ _ => []) .arg (A ++ extractArgs XFix.all T) 1))
      = [⟨3, .hex, 8, 0, 0, []⟩, ⟨2, .sint, 4, 0, 0, []⟩] := by
  refine ⟨by decide, by decide, by decide⟩

/-! ### `uftrace dump` prints the number that was recorded (finding C09-DUMPF80) -/

/-- Repaired raw dump: for every integer / character / floating-point spec of any size — a 10-byte
    `long double` included — the number printed is the `size` recorded bytes (the same number replay decodes,
    `decodeVals`), for a value packed by the writer exactly the value's low `size` bytes, and nothing is
    stored beyond the 8-byte temporary. -/
theorem c09_dump_raw_exact (sp : Spec) (hs : sp.isStr = false) (hc : sp.fmt ≠ .chr) (ht : sp.fmt ≠ .strct)
    (v : Nat) (rest : List Byte) :
    (dumpRaw true sp.size (leBytes (align4 sp.size) v ++ rest)).1 = v % 256 ^ sp.size ∧
    decodeVals [sp] (leBytes (align4 sp.size) v ++ rest) = [.int (dumpRaw true sp.size (leBytes (align4 sp.size) v ++ rest)).1] ∧
    (dumpRaw true sp.size (leBytes (align4 sp.size) v ++ rest)).2 ≤ 8 := by
  obtain ⟨h1, h2⟩ := dumpRaw_fixed sp.size (leBytes (align4 sp.size) v ++ rest)
  have hle : sp.size ≤ align4 sp.size := by unfold align4; omega
  have htake : (leBytes (align4 sp.size) v ++ rest).take sp.size = leBytes sp.size v := by
    rw [List.take_append_of_le_length (by simp; exact hle), leBytes_take _ _ _ hle]
  refine ⟨by rw [h1, htake, ofLe_leBytes], ?_, h2⟩
  rw [h1]
  simp [decodeVals, hs, hc, ht]

example : (⟨1, .flt, 10, 1, 0, []⟩ : Spec).isStr = false ∧ (⟨1, .flt, 10, 1, 0, []⟩ : Spec).fmt ≠ .chr := by decide

/-- C09-DUMPF80, the code as it is: a `long double` argument 1.25L (0x3fff a000000000000000) is printed as
    0x0000a000000000000000 — sign and exponent are gone — and memcpy stores 10 bytes into the 8-byte `val`. -/
theorem c09_prefix_dump_f80_witness :
    dumpRaw false 10 (leBytes 12 0x3fffa000000000000000) = (0xa000000000000000, 10) ∧
    dumpRaw true 10 (leBytes 12 0x3fffa000000000000000) = (0x3fffa000000000000000, 0) := by
  refine ⟨by decide, by decide⟩

/-! ### the agent's deep copy of the trigger tree -/

/-- deep_copy_filter keeps every spec list as it is — same entries, same order — so the payload layout the
    writer uses after an agent update (`uftrace live -p PID …`) is the layout before the update, the one the
    info file describes (c09_spec_lists_agree).  Tie: driver op DCOPY (real uftrace_deep_copy_triggers on the
    tree built by libmcount from every generated option set) + the agent e2e family. -/
theorem c09_deep_copy_preserves_spec_order (l : List LSpec) (isRet : Bool) :
    copyArgs l = l ∧ layout isRet (copyArgs l) = layout isRet l := by
  have h : copyArgs l = l := by
    unfold copyArgs copyArgsG
    simp only [↓reduceIte]
    rw [copyArgs_tail_aux l [], List.nil_append]
  rw [h]; exact ⟨rfl, rfl⟩

/-- … for every filter of the tree: the copied tree is the same tree, a lookup finds the same list -/
theorem c09_deep_copy_tree (t : FTree) : copyTree t = t ∧ ∀ addr, (copyTree t).find addr = t.find addr := by
  have h : copyTree t = t := by
    induction t with
    | leaf => rfl
    | node l s e a r ihl ihr => simp [copyTree, ihl, ihr, (c09_deep_copy_preserves_spec_order a false).1]
  rw [h]; exact ⟨rfl, fun _ => rfl⟩

/-- why the order is the property: linking the copies at the head (`list_add`) gives a different layout as soon
    as a function has two values of different sizes — a 4-byte integer followed by a string -/
theorem c09_deep_copy_order_matters :
    let l : List LSpec := [⟨⟨1, .sint, 4, 0, 0, []⟩, true⟩, ⟨⟨2, .str, 0, 0, 0, []⟩, true⟩]
    copyArgsG false l = l.reverse ∧ layout false (copyArgsG false l) ≠ layout false l := by
  refine ⟨by decide, by decide⟩

/-! ### unreadable pointers -/

/-- A non-NULL string pointer whose first byte lies in no mapped readable region `[start, end)` —
    in particular a pointer equal to the end address of a mapping — is classified as an address
    (`<0x…>` text) whatever the contents of memory: the writer never dereferences it. -/
theorem c09_unreadable_never_read (m : Machine) (p : Nat) (strs : List (Nat × List Byte))
    (hp : p ≠ 0) (hr : m.regions ≠ [])
    (hout : ∀ r ∈ m.regions, ¬ (r.1 ≤ p ∧ p < r.2)) :
    strVal { m with strs := strs } p = .bad p := by
  have hm : mapped { m with strs := strs } p = false := by
    unfold mapped
    simp only [Bool.or_eq_false_iff]
    refine ⟨by simpa using hr, ?_⟩
    rw [List.any_eq_false]
    intro r hrm
    have := hout r hrm
    simp only [Bool.and_eq_true, decide_eq_true_eq]
    exact this
  unfold strVal
  rw [if_neg hp, if_pos hm]

example : (⟨0x1000, 0x2000⟩ : Nat × Nat).1 ≤ 0x1fff ∧ ¬ ((⟨0x1000, 0x2000⟩ : Nat × Nat).1 ≤ 0x2000 ∧ 0x2000 < (⟨0x1000, 0x2000⟩ : Nat × Nat).2) := by decide

/-! ### unreadable pointers: check_mem_region, its cache and the loads of the copy loop
    (findings C09-PAGECROSS, C09-STALE, C09-S3; model `Uft/Model/MemRegion.lean`)

`c09_unreadable_never_read` above is the *specification* of the verdict.  The theorems below are about
the decision procedure itself, against an address space that may become any other address space
between two traced calls (`Ev.space`: mmap, munmap, mprotect, brk, free(), other threads).
`fixed = true` is the repaired design of proposed_fixes/C09-MEMPROBE.diff (the kernel is asked about
the page, at the first byte and at every page boundary the copy reaches; nothing is cached),
`fixed = false` the code as it is (a cache of /proc/self/maps lines that is never invalidated, heap end
rounded up to 128 MB, stack start rounded down by 8 MB, first byte only). -/

section MemRegion
open Uft.MemRegion

/-- Repaired design, one call: once the check has passed, every address the copy loop loads
    (`&str[i]`, up to 99 of them) lies in a page that is readable *now* — for every address space
    with page-granular mappings, every pointer, every memory contents and every amount of room left in
    the slice; the same for the 16 bytes of a std::string object and the string it points to.  Hence
    the call does not fault. -/
theorem c09_copy_reads_only_mapped (sp : Space) (hal : Aligned sp) (c : Cache) (get : Nat → MByte) (p room : Nat) :
    ((check true c sp p).1 = true → ∀ a ∈ loopReads true sp get p room, readable sp a = true) ∧
    isFault (strCall true c sp get p room).1 = false ∧
    isFault (objCall true c sp get p room).1 = false :=
  ⟨fun h => strCall_fixed_reads hal get p room (by simpa [check] using h),
   (strCall_fixed_no_fault hal c get p room).1, (objCall_fixed_no_fault hal c get p room).1⟩

example : Aligned [{ start := 0x1000, stop := 0x2000 }] ∧
    (check true {} [{ start := 0x1000, stop := 0x2000 }] 0x1ffd).1 = true := by decide

/-- Repaired design, whole histories: whatever the thread's cache contained, however the address space
    and the memory contents change between the calls and whatever pointers the calls pass, no traced
    call ends in a fault. -/
theorem c09_never_faults (c : Cache) (sp : Space) (get : Nat → MByte) (evs : List Ev)
    (hal : AlignedHist sp evs) : ∀ o ∈ run true c sp get evs, isFault o = false :=
  run_fixed_no_fault c evs sp get hal

example : AlignedHist [{ start := 0x10000, stop := 0x20000 }]
    [.str 0x18000 1020, .space [] (fun _ => 0), .str 0x18000 1020] := by
  refine ⟨by decide, ?_⟩
  show Aligned []
  decide

/-- Repaired design: a non-NULL pointer whose first byte cannot be read now is shown as an address and
    nothing is loaded through it — for every cache state, i.e. after every history. -/
theorem c09_unreadable_shown_as_address (sp : Space) (hal : Aligned sp) (c : Cache) (get : Nat → MByte)
    (p room : Nat) (hp : p ≠ 0) (hr : readable sp p = false) :
    strCall true c sp get p room = (.bad p, c) :=
  strCall_fixed_unreadable hal c get p room hp hr

example : readable [{ start := 0x1000, stop := 0x2000 }] 0x2000 = false := by decide

/-- Repaired design: the value shown is the value passed.  A NUL-terminated string of up to 98 bytes that
    can be read is captured as exactly its bytes; of a longer one exactly the first 99 bytes are loaded
    (the packer keeps 95 and appends "..."); a string that runs into a page that cannot be read is
    captured up to the end of the last readable page and nothing beyond it is loaded. -/
theorem c09_readable_string_captured (sp : Space) (hal : Aligned sp) (c : Cache) (get : Nat → MByte)
    (p room : Nat) (hp : p ≠ 0) :
    (∀ n, n ≤ STR_MAX → n < room → (∀ j, j ≤ n → readable sp (p + j) = true) →
        (∀ j, j < n → get (p + j) ≠ 0) → get (p + n) = 0 →
        strCall true c sp get p room = (.str (bytesAt get p n), c)) ∧
    (STR_MAX < room → (∀ j, j ≤ STR_MAX → readable sp (p + j) = true) → (∀ j, j ≤ STR_MAX → get (p + j) ≠ 0) →
        strCall true c sp get p room = (.str (bytesAt get p (STR_MAX + 1)), c) ∧
        loopReads true sp get p room = List.range' p (STR_MAX + 1)) ∧
    (∀ n, 0 < n → n ≤ STR_MAX → n < room → (∀ j, j < n → readable sp (p + j) = true) →
        (∀ j, j < n → get (p + j) ≠ 0) → (p + n) % PAGE = 0 → readable sp (p + n) = false →
        strCall true c sp get p room = (.str (bytesAt get p n), c) ∧
        loopReads true sp get p room = List.range' p n) :=
  ⟨fun n hn hroom hr hnz hz => strCall_fixed_cstring hal c get p room n hp hn hroom hr hnz hz,
   fun hroom hr hnz => strCall_fixed_long hal c get p room hp hroom hr hnz,
   fun n hn0 hn hroom hr hnz hpg hun => strCall_fixed_cut hal c get p room n hp hn0 hn hroom hr hnz hpg hun⟩

example : strCall true {} [{ start := 0x1000, stop := 0x2000 }] (Contents.get { fill := 65 }) 0x1ffd 1020
    = (.str [65, 65, 65], {}) := by decide

/-- The stack words of mcount_get_stack_arg / mcount_get_struct_arg (repaired: first and last byte are
    probed): every byte that is copied is readable. -/
theorem c09_stack_range_readable (sp : Space) (hal : Aligned sp) (c : Cache) (a n : Nat) (hn : n ≤ PAGE + 1) :
    ∀ rs, (rangeReads true c sp a n).1 = some rs → ∀ x ∈ rs, readable sp x = true := by
  intro rs h x hx
  unfold rangeReads check at h
  simp only [if_true] at h
  split at h
  · rename_i hok
    simp only [Bool.and_eq_true, Bool.or_eq_true, decide_eq_true_eq] at hok
    cases h
    simp only [List.mem_map, List.mem_range] at hx
    obtain ⟨j, hj, rfl⟩ := hx
    exact range_readable hal a n hn hok.1 hok.2 j hj
  · cases h

example : (rangeReads true {} [{ start := 0x1000, stop := 0x3000 }] 0x1ff8 16).1 ≠ none := by decide

/-- the values of `Uft.Argbuf.strVal` as outcomes -/
def ofVal : Val → Outcome
  | .null => .null
  | .bad a => .bad a
  | .str s => .str s
  | _ => .null

/-- the readable lines of an address space as the `regions` of an `Argbuf.Machine` -/
def regionsOf (sp : Space) : List (Nat × Nat) := (sp.filter (fun m => m.r)).map (fun m => (m.start, m.stop))

theorem mapped_regionsOf (m : Machine) (sp : Space) (hreg : m.regions = regionsOf sp) (hne : regionsOf sp ≠ [])
    (p : Nat) : mapped m p = readable sp p := by
  unfold mapped
  rw [hreg]
  have : (regionsOf sp).isEmpty = false := by
    cases h : regionsOf sp with
    | nil => exact absurd h hne
    | cons _ _ => rfl
  rw [this, Bool.false_or]
  unfold regionsOf readable Mapping.has
  rw [List.any_map, List.any_filter]
  congr 1

/-- The repaired decision procedure computes the specified classification (`strVal`, the input of
    `c09_parse_pack` and of `c09_unreadable_never_read`): NULL, an unreadable pointer and a readable
    NUL-terminated string of up to 98 bytes are classified as the specification says, by looking at the
    address space as it is now. -/
theorem c09_repaired_check_meets_spec (m : Machine) (sp : Space) (hal : Aligned sp)
    (hreg : m.regions = regionsOf sp) (hne : regionsOf sp ≠ []) (c : Cache) (get : Nat → MByte) (p room : Nat) :
    (p = 0 → (strCall true c sp get p room).1 = ofVal (strVal m p)) ∧
    (p ≠ 0 → readable sp p = false → (strCall true c sp get p room).1 = ofVal (strVal m p)) ∧
    (∀ n, p ≠ 0 → n ≤ STR_MAX → n < room → (∀ j, j ≤ n → readable sp (p + j) = true) →
        (∀ j, j < n → get (p + j) ≠ 0) → get (p + n) = 0 → lookup m.strs p = some (bytesAt get p n) →
        (strCall true c sp get p room).1 = ofVal (strVal m p)) := by
  refine ⟨?_, ?_, ?_⟩
  · intro h; subst h; simp [strCall, strVal, ofVal]
  · intro hp hr
    rw [strCall_fixed_unreadable hal c get p room hp hr]
    unfold strVal
    rw [if_neg hp, if_pos (by rw [mapped_regionsOf m sp hreg hne]; exact hr)]
    rfl
  · intro n hp hn hroom hr hnz hz hl
    rw [strCall_fixed_cstring hal c get p room n hp hn hroom hr hnz hz]
    unfold strVal
    have h0 := hr 0 (Nat.zero_le _)
    simp only [Nat.add_zero] at h0
    rw [if_neg hp, if_neg (by rw [mapped_regionsOf m sp hreg hne, h0]; decide), hl]
    rfl

example : regionsOf [{ start := 0x1000, stop := 0x2000 }] ≠ [] := by decide

/-! #### the code as it is: one witness per way to fault -/

/-- C09-PAGECROSS (only the first byte is checked).  One readable page `[0x1000, 0x2000)` full of 'A',
    nothing mapped behind it; the traced function receives a pointer to its last 3 bytes (a buffer that
    is not NUL-terminated).  Today's code loads `0x2000` and the traced program dies; the repaired code
    shows "AAA".  The same for a std::string object whose second word lies in the next page. -/
theorem c09_prefix_pagecross_witness :
    run false {} [{ start := 0x1000, stop := 0x2000 }] (Contents.get { fill := 65 }) [.str 0x1ffd 1020] = [.fault 0x2000] ∧
    run true {} [{ start := 0x1000, stop := 0x2000 }] (Contents.get { fill := 65 }) [.str 0x1ffd 1020] = [.str [65, 65, 65]] ∧
    run false {} [{ start := 0x1000, stop := 0x2000 }] (Contents.get { fill := 65 }) [.obj 0x1ff8 1020] = [.fault 0x2000] ∧
    run true {} [{ start := 0x1000, stop := 0x2000 }] (Contents.get { fill := 65 }) [.obj 0x1ff8 1020] = [.bad 0x1ff8] := by
  refine ⟨by decide, by decide, by decide, by decide⟩

/-- C09-STALE (the cache is never invalidated).  A mapping `[0x10000, 0x20000)` holds "first" at 0x18000;
    a first call captures it (the mapping enters the cache), the program unmaps the region — or makes
    it PROT_NONE — and a second call passes the now dangling pointer: today's code still finds it in the
    cache and loads from it; the repaired code shows the address. -/
theorem c09_prefix_stale_witness :
    let sp : Space := [{ start := 0x10000, stop := 0x20000 }, { start := 0x7ffff000, stop := 0x80000000, kind := .stack }]
    let mem : Contents := { chunks := [(0x18000, [102, 105, 114, 115, 116, 0])] }
    run false {} sp mem.get [.str 0x18000 1020, .space (munmap sp 0x10000 0x20000) mem.get, .str 0x18000 1020]
      = [.str [102, 105, 114, 115, 116], .fault 0x18000] ∧
    run true {} sp mem.get [.str 0x18000 1020, .space (munmap sp 0x10000 0x20000) mem.get, .str 0x18000 1020]
      = [.str [102, 105, 114, 115, 116], .bad 0x18000] ∧
    run false {} sp mem.get [.str 0x18000 1020, .space (mmap sp 0x18000 0x19000 false) mem.get, .str 0x18000 1020]
      = [.str [102, 105, 114, 115, 116], .fault 0x18000] ∧
    run true {} sp mem.get [.str 0x18000 1020, .space (mmap sp 0x18000 0x19000 false) mem.get, .str 0x18000 1020]
      = [.str [102, 105, 114, 115, 116], .bad 0x18000] := by
  refine ⟨by decide, by decide, by decide, by decide⟩

/-- C09-S3 (rounding).  `[heap]` is `[0x1000000, 0x1021000)`: every address up to 0x8000000 (the end
    rounded up to 128 MB) is accepted without a lookup, so a pointer 1 MB past the program break is
    loaded from; and with `[stack]` at `[0x7ffffffde000, 0x7ffffffff000)` every address down to
    0x7fffff800000 (the start rounded down by 8 MB) is accepted.  After brk() moved the break down the
    old range is still accepted. -/
theorem c09_prefix_s3_witness :
    let sp : Space := [{ start := 0x1000000, stop := 0x1021000, kind := .heap },
                       { start := 0x7ffffffde000, stop := 0x7ffffffff000, kind := .stack }]
    run false {} sp (fun _ => 65) [.str 0x1121000 1020] = [.fault 0x1121000] ∧
    run true {} sp (fun _ => 65) [.str 0x1121000 1020] = [.bad 0x1121000] ∧
    run false {} sp (fun _ => 65) [.str 0x7fffff900000 1020] = [.fault 0x7fffff900000] ∧
    run true {} sp (fun _ => 65) [.str 0x7fffff900000 1020] = [.bad 0x7fffff900000] ∧
    run false {} sp (fun _ => 0) [.str 0x1020ff0 1020, .space (setBrk sp 0x1010000) (fun _ => 0), .str 0x1020ff0 1020]
      = [.str [], .fault 0x1020ff0] := by
  refine ⟨by decide, by decide, by decide, by decide, by decide⟩

end MemRegion

end Uft.C09
