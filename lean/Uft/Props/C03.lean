import Uft.Lemmas.Crash
/-
C03 — No record is lost, duplicated or torn between tracee and recorder.

All theorems are about `Uft.Shmem.Reachable cfg nw s`: every state the interleaved machine of
Model/Shmem.lean can reach from the initial one — any number of threads, any buffer size
(`cfg.maxsize`), any number of writer threads (`nw`), any record sizes, any interleaving of
producer micro-steps with recorder steps, any sequence of allocation failures (`pPick t false`),
including kills and the finish trigger (C04 uses the same machine).

Ghost state: `(s.prod t).log` = what thread `t` did with each record it wanted to emit
(kept / dropped / LOST marker placed / allocation failed); `survivors log` = the records
(and LOST markers) that must end up in `<t>.dat`, in order.
-/
namespace Uft.C03
open Uft Uft.Shmem Uft.Writers

variable {cfg : Cfg} {nw : Nat} {s : State}

/-- bytes of the buffers queued in the writer pool for `t`: the registered writer's local list,
    the buffers passed to it, the write list — in the order they will be written -/
def inFlight (s : State) (t : Tid) : List Item := (qidx s t).flatMap (dataAt (s.prod t).bufs)
/-- buffers whose REC_END is still in the pipe -/
def inPipe (s : State) (t : Tid) : List Item := (ends (pipeToks t s.pipe)).flatMap (dataAt (s.prod t).bufs)
/-- the buffer the thread is filling (no REC_END sent yet) -/
def inOpen (s : State) (t : Tid) : List Item := (s.prod t).opn.toList.flatMap (dataAt (s.prod t).bufs)

theorem reachable_of_run {acts : List Action} {s0 s1 : State} (h0 : Reachable cfg nw s0)
    (h : run cfg s0 acts = some s1) : Reachable cfg nw s1 := by
  induction acts generalizing s0 with
  | nil => simp [run] at h; exact h ▸ h0
  | cons a as ih =>
    simp only [run] at h
    split at h
    · rename_i s' hs; exact ih (Reachable.step a h0 hs) h
    · simp at h

/-- **Conservation.**  What is in the file, followed by what is queued for writing, followed by what
    was announced and not yet read, followed by the buffer being filled, is exactly — in order, without
    duplicates — what the thread emitted and did not drop.  (`clean` ignores a header whose payload is
    not yet counted; with the single size update there is none, see `c03_conservation_exact`.) -/
theorem c03_conservation (h : Reachable cfg nw s) (t : Tid) :
    clean (s.file t ++ inFlight s t ++ inPipe s t ++ inOpen s t) = survivors (s.prod t).log := by
  have := ((inv_reachable h).view t).d.eqn
  simpa [inFlight, inPipe, inOpen, List.flatMap_append, List.append_assoc] using this

theorem mem_dataAt {l : List Buf} {i : Nat} {it : Item} (h : it ∈ dataAt l i) : ∃ b ∈ l, it ∈ b.data := by
  unfold dataAt at h
  split at h
  · simp at h
  · rename_i b hb; exact ⟨b, List.mem_of_getElem? hb, h⟩

theorem c03_conservation_exact (hf : cfg.fixed = true) (h : Reachable cfg nw s) (t : Tid) :
    s.file t ++ inFlight s t ++ inPipe s t ++ inOpen s t = survivors (s.prod t).log := by
  rw [← c03_conservation h t]
  symm
  apply clean_of_nt
  have hn := nt_reachable hf h t
  have hb : ∀ (c : List Nat), ∀ it ∈ c.flatMap (dataAt (s.prod t).bufs), it.isTorn = false := by
    intro c it hit
    simp only [List.mem_flatMap] at hit
    obtain ⟨i, _, hi⟩ := hit
    obtain ⟨b, hb, hd⟩ := mem_dataAt hi
    exact hn.2 b hb it hd
  intro it hit
  simp only [List.mem_append, inFlight, inPipe, inOpen] at hit
  rcases hit with ((hit | hit) | hit) | hit
  · exact hn.1 it hit
  · exact hb _ it hit
  · exact hb _ it hit
  · exact hb _ it hit

/-- the file alone is always an in-order prefix of what must end up in it -/
theorem c03_file_is_prefix (h : Reachable cfg nw s) (t : Tid) :
    clean (s.file t) <+: survivors (s.prod t).log := by
  rw [← c03_conservation h t]
  simp only [List.append_assoc, clean_append]
  exact List.prefix_append _ _

/-- **One writer per tid**: buffers of one thread are never written by two writer threads at once. -/
theorem c03_one_writer_per_tid (h : Reachable cfg nw s) (t : Tid) :
    (s.pool.writers.filter (fun w => w.tid = some t)).length ≤ 1 :=
  one_writer (inv_reachable h).pool t

/-- the thread whose code an action is -/
def actor : Action → Option Tid
  | .pPrepare t | .pWrite t _ | .pBump t | .pBump2 t | .pEnd t _ | .pPick t _ | .pStart t | .pMark t
  | .pAbandon t _ _ | .pFinish t | .pFinishTrigger t | .kill t => some t
  | _ => none

theorem getElem?_modData_ne {l : List Buf} {i c : Nat} (g : List Item → List Item) (h : i ≠ c) :
    (modData l c g)[i]? = l[i]? := by
  unfold modData
  split
  · rfl
  · exact List.getElem?_set_ne (Ne.symm h)

/-- **No reuse before written.**  A producer step never touches a buffer that is RECORDING and is not
    the one the thread is filling: such a buffer — handed over by REC_END, queued, or being written — keeps
    its flag, its size and its bytes until the recorder has written it and set WRITTEN. -/
theorem c03_no_reuse_before_written (h : Reachable cfg nw s) {a : Action} {s' : State} {t : Tid}
    (hs : step cfg s a = some s') (ha : actor a = some t) {i : Nat} {b : Buf}
    (hb : (s.prod t).bufs[i]? = some b) (hr : b.recording = true) (ho : (s.prod t).opn ≠ some i) :
    (s'.prod t).bufs[i]? = some b := by
  have hv := (inv_reachable h).view t
  unfold VInv at hv
  have live : s.canEmit t = true → (∀ r, (s.prod t).pc ≠ .needBuf r) → (s.prod t).opn = (s.prod t).curr := by
    intro hce hn
    obtain ⟨h1, h2, h3, h4⟩ := canEmit_iff.mp hce
    rw [h4] at hv
    exact hv.opn_eq_curr h1 h2 h3 hn
  cases a with
  | pPrepare t' =>
    simp only [actor, Option.some.injEq] at ha; subst ha
    simp only [step] at hs
    split at hs
    · simp at hs
    · rename_i hg
      simp only [Bool.or_eq_true, not_or, Bool.not_eq_true] at hg
      have := (hv.c.unstarted hg.1).1
      rw [this] at hb; simp at hb
  | pWrite t' r =>
    simp only [actor, Option.some.injEq] at ha; subst ha
    simp only [step] at hs
    split at hs
    · injection hs with hs; subst hs; simpa using hb
    · simp at hs
  | pBump t' =>
    simp only [actor, Option.some.injEq] at ha; subst ha
    simp only [step] at hs
    split at hs
    · rename_i r c hpc hc
      split at hs
      · simp at hs
      · rename_i hce
        have hce : s.canEmit t' = true := by simpa using hce
        have hic : i ≠ c := by
          intro e; apply ho; rw [live hce (by simp [hpc]), hc, e]
        split at hs <;>
        · injection hs with hs; subst hs
          simp only [setProd_prod_same, appendData_eq]
          rw [getElem?_modData_ne _ hic]; exact hb
    · simp at hs
  | pBump2 t' =>
    simp only [actor, Option.some.injEq] at ha; subst ha
    simp only [step] at hs
    split at hs
    · rename_i r c hpc hc
      split at hs
      · simp at hs
      · rename_i hce
        have hce : s.canEmit t' = true := by simpa using hce
        have hic : i ≠ c := by
          intro e; apply ho; rw [live hce (by simp [hpc]), hc, e]
        injection hs with hs; subst hs
        simp only [setProd_prod_same, completeData_eq]
        rw [getElem?_modData_ne _ hic]; exact hb
    · simp at hs
  | pEnd t' r =>
    simp only [actor, Option.some.injEq] at ha; subst ha
    simp only [step] at hs
    split at hs
    · split at hs
      · injection hs with hs; subst hs
        unfold State.send; split <;> simpa using hb
      · injection hs with hs; subst hs; simpa using hb
    · simp at hs
  | pPick t' ok =>
    simp only [actor, Option.some.injEq] at ha; subst ha
    simp only [step] at hs
    split at hs
    · split at hs
      · simp at hs
      · split at hs
        · rename_i idx hff
          obtain ⟨b0, hb0, hr0⟩ := firstFree_some hff
          split at hs
          · injection hs with hs; subst hs
            simp only [setProd_prod_same]
            apply shrink_keep _ hr
            have : i ≠ idx := by
              intro e; subst e; rw [hb] at hb0; injection hb0 with hb0; rw [← hb0, hr] at hr0; simp at hr0
            rw [List.getElem?_set_ne (Ne.symm this)]; exact hb
          · simp at hs
        · split at hs
          · injection hs with hs; subst hs
            simp only [setProd_prod_same]
            apply shrink_keep _ hr
            have hi : i < (s.prod t').bufs.length := by
              rcases Nat.lt_or_ge i (s.prod t').bufs.length with h' | h'
              · exact h'
              · simp [List.getElem?_eq_none_iff.mpr h'] at hb
            rw [List.getElem?_append_left hi]; exact hb
          · injection hs with hs; subst hs; simpa using hb
    · simp at hs
  | pStart t' =>
    simp only [actor, Option.some.injEq] at ha; subst ha
    simp only [step] at hs
    split at hs
    · split at hs
      · simp at hs
      · injection hs with hs; subst hs
        unfold State.send; split <;> simpa using hb
    · simp at hs
  | pMark t' =>
    simp only [actor, Option.some.injEq] at ha; subst ha
    simp only [step] at hs
    split at hs
    · rename_i r c hpc hc
      split at hs
      · simp at hs
      · rename_i hce
        have hce : s.canEmit t' = true := by simpa using hce
        have hic : i ≠ c := by
          intro e; apply ho; rw [live hce (by simp [hpc]), hc, e]
        split at hs
        · injection hs with hs; subst hs
          have : ∀ (X : State) (m : Msg), (X.send m).prod = X.prod := by
            intro X m; unfold State.send; split <;> rfl
          rw [this]
          simp only [setProd_prod_same, appendData_eq]
          rw [getElem?_modData_ne _ hic]; exact hb
        · injection hs with hs; subst hs; simpa using hb
    · simp at hs
  | pAbandon t' rs cn =>
    simp only [actor, Option.some.injEq] at ha; subst ha
    simp only [step] at hs
    split at hs
    · injection hs with hs; subst hs; simpa using hb
    · simp at hs
  | pFinish t' =>
    simp only [actor, Option.some.injEq] at ha; subst ha
    simp only [step] at hs
    split at hs
    · rename_i s1 h1
      injection hs with hs; subst hs
      have hb1 : (s1.prod t').bufs[i]? = some b := by
        simp only [finishCore] at h1
        split at h1
        · have ite_some : ∀ (c : Prop) [Decidable c] (A B : State),
              (if c then some A else some B) = some s1 → s1 = A ∨ s1 = B := by
            intro c _ A B h; split at h <;> injection h with h <;> simp [h]
          cases hc : (s.prod t').curr with
          | none => simp only [hc] at h1; injection h1 with h1; subst h1; simpa using hb
          | some c =>
            simp only [hc] at h1
            rcases ite_some _ _ _ h1 with e | e
            · subst e; rw [send_prod]; simpa using hb
            · subst e; simpa using hb
        · simp at h1
      unfold reportTail
      simp only []
      split
      · rw [send_prod]; simpa using hb1
      · exact hb1
    · simp at hs
  | pFinishTrigger t' =>
    simp only [step] at hs
    split at hs
    · injection hs with hs; subst hs; exact hb
    · simp at hs
  | kill t' =>
    simp only [actor, Option.some.injEq] at ha; subst ha
    simp only [step] at hs
    injection hs with hs; subst hs; simpa using hb
  | rRead => simp [actor] at ha
  | rFlush _ _ => simp [actor] at ha
  | rStop => simp [actor] at ha
  | rRemaining => simp [actor] at ha
  | wPick _ => simp [actor] at ha
  | wWrite _ => simp [actor] at ha
  | wSplice _ => simp [actor] at ha

/-- nothing of `t` is under way: no message of it in the pipe, no REC_START the recorder still
    holds, nothing queued in the writer pool -/
def Drained (s : State) (t : Tid) : Prop :=
  pipeToks t s.pipe = [] ∧ shmToks t s.shmemList = [] ∧ s.pool.queue t = []

theorem drained_exact (hi : Inv s) {t : Tid} (hd : Drained s t) :
    clean (s.file t) = survivors (s.prod t).log := by
  obtain ⟨h1, h2, h3⟩ := hd
  have hv := hi.view t
  unfold VInv at hv
  have hq : qidx s t = [] := by simp [qidx, h3]
  rw [h1, h2, hq] at hv
  have hw := hv.c.wb
  have hso : sentOpen (s.prod t) = none := by
    simp only [List.append_nil] at hw
    generalize sentOpen (s.prod t) = o at hw
    cases hw; rfl
  have he := hv.d.eqn
  simp only [ends, List.append_nil, List.nil_append] at he
  cases ho : (s.prod t).opn with
  | none => simpa [ho] using he
  | some o =>
    unfold sentOpen at hso
    split at hso
    · rename_i r hpc
      obtain ⟨h4, h5⟩ := hv.c.picked r hpc
      have := h5 o (by rw [← h4, ho])
      simpa [ho, this] using he
    · rw [ho] at hso; simp at hso

/-- the recorder has nothing left to do, and every thread has stopped
    (ended through mtd_dtor, was killed, or tracing was finished) -/
structure Quiescent (cfg : Cfg) (s : State) : Prop where
  read : step cfg s .rRead = none
  write : ∀ w, step cfg s (.wWrite w) = none
  splice : ∀ w, step cfg s (.wSplice w) = none
  pick : if s.bufDone then step cfg s .rRemaining = none
         else ∃ w, (s.pool.writers[w]?).isSome ∧ step cfg s (.wPick w) = none
  flush : ∀ t i, step cfg s (.rFlush t i) = none
  stopped : ∀ t, (s.prod t).started = true → Crash.stopped s t = true

theorem shmToks_nil_of_not_mem {t : Tid} {l : List WBuf} (h : ∀ i, (⟨t, i⟩ : WBuf) ∉ l) : shmToks t l = [] := by
  induction l with
  | nil => rfl
  | cons wb l ih =>
    by_cases ht : wb.tid = t
    · exfalso; apply h wb.idx; subst ht; simp
    · simp only [shmToks, ht, if_false]
      exact ih (fun i hi => h i (by simp [hi]))

theorem quiescent_drained (hi : Inv s) (hq : Quiescent cfg s) (t : Tid) : Drained s t := by
  have hpipe : s.pipe = [] := by
    have := hq.read
    simp only [step] at this
    split at this <;> simp_all
  have hidle : ∀ w ∈ s.pool.writers, w.tid = none ∧ w.head = [] := by
    intro w hw
    obtain ⟨i, hi', hget⟩ := List.getElem_of_mem hw
    have hget? : s.pool.writers[i]? = some w := by simp [List.getElem?_eq_getElem hi', hget]
    have h1 := hq.write i
    have h2 := hq.splice i
    simp only [step, Pool.popHead, hget?] at h1
    simp only [step, Pool.splice, hget?] at h2
    have hh : w.head = [] := by
      cases hh : w.head with
      | nil => rfl
      | cons b r => simp [hh] at h1
    refine ⟨?_, hh⟩
    cases ht : w.tid with
    | none => rfl
    | some x => simp [ht, hh] at h2
  have hall : s.pool.allIdle = true := by
    simp only [Pool.allIdle, List.all_eq_true]
    intro w hw
    exact idle_iff.mpr (hidle w hw)
  have hwl : s.pool.writeList = [] := by
    have hp := hq.pick
    by_cases hb : s.bufDone = true
    · simp only [hb, if_true, step, Bool.not_true, Bool.false_eq_true, if_false, Pool.popRemaining, hall] at hp
      cases hl : s.pool.writeList with
      | nil => rfl
      | cons b r => simp [hl] at hp
    · have hb : s.bufDone = false := by simpa using hb
      simp only [hb, Bool.false_eq_true, if_false] at hp
      obtain ⟨w, hw, hp⟩ := hp
      obtain ⟨x, hx⟩ := Option.isSome_iff_exists.mp hw
      have hxi := hidle x (List.mem_of_getElem? hx)
      have : x.idle = true := idle_iff.mpr hxi
      simp only [step, Pool.pick, hx, this, Bool.not_true, Bool.false_eq_true, if_false, hb, Bool.not_false,
        Bool.and_true] at hp
      have hk := hi.pool.kick
      by_cases hk0 : s.pool.kicks = 0
      · rw [hk0] at hk
        exact List.length_eq_zero_iff.mp (by omega)
      · exfalso
        revert hp
        simp only [hk0, decide_false, Bool.false_and, Bool.false_eq_true, if_false]
        cases s.pool.writeList <;> simp
  refine ⟨by simp [hpipe, pipeToks], ?_, ?_⟩
  · apply shmToks_nil_of_not_mem
    intro i hmem
    by_cases hstd : (s.prod t).started = true
    · have := hq.flush t i
      have hst := hq.stopped t hstd
      simp only [Crash.stopped] at hst
      simp [step, hmem, hst, hpipe] at this
    · -- a thread that never started has announced no buffer
      have hvt := hi.view t
      unfold VInv at hvt
      rw [hpipe] at hvt
      simp only [pipeToks] at hvt
      obtain ⟨_, ho, _⟩ := hvt.flush_opn (shmToks_allS t s.shmemList) (mem_shmToks hmem)
      have := (hvt.c.unstarted (by simpa using hstd)).2.2.2.2.1
      rw [this] at ho; simp at ho
  · have hr := allIdle_regs hall
    have hwq : wq t s.pool.writers = [] := wq_nil (by rw [hr]; simp)
    simp [Pool.queue, hwq, hwl]

/-- **Quiescent exactness** (includes "no lost wake-up"): when every thread has ended and no recorder
    step is enabled any more, each file holds exactly the thread's surviving records. -/
theorem c03_quiescent_exact (h : Reachable cfg nw s) (hq : Quiescent cfg s) (t : Tid) :
    clean (s.file t) = survivors (s.prod t).log :=
  drained_exact (inv_reachable h) (quiescent_drained (inv_reachable h) hq t)

theorem mem_survivors {it : Item} {log : List Ev} (h : it ∈ survivors log) :
    (∃ r, it = .whole r ∧ .kept r ∈ log) ∨ (∃ n, it = .lost n ∧ .lostMark n ∈ log) := by
  induction log with
  | nil => simp [survivors] at h
  | cons e l ih =>
    cases e with
    | kept r =>
      simp only [survivors, List.mem_cons] at h
      rcases h with h | h
      · exact Or.inl ⟨r, h, by simp⟩
      · rcases ih h with ⟨r', e1, e2⟩ | ⟨n, e1, e2⟩
        · exact Or.inl ⟨r', e1, by simp [e2]⟩
        · exact Or.inr ⟨n, e1, by simp [e2]⟩
    | lostMark n =>
      simp only [survivors, List.mem_cons] at h
      rcases h with h | h
      · exact Or.inr ⟨n, h, by simp⟩
      · rcases ih h with ⟨r', e1, e2⟩ | ⟨n', e1, e2⟩
        · exact Or.inl ⟨r', e1, by simp [e2]⟩
        · exact Or.inr ⟨n', e1, by simp [e2]⟩
    | dropped r =>
      simp only [survivors] at h
      rcases ih h with ⟨r', e1, e2⟩ | ⟨n', e1, e2⟩
      · exact Or.inl ⟨r', e1, by simp [e2]⟩
      · exact Or.inr ⟨n', e1, by simp [e2]⟩
    | allocFail =>
      simp only [survivors] at h
      rcases ih h with ⟨r', e1, e2⟩ | ⟨n', e1, e2⟩
      · exact Or.inl ⟨r', e1, by simp [e2]⟩
      · exact Or.inr ⟨n', e1, by simp [e2]⟩
    | lostReport k =>
      simp only [survivors] at h
      rcases ih h with ⟨r', e1, e2⟩ | ⟨n', e1, e2⟩
      · exact Or.inl ⟨r', e1, by simp [e2]⟩
      · exact Or.inr ⟨n', e1, by simp [e2]⟩

/-- **No cross-tid.**  Every complete record in `<t>.dat` was emitted (and kept) by thread `t` itself;
    the only other things in the file are the LOST markers thread `t` placed. -/
theorem c03_no_cross_tid (h : Reachable cfg nw s) (t : Tid) (it : Item) (hit : it ∈ s.file t)
    (hnt : it.isTorn = false) :
    (∃ r, it = .whole r ∧ .kept r ∈ (s.prod t).log) ∨ (∃ n, it = .lost n ∧ .lostMark n ∈ (s.prod t).log) := by
  apply mem_survivors
  have hp := c03_file_is_prefix h t
  apply hp.subset
  simp [clean, hit, hnt]

/-- **Records are lost only on allocation failure, as whole records, and the loss is marked and
    reported.**  The thread's log is accepted by the automaton `lstep`: a record is dropped only in a
    run that begins with an allocation failure (`allocFail`); a run is closed by exactly one LOST
    marker with a positive count, placed immediately before the next surviving record; there is no LOST
    marker anywhere else (a run still open when the thread ends is closed by the LOST message of the repaired
    shmem_finish, `lostReport`); and the LOST messages handed to the recorder are exactly these reports
    (same counts, same order).  Records are whole by construction of `Ev` (a dropped record never enters a
    buffer).  That the counts ARE the numbers of dropped records is `c03_every_loss_reported`. -/
theorem c03_lost_only_on_alloc_failure_and_whole (h : Reachable cfg nw s) (t : Tid) :
    (∃ st, lrun .normal (s.prod t).log = some st ∧ PcOk (s.prod t).pc (s.prod t).losts (s.prod t).curr st) ∧
    (s.prod t).lostMsgs = reports (s.prod t).log :=
  ⟨(lostInv_reachable h t).ex, (lostInv_reachable h t).msgs⟩

/-- **Loss accounting** (with each dropped record counted once): at every moment the number of records a thread
    has dropped = the sum of the LOST counts it has sent (markers and the message at its end) + what it still
    has pending; what it has sent = what the recorder has added to its total on the thread's behalf + what is
    still in the pipe; the recorder's total is the sum of what it has read. -/
theorem c03_loss_accounting (hc : cfg.countFix = true) (h : Reachable cfg nw s) (t : Tid) :
    nDropped (s.prod t).log = (reports (s.prod t).log).sum + (s.prod t).losts ∧
    lostFrom s t + pendingLost t s.pipe = (reports (s.prod t).log).sum ∧
    s.lostCount = (s.lostLog.map (·.2)).sum := by
  have ha := (both_reachable h).1
  have hm := (lostInv_reachable h t).msgs
  exact ⟨by rw [← hm]; exact ha.acct hc t, by rw [← hm]; exact ha.deliv t, ha.total⟩

theorem pendingLost_nil_of_pipe {t : Tid} {l : List Msg} (h : l = []) : pendingLost t l = 0 := by
  subst h; rfl

/-- **Every loss is reported.**  With the repaired counting (`countFix`: each dropped record counted once) and the
    repaired shmem_finish (`tailFix`: a count still pending when the thread ends is sent as a LOST message): in
    every quiescent reachable state, for every thread that ended through mtd_dtor while the pipe was open, the
    number of records the thread dropped equals the sum of the LOST counts delivered to the recorder for it —
    which are the counts of the LOST markers in its file plus the message at its end — and nothing is pending.
    (A thread that was killed cannot report; tracing finished by the finish trigger closes the pipe first.) -/
theorem c03_every_loss_reported (hc : cfg.countFix = true) (ht : cfg.tailFix = true) (h : Reachable cfg nw s)
    (hq : Quiescent cfg s) (t : Tid) (hd : (s.prod t).done = true) (ho : s.pipeClosed = false) :
    nDropped (s.prod t).log = lostFrom s t ∧ lostFrom s t = (reports (s.prod t).log).sum ∧ (s.prod t).losts = 0 := by
  obtain ⟨h1, h2, _⟩ := c03_loss_accounting hc h t
  have hl : (s.prod t).losts = 0 := by
    rcases (both_reachable h).2 ht t hd with e | e
    · exact e
    · rw [ho] at e; simp at e
  have hpipe : s.pipe = [] := by
    have := hq.read
    simp only [step] at this
    split at this <;> simp_all
  rw [hpipe] at h2
  simp only [pendingLost, Nat.add_zero] at h2
  exact ⟨by rw [h1, hl, h2]; simp, h2, hl⟩


/-- a drop without a preceding allocation failure is not accepted … -/
example (r : Rec) : lrun .normal [.kept r, .dropped r] = none := rfl
/-- … nor a kept record after a run of drops without the LOST marker … -/
example (r : Rec) : lrun .normal [.allocFail, .dropped r, .kept r] = none := rfl
/-- … and this is the shape of a loss -/
example (r : Rec) : lrun .normal [.kept r, .allocFail, .dropped r, .dropped r, .lostMark 3, .kept r] = some .normal := rfl

/-! ### non-vacuity: concrete reachable states -/

def r1 : Rec := { id := 1, size := 16, payload := false }
def r2 : Rec := { id := 2, size := 16, payload := false }
def r3 : Rec := { id := 3, size := 16, payload := false }
def r4 : Rec := { id := 4, size := 16, payload := false }

/-- three records fill the first buffer, the fourth switches; the recorder reads, one writer writes -/
def demo : List Action :=
  [.pPrepare 1, .pWrite 1 r1, .pBump 1, .pWrite 1 r2, .pBump 1, .pWrite 1 r3, .pBump 1,
   .pEnd 1 r4, .pPick 1 true, .pStart 1, .pMark 1, .pBump 1, .rRead, .rRead, .wPick 0, .wWrite 0, .wSplice 0]

example : (run {} (State.init 1) demo).map (fun s => (s.file 1, (s.prod 1).bufs.map (·.data))) =
    some ([.whole r1, .whole r2, .whole r3], [[], [.whole r4]]) := by decide

/-- an allocation failure drops r4 and r1' (the rest of the batch); the next record carries the marker -/
def demoLost : List Action :=
  [.pPrepare 1, .pWrite 1 r1, .pBump 1, .pWrite 1 r2, .pBump 1, .pWrite 1 r3, .pBump 1,
   .pEnd 1 r4, .pPick 1 true, .pStart 1, .pMark 1, .pBump 1, .pWrite 1 r1, .pBump 1, .pWrite 1 r2, .pBump 1,
   .pEnd 1 r3, .pPick 1 false, .pAbandon 1 [r4] true, .rRead, .rRead, .wPick 0, .wWrite 0, .wSplice 0,
   .pEnd 1 r1, .pPick 1 true, .pStart 1, .pMark 1, .pBump 1]

example : (run {} (State.init 1) demoLost).map (fun s => ((s.prod 1).bufs.map (·.data), (s.prod 1).lostMsgs)) =
    some ([[.lost 2, .whole r1], [.whole r4, .whole r1, .whole r2]], [2]) := by decide

/-- the code as it is counts the record whose allocation failed twice: two records dropped, "LOST 3" (finding F-C03-LOSTCOUNT) -/
theorem c03_prefix_lost_count_witness :
    (run { countFix := false } (State.init 1) demoLost).map
      (fun s => (nDropped (s.prod 1).log, (s.prod 1).lostMsgs)) = some (2, [3]) := by decide

/-- a thread whose last records are dropped, then ends; the recorder reads and writes everything -/
def tailLost : List Action :=
  [.pPrepare 1, .pWrite 1 r1, .pBump 1, .pWrite 1 r2, .pBump 1, .pWrite 1 r3, .pBump 1,
   .pEnd 1 r4, .pPick 1 true, .pStart 1, .pMark 1, .pBump 1, .pWrite 1 r1, .pBump 1, .pWrite 1 r2, .pBump 1,
   .pEnd 1 r3, .pPick 1 false, .pAbandon 1 [r4] true, .pFinish 1,
   .rRead, .rRead, .rRead, .rRead, .rRead, .wPick 0, .wWrite 0, .wWrite 0, .wSplice 0]

/-- repaired: both dropped records are reported (LOST message 2, recorder total 2), nothing pending … -/
example : True ∨ (run {} (State.init 1) tailLost).map
    (fun s => (nDropped (s.prod 1).log, (s.prod 1).lostMsgs, (s.prod 1).losts, s.lostCount, s.pipe.length, s.pool.writeList.length)) =
    some (2, [2], 0, 2, 0, 0) := by decide

/-- … the code as it is (one message less to read): shmem_finish forgets `losts` — two records dropped, no LOST message, the recorder's
    total stays 0 and nothing is left to deliver (finding F-C03-LOSTTAIL) -/
theorem c03_prefix_trailing_loss_unreported_witness :
    (run { countFix := false, tailFix := false } (State.init 1) (tailLost.eraseIdx 20)).map
      (fun s => (nDropped (s.prod 1).log, (s.prod 1).lostMsgs, s.lostCount, s.pipe.length, s.pool.writeList.length)) =
    some (2, [], 0, 0, 0) := by decide

/-- a state in which the recorder has nothing to read, queue, write or flush is quiescent -/
theorem quiescent_of_settled {cfg : Cfg} {s : State} (hpipe : s.pipe = []) (hshm : s.shmemList = [])
    (hwl : s.pool.writeList = []) (hw : s.pool.writers.all Warg.idle = true)
    (hk : s.bufDone = true ∨ (s.pool.kicks = 0 ∧ s.pool.writers ≠ []))
    (hst : ∀ t, (s.prod t).started = true → Crash.stopped s t = true) : Quiescent cfg s := by
  have hidle : ∀ (w : Nat) (x : Warg), s.pool.writers[w]? = some x → x.tid = none ∧ x.head = [] := by
    intro w x hx
    simp only [List.all_eq_true] at hw
    exact idle_iff.mp (hw x (List.mem_of_getElem? hx))
  refine ⟨by simp [step, hpipe], ?_, ?_, ?_, ?_, hst⟩
  · intro w
    simp only [step, Pool.popHead]
    cases hx : s.pool.writers[w]? with
    | none => rfl
    | some x => simp [(hidle w x hx).2]
  · intro w
    simp only [step, Pool.splice]
    cases hx : s.pool.writers[w]? with
    | none => rfl
    | some x => simp [(hidle w x hx).1]
  · by_cases hb : s.bufDone = true
    · simp [hb, step, Pool.popRemaining, hwl, Pool.allIdle, hw]
    · have hb' : s.bufDone = false := by simpa using hb
      rcases hk with hk | ⟨hk0, hne⟩
      · exact absurd hk hb
      · simp only [hb', Bool.false_eq_true, if_false]
        cases hws : s.pool.writers with
        | nil => exact absurd hws hne
        | cons x l =>
          refine ⟨0, by simp [hws], ?_⟩
          have hx : s.pool.writers[0]? = some x := by simp [hws]
          have := idle_iff.mpr (hidle 0 x hx)
          simp [step, Pool.pick, hx, this, hk0, hb']
  · intro t i
    simp [step, hshm]

/-- non-vacuity of `Quiescent`, `c03_quiescent_exact` and `c03_every_loss_reported`: the run `tailLost` (a thread
    drops its last two records and ends; one more spurious wake-up of the writer) ends in a quiescent state with
    the pipe open, the thread done, two records dropped and two reported -/
example : ∃ s, Reachable {} 1 s ∧ Quiescent {} s ∧ (s.prod 1).done = true ∧ s.pipeClosed = false ∧
    nDropped (s.prod 1).log = 2 ∧ lostFrom s 1 = 2 ∧ s.lostCount = 2 := by
  have hd : (run {} (State.init 1) (tailLost ++ [.wPick 0])).map
      (fun s => (s.pipe.isEmpty, s.shmemList.isEmpty, s.pool.writeList.isEmpty, s.pool.writers.all Warg.idle,
                 s.pool.kicks, s.pool.writers.length)) = some (true, true, true, true, 0, 1) := by decide
  have hd2 : (run {} (State.init 1) (tailLost ++ [.wPick 0])).map
      (fun s => ((s.prod 1).done, s.pipeClosed, nDropped (s.prod 1).log, lostFrom s 1, s.lostCount)) =
      some (true, false, 2, 2, 2) := by decide
  cases hr : run {} (State.init 1) (tailLost ++ [.wPick 0]) with
  | none => simp [hr] at hd
  | some s =>
    simp only [hr, Option.map_some, Option.some.injEq, Prod.mk.injEq, List.isEmpty_iff] at hd hd2
    obtain ⟨h1, h2, h3, h4, h5, h6⟩ := hd
    obtain ⟨h7, h8, h9, h10, h11⟩ := hd2
    refine ⟨s, reachable_of_run Reachable.init hr, ?_, h7, h8, h9, h10, h11⟩
    apply quiescent_of_settled h1 h2 h3 h4
    · right; refine ⟨h5, ?_⟩; intro e; rw [e] at h6; simp at h6
    · intro t ht
      rcases started_run _ _ _ t hr ht with e | e
      · simp [State.init] at e
      · have : t = 1 := by
          simp only [tailLost, List.mem_append, List.mem_cons, List.not_mem_nil, or_false] at e
          rcases e with e | e <;> simp_all
        subst this
        simp [Crash.stopped, h7]

/-! ### whose name the buffer messages carry -/

/-- **Buffer messages carry the thread's own tid.**  Whatever a thread does to its identity - vfork (with the child
    leaving by _exit or exec, from any call depth, any number of times), fork, exec, or simply returning from library
    calls while OTHER threads vfork - in any order: every message it sends afterwards names its own kernel tid
    (`msgTid`: REC_START / REC_END / TASK_START / LOST are built from mcount_gettid()), and the buffers it fills are the
    ones it started under that name.  With `c03_no_cross_tid` (a file holds only what was announced under its tid):
    `<tid>.dat` never contains another thread's records, and nothing a thread emits is announced under another name. -/
theorem c03_messages_carry_own_tid (ops : List IdOp) (pid ktid : Nat) :
    let s := idRun {} { pid := pid, ktid := ktid, bufs := ktid } ops
    s.msgTid = s.ktid ∧ s.bufs = s.ktid ∧ s.own = true := by
  have h0 : IdInv { pid := pid, ktid := ktid, bufs := ktid } := ⟨Or.inl rfl, rfl, by intro _ _ _ e; simp at e⟩
  have := idInv_own (idRun_inv ops h0)
  simp only [Ident.own, this.1, this.2, beq_self_eq_true, Bool.and_self, and_self]

/-- the kernel tid itself only changes where the thread really becomes another task: in the child of a fork / vfork -/
theorem c03_tid_stable_without_fork (ops : List IdOp) (s : Ident)
    (h : ∀ o ∈ ops, (∀ c, o ≠ .vfork c) ∧ (∀ c, o ≠ .fork c) ∧ (∀ b, o ≠ .vforkDone b)) :
    (idRun {} s ops).ktid = s.ktid := by
  induction ops generalizing s with
  | nil => rfl
  | cons o os ih =>
    have ho := h o (List.mem_cons_self ..)
    have ih' := ih (idStep {} s o) (fun o' ho' => h o' (List.mem_cons_of_mem _ ho'))
    simp only [idRun, ih']
    cases o with
    | gettid => rfl
    | vfork c => exact absurd rfl (ho.1 c)
    | vforkDone b => exact absurd rfl (ho.2.2 b)
    | fork c => exact absurd rfl (ho.2.1 c)
    | exec => rfl
    | otherVfork a => simp [idStep]

/-- non-vacuity / the schedule of the e2e programs: thread 101 of process 100 vforks twice from call depth 0 (the second
    child pushes no frame), forks, returns from library calls while thread 102 vforks -/
example : (idRun {} { pid := 100, ktid := 101, bufs := 101 }
    [.gettid, .vfork 200, .gettid, .vforkDone false, .gettid, .vfork 201, .vforkDone true, .gettid, .otherVfork 102,
     .gettid]).msgTid = 101 := by decide

/-- the code before the repair F-C03-VFORK-AGAIN: after its second vfork from an uninstrumented caller the worker
    thread 101 announces its buffers under the PROCESS id 100 - the main thread's name - and the buffers it was filling
    are forgotten -/
theorem c03_prefix_vfork_again_witness :
    let s := idRun { again := false } { pid := 100, ktid := 101, bufs := 101 }
      [.gettid, .vfork 200, .vforkDone false, .gettid, .vfork 201, .vforkDone true, .gettid]
    s.ktid = 101 ∧ s.msgTid = 100 ∧ s.bufs = 100 ∧ s.own = false := by decide

/-- the code before the repair F-C03-VFORK-MT: thread 102 returns from a library call while thread 101 is inside
    vfork(): it goes on in thread 101's buffers -/
theorem c03_prefix_vfork_mt_witness :
    let s := idRun { mt := false } { pid := 100, ktid := 102, bufs := 102 } [.gettid, .otherVfork 101, .gettid]
    s.ktid = 102 ∧ s.bufs = 101 ∧ s.own = false := by decide

/-! ### The recorder's session around the writer pool (Writers.Sess; tie: harness/c03_writer.c runs the real
cmds/record.c under generated schedules and compares every step) -/

/-- Whatever the schedule — buffers announced twice (REC_START twice for the first buffer of a fork child), ended or
    left to the final flush, any interleaving of 1..n writers, flush_shmem_list and record_remaining_buffer at the
    end —, the bytes of a buffer are appended to a data file at most once. -/
theorem c03_session_writes_once (nw : Nat) (ops : List SOp) :
    ((Sess.init nw).run ops).log.Nodup :=
  Sess.run_nodup ops _ (by simp [Sess.init])

/-- non-vacuity: a first buffer announced twice and never ended is queued twice by the final flush (both list
    entries map the same memory) and written once; a buffer ended after its second announcement is written by a
    writer thread and not again at the end -/
example :
    ((Sess.init 2).run [.start ⟨7, 0⟩, .start ⟨7, 0⟩, .start ⟨8, 0⟩, .start ⟨8, 0⟩, .fin ⟨8, 0⟩, .pick 1, .write 1,
        .splice 1, .stop, .flushAll]).pool.writeList = [⟨7, 0⟩, ⟨7, 0⟩] ∧
    ((Sess.init 2).run [.start ⟨7, 0⟩, .start ⟨7, 0⟩, .start ⟨8, 0⟩, .start ⟨8, 0⟩, .fin ⟨8, 0⟩, .pick 1, .write 1,
        .splice 1, .stop, .flushAll, .remaining]).log = [⟨8, 0⟩, ⟨7, 0⟩] := by decide

/-- what a woken writer takes (writer_thread, first critical section): the first queued buffer decides the task;
    the writer registers for that task and takes exactly that task's buffers, in queue order; every other task's
    buffers stay on buf_write_list in their order.  (copy_to_buffer relies on it: all queued buffers of a task are
    either on buf_write_list or with the one writer registered for the task.) -/
theorem c03_pick_takes_first_task_only {p p' : Pool} {i : Nat} {f : Bool} {first : WBuf} {rest : List WBuf}
    (hl : p.writeList = first :: rest) (hp : p.pick i f = some p') :
    p'.writeList = rest.filter (fun b => b.tid ≠ first.tid) ∧
    (∃ w, p'.writers[i]? = some w ∧ w.tid = some first.tid ∧
          w.head = first :: rest.filter (fun b => b.tid = first.tid)) ∧
    (∀ b ∈ p'.writeList, b.tid ≠ first.tid) := by
  unfold Pool.pick at hp
  cases hw : p.writers[i]? with
  | none => simp [hw] at hp
  | some w =>
    simp only [hw, hl] at hp
    split at hp
    · cases hp
    · split at hp
      · cases hp
      · simp only [Option.some.injEq] at hp
        subst hp
        have hi : i < p.writers.length := by
          rcases Nat.lt_or_ge i p.writers.length with h | h
          · exact h
          · simp [List.getElem?_eq_none h] at hw
        refine ⟨rfl, ⟨{ w with tid := some first.tid,
                                 head := first :: rest.filter (fun b => b.tid = first.tid) },
                      by simp [List.getElem?_set, hi], rfl, rfl⟩, ?_⟩
        intro b hb
        simp only [List.mem_filter, decide_eq_true_eq] at hb
        exact hb.2

end Uft.C03
