import Uft.Lemmas.PyTrace
/-
C19 — Python programs are traced at function granularity with balanced calls.
Property theorems only (helpers are in Lemmas/PyTrace.lean).

`c : Cfg α` is the configuration (`-F` and `-N` entries in option order, libcall
mode, which functions are library functions, and `fixed`: with/without the
repair of finding F2).  A Python run is a forest `f : Calls α` of calls; the
interpreter hands `eventsL f` (or, after `os._exit`, a prefix of it) to
`uftrace_trace_python`, which is `run c St.init`.
-/
namespace Uft.PyTrace

variable {α : Type}

/-- C19, state: after a call (tree) has returned, `count_in`, `count_out` and
    `libcall_count` are what they were before it — from any state a nested
    stream can reach, in particular from program start. -/
theorem c19_state_restored (c : Cfg α) (hf : c.fixed = true) (s : St) (hw : WF c s)
    (t : Call α) (f : Calls α) :
    (run c s (events t)).1 = s ∧ (run c s (eventsL f)).1 = s := by
  rw [run_call c hf t s hw, run_calls c hf f s hw]
  simp

/-- C19, selection: the hook calls made for a whole program are exactly the
    documented selection (`specCalls`: `-F` functions with everything they
    call, `-N` functions and their callees left out, first matching option
    wins, library calls per `--no-libcall` / default / `--nest-libcall`). -/
theorem c19_refines_doc (c : Cfg α) (hf : c.fixed = true) (f : Calls α) :
    (run c St.init (eventsL f)).2 = specCalls c false false 0 f := by
  rw [run_calls c hf f St.init (wf_init c)]
  simp [envA, envB, envL, St.init]

/-- … and the same holds for every sub-run started inside a program (the
    environment of the specification is read off the counters). -/
theorem c19_refines_doc_inside (c : Cfg α) (hf : c.fixed = true) (s : St) (hw : WF c s)
    (f : Calls α) :
    (run c s (eventsL f)).2 = specCalls c (envA s) (envB s) (envL s) f := by
  rw [run_calls c hf f s hw]

/-- C19, balance: for every program and every configuration the emitted
    enter/exit sequence is a Dyck word, and whatever prefix of the event stream
    the tracer gets to see (the program may stop at any point, e.g. `os._exit`)
    no prefix of the emitted sequence has more exits than enters. -/
theorem c19_balanced_output (c : Cfg α) (hf : c.fixed = true) (f : Calls α) :
    Balanced (run c St.init (eventsL f)).2 ∧
    ∀ k j, exits (((run c St.init ((eventsL f).take k)).2).take j) ≤
           enters (((run c St.init ((eventsL f).take k)).2).take j) := by
  have hb : walk 0 (run c St.init (eventsL f)).2 = some 0 := by
    rw [c19_refines_doc c hf f]
    exact walk_specCalls c f false false 0 0
  refine ⟨hb, ?_⟩
  intro k j
  have hsplit := run_append c ((eventsL f).take k) ((eventsL f).drop k) St.init
  rw [List.take_append_drop] at hsplit
  have hout : (run c St.init (eventsL f)).2 =
      (run c St.init ((eventsL f).take k)).2 ++
        (run c (run c St.init ((eventsL f).take k)).1 ((eventsL f).drop k)).2 := by
    rw [hsplit]
  rw [hout] at hb
  have hp := walk_prefix _ 0 0 hb
  by_cases hj : j ≤ ((run c St.init ((eventsL f).take k)).2).length
  · have := hp j
    rw [List.take_append_of_le_length hj] at this
    omega
  · have hlen : ((run c St.init ((eventsL f).take k)).2).length ≤ j := by omega
    have := hp ((run c St.init ((eventsL f).take k)).2).length
    rw [List.take_append_of_le_length (Nat.le_refl _), List.take_length] at this
    rw [List.take_of_length_le hlen]
    omega

/-- the enter and exit counts of a whole run agree (corollary, stated for the
    trace file: as many exit records as entry records) -/
theorem c19_counts_equal (c : Cfg α) (hf : c.fixed = true) (f : Calls α) :
    enters (run c St.init (eventsL f)).2 = exits (run c St.init (eventsL f)).2 := by
  have := walk_counts _ 0 0 (c19_balanced_output c hf f).1
  omega

/-- The defect is confined to mixing `-F` and `-N`: when the mode is not opt-in
    or no entry is an opt-out entry, the code as found behaves exactly like the
    repaired code on *every* event stream (nested or not). -/
theorem c19_prefix_agrees_without_mixing (c : Cfg α)
    (h : c.gmode ≠ .fin ∨ ∀ n, firstMatch c.flist n ≠ some .fout)
    (s : St) (evs : List (Ev α)) :
    run { c with fixed := false } s evs = run { c with fixed := true } s evs := by
  have hg : ∀ b, ({ c with fixed := b } : Cfg α).gmode = c.gmode := fun _ => rfl
  have hl : ∀ b, ({ c with fixed := b } : Cfg α).flist = c.flist := fun _ => rfl
  have hskip : ∀ (n : α) (ci co : Int) (ent : Bool),
      skipDecision false c.gmode (firstMatch c.flist n) ci co ent =
      skipDecision true c.gmode (firstMatch c.flist n) ci co ent := by
    intro n ci co ent
    rcases h with h | h
    · cases hgm : c.gmode <;> simp_all [skipDecision]
    · have := h n
      simp [skipDecision, this]
  have hstep : ∀ (s : St) (e : Ev α),
      stepSt { c with fixed := false } s e = stepSt { c with fixed := true } s e ∧
      stepOut { c with fixed := false } s e = stepOut { c with fixed := true } s e := by
    intro s e
    have hr : reaches { c with fixed := false } s e = reaches { c with fixed := true } s e := by
      simp only [reaches, hg, hl, hskip]
    simp only [stepSt, stepOut, hr, hg, hl]
    simp [libAfter, canTrace]
  induction evs generalizing s with
  | nil => simp [run]
  | cons e es ih =>
    simp only [run]
    rw [(hstep s e).1, (hstep s e).2, ih]

/-- What the code does with the stray `return` events that follow an uncaught
    exception or `sys.exit()` (python/uftrace.py has no `finally`, so the returns
    of the runpy frames that were entered before tracing started are still
    delivered): the counters are not corrupted (the clamp), and unless the mode
    is opt-in or `--no-libcall`, one unpaired `cygprof_exit` is made per event —
    libmcount drops it with "unpaired cygprof exit".  Stated so that the
    behaviour is on record; such streams are outside `eventsL`. -/
theorem c19_stray_return_unpaired_exit (c : Cfg α) (n : α) (hl : c.isLib n = true)
    (hm : firstMatch c.flist n = none) :
    stepSt c St.init ⟨.ret, n⟩ = St.init ∧
    stepOut c St.init ⟨.ret, n⟩ = (if c.gmode = .fin ∨ c.lmode = .none then [] else [.exit]) := by
  cases hg : c.gmode <;> cases hlm : c.lmode <;>
    simp [stepSt, stepOut, reaches, skipDecision, cinAfter, coutAfter, libAfter, canTrace,
      St.init, EvKind.isEntry, hm, hg, hlm, hl]

/-! ### pseudo addresses (`convert_function_addr`): what ties an `enter` to a name -/

/-- an address, once handed out, never changes while more events arrive -/
theorem c19_addr_stable [BEq α] [LawfulBEq α] (syms : List α) (evs : List (Ev α)) (n : α)
    (h : n ∈ syms) : addrOf (symsOf syms evs) n = addrOf syms n := by
  obtain ⟨t, ht⟩ := symsOf_prefix evs syms
  simp [addrOf, ht, List.idxOf_append, h]

/-- two names never share an address -/
theorem c19_addr_injective [BEq α] [LawfulBEq α] (syms : List α) (a b : α)
    (ha : a ∈ syms) (hb : b ∈ syms) (h : addrOf syms a = addrOf syms b) : a = b := by
  simp only [addrOf, Nat.add_right_cancel_iff] at h
  have h1 := List.getElem_idxOf (List.idxOf_lt_length_of_mem ha)
  have h2 := List.getElem_idxOf (List.idxOf_lt_length_of_mem hb)
  simp only [h] at h1
  exact h1.symm.trans h2

/-- every function seen in any event (also a filtered one) has an address -/
theorem c19_addr_assigned [BEq α] [LawfulBEq α] : ∀ (evs : List (Ev α)) (syms : List α) (e : Ev α),
    e ∈ evs → e.name ∈ symsOf syms evs
  | [], _, _, h => by simp at h
  | x :: xs, syms, e, h => by
    simp only [symsOf]
    rcases List.mem_cons.mp h with rfl | h
    · obtain ⟨t, ht⟩ := symsOf_prefix xs (intern syms e.name)
      rw [ht]
      apply List.mem_append_left
      simp only [intern]
      split
      · rename_i hc; simpa using hc
      · simp
    · exact c19_addr_assigned xs _ e h
instance (l : List (Out α)) : Decidable (Balanced l) := by
  unfold Balanced; infer_instance

/-! ### finding F2 as a theorem about the code as found, and non-vacuity -/

/-- `-F a -N g` with names `0 = a`, `1 = g` -/
def cfgMixed (fixed : Bool) : Cfg Nat :=
  { fixed := fixed
    filters := some [{ hit := fun n => n == 0, mode := .fin }, { hit := fun n => n == 1, mode := .fout }]
    lmode := .single
    isLib := fun _ => false }

/-- `a()` calls `g()` -/
def progAG : Calls Nat := .cons (.node 0 .py (.cons (.node 1 .py .nil) .nil)) .nil

/-- F2 witness: the code as found emits `enter a, exit, exit` for
    `[call a, call g, return g, return a]` under `-F a -N g`: the second prefix
    of length 3 has more exits than enters, the sequence is not balanced, and it
    is not the documented selection `enter a, exit`. -/
theorem c19_prefix_unbalanced_witness :
    (run (cfgMixed false) St.init (eventsL progAG)).2 = [.enter 0, .exit, .exit] ∧
    ¬ Balanced (run (cfgMixed false) St.init (eventsL progAG)).2 ∧
    enters ((run (cfgMixed false) St.init (eventsL progAG)).2.take 3) <
      exits ((run (cfgMixed false) St.init (eventsL progAG)).2.take 3) ∧
    specCalls (cfgMixed false) false false 0 progAG = [.enter 0, .exit] := by
  decide

/-- the same program with the repaired code -/
example : (run (cfgMixed true) St.init (eventsL progAG)).2 = [.enter 0, .exit] := by decide

/-- non-vacuity of the `WF` hypothesis: program start, and the state inside
    `a()` of the example -/
example : WF (cfgMixed true) St.init := wf_init _
example : WF (cfgMixed true) { cin := 1, cout := 0, lib := 0 } := by
  simp [WF, cfgMixed, Cfg.gmode]

/-- non-vacuity of `c19_prefix_agrees_without_mixing`: an `-N`-only and an
    `-F`-only configuration satisfy its hypothesis -/
example : (cfgMixed false).gmode = .fin := by decide
example : ({ cfgMixed false with filters := some [{ hit := fun n => n == 1, mode := .fout }] } : Cfg Nat).gmode
    ≠ .fin := by decide
example : ∀ n, firstMatch ({ cfgMixed false with
    filters := some [{ hit := fun n => n == 0, mode := .fin }] } : Cfg Nat).flist n ≠ some .fout := by
  intro n
  simp only [Cfg.flist, firstMatch]
  split <;> simp

/-- non-vacuity of `c19_stray_return_unpaired_exit`: a library function that no
    filter names, default mode -/
example : (({ cfgMixed true with isLib := fun n => n == 7 } : Cfg Nat).isLib 7 = true) ∧
    firstMatch ({ cfgMixed true with isLib := fun n => n == 7 } : Cfg Nat).flist 7 = none := by decide

/-- non-vacuity of the address theorems: the table after `[call 5, call 3, return 3]` -/
example : symsOf [] [(⟨.call, 5⟩ : Ev Nat), ⟨.call, 3⟩, ⟨.ret, 3⟩] = [5, 3] ∧
    addrOf [5, 3] 3 = 2 ∧ 3 ∈ [5, 3] := by decide

/-- the specification is not trivial: single-depth library calls with a
    callback (`a` → lib `1` → main `2` → lib `3`), default libcall mode -/
example :
    specCalls ({ fixed := true, filters := none, lmode := .single, isLib := fun n => n % 2 == 1 } : Cfg Nat)
      false false 0
      (.cons (.node 0 .py (.cons (.node 1 .c (.cons (.node 2 .py (.cons (.node 3 .cexc .nil) .nil)) .nil)) .nil)) .nil)
    = [.enter 0, .enter 1, .enter 2, .exit, .exit, .exit] := by decide

end Uft.PyTrace
